//go:build verif

package merlin

import (
	"io"
	"reflect"
	"unsafe"

	"github.com/oasisprotocol/curve25519-voi/internal/strobe"
)

// Verification-only accessors for C13 (grafted by the /verif overlay; never part of the repository).
// All three go through reflection (field "s" by name, held by value or by pointer), so that they keep
// compiling when the representation of the transcript, the builder or the reader changes.

// verifStrobeOf finds the STROBE object inside x (a pointer to / an interface holding a struct with a field "s").
// For a struct that is not addressable a snapshot copy is returned.
func verifStrobeOf(x interface{}) *strobe.Strobe {
	v := reflect.ValueOf(x)
	for v.IsValid() && (v.Kind() == reflect.Ptr || v.Kind() == reflect.Interface) {
		if v.IsNil() {
			return nil
		}
		v = v.Elem()
	}
	if !v.IsValid() || v.Kind() != reflect.Struct {
		return nil
	}
	if !v.CanAddr() {
		tmp := reflect.New(v.Type()).Elem()
		tmp.Set(v)
		v = tmp
	}
	f := v.FieldByName("s")
	if !f.IsValid() {
		return nil
	}
	want := reflect.TypeOf(strobe.Strobe{})
	switch {
	case f.Type() == want:
		return (*strobe.Strobe)(unsafe.Pointer(f.UnsafeAddr()))
	case f.Kind() == reflect.Ptr && f.Type().Elem() == want:
		return *(**strobe.Strobe)(unsafe.Pointer(f.UnsafeAddr()))
	}
	return nil
}

// VerifStrobe exposes the transcript's STROBE object.
func VerifStrobe(t *Transcript) *strobe.Strobe { return verifStrobeOf(t) }

// VerifBuilderStrobe exposes the RNG builder's STROBE object (nil after Finalize).
func VerifBuilderStrobe(rb *TranscriptRngBuilder) *strobe.Strobe { return verifStrobeOf(rb) }

// VerifRngStrobe exposes the STROBE object of a reader returned by Finalize (nil if r is something else).
func VerifRngStrobe(r io.Reader) *strobe.Strobe { return verifStrobeOf(r) }

// VerifMissing reports whether the transcript's STROBE object can still be located ("" = yes).
func VerifMissing() string {
	if verifStrobeOf(&Transcript{}) == nil {
		return "Transcript.s"
	}
	return ""
}
