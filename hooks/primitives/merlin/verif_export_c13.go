//go:build verif

package merlin

import (
	"io"
	"reflect"
	"unsafe"

	"github.com/oasisprotocol/curve25519-voi/internal/strobe"
)

// Verification-only accessors for C13 (grafted by the /verif overlay; never part of the repository).

// VerifStrobe exposes the transcript's STROBE object.
func VerifStrobe(t *Transcript) *strobe.Strobe { return &t.s }

// VerifBuilderStrobe exposes the RNG builder's STROBE object (nil after Finalize).
func VerifBuilderStrobe(rb *TranscriptRngBuilder) *strobe.Strobe { return rb.s }

// VerifRngStrobe exposes the STROBE object of a reader returned by Finalize (nil if r is something else).
// It goes through reflection so that it keeps compiling whether the reader holds its state by pointer or by
// value and whether Finalize returns a pointer or a value (for a value, a snapshot copy is returned).
func VerifRngStrobe(r io.Reader) *strobe.Strobe {
	v := reflect.ValueOf(r)
	for v.IsValid() && (v.Kind() == reflect.Ptr || v.Kind() == reflect.Interface) {
		if v.IsNil() {
			return nil
		}
		v = v.Elem()
	}
	if !v.IsValid() || v.Kind() != reflect.Struct {
		return nil
	}
	if !v.CanAddr() {
		tmp := reflect.New(v.Type()).Elem()
		tmp.Set(v)
		v = tmp
	}
	f := v.FieldByName("s")
	if !f.IsValid() {
		return nil
	}
	want := reflect.TypeOf(strobe.Strobe{})
	switch {
	case f.Type() == want:
		return (*strobe.Strobe)(unsafe.Pointer(f.UnsafeAddr()))
	case f.Kind() == reflect.Ptr && f.Type().Elem() == want:
		return *(**strobe.Strobe)(unsafe.Pointer(f.UnsafeAddr()))
	}
	return nil
}
