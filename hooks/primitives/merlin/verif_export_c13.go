//go:build verif

package merlin

import (
	"io"

	"github.com/oasisprotocol/curve25519-voi/internal/strobe"
)

// Verification-only accessors for C13 (grafted by the /verif overlay; never part of the repository).

// VerifStrobe exposes the transcript's STROBE object.
func VerifStrobe(t *Transcript) *strobe.Strobe { return &t.s }

// VerifBuilderStrobe exposes the RNG builder's STROBE object (nil after Finalize).
func VerifBuilderStrobe(rb *TranscriptRngBuilder) *strobe.Strobe { return rb.s }

// VerifRngStrobe exposes the STROBE object of a reader returned by Finalize (nil if r is something else).
func VerifRngStrobe(r io.Reader) *strobe.Strobe {
	if tr, ok := r.(*transcriptRng); ok {
		return tr.s
	}
	return nil
}
