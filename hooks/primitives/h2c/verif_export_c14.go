//go:build verif

package h2c

import "github.com/oasisprotocol/curve25519-voi/curve"

// Verification-only accessors (grafted by the /verif overlay; never part of the repository).

const (
	VerifEncodeToCurveSize = encodeToCurveSize
	VerifHashToCurveSize   = hashToCurveSize
)

// VerifHashToCurve runs the random-oracle pipeline on 96 caller-chosen uniform bytes.
func VerifHashToCurve(uniform *[hashToCurveSize]byte) *curve.EdwardsPoint {
	return hashToCurve(uniform)
}

// VerifEncodeToCurve runs the non-uniform pipeline on 48 caller-chosen uniform bytes.
func VerifEncodeToCurve(uniform *[encodeToCurveSize]byte) *curve.EdwardsPoint {
	return encodeToCurve(uniform)
}

// VerifUniformToField returns the canonical little-endian encoding of the field
// element derived from 48 big-endian uniform bytes.
func VerifUniformToField(b []byte) [32]byte {
	var out [32]byte
	_ = uniformToField25519(b).ToBytes(out[:])
	return out
}
