//go:build verif

package sr25519

import (
	"reflect"
	"unsafe"

	"github.com/oasisprotocol/curve25519-voi/curve"
	"github.com/oasisprotocol/curve25519-voi/curve/scalar"
	"github.com/oasisprotocol/curve25519-voi/primitives/merlin"
)

// Verification-only accessors for C12 (grafted by the /verif overlay; never part of the repository).
//
// Struct state is read through reflection BY FIELD NAME, so that this file keeps compiling when a field is
// renamed, re-typed or removed; what cannot be read is reported in a `missing` list and the harness skips the
// corresponding comparison.  The accessor that names an unexported FUNCTION lives in verif_export_c12_challenge.go.

func verifField(v reflect.Value, name string) (reflect.Value, bool) {
	for v.IsValid() && (v.Kind() == reflect.Ptr || v.Kind() == reflect.Interface) {
		if v.IsNil() {
			return reflect.Value{}, false
		}
		v = v.Elem()
	}
	if !v.IsValid() || v.Kind() != reflect.Struct {
		return reflect.Value{}, false
	}
	f := v.FieldByName(name)
	if !f.IsValid() {
		return f, false
	}
	if f.CanAddr() {
		f = reflect.NewAt(f.Type(), unsafe.Pointer(f.UnsafeAddr())).Elem()
	}
	return f, true
}

func verifMerlin(x interface{}) *merlin.Transcript {
	f, ok := verifField(reflect.ValueOf(x), "t")
	if !ok || !f.CanInterface() {
		return nil
	}
	switch t := f.Interface().(type) {
	case *merlin.Transcript:
		return t
	case merlin.Transcript:
		return &t
	}
	return nil
}

// VerifTranscript exposes the Merlin transcript of a signing transcript (nil if it cannot be located).
func VerifTranscript(t *SigningTranscript) *merlin.Transcript { return verifMerlin(t) }

// VerifContextTranscript exposes the Merlin transcript of a signing context (nil if it cannot be located).
func VerifContextTranscript(c *SigningContext) *merlin.Transcript { return verifMerlin(c) }

// VerifBatchEntry is a copy of one batch entry (points in compressed form).
type VerifBatchEntry struct {
	CanBeValid   bool
	R, A         [32]byte
	S, Hram      [32]byte
	WitnessA     [32]byte
	WitnessR     [32]byte
	WitnessBytes [16]byte
}

func verifBytes(f reflect.Value, out []byte) bool {
	if !f.IsValid() || !f.CanInterface() {
		return false
	}
	switch x := f.Interface().(type) {
	case curve.RistrettoPoint:
		var c curve.CompressedRistretto
		c.SetRistrettoPoint(&x)
		copy(out, c[:])
	case *curve.RistrettoPoint:
		if x == nil {
			return false
		}
		var c curve.CompressedRistretto
		c.SetRistrettoPoint(x)
		copy(out, c[:])
	case scalar.Scalar:
		return x.ToBytes(out) == nil
	case *scalar.Scalar:
		return x != nil && x.ToBytes(out) == nil
	case curve.CompressedRistretto:
		copy(out, x[:])
	default:
		if f.Kind() == reflect.Array && f.Type().Elem().Kind() == reflect.Uint8 && f.Len() == len(out) {
			for i := range out {
				out[i] = byte(f.Index(i).Uint())
			}
			return true
		}
		return false
	}
	return true
}

// VerifBatchState copies every field of a batch verifier.  The arithmetic fields of an entry are only
// meaningful (and only read) when CanBeValid.  missing lists the field names that could not be read from
// this tree (by name and expected kind); ok=false means not even the entry list could be located.
func VerifBatchState(v *BatchVerifier) (entries []VerifBatchEntry, anyInvalid bool, missing []string, ok bool) {
	miss := map[string]bool{}
	note := func(n string) {
		if !miss[n] {
			miss[n] = true
			missing = append(missing, n)
		}
	}
	if f, found := verifField(reflect.ValueOf(v), "anyInvalid"); found && f.Kind() == reflect.Bool {
		anyInvalid = f.Bool()
	} else {
		note("anyInvalid")
	}
	es, found := verifField(reflect.ValueOf(v), "entries")
	if !found || es.Kind() != reflect.Slice {
		return nil, anyInvalid, append(missing, "entries"), false
	}
	for i := 0; i < es.Len(); i++ {
		e := es.Index(i)
		if e.Kind() == reflect.Ptr {
			e = e.Elem()
		}
		var o VerifBatchEntry
		if f, found := verifField(e, "canBeValid"); found && f.Kind() == reflect.Bool {
			o.CanBeValid = f.Bool()
		} else {
			note("canBeValid")
		}
		if o.CanBeValid {
			for _, it := range []struct {
				name string
				out  []byte
			}{{"R", o.R[:]}, {"A", o.A[:]}, {"S", o.S[:]}, {"hram", o.Hram[:]}, {"witnessA", o.WitnessA[:]}, {"witnessR", o.WitnessR[:]}, {"witnessBytes", o.WitnessBytes[:]}} {
				f, found := verifField(e, it.name)
				if !found || !verifBytes(f, it.out) {
					note(it.name)
				}
			}
		}
		entries = append(entries, o)
	}
	return entries, anyInvalid, missing, true
}

func verifNonNil(x interface{}, names ...string) bool {
	for _, n := range names {
		f, ok := verifField(reflect.ValueOf(x), n)
		if !ok {
			return false // cannot tell: the public-API checks then decide alone
		}
		switch f.Kind() {
		case reflect.Ptr, reflect.Slice, reflect.Map, reflect.Interface:
			if f.IsNil() {
				return false
			}
		}
	}
	return true
}

// VerifSignatureInitialised / VerifPublicKeyInitialised / VerifKeyPairInitialised report whether the lazily
// filled fields are set (false when the fields cannot be located: the public-API checks then decide alone).
func VerifSignatureInitialised(s *Signature) bool { return verifNonNil(s, "s") }
func VerifPublicKeyInitialised(p *PublicKey) bool { return verifNonNil(p, "point") }
func VerifKeyPairInitialised(k *KeyPair) bool     { return verifNonNil(k, "sk", "pk") }
