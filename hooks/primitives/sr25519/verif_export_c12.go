//go:build verif

package sr25519

import (
	"github.com/oasisprotocol/curve25519-voi/curve"
	"github.com/oasisprotocol/curve25519-voi/primitives/merlin"
)

// Verification-only accessors for C12 (grafted by the /verif overlay; never part of the repository).

// VerifChallenge returns the canonical bytes of the verifier's challenge scalar.
func VerifChallenge(pk *PublicKey, t *SigningTranscript, sig *Signature) []byte {
	b := make([]byte, 32)
	if err := deriveVerifyChallengeScalar(pk, t, sig).ToBytes(b); err != nil {
		panic(err)
	}
	return b
}

// VerifTranscript exposes the Merlin transcript of a signing transcript.
func VerifTranscript(t *SigningTranscript) *merlin.Transcript { return t.t }

// VerifContextTranscript exposes the Merlin transcript of a signing context.
func VerifContextTranscript(c *SigningContext) *merlin.Transcript { return c.t }

// VerifBatchEntry is a copy of one batch entry (points in compressed form).
type VerifBatchEntry struct {
	CanBeValid   bool
	R, A         [32]byte
	S, Hram      [32]byte
	WitnessA     [32]byte
	WitnessR     [32]byte
	WitnessBytes [16]byte
}

// VerifBatchState copies every field of a batch verifier.  The arithmetic
// fields of an entry are only meaningful (and only read) when CanBeValid.
func VerifBatchState(v *BatchVerifier) (entries []VerifBatchEntry, anyInvalid bool) {
	for i := range v.entries {
		e := &v.entries[i]
		o := VerifBatchEntry{CanBeValid: e.canBeValid}
		if e.canBeValid {
			var c curve.CompressedRistretto
			c.SetRistrettoPoint(&e.R)
			copy(o.R[:], c[:])
			c.SetRistrettoPoint(&e.A)
			copy(o.A[:], c[:])
			_ = e.S.ToBytes(o.S[:])
			_ = e.hram.ToBytes(o.Hram[:])
			copy(o.WitnessA[:], e.witnessA[:])
			copy(o.WitnessR[:], e.witnessR[:])
			o.WitnessBytes = e.witnessBytes
		}
		entries = append(entries, o)
	}
	return entries, v.anyInvalid
}

// VerifSignatureInitialised / VerifPublicKeyInitialised report whether the lazily filled fields are set.
func VerifSignatureInitialised(s *Signature) bool { return s.s != nil }
func VerifPublicKeyInitialised(p *PublicKey) bool { return p.point != nil }
func VerifKeyPairInitialised(k *KeyPair) bool     { return k.sk != nil && k.pk != nil }
