//go:build verif

package sr25519

// Fragile accessor (it names an unexported function): kept in its own file so that the driver can drop just
// this file when a change renames or re-types it; the C12 harness then builds its `verifmin` variant, which
// compares the challenge only through the batch entries and the signature bytes.

// VerifChallenge returns the canonical bytes of the verifier's challenge scalar.
func VerifChallenge(pk *PublicKey, t *SigningTranscript, sig *Signature) []byte {
	b := make([]byte, 32)
	if err := deriveVerifyChallengeScalar(pk, t, sig).ToBytes(b); err != nil {
		panic(err)
	}
	return b
}
