//go:build verif

package ed25519

import (
	"crypto/sha256"
	"fmt"
)

// VerifBatchState returns the three latches, the entry count and a digest of
// EVERY field of every entry of the real batch verifier (canonical state key
// for explicit-state exploration).
func VerifBatchState(v *BatchVerifier) (anyInvalid, anyCofactorless, anyNotExpanded bool, n int, digest string) {
	h := sha256.New()
	for i := range v.entries {
		e := &v.entries[i]
		r, _ := e.R.MarshalBinary()
		a, _ := e.negA.MarshalBinary()
		s, _ := e.S.MarshalBinary()
		k, _ := e.hram.MarshalBinary()
		exp := "-"
		if e.expandedA != nil {
			c := e.expandedA.CompressedY()
			exp = fmt.Sprintf("%x/%v/%v/%v", c[:], e.expandedA.isValidY, e.expandedA.isSmallOrder, e.expandedA.isCanonical)
		}
		fmt.Fprintf(h, "[%x|%x|%x|%x|%x|%s|%v|%v]", e.signature, r, a, s, k, exp, e.wantCofactorless, e.canBeValid)
	}
	return v.anyInvalid, v.anyCofactorless, v.anyNotExpanded, len(v.entries), fmt.Sprintf("%x", h.Sum(nil)[:12])
}

// VerifExpandedFlags exposes the cached admission flags of an expanded key.
func VerifExpandedFlags(k *ExpandedPublicKey) (validY, smallOrder, canonical bool) {
	return k.isValidY, k.isSmallOrder, k.isCanonical
}
