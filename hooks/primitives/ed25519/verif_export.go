//go:build verif

package ed25519

import (
	"crypto/sha256"
	"fmt"
	"hash"
	"reflect"
)

// verifDeep writes a canonical rendering of every field reachable from v (unexported ones included) into h.  It
// goes through reflection only, so it keeps compiling - and keeps covering the whole state - when fields are added,
// renamed or re-typed by the change under test.
func verifDeep(h hash.Hash, v reflect.Value, depth int) {
	if depth > 12 || !v.IsValid() {
		return
	}
	switch v.Kind() {
	case reflect.Ptr, reflect.Interface:
		if v.IsNil() {
			h.Write([]byte("<nil>"))
			return
		}
		h.Write([]byte("&"))
		verifDeep(h, v.Elem(), depth+1)
	case reflect.Struct:
		t := v.Type()
		h.Write([]byte("{"))
		for i := 0; i < v.NumField(); i++ {
			h.Write([]byte(t.Field(i).Name + ":"))
			verifDeep(h, v.Field(i), depth+1)
			h.Write([]byte(";"))
		}
		h.Write([]byte("}"))
	case reflect.Slice:
		if v.IsNil() {
			h.Write([]byte("<nilslice>"))
			return
		}
		fallthrough
	case reflect.Array:
		fmt.Fprintf(h, "[%d:", v.Len())
		if v.Len() > 0 && v.Index(0).Kind() == reflect.Uint8 {
			b := make([]byte, v.Len())
			for i := range b {
				b[i] = byte(v.Index(i).Uint())
			}
			h.Write(b)
		} else {
			for i := 0; i < v.Len(); i++ {
				verifDeep(h, v.Index(i), depth+1)
				h.Write([]byte(","))
			}
		}
		h.Write([]byte("]"))
	case reflect.Bool:
		fmt.Fprintf(h, "%v", v.Bool())
	case reflect.Int, reflect.Int8, reflect.Int16, reflect.Int32, reflect.Int64:
		fmt.Fprintf(h, "%d", v.Int())
	case reflect.Uint, reflect.Uint8, reflect.Uint16, reflect.Uint32, reflect.Uint64, reflect.Uintptr:
		fmt.Fprintf(h, "%d", v.Uint())
	case reflect.String:
		h.Write([]byte(v.String()))
	case reflect.Map:
		fmt.Fprintf(h, "map[%d]", v.Len())
	}
}

func verifFlag(v reflect.Value, name string) bool {
	f := v.FieldByName(name)
	return f.IsValid() && f.Kind() == reflect.Bool && f.Bool()
}

// VerifBatchState returns the three latches, the entry count and a digest of EVERY field of the real batch verifier
// and of every entry (canonical state key for explicit-state exploration).  Entries beyond len() in the backing array
// are not state.
func VerifBatchState(v *BatchVerifier) (anyInvalid, anyCofactorless, anyNotExpanded bool, n int, digest string) {
	rv := reflect.ValueOf(v).Elem()
	h := sha256.New()
	verifDeep(h, rv, 0)
	if e := rv.FieldByName("entries"); e.IsValid() && e.Kind() == reflect.Slice {
		n = e.Len()
	}
	return verifFlag(rv, "anyInvalid"), verifFlag(rv, "anyCofactorless"), verifFlag(rv, "anyNotExpanded"), n, fmt.Sprintf("%x", h.Sum(nil)[:12])
}

// VerifExpandedFlags exposes the cached admission flags of an expanded key.
func VerifExpandedFlags(k *ExpandedPublicKey) (validY, smallOrder, canonical bool) {
	rv := reflect.ValueOf(k).Elem()
	return verifFlag(rv, "isValidY"), verifFlag(rv, "isSmallOrder"), verifFlag(rv, "isCanonical")
}
