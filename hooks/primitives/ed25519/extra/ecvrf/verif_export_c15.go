//go:build verif

package ecvrf

import "github.com/oasisprotocol/curve25519-voi/curve"

// Verification-only accessors (grafted by the /verif overlay; never part of the repository).

// VerifEncodeToCurve exposes ECVRF_encode_to_curve (H) as a compressed point.
func VerifEncodeToCurve(salt, alpha []byte) ([]byte, error) {
	H, err := encodeToCurveH2cSuite(salt, alpha)
	if err != nil {
		return nil, err
	}
	var c curve.CompressedEdwardsY
	c.SetEdwardsPoint(H)
	return append([]byte{}, c[:]...), nil
}

// VerifChallenge exposes ECVRF_challenge_generation on (p1 | nil, p2, p3 as strings, p4, p5 as points).
func VerifChallenge(p1, p2, p3 []byte, p4, p5 *curve.EdwardsPoint) ([]byte, error) {
	var c2, c3 curve.CompressedEdwardsY
	if _, err := c2.SetBytes(p2); err != nil {
		return nil, err
	}
	if _, err := c3.SetBytes(p3); err != nil {
		return nil, err
	}
	c := challengeGeneration(p1, &c2, &c3, p4, p5)
	out := make([]byte, 32)
	if err := c.ToBytes(out); err != nil {
		return nil, err
	}
	return out, nil
}
