//go:build verif

package cache

import (
	"fmt"

	"github.com/oasisprotocol/curve25519-voi/curve"
)

// VerifLRUState reads the real LRU cache: keys in recency order (most recent
// first), the size of the index, the capacity, and every structural
// inconsistency between index and recency list.  Caller must hold no lock and
// no other thread may be running.
func VerifLRUState(c Cache) (order []curve.CompressedEdwardsY, storeLen, capacity int, problems []string) {
	l, ok := c.(*lruCache)
	if !ok {
		return nil, 0, 0, []string{"not an lruCache"}
	}
	storeLen, capacity = len(l.store), l.capacity
	seen := map[curve.CompressedEdwardsY]bool{}
	n := 0
	for el := l.list.Front(); el != nil; el = el.Next() {
		n++
		if n > 1<<16 {
			problems = append(problems, "recency list is cyclic or huge")
			break
		}
		ent, ok := el.Value.(*lruEntry)
		if !ok || ent == nil {
			problems = append(problems, "list element does not hold an entry")
			continue
		}
		if ent.element != el {
			problems = append(problems, "entry.element does not point at its list element")
		}
		if ent.publicKey == nil {
			problems = append(problems, "entry without expanded key")
			continue
		}
		k := ent.publicKey.CompressedY()
		order = append(order, k)
		if seen[k] {
			problems = append(problems, fmt.Sprintf("key %x twice in recency list", k[:4]))
		}
		seen[k] = true
		if l.store[k] != ent {
			problems = append(problems, fmt.Sprintf("index entry for %x is not the list entry", k[:4]))
		}
	}
	if l.list.Len() != n {
		problems = append(problems, fmt.Sprintf("list.Len()=%d but %d elements reachable", l.list.Len(), n))
	}
	if len(l.store) != n {
		problems = append(problems, fmt.Sprintf("index has %d entries, recency list %d", len(l.store), n))
	}
	if n > l.capacity {
		problems = append(problems, fmt.Sprintf("%d entries exceed capacity %d", n, l.capacity))
	}
	for k, ent := range l.store {
		if ent == nil || ent.publicKey == nil {
			problems = append(problems, "nil index entry")
			continue
		}
		if ent.publicKey.CompressedY() != k {
			problems = append(problems, fmt.Sprintf("index key %x maps to expansion of %x", k[:4], func() []byte { c := ent.publicKey.CompressedY(); return c[:4] }()))
		}
	}
	return
}
