//go:build verif

package cache

import (
	"container/list"
	"fmt"
	"reflect"
	"sort"
	"unsafe"

	"github.com/oasisprotocol/curve25519-voi/curve"
	"github.com/oasisprotocol/curve25519-voi/primitives/ed25519"
)

// verifField returns an addressable, readable view of the first field of struct v whose type satisfies pick (fields are
// found by TYPE, not by name, so that the accessor keeps compiling and working when the change under test renames or
// adds fields).
func verifField(v reflect.Value, pick func(t reflect.Type) bool) (reflect.Value, bool) {
	for i := 0; i < v.NumField(); i++ {
		f := v.Field(i)
		if pick(f.Type()) {
			if f.CanAddr() {
				f = reflect.NewAt(f.Type(), unsafe.Pointer(f.UnsafeAddr())).Elem()
			}
			return f, true
		}
	}
	return reflect.Value{}, false
}

// VerifUninspectable is the only "problem" reported when the cache no longer has the shape this accessor can read (an
// index map keyed by the compressed key, a container/list recency list, an int capacity).  That is not a violation - a
// refactoring may legitimately change the representation: the harnesses then fall back to purely behavioural oracles.
const VerifUninspectable = "UNINSPECTABLE: lruCache no longer has an index map keyed by the compressed key, a container/list recency list and an int capacity"

var (
	verifKeyType  = reflect.TypeOf(curve.CompressedEdwardsY{})
	verifListType = reflect.TypeOf(list.List{})
	verifElemType = reflect.TypeOf((*list.Element)(nil))
	verifExpType  = reflect.TypeOf((*ed25519.ExpandedPublicKey)(nil))
)

// VerifLRUState reads the real LRU cache: keys in recency order (most recent first), the size of the index, the
// capacity, and every structural inconsistency between index and recency list.  Caller must hold no lock and no other
// thread may be running.
func VerifLRUState(c Cache) (order []curve.CompressedEdwardsY, storeLen, capacity int, problems []string) {
	l, ok := c.(*lruCache)
	if !ok {
		return nil, 0, 0, []string{"not an lruCache"}
	}
	rv := reflect.ValueOf(l).Elem()
	storeV, ok1 := verifField(rv, func(t reflect.Type) bool { return t.Kind() == reflect.Map && t.Key() == verifKeyType })
	listV, ok2 := verifField(rv, func(t reflect.Type) bool {
		return t == verifListType || (t.Kind() == reflect.Ptr && t.Elem() == verifListType)
	})
	capV, ok3 := verifField(rv, func(t reflect.Type) bool { return t.Kind() == reflect.Int })
	if !ok1 || !ok2 || !ok3 {
		return nil, 0, 0, []string{VerifUninspectable}
	}
	var lst *list.List
	if listV.Kind() == reflect.Ptr {
		lst = listV.Interface().(*list.List)
	} else {
		lst = listV.Addr().Interface().(*list.List)
	}
	storeLen, capacity = storeV.Len(), int(capV.Int())
	// an entry: anything (pointer to) struct with an expanded key and a list element inside
	entryOf := func(x interface{}) (exp *ed25519.ExpandedPublicKey, el *list.Element, id uintptr, ok bool) {
		v := reflect.ValueOf(x)
		if !v.IsValid() || v.Kind() != reflect.Ptr || v.IsNil() || v.Elem().Kind() != reflect.Struct {
			return nil, nil, 0, false
		}
		id = v.Pointer()
		e := v.Elem()
		if f, ok := verifField(e, func(t reflect.Type) bool { return t == verifExpType }); ok {
			exp, _ = f.Interface().(*ed25519.ExpandedPublicKey)
		}
		if f, ok := verifField(e, func(t reflect.Type) bool { return t == verifElemType }); ok {
			el, _ = f.Interface().(*list.Element)
		}
		return exp, el, id, true
	}
	seen := map[curve.CompressedEdwardsY]bool{}
	n := 0
	for el := lst.Front(); el != nil; el = el.Next() {
		n++
		if n > 1<<16 {
			problems = append(problems, "recency list is cyclic or huge")
			break
		}
		exp, back, id, ok := entryOf(el.Value)
		if !ok {
			problems = append(problems, "list element does not hold an entry")
			continue
		}
		if back != el {
			problems = append(problems, "entry.element does not point at its list element")
		}
		if exp == nil {
			problems = append(problems, "entry without expanded key")
			continue
		}
		k := exp.CompressedY()
		order = append(order, k)
		if seen[k] {
			problems = append(problems, fmt.Sprintf("key %x twice in recency list", k[:4]))
		}
		seen[k] = true
		sv := storeV.MapIndex(reflect.ValueOf(k))
		if !sv.IsValid() || sv.Kind() != reflect.Ptr || sv.Pointer() != id {
			problems = append(problems, fmt.Sprintf("index entry for %x is not the list entry", k[:4]))
		}
	}
	if lst.Len() != n {
		problems = append(problems, fmt.Sprintf("list.Len()=%d but %d elements reachable", lst.Len(), n))
	}
	if storeLen != n {
		problems = append(problems, fmt.Sprintf("index has %d entries, recency list %d", storeLen, n))
	}
	if n > capacity {
		problems = append(problems, fmt.Sprintf("%d entries exceed capacity %d", n, capacity))
	}
	it := storeV.MapRange()
	for it.Next() {
		k := it.Key().Interface().(curve.CompressedEdwardsY)
		ev := it.Value()
		if ev.Kind() != reflect.Ptr || ev.IsNil() {
			problems = append(problems, "nil index entry")
			continue
		}
		ee := ev.Elem()
		f, ok := verifField(ee, func(t reflect.Type) bool { return t == verifExpType })
		if !ok {
			continue
		}
		var exp *ed25519.ExpandedPublicKey
		if f.CanInterface() {
			exp, _ = f.Interface().(*ed25519.ExpandedPublicKey)
		} else if !f.IsNil() {
			exp = (*ed25519.ExpandedPublicKey)(unsafe.Pointer(f.Pointer()))
		}
		if exp == nil {
			problems = append(problems, "nil index entry")
			continue
		}
		if ck := exp.CompressedY(); ck != k {
			problems = append(problems, fmt.Sprintf("index key %x maps to expansion of %x", k[:4], ck[:4]))
		}
	}
	sort.Strings(problems) // the index is a map: keep the report deterministic
	return
}
