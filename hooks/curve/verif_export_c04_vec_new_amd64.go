//go:build verif && amd64 && !purego && !force32bit

package curve

import "github.com/oasisprotocol/curve25519-voi/internal/field"

// Fragile accessor kept in its own file: if the identifier it reads is renamed or re-typed, the driver drops only this
// file (degraded build) and only the sub-space that needs it is capped; everything else still runs.

func init() {
	// newFieldElement2625x4 of four field elements
	VerifC04Reg["vec.new"] = func(a, b, c, d *field.Element) VerifLanes {
		v := newFieldElement2625x4(a, b, c, d)
		return verifVecLanes(&v)
	}
}
