//go:build verif && amd64 && !purego && !force32bit

package curve

import "github.com/oasisprotocol/curve25519-voi/internal/field"

// Fragile accessor kept in its own file: if the identifier it reads is renamed or re-typed, the driver drops only this
// file (degraded build) and only the sub-space that needs it is capped; everything else still runs.

func init() {
	VerifC04Reg["vec.split"] = func(l *VerifLanes) (out [4]field.Element) {
		v := verifVecFromLanes(l)
		v.Split(&out[0], &out[1], &out[2], &out[3])
		return
	}
}
