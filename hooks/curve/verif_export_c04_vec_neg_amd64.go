//go:build verif && amd64 && !purego && !force32bit

package curve

// Fragile accessor kept in its own file: if the identifier it reads is renamed or re-typed, the driver drops only this
// file (degraded build) and only the sub-space that needs it is capped; everything else still runs.

func init() {
	VerifC04Reg["vec.neg"] = func(l *VerifLanes) VerifLanes {
		v := verifVecFromLanes(l)
		v.Neg()
		return verifVecLanes(&v)
	}
}
