//go:build verif

package scalar

// Verification-only accessors for C20: the unpacked-scalar constants of the active backend.

func verifWiden(s *unpackedScalar) []uint64 {
	out := make([]uint64, len(s))
	for i, v := range s {
		out[i] = uint64(v)
	}
	return out
}

// VerifC20ScalarConstants returns (L, R, RR) limbs, LFACTOR, and the limb width in bits (52 or 29).
func VerifC20ScalarConstants() (l, r, rr []uint64, lfactor uint64, limbBits uint) {
	bits := uint(52)
	if len(constL) == 9 {
		bits = 29
	}
	return verifWiden(&constL), verifWiden(&constR), verifWiden(&constRR), uint64(constLFACTOR), bits
}

// VerifC20Order returns the `order` words used by ScMinimalVartime.
func VerifC20Order() [4]uint64 { return order }
