//go:build verif

package scalar

// VerifC20Reg: accessors looked up by name at run time; one small file per constant registers itself here.
var VerifC20Reg = map[string]interface{}{}

func verifWiden(s *unpackedScalar) []uint64 {
	out := make([]uint64, len(s))
	for i, v := range s {
		out[i] = uint64(v)
	}
	return out
}
