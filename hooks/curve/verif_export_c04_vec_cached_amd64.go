//go:build verif && amd64 && !purego && !force32bit

package curve

// Fragile accessor kept in its own file: if the identifier it reads is renamed or re-typed, the driver drops only this
// file (degraded build) and only the sub-space that needs it is capped; everything else still runs.

func init() {
	// (A, B, C, D) -> (B, A, C, -D) without reduction
	VerifC04Reg["vec.neglazycached"] = func(l *VerifLanes) VerifLanes {
		cp := cachedPoint{inner: verifVecFromLanes(l)}
		var out fieldElement2625x4
		vecNegateLazyCached_AVX2(&out, &cp)
		return verifVecLanes(&out)
	}
	// cachedPoint.ConditionalNegate (output aliases the input inside the library)
	VerifC04Reg["vec.cachedcondneg"] = func(l *VerifLanes, choice int) VerifLanes {
		cp := cachedPoint{inner: verifVecFromLanes(l)}
		cp.ConditionalNegate(choice)
		return verifVecLanes(&cp.inner)
	}
	VerifC04Reg["vec.cachedfromext1"] = func(l *VerifLanes) VerifLanes {
		ep := extendedPoint{inner: verifVecFromLanes(l)}
		var cp cachedPoint
		vecCachedFromExtended_Step1_AVX2(&cp, &ep)
		return verifVecLanes(&cp.inner)
	}
	VerifC04Reg["vec.cachedsetext"] = func(l *VerifLanes) VerifLanes {
		ep := extendedPoint{inner: verifVecFromLanes(l)}
		var cp cachedPoint
		cp.SetExtended(&ep)
		return verifVecLanes(&cp.inner)
	}
}
