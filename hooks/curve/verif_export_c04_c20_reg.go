//go:build verif

package curve

import "github.com/oasisprotocol/curve25519-voi/internal/field"

// Registries for the C04 / C20 accessors.  The harnesses look every accessor up BY NAME at run time, so they
// compile no matter which of the small accessor files below still compile against the tree under test; an accessor
// that is absent only caps (exhaustive:false) the sub-space that needs it.  This file references no unexported
// identifier of the library.
var (
	VerifC04Reg = map[string]interface{}{}
	VerifC20Reg = map[string]interface{}{}
)

// VerifAffineNiels is an affine Niels point (y+x, y-x, 2dxy) in a neutral form.
type VerifAffineNiels struct {
	YPlusX, YMinusX, XY2d field.Element
}

// VerifLanes holds four radix-2^25.5 lanes (A, B, C, D) of a field-element vector, de-interleaved.
type VerifLanes = [4][10]uint32
