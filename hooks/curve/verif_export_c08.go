//go:build verif

package curve

// Lookup-table accessors for the constant-time trace comparison (C08).

type VerifLookupTables struct {
	pn        projectiveNielsPointLookupTable
	an        affineNielsPointLookupTable
	cached    cachedPointLookupTable
	HasCached bool
}

var (
	verifSinkPN     projectiveNielsPoint
	verifSinkAN     affineNielsPoint
	verifSinkCached cachedPoint
)

func VerifNewLookupTables(p *EdwardsPoint) *VerifLookupTables {
	t := &VerifLookupTables{}
	t.pn = newProjectiveNielsPointLookupTable(p)
	t.an = newAffineNielsPointLookupTable(p)
	if supportsVectorizedEdwards {
		t.cached = newCachedPointLookupTable(p)
		t.HasCached = true
	}
	return t
}

func (t *VerifLookupTables) LookupPN(x int8)     { verifSinkPN = t.pn.Lookup(x) }
func (t *VerifLookupTables) LookupAN(x int8)     { verifSinkAN = t.an.Lookup(x) }
func (t *VerifLookupTables) LookupCached(x int8) { verifSinkCached = t.cached.Lookup(x) }
