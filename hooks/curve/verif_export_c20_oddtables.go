//go:build verif

package curve

// Fragile accessor kept in its own file: if the identifier it reads is renamed or re-typed, the driver drops only this
// file (degraded build) and only the sub-space that needs it is capped; everything else still runs.

func init() {
	sel := func(which int) *affineNielsPointNafLookupTable {
		if which == 2 {
			return &constAFFINE_ODD_MULTIPLES_OF_B_SHL_128
		}
		return &constAFFINE_ODD_MULTIPLES_OF_BASEPOINT
	}
	VerifC20Reg["affineOdd"] = func(which int) []VerifAffineNiels {
		tbl := sel(which)
		var out []VerifAffineNiels
		for i := range tbl {
			out = append(out, verifAN(&tbl[i]))
		}
		return out
	}
	VerifC20Reg["affineOddLookup"] = func(which int, x uint8) VerifAffineNiels { return verifAN(sel(which).Lookup(x)) }
}
