//go:build verif && amd64 && !purego && !force32bit

package curve

// Fragile accessor kept in its own file: if the identifier it reads is renamed or re-typed, the driver drops only this
// file (degraded build) and only the sub-space that needs it is capped; everything else still runs.

func init() {
	// alias 0: out distinct; 1: out == a; 2: out == b; 3: out == a == b (a is used)
	VerifC04Reg["vec.select"] = func(a, b *VerifLanes, choice, alias int) VerifLanes {
		x, y := verifVecFromLanes(a), verifVecFromLanes(b)
		var out fieldElement2625x4
		switch alias {
		case 1:
			x.ConditionalSelect(&x, &y, choice)
			out = x
		case 2:
			y.ConditionalSelect(&x, &y, choice)
			out = y
		case 3:
			x.ConditionalSelect(&x, &x, choice)
			out = x
		default:
			out.ConditionalSelect(&x, &y, choice)
		}
		return verifVecLanes(&out)
	}
	// same == true: x.ConditionalAssign(x, choice)
	VerifC04Reg["vec.assign"] = func(a, b *VerifLanes, choice int, same bool) VerifLanes {
		x, y := verifVecFromLanes(a), verifVecFromLanes(b)
		if same {
			x.ConditionalAssign(&x, choice)
		} else {
			x.ConditionalAssign(&y, choice)
		}
		return verifVecLanes(&x)
	}
}
