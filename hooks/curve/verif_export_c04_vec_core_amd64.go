//go:build verif && amd64 && !purego && !force32bit

package curve

// Lane packing shared by the vector accessors (layout of fieldElement2625x4:
// [a_2i, b_2i, a_2i+1, b_2i+1, c_2i, d_2i, c_2i+1, d_2i+1] per row i).

var verifLanePos = [4][2]int{{0, 2}, {1, 3}, {4, 6}, {5, 7}}

func verifVecFromLanes(l *VerifLanes) (v fieldElement2625x4) {
	for k := 0; k < 4; k++ {
		for j := 0; j < 10; j++ {
			v.inner[j/2][verifLanePos[k][j&1]] = l[k][j]
		}
	}
	return
}

func verifVecLanes(v *fieldElement2625x4) (l VerifLanes) {
	for k := 0; k < 4; k++ {
		for j := 0; j < 10; j++ {
			l[k][j] = v.inner[j/2][verifLanePos[k][j&1]]
		}
	}
	return
}
