//go:build verif

package curve

// Fragile accessor kept in its own file: if the identifier it reads is renamed or re-typed, the driver drops only this
// file (degraded build) and only the sub-space that needs it is capped; everything else still runs.

func init() {
	// the library's unpacking of the embedded 32x8 table, run afresh (rows as slices: a short table stays observable)
	VerifC20Reg["unpackBasepointTable"] = func() [][]VerifAffineNiels {
		tbl := unpackEdwardsBasepointTable()
		var out [][]VerifAffineNiels
		for i := range tbl {
			var row []VerifAffineNiels
			for j := range tbl[i] {
				row = append(row, verifAN(&tbl[i][j]))
			}
			out = append(out, row)
		}
		return out
	}
	VerifC20Reg["unpackedLookup"] = func(i int, x int8) VerifAffineNiels {
		tbl := unpackEdwardsBasepointTable()
		p := tbl[i].Lookup(x)
		return verifAN(&p)
	}
}
