//go:build verif

package curve

// Fragile accessor kept in its own file: if the identifier it reads is renamed or re-typed, the driver drops only this
// file (degraded build) and only the sub-space that needs it is capped; everything else still runs.

func init() {
	VerifC20Reg["affineNielsToEdwards"] = func(a *VerifAffineNiels) *EdwardsPoint {
		var p EdwardsPoint
		return p.setAffineNiels(a.inner())
	}
	VerifC20Reg["affineNielsIdentity"] = func() VerifAffineNiels {
		var p affineNielsPoint
		p.Identity()
		return verifAN(&p)
	}
}
