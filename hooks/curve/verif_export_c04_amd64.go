//go:build verif && amd64 && !purego && !force32bit

package curve

import "github.com/oasisprotocol/curve25519-voi/internal/field"

// Verification-only accessors to the AVX2 field-vector routines (C04).
// Only wrappers: every call goes straight to the routine the library uses.

// VerifVec wraps a fieldElement2625x4 (four field elements A, B, C, D in
// radix 2^25.5, interleaved as [a_2i, b_2i, a_2i+1, b_2i+1, c_2i, d_2i, c_2i+1, d_2i+1]).
type VerifVec struct{ v fieldElement2625x4 }

// position of (even limb, odd limb) of lane k inside one [8]uint32 row.
var verifLanePos = [4][2]int{{0, 2}, {1, 3}, {4, 6}, {5, 7}}

// VerifVecFromLanes builds a vector from raw radix-2^25.5 limbs (no reduction).
func VerifVecFromLanes(l *[4][10]uint32) *VerifVec {
	var v VerifVec
	for k := 0; k < 4; k++ {
		for j := 0; j < 10; j++ {
			v.v.inner[j/2][verifLanePos[k][j&1]] = l[k][j]
		}
	}
	return &v
}

// Lanes returns the raw limbs of the four lanes.
func (v *VerifVec) Lanes() (l [4][10]uint32) {
	for k := 0; k < 4; k++ {
		for j := 0; j < 10; j++ {
			l[k][j] = v.v.inner[j/2][verifLanePos[k][j&1]]
		}
	}
	return
}

// VerifVecNew is newFieldElement2625x4.
func VerifVecNew(a, b, c, d *field.Element) *VerifVec {
	return &VerifVec{v: newFieldElement2625x4(a, b, c, d)}
}

// Split is fieldElement2625x4.Split.
func (v *VerifVec) Split() (a, b, c, d field.Element) {
	v.v.Split(&a, &b, &c, &d)
	return
}

// Copy returns a copy.
func (v *VerifVec) Copy() *VerifVec { c := *v; return &c }

// Mul sets v = a * b (aliasing allowed, as in the library).
func (v *VerifVec) Mul(a, b *VerifVec) { v.v.Mul(&a.v, &b.v) }

// SquareAndNegateD squares in place and negates lane D.
func (v *VerifVec) SquareAndNegateD() { v.v.SquareAndNegateD() }

// Neg negates in place (with reduction).
func (v *VerifVec) Neg() { v.v.Neg() }

// Reduce reduces in place.
func (v *VerifVec) Reduce() { v.v.Reduce() }

// ConditionalSelect sets v = a (choice 0) or b (choice 1).
func (v *VerifVec) ConditionalSelect(a, b *VerifVec, choice int) {
	v.v.ConditionalSelect(&a.v, &b.v, choice)
}

// ConditionalAssign sets v = o iff choice == 1.
func (v *VerifVec) ConditionalAssign(o *VerifVec, choice int) { v.v.ConditionalAssign(&o.v, choice) }

// VerifVecAddSubStep1: (X, Y, Z, T) -> (Y-X, Y+X, Z, T), lazily (no reduction).
func VerifVecAddSubStep1(in *VerifVec) *VerifVec {
	var out VerifVec
	ep := extendedPoint{inner: in.v}
	vecAddSubExtendedCached_Step1_AVX2(&out.v, &ep)
	return &out
}

// VerifVecAddSubStep2 runs the second lazy shuffle/diff-sum step on a copy of tmp0.
func VerifVecAddSubStep2(tmp0 *VerifVec) (t0, t1 *VerifVec) {
	t0 = tmp0.Copy()
	t1 = &VerifVec{}
	vecAddSubExtendedCached_Step2_AVX2(&t0.v, &t1.v)
	return
}

// VerifVecDoubleStep1: (X, Y, Z, T) -> (X, Y, Z, X+Y).
func VerifVecDoubleStep1(in *VerifVec) *VerifVec {
	var out VerifVec
	ep := extendedPoint{inner: in.v}
	vecDoubleExtended_Step1_AVX2(&out.v, &ep)
	return &out
}

// VerifVecDoubleStep2 runs the second doubling step on a copy of tmp1 (the squared vector).
func VerifVecDoubleStep2(tmp1 *VerifVec) (t0, t1 *VerifVec) {
	t1 = tmp1.Copy()
	t0 = &VerifVec{}
	vecDoubleExtended_Step2_AVX2(&t0.v, &t1.v)
	return
}

// VerifVecNegateLazyCached: (A, B, C, D) -> (B, A, C, -D) without reduction.
func VerifVecNegateLazyCached(in *VerifVec) *VerifVec {
	var out VerifVec
	cp := cachedPoint{inner: in.v}
	vecNegateLazyCached_AVX2(&out.v, &cp)
	return &out
}

// VerifVecCachedConditionalNegate is cachedPoint.ConditionalNegate on a copy.
func VerifVecCachedConditionalNegate(in *VerifVec, choice int) *VerifVec {
	cp := cachedPoint{inner: in.v}
	cp.ConditionalNegate(choice)
	return &VerifVec{v: cp.inner}
}

// VerifVecCachedFromExtendedStep1: (X,Y,Z,T) -> ((Y-X), (Y+X), Z, T) * (121666, 121666, 2*121666, 2*121665), reduced.
func VerifVecCachedFromExtendedStep1(in *VerifVec) *VerifVec {
	var cp cachedPoint
	ep := extendedPoint{inner: in.v}
	vecCachedFromExtended_Step1_AVX2(&cp, &ep)
	return &VerifVec{v: cp.inner}
}

// VerifVecCachedSetExtended is the complete cachedPoint.SetExtended.
func VerifVecCachedSetExtended(in *VerifVec) *VerifVec {
	var cp cachedPoint
	ep := extendedPoint{inner: in.v}
	cp.SetExtended(&ep)
	return &VerifVec{v: cp.inner}
}
