//go:build verif && amd64 && !purego && !force32bit

package curve

// Vector-form (cachedPoint) tables generated at start-up when AVX2 is present.

// VerifC20VectorPresent reports whether the vector tables were generated.
func VerifC20VectorPresent() bool {
	return supportsVectorizedEdwards && constVECTOR_ODD_MULTIPLES_OF_BASEPOINT != nil
}

func verifLanes(cp *cachedPoint) [4][10]uint32 { return (&VerifVec{v: cp.inner}).Lanes() }

// VerifC20VecBasepointTable returns the raw lanes of the 32x8 vector table of tbl.
func VerifC20VecBasepointTable(tbl *EdwardsBasepointTable) (out [32][8][4][10]uint32, ok bool) {
	if tbl.innerVector == nil {
		return out, false
	}
	for i := range tbl.innerVector {
		for j := range tbl.innerVector[i] {
			out[i][j] = verifLanes(&tbl.innerVector[i][j])
		}
	}
	return out, true
}

// VerifC20VecLookup is tbl.innerVector[i].Lookup(x) (assembly lookup + conditional negation).
func VerifC20VecLookup(tbl *EdwardsBasepointTable, i int, x int8) ([4][10]uint32, bool) {
	if tbl.innerVector == nil {
		return [4][10]uint32{}, false
	}
	cp := tbl.innerVector[i].Lookup(x)
	return verifLanes(&cp), true
}

func verifVecOdd(which int) *cachedPointNafLookupTable8 {
	if which == 2 {
		return constVECTOR_ODD_MULTIPLES_OF_B_SHL_128
	}
	return constVECTOR_ODD_MULTIPLES_OF_BASEPOINT
}

// VerifC20VecOdd returns the raw lanes of the 64-entry vector odd-multiple table (1: B, 2: [2^128]B).
func VerifC20VecOdd(which int) (out [64][4][10]uint32, ok bool) {
	tbl := verifVecOdd(which)
	if tbl == nil {
		return out, false
	}
	for i := range tbl {
		out[i] = verifLanes(&tbl[i])
	}
	return out, true
}

// VerifC20VecOddLookup is the vector NAF-table Lookup(x).
func VerifC20VecOddLookup(which int, x uint8) ([4][10]uint32, bool) {
	tbl := verifVecOdd(which)
	if tbl == nil {
		return [4][10]uint32{}, false
	}
	return verifLanes(tbl.Lookup(x)), true
}

// VerifC20CachedToEdwards converts a cached point through the library's setCached.
func VerifC20CachedToEdwards(l *[4][10]uint32) *EdwardsPoint {
	cp := cachedPoint{inner: VerifVecFromLanes(l).v}
	var p EdwardsPoint
	return p.setCached(&cp)
}

// VerifC20ExtendedIdentity returns the lanes of constEXTENDEDPOINT_IDENTITY.
func VerifC20ExtendedIdentity() ([4][10]uint32, bool) {
	return (&VerifVec{v: constEXTENDEDPOINT_IDENTITY.inner}).Lanes(), true
}
