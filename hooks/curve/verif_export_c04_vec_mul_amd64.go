//go:build verif && amd64 && !purego && !force32bit

package curve

// Fragile accessor kept in its own file: if the identifier it reads is renamed or re-typed, the driver drops only this
// file (degraded build) and only the sub-space that needs it is capped; everything else still runs.

func init() {
	// alias 0: out distinct; 1: out == a (tmp0.Mul(&tmp0, &b) in the library); 2: out == b; 3: out == a == b (a is used)
	VerifC04Reg["vec.mul"] = func(a, b *VerifLanes, alias int) VerifLanes {
		x, y := verifVecFromLanes(a), verifVecFromLanes(b)
		var out fieldElement2625x4
		switch alias {
		case 1:
			x.Mul(&x, &y)
			out = x
		case 2:
			y.Mul(&x, &y)
			out = y
		case 3:
			x.Mul(&x, &x)
			out = x
		default:
			out.Mul(&x, &y)
		}
		return verifVecLanes(&out)
	}
}
