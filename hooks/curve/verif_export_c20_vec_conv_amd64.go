//go:build verif && amd64 && !purego && !force32bit

package curve

// Fragile accessor kept in its own file: if the identifier it reads is renamed or re-typed, the driver drops only this
// file (degraded build) and only the sub-space that needs it is capped; everything else still runs.

func init() {
	VerifC20Reg["cachedToEdwards"] = func(l *VerifLanes) *EdwardsPoint {
		cp := cachedPoint{inner: verifVecFromLanes(l)}
		var p EdwardsPoint
		return p.setCached(&cp)
	}
	VerifC20Reg["extendedIdentity"] = func() VerifLanes {
		return verifVecLanes(&constEXTENDEDPOINT_IDENTITY.inner)
	}
}
