//go:build verif

package curve

// Fragile accessor kept in its own file: if the identifier it reads is renamed or re-typed, the driver drops only this
// file (degraded build) and only the sub-space that needs it is capped; everything else still runs.

func init() {
	// kind: "affine", "vector" or "none" (neither pointer set)
	VerifC20Reg["tableKind"] = func(tbl *EdwardsBasepointTable) string {
		switch {
		case tbl == nil:
			return "none"
		case tbl.inner != nil:
			return "affine"
		case tbl.innerVector != nil:
			return "vector"
		}
		return "none"
	}
	VerifC20Reg["liveTable"] = func(tbl *EdwardsBasepointTable) [][]VerifAffineNiels {
		if tbl == nil || tbl.inner == nil {
			return nil
		}
		var out [][]VerifAffineNiels
		for i := range tbl.inner {
			var row []VerifAffineNiels
			for j := range tbl.inner[i] {
				row = append(row, verifAN(&tbl.inner[i][j]))
			}
			out = append(out, row)
		}
		return out
	}
	// tbl.inner[i].Lookup(x): the access path of fixed-base multiplication
	VerifC20Reg["affineLookup"] = func(tbl *EdwardsBasepointTable, i int, x int8) VerifAffineNiels {
		p := tbl.inner[i].Lookup(x)
		return verifAN(&p)
	}
}
