//go:build verif

package curve

import "github.com/oasisprotocol/curve25519-voi/internal/field"

// Verification-only accessors (grafted by the /verif overlay; never part of the repository).

func verifFE(b []byte) field.Element {
	var fe field.Element
	if _, err := fe.SetBytes(b); err != nil {
		panic(err)
	}
	return fe
}

// VerifCoords returns the canonical encodings of the extended coordinates (X:Y:Z:T).
func VerifCoords(p *EdwardsPoint) (x, y, z, t [32]byte) {
	_ = p.inner.X.ToBytes(x[:])
	_ = p.inner.Y.ToBytes(y[:])
	_ = p.inner.Z.ToBytes(z[:])
	_ = p.inner.T.ToBytes(t[:])
	return
}

// VerifFromCoords builds a point from 32-byte little-endian coordinates (no validation).
func VerifFromCoords(x, y, z, t []byte) *EdwardsPoint {
	return newEdwardsPoint(verifFE(x), verifFE(y), verifFE(z), verifFE(t))
}

// VerifRescale returns the same projective point with all coordinates multiplied by lambda.
func VerifRescale(p *EdwardsPoint, lambda []byte) *EdwardsPoint {
	l := verifFE(lambda)
	var q EdwardsPoint
	q.inner.X.Mul(&p.inner.X, &l)
	q.inner.Y.Mul(&p.inner.Y, &l)
	q.inner.Z.Mul(&p.inner.Z, &l)
	q.inner.T.Mul(&p.inner.T, &l)
	return &q
}

// VerifRistrettoFromEdwards wraps an Edwards representative (must be in 2E) as a Ristretto point.
func VerifRistrettoFromEdwards(p *EdwardsPoint) *RistrettoPoint {
	var r RistrettoPoint
	r.inner.Set(p)
	return &r
}

// VerifEdwardsFromRistretto exposes the internal Edwards representative.
func VerifEdwardsFromRistretto(r *RistrettoPoint) *EdwardsPoint {
	var p EdwardsPoint
	p.Set(&r.inner)
	return &p
}

// VerifSupportsVector reports whether the AVX2 backend is in use.
func VerifSupportsVector() bool { return supportsVectorizedEdwards }
