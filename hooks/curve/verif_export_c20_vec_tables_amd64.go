//go:build verif && amd64 && !purego && !force32bit

package curve

// Fragile accessor kept in its own file: if the identifier it reads is renamed or re-typed, the driver drops only this
// file (degraded build) and only the sub-space that needs it is capped; everything else still runs.

func init() {
	VerifC20Reg["vecPresent"] = func() bool {
		return supportsVectorizedEdwards
	}
	VerifC20Reg["vecBasepointTable"] = func(tbl *EdwardsBasepointTable) [][]VerifLanes {
		if tbl == nil || tbl.innerVector == nil {
			return nil
		}
		var out [][]VerifLanes
		for i := range tbl.innerVector {
			var row []VerifLanes
			for j := range tbl.innerVector[i] {
				row = append(row, verifVecLanes(&tbl.innerVector[i][j].inner))
			}
			out = append(out, row)
		}
		return out
	}
	// tbl.innerVector[i].Lookup(x): assembly lookup + conditional negation
	VerifC20Reg["vecLookup"] = func(tbl *EdwardsBasepointTable, i int, x int8) VerifLanes {
		cp := tbl.innerVector[i].Lookup(x)
		return verifVecLanes(&cp.inner)
	}
}
