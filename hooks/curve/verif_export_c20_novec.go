//go:build verif && !(amd64 && !purego && !force32bit)

package curve

// The vector backend is not compiled into this build: every accessor reports absence.

func VerifC20VectorPresent() bool { return false }

func VerifC20VecBasepointTable(tbl *EdwardsBasepointTable) (out [32][8][4][10]uint32, ok bool) {
	return out, false
}

func VerifC20VecLookup(tbl *EdwardsBasepointTable, i int, x int8) ([4][10]uint32, bool) {
	return [4][10]uint32{}, false
}

func VerifC20VecOdd(which int) (out [64][4][10]uint32, ok bool) { return out, false }

func VerifC20VecOddLookup(which int, x uint8) ([4][10]uint32, bool) {
	return [4][10]uint32{}, false
}

func VerifC20CachedToEdwards(l *[4][10]uint32) *EdwardsPoint { return nil }

func VerifC20ExtendedIdentity() ([4][10]uint32, bool) { return [4][10]uint32{}, false }
