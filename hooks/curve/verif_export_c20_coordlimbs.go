//go:build verif

package curve

import "github.com/oasisprotocol/curve25519-voi/internal/field"

// Fragile accessor kept in its own file: if the identifier it reads is renamed or re-typed, the driver drops only this
// file (degraded build) and only the sub-space that needs it is capped; everything else still runs.

func init() {
	VerifC20Reg["coordLimbs"] = func(p *EdwardsPoint) [4][]uint64 {
		return [4][]uint64{
			field.VerifC04Limbs(&p.inner.X), field.VerifC04Limbs(&p.inner.Y),
			field.VerifC04Limbs(&p.inner.Z), field.VerifC04Limbs(&p.inner.T),
		}
	}
}
