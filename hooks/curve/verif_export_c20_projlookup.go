//go:build verif

package curve

import "github.com/oasisprotocol/curve25519-voi/internal/field"

// Fragile accessor kept in its own file: if the identifier it reads is renamed or re-typed, the driver drops only this
// file (degraded build) and only the sub-space that needs it is capped; everything else still runs.

func init() {
	// run-time radix-16 projective Niels table of p: Lookup(x) as (Y+X, Y-X, Z, T2d)
	VerifC20Reg["projectiveNielsLookup"] = func(p *EdwardsPoint, x int8) [4]field.Element {
		tbl := newProjectiveNielsPointLookupTable(p)
		e := tbl.Lookup(x)
		return [4]field.Element{e.Y_plus_X, e.Y_minus_X, e.Z, e.T2d}
	}
}
