//go:build verif && amd64 && !purego && !force32bit

package curve

// Fragile accessor kept in its own file: if the identifier it reads is renamed or re-typed, the driver drops only this
// file (degraded build) and only the sub-space that needs it is capped; everything else still runs.

func init() {
	sel := func(which int) *cachedPointNafLookupTable8 {
		if which == 2 {
			return constVECTOR_ODD_MULTIPLES_OF_B_SHL_128
		}
		return constVECTOR_ODD_MULTIPLES_OF_BASEPOINT
	}
	VerifC20Reg["vecOdd"] = func(which int) []VerifLanes {
		tbl := sel(which)
		if tbl == nil {
			return nil
		}
		var out []VerifLanes
		for i := range tbl {
			out = append(out, verifVecLanes(&tbl[i].inner))
		}
		return out
	}
	VerifC20Reg["vecOddLookup"] = func(which int, x uint8) VerifLanes {
		return verifVecLanes(&sel(which).Lookup(x).inner)
	}
}
