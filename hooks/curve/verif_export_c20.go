//go:build verif

package curve

import "github.com/oasisprotocol/curve25519-voi/internal/field"

// Verification-only accessors for C20 (constants and tables).  Read-only views
// of the package's unexported constants; conversions go through the library's
// own accessors (Lookup, setAffineNiels) so that the access paths used at run
// time are the ones observed.

// VerifNamedFE is a named field constant.
type VerifNamedFE struct {
	Name string
	FE   field.Element
}

// VerifC20FieldConstants returns every unexported field constant of package curve.
func VerifC20FieldConstants() []VerifNamedFE {
	return []VerifNamedFE{
		{"constMINUS_ONE", constMINUS_ONE},
		{"constEDWARDS_D", constEDWARDS_D},
		{"constEDWARDS_D2", constEDWARDS_D2},
		{"constONE_MINUS_EDWARDS_D_SQUARED", constONE_MINUS_EDWARDS_D_SQUARED},
		{"constEDWARDS_D_MINUS_ONE_SQUARED", constEDWARDS_D_MINUS_ONE_SQUARED},
		{"constSQRT_AD_MINUS_ONE", constSQRT_AD_MINUS_ONE},
		{"constINVSQRT_A_MINUS_D", constINVSQRT_A_MINUS_D},
	}
}

// VerifC20BShl128 returns constB_SHL_128.
func VerifC20BShl128() *EdwardsPoint { return constB_SHL_128 }

// VerifC20NoncanonicalSignBits returns the noncanonicalSignBits list.
func VerifC20NoncanonicalSignBits() [][32]byte {
	var out [][32]byte
	for _, c := range noncanonicalSignBits {
		out = append(out, [32]byte(c))
	}
	return out
}

// VerifCoordLimbs returns the raw limbs of X, Y, Z, T.
func VerifCoordLimbs(p *EdwardsPoint) [4][]uint64 {
	return [4][]uint64{
		field.VerifLimbs(&p.inner.X), field.VerifLimbs(&p.inner.Y),
		field.VerifLimbs(&p.inner.Z), field.VerifLimbs(&p.inner.T),
	}
}

// VerifAffineNiels is an affine Niels point (y+x, y-x, 2dxy).
type VerifAffineNiels struct {
	YPlusX, YMinusX, XY2d field.Element
}

func verifAN(p *affineNielsPoint) VerifAffineNiels {
	return VerifAffineNiels{p.y_plus_x, p.y_minus_x, p.xy2d}
}

func (a *VerifAffineNiels) inner() *affineNielsPoint {
	return &affineNielsPoint{y_plus_x: a.YPlusX, y_minus_x: a.YMinusX, xy2d: a.XY2d}
}

// VerifC20Packed returns copies of the three packed tables (0: basepoint table, 1: odd multiples of B, 2: odd multiples of [2^128]B).
func VerifC20Packed(which int) [][96]byte {
	src := [][][96]uint8{packedEdwardsBasepointTable, packedAffineOddMultiplesOfBasepoint, packedAffineOddMultiplesOfBShl128}[which]
	return append([][96]byte{}, src...)
}

// VerifC20UnpackBasepointTable runs the library's unpacking of the embedded 32x8 table afresh.
func VerifC20UnpackBasepointTable() (out [32][8]VerifAffineNiels) {
	tbl := unpackEdwardsBasepointTable()
	for i := range tbl {
		for j := range tbl[i] {
			out[i][j] = verifAN(&tbl[i][j])
		}
	}
	return
}

// VerifC20BasepointTableGeneric returns the affine table held by tbl (ok=false when this build/CPU uses the vector table).
func VerifC20BasepointTableGeneric(tbl *EdwardsBasepointTable) (out [32][8]VerifAffineNiels, ok bool) {
	if tbl.inner == nil {
		return out, false
	}
	for i := range tbl.inner {
		for j := range tbl.inner[i] {
			out[i][j] = verifAN(&tbl.inner[i][j])
		}
	}
	return out, true
}

// VerifC20AffineLookup is tbl.inner[i].Lookup(x) (the access path of fixed-base multiplication).
func VerifC20AffineLookup(tbl *EdwardsBasepointTable, i int, x int8) (VerifAffineNiels, bool) {
	if tbl.inner == nil {
		return VerifAffineNiels{}, false
	}
	p := tbl.inner[i].Lookup(x)
	return verifAN(&p), true
}

// VerifC20UnpackedLookup is Lookup(x) on sub-table i of a freshly unpacked table (used where the live table is the vector one).
func VerifC20UnpackedLookup(i int, x int8) VerifAffineNiels {
	tbl := unpackEdwardsBasepointTable()
	p := tbl[i].Lookup(x)
	return verifAN(&p)
}

// VerifC20AffineOdd returns the 64 entries of the live odd-multiple table (which 1: B, 2: [2^128]B).
func VerifC20AffineOdd(which int) (out [64]VerifAffineNiels) {
	tbl := &constAFFINE_ODD_MULTIPLES_OF_BASEPOINT
	if which == 2 {
		tbl = &constAFFINE_ODD_MULTIPLES_OF_B_SHL_128
	}
	for i := range tbl {
		out[i] = verifAN(&tbl[i])
	}
	return
}

// VerifC20AffineOddLookup is the NAF-table Lookup(x) for odd x.
func VerifC20AffineOddLookup(which int, x uint8) VerifAffineNiels {
	tbl := &constAFFINE_ODD_MULTIPLES_OF_BASEPOINT
	if which == 2 {
		tbl = &constAFFINE_ODD_MULTIPLES_OF_B_SHL_128
	}
	return verifAN(tbl.Lookup(x))
}

// VerifC20RistrettoTable exposes the EdwardsBasepointTable embedded in RISTRETTO_BASEPOINT_TABLE.
func VerifC20RistrettoTable() *EdwardsBasepointTable { return &RISTRETTO_BASEPOINT_TABLE.inner }

// VerifC20AffineNielsToEdwards converts through the library's setAffineNiels.
func VerifC20AffineNielsToEdwards(a *VerifAffineNiels) *EdwardsPoint {
	var p EdwardsPoint
	return p.setAffineNiels(a.inner())
}

// VerifC20AffineNielsIdentity returns affineNielsPoint.Identity().
func VerifC20AffineNielsIdentity() VerifAffineNiels {
	var p affineNielsPoint
	p.Identity()
	return verifAN(&p)
}

// VerifC20ProjectiveNielsLookup builds the run-time radix-16 table of p (newProjectiveNielsPointLookupTable)
// and returns Lookup(x) as (Y+X, Y-X, Z, T2d): the third lookup flavour, with its own identity encoding.
func VerifC20ProjectiveNielsLookup(p *EdwardsPoint, x int8) [4]field.Element {
	tbl := newProjectiveNielsPointLookupTable(p)
	e := tbl.Lookup(x)
	return [4]field.Element{e.Y_plus_X, e.Y_minus_X, e.Z, e.T2d}
}
