//go:build verif

package curve

// Fragile accessor kept in its own file: if the identifier it reads is renamed or re-typed, the driver drops only this
// file (degraded build) and only the sub-space that needs it is capped; everything else still runs.

func init() {
	VerifC20Reg["fe:constONE_MINUS_EDWARDS_D_SQUARED"] = &constONE_MINUS_EDWARDS_D_SQUARED
}
