//go:build verif

package curve

// Conversions between affineNielsPoint and the neutral VerifAffineNiels (shared by the affine-table accessors).

func verifAN(p *affineNielsPoint) VerifAffineNiels {
	return VerifAffineNiels{p.y_plus_x, p.y_minus_x, p.xy2d}
}

func (a *VerifAffineNiels) inner() *affineNielsPoint {
	return &affineNielsPoint{y_plus_x: a.YPlusX, y_minus_x: a.YMinusX, xy2d: a.XY2d}
}
