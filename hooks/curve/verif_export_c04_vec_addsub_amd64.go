//go:build verif && amd64 && !purego && !force32bit

package curve

// Fragile accessor kept in its own file: if the identifier it reads is renamed or re-typed, the driver drops only this
// file (degraded build) and only the sub-space that needs it is capped; everything else still runs.

func init() {
	// (X, Y, Z, T) -> (Y-X, Y+X, Z, T), lazily
	VerifC04Reg["vec.addsub1"] = func(l *VerifLanes) VerifLanes {
		ep := extendedPoint{inner: verifVecFromLanes(l)}
		var out fieldElement2625x4
		vecAddSubExtendedCached_Step1_AVX2(&out, &ep)
		return verifVecLanes(&out)
	}
	VerifC04Reg["vec.addsub2"] = func(l *VerifLanes) (VerifLanes, VerifLanes) {
		t0 := verifVecFromLanes(l)
		var t1 fieldElement2625x4
		vecAddSubExtendedCached_Step2_AVX2(&t0, &t1)
		return verifVecLanes(&t0), verifVecLanes(&t1)
	}
}
