//go:build verif

package curve

// Fragile accessor kept in its own file: if the identifier it reads is renamed or re-typed, the driver drops only this
// file (degraded build) and only the sub-space that needs it is capped; everything else still runs.

func init() {
	VerifC20Reg["pt:constB_SHL_128"] = func() *EdwardsPoint { return constB_SHL_128 }
}
