//go:build verif

package lattice

// Fragile accessor kept in its own file: if the identifier it reads is renamed or re-typed, the driver drops only this
// file (degraded build) and only the sub-space that needs it is capped; everything else still runs.

func init() {
	VerifC20Reg["constELL_LOWER_HALF"] = func() (int64, uint64) { return constELL_LOWER_HALF.hi, constELL_LOWER_HALF.lo }
}
