//go:build verif

package lattice

import "github.com/oasisprotocol/curve25519-voi/curve/scalar"

// Verification-only accessors for C16 (grafted by the /verif overlay; never part of the repository).

// VerifFindShortVector runs FindShortVector and returns both coordinates as (hi, lo) of the
// two's complement 128-bit value.
func VerifFindShortVector(k *scalar.Scalar) (d0hi int64, d0lo uint64, d1hi int64, d1lo uint64) {
	d0, d1 := FindShortVector(k)
	return d0.hi, d0.lo, d1.hi, d1.lo
}

