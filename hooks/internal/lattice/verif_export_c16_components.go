//go:build verif

package lattice

import "github.com/oasisprotocol/curve25519-voi/curve/scalar"

// Component accessors for C16 (Int128 / int512 / int384 primitives).  Kept apart from the core accessor so that a
// change to one of these unexported helpers costs only the component sub-space (the driver drops a hook file that no
// longer compiles and rebuilds with the tag verifmin), not every check that links this package.

// VerifInt128Op applies one Int128 primitive: "add", "sub", "neg", "abs", "shl" (by n).
func VerifInt128Op(op string, xhi int64, xlo uint64, yhi int64, ylo uint64, n uint) (int64, uint64) {
	x, y := newInt128(xhi, xlo), newInt128(yhi, ylo)
	var z Int128
	switch op {
	case "add":
		z = x.add(y)
	case "sub":
		z = x.sub(y)
	case "neg":
		z = x.neg()
	case "abs":
		z = x.Abs()
	case "shl":
		z = x.shl(n)
	default:
		panic("VerifInt128Op: " + op)
	}
	return z.hi, z.lo
}

// VerifInt128IsNegative / VerifInt128IsZero expose the predicates.
func VerifInt128IsNegative(hi int64, lo uint64) bool { return newInt128(hi, lo).IsNegative() }
func VerifInt128IsZero(hi int64, lo uint64) bool     { return newInt128(hi, lo).isZero() }

// VerifInt128ToScalar exposes ToScalar (sign honoured: negative values map to L - |x|).
func VerifInt128ToScalar(hi int64, lo uint64) *scalar.Scalar {
	var s scalar.Scalar
	return newInt128(hi, lo).ToScalar(&s)
}

// VerifInt128FromScalar exposes newInt128FromScalar (the low 128 bits).
func VerifInt128FromScalar(s *scalar.Scalar) (int64, uint64) {
	x := verifInt128FromScalar(s)
	return x.hi, x.lo
}

// VerifEllLowerHalf / VerifEllSquared expose the two constants of the reduction.
func VerifEllLowerHalf() (int64, uint64) { return constELL_LOWER_HALF.hi, constELL_LOWER_HALF.lo }
func VerifEllSquared() [8]uint64         { return *ellSquared() }

// 512-bit primitives on raw limbs.
func VerifInt512Mul(a, b *scalar.Scalar) [8]uint64 { return *(&int512{}).Mul(a, b) }
func VerifInt512Add(a, b [8]uint64) [8]uint64 {
	x, y := int512(a), int512(b)
	return *(&int512{}).Add(&x, &y)
}
func VerifInt512AddShifted(a, b [8]uint64, s uint) [8]uint64 {
	x, y := int512(a), int512(b)
	return *(&int512{}).AddShifted(&x, &y, s)
}
func VerifInt512SubShifted(a, b [8]uint64, s uint) [8]uint64 {
	x, y := int512(a), int512(b)
	return *(&int512{}).SubShifted(&x, &y, s)
}
func VerifInt512BitLen(a [8]uint64) uint     { x := int512(a); return x.BitLen() }
func VerifInt512IsNegative(a [8]uint64) bool { x := int512(a); return x.IsNegative() }
func VerifInt512PositiveLt(a, b [8]uint64) bool {
	x, y := int512(a), int512(b)
	return x.PositiveLt(&y)
}
func VerifInt512SafeToShrink(a [8]uint64) bool { x := int512(a); return x.SafeToShrink() }

// 384-bit primitives on raw limbs.
func VerifInt384FromInt512(a [8]uint64) [6]uint64 {
	x := int512(a)
	return *(&int384{}).FromInt512(&x)
}
func VerifInt384AddShifted(a, b [6]uint64, s uint) [6]uint64 {
	x, y := int384(a), int384(b)
	return *(&int384{}).AddShifted(&x, &y, s)
}
func VerifInt384SubShifted(a, b [6]uint64, s uint) [6]uint64 {
	x, y := int384(a), int384(b)
	return *(&int384{}).SubShifted(&x, &y, s)
}
func VerifInt384BitLen(a [6]uint64) uint     { x := int384(a); return x.BitLen() }
func VerifInt384IsNegative(a [6]uint64) bool { x := int384(a); return x.IsNegative() }
func VerifInt384PositiveLt(a, b [6]uint64) bool {
	x, y := int384(a), int384(b)
	return x.PositiveLt(&y)
}
