//go:build verif

package lattice

// Verification-only accessors for C20.

// VerifC20EllLowerHalf returns constELL_LOWER_HALF as (hi, lo).
func VerifC20EllLowerHalf() (int64, uint64) { return constELL_LOWER_HALF.hi, constELL_LOWER_HALF.lo }

// VerifC20EllSquared returns ellSquared() as eight little-endian 64-bit words.
func VerifC20EllSquared() [8]uint64 { return *ellSquared() }

// VerifC20SmallConstants returns i512One, i128Zero (hi, lo), i128One (hi, lo).
func VerifC20SmallConstants() (one512 [8]uint64, zeroHi int64, zeroLo uint64, oneHi int64, oneLo uint64) {
	return *i512One, i128Zero.hi, i128Zero.lo, i128One.hi, i128One.lo
}
