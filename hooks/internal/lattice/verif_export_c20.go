//go:build verif

package lattice

// VerifC20Reg: accessors looked up by name at run time; one small file per constant registers itself here.
var VerifC20Reg = map[string]interface{}{}
