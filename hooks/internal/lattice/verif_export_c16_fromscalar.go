//go:build verif

package lattice

import "github.com/oasisprotocol/curve25519-voi/curve/scalar"

func verifInt128FromScalar(s *scalar.Scalar) Int128 { return newInt128FromScalar(s) }
