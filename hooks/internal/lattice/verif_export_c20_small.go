//go:build verif

package lattice

// Fragile accessor kept in its own file: if the identifier it reads is renamed or re-typed, the driver drops only this
// file (degraded build) and only the sub-space that needs it is capped; everything else still runs.

func init() {
	// i512One, i128Zero (hi, lo), i128One (hi, lo)
	VerifC20Reg["small"] = func() ([]uint64, int64, uint64, int64, uint64) {
		return append([]uint64{}, i512One[:]...), i128Zero.hi, i128Zero.lo, i128One.hi, i128One.lo
	}
}
