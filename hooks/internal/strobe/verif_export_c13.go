//go:build verif

package strobe

import (
	"encoding/binary"
	"reflect"
	"strings"
	"unsafe"
)

// Verification-only accessors for C13 / C12 (grafted by the /verif overlay; never part of the repository).
//
// The Strobe object is read through reflection BY FIELD NAME, so that this file keeps compiling when the
// representation of the state changes (byte array <-> lane array, int <-> uint8 cursors, ...).  What can
// no longer be read is reported by VerifMissing and the harness degrades (it never fails to build).
// The accessors of the Keccak permutation, which name unexported functions, live in their own file.

func verifField(v reflect.Value, name string) (reflect.Value, bool) {
	f := v.FieldByName(name)
	if !f.IsValid() {
		return f, false
	}
	if f.CanAddr() {
		f = reflect.NewAt(f.Type(), unsafe.Pointer(f.UnsafeAddr())).Elem()
	}
	return f, true
}

func verifInt(v reflect.Value, name string) (int, bool) {
	f, ok := verifField(v, name)
	if !ok {
		return 0, false
	}
	switch f.Kind() {
	case reflect.Int, reflect.Int8, reflect.Int16, reflect.Int32, reflect.Int64:
		return int(f.Int()), true
	case reflect.Uint, reflect.Uint8, reflect.Uint16, reflect.Uint32, reflect.Uint64:
		return int(f.Uint()), true
	}
	return 0, false
}

// verifSponge returns the 200 state bytes: a pointer into the object when the state is a [200]byte,
// otherwise a little-endian serialisation of a [25]uint64.
func verifSponge(v reflect.Value) (*[200]byte, bool) {
	f, ok := verifField(v, "st")
	if !ok {
		return nil, false
	}
	switch {
	case f.Kind() == reflect.Array && f.Len() == 200 && f.Type().Elem().Kind() == reflect.Uint8 && f.CanAddr():
		return (*[200]byte)(unsafe.Pointer(f.UnsafeAddr())), true
	case f.Kind() == reflect.Array && f.Len() == 25 && f.Type().Elem().Kind() == reflect.Uint64:
		var out [200]byte
		for i := 0; i < 25; i++ {
			binary.LittleEndian.PutUint64(out[8*i:], f.Index(i).Uint())
		}
		return &out, true
	}
	return nil, false
}

// VerifFields exposes every field of a Strobe object (read-only view).  Fields that cannot be read are
// returned as zero values; see VerifMissing.
func VerifFields(s *Strobe) (st *[200]byte, pos, posBegin int, curFlags uint8, r int, initialized bool) {
	v := reflect.ValueOf(s).Elem()
	st, ok := verifSponge(v)
	if !ok {
		st = &[200]byte{}
	}
	pos, _ = verifInt(v, "pos")
	posBegin, _ = verifInt(v, "posBegin")
	cf, _ := verifInt(v, "curFlags")
	r, okR := verifInt(v, "r")
	if !okR {
		r = 166
	}
	initialized = true
	if f, ok := verifField(v, "initialized"); ok && f.Kind() == reflect.Bool {
		initialized = f.Bool()
	}
	return st, pos, posBegin, uint8(cf), r, initialized
}

// VerifMissing names the state components that can no longer be read from this tree ("" when all can).
// The rate and the initialised flag are optional (constants of an initialised object).
func VerifMissing() string {
	var s Strobe
	v := reflect.ValueOf(&s).Elem()
	var m []string
	if _, ok := verifSponge(v); !ok {
		m = append(m, "st")
	}
	for _, n := range []string{"pos", "posBegin", "curFlags"} {
		if _, ok := verifInt(v, n); !ok {
			m = append(m, n)
		}
	}
	return strings.Join(m, ",")
}
