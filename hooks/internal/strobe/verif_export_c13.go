//go:build verif

package strobe

// Verification-only accessors for C13 (grafted by the /verif overlay; never part of the repository).

// VerifKeccakF1600Bytes applies the permutation exactly as the Strobe object
// calls it in this build (assembly on amd64, keccakf.go under purego).
func VerifKeccakF1600Bytes(s *[200]byte) { keccakF1600Bytes(s) }

// VerifKeccakF1600Lanes applies the lane-level permutation of this build.
func VerifKeccakF1600Lanes(a *[25]uint64) { keccakF1600(a) }

// VerifFields exposes every field of a Strobe object (read-only view).
func VerifFields(s *Strobe) (st *[200]byte, pos, posBegin int, curFlags uint8, r int, initialized bool) {
	return &s.st, s.pos, s.posBegin, uint8(s.curFlags), s.r, s.initialized
}
