//go:build verif

package strobe

// VerifC06KeccakBytes applies the Keccak-f[1600] permutation this build uses
// (assembly, or keccakf.go under purego) to a 200-byte state.
func VerifC06KeccakBytes(in []byte) []byte {
	var s [200]byte
	copy(s[:], in)
	keccakF1600Bytes(&s)
	return s[:]
}
