//go:build verif

package strobe

// Fragile accessors (they name unexported functions): kept in their own file so that the driver can drop
// just this file when a change renames them; the C13 harness then builds its `verifmin` variant, which
// skips the direct permutation sub-space (the permutation is still exercised by every history).

// VerifKeccakF1600Bytes applies the permutation exactly as the Strobe object
// calls it in this build (assembly on amd64, keccakf.go under purego).
func VerifKeccakF1600Bytes(s *[200]byte) { keccakF1600Bytes(s) }

// VerifKeccakF1600Lanes applies the lane-level permutation of this build.
func VerifKeccakF1600Lanes(a *[25]uint64) { keccakF1600(a) }
