//go:build verif && (386 || arm || mips || mipsle || wasm || mips64le || mips64 || riscv64 || loong64 || force32bit) && !force64bit

package field

const VerifLimbCount = 10

func VerifLimbs(fe *Element) []uint64 {
	out := make([]uint64, 10)
	for i, v := range fe.inner {
		out[i] = uint64(v)
	}
	return out
}

func VerifFromLimbs(l []uint64) Element {
	var fe Element
	for i := range fe.inner {
		fe.inner[i] = uint32(l[i])
	}
	return fe
}

func VerifMulGeneric(fe, a, b *Element)       { fe.Mul(a, b) }
func VerifPow2kGeneric(fe, t *Element, k uint) { fe.Pow2k(t, k) }

const VerifHasGeneric = false
