//go:build verif

package field

// VerifLimbsInto copies the raw limbs (widened to uint64) into dst without allocating.
func VerifLimbsInto(fe *Element, dst *[VerifLimbCount]uint64) {
	for i, v := range fe.inner {
		dst[i] = uint64(v)
	}
}
