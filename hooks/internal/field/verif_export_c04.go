//go:build verif

package field

// VerifC04Reg / VerifC20Reg: accessors looked up by name at run time (see hooks/curve/verif_export_c04_c20_reg.go).
var (
	VerifC04Reg = map[string]interface{}{}
	VerifC20Reg = map[string]interface{}{}
)

// VerifLimbsInto copies the raw limbs (widened to uint64) into dst without allocating.
func VerifLimbsInto(fe *Element, dst *[VerifLimbCount]uint64) {
	for i, v := range fe.inner {
		dst[i] = uint64(v)
	}
}
