//go:build verif

package field

// Self-contained limb accessors and registries for C04 / C20.  This file depends on nothing but the field
// `Element.inner` (an array of limbs): in particular it does not depend on the shared accessor files of this package,
// so a renamed helper (feMulGeneric, ...) that makes one of those stop compiling does not take C04 / C20 with it.

// VerifC04Reg / VerifC20Reg: fragile accessors register themselves here by name from files of their own and are looked
// up at run time (see hooks/curve/verif_export_c04_c20_reg.go).
var (
	VerifC04Reg = map[string]interface{}{}
	VerifC20Reg = map[string]interface{}{}
)

// VerifC04LimbCount is the number of limbs of the active backend (5 x 51 bits or 10 x 25.5 bits).
const VerifC04LimbCount = len(Element{}.inner)

// VerifC04LimbsInto copies the raw limbs (widened to uint64) into dst without allocating.
func VerifC04LimbsInto(fe *Element, dst *[VerifC04LimbCount]uint64) {
	for i, v := range fe.inner {
		dst[i] = uint64(v)
	}
}

// VerifC04Limbs returns the raw limbs widened to uint64.
func VerifC04Limbs(fe *Element) []uint64 {
	out := make([]uint64, VerifC04LimbCount)
	for i, v := range fe.inner {
		out[i] = uint64(v)
	}
	return out
}

// VerifC04FromLimbs builds an element from raw (possibly unreduced) limbs; missing limbs are zero.
func VerifC04FromLimbs(l []uint64) Element {
	var fe Element
	for i := range fe.inner {
		if i < len(l) {
			verifC04Set(&fe, i, l[i])
		}
	}
	return fe
}
