//go:build verif && (amd64 || arm64 || ppc64le || ppc64 || s390x || force64bit) && !force32bit

package field

func verifC04Set(fe *Element, i int, v uint64) { fe.inner[i] = v }
