//go:build verif && (amd64 || arm64 || ppc64le || ppc64 || s390x || force64bit) && !force32bit

package field

// Fragile accessor kept in its own file: if the identifier it reads is renamed or re-typed, the driver drops only this
// file (degraded build) and only the sub-space that needs it is capped; everything else still runs.

func init() {
	// the portable 64-bit loops, reachable in every 64-bit build (in the assembly builds nothing else calls them)
	VerifC04Reg["feMulGeneric"] = func(out, a, b *Element) { feMulGeneric(out, a, b) }
	VerifC04Reg["fePow2kGeneric"] = func(out, a *Element, k uint) { fePow2kGeneric(out, a, k) }
}
