//go:build verif && (amd64 || arm64 || ppc64le || ppc64 || s390x || force64bit) && !force32bit

package field

// VerifC20APlus2Over4: the 64-bit backend has no such constant (Mul121666 uses an immediate).
func VerifC20APlus2Over4() (*Element, bool) { return nil, false }
