//go:build verif && (amd64 || arm64 || ppc64le || ppc64 || s390x || force64bit) && !force32bit

package field

// Verification-only accessors (grafted by the /verif overlay).

const VerifLimbCount = 5

// VerifLimbs returns the raw limbs widened to uint64.
func VerifLimbs(fe *Element) []uint64 { return append([]uint64{}, fe.inner[:]...) }

// VerifFromLimbs builds an element from raw (possibly unreduced) limbs.
func VerifFromLimbs(l []uint64) Element {
	var fe Element
	copy(fe.inner[:], l)
	return fe
}

// VerifMulGeneric / VerifPow2kGeneric expose the portable loops in every 64-bit build.
func VerifMulGeneric(fe, a, b *Element)       { feMulGeneric(fe, a, b) }
func VerifPow2kGeneric(fe, t *Element, k uint) { fePow2kGeneric(fe, t, k) }

const VerifHasGeneric = true
