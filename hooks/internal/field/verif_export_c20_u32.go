//go:build verif && (386 || arm || mips || mipsle || wasm || mips64le || mips64 || riscv64 || loong64 || force32bit) && !force64bit

package field

// VerifC20APlus2Over4 returns constAPLUS2_OVER_FOUR (32-bit backend only).
func VerifC20APlus2Over4() (*Element, bool) { return &constAPLUS2_OVER_FOUR, true }
