//go:build verif && (386 || arm || mips || mipsle || wasm || mips64le || mips64 || riscv64 || loong64 || force32bit) && !force64bit

package field

// Fragile accessor kept in its own file: if the identifier it reads is renamed or re-typed, the driver drops only this
// file (degraded build) and only the sub-space that needs it is capped; everything else still runs.

func init() {
	VerifC20Reg["fe:constAPLUS2_OVER_FOUR"] = &constAPLUS2_OVER_FOUR
}
