//go:build verif && (386 || arm || mips || mipsle || wasm || mips64le || mips64 || riscv64 || loong64 || force32bit) && !force64bit

package field

func verifC04Set(fe *Element, i int, v uint64) { fe.inner[i] = uint32(v) }
