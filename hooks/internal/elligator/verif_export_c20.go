//go:build verif

package elligator

import "github.com/oasisprotocol/curve25519-voi/internal/field"

// VerifNamedFE is a named field constant.
type VerifNamedFE struct {
	Name string
	FE   field.Element
}

// VerifC20Constants returns the Elligator 2 constants of the active backend.
func VerifC20Constants() []VerifNamedFE {
	return []VerifNamedFE{
		{"constMONTGOMERY_A", constMONTGOMERY_A},
		{"constMONTGOMERY_NEG_A", constMONTGOMERY_NEG_A},
		{"constMONTGOMERY_A_SQUARED", constMONTGOMERY_A_SQUARED},
		{"constMONTGOMERY_SQRT_NEG_A_PLUS_TWO", constMONTGOMERY_SQRT_NEG_A_PLUS_TWO},
		{"constMONTGOMERY_U_FACTOR", constMONTGOMERY_U_FACTOR},
		{"constMONTGOMERY_V_FACTOR", constMONTGOMERY_V_FACTOR},
		{"constFieldZero", constFieldZero},
	}
}
