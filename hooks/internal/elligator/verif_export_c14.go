//go:build verif

package elligator

import "github.com/oasisprotocol/curve25519-voi/internal/field"

// Verification-only accessor (grafted by the /verif overlay; never part of the repository).

// VerifMontgomeryFlavor exposes the Montgomery (u, v) output of the Elligator 2 map.
func VerifMontgomeryFlavor(r *field.Element) (field.Element, field.Element) {
	return montgomeryFlavor(r)
}
