// Package ptalph builds the point alphabet Pi of DESIGN.md section 5 for the
// checks that exercise the curve package (C03, C16): a list of distinct group
// elements known to the reference (with discrete logarithm and torsion
// component where known), and, for each element, library-side EdwardsPoint
// values in several projective representations.
//
// Reference-side data (Elem) never touches the library.  Library-side values
// are produced from the reference ENCODING (decoded by the library) and then
// re-represented; whether each representation still denotes the element is
// itself checked by the harnesses (sub-space "reps").
package ptalph

import (
	"bytes"
	"fmt"
	"math/big"
	"reflect"
	"sync"
	"unsafe"

	"github.com/oasisprotocol/curve25519-voi/curve"
	"github.com/oasisprotocol/curve25519-voi/curve/scalar"
	"github.com/oasisprotocol/curve25519-voi/internal/verif/mc"
	"github.com/oasisprotocol/curve25519-voi/internal/verif/ref"
	"github.com/oasisprotocol/curve25519-voi/internal/verif/ref/refgrp"
)

// Elem is one group element on the reference side.
type Elem struct {
	Name string
	P    ref.Point
	Enc  []byte
	M    *big.Int // P = [M]B + T[Tors] when known, else nil
	Tors int      // index of the torsion component, -1 when unknown
	Even bool     // known to lie in 2E although Tors is unknown (doubles of unknown-dlog points)
	once sync.Once
	tbl  *refgrp.Table
}

// Torsion points, fixed once (T[i] = [i]T[1], T[1] = dalek's EIGHT_TORSION[1]).
var T = ref.Torsion()

// Table returns the (lazily built) reference multiplication table of the element.
func (e *Elem) Table() *refgrp.Table {
	e.once.Do(func() { e.tbl = refgrp.NewTable(e.P) })
	return e.tbl
}

// Mul is the reference [k]P for the integer k (torsion-exact).
func (e *Elem) Mul(k *big.Int) ref.Point { return e.Table().Mul(k) }

// HasTorsion reports whether the element is known/unknown to lie outside the prime-order subgroup.
// (Unknown-dlog points are classified by the reference: [L]P != O.)
func (e *Elem) HasTorsion() bool {
	if e.Tors >= 0 {
		return e.Tors != 0
	}
	return !e.Mul(ref.L).IsIdentity()
}

// IsIdentity is reference-side.
func (e *Elem) IsIdentity() bool { return e.P.IsIdentity() }

// In2E reports whether the element lies in 2E (a valid internal representative of a ristretto255 element).
func (e *Elem) In2E() bool { return e.Even || (e.Tors >= 0 && e.Tors%2 == 0) }

// NewElem wraps a reference point.
func NewElem(name string, p ref.Point, m *big.Int, tors int) *Elem {
	if !p.OnCurve() {
		panic("ptalph: reference point not on curve: " + name)
	}
	return &Elem{Name: name, P: p, Enc: p.Encode(), M: m, Tors: tors}
}

// Known builds [m]B + T[t] with the base table.
func Known(name string, m *big.Int, t int) *Elem {
	p := BaseElem.Mul(m)
	if t != 0 {
		p = p.Add(T[t])
	}
	return NewElem(name, p, new(big.Int).Set(m), t)
}

// BaseElem is B.
var BaseElem = NewElem("B", ref.Base, big.NewInt(1), 0)

// Generic returns the i-th seed-derived reduced generic scalar used for [g]B.
func Generic(seed int64, i int) *big.Int {
	g := ref.FromLE(mc.Bytes(seed, "ptalph-g", i, 32))
	return g.Mod(g, ref.L)
}

// Unknown returns the i-th point with unknown discrete logarithm: the first
// y >= H(seed, i) (as a field element) that is the y-coordinate of a curve point.
func Unknown(seed int64, i int) ref.Point {
	y := ref.FMod(ref.FromLE(mc.Bytes(seed, "ptalph-unknown", i, 32)))
	for {
		// a point WITH a torsion component (7 of 8 decodable y): callers rely on it, and which y is hit
		// must not depend on luck with the seed
		if p, ok := ref.PointFromY(y, uint(i&1)); ok && !p.IsTorsionFree() {
			return p
		}
		y = ref.FAdd(y, big.NewInt(1))
	}
}

// Elements returns the de-duplicated element alphabet:
// O, B, 2B, [g_j]B (ng values), T_1..T_7, B+T_1..7, [g_0]B+T_1..7,
// two unknown-dlog points U_0, U_1 and their doubles (which lie in 2E).
func Elements(seed int64, ng int) []*Elem {
	var out []*Elem
	seen := map[string]bool{}
	add := func(e *Elem) {
		if seen[string(e.Enc)] {
			return
		}
		seen[string(e.Enc)] = true
		out = append(out, e)
	}
	add(NewElem("O", ref.Identity(), big.NewInt(0), 0))
	add(BaseElem)
	add(Known("2B", big.NewInt(2), 0))
	for j := 0; j < ng; j++ {
		add(Known(fmt.Sprintf("[g%d]B", j), Generic(seed, j), 0))
	}
	for i := 1; i < 8; i++ {
		add(Known(fmt.Sprintf("T%d", i), big.NewInt(0), i))
	}
	for i := 1; i < 8; i++ {
		add(Known(fmt.Sprintf("B+T%d", i), big.NewInt(1), i))
	}
	for i := 1; i < 8; i++ {
		add(Known(fmt.Sprintf("[g0]B+T%d", i), Generic(seed, 0), i))
	}
	for i := 0; i < 2; i++ {
		u := Unknown(seed, i)
		add(NewElem(fmt.Sprintf("U%d", i), u, nil, -1))
		e := NewElem(fmt.Sprintf("2U%d", i), u.Double(), nil, -1)
		e.Even = true
		add(e)
	}
	return out
}

// NumReps is the number of projective representations per element.
const NumReps = 5

// RepName names a representation.
var RepName = [NumReps]string{"decoded(Z=1)", "sum((P-B)+B)", "rescaled(2)", "rescaled(-1)", "rescaled(generic)"}

// Decode decodes a reference encoding with the library.
func Decode(enc []byte) *curve.EdwardsPoint {
	var p curve.EdwardsPoint
	if err := p.UnmarshalBinary(enc); err != nil {
		panic(fmt.Sprintf("ptalph: library rejects the reference encoding %x: %v", enc, err))
	}
	return &p
}

var libB = Decode(ref.Base.Encode())

// Rep returns representation rep of the element whose reference point is p.
func Rep(seed int64, p ref.Point, rep int) *curve.EdwardsPoint {
	switch rep {
	case 0:
		return Decode(p.Encode())
	case 1:
		q := Decode(p.Sub(ref.Base).Encode())
		return curve.NewEdwardsPoint().Add(q, libB)
	case 2:
		return curve.VerifRescale(Decode(p.Encode()), ref.LE32(big.NewInt(2)))
	case 3:
		return curve.VerifRescale(Decode(p.Encode()), ref.LE32(new(big.Int).Sub(ref.P, big.NewInt(1))))
	case 4:
		lam := ref.FMod(ref.FromLE(mc.Bytes(seed, "ptalph-lambda", int(p.Encode()[0])|int(p.Encode()[1])<<8, 32)))
		if lam.Sign() == 0 {
			lam.SetInt64(3)
		}
		return curve.VerifRescale(Decode(p.Encode()), ref.LE32(lam))
	}
	panic("ptalph: bad rep")
}

// Sc builds a library scalar from any integer in [0, 2^255).
func Sc(v *big.Int) *scalar.Scalar {
	if v.Sign() < 0 || v.BitLen() > 255 {
		panic("ptalph: scalar out of the representable range")
	}
	s, err := scalar.NewFromBits(ref.LE32(v))
	if err != nil {
		panic(err)
	}
	return s
}

// Enc is MarshalBinary.
func Enc(p *curve.EdwardsPoint) []byte {
	b, err := p.MarshalBinary()
	if err != nil {
		panic(err)
	}
	return b
}

// REnc is RistrettoPoint.MarshalBinary.
func REnc(p *curve.RistrettoPoint) []byte {
	b, err := p.MarshalBinary()
	if err != nil {
		panic(err)
	}
	return b
}

// ---------------------------------------------------------------------------
// Deep snapshots of caller-owned inputs (scalars, points, expanded points,
// tables): a call must leave every input bit-identical.

// Snapshot records the memory of every object (pointers to structs) and of
// everything reachable from it through pointers, keyed by address.  Fields of
// package sync (a lazily-built-state guard may legitimately flip) are skipped.
type Snapshot map[uintptr][]byte

func snapAt(s Snapshot, p unsafe.Pointer, t reflect.Type) {
	switch t.Kind() {
	case reflect.Ptr:
		q := *(*unsafe.Pointer)(p)
		if q != nil {
			if _, seen := s[uintptr(q)]; !seen {
				snapAt(s, q, t.Elem())
			}
		}
	case reflect.Struct:
		if t.PkgPath() == "sync" || t.PkgPath() == "sync/atomic" {
			return
		}
		if !hasPointers(t) {
			if t.Size() > 0 {
				s[uintptr(p)] = append([]byte{}, unsafe.Slice((*byte)(p), t.Size())...)
			}
			return
		}
		for i := 0; i < t.NumField(); i++ {
			f := t.Field(i)
			snapAt(s, unsafe.Add(p, f.Offset), f.Type)
		}
	case reflect.Array:
		if !hasPointers(t) {
			if t.Size() > 0 {
				s[uintptr(p)] = append([]byte{}, unsafe.Slice((*byte)(p), t.Size())...)
			}
			return
		}
		for i := 0; i < t.Len(); i++ {
			snapAt(s, unsafe.Add(p, uintptr(i)*t.Elem().Size()), t.Elem())
		}
	case reflect.Slice, reflect.Map, reflect.Chan, reflect.Func, reflect.Interface, reflect.String, reflect.UnsafePointer:
		// not used by the value types of the curve package; ignored
	default:
		if t.Size() > 0 {
			s[uintptr(p)] = append([]byte{}, unsafe.Slice((*byte)(p), t.Size())...)
		}
	}
}

func hasPointers(t reflect.Type) bool {
	switch t.Kind() {
	case reflect.Ptr, reflect.Slice, reflect.Map, reflect.Chan, reflect.Func, reflect.Interface, reflect.String, reflect.UnsafePointer:
		return true
	case reflect.Struct:
		if t.PkgPath() == "sync" || t.PkgPath() == "sync/atomic" {
			return true // handled (skipped) field by field
		}
		for i := 0; i < t.NumField(); i++ {
			if hasPointers(t.Field(i).Type) {
				return true
			}
		}
	case reflect.Array:
		return t.Len() > 0 && hasPointers(t.Elem())
	}
	return false
}

// Snap takes a deep snapshot of the given objects (each a non-nil pointer).
func Snap(objs ...interface{}) Snapshot {
	s := Snapshot{}
	for _, o := range objs {
		v := reflect.ValueOf(o)
		if v.Kind() != reflect.Ptr || v.IsNil() {
			continue
		}
		snapAt(s, v.UnsafePointer(), v.Type().Elem())
	}
	return s
}

// Changed reports whether memory that was reachable both before and now differs
// (memory that only became reachable later, e.g. a lazily built table, is not compared).
func (s Snapshot) Changed(objs ...interface{}) bool {
	now := Snap(objs...)
	for addr, b := range s {
		if nb, ok := now[addr]; ok && !bytes.Equal(b, nb) {
			return true
		}
	}
	return false
}
