// Package vsync is a drop-in for the subset of package sync used by the LRU
// cache.  When a controlled scheduler is installed (Active != nil) every Lock
// is a scheduling point and blocking is visible to the scheduler; otherwise
// the types behave exactly like their sync counterparts (so free-running
// -race passes see real synchronisation).
package vsync

import "sync"

// Sched is implemented by the cooperative scheduler in mc/sched.
type Sched interface {
	// Point is called before a lock acquisition (a scheduling choice).
	Point(kind string, obj interface{})
	// Block parks the current thread until Wake(obj).
	Block(obj interface{})
	Wake(obj interface{})
}

// Active is set by the explorer before the threads of one execution start and
// cleared after they have all finished; it is never changed while threads run.
var Active Sched

type (
	WaitGroup = sync.WaitGroup
	Once      = sync.Once
	Pool      = sync.Pool
	Map       = sync.Map
	Locker    = sync.Locker
)

type Mutex struct {
	real   sync.Mutex
	locked bool
}

func (m *Mutex) Lock() {
	s := Active
	if s == nil {
		m.real.Lock()
		return
	}
	s.Point("lock", m)
	for m.locked {
		s.Block(m)
	}
	m.locked = true
	held(s, 1)
}

func (m *Mutex) TryLock() bool {
	s := Active
	if s == nil {
		return m.real.TryLock()
	}
	s.Point("trylock", m)
	if n, ok := s.(interface{ NoteTryLock() }); ok {
		n.NoteTryLock()
	}
	if m.locked {
		return false
	}
	m.locked = true
	held(s, 1)
	return true
}

func (m *Mutex) Unlock() {
	s := Active
	if s == nil {
		m.real.Unlock()
		return
	}
	if !m.locked {
		panic("vsync: unlock of unlocked mutex")
	}
	m.locked = false
	held(s, -1)
	s.Wake(m)
	s.Point("unlock", m)
}

// RWMutex: readers and writers under the scheduler (a change from Mutex to
// RWMutex in the cache must still be explorable).
type RWMutex struct {
	real    sync.RWMutex
	writer  bool
	readers int
}

func (m *RWMutex) Lock() {
	s := Active
	if s == nil {
		m.real.Lock()
		return
	}
	s.Point("lock", m)
	for m.writer || m.readers > 0 {
		s.Block(m)
	}
	m.writer = true
	held(s, 1)
}

func (m *RWMutex) Unlock() {
	s := Active
	if s == nil {
		m.real.Unlock()
		return
	}
	if !m.writer {
		panic("vsync: unlock of unlocked rwmutex")
	}
	m.writer = false
	held(s, -1)
	s.Wake(m)
	s.Point("unlock", m)
}

func (m *RWMutex) RLock() {
	s := Active
	if s == nil {
		m.real.RLock()
		return
	}
	s.Point("rlock", m)
	for m.writer {
		s.Block(m)
	}
	m.readers++ // a read lock does not make statement steps "protected": writes under RLock must be interleavable
}

func (m *RWMutex) RUnlock() {
	s := Active
	if s == nil {
		m.real.RUnlock()
		return
	}
	if m.readers <= 0 {
		panic("vsync: runlock of unlocked rwmutex")
	}
	m.readers--
	s.Wake(m)
	s.Point("runlock", m)
}

// Stepper is optionally implemented by the scheduler: Step is called before
// every statement of instrumented library files.
type Stepper interface{ Step() }

// Step marks a statement boundary in instrumented code.  Free-running: no-op.
func Step() {
	if s := Active; s != nil {
		if st, ok := s.(Stepper); ok {
			st.Step()
		}
	}
}

// Holder is optionally implemented by the scheduler to learn how many shim
// locks the running thread holds (to tell protected from unprotected steps).
type Holder interface{ Held(delta int) }

func held(s Sched, d int) {
	if h, ok := s.(Holder); ok {
		h.Held(d)
	}
}
