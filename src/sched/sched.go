// Package sched is a stateless model checker for goroutine interleavings: a
// cooperative scheduler (threads are goroutines passed a baton) plus a
// depth-first explorer over every scheduling choice, with an optional
// preemption bound, deadlock detection and deterministic replay.
//
// Scheduling points: every lock acquisition of the vsync shim (before
// acquiring), blocking on a held lock, and — in AllSteps mode — every
// statement boundary of instrumented library code executed while the thread
// holds no exclusive shim lock.
package sched

import (
	"fmt"
	"runtime"

	"github.com/oasisprotocol/curve25519-voi/internal/verif/vsync"
)

type thread struct {
	id       int
	resume   chan struct{}
	done     bool
	blocked  interface{}
	held     int
	panicVal interface{}
}

// Exec is one controlled execution.
type Exec struct {
	threads  []*thread
	cur      *thread
	yield    chan struct{}
	prefix   []int
	Choices  []int  // choice taken at each scheduling decision
	NEnabled []int  // number of enabled threads at each decision
	CurOn    []bool // whether the previously running thread was still enabled (switching away = preemption)
	AllSteps bool
	// observations
	UnprotectedSteps int
	// InsideSteps makes statements INSIDE critical sections scheduling points too (needed when the code under test
	// uses TryLock: a failed attempt is only reachable while another thread is preempted holding the lock)
	InsideSteps bool
	// TryLocks counts TryLock calls of the execution
	TryLocks int
	Deadlock bool
	Panics   []string
	Diverged bool // a replayed prefix asked for a choice that does not exist
	clock    int
	abort    bool
}

// Tick returns a fresh logical timestamp (for call/return histories).
func (e *Exec) Tick() int { e.clock++; return e.clock }

// --- vsync.Sched -----------------------------------------------------------

func (e *Exec) Point(kind string, obj interface{}) {
	if kind == "unlock" || kind == "runlock" {
		return // releasing is not a choice point: the next acquisition is
	}
	e.switchOut()
}

func (e *Exec) Block(obj interface{}) {
	e.cur.blocked = obj
	e.switchOut()
}

func (e *Exec) Wake(obj interface{}) {
	for _, t := range e.threads {
		if t.blocked == obj {
			t.blocked = nil
		}
	}
}

func (e *Exec) Held(d int) { e.cur.held += d }

// NoteTryLock is called by the mutex shim on every TryLock.
func (e *Exec) NoteTryLock() { e.TryLocks++ }

func (e *Exec) Step() {
	if e.cur == nil {
		return
	}
	if e.cur.held > 0 {
		if e.InsideSteps {
			e.switchOut()
		}
		return
	}
	e.UnprotectedSteps++
	if e.AllSteps {
		e.switchOut()
	}
}

func (e *Exec) switchOut() {
	me := e.cur
	e.yield <- struct{}{}
	<-me.resume
	if e.abort {
		runtime.Goexit()
	}
}

// Run executes the thread bodies under the schedule prefix (then choice 0).
func Run(prefix []int, allSteps bool, bodies []func(e *Exec)) *Exec {
	return RunOpts(prefix, allSteps, false, bodies)
}

// RunOpts is Run with statement-level points inside critical sections as well (inside).
func RunOpts(prefix []int, allSteps, inside bool, bodies []func(e *Exec)) *Exec {
	e := &Exec{prefix: prefix, AllSteps: allSteps, InsideSteps: inside, yield: make(chan struct{})}
	for i, b := range bodies {
		t := &thread{id: i, resume: make(chan struct{})}
		e.threads = append(e.threads, t)
		b := b
		go func() {
			<-t.resume
			defer func() {
				if r := recover(); r != nil {
					buf := make([]byte, 2048)
					n := runtime.Stack(buf, false)
					t.panicVal = r
					e.Panics = append(e.Panics, fmt.Sprintf("thread %d: %v\n%s", t.id, r, buf[:n]))
				}
				t.done = true
				e.yield <- struct{}{}
			}()
			if e.abort {
				return
			}
			b(e)
		}()
	}
	vsync.Active = e
	// Eager start: every thread runs, in id order, up to its first scheduling point
	// (that prefix is thread-local).
	for _, t := range e.threads {
		e.cur = t
		t.resume <- struct{}{}
		<-e.yield
	}
	e.cur = nil
	step := 0
	for len(e.Panics) == 0 {
		var en []*thread
		curOn := e.cur != nil && !e.cur.done && e.cur.blocked == nil
		if curOn {
			en = append(en, e.cur)
		}
		for _, t := range e.threads {
			if t != e.cur && !t.done && t.blocked == nil {
				en = append(en, t)
			}
		}
		if len(en) == 0 {
			for _, t := range e.threads {
				if !t.done {
					e.Deadlock = true
				}
			}
			break
		}
		c := 0
		if step < len(e.prefix) {
			c = e.prefix[step]
			if c >= len(en) {
				e.Diverged = true
				break
			}
		}
		e.Choices = append(e.Choices, c)
		e.NEnabled = append(e.NEnabled, len(en))
		e.CurOn = append(e.CurOn, curOn)
		step++
		e.cur = en[c]
		e.cur.resume <- struct{}{}
		<-e.yield
	}
	// release parked threads of an aborted execution
	e.abort = true
	for _, t := range e.threads {
		if !t.done {
			e.cur = t
			t.resume <- struct{}{}
			<-e.yield
		}
	}
	vsync.Active = nil
	return e
}

// Preemptions counts the preemptions in Choices[:n] (+ alt at position n if given).
func (e *Exec) preemptionsBefore(n int) int {
	p := 0
	for i := 0; i < n; i++ {
		if e.CurOn[i] && e.Choices[i] != 0 {
			p++
		}
	}
	return p
}

// Stats of one exploration.
type Stats struct {
	Executions int64
	MaxPoints  int
	Capped     bool
}

// Explore runs the DFS: run(prefix) must build fresh state and call Run.
// bound < 0 means no preemption bound.  visit is called on every complete
// execution; returning false stops the exploration.
func Explore(bound int, maxExec int64, run func(prefix []int) *Exec, visit func(e *Exec) bool) Stats {
	var st Stats
	stack := [][]int{nil}
	for len(stack) > 0 {
		prefix := stack[len(stack)-1]
		stack = stack[:len(stack)-1]
		if maxExec > 0 && st.Executions >= maxExec {
			st.Capped = true
			return st
		}
		e := run(prefix)
		st.Executions++
		if len(e.Choices) > st.MaxPoints {
			st.MaxPoints = len(e.Choices)
		}
		if !visit(e) {
			return st
		}
		if e.Diverged {
			continue
		}
		for i := len(e.Choices) - 1; i >= len(prefix); i-- {
			cost := 0
			if bound >= 0 {
				cost = e.preemptionsBefore(i)
				if e.CurOn[i] {
					cost++
				}
				if cost > bound {
					continue
				}
			}
			for alt := e.NEnabled[i] - 1; alt >= 1; alt-- {
				np := make([]int, i+1)
				copy(np, e.Choices[:i])
				np[i] = alt
				stack = append(stack, np)
			}
		}
	}
	return st
}
