// C05: scalar arithmetic is exact modulo L on the scalar alphabets.
package main

import (
	"bytes"
	"fmt"
	"math/big"

	"github.com/oasisprotocol/curve25519-voi/curve/scalar"
	"github.com/oasisprotocol/curve25519-voi/internal/verif/alph"
	"github.com/oasisprotocol/curve25519-voi/internal/verif/mc"
	"github.com/oasisprotocol/curve25519-voi/internal/verif/ref"
)

func sc(v *big.Int) *scalar.Scalar {
	s, err := scalar.NewFromBits(ref.LE32(v))
	if err != nil {
		panic(err)
	}
	return s
}

func val(s *scalar.Scalar) *big.Int {
	var b [32]byte
	if err := s.ToBytes(b[:]); err != nil {
		panic(err)
	}
	return ref.FromLE(b[:])
}

var two64 = new(big.Int).Lsh(big.NewInt(1), 64)

func nearMultiple(v *big.Int) bool {
	r := new(big.Int).Mod(v, ref.L)
	if r.Cmp(two64) < 0 {
		return true
	}
	return new(big.Int).Sub(ref.L, r).Cmp(two64) < 0
}

func main() { mc.Main("C05", run) }

func run(c *mc.Ctx) {
	full := alph.Scalars(c.Seed, false)
	core := alph.Scalars(c.Seed, true)
	A, Bs := full, core
	if c.Thorough {
		Bs = full
	}
	c.Rep.Extra["alphabet_full"] = len(full)
	c.Rep.Extra["alphabet_core"] = len(core)

	// Binary operations on A x Bs (both orders are covered because Bs is a subset of A; in thorough A x A).
	c.Par("binary", len(A)*len(Bs), func(w *mc.W, i int) {
		a, b := A[i/len(Bs)], Bs[i%len(Bs)]
		sa, sb := sc(a), sc(b)
		unred := a.Cmp(ref.L) >= 0 || b.Cmp(ref.L) >= 0
		cas := func() interface{} { return map[string]string{"a": a.Text(16), "b": b.Text(16)} }
		sum := new(big.Int).Add(a, b)
		got := val(scalar.New().Add(sa, sb))
		w.Eval("add", unred || sum.Cmp(ref.L) >= 0)
		if want := ref.SMod(sum); got.Cmp(want) != 0 {
			w.Fail("Scalar.Add", fmt.Sprintf("Add(%x,%x)=%x want %x", a, b, got, want), cas())
		}
		got = val(scalar.New().Sub(sa, sb))
		w.Eval("sub", unred || a.Cmp(b) < 0)
		if want := ref.SSub(a, b); got.Cmp(want) != 0 {
			w.Fail("Scalar.Sub", fmt.Sprintf("Sub(%x,%x)=%x want %x", a, b, got, want), cas())
		}
		got = val(scalar.New().Mul(sa, sb))
		w.Eval("mul", unred || new(big.Int).Mul(a, b).Cmp(ref.L) >= 0)
		if want := ref.SMul(a, b); got.Cmp(want) != 0 {
			w.Fail("Scalar.Mul", fmt.Sprintf("Mul(%x,%x)=%x want %x", a, b, got, want), cas())
		}
		// aliasing: receiver is an operand
		x := sc(a)
		x.Mul(x, sb)
		if val(x).Cmp(ref.SMul(a, b)) != 0 {
			w.Fail("Scalar.Mul/alias", fmt.Sprintf("x.Mul(x,b) a=%x b=%x", a, b), cas())
		}
		x = sc(a)
		x.Add(x, x)
		if val(x).Cmp(ref.SAdd(a, a)) != 0 {
			w.Fail("Scalar.Add/alias", fmt.Sprintf("x.Add(x,x) a=%x", a), cas())
		}
		// every aliasing pattern of receiver and operands
		for _, al := range []struct {
			name string
			f    func() *big.Int
			want *big.Int
		}{
			{"x.Add(a,x)", func() *big.Int { x := sc(b); return val(x.Add(sa, x)) }, ref.SAdd(a, b)},
			{"x.Sub(x,b)", func() *big.Int { x := sc(a); return val(x.Sub(x, sb)) }, ref.SSub(a, b)},
			{"x.Sub(a,x)", func() *big.Int { x := sc(b); return val(x.Sub(sa, x)) }, ref.SSub(a, b)},
			{"x.Mul(a,x)", func() *big.Int { x := sc(b); return val(x.Mul(sa, x)) }, ref.SMul(a, b)},
			{"x.Mul(x,x)", func() *big.Int { x := sc(a); return val(x.Mul(x, x)) }, ref.SMul(a, a)},
			{"x.Sub(x,x)", func() *big.Int { x := sc(a); return val(x.Sub(x, x)) }, big.NewInt(0)},
			{"x.Neg(x)", func() *big.Int { x := sc(a); return val(x.Neg(x)) }, ref.SNeg(a)},
			{"x.Reduce(x)", func() *big.Int { x := sc(a); return val(x.Reduce(x)) }, ref.SMod(a)},
			{"x.Sum({x,b})", func() *big.Int { x := sc(a); return val(x.Sum([]*scalar.Scalar{x, sb})) }, ref.SAdd(a, b)},
			{"x.Product({x,b,x})", func() *big.Int { x := sc(a); return val(x.Product([]*scalar.Scalar{x, sb, x})) }, ref.SMul(ref.SMul(a, b), a)},
		} {
			if got := al.f(); got.Cmp(al.want) != 0 {
				w.Fail("Scalar/alias/"+al.name, fmt.Sprintf("%s with a=%x b=%x gives %x want %x", al.name, a, b, got, al.want), cas())
			}
		}
		if ref.SMod(a).Sign() != 0 {
			x := sc(a)
			if got := val(x.Invert(x)); got.Cmp(ref.SInv(a)) != 0 {
				w.Fail("Scalar/alias/x.Invert(x)", fmt.Sprintf("x.Invert(x) a=%x", a), cas())
			}
		}
		// operands must not be modified
		if val(sa).Cmp(a) != 0 || val(sb).Cmp(b) != 0 {
			w.Fail("Scalar/operand-modified", fmt.Sprintf("an operand was modified by Add/Sub/Mul: a=%x b=%x", a, b), cas())
		}
		eq := sa.Equal(sb)
		if (eq == 1) != (a.Cmp(b) == 0) {
			w.Fail("Scalar.Equal", fmt.Sprintf("Equal(%x,%x)=%d", a, b, eq), cas())
		}
		if i%977 == 0 {
			w.Sample(map[string]string{"op": "Add/Sub/Mul", "a": a.Text(16), "b": b.Text(16)})
		}
	})

	// Unary operations.
	c.Par("unary", len(full), func(w *mc.W, i int) {
		a := full[i]
		sa := sc(a)
		unred := a.Cmp(ref.L) >= 0
		cas := map[string]string{"a": a.Text(16)}
		if got, want := val(scalar.New().Neg(sa)), ref.SNeg(a); got.Cmp(want) != 0 {
			w.Fail("Scalar.Neg", fmt.Sprintf("Neg(%x)=%x want %x", a, got, want), cas)
		}
		w.Eval("neg", unred || a.Sign() != 0)
		if got, want := val(scalar.New().Reduce(sa)), ref.SMod(a); got.Cmp(want) != 0 {
			w.Fail("Scalar.Reduce", fmt.Sprintf("Reduce(%x)=%x want %x", a, got, want), cas)
		}
		w.Eval("reduce", unred)
		if got, want := sa.IsCanonical(), !unred; got != want {
			w.Fail("Scalar.IsCanonical", fmt.Sprintf("IsCanonical(%x)=%v", a, got), cas)
		}
		w.Eval("iscanonical", nearMultiple(a))
		if ref.SMod(a).Sign() != 0 {
			got, want := val(scalar.New().Invert(sa)), ref.SInv(a)
			// Invert documents a nonzero input; for unreduced input the inverse of the residue is the only correct answer.
			if got.Cmp(want) != 0 {
				w.Fail("Scalar.Invert", fmt.Sprintf("Invert(%x)=%x want %x", a, got, want), cas)
			}
			w.Eval("invert", true)
		}
		// Set / One / Zero / SetUint64 / marshal round trip
		if val(scalar.New().Set(sa)).Cmp(a) != 0 {
			w.Fail("Scalar.Set", "Set does not copy", cas)
		}
		mb, err := sa.MarshalBinary()
		if err != nil || ref.FromLE(mb).Cmp(a) != 0 {
			w.Fail("Scalar.MarshalBinary", "MarshalBinary mismatch", cas)
		}
		if a.IsUint64() {
			if val(scalar.NewFromUint64(a.Uint64())).Cmp(a) != 0 {
				w.Fail("Scalar.SetUint64", "SetUint64 mismatch", cas)
			}
		}
	})

	// Vector operations on all vectors of length 0..3 (quick) / 0..4 (thorough) over a small core.
	small := []*big.Int{}
	for _, v := range core {
		if len(small) < c.Pick(9, 12) {
			small = append(small, v)
		}
	}
	// make sure the small set has unreduced and near-L members
	small = append(small, new(big.Int).Sub(ref.L, big.NewInt(1)), new(big.Int).Add(ref.L, big.NewInt(1)), new(big.Int).Sub(new(big.Int).Lsh(big.NewInt(1), 255), big.NewInt(1)), core[len(core)-1])
	maxLen := c.Pick(3, 4)
	total := 0
	offs := []int{}
	for n, p := 0, 1; n <= maxLen; n++ {
		offs = append(offs, total)
		total += p
		p *= len(small)
	}
	c.Par("vectors", total, func(w *mc.W, i int) {
		n := 0
		for n+1 < len(offs) && i >= offs[n+1] {
			n++
		}
		j := i - offs[n]
		vals := make([]*big.Int, n)
		for k := 0; k < n; k++ {
			vals[k] = small[j%len(small)]
			j /= len(small)
		}
		mk := func() []*scalar.Scalar {
			out := make([]*scalar.Scalar, n)
			for k := range out {
				out[k] = sc(vals[k])
			}
			return out
		}
		prod, sum := big.NewInt(1), big.NewInt(0)
		nonzero := true
		desc := ""
		for _, v := range vals {
			prod = ref.SMul(prod, v)
			sum = ref.SAdd(sum, v)
			if ref.SMod(v).Sign() == 0 {
				nonzero = false
			}
			desc += v.Text(16) + ","
		}
		cas := map[string]string{"values": desc}
		if got := val(scalar.New().Product(mk())); got.Cmp(prod) != 0 {
			w.Fail("Scalar.Product", fmt.Sprintf("Product(%s)=%x want %x", desc, got, prod), cas)
		}
		if got := val(scalar.New().Sum(mk())); got.Cmp(sum) != 0 {
			w.Fail("Scalar.Sum", fmt.Sprintf("Sum(%s)=%x want %x", desc, got, sum), cas)
		}
		w.Eval("product_sum", n >= 2)
		if nonzero {
			in := mk()
			ret := val(scalar.New().BatchInvert(in))
			if want := ref.SInv(prod); ret.Cmp(want) != 0 {
				w.Fail("Scalar.BatchInvert/ret", fmt.Sprintf("BatchInvert(%s) returned %x want %x", desc, ret, want), cas)
			}
			for k := range in {
				if got, want := val(in[k]), ref.SInv(vals[k]); got.Cmp(want) != 0 {
					w.Fail("Scalar.BatchInvert/elem", fmt.Sprintf("BatchInvert(%s)[%d]=%x want %x", desc, k, got, want), cas)
				}
			}
			w.Eval("batchinvert", n >= 1)
		}
	})

	// Long vectors: n copies of one value (and an alternating pair) for every n up to 300.  A Sum or Product that
	// defers its reduction is exact for short vectors and wraps the limb capacity only after dozens of unreduced addends.
	longVals := []*big.Int{new(big.Int).Sub(new(big.Int).Lsh(big.NewInt(1), 255), big.NewInt(1)), new(big.Int).Sub(ref.L, big.NewInt(1)), new(big.Int).Add(new(big.Int).Mul(big.NewInt(7), ref.L), big.NewInt(3)), core[len(core)-1], big.NewInt(1)}
	maxN := c.Pick(300, 700)
	c.Par("long-vectors", len(longVals)*(maxN+1), func(w *mc.W, i int) {
		v, n := longVals[i/(maxN+1)], i%(maxN+1)
		alt := longVals[(i/(maxN+1)+1)%len(longVals)]
		vs := make([]*scalar.Scalar, n)
		sum, prod := big.NewInt(0), big.NewInt(1)
		for k := range vs {
			x := v
			if k%3 == 2 {
				x = alt
			}
			vs[k] = sc(x)
			sum = ref.SAdd(sum, x)
			prod = ref.SMul(prod, x)
		}
		cas := map[string]string{"value": v.Text(16), "n": fmt.Sprint(n)}
		if got := val(scalar.New().Sum(vs)); got.Cmp(sum) != 0 {
			w.Fail("Scalar.Sum/long", fmt.Sprintf("Sum of %d values (%x, every third %x) = %x want %x", n, v, alt, got, sum), cas)
		}
		if got := val(scalar.New().Product(vs)); got.Cmp(prod) != 0 {
			w.Fail("Scalar.Product/long", fmt.Sprintf("Product of %d values (%x, ...) = %x want %x", n, v, got, prod), cas)
		}
		// repeated in-place accumulation, the way callers build sums themselves
		acc := scalar.New()
		for k := range vs {
			acc.Add(acc, vs[k])
		}
		if got := val(acc); got.Cmp(sum) != 0 {
			w.Fail("Scalar.Add/accumulate", fmt.Sprintf("accumulating %d values with Add gives %x want %x", n, got, sum), cas)
		}
		if ref.SMod(v).Sign() != 0 && ref.SMod(alt).Sign() != 0 { // every length (a blocked implementation changes behaviour at its block size)
			invV, invAlt := ref.SInv(v), ref.SInv(alt)
			in := make([]*scalar.Scalar, n)
			for k := range in {
				in[k] = scalar.New().Set(vs[k])
			}
			ret := val(scalar.New().BatchInvert(in))
			if ret.Cmp(ref.SInv(prod)) != 0 {
				w.Fail("Scalar.BatchInvert/long", fmt.Sprintf("BatchInvert of %d values returned %x want %x", n, ret, ref.SInv(prod)), cas)
			}
			for k := range in {
				x := v
				if k%3 == 2 {
					x = alt
				}
				want := invV
				if x == alt {
					want = invAlt
				}
				if val(in[k]).Cmp(want) != 0 {
					w.Fail("Scalar.BatchInvert/elem", fmt.Sprintf("BatchInvert of %d values: element %d is not the inverse", n, k), cas)
					break
				}
			}
		}
		w.Eval("long-vectors", n >= 2)
	})

	// Decoders on the 256-bit alphabet + the decision tree of the comparison.
	w256 := alph.Wide(c.Seed, 256, false)
	w256 = append(w256, decisionTree()...)
	// a dense neighbourhood of the order (and of 2^252): every L + e, |e| <= 600, and L +- 2^(8k) for every byte k
	{
		seenW := map[string]bool{}
		for _, v := range w256 {
			seenW[v.Text(16)] = true
		}
		addW := func(v *big.Int) {
			if v.Sign() >= 0 && v.BitLen() <= 256 && !seenW[v.Text(16)] {
				seenW[v.Text(16)] = true
				w256 = append(w256, v)
			}
		}
		for e := int64(-600); e <= 600; e++ {
			addW(new(big.Int).Add(ref.L, big.NewInt(e)))
			addW(new(big.Int).Add(new(big.Int).Lsh(big.NewInt(1), 252), big.NewInt(e)))
		}
		for k := uint(0); k < 32; k++ {
			addW(new(big.Int).Add(ref.L, new(big.Int).Lsh(big.NewInt(1), 8*k)))
			addW(new(big.Int).Sub(ref.L, new(big.Int).Lsh(big.NewInt(1), 8*k)))
		}
	}
	c.Rep.Extra["alphabet_256"] = len(w256)
	c.Par("decode256", len(w256), func(w *mc.W, i int) {
		v := w256[i]
		b := ref.LE32(v)
		cas := map[string]string{"bytes": mc.Hex(b)}
		below := v.Cmp(ref.L) < 0
		w.Eval(fmt.Sprintf("decode256/below=%v", below), nearMultiple(v))
		if got := scalar.ScMinimalVartime(b); got != below {
			w.Fail("ScMinimalVartime", fmt.Sprintf("ScMinimalVartime(%x)=%v want %v", b, got, below), cas)
		}
		s, err := scalar.NewFromCanonicalBytes(b)
		if (err == nil) != below {
			w.Fail("SetCanonicalBytes", fmt.Sprintf("SetCanonicalBytes(%x) err=%v, value<L is %v", b, err, below), cas)
		} else if err == nil && val(s).Cmp(v) != 0 {
			w.Fail("SetCanonicalBytes/value", fmt.Sprintf("SetCanonicalBytes(%x) decoded %x", b, val(s)), cas)
		}
		// failed decode must not modify the receiver
		r := sc(big.NewInt(0x1234567))
		if _, err := r.SetCanonicalBytes(b); err != nil && val(r).Cmp(big.NewInt(0x1234567)) != 0 {
			w.Fail("SetCanonicalBytes/receiver", fmt.Sprintf("failed SetCanonicalBytes(%x) modified the receiver", b), cas)
		}
		var u scalar.Scalar
		if err := u.UnmarshalBinary(b); (err == nil) != below {
			w.Fail("Scalar.UnmarshalBinary", fmt.Sprintf("UnmarshalBinary(%x) err=%v", b, err), cas)
		} else if err == nil && val(&u).Cmp(v) != 0 {
			w.Fail("Scalar.UnmarshalBinary/value", "value mismatch", cas)
		}
		m, err := scalar.NewFromBytesModOrder(b)
		if err != nil || val(m).Cmp(ref.SMod(v)) != 0 {
			w.Fail("SetBytesModOrder", fmt.Sprintf("SetBytesModOrder(%x)=%v want %x", b, m, ref.SMod(v)), cas)
		}
		bs, err := scalar.NewFromBits(b)
		if err != nil || val(bs).Cmp(new(big.Int).SetBit(new(big.Int).Set(v), 255, 0)) != 0 {
			w.Fail("SetBits", fmt.Sprintf("SetBits(%x) wrong", b), cas)
		}
		if below && s != nil {
			// IsCanonical on canonical decode; round trip
			if !s.IsCanonical() {
				w.Fail("Scalar.IsCanonical", "canonical value reported non-canonical", cas)
			}
			var ob [32]byte
			_ = s.ToBytes(ob[:])
			if !bytes.Equal(ob[:], b) {
				w.Fail("Scalar.ToBytes", "round trip mismatch", cas)
			}
		}
		if i%97 == 0 {
			w.Sample(map[string]string{"op": "decode256", "bytes": mc.Hex(b)})
		}
	})

	// Wide reduction: lo/hi halves both from the 256-bit alphabet (core) + 512-bit alphabet.
	w512 := alph.Wide(c.Seed, 512, false)
	halves := alph.Wide(c.Seed, 256, !c.Thorough)
	nh := len(halves)
	c.Rep.Extra["alphabet_512"] = len(w512) + nh*nh
	c.Par("wide", len(w512)+nh*nh, func(w *mc.W, i int) {
		var v *big.Int
		if i < len(w512) {
			v = w512[i]
		} else {
			j := i - len(w512)
			v = new(big.Int).Add(halves[j%nh], new(big.Int).Lsh(halves[j/nh], 256))
		}
		b := ref.LEn(v, 64)
		s, err := scalar.NewFromBytesModOrderWide(b)
		w.Eval("wide", v.BitLen() > 253)
		if err != nil || val(s).Cmp(ref.SMod(v)) != 0 {
			w.Fail("SetBytesModOrderWide", fmt.Sprintf("SetBytesModOrderWide(%x) -> %v err=%v want %x", b, s, err, ref.SMod(v)), map[string]string{"bytes": mc.Hex(b)})
		}
	})

	// Lengths: every byte-taking constructor on every length 0..70.
	c.Par("lengths", 71, func(w *mc.W, n int) {
		b := make([]byte, n)
		w.Eval("lengths", true)
		chk := func(name string, err error, want int) {
			if (err == nil) != (n == want) {
				w.Fail(name+"/length", fmt.Sprintf("%s with %d bytes: err=%v", name, n, err), map[string]int{"len": n})
			}
		}
		_, e := scalar.NewFromBits(b)
		chk("SetBits", e, 32)
		_, e = scalar.NewFromBytesModOrder(b)
		chk("SetBytesModOrder", e, 32)
		_, e = scalar.NewFromCanonicalBytes(b)
		chk("SetCanonicalBytes", e, 32)
		_, e = scalar.NewFromBytesModOrderWide(b)
		chk("SetBytesModOrderWide", e, 64)
		chk("ToBytes", scalar.New().ToBytes(b), 32)
		var u scalar.Scalar
		chk("UnmarshalBinary", u.UnmarshalBinary(b), 32)
		if got := scalar.ScMinimalVartime(b); got != (n == 32) {
			w.Fail("ScMinimalVartime/length", fmt.Sprintf("ScMinimalVartime(%d zero bytes)=%v", n, got), map[string]int{"len": n})
		}
	})

	// ConditionalSelect (complete choice domain) on core x core.
	c.Par("select", len(core)*len(core), func(w *mc.W, i int) {
		a, b := core[i/len(core)], core[i%len(core)]
		for ch := 0; ch <= 1; ch++ {
			var s scalar.Scalar
			s.ConditionalSelect(sc(a), sc(b), ch)
			want := a
			if ch == 1 {
				want = b
			}
			if val(&s).Cmp(want) != 0 {
				w.Fail("Scalar.ConditionalSelect", fmt.Sprintf("select(%x,%x,%d)=%x", a, b, ch, val(&s)), nil)
			}
		}
		w.Eval("select", a.Cmp(b) != 0)
	})

	// SetRandom = wide reduction of the first 64 bytes read.
	c.Par("setrandom", 8, func(w *mc.W, i int) {
		buf := mc.Bytes(c.Seed, "setrandom", i, 64)
		s, err := scalar.New().SetRandom(bytes.NewReader(buf))
		if err != nil || val(s).Cmp(ref.SMod(ref.FromLE(buf))) != 0 {
			w.Fail("Scalar.SetRandom", "SetRandom is not the wide reduction of the entropy", nil)
		}
		_, err = scalar.New().SetRandom(bytes.NewReader(buf[:63]))
		if err == nil {
			w.Fail("Scalar.SetRandom/short", "short entropy read did not error", nil)
		}
		w.Eval("setrandom", true)
	})

	c.Require("decode256/below=true", 50)
	c.Require("decode256/below=false", 50)
	c.Require("invert", 100)
}

// decisionTree enumerates every path of a word-wise comparison against L:
// for each of the four 64-bit words the classes {order-1, order, order+1, 0, max}
// crossed with the top-nibble classes of byte 31.
func decisionTree() []*big.Int {
	lb := ref.LE32(ref.L)
	var ow [4]uint64
	for i := 0; i < 4; i++ {
		for j := 7; j >= 0; j-- {
			ow[i] = ow[i]<<8 | uint64(lb[i*8+j])
		}
	}
	var out []*big.Int
	seen := map[string]bool{}
	cls := func(o uint64) []uint64 {
		return []uint64{o, o - 1, o + 1, 0, ^uint64(0)}
	}
	for _, w0 := range cls(ow[0]) {
		for _, w1 := range cls(ow[1]) {
			for _, w2 := range cls(ow[2]) {
				for _, w3 := range cls(ow[3]) {
					for nib := 0; nib < 16; nib++ {
						for _, keep := range []bool{true, false} {
							ww := [4]uint64{w0, w1, w2, w3}
							if !keep {
								ww[3] = ww[3]&^(uint64(0xf)<<60) | uint64(nib)<<60
							} else if nib != 0 {
								continue
							}
							b := make([]byte, 32)
							for i := 0; i < 4; i++ {
								for j := 0; j < 8; j++ {
									b[i*8+j] = byte(ww[i] >> (8 * j))
								}
							}
							k := string(b)
							if !seen[k] {
								seen[k] = true
								out = append(out, ref.FromLE(b))
							}
						}
					}
				}
			}
		}
	}
	return out
}
