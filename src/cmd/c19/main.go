// C19: untrusted input never panics or leaves partial state (documented cases aside).
// For every byte-taking entry point: every length 0..2*size+2 x content classes x
// fresh/used receivers; oracle: terminates, no undocumented panic, wrong length =>
// error/false, receiver after failure = documented neutral value or bit-identical
// to its pre-call value.
package main

import (
	"bytes"
	"crypto"
	_ "crypto/sha256"
	_ "crypto/sha512"
	"fmt"
	"reflect"

	"golang.org/x/crypto/sha3"

	"github.com/oasisprotocol/curve25519-voi/curve"
	"github.com/oasisprotocol/curve25519-voi/curve/scalar"
	"github.com/oasisprotocol/curve25519-voi/internal/verif/mc"
	"github.com/oasisprotocol/curve25519-voi/primitives/ed25519"
	"github.com/oasisprotocol/curve25519-voi/primitives/ed25519/extra/cache"
	"github.com/oasisprotocol/curve25519-voi/primitives/ed25519/extra/ecvrf"
	"github.com/oasisprotocol/curve25519-voi/primitives/h2c"
	"github.com/oasisprotocol/curve25519-voi/primitives/merlin"
	"github.com/oasisprotocol/curve25519-voi/primitives/sr25519"
	"github.com/oasisprotocol/curve25519-voi/primitives/x25519"
)

func main() { mc.Main("C19", run) }

// outcome of one call
type outcome struct {
	accepted bool        // nil error / true
	panicked interface{} // recovered value
	before   interface{} // receiver value before the call (deep copy)
	after    interface{} // receiver value after the call
	neutral  interface{} // documented neutral value (nil: type documents no reset => must be unchanged)
}

// surface is one byte-taking entry point.
type surface struct {
	name   string
	size   int    // the one accepted length (-1: every length is acceptable input)
	valid  []byte // a valid encoding of that length
	valid2 []byte // optional: a second, different valid encoding (for chunk substitution)
	// call runs the entry point on data with a fresh (used=false) or previously set (used=true) receiver.
	call func(used bool, data []byte) outcome
	// documented panic condition (allow-list keyed by function + condition, not message text)
	mayPanic func(data []byte) bool
}

func guard(o *outcome, f func()) {
	defer func() {
		if r := recover(); r != nil {
			o.panicked = r
			o.accepted = false
		}
	}()
	f()
}

func deref(v interface{}) interface{} { return reflect.ValueOf(v).Elem().Interface() }

func content(s *surface, n, class int) []byte {
	b := make([]byte, n)
	switch class {
	case 0: // zeros
	case 1:
		for i := range b {
			b[i] = 0xff
		}
	case 2: // valid encoding truncated / zero-extended
		copy(b, s.valid)
	case 3: // valid encoding truncated / 0xff-extended
		for i := range b {
			b[i] = 0xff
		}
		copy(b, s.valid)
	case 4: // valid encoding repeated
		for i := range b {
			if len(s.valid) > 0 {
				b[i] = s.valid[i%len(s.valid)]
			}
		}
	}
	return b
}

// inject returns the valid encoding with one failure cause injected into 32-byte chunk j
// (kind 0: chunk := 0xff.., 1: chunk := 0, 2: chunk := the same chunk of a second valid encoding,
// 3: top bit of the chunk's last byte flipped, 4: low bit of its first byte flipped, 5: chunk := p (non-canonical zero),
// 6: chunk := the group order L).
func inject(s *surface, j, kind int) []byte {
	b := append([]byte{}, s.valid...)
	lo, hi := 32*j, 32*j+32
	if hi > len(b) {
		hi = len(b)
	}
	ch := b[lo:hi]
	switch kind {
	case 0:
		for i := range ch {
			ch[i] = 0xff
		}
	case 1:
		for i := range ch {
			ch[i] = 0
		}
	case 2:
		if len(s.valid2) == len(s.valid) {
			copy(ch, s.valid2[lo:hi])
		}
	case 3:
		ch[len(ch)-1] ^= 0x80
	case 4:
		ch[0] ^= 1
	case 5:
		for i := range ch {
			ch[i] = 0xff
		}
		ch[0] = 0xed
		ch[len(ch)-1] = 0x7f
	case 7, 8, 9, 10, 11, 12, 13, 14:
		// generic near misses: a well-formed string a few bits away from the valid one (canonical, sign bit untouched) -- the
		// class a decoder rejects LATE, after the cheap checks (not on the curve / not a square)
		pos := []int{1, 5, 9, 13, 17, 21, 25, 29}[kind-7]
		if pos < len(ch) {
			ch[pos] ^= byte(2 << uint(kind%5))
		}
	case 6:
		copy(ch, []byte{0xed, 0xd3, 0xf5, 0x5c, 0x1a, 0x63, 0x12, 0x58, 0xd6, 0x9c, 0xf7, 0xa2, 0xde, 0xf9, 0xde, 0x14, 0, 0, 0, 0, 0, 0, 0, 0, 0, 0, 0, 0, 0, 0, 0, 0x10})
	}
	return b
}

func run(c *mc.Ctx) {
	surfaces := buildSurfaces(c)
	type cs struct {
		s     *surface
		n     int
		class int
		used  bool
		nilIn bool
		inj   int // -1 none, else 16*chunk+kind
	}
	var all []cs
	for i := range surfaces {
		s := &surfaces[i]
		maxN := 2*s.size + 2
		if s.size < 0 {
			maxN = c.Pick(300, 700)
		}
		for n := 0; n <= maxN; n++ {
			for class := 0; class < 5; class++ {
				for _, used := range []bool{false, true} {
					all = append(all, cs{s, n, class, used, false, -1})
				}
			}
		}
		all = append(all, cs{s, 0, 0, false, true, -1}, cs{s, 0, 0, true, true, -1})
		if s.size > 0 {
			for j := 0; j*32 < s.size; j++ {
				for kind := 0; kind < 15; kind++ {
					all = append(all, cs{s, s.size, 9, false, false, 16*j + kind}, cs{s, s.size, 9, true, false, 16*j + kind})
				}
			}
		}
	}
	c.Par("lengths-x-contents", len(all), func(w *mc.W, i int) {
		k := all[i]
		s := k.s
		var data []byte
		if k.inj >= 0 {
			data = inject(s, k.inj/16, k.inj%16)
		} else if !k.nilIn {
			data = content(s, k.n, k.class)
		}
		// the argument is handed over as a sub-slice with spare capacity and a guard pattern behind it: no entry
		// point may write into the caller's buffer, neither into the bytes it was given nor behind them
		arg := data
		var buf []byte
		if data != nil {
			buf = make([]byte, len(data)+48)
			copy(buf, data)
			for j := len(data); j < len(buf); j++ {
				buf[j] = 0xa5
			}
			arg = buf[:len(data)]
		}
		o := s.call(k.used, arg)
		if buf != nil {
			clean := bytes.Equal(buf[:len(data)], data)
			for j := len(data); j < len(buf); j++ {
				clean = clean && buf[j] == 0xa5
			}
			if !clean {
				w.Fail(s.name+"/caller-memory-modified", fmt.Sprintf("%s wrote into the caller's input buffer (or behind it) on %d bytes", s.name, len(data)),
					map[string]interface{}{"surface": s.name, "len": len(data), "class": k.class})
			}
		}
		cas := map[string]interface{}{"surface": s.name, "len": len(data), "class": k.class, "used_receiver": k.used, "nil": k.nilIn, "data": mc.Hex(data), "injected": k.inj}
		wrongLen := s.size >= 0 && len(data) != s.size
		w.Eval(fmt.Sprintf("%s/wronglen=%v", s.name, wrongLen), wrongLen || k.class >= 2)
		if o.panicked != nil {
			if s.mayPanic == nil || !s.mayPanic(data) {
				w.Fail(s.name+"/panic", fmt.Sprintf("%s panicked on %d bytes (class %d, used receiver %v): %v", s.name, len(data), k.class, k.used, o.panicked), cas)
			}
			return
		}
		if wrongLen && o.accepted {
			w.Fail(s.name+"/length", fmt.Sprintf("%s accepted %d bytes (expects %d)", s.name, len(data), s.size), cas)
		}
		if s.size >= 0 && len(data) == s.size && k.class == 2 && !o.accepted {
			w.Fail(s.name+"/valid-rejected", fmt.Sprintf("%s rejected its own valid encoding %x", s.name, data), cas)
		}
		if !o.accepted && o.before != nil {
			unchanged := reflect.DeepEqual(o.before, o.after)
			neutral := o.neutral != nil && reflect.DeepEqual(o.neutral, o.after)
			if o.neutral != nil {
				// the type documents a reset: it must be exactly the neutral value
				if !neutral {
					w.Fail(s.name+"/receiver-not-neutral", fmt.Sprintf("%s failed on %d bytes but left the receiver %v (neutral is %v, before %v)", s.name, len(data), o.after, o.neutral, o.before), cas)
				}
			} else if !unchanged {
				w.Fail(s.name+"/receiver-partial", fmt.Sprintf("%s failed on %d bytes and modified the receiver: before %v after %v", s.name, len(data), o.before, o.after), cas)
			}
		}
		if i%4001 == 0 {
			w.Sample(cas)
		}
	})
	for i := range surfaces {
		if surfaces[i].size >= 0 {
			c.Require(surfaces[i].name+"/wronglen=true", 10)
			c.Require(surfaces[i].name+"/wronglen=false", 5)
		}
	}
	c.Rep.Extra["surfaces"] = len(surfaces)
	cacheHistories(c)
	sizeThresholds(c)
	optionFlags(c)
	selfAliasedDecode(c)
	transcripts(c)
}

func mustHex(b []byte, err error) []byte {
	if err != nil {
		panic(err)
	}
	return b
}

func buildSurfaces(c *mc.Ctx) []surface {
	seed := mc.Bytes(c.Seed, "c19seed", 0, 32)
	sk := ed25519.NewKeyFromSeed(seed)
	pk := []byte(sk.Public().(ed25519.PublicKey))
	msg := []byte("c19 message")
	sig := ed25519.Sign(sk, msg)
	var B2 curve.EdwardsPoint
	B2.Add(curve.ED25519_BASEPOINT_POINT, curve.ED25519_BASEPOINT_POINT)
	b2enc := mustHex(B2.MarshalBinary())
	var R2 curve.RistrettoPoint
	R2.Add(curve.RISTRETTO_BASEPOINT_POINT, curve.RISTRETTO_BASEPOINT_POINT)
	r2enc := mustHex(R2.MarshalBinary())
	sc7 := mustHex(scalar.NewFromUint64(7).MarshalBinary())
	var msk sr25519.MiniSecretKey
	copy(msk[:], seed)
	ssk := msk.ExpandUniform()
	kp := ssk.KeyPair()
	sctx := sr25519.NewSigningContext([]byte("c19"))
	ssig, _ := kp.Sign(bytes.NewReader(make([]byte, 64)), sctx.NewTranscriptBytes(msg))
	ssigB := mustHex(ssig.MarshalBinary())
	spkB := mustHex(kp.PublicKey().MarshalBinary())
	sskB := mustHex(ssk.MarshalBinary())
	kpB := mustHex(kp.MarshalBinary())
	var msk2 sr25519.MiniSecretKey
	copy(msk2[:], mc.Bytes(c.Seed, "c19seed2", 0, 32))
	kp2 := msk2.ExpandUniform().KeyPair()
	kp2B := mustHex(kp2.MarshalBinary())
	ssig2, _ := kp2.Sign(bytes.NewReader(make([]byte, 64)), sctx.NewTranscriptBytes(msg))
	ssig2B := mustHex(ssig2.MarshalBinary())
	pi := ecvrf.Prove(sk, msg)
	uniform := mc.Bytes(c.Seed, "uniform", 0, 64)

	var S []surface
	add := func(s surface) { S = append(S, s) }

	// ---- curve: Edwards ----
	newEd := func(used bool) *curve.EdwardsPoint {
		p := curve.NewEdwardsPoint()
		if used {
			p.Set(curve.ED25519_BASEPOINT_POINT)
		}
		return p
	}
	// the receiver is observed through its encoding AND through the encoding of receiver + B: the extended coordinate T is
	// invisible to an encoding but not to the next addition (a decoder that leaves a stale T behind after a failure)
	edState := func(p *curve.EdwardsPoint) interface{} {
		var q curve.EdwardsPoint
		q.Add(p, curve.ED25519_BASEPOINT_POINT)
		return mc.Hex(mustHex(p.MarshalBinary())) + "|+B=" + mc.Hex(mustHex(q.MarshalBinary()))
	}
	idEnc := edState(curve.NewEdwardsPoint().Identity())
	add(surface{name: "EdwardsPoint.UnmarshalBinary", size: 32, valid: b2enc, call: func(used bool, d []byte) (o outcome) {
		p := newEd(used)
		o.before, o.neutral = edState(p), idEnc
		guard(&o, func() { o.accepted = p.UnmarshalBinary(d) == nil })
		o.after = edState(p)
		return
	}})
	// the typed decoders take a 32-byte array: other lengths cannot be expressed (reported as rejected without a call)
	add(surface{name: "EdwardsPoint.SetCompressedY", size: 32, valid: b2enc, call: func(used bool, d []byte) (o outcome) {
		p := newEd(used)
		o.before = edState(p)
		o.after = o.before
		if len(d) != 32 {
			return
		}
		var cy curve.CompressedEdwardsY
		copy(cy[:], d)
		guard(&o, func() { _, err := p.SetCompressedY(&cy); o.accepted = err == nil })
		o.after = edState(p)
		if !o.accepted && reflect.DeepEqual(o.after, idEnc) {
			o.after = o.before // neutral is as good as unchanged
		}
		return
	}})
	newCEd := func(used bool) *curve.CompressedEdwardsY {
		p := curve.NewCompressedEdwardsY()
		if used {
			copy(p[:], b2enc)
		}
		return p
	}
	add(surface{name: "CompressedEdwardsY.UnmarshalBinary", size: 32, valid: b2enc, call: func(used bool, d []byte) (o outcome) {
		p := newCEd(used)
		o.before, o.neutral = *p, *curve.NewCompressedEdwardsY()
		guard(&o, func() { o.accepted = p.UnmarshalBinary(d) == nil })
		o.after = *p
		return
	}})
	add(surface{name: "CompressedEdwardsY.SetBytes", size: 32, valid: b2enc, call: func(used bool, d []byte) (o outcome) {
		p := newCEd(used)
		o.before = *p
		guard(&o, func() { r, err := p.SetBytes(d); o.accepted = err == nil && r != nil })
		o.after = *p
		return
	}})
	add(surface{name: "NewCompressedEdwardsYFromBytes", size: 32, valid: b2enc, call: func(used bool, d []byte) (o outcome) {
		guard(&o, func() { r, err := curve.NewCompressedEdwardsYFromBytes(d); o.accepted = err == nil && r != nil })
		return
	}})
	// ---- curve: Ristretto ----
	newR := func(used bool) *curve.RistrettoPoint {
		p := curve.NewRistrettoPoint()
		if used {
			p.Set(curve.RISTRETTO_BASEPOINT_POINT)
		}
		return p
	}
	rState := func(p *curve.RistrettoPoint) interface{} {
		var q curve.RistrettoPoint
		q.Add(p, curve.RISTRETTO_BASEPOINT_POINT)
		return mc.Hex(mustHex(p.MarshalBinary())) + "|+B=" + mc.Hex(mustHex(q.MarshalBinary()))
	}
	ridEnc := rState(curve.NewRistrettoPoint().Identity())
	add(surface{name: "RistrettoPoint.UnmarshalBinary", size: 32, valid: r2enc, call: func(used bool, d []byte) (o outcome) {
		p := newR(used)
		o.before, o.neutral = rState(p), ridEnc
		guard(&o, func() { o.accepted = p.UnmarshalBinary(d) == nil })
		o.after = rState(p)
		return
	}})
	add(surface{name: "RistrettoPoint.SetCompressed", size: 32, valid: r2enc, call: func(used bool, d []byte) (o outcome) {
		p := newR(used)
		o.before = rState(p)
		o.after = o.before
		if len(d) != 32 {
			return
		}
		var cr curve.CompressedRistretto
		copy(cr[:], d)
		guard(&o, func() { _, err := p.SetCompressed(&cr); o.accepted = err == nil })
		o.after = rState(p)
		if !o.accepted && reflect.DeepEqual(o.after, ridEnc) {
			o.after = o.before
		}
		return
	}})
	newCR := func(used bool) *curve.CompressedRistretto {
		p := curve.NewCompressedRistretto()
		if used {
			copy(p[:], r2enc)
		}
		return p
	}
	add(surface{name: "CompressedRistretto.UnmarshalBinary", size: 32, valid: r2enc, call: func(used bool, d []byte) (o outcome) {
		p := newCR(used)
		o.before, o.neutral = *p, *curve.NewCompressedRistretto()
		guard(&o, func() { o.accepted = p.UnmarshalBinary(d) == nil })
		o.after = *p
		return
	}})
	add(surface{name: "CompressedRistretto.SetBytes", size: 32, valid: r2enc, call: func(used bool, d []byte) (o outcome) {
		p := newCR(used)
		o.before = *p
		guard(&o, func() { r, err := p.SetBytes(d); o.accepted = err == nil && r != nil })
		o.after = *p
		return
	}})
	add(surface{name: "RistrettoPoint.SetUniformBytes", size: 64, valid: uniform, call: func(used bool, d []byte) (o outcome) {
		p := newR(used)
		o.before = rState(p)
		guard(&o, func() { r, err := p.SetUniformBytes(d); o.accepted = err == nil && r != nil })
		o.after = rState(p)
		return
	}})
	add(surface{name: "RistrettoPoint.SetRandom(short reader)", size: 64, valid: uniform, call: func(used bool, d []byte) (o outcome) {
		p := newR(used)
		o.before = rState(p)
		guard(&o, func() { r, err := p.SetRandom(bytes.NewReader(d)); o.accepted = err == nil && r != nil })
		o.after = rState(p)
		if len(d) > 64 {
			o.accepted = false // longer streams are fine; only the short ones must fail
			o.before = o.after
		}
		return
	}, mayPanic: nil})
	add(surface{name: "MontgomeryPoint.SetBytes", size: 32, valid: curve.X25519_BASEPOINT[:], call: func(used bool, d []byte) (o outcome) {
		p := curve.NewMontgomeryPoint()
		if used {
			copy(p[:], curve.X25519_BASEPOINT[:])
		}
		o.before = *p
		guard(&o, func() { r, err := p.SetBytes(d); o.accepted = err == nil && r != nil })
		o.after = *p
		return
	}})
	// ---- scalar ----
	newS := func(used bool) *scalar.Scalar {
		if used {
			return scalar.NewFromUint64(0x1234567)
		}
		return scalar.New()
	}
	sState := func(s *scalar.Scalar) interface{} { return mc.Hex(mustHex(s.MarshalBinary())) }
	scalarSurface := func(name string, size int, valid []byte, f func(s *scalar.Scalar, d []byte) error) {
		add(surface{name: name, size: size, valid: valid, call: func(used bool, d []byte) (o outcome) {
			s := newS(used)
			o.before = sState(s)
			guard(&o, func() { o.accepted = f(s, d) == nil })
			o.after = sState(s)
			return
		}})
	}
	scalarSurface("Scalar.SetBits", 32, sc7, func(s *scalar.Scalar, d []byte) error { _, e := s.SetBits(d); return e })
	scalarSurface("Scalar.SetBytesModOrder", 32, sc7, func(s *scalar.Scalar, d []byte) error { _, e := s.SetBytesModOrder(d); return e })
	scalarSurface("Scalar.SetBytesModOrderWide", 64, append(append([]byte{}, sc7...), make([]byte, 32)...), func(s *scalar.Scalar, d []byte) error {
		_, e := s.SetBytesModOrderWide(d)
		return e
	})
	scalarSurface("Scalar.SetCanonicalBytes", 32, sc7, func(s *scalar.Scalar, d []byte) error { _, e := s.SetCanonicalBytes(d); return e })
	scalarSurface("Scalar.UnmarshalBinary", 32, sc7, func(s *scalar.Scalar, d []byte) error { return s.UnmarshalBinary(d) })
	scalarSurface("Scalar.ToBytes(out)", 32, sc7, func(s *scalar.Scalar, d []byte) error { return s.ToBytes(append([]byte{}, d...)) })
	add(surface{name: "scalar.NewFromCanonicalBytes", size: 32, valid: sc7, call: func(used bool, d []byte) (o outcome) {
		guard(&o, func() { r, err := scalar.NewFromCanonicalBytes(d); o.accepted = err == nil && r != nil })
		return
	}})
	add(surface{name: "ScMinimalVartime", size: 32, valid: sc7, call: func(used bool, d []byte) (o outcome) {
		guard(&o, func() { o.accepted = scalar.ScMinimalVartime(d) })
		return
	}})
	// ---- ed25519 ----
	add(surface{name: "ed25519.NewExpandedPublicKey", size: 32, valid: pk, call: func(used bool, d []byte) (o outcome) {
		guard(&o, func() { r, err := ed25519.NewExpandedPublicKey(d); o.accepted = err == nil && r != nil })
		return
	}})
	add(surface{name: "ed25519.Verify(signature bytes)", size: 64, valid: sig, call: func(used bool, d []byte) (o outcome) {
		guard(&o, func() { o.accepted = ed25519.Verify(pk, msg, d) })
		return
	}})
	// documented: "will panic if len(publicKey) is not PublicKeySize"
	add(surface{name: "ed25519.Verify(public key bytes)", size: 32, valid: pk, call: func(used bool, d []byte) (o outcome) {
		guard(&o, func() { o.accepted = ed25519.Verify(d, msg, sig) })
		return
	}, mayPanic: func(d []byte) bool { return len(d) != 32 }})
	add(surface{name: "ed25519.Verify(message bytes)", size: -1, call: func(used bool, d []byte) (o outcome) {
		guard(&o, func() { o.accepted = ed25519.Verify(pk, d, sig) })
		return
	}})
	epk, _ := ed25519.NewExpandedPublicKey(pk)
	add(surface{name: "ed25519.VerifyExpanded(signature bytes)", size: 64, valid: sig, call: func(used bool, d []byte) (o outcome) {
		guard(&o, func() { o.accepted = ed25519.VerifyExpanded(epk, msg, d) })
		return
	}})
	// documented: ph requires a 64-byte pre-hashed message (panics otherwise)
	add(surface{name: "ed25519.VerifyWithOptions(ph message bytes)", size: 64, valid: make([]byte, 64), call: func(used bool, d []byte) (o outcome) {
		guard(&o, func() {
			ed25519.VerifyWithOptions(pk, d, sig, &ed25519.Options{Hash: crypto.SHA512})
			o.accepted = len(d) == 64
		})
		return
	}, mayPanic: func(d []byte) bool { return len(d) != 64 }})
	// documented: a context longer than ContextMaxSize (255) is an invalid option (panics in the verify entry points, an error
	// from Sign); every context of 0..255 bytes is legal in ctx and ph mode, through every twin, and never panics
	add(surface{name: "ed25519.*WithOptions(context bytes)", size: -1, call: func(used bool, d []byte) (o outcome) {
		guard(&o, func() {
			cx := string(d)
			digest := make([]byte, 64)
			ed25519.VerifyWithOptions(pk, msg, sig, &ed25519.Options{Context: cx})
			ed25519.VerifyWithOptions(pk, digest, sig, &ed25519.Options{Hash: crypto.SHA512, Context: cx})
			ed25519.VerifyExpandedWithOptions(epk, msg, sig, &ed25519.Options{Context: cx, Verify: ed25519.VerifyOptionsZIP_215})
			v := ed25519.NewBatchVerifier()
			v.AddWithOptions(pk, msg, sig, &ed25519.Options{Context: cx})
			v.AddExpandedWithOptions(epk, digest, sig, &ed25519.Options{Hash: crypto.SHA512, Context: cx})
			v.Verify(bytes.NewReader(make([]byte, 64)))
			sg, err := sk.Sign(nil, msg, &ed25519.Options{Context: cx})
			if (err == nil) != (len(d) <= 255) {
				panic(fmt.Sprintf("Sign with a %d-byte context: err=%v", len(d), err))
			}
			o.accepted = err == nil && len(d) > 0 && ed25519.VerifyWithOptions(pk, msg, sg, &ed25519.Options{Context: cx})
			if err == nil && len(d) > 0 && !o.accepted {
				panic(fmt.Sprintf("signature made with a %d-byte context does not verify under it", len(d)))
			}
		})
		return
	}, mayPanic: func(d []byte) bool { return len(d) > 255 }})
	add(surface{name: "BatchVerifier.Add(signature bytes)", size: 64, valid: sig, call: func(used bool, d []byte) (o outcome) {
		guard(&o, func() {
			v := ed25519.NewBatchVerifier()
			if used {
				v.Add(pk, msg, sig)
			}
			v.Add(pk, msg, d)
			_, each := v.Verify(bytes.NewReader(make([]byte, 64)))
			o.accepted = each[len(each)-1]
			if used && !each[0] {
				panic("first (valid) batch entry reported invalid")
			}
			_ = v.VerifyBatchOnly(bytes.NewReader(make([]byte, 64)))
		})
		return
	}})
	add(surface{name: "BatchVerifier.Add(public key bytes)", size: 32, valid: pk, call: func(used bool, d []byte) (o outcome) {
		guard(&o, func() {
			v := ed25519.NewBatchVerifier()
			if used {
				v.ForceNoPublicKeyExpansion()
			}
			v.Add(d, msg, sig)
			_, each := v.Verify(bytes.NewReader(make([]byte, 64)))
			o.accepted = each[0]
		})
		return
	}})
	// A small-order public key makes the verification equation independent of the challenge k: (R = [s]B, S = s) satisfies
	// [8]([S]B - [k]A - R) = O for every message whenever A is in E[8] and the options admit small-order A.  So a batch entry
	// whose key bytes are zero-padded or truncated INTO such a key verifies -- unless the length is checked (the hashed key
	// bytes do not matter here, which is what hides a missing length check behind honest signatures).
	{
		var sB curve.EdwardsPoint
		s5 := scalar.NewFromUint64(5)
		sB.MulBasepoint(curve.ED25519_BASEPOINT_TABLE, s5)
		fsig := append(mustHex(sB.MarshalBinary()), mustHex(s5.MarshalBinary())...)
		zeroKey := make([]byte, 32) // y = 0: a point of order 4
		idKey := make([]byte, 32)   // the identity
		idKey[0] = 1
		for _, kk := range []struct {
			n string
			k []byte
		}{{"order-4", zeroKey}, {"identity", idKey}} {
			kk := kk
			for _, oo := range []struct {
				n string
				o *ed25519.VerifyOptions
			}{{"ZIP-215", ed25519.VerifyOptionsZIP_215}, {"FIPS-186-5", ed25519.VerifyOptionsFIPS_186_5}} {
				oo := oo
				add(surface{name: "BatchVerifier.AddWithOptions(" + kk.n + " key bytes, challenge-independent signature, " + oo.n + ")", size: 32, valid: kk.k, call: func(used bool, d []byte) (o outcome) {
					guard(&o, func() {
						opts := &ed25519.Options{Verify: oo.o}
						v := ed25519.NewBatchVerifier()
						if used {
							v.ForceNoPublicKeyExpansion()
						}
						v.AddWithOptions(d, msg, fsig, opts)
						all, each := v.Verify(bytes.NewReader(make([]byte, 64)))
						bo := v.VerifyBatchOnly(bytes.NewReader(make([]byte, 64)))
						cv := cache.NewVerifier(cache.NewLRUCache(2))
						bv := ed25519.NewBatchVerifier()
						cv.AddWithOptions(bv, d, msg, fsig, opts)
						all2, each2 := bv.Verify(bytes.NewReader(make([]byte, 64)))
						o.accepted = all || each[0] || bo || all2 || (len(each2) > 0 && each2[0])
						if len(d) == 32 && !(all && each[0] && bo && all2 && len(each2) == 1 && each2[0]) {
							o.accepted = false // every route must accept the well-formed entry
						}
					})
					return
				}})
			}
		}
	}
	add(surface{name: "cache.Verifier.Verify(public key bytes)", size: 32, valid: pk, call: func(used bool, d []byte) (o outcome) {
		guard(&o, func() {
			v := cache.NewVerifier(cache.NewLRUCache(2))
			if used {
				v.AddPublicKey(pk)
			}
			v.AddPublicKey(d)
			o.accepted = v.Verify(d, msg, sig)
			bv := ed25519.NewBatchVerifier()
			v.Add(bv, d, msg, sig)
			bv.Verify(bytes.NewReader(make([]byte, 64)))
		})
		return
	}})
	add(surface{name: "cache.Verifier.Verify(signature bytes)", size: 64, valid: sig, call: func(used bool, d []byte) (o outcome) {
		guard(&o, func() {
			v := cache.NewVerifier(cache.NewLRUCache(1))
			o.accepted = v.Verify(pk, msg, d)
		})
		return
	}})
	// ---- key comparison: the slice-typed Ed25519 keys compare caller-supplied byte strings of ANY length (nil, a
	// 32-byte seed, a truncated or over-long key): never a panic, equal only for the same length and bytes.  "accepted"
	// is "reported equal to the valid key"; both operand orders.
	add(surface{name: "ed25519.PrivateKey.Equal(argument)", size: 64, valid: sk, call: func(used bool, d []byte) (o outcome) {
		guard(&o, func() { o.accepted = sk.Equal(ed25519.PrivateKey(d)) })
		return
	}})
	add(surface{name: "ed25519.PrivateKey.Equal(receiver)", size: 64, valid: sk, call: func(used bool, d []byte) (o outcome) {
		guard(&o, func() { o.accepted = ed25519.PrivateKey(d).Equal(sk) })
		return
	}})
	add(surface{name: "ed25519.PublicKey.Equal(argument)", size: 32, valid: pk, call: func(used bool, d []byte) (o outcome) {
		guard(&o, func() { o.accepted = ed25519.PublicKey(pk).Equal(ed25519.PublicKey(d)) })
		return
	}})
	add(surface{name: "ed25519.PublicKey.Equal(receiver)", size: 32, valid: pk, call: func(used bool, d []byte) (o outcome) {
		guard(&o, func() { o.accepted = ed25519.PublicKey(d).Equal(ed25519.PublicKey(pk)) })
		return
	}})
	// ---- ECVRF ----
	add(surface{name: "ecvrf.ProofToHash", size: 80, valid: pi, call: func(used bool, d []byte) (o outcome) {
		guard(&o, func() { r, err := ecvrf.ProofToHash(d); o.accepted = err == nil && r != nil })
		return
	}})
	add(surface{name: "ecvrf.ProveWithAddedRandomness(private key bytes)", size: 64, valid: sk, call: func(used bool, d []byte) (o outcome) {
		guard(&o, func() {
			p1, err := ecvrf.ProveWithAddedRandomness(bytes.NewReader(make([]byte, 64)), ed25519.PrivateKey(d), msg)
			p2, err2 := ecvrf.ProveWithAddedRandomness_v10(bytes.NewReader(make([]byte, 64)), ed25519.PrivateKey(d), msg)
			o.accepted = err == nil && p1 != nil
			if (err == nil) != (err2 == nil) || (err != nil && (p1 != nil || p2 != nil)) {
				panic("the two formats disagree about the key, or a failing call returned a proof")
			}
		})
		return
	}})
	add(surface{name: "ecvrf.Verify(proof bytes)", size: 80, valid: pi, call: func(used bool, d []byte) (o outcome) {
		guard(&o, func() {
			ok, beta := ecvrf.Verify(pk, d, msg)
			o.accepted = ok
			if !ok && beta != nil {
				panic("rejected proof returned an output")
			}
			ok10, _ := ecvrf.Verify_v10(pk, d, msg)
			_ = ok10
		})
		return
	}})
	add(surface{name: "ecvrf.Verify(public key bytes)", size: 32, valid: pk, call: func(used bool, d []byte) (o outcome) {
		guard(&o, func() { ok, _ := ecvrf.Verify(d, pi, msg); o.accepted = ok })
		return
	}})
	add(surface{name: "ecvrf.Verify(alpha bytes)", size: -1, call: func(used bool, d []byte) (o outcome) {
		guard(&o, func() { ok, _ := ecvrf.Verify(pk, pi, d); o.accepted = ok })
		return
	}})
	// ---- sr25519 ----
	add(surface{name: "sr25519.Signature.UnmarshalBinary", size: 64, valid: ssigB, valid2: ssig2B, call: func(used bool, d []byte) (o outcome) {
		var s, n sr25519.Signature
		_ = n.UnmarshalBinary(nil) // documented neutral: identity point, nil scalar
		if used {
			_ = s.UnmarshalBinary(ssigB)
		}
		o.before, o.neutral = s, n
		guard(&o, func() { o.accepted = s.UnmarshalBinary(d) == nil })
		o.after = s
		// a failed signature must never verify
		if !o.accepted && o.panicked == nil {
			guard(&o, func() {
				if kp.PublicKey().Verify(sctx.NewTranscriptBytes(msg), &s) {
					panic("undecodable signature verifies")
				}
			})
		}
		return
	}})
	add(surface{name: "sr25519.NewSignatureFromBytes", size: 64, valid: ssigB, call: func(used bool, d []byte) (o outcome) {
		guard(&o, func() { r, err := sr25519.NewSignatureFromBytes(d); o.accepted = err == nil && r != nil })
		return
	}})
	add(surface{name: "sr25519.PublicKey.UnmarshalBinary", size: 32, valid: spkB, call: func(used bool, d []byte) (o outcome) {
		var p, n sr25519.PublicKey
		_ = n.UnmarshalBinary(nil)
		if used {
			_ = p.UnmarshalBinary(spkB)
		}
		o.before, o.neutral = p, n
		guard(&o, func() { o.accepted = p.UnmarshalBinary(d) == nil })
		o.after = p
		if !o.accepted && o.panicked == nil {
			guard(&o, func() {
				if p.Verify(sctx.NewTranscriptBytes(msg), ssig) {
					panic("undecodable public key verifies")
				}
			})
		}
		return
	}})
	add(surface{name: "sr25519.NewPublicKeyFromBytes", size: 32, valid: spkB, call: func(used bool, d []byte) (o outcome) {
		guard(&o, func() { r, err := sr25519.NewPublicKeyFromBytes(d); o.accepted = err == nil && r != nil })
		return
	}})
	add(surface{name: "sr25519.SecretKey.UnmarshalBinary", size: 64, valid: sskB, call: func(used bool, d []byte) (o outcome) {
		var k sr25519.SecretKey
		if used {
			_ = k.UnmarshalBinary(sskB)
		}
		o.before = mc.Hex(func() []byte {
			if !used {
				return nil
			}
			return mustHex(k.MarshalBinary())
		}())
		guard(&o, func() { o.accepted = k.UnmarshalBinary(d) == nil })
		o.after = o.before
		if used && o.panicked == nil && !o.accepted {
			o.after = mc.Hex(mustHex(k.MarshalBinary()))
		}
		return
	}})
	add(surface{name: "sr25519.NewSecretKeyFromBytes", size: 64, valid: sskB, call: func(used bool, d []byte) (o outcome) {
		guard(&o, func() { r, err := sr25519.NewSecretKeyFromBytes(d); o.accepted = err == nil && r != nil })
		return
	}})
	add(surface{name: "sr25519.NewSecretKeyFromEd25519Bytes", size: 64, valid: func() []byte {
		b := make([]byte, 64)
		b[0] = 8
		b[31] = 0x40 // clamped: low three bits clear, bit 254 set, bit 255 clear
		return b
	}(), call: func(used bool, d []byte) (o outcome) {
		guard(&o, func() { r, err := sr25519.NewSecretKeyFromEd25519Bytes(d); o.accepted = err == nil && r != nil })
		return
	}})
	add(surface{name: "sr25519.KeyPair.UnmarshalBinary", size: 96, valid: kpB, valid2: kp2B, call: func(used bool, d []byte) (o outcome) {
		var k, n sr25519.KeyPair
		if used {
			_ = k.UnmarshalBinary(kpB)
		}
		o.before, o.neutral = fmt.Sprintf("%v/%v", k.SecretKey() == nil, k.PublicKey() == nil), fmt.Sprintf("%v/%v", n.SecretKey() == nil, n.PublicKey() == nil)
		guard(&o, func() { o.accepted = k.UnmarshalBinary(d) == nil })
		o.after = fmt.Sprintf("%v/%v", k.SecretKey() == nil, k.PublicKey() == nil)
		return
	}})
	add(surface{name: "sr25519.NewKeyPairFromBytes", size: 96, valid: kpB, valid2: kp2B, call: func(used bool, d []byte) (o outcome) {
		guard(&o, func() { r, err := sr25519.NewKeyPairFromBytes(d); o.accepted = err == nil && r != nil })
		return
	}})
	add(surface{name: "sr25519.MiniSecretKey.UnmarshalBinary", size: 32, valid: seed, call: func(used bool, d []byte) (o outcome) {
		var k sr25519.MiniSecretKey
		if used {
			copy(k[:], seed)
		}
		o.before = k
		guard(&o, func() { o.accepted = k.UnmarshalBinary(d) == nil })
		o.after = k
		return
	}})
	add(surface{name: "sr25519.NewMiniSecretKeyFromBytes", size: 32, valid: seed, call: func(used bool, d []byte) (o outcome) {
		guard(&o, func() { r, err := sr25519.NewMiniSecretKeyFromBytes(d); o.accepted = err == nil && r != nil })
		return
	}})
	add(surface{name: "sr25519.BatchVerifier(decoded-or-not signature)", size: 64, valid: ssigB, call: func(used bool, d []byte) (o outcome) {
		guard(&o, func() {
			var s sr25519.Signature
			_ = s.UnmarshalBinary(d)
			bv := sr25519.NewBatchVerifier()
			if used {
				bv.Add(kp.PublicKey(), sctx.NewTranscriptBytes(msg), ssig)
			}
			bv.Add(kp.PublicKey(), sctx.NewTranscriptBytes(msg), &s)
			_, each := bv.Verify(bytes.NewReader(make([]byte, 64)))
			o.accepted = each[len(each)-1]
			if used && !each[0] {
				panic("first (valid) sr25519 batch entry reported invalid")
			}
		})
		return
	}})
	// ---- X25519 ----
	xs := mc.Bytes(c.Seed, "xscalar", 0, 32)
	add(surface{name: "x25519.X25519(point bytes)", size: 32, valid: curve.X25519_BASEPOINT[:], call: func(used bool, d []byte) (o outcome) {
		guard(&o, func() { r, err := x25519.X25519(xs, d); o.accepted = err == nil && r != nil })
		return
	}})
	add(surface{name: "x25519.X25519(scalar bytes)", size: 32, valid: xs, call: func(used bool, d []byte) (o outcome) {
		guard(&o, func() { r, err := x25519.X25519(d, x25519.Basepoint); o.accepted = err == nil && r != nil })
		return
	}})
	add(surface{name: "x25519.EdPublicKeyToX25519", size: 32, valid: pk, call: func(used bool, d []byte) (o outcome) {
		guard(&o, func() { r, ok := x25519.EdPublicKeyToX25519(d); o.accepted = ok && r != nil })
		return
	}})
	// ---- message expanders (any DST / message length; output length rules are C14) ----
	add(surface{name: "h2c.ExpandMessageXMD(dst bytes)", size: -1, call: func(used bool, d []byte) (o outcome) {
		guard(&o, func() { o.accepted = h2c.ExpandMessageXMD(make([]byte, 48), crypto.SHA512, d, msg) == nil })
		return
	}})
	add(surface{name: "h2c.ExpandMessageXMD(message bytes)", size: -1, call: func(used bool, d []byte) (o outcome) {
		guard(&o, func() { o.accepted = h2c.ExpandMessageXMD(make([]byte, 33), crypto.SHA256, []byte("dst"), d) == nil })
		return
	}})
	add(surface{name: "h2c.ExpandMessageXMD(output length)", size: -1, call: func(used bool, d []byte) (o outcome) {
		guard(&o, func() {
			o.accepted = h2c.ExpandMessageXMD(make([]byte, len(d)*37), crypto.SHA256, []byte("dst"), msg) == nil
		})
		return
	}})
	add(surface{name: "h2c.ExpandMessageXOF(dst bytes)", size: -1, call: func(used bool, d []byte) (o outcome) {
		guard(&o, func() { o.accepted = h2c.ExpandMessageXOF(make([]byte, 48), sha3.NewShake128(), d, msg) == nil })
		return
	}})
	add(surface{name: "h2c.ExpandMessageXOF(output length)", size: -1, call: func(used bool, d []byte) (o outcome) {
		guard(&o, func() {
			o.accepted = h2c.ExpandMessageXOF(make([]byte, len(d)*97), sha3.NewShake256(), []byte("dst"), msg) == nil
		})
		return
	}})
	add(surface{name: "h2c.Edwards25519_XMD_SHA512_ELL2_RO(dst,msg bytes)", size: -1, call: func(used bool, d []byte) (o outcome) {
		guard(&o, func() {
			_, e1 := h2c.Edwards25519_XMD_SHA512_ELL2_RO(d, msg)
			_, e2 := h2c.Edwards25519_XMD_SHA512_ELL2_NU([]byte("dst"), d)
			_, e3 := h2c.Ristretto255_XMD_R255MAP_RO(crypto.SHA512, d, d)
			o.accepted = e1 == nil && e2 == nil && e3 == nil
		})
		return
	}})
	return S
}

// transcripts: every transcript operation on every data length 0..N, used/cloned receivers; must not panic.
func transcripts(c *mc.Ctx) {
	maxN := c.Pick(400, 1200)
	c.Par("transcript-ops", (maxN+1)*2, func(w *mc.W, i int) {
		n, used := i/2, i%2 == 1
		defer func() {
			if r := recover(); r != nil {
				w.Fail("merlin/panic", fmt.Sprintf("transcript operation panicked with %d-byte data: %v", n, r), map[string]int{"len": n})
			}
		}()
		data := bytes.Repeat([]byte{byte(n)}, n)
		t := merlin.NewTranscript(string(data[:n%97]))
		if used {
			t.AppendMessage("x", []byte("prior"))
			t = t.Clone()
		}
		t.AppendMessage(string(data[:n%53]), data)
		out := make([]byte, n)
		t.ExtractBytes(out, string(data[:n%31]))
		rb := t.BuildRng().RekeyWithWitnessBytes(string(data[:n%17]), data)
		rng, err := rb.Finalize(bytes.NewReader(make([]byte, 32)))
		if err == nil {
			_, _ = rng.Read(out)
		}
		// a failing entropy source is an error, not a panic
		if _, err := t.BuildRng().Finalize(bytes.NewReader(make([]byte, n%32))); err == nil && n%32 < 32 {
			w.Fail("merlin.Finalize/short-entropy", fmt.Sprintf("Finalize succeeded with only %d bytes of entropy", n%32), nil)
		}
		w.Eval("transcript-ops", n > 166)
	})
}

// cacheHistories: every sequence of <= 5 calls of the caching verifier over {three good keys, a 32-byte string that is
// not a point, a 31-byte key, an empty key} x {Verify, AddPublicKey, Add-to-batch} for capacities 1 and 2: no call may
// panic (malformed keys presented EARLIER must not poison later calls), decisions = plain verification.
func cacheHistories(c *mc.Ctx) {
	msg := []byte("c19 cache history")
	type key struct {
		pk, sig []byte
		want    bool
	}
	var keys []key
	for i := 0; i < 3; i++ {
		sk := ed25519.NewKeyFromSeed(mc.Bytes(c.Seed, "c19cache", i, 32))
		keys = append(keys, key{sk.Public().(ed25519.PublicKey), ed25519.Sign(sk, msg), true})
	}
	bad := make([]byte, 32)
	for y := byte(2); ; y++ {
		bad[0] = y
		if _, err := ed25519.NewExpandedPublicKey(bad); err != nil {
			break
		}
	}
	keys = append(keys, key{bad, keys[0].sig, false}, key{keys[0].pk[:31], keys[0].sig, false}, key{nil, keys[0].sig, false},
		// a wrong-length key whose first 32 bytes are a key that may be resident in the cache
		key{append(append([]byte{}, keys[0].pk...), 0), keys[0].sig, false})
	nops := len(keys) * 3
	depth := c.Pick(3, 4)
	total := 1
	for i := 0; i < depth; i++ {
		total *= nops
	}
	c.Par("cache-histories", total*2, func(w *mc.W, i int) {
		cp := 1 + i%2
		x := i / 2
		v := cache.NewVerifier(cache.NewLRUCache(cp))
		hist := ""
		sawBad := false
		for d := 0; d < depth; d++ {
			o := x % nops
			x /= nops
			k, kind := keys[o/3], o%3
			hist += fmt.Sprintf("%s(key%d);", [...]string{"Verify", "AddPublicKey", "Add"}[kind], o/3)
			var got bool
			var pv interface{}
			func() {
				defer func() { pv = recover() }()
				switch kind {
				case 0:
					got = v.Verify(k.pk, msg, k.sig)
				case 1:
					v.AddPublicKey(k.pk)
					got = k.want
				default:
					bv := ed25519.NewBatchVerifier()
					v.Add(bv, k.pk, msg, k.sig)
					_, each := bv.Verify(bytes.NewReader(make([]byte, 64)))
					got = each[0]
				}
			}()
			cas := map[string]interface{}{"capacity": cp, "history": hist}
			if pv != nil {
				w.Fail("cache.Verifier/panic-after-malformed-key", fmt.Sprintf("cap=%d history %s: panic: %v", cp, hist, pv), cas)
				return
			}
			if got != k.want {
				w.Fail("cache.Verifier/decision-after-malformed-key", fmt.Sprintf("cap=%d history %s: got %v want %v", cp, hist, got, k.want), cas)
				return
			}
			if !k.want {
				sawBad = true
			}
		}
		w.Eval("cache-histories", sawBad)
	})
}
