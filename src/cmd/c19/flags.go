package main

import (
	"bytes"
	"crypto"
	"fmt"

	"github.com/oasisprotocol/curve25519-voi/curve"
	"github.com/oasisprotocol/curve25519-voi/internal/verif/mc"
	"github.com/oasisprotocol/curve25519-voi/primitives/ed25519"
	"github.com/oasisprotocol/curve25519-voi/primitives/ed25519/extra/cache"
)

// optionFlags: the option struct is caller-supplied input too.  Every one of the 2^5 VerifyOptions flag combinations x
// {pure, ctx, ph} x well-formed signatures of several kinds (valid; S with a low bit flipped; R replaced by another
// decodable point; small-order R; a non-canonical encoding of R) x every route into a batch (Add, Add after
// ForceNoPublicKeyExpansion, AddExpanded, through the caching verifier) x batch sizes 1 and 2 x both batch verdict
// functions.  Oracle: single-shot verification may panic only for the documented incompatible flag pair; nothing a batch
// does panics; each batch entry's verdict is the single-shot verdict of that entry (false where single-shot panics as
// documented).  Added after a seeded change that dropped the stored signature for cofactorless entries that also
// decompress R: legal, not a preset, and only reached by the serial fallback of BatchVerifier.Verify.
func optionFlags(c *mc.Ctx) {
	msg := []byte("c19 option flags")
	sk := ed25519.NewKeyFromSeed(mc.Bytes(c.Seed, "c19flags", 0, 32))
	pk := sk.Public().(ed25519.PublicKey)
	epk, _ := ed25519.NewExpandedPublicKey(pk)
	sk2 := ed25519.NewKeyFromSeed(mc.Bytes(c.Seed, "c19flags", 1, 32))
	pk2 := sk2.Public().(ed25519.PublicKey)
	sig2 := ed25519.Sign(sk2, msg)
	digest := make([]byte, 64)
	for i := range digest {
		digest[i] = byte(i)
	}
	type variant struct {
		name string
		opts ed25519.Options
		m    []byte
	}
	variants := []variant{{"pure", ed25519.Options{}, msg}, {"ctx", ed25519.Options{Context: "c19"}, msg}, {"ph", ed25519.Options{Hash: crypto.SHA512, Context: "c19"}, digest}}
	var B2 curve.EdwardsPoint
	B2.Add(curve.ED25519_BASEPOINT_POINT, curve.ED25519_BASEPOINT_POINT)
	b2 := mustHex(B2.MarshalBinary())
	t4 := mustHex(curve.EIGHT_TORSION[2].MarshalBinary()) // a point of order 4
	ncR := make([]byte, 32)                                // y = p + 1 -> the identity, non-canonically encoded
	for i := range ncR {
		ncR[i] = 0xff
	}
	ncR[0], ncR[31] = 0xee, 0x7f
	sigKinds := []string{"valid", "S-bit-flipped", "R-replaced", "small-order-R", "non-canonical-R"}
	mk := func(v *variant, kind int) []byte {
		o := v.opts
		s, err := sk.Sign(nil, v.m, &o)
		if err != nil {
			panic(err)
		}
		switch kind {
		case 1:
			s[32] ^= 1
		case 2:
			copy(s[:32], b2)
		case 3:
			copy(s[:32], t4)
		case 4:
			copy(s[:32], ncR)
		}
		return s
	}
	routes := []string{"Add", "Add/no-expansion", "AddExpanded", "cache.Add"}
	n := 32 * len(variants) * len(sigKinds) * len(routes) * 2
	c.Par("option-flags", n, func(w *mc.W, i int) {
		j := i
		flags := j % 32
		j /= 32
		v := &variants[j%len(variants)]
		j /= len(variants)
		kind := j % len(sigKinds)
		j /= len(sigKinds)
		route := j % len(routes)
		j /= len(routes)
		two := j == 1
		vo := &ed25519.VerifyOptions{AllowSmallOrderA: flags&1 != 0, AllowSmallOrderR: flags&2 != 0, AllowNonCanonicalA: flags&4 != 0, AllowNonCanonicalR: flags&8 != 0, CofactorlessVerify: flags&16 != 0}
		incompatible := vo.AllowNonCanonicalR && vo.CofactorlessVerify
		opts := v.opts
		opts.Verify = vo
		sig := mk(v, kind)
		cas := map[string]interface{}{"flags": fmt.Sprintf("%+v", *vo), "variant": v.name, "signature": sigKinds[kind], "route": routes[route], "two_entries": two, "sig": mc.Hex(sig)}
		w.Eval(fmt.Sprintf("flags/incompatible=%v/%s", incompatible, sigKinds[kind]), kind != 0 || flags != 0)
		single, singlePanic := false, interface{}(nil)
		func() {
			defer func() { singlePanic = recover() }()
			single = ed25519.VerifyWithOptions(pk, v.m, sig, &opts)
		}()
		if singlePanic != nil && !incompatible {
			w.Fail("VerifyWithOptions/flags-panic", fmt.Sprintf("VerifyWithOptions panicked under the legal option set %+v (%s, %s signature): %v", *vo, v.name, sigKinds[kind], singlePanic), cas)
			return
		}
		if singlePanic != nil {
			single = false
		}
		var all, bo bool
		var each []bool
		var p interface{}
		func() {
			defer func() { p = recover() }()
			bv := ed25519.NewBatchVerifier()
			if two {
				bv.Add(pk2, msg, sig2)
			}
			switch route {
			case 0:
				bv.AddWithOptions(pk, v.m, sig, &opts)
			case 1:
				bv.ForceNoPublicKeyExpansion()
				bv.AddWithOptions(pk, v.m, sig, &opts)
			case 2:
				bv.AddExpandedWithOptions(epk, v.m, sig, &opts)
			case 3:
				cv := cache.NewVerifier(cache.NewLRUCache(2))
				cv.AddWithOptions(bv, pk, v.m, sig, &opts)
			}
			bo = bv.VerifyBatchOnly(bytes.NewReader(make([]byte, 128)))
			all, each = bv.Verify(bytes.NewReader(make([]byte, 128)))
		}()
		if p != nil {
			w.Fail("BatchVerifier/flags-panic", fmt.Sprintf("a batch (%s, %s, %s signature, two entries %v) panicked under the option set %+v: %v", routes[route], v.name, sigKinds[kind], two, *vo, p), cas)
			return
		}
		want := 1
		if two {
			want = 2
		}
		if len(each) != want || each[want-1] != single || all != (single && (!two || each[0])) || (two && !each[0]) || (bo && !all) {
			w.Fail("BatchVerifier/flags-verdict", fmt.Sprintf("batch (%s, %s, %s signature, two entries %v) under %+v reported all=%v each=%v batchOnly=%v; single-shot verification says %v", routes[route], v.name, sigKinds[kind], two, *vo, all, each, bo, single), cas)
		}
	})
	c.Require("flags/incompatible=false/valid", 100)
	c.Require("flags/incompatible=true/valid", 10)
}
