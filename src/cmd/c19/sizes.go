package main

import (
	"bytes"
	"fmt"
	"math/big"

	"github.com/oasisprotocol/curve25519-voi/curve"
	"github.com/oasisprotocol/curve25519-voi/curve/scalar"
	"github.com/oasisprotocol/curve25519-voi/internal/verif/mc"
	"github.com/oasisprotocol/curve25519-voi/primitives/ed25519"
)

// sizeThresholds: malformed (and well-formed) members on BOTH sides of every size threshold a batch crosses (entry 94/95:
// the expanded-key / Pippenger switch at 190 terms; 250 entries = 500 terms, 400 entries = 800 terms: Pippenger window
// sizes), in the normal and the ForceNoPublicKeyExpansion mode.  Oracle: no panic; the summary is true exactly when no
// member is malformed; the per-entry vector is false exactly at the malformed member; VerifyBatchOnly agrees with the
// summary.  Plus the constant- and variable-time multiscalar multiplications at the same term counts (no panic, value
// checked against n*[s]B computed with one Mul).
func sizeThresholds(c *mc.Ctx) {
	msg := []byte("c19 size thresholds")
	sk := ed25519.NewKeyFromSeed(mc.Bytes(c.Seed, "c19size", 0, 32))
	pk := sk.Public().(ed25519.PublicKey)
	sig := ed25519.Sign(sk, msg)
	sk2 := ed25519.NewKeyFromSeed(mc.Bytes(c.Seed, "c19size", 1, 32))
	pk2 := sk2.Public().(ed25519.PublicKey)
	sig2 := ed25519.Sign(sk2, msg)
	badPt := make([]byte, 32)
	for y := byte(2); ; y++ {
		badPt[0] = y
		if _, err := ed25519.NewExpandedPublicKey(badPt); err != nil {
			break
		}
	}
	L, _ := new(big.Int).SetString("7237005577332262213973186563042994240857116359379907606001950938285454250989", 10)
	sPlusL := func() []byte {
		s := new(big.Int)
		le := append([]byte{}, sig[32:]...)
		for i, j := 0, len(le)-1; i < j; i, j = i+1, j-1 {
			le[i], le[j] = le[j], le[i]
		}
		s.SetBytes(le).Add(s, L)
		be := s.FillBytes(make([]byte, 32))
		for i, j := 0, len(be)-1; i < j; i, j = i+1, j-1 {
			be[i], be[j] = be[j], be[i]
		}
		return append(append([]byte{}, sig[:32]...), be...)
	}()
	type member struct {
		name    string
		pk, sig []byte
		ok      bool
	}
	kinds := []member{
		{"none", pk2, sig2, true},
		{"nil-signature", pk, nil, false},
		{"63-byte-signature", pk, sig[:63], false},
		{"65-byte-signature", pk, append(append([]byte{}, sig...), 0), false},
		{"S+L", pk, sPlusL, false},
		{"undecodable-R", pk, append(append([]byte{}, badPt...), sig[32:]...), false},
		{"31-byte-key", pk[:31], sig, false},
		{"empty-key", nil, sig, false},
		{"undecodable-key", badPt, sig, false},
		{"wrong-key", pk2, sig, false},
	}
	sizes := []int{2, 94, 95, 96, 130, 400}
	if c.Thorough {
		sizes = append(sizes, 1, 3, 64, 93, 127, 128, 129, 249, 250, 251, 399, 401, 520)
	}
	type cs struct{ n, kind, pos, mode int }
	var all []cs
	for _, n := range sizes {
		poss := map[int]bool{0: true, n - 1: true}
		cand := []int{94}
		if c.Thorough {
			cand = []int{93, 94, 95, 127, 128, n / 2}
		}
		for _, p := range cand {
			if p < n {
				poss[p] = true
			}
		}
		for p := range poss {
			for k := range kinds {
				for mode := 0; mode < 2; mode++ {
					all = append(all, cs{n, k, p, mode})
				}
			}
		}
	}
	// deterministic order (map iteration above)
	sortCs := func(a, b cs) bool {
		if a.n != b.n {
			return a.n < b.n
		}
		if a.pos != b.pos {
			return a.pos < b.pos
		}
		if a.kind != b.kind {
			return a.kind < b.kind
		}
		return a.mode < b.mode
	}
	for i := 1; i < len(all); i++ {
		for j := i; j > 0 && sortCs(all[j], all[j-1]); j-- {
			all[j], all[j-1] = all[j-1], all[j]
		}
	}
	c.Par("batch-size-thresholds", len(all), func(w *mc.W, i int) {
		x := all[i]
		m := kinds[x.kind]
		desc := fmt.Sprintf("ed25519 batch of %d (%s), member %d = %s", x.n, [...]string{"normal", "ForceNoPublicKeyExpansion"}[x.mode], x.pos, m.name)
		cas := map[string]interface{}{"n": x.n, "member": m.name, "position": x.pos, "mode": x.mode}
		var all1, all2, only bool
		var each []bool
		var pv interface{}
		func() {
			defer func() { pv = recover() }()
			bv := ed25519.NewBatchVerifier()
			if x.mode == 1 {
				bv.ForceNoPublicKeyExpansion()
			}
			for j := 0; j < x.n; j++ {
				if j == x.pos {
					bv.Add(m.pk, msg, m.sig)
				} else {
					bv.Add(pk, msg, sig)
				}
			}
			only = bv.VerifyBatchOnly(bytes.NewReader(make([]byte, 64)))
			all1, each = bv.Verify(bytes.NewReader(make([]byte, 64)))
			all2 = all1
			if m.ok || c.Thorough {
				all2, _ = bv.Verify(nil)
			}
		}()
		w.Eval("batch-size/"+map[bool]string{true: "all-valid", false: "one-malformed"}[m.ok], !m.ok || x.n >= 95)
		if pv != nil {
			w.Fail("BatchVerifier/panic-at-size", desc+fmt.Sprintf(": panic: %v", pv), cas)
			return
		}
		if all1 != m.ok || all2 != m.ok || only != m.ok {
			w.Fail("BatchVerifier/summary-at-size", desc+fmt.Sprintf(": Verify=%v Verify(nil rand)=%v VerifyBatchOnly=%v, want %v", all1, all2, only, m.ok), cas)
			return
		}
		if len(each) != x.n {
			w.Fail("BatchVerifier/vector-at-size", desc+fmt.Sprintf(": %d per-entry results", len(each)), cas)
			return
		}
		for j, v := range each {
			if v != (j != x.pos || m.ok) {
				w.Fail("BatchVerifier/vector-at-size", desc+fmt.Sprintf(": per-entry result %d = %v", j, v), cas)
				return
			}
		}
	})
	c.Require("batch-size/one-malformed", 100)

	// multiscalar multiplications at the threshold term counts: n copies of (s, B) must give [n*s]B
	terms := []int{1, 2, 189, 190, 191, 499, 500, 799, 800, 801}
	if c.Thorough {
		terms = append(terms, 3, 16, 100, 400, 1000, 1100)
	}
	s, _ := scalar.NewFromBits(mc.Bytes(c.Seed, "c19size-s", 0, 32))
	c.Par("multiscalar-size-thresholds", len(terms)*3, func(w *mc.W, i int) {
		n, which := terms[i/3], i%3
		name := [...]string{"MultiscalarMulVartime", "MultiscalarMul", "ExpandedMultiscalarMulVartime(all dynamic)"}[which]
		if which == 1 && n > 200 && !c.Thorough {
			w.Eval("multiscalar-size/skipped-quick", false)
			return
		}
		ss := make([]*scalar.Scalar, n)
		ps := make([]*curve.EdwardsPoint, n)
		for j := range ss {
			ss[j], ps[j] = s, curve.ED25519_BASEPOINT_POINT
		}
		var got, want curve.EdwardsPoint
		var pv interface{}
		func() {
			defer func() { pv = recover() }()
			switch which {
			case 0:
				got.MultiscalarMulVartime(ss, ps)
			case 1:
				got.MultiscalarMul(ss, ps)
			default:
				got.ExpandedMultiscalarMulVartime(nil, nil, ss, ps)
			}
		}()
		w.Eval("multiscalar-size", n >= 190)
		cas := map[string]interface{}{"terms": n, "routine": name}
		if pv != nil {
			w.Fail("EdwardsPoint."+name+"/panic-at-size", fmt.Sprintf("%s with %d terms: panic: %v", name, n, pv), cas)
			return
		}
		var ns scalar.Scalar
		var nb [32]byte
		nb[0], nb[1] = byte(n), byte(n>>8)
		if _, err := ns.SetBits(nb[:]); err != nil {
			panic(err)
		}
		ns.Mul(&ns, s)
		want.Mul(curve.ED25519_BASEPOINT_POINT, &ns)
		gb, _ := got.MarshalBinary()
		wb, _ := want.MarshalBinary()
		if !bytes.Equal(gb, wb) {
			w.Fail("EdwardsPoint."+name+"/value-at-size", fmt.Sprintf("%s of %d copies of ([s]B): got %x want %x", name, n, gb, wb), cas)
		}
	})
}
