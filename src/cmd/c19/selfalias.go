package main

import (
	"bytes"
	"fmt"

	"github.com/oasisprotocol/curve25519-voi/curve"
	"github.com/oasisprotocol/curve25519-voi/internal/verif/mc"
	"github.com/oasisprotocol/curve25519-voi/primitives/sr25519"
)

// selfAliasedDecode: the decoders of the array-typed values can be handed the receiver's own storage as input
// (`p.UnmarshalBinary(p[:])`, `p.SetBytes(p[:])`, also sub-slices of it).  The verdict and the receiver afterwards must be
// those of decoding a separate copy of the same bytes into a receiver that held the same value.  (On the pinned tree
// CompressedEdwardsY/CompressedRistretto.UnmarshalBinary reset the receiver - and with it the input - before decoding,
// so every string was accepted and replaced by the identity: fixed in /repo, see known_findings.json.)
func selfAliasedDecode(c *mc.Ctx) {
	var strs [][]byte
	add := func(b []byte) { strs = append(strs, append([]byte{}, b...)) }
	B := curve.ED25519_BASEPOINT_COMPRESSED
	add(B[:])
	RB := curve.RISTRETTO_BASEPOINT_COMPRESSED
	add(RB[:])
	add(make([]byte, 32))
	one := make([]byte, 32)
	one[0] = 1
	add(one)
	add(bytes.Repeat([]byte{0xff}, 32))
	for y := byte(2); y < 12; y++ {
		b := make([]byte, 32)
		b[0] = y
		add(b)
	}
	ncid := bytes.Repeat([]byte{0xff}, 32) // p+1 = identity, non-canonical
	ncid[0], ncid[31] = 0xee, 0x7f
	add(ncid)
	for i := 0; i < c.Pick(40, 400); i++ {
		add(mc.Bytes(c.Seed, "c19selfalias", i, 32))
	}
	type dec struct {
		name string
		// run decodes `in` (len n, a window of the receiver's storage when alias is set) and returns error + receiver bytes
		run func(init []byte, lo, hi int, alias bool) (bool, []byte)
	}
	decs := []dec{
		{"CompressedEdwardsY.UnmarshalBinary", func(init []byte, lo, hi int, alias bool) (bool, []byte) {
			var p curve.CompressedEdwardsY
			copy(p[:], init)
			in := append([]byte{}, init[lo:hi]...)
			if alias {
				in = p[lo:hi]
			}
			err := p.UnmarshalBinary(in)
			return err != nil, append([]byte{}, p[:]...)
		}},
		{"CompressedRistretto.UnmarshalBinary", func(init []byte, lo, hi int, alias bool) (bool, []byte) {
			var p curve.CompressedRistretto
			copy(p[:], init)
			in := append([]byte{}, init[lo:hi]...)
			if alias {
				in = p[lo:hi]
			}
			err := p.UnmarshalBinary(in)
			return err != nil, append([]byte{}, p[:]...)
		}},
		{"CompressedEdwardsY.SetBytes", func(init []byte, lo, hi int, alias bool) (bool, []byte) {
			var p curve.CompressedEdwardsY
			copy(p[:], init)
			in := append([]byte{}, init[lo:hi]...)
			if alias {
				in = p[lo:hi]
			}
			_, err := p.SetBytes(in)
			return err != nil, append([]byte{}, p[:]...)
		}},
		{"CompressedRistretto.SetBytes", func(init []byte, lo, hi int, alias bool) (bool, []byte) {
			var p curve.CompressedRistretto
			copy(p[:], init)
			in := append([]byte{}, init[lo:hi]...)
			if alias {
				in = p[lo:hi]
			}
			_, err := p.SetBytes(in)
			return err != nil, append([]byte{}, p[:]...)
		}},
		{"MontgomeryPoint.SetBytes", func(init []byte, lo, hi int, alias bool) (bool, []byte) {
			var p curve.MontgomeryPoint
			copy(p[:], init)
			in := append([]byte{}, init[lo:hi]...)
			if alias {
				in = p[lo:hi]
			}
			_, err := p.SetBytes(in)
			return err != nil, append([]byte{}, p[:]...)
		}},
		{"sr25519.MiniSecretKey.UnmarshalBinary", func(init []byte, lo, hi int, alias bool) (bool, []byte) {
			var p sr25519.MiniSecretKey
			copy(p[:], init)
			in := append([]byte{}, init[lo:hi]...)
			if alias {
				in = p[lo:hi]
			}
			err := p.UnmarshalBinary(in)
			return err != nil, append([]byte{}, p[:]...)
		}},
	}
	wins := [][2]int{{0, 32}, {0, 31}, {1, 32}, {0, 0}, {16, 32}}
	c.Par("self-aliased-decode", len(decs)*len(strs)*len(wins), func(w *mc.W, i int) {
		d := decs[i/(len(strs)*len(wins))]
		s := strs[i/len(wins)%len(strs)]
		win := wins[i%len(wins)]
		var e1, e2 bool
		var r1, r2 []byte
		var pv interface{}
		func() {
			defer func() { pv = recover() }()
			e1, r1 = d.run(s, win[0], win[1], false)
			e2, r2 = d.run(s, win[0], win[1], true)
		}()
		w.Eval("self-aliased-decode", e1 || win[1]-win[0] == 32)
		key := d.name + "/data-aliases-receiver"
		cas := map[string]string{"decoder": d.name, "bytes": mc.Hex(s), "window": fmt.Sprint(win)}
		if pv != nil {
			w.Fail(key, fmt.Sprintf("%s on its own storage %x[%d:%d]: panic %v", d.name, s, win[0], win[1], pv), cas)
			return
		}
		if e1 != e2 || !bytes.Equal(r1, r2) {
			w.Fail(key, fmt.Sprintf("%s(p[%d:%d]) with p = %x: error=%v receiver=%x, but decoding a separate copy gives error=%v receiver=%x", d.name, win[0], win[1], s, e2, r2, e1, r1), cas)
		}
	})
}
