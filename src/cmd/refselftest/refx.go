package main

import (
	"bytes"
	"crypto/ecdh"
	"encoding/hex"
	"math/big"

	"golang.org/x/crypto/curve25519"

	"github.com/oasisprotocol/curve25519-voi/internal/verif/mc"
	"github.com/oasisprotocol/curve25519-voi/internal/verif/ref"
	"github.com/oasisprotocol/curve25519-voi/internal/verif/ref/refx"
)

func unhexX(s string) []byte {
	b, err := hex.DecodeString(s)
	if err != nil {
		panic(err)
	}
	return b
}

func init() {
	register("x25519: RFC 7748 5.2 vectors, iterated vector (1, 1000), 6.1 DH, crypto/ecdh, x/crypto, Edwards group", func() {
		// RFC 7748 section 5.2, single-shot vectors.
		for _, v := range [][3]string{
			{"a546e36bf0527c9d3b16154b82465edd62144c0ac1fc5a18506a2244ba449ac4", "e6db6867583030db3594c1a424b15f7c726624ec26b3353b10a903a6d0ab1c4c", "c3da55379de9c6908e94ea4df28d084f32eccf03491c71f754b4075577a28552"},
			{"4b66e9d4d1b4673c5ad22691957d6af5c11b6421e0ea01d42ca4169e7918ba0d", "e5210f12786811d3f4b7959d0538ae2c31dbe7106fc03c3efc4cd549c715a493", "95cbde9476e8907d7aade45cb4b873f88b595a68799fa152e6f8f7647aac7957"},
		} {
			check("rfc7748 5.2 vector", bytes.Equal(refx.X25519(unhexX(v[0]), unhexX(v[1])), unhexX(v[2])))
		}
		// The decoded integers of the first vector as printed in the RFC.
		k1, _ := new(big.Int).SetString("31029842492115040904895560451863089656472772604678260265531221036453811406496", 10)
		u1, _ := new(big.Int).SetString("34426434033919594451155107781188821651316167215306631574996226621102155684838", 10)
		check("rfc7748 decodeScalar25519", refx.DecodeScalar25519(unhexX("a546e36bf0527c9d3b16154b82465edd62144c0ac1fc5a18506a2244ba449ac4")).Cmp(k1) == 0)
		check("rfc7748 decodeUCoordinate", refx.DecodeUCoordinate(unhexX("e6db6867583030db3594c1a424b15f7c726624ec26b3353b10a903a6d0ab1c4c")).Cmp(u1) == 0)
		// second vector's u has bit 255 set: e5210f...a493 decodes to 8883857351183929894090759386610649319417338800022198945255395922347792736741
		u2, _ := new(big.Int).SetString("8883857351183929894090759386610649319417338800022198945255395922347792736741", 10)
		check("rfc7748 decodeUCoordinate masks bit 255", refx.DecodeUCoordinate(unhexX("e5210f12786811d3f4b7959d0538ae2c31dbe7106fc03c3efc4cd549c715a493")).Cmp(u2) == 0)

		// Iterated vector.
		k := unhexX("0900000000000000000000000000000000000000000000000000000000000000")
		u := append([]byte{}, k...)
		for i := 1; i <= 1000; i++ {
			r := refx.X25519(k, u)
			u, k = k, r
			if i == 1 {
				check("rfc7748 iterated 1", hex.EncodeToString(k) == "422c8e7a6227d7bca1350b3e2bb7279f7897b87bb6854b783c60e80311ae3079")
			}
		}
		check("rfc7748 iterated 1000", hex.EncodeToString(k) == "684cf59ba83309552800ef566f2f4d3c1c3887c49360e3875f2eb94d99532c51")

		// Section 6.1 Diffie-Hellman.
		nine := unhexX("0900000000000000000000000000000000000000000000000000000000000000")
		a := unhexX("77076d0a7318a57d3c16c17251b26645df4c2f87ebc0992ab177fba51db92c2a")
		b := unhexX("5dab087e624a8a4b79e17f8b83800ee66f3bb1292618b6fd1c2f8b27ff88e0eb")
		pa, pb := refx.X25519(a, nine), refx.X25519(b, nine)
		check("rfc7748 6.1 alice pub", hex.EncodeToString(pa) == "8520f0098930a754748b7ddcb43ef75a0dbf3a0d26381af4eba4a98eaa9b4e6a")
		check("rfc7748 6.1 bob pub", hex.EncodeToString(pb) == "de9edb7d7b7dc1b4d35b61c2ece435373f8343c85b78674dadfc7e146f882b4f")
		check("rfc7748 6.1 shared a", hex.EncodeToString(refx.X25519(a, pb)) == "4a5d9d5ba4ce2de1728e3bf480350f25e07e21c947d19e3376f09b3c1e161742")
		check("rfc7748 6.1 shared b", hex.EncodeToString(refx.X25519(b, pa)) == "4a5d9d5ba4ce2de1728e3bf480350f25e07e21c947d19e3376f09b3c1e161742")

		// Agreement with crypto/ecdh and x/crypto/curve25519 on honest inputs
		// (public keys that are outputs of a base multiplication).
		for i := 0; i < 24; i++ {
			s1 := mc.Bytes(7, "refx-selftest-a", i, 32)
			s2 := mc.Bytes(7, "refx-selftest-b", i, 32)
			p1, p2 := refx.X25519(s1, nine), refx.X25519(s2, nine)
			xp1, err := curve25519.X25519(s1, curve25519.Basepoint)
			check("x/crypto base", err == nil && bytes.Equal(xp1, p1))
			sh := refx.X25519(s1, p2)
			check("dh symmetric", bytes.Equal(sh, refx.X25519(s2, p1)))
			xsh, err := curve25519.X25519(s1, p2)
			check("x/crypto shared", err == nil && bytes.Equal(xsh, sh))
			ek, err := ecdh.X25519().NewPrivateKey(s1)
			check("ecdh key", err == nil)
			if err == nil {
				check("ecdh public", bytes.Equal(ek.PublicKey().Bytes(), p1))
				pk, err := ecdh.X25519().NewPublicKey(p2)
				check("ecdh pub parse", err == nil)
				esh, err := ek.ECDH(pk)
				check("ecdh shared", err == nil && bytes.Equal(esh, sh))
			}
		}

		// The seven low-order u values give the all-zero output for a clamped scalar.
		lo := []string{
			"0", "1",
			"325606250916557431795983626356110631294008115727848805560023387167927233504",
			"39382357235489614581723060781553021112529911719440698176882885853963445705823",
		}
		for _, d := range lo {
			v, _ := new(big.Int).SetString(d, 10)
			check("low order "+d[:1], refx.IsZero32(refx.X25519(a, refx.EncodeUCoordinate(v))))
		}
		for _, dlt := range []int64{-1, 0, 1} {
			v := new(big.Int).Add(refx.P, big.NewInt(dlt))
			check("low order p+e", refx.IsZero32(refx.X25519(a, ref.LE32(v))))
		}

		// Independent cross-check through the Edwards reference group: for a curve
		// point P (any order) and an unclamped integer k, Ladder(k, u(P)) = u([k]P),
		// with u(identity) = 0.
		tor := ref.Torsion()
		pts := []ref.Point{ref.Base, ref.Base.Add(tor[1]), ref.Base.Mul(big.NewInt(12345)).Add(tor[3]), tor[1], tor[2], tor[4], tor[5]}
		ks := []*big.Int{big.NewInt(0), big.NewInt(1), big.NewInt(2), big.NewInt(7), big.NewInt(8), ref.L, new(big.Int).Add(ref.L, big.NewInt(3)),
			ref.FromLE(mc.Bytes(7, "refx-selftest-k", 0, 31)), new(big.Int).Sub(new(big.Int).Lsh(big.NewInt(1), 255), big.NewInt(1))}
		for _, p := range pts {
			if p.IsIdentity() {
				continue
			}
			up := p.ToMontgomeryU()
			check("u on curve", refx.OnCurve(up))
			for _, kk := range ks {
				want := p.Mul(kk).ToMontgomeryU() // identity -> 0 because finv(0) = 0
				check("ladder = edwards group", refx.Ladder(kk, up).Cmp(want) == 0)
			}
		}
		// subgroup orders and the preimage construction used by C07's sparse-output alphabet
		check("L prime", refx.L.ProbablyPrime(32) && refx.L.Cmp(ref.L) == 0)
		check("L' prime", refx.TwistL.ProbablyPrime(32))
		if ok, q := refx.PrimeOrderSubgroup(big.NewInt(9)); !ok || q.Cmp(refx.L) != 0 {
			check("9 generates the order-L subgroup", false)
		}
		tw := refx.Ladder(big.NewInt(4), big.NewInt(2)) // [4](u=2) is in the order-L' subgroup of the twist
		if ok, q := refx.PrimeOrderSubgroup(tw); !ok || q.Cmp(refx.TwistL) != 0 || refx.OnCurve(tw) {
			check("[4](u=2) has order L' on the twist", false)
		}
		ok1, _ := refx.PrimeOrderSubgroup(big.NewInt(1))
		okMixed, _ := refx.PrimeOrderSubgroup(ref.Base.Add(tor[4]).ToMontgomeryU())
		check("mixed-order / low-order points are not in a prime-order subgroup", !ok1 && !okMixed)
		// X25519(alice, Preimage(alice, T)) = T for T = 5*2^128 (curve) and 2*2^128 (twist);
		// the two preimages were derived independently (seeded change C07/1 demo).
		for _, v := range [][2]string{
			{"5", "27faa5cb62970af969faa075e14e4989d0256f4484bc9d7509fbfb147bb5a87c"},
			{"2", "2c98d4e61644bc79e4f84d718ad010c9cc9d0f355783b9c06a28355abf4b236b"},
		} {
			kk, _ := new(big.Int).SetString(v[0], 10)
			T := new(big.Int).Lsh(kk, 128)
			okT, q := refx.PrimeOrderSubgroup(T)
			check("target in prime-order subgroup", okT)
			if okT {
				U := refx.Preimage(a, T, q)
				check("preimage matches the independently derived point", hex.EncodeToString(U) == v[1])
				check("X25519(k, preimage) = target", bytes.Equal(refx.X25519(a, U), refx.EncodeUCoordinate(T)))
			}
		}
		check("2 is on the twist", !refx.OnCurve(big.NewInt(2)))
		check("9 is on the curve", refx.OnCurve(big.NewInt(9)))
		check("-1 is on the twist", !refx.OnCurve(new(big.Int).Sub(refx.P, big.NewInt(1))))
	})
}
