package main

import (
	"bytes"
	"crypto/ed25519"
	"encoding/hex"

	"github.com/oasisprotocol/curve25519-voi/internal/verif/ref"
	"github.com/oasisprotocol/curve25519-voi/internal/verif/ref/refvrf"
)

func init() {
	register("refvrf: RFC 9381 B.3 examples 16-18 (ECVRF-EDWARDS25519-SHA512-ELL2) and the draft-10 vectors", func() {
		unhex := func(s string) []byte { b, _ := hex.DecodeString(s); return b }
		// SK, PK, alpha, pi, beta transcribed from RFC 9381 Appendix B.3 (examples 16, 17, 18) and
		// from draft-irtf-cfrg-vrf-10 Appendix A.4 (same keys and inputs, older challenge).
		type vec struct {
			sk, pk, alpha, pi, beta string
			f                       refvrf.Format
		}
		vecs := []vec{
			{"9d61b19deffd5a60ba844af492ec2cc44449c5697b326919703bac031cae7f60", "d75a980182b10ab7d54bfed3c964073a0ee172f3daa62325af021a68f707511a", "",
				"7d9c633ffeee27349264cf5c667579fc583b4bda63ab71d001f89c10003ab46f14adf9a3cd8b8412d9038531e865c341cafa73589b023d14311c331a9ad15ff2fb37831e00f0acaa6d73bc9997b06501",
				"9d574bf9b8302ec0fc1e21c3ec5368269527b87b462ce36dab2d14ccf80c53cccf6758f058c5b1c856b116388152bbe509ee3b9ecfe63d93c3b4346c1fbc6c54", refvrf.RFC9381},
			{"4ccd089b28ff96da9db6c346ec114e0f5b8a319f35aba624da8cf6ed4fb8a6fb", "3d4017c3e843895a92b70aa74d1b7ebc9c982ccf2ec4968cc0cd55f12af4660c", "72",
				"47b327393ff2dd81336f8a2ef10339112401253b3c714eeda879f12c509072ef055b48372bb82efbdce8e10c8cb9a2f9d60e93908f93df1623ad78a86a028d6bc064dbfc75a6a57379ef855dc6733801",
				"38561d6b77b71d30eb97a062168ae12b667ce5c28caccdf76bc88e093e4635987cd96814ce55b4689b3dd2947f80e59aac7b7675f8083865b46c89b2ce9cc735", refvrf.RFC9381},
			{"c5aa8df43f9f837bedb7442f31dcb7b166d38535076f094b85ce3a2e0b4458f7", "fc51cd8e6218a1a38da47ed00230f0580816ed13ba3303ac5deb911548908025", "af82",
				"926e895d308f5e328e7aa159c06eddbe56d06846abf5d98c2512235eaa57fdce35b46edfc655bc828d44ad09d1150f31374e7ef73027e14760d42e77341fe05467bb286cc2c9d7fde29120a0b2320d04",
				"121b7f9b9aaaa29099fc04a94ba52784d44eac976dd1a3cca458733be5cd090a7b5fbd148444f17f8daf1fb55cb04b1ae85a626e30a54b4b0f8abf4a43314a58", refvrf.RFC9381},
			{"9d61b19deffd5a60ba844af492ec2cc44449c5697b326919703bac031cae7f60", "d75a980182b10ab7d54bfed3c964073a0ee172f3daa62325af021a68f707511a", "",
				"7d9c633ffeee27349264cf5c667579fc583b4bda63ab71d001f89c10003ab46f25898f6bd7d4ed4c75f0282b0f7bb9d0e61b387b76db60b3cbf34bf09109ccb33fab742a8bddc0c8ba3caf5c0b75bb04",
				"9d574bf9b8302ec0fc1e21c3ec5368269527b87b462ce36dab2d14ccf80c53cccf6758f058c5b1c856b116388152bbe509ee3b9ecfe63d93c3b4346c1fbc6c54", refvrf.Draft10},
			{"4ccd089b28ff96da9db6c346ec114e0f5b8a319f35aba624da8cf6ed4fb8a6fb", "3d4017c3e843895a92b70aa74d1b7ebc9c982ccf2ec4968cc0cd55f12af4660c", "72",
				"47b327393ff2dd81336f8a2ef10339112401253b3c714eeda879f12c509072ef9bf1a234f833f72d8fff36075fd9b836da28b5569e74caa418bae7ef521f2ddd35f5727d271ecc70b4a83c1fc8ebc40c",
				"38561d6b77b71d30eb97a062168ae12b667ce5c28caccdf76bc88e093e4635987cd96814ce55b4689b3dd2947f80e59aac7b7675f8083865b46c89b2ce9cc735", refvrf.Draft10},
			{"c5aa8df43f9f837bedb7442f31dcb7b166d38535076f094b85ce3a2e0b4458f7", "fc51cd8e6218a1a38da47ed00230f0580816ed13ba3303ac5deb911548908025", "af82",
				"926e895d308f5e328e7aa159c06eddbe56d06846abf5d98c2512235eaa57fdce6187befa109606682503b3a1424f0f729ca0418099fbd86a48093e6a8de26307b8d93e02da927e6dd5b73c8f119aee0f",
				"121b7f9b9aaaa29099fc04a94ba52784d44eac976dd1a3cca458733be5cd090a7b5fbd148444f17f8daf1fb55cb04b1ae85a626e30a54b4b0f8abf4a43314a58", refvrf.Draft10},
		}
		for i, v := range vecs {
			tag := v.f.String() + " #" + string(rune('0'+i))
			key := refvrf.DeriveKey(unhex(v.sk))
			check("PK "+tag, bytes.Equal(key.PK, unhex(v.pk)))
			check("PK vs crypto/ed25519 "+tag, bytes.Equal(key.PK, ed25519.NewKeyFromSeed(unhex(v.sk)).Public().(ed25519.PublicKey)))
			tr := refvrf.Prove(v.f, key, unhex(v.alpha))
			check("pi "+tag, bytes.Equal(tr.Pi, unhex(v.pi)))
			check("beta "+tag, bytes.Equal(tr.Beta, unhex(v.beta)))
			ok, beta, _ := refvrf.Verify(v.f, unhex(v.pk), unhex(v.pi), unhex(v.alpha), true)
			check("verify "+tag, ok && bytes.Equal(beta, unhex(v.beta)))
			b2, ok2 := refvrf.ProofToHash(unhex(v.pi))
			check("proof_to_hash "+tag, ok2 && bytes.Equal(b2, unhex(v.beta)))
			other := refvrf.RFC9381
			if v.f == refvrf.RFC9381 {
				other = refvrf.Draft10
			}
			ok, _, why := refvrf.Verify(other, unhex(v.pk), unhex(v.pi), unhex(v.alpha), true)
			check("formats do not cross-verify "+tag, !ok && why == refvrf.BadEquation)
			bad := unhex(v.pi)
			bad[0] ^= 0xa5
			ok, _, _ = refvrf.Verify(v.f, unhex(v.pk), bad, unhex(v.alpha), true)
			check("altered proof rejected "+tag, !ok)
			ok, _, _ = refvrf.Verify(v.f, unhex(v.pk), unhex(v.pi), append(unhex(v.alpha), 1), true)
			check("other alpha rejected "+tag, !ok)
		}
		// RFC 9381 B.3 example 16 intermediate values (H, k, U, V) as printed in the RFC.
		key := refvrf.DeriveKey(unhex("9d61b19deffd5a60ba844af492ec2cc44449c5697b326919703bac031cae7f60"))
		tr := refvrf.Prove(refvrf.RFC9381, key, nil)
		check("example 16 x", hex.EncodeToString(ref.LE32(key.X)) == "307c83864f2833cb427a2ef1c00a013cfdff2768d980c0a3a520f006904de94f")
		check("example 16 H", hex.EncodeToString(tr.H.Encode()) == "b8066ebbb706c72b64390324e4a3276f129569eab100c26b9f05011200c1bad9")
		check("example 16 U", hex.EncodeToString(tr.U.Encode()) == "762f5c178b68f0cddcc1157918edf45ec334ac8e8286601a3256c3bbf858edd9")
		check("example 16 V", hex.EncodeToString(tr.V.Encode()) == "4652eba1c4612e6fce762977a59420b451e12964adbe4fbecd58a7aeff5860af")
	})
}
