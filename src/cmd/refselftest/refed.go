package main

import (
	"bufio"
	"bytes"
	"compress/gzip"
	"crypto"
	"crypto/ed25519"
	"crypto/sha512"
	"encoding/hex"
	"encoding/json"
	"fmt"
	"math/big"
	"os"
	"path/filepath"
	"strings"

	"github.com/oasisprotocol/curve25519-voi/internal/verif/mc"
	"github.com/oasisprotocol/curve25519-voi/internal/verif/ref"
	"github.com/oasisprotocol/curve25519-voi/internal/verif/ref/refed"
)

func unhexEd(s string) []byte {
	b, err := hex.DecodeString(s)
	if err != nil {
		panic(err)
	}
	return b
}

func repoTestdata(name string) string {
	root := os.Getenv("VERIF_VECTORS_REPO")
	if root == "" {
		root = "/repo"
	}
	return filepath.Join(root, "primitives/ed25519/testdata", name)
}

func gunzip(path string) ([]byte, bool) {
	f, err := os.Open(path)
	if err != nil {
		return nil, false
	}
	defer f.Close()
	z, err := gzip.NewReader(f)
	if err != nil {
		return nil, false
	}
	var buf bytes.Buffer
	if _, err := buf.ReadFrom(z); err != nil {
		return nil, false
	}
	return buf.Bytes(), true
}

func stdOpts(v refed.Variant) *ed25519.Options {
	o := &ed25519.Options{Context: string(v.Context)}
	if v.Ph {
		o.Hash = crypto.SHA512
	}
	return o
}

func init() {
	register("refed: projective arithmetic equals the affine reference group", func() {
		t := ref.Torsion()
		g := ref.FromLE(mc.Bytes(1, "refed-selftest", 0, 32))
		pts := []ref.Point{ref.Base, t[1], t[4], ref.Base.Add(t[3]), ref.Base.Mul(big.NewInt(12345)).Add(t[7])}
		ks := []*big.Int{big.NewInt(0), big.NewInt(1), big.NewInt(8), ref.L, new(big.Int).Sub(ref.L, big.NewInt(1)), new(big.Int).Mod(g, ref.L), g}
		for _, p := range pts {
			tab := refed.NewTable(p)
			for _, k := range ks {
				check("table mul == affine mul", tab.Mul(k).Affine().Equal(p.Mul(k)))
			}
			for _, q := range pts {
				check("proj add == affine add", refed.FromAffine(p).Add(refed.FromAffine(q)).Affine().Equal(p.Add(q)))
				check("proj sub == affine sub", refed.FromAffine(p).Add(refed.FromAffine(q).Neg()).Affine().Equal(p.Sub(q)))
			}
			check("cofactor", refed.FromAffine(p).MulCofactor().IsIdentity() == p.IsSmallOrder())
		}
		check("identity", refed.PIdentity().IsIdentity() && refed.BaseTable().Mul(ref.L).IsIdentity() && !refed.BaseTable().Mul(big.NewInt(8)).IsIdentity())
	})

	register("refed: RFC 8032 section 7.1-7.3 vectors (TEST 1-3, SHA(abc), Ed25519ctx foo, Ed25519ph abc)", func() {
		type vec struct {
			name, sk, pk, msg, ctx, sig string
			ph                          bool
		}
		sha := sha512.Sum512([]byte("abc"))
		vecs := []vec{
			{"TEST 1", "9d61b19deffd5a60ba844af492ec2cc44449c5697b326919703bac031cae7f60", "d75a980182b10ab7d54bfed3c964073a0ee172f3daa62325af021a68f707511a", "", "",
				"e5564300c360ac729086e2cc806e828a84877f1eb8e5d974d873e065224901555fb8821590a33bacc61e39701cf9b46bd25bf5f0595bbe24655141438e7a100b", false},
			{"TEST 2", "4ccd089b28ff96da9db6c346ec114e0f5b8a319f35aba624da8cf6ed4fb8a6fb", "3d4017c3e843895a92b70aa74d1b7ebc9c982ccf2ec4968cc0cd55f12af4660c", "72", "",
				"92a009a9f0d4cab8720e820b5f642540a2b27b5416503f8fb3762223ebdb69da085ac1e43e15996e458f3613d0f11d8c387b2eaeb4302aeeb00d291612bb0c00", false},
			{"TEST 3", "c5aa8df43f9f837bedb7442f31dcb7b166d38535076f094b85ce3a2e0b4458f7", "fc51cd8e6218a1a38da47ed00230f0580816ed13ba3303ac5deb911548908025", "af82", "",
				"6291d657deec24024827e69c3abe01a30ce548a284743a445e3680d7db5ac3ac18ff9b538d16f290ae67f760984dc6594a7c15e9716ed28dc027beceea1ec40a", false},
			{"TEST SHA(abc)", "833fe62409237b9d62ec77587520911e9a759cec1d19755b7da901b96dca3d42", "ec172b93ad5e563bf4932c70e1245034c35467ef2efd4d64ebf819683467e2bf", hex.EncodeToString(sha[:]), "",
				"dc2a4459e7369633a52b1bf277839a00201009a3efbf3ecb69bea2186c26b58909351fc9ac90b3ecfdfbc7c66431e0303dca179c138ac17ad9bef1177331a704", false},
			{"ctx foo", "0305334e381af78f141cb666f6199f57bc3495335a256a95bd2a55bf546663f6", "dfc9425e4f968f7f0c29f0259cf5f9aed6851c2bb4ad8bfb860cfee0ab248292", "f726936d19c800494e3fdaff20b276a8", "666f6f",
				"55a4cc2f70a54e04288c5f4cd1e45a7bb520b36292911876cada7323198dd87a8b36950b95130022907a7fb7c4e9b2d5f6cca685a587b4b21f4b888e4e7edb0d", false},
			{"ctx bar", "0305334e381af78f141cb666f6199f57bc3495335a256a95bd2a55bf546663f6", "dfc9425e4f968f7f0c29f0259cf5f9aed6851c2bb4ad8bfb860cfee0ab248292", "f726936d19c800494e3fdaff20b276a8", "626172",
				"fc60d5872fc46b3aa69f8b5b4351d5808f92bcc044606db097abab6dbcb1aee3216c48e8b3b66431b5b186d1d28f8ee15a5ca2df6668346291c2043d4eb3e90d", false},
			{"ph abc", "833fe62409237b9d62ec77587520911e9a759cec1d19755b7da901b96dca3d42", "ec172b93ad5e563bf4932c70e1245034c35467ef2efd4d64ebf819683467e2bf", "616263", "",
				"98a70222f0b8121aa9d30f813d683f809e462b469c7ff87639499bb94e6dae4131f85042463c2a355a2003d062adf5aaa10b8c61e636062aaad11c2a26083406", true},
		}
		for _, v := range vecs {
			k := refed.NewKey(unhexEd(v.sk))
			check(v.name+" public key", hex.EncodeToString(k.Pub) == v.pk)
			va := refed.Variant{Ph: v.ph, Context: unhexEd(v.ctx)}
			m := unhexEd(v.msg)
			if v.ph {
				m = refed.Prehash(m)
			}
			sig := k.Sign(va, m)
			check(v.name+" signature", hex.EncodeToString(sig) == v.sig)
			for _, fl := range []refed.Flags{refed.PresetDefault, refed.PresetStdLib, refed.PresetFIPS, refed.PresetZIP215, {}} {
				check(v.name+" verifies under "+fl.Name(), refed.Verify(k.Pub, m, sig, va, fl))
				bad := append([]byte{}, sig...)
				bad[7] ^= 4
				check(v.name+" tampered R rejected "+fl.Name(), !refed.Verify(k.Pub, m, bad, va, fl))
				bad = append([]byte{}, sig...)
				bad[40] ^= 1
				check(v.name+" tampered S rejected "+fl.Name(), !refed.Verify(k.Pub, m, bad, va, fl))
				check(v.name+" other message rejected "+fl.Name(), !refed.Verify(k.Pub, append([]byte{1}, m...), sig, va, fl))
			}
			// the variants are domain separated
			other := refed.Variant{Ph: !v.ph, Context: va.Context}
			check(v.name+" other variant rejected", !refed.Verify(k.Pub, m, sig, other, refed.PresetFIPS))
		}
		// dom2 framing
		check("dom2 pure empty", refed.Variant{}.Dom2() == nil)
		check("dom2 ctx", bytes.Equal(refed.Variant{Context: []byte("foo")}.Dom2(), append([]byte("SigEd25519 no Ed25519 collisions\x00\x03"), "foo"...)))
		check("dom2 ph", bytes.Equal(refed.Variant{Ph: true}.Dom2(), []byte("SigEd25519 no Ed25519 collisions\x01\x00")))
		long := bytes.Repeat([]byte{0xa5}, 255)
		d := refed.Variant{Ph: true, Context: long}.Dom2()
		check("dom2 255", len(d) == 32+2+255 && d[32] == 1 && d[33] == 255)
	})

	register("refed: sign and verify agree with Go crypto/ed25519 (pure, ctx, ph, ph+ctx) on honest and tampered inputs", func() {
		n := 0
		for si := 0; si < 6; si++ {
			seed := mc.Bytes(1, "refed-seed", si, 32)
			if si == 0 {
				seed = make([]byte, 32)
			}
			if si == 1 {
				seed = bytes.Repeat([]byte{0xff}, 32)
			}
			k := refed.NewKey(seed)
			sk := ed25519.NewKeyFromSeed(seed)
			check("public key == std-lib", bytes.Equal(k.Pub, sk.Public().(ed25519.PublicKey)))
			for li, l := range []int{0, 1, 31, 64, 111, 112, 128, 255} {
				msg := mc.Bytes(1, "refed-msg", si*100+li, l)
				vars := []refed.Variant{{}, {Context: []byte{0x41}}, {Context: bytes.Repeat([]byte{byte(l)}, 255)}, {Ph: true}, {Ph: true, Context: []byte("ctx")}}
				for _, va := range vars {
					m := msg
					if va.Ph {
						m = refed.Prehash(msg)
					}
					want, err := sk.Sign(nil, m, stdOpts(va))
					if err != nil {
						check("std-lib sign error "+err.Error(), false)
						continue
					}
					got := k.Sign(va, m)
					check("signature == std-lib", bytes.Equal(got, want))
					// StdLib-preset predicate vs std-lib verification on honest + tampered
					tamper := [][]byte{got}
					for _, bit := range []int{0, 100, 255, 256, 300, 508, 511} {
						b := append([]byte{}, got...)
						b[bit/8] ^= 1 << uint(bit%8)
						tamper = append(tamper, b)
					}
					// S + L (malleability)
					sl := new(big.Int).Add(ref.FromLE(got[32:]), ref.L)
					tamper = append(tamper, append(append([]byte{}, got[:32]...), ref.LE32(sl)...))
					tamper = append(tamper, got[:63], append(append([]byte{}, got...), 0))
					for ti, sig := range tamper {
						std := ed25519.VerifyWithOptions(sk.Public().(ed25519.PublicKey), m, sig, stdOpts(va)) == nil
						mine := refed.Verify(k.Pub, m, sig, va, refed.PresetStdLib)
						check(fmt.Sprintf("StdLib predicate == std-lib (tamper %d)", ti), std == mine)
						check("honest iff accepted", mine == (ti == 0))
						n++
					}
				}
			}
		}
		check("enough cases", n > 1000)
	})

	register("refed: crafted torsion / non-canonical inputs: StdLib-preset predicate == Go crypto/ed25519", func() {
		// A = aB + T_i, R = rB + T_j, s = r + k a: cofactored always holds, cofactorless iff kT_i + T_j = O.
		t := ref.Torsion()
		k := refed.NewKey(mc.Bytes(1, "refed-craft", 0, 32))
		a := new(big.Int).Mod(k.A, ref.L)
		r := new(big.Int).Mod(ref.FromLE(mc.Bytes(1, "refed-craft-r", 0, 64)), ref.L)
		a0, r0 := refed.BaseMul(a), refed.BaseMul(r)
		acc, rej, sep := 0, 0, 0
		for i := 0; i < 8; i++ {
			for j := 0; j < 8; j++ {
				ab, rb := a0.Add(t[i]).Encode(), r0.Add(t[j]).Encode()
				for c := 0; c < 6; c++ {
					m := []byte{byte(c), byte(i), byte(j)}
					kk := refed.Challenge(refed.Variant{}, rb, ab, m)
					s := new(big.Int).Mod(new(big.Int).Add(r, new(big.Int).Mul(kk, a)), ref.L)
					sig := append(append([]byte{}, rb...), ref.LE32(s)...)
					f := refed.Analyse(ab, m, sig, refed.Variant{})
					check("cofactored equation holds by construction", f.EqCofactored)
					wantCl := t[i].Mul(kk).Add(t[j]).IsIdentity()
					check("cofactorless equation iff kT_i+T_j=O", f.EqCofactorless == wantCl)
					std := ed25519.Verify(ab, m, sig)
					mine, _ := f.Verdict(refed.PresetStdLib)
					check("StdLib verdict == std-lib", std == mine)
					if mine {
						acc++
					} else {
						rej++
					}
					if z, _ := f.Verdict(refed.PresetZIP215); z && !mine {
						sep++
					}
					d, _ := f.Verdict(refed.PresetDefault)
					check("default preset accepts mixed-order", d)
					n, _ := f.Verdict(refed.Flags{})
					check("strictest flag set: rejects exactly small-order R (j with rB+T_j never small)", n)
				}
			}
		}
		check("accepting, rejecting and separating cases present", acc > 20 && rej > 20 && sep > 20)
		// small-order A and R, all encodings: std-lib accepts iff canonical R and equation
		for i := 0; i < 8; i++ {
			for j := 0; j < 8; j++ {
				ab, rb := t[i].Encode(), t[j].Encode()
				m := []byte("small")
				sig := append(append([]byte{}, rb...), make([]byte, 32)...)
				std := ed25519.Verify(ab, m, sig)
				f := refed.Analyse(ab, m, sig, refed.Variant{})
				mine, _ := f.Verdict(refed.PresetStdLib)
				check("small-order StdLib == std-lib", std == mine)
				z, _ := f.Verdict(refed.PresetZIP215)
				check("ZIP-215 accepts all small-order pairs with S=0", z)
				d, _ := f.Verdict(refed.PresetDefault)
				check("default rejects small-order A", !d)
				fi, _ := f.Verdict(refed.PresetFIPS)
				check("FIPS accepts canonical small-order pairs with S=0", fi)
			}
		}
	})

	register("refed: in-tree vectors (sign.input, rfc8032_ctx, speccheck per published table, ZIP-215 set)", func() {
		if raw, ok := gunzip(repoTestdata("sign.input.gz")); ok {
			sc := bufio.NewScanner(bytes.NewReader(raw))
			sc.Buffer(make([]byte, 1<<20), 1<<20)
			n := 0
			for sc.Scan() {
				n++
				parts := strings.Split(sc.Text(), ":")
				if len(parts) < 4 {
					continue
				}
				sk, pk, msg, sm := unhexEd(parts[0]), unhexEd(parts[1]), unhexEd(parts[2]), unhexEd(parts[3])
				k := refed.NewKey(sk[:32])
				check("sign.input public key", bytes.Equal(k.Pub, pk))
				check("sign.input signature", bytes.Equal(k.Sign(refed.Variant{}, msg), sm[:64]))
				check("sign.input verifies (FIPS)", refed.Verify(pk, msg, sm[:64], refed.Variant{}, refed.PresetFIPS))
			}
			check("sign.input has at least 100 lines", n >= 100)
		} else {
			fmt.Println("note: sign.input.gz not found, skipped")
		}
		if raw, ok := gunzip(repoTestdata("rfc8032_ctx.json.gz")); ok {
			var vs []struct{ Name, Secret_key, Public_key, Message, Context, Signature string }
			check("ctx json", json.Unmarshal(raw, &vs) == nil && len(vs) >= 4)
			for _, v := range vs {
				k := refed.NewKey(unhexEd(v.Secret_key))
				va := refed.Variant{Context: unhexEd(v.Context)}
				check("ctx "+v.Name+" pk", hex.EncodeToString(k.Pub) == v.Public_key)
				check("ctx "+v.Name+" sig", hex.EncodeToString(k.Sign(va, unhexEd(v.Message))) == v.Signature)
			}
		} else {
			fmt.Println("note: rfc8032_ctx.json.gz not found, skipped")
		}
		if raw, ok := gunzip(repoTestdata("speccheck_cases.json.gz")); ok {
			var vs []struct{ Message, Pub_key, Signature string }
			check("speccheck json", json.Unmarshal(raw, &vs) == nil && len(vs) == 12)
			// Published results ("Taming the many EdDSAs", ed25519-speccheck README): row "Go" (= ref10 semantics),
			// row "Zebra" (ZIP-215); FIPS 186-5 / RFC 8032 cofactored with canonical encodings: cases 0-5 only;
			// the paper's strongly-binding recommendation (reject small-order A): cases 2-5 only.
			tab := map[string][12]bool{
				"StdLib":  {true, true, true, true, false, false, false, false, false, false, false, true},
				"ZIP215":  {true, true, true, true, true, true, false, false, false, true, true, true},
				"FIPS":    {true, true, true, true, true, true, false, false, false, false, false, false},
				"Default": {false, false, true, true, true, true, false, false, false, false, false, false},
			}
			fl := map[string]refed.Flags{"StdLib": refed.PresetStdLib, "ZIP215": refed.PresetZIP215, "FIPS": refed.PresetFIPS, "Default": refed.PresetDefault}
			for i, v := range vs {
				f := refed.Analyse(unhexEd(v.Pub_key), unhexEd(v.Message), unhexEd(v.Signature), refed.Variant{})
				for name, exp := range tab {
					got, why := f.Verdict(fl[name])
					check(fmt.Sprintf("speccheck case %d under %s (got %v %s)", i, name, got, why), got == exp[i])
				}
				std := ed25519.Verify(unhexEd(v.Pub_key), unhexEd(v.Message), unhexEd(v.Signature))
				check(fmt.Sprintf("speccheck case %d Go row == this Go std-lib", i), std == tab["StdLib"][i])
			}
		} else {
			fmt.Println("note: speccheck_cases.json.gz not found, skipped")
		}
		if raw, ok := gunzip(repoTestdata("zip215.json.gz")); ok {
			var vs [][2]string
			check("zip215 json", json.Unmarshal(raw, &vs) == nil && len(vs) == 196)
			for i, v := range vs {
				f := refed.Analyse(unhexEd(v[0]), []byte("Zcash"), unhexEd(v[1]), refed.Variant{})
				z, why := f.Verdict(refed.PresetZIP215)
				check(fmt.Sprintf("ZIP-215 vector %d accepted by ZIP-215 rules (%s)", i, why), z)
				d, _ := f.Verdict(refed.PresetDefault)
				check(fmt.Sprintf("ZIP-215 vector %d rejected when small-order A is refused", i), !d)
				check("ZIP-215 vectors are small order", f.A.SmallOrder && f.R.SmallOrder)
				std := ed25519.Verify(unhexEd(v[0]), []byte("Zcash"), unhexEd(v[1]))
				s, _ := f.Verdict(refed.PresetStdLib)
				check(fmt.Sprintf("ZIP-215 vector %d StdLib predicate == std-lib", i), s == std)
			}
		} else {
			fmt.Println("note: zip215.json.gz not found, skipped")
		}
	})
}
