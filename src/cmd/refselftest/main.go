// refselftest validates the reference models against published vectors and
// the Go standard library before any check trusts them ("who checks the checker").
package main

import (
	"fmt"
	"os"

	"github.com/oasisprotocol/curve25519-voi/internal/verif/ref"
)

var failed = 0

func check(name string, ok bool) {
	if !ok {
		failed++
		fmt.Println("FAIL", name)
	}
}

func main() {
	for _, t := range tests {
		n := failed
		t.f()
		if failed == n {
			fmt.Println("ok  ", t.name)
		}
	}
	if failed > 0 {
		fmt.Println("ref-selftest: FAILED", failed)
		os.Exit(1)
	}
	fmt.Println("ref-selftest: all reference models agree with their vectors")
}

type test struct {
	name string
	f    func()
}

var tests []test

func register(name string, f func()) { tests = append(tests, test{name, f}) }

var _ = ref.P
