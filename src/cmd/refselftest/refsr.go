package main

import (
	"bytes"
	"encoding/hex"
	"math/big"

	"github.com/oasisprotocol/curve25519-voi/internal/verif/ref"
	"github.com/oasisprotocol/curve25519-voi/internal/verif/ref/refsr"
)

func unhex(s string) []byte {
	b, err := hex.DecodeString(s)
	if err != nil {
		panic(err)
	}
	return b
}

func init() {
	register("refsr: 4x64 limb field arithmetic vs math/big", func() {
		p := ref.P
		two255 := new(big.Int).Lsh(big.NewInt(1), 255)
		vals := []*big.Int{big.NewInt(0), big.NewInt(1), big.NewInt(2), big.NewInt(19), big.NewInt(38), new(big.Int).Sub(p, big.NewInt(1)),
			new(big.Int).Sub(p, big.NewInt(19)), new(big.Int).Sub(two255, big.NewInt(20)), ref.D, ref.SqrtM1}
		for i := 0; i < 40; i++ {
			vals = append(vals, ref.FMod(ref.FromLE(bytes.Repeat([]byte{byte(37*i + 11)}, 32))), new(big.Int).Lsh(big.NewInt(1), uint(6*i+3)))
		}
		bad := 0
		for _, a := range vals {
			for _, b := range vals {
				m, s, d := refsr.FeSelfTest(a, b)
				if m.Cmp(ref.FMul(a, b)) != 0 || s.Cmp(ref.FAdd(a, b)) != 0 || d.Cmp(ref.FSub(a, b)) != 0 {
					bad++
				}
			}
		}
		check("fe mul/add/sub on 8100 reduced pairs", bad == 0)
		// unreduced representatives up to 2^256-1 (all-ones limbs force every carry / fold path)
		ones := ^uint64(0)
		raws := [][4]uint64{{0, 0, 0, 0}, {ones, ones, ones, ones}, {ones - 18, ones, ones, ones >> 1}, {ones - 18, ones, ones, ones}, {ones - 37, ones, ones, ones},
			{0, 0, 0, 1 << 63}, {ones, 0, ones, 0}, {0, ones, 0, ones}, {1, 0, 0, 0}, {38, 0, 0, 0}, {ones, ones, ones, ones >> 1}}
		toBig := func(r [4]uint64) *big.Int {
			v := new(big.Int)
			for i := 3; i >= 0; i-- {
				v.Lsh(v, 64)
				v.Or(v, new(big.Int).SetUint64(r[i]))
			}
			return v
		}
		for _, a := range raws {
			for _, b := range raws {
				m, s, d := refsr.FeSelfTestRaw(a, b)
				A, B := toBig(a), toBig(b)
				if m.Cmp(ref.FMul(A, B)) != 0 || s.Cmp(ref.FAdd(A, B)) != 0 || d.Cmp(ref.FSub(A, B)) != 0 {
					bad++
				}
			}
		}
		check("fe mul/add/sub on unreduced all-ones representatives", bad == 0)
	})
	register("refsr: projective arithmetic vs the affine group law", func() {
		ks := []*big.Int{big.NewInt(0), big.NewInt(1), big.NewInt(2), big.NewInt(8), new(big.Int).Sub(ref.L, big.NewInt(1)), ref.L,
			new(big.Int).Add(ref.L, big.NewInt(1)), new(big.Int).Sub(new(big.Int).Lsh(big.NewInt(1), 252), big.NewInt(1)),
			ref.FromLE(bytes.Repeat([]byte{0xa5}, 31)), ref.FromLE(bytes.Repeat([]byte{0x77}, 32))}
		for _, k := range ks {
			check("[k]B table = double-and-add", refsr.BaseTable.Mul(k).Equal(ref.Base.Mul(k)))
		}
		// a non-base point, including a torsion component (completeness of the addition law)
		q := ref.Base.Mul(big.NewInt(987654321)).Add(ref.Torsion()[3])
		tab, wtab := refsr.NewTable(q), refsr.NewWindowTable(q)
		for _, k := range ks[:7] {
			check("[k]Q table = double-and-add", tab.Mul(k).Equal(q.Mul(k)))
			check("[k]Q window table = double-and-add", wtab.Mul(k).Equal(q.Mul(k)))
		}
		tt := refsr.NewTable(ref.Torsion()[1])
		for i := int64(0); i < 9; i++ {
			check("[i]T1", tt.Mul(big.NewInt(i)).Equal(ref.Torsion()[i%8]))
		}
	})
	register("refsr: schnorrkel known answers (key expansion, from_ed25519_bytes, a schnorrkel-produced signature)", func() {
		// MiniSecretKey([0;32]).expand_uniform / expand_ed25519 -> Keypair::to_bytes, computed with schnorrkel
		// (recorded in the repository's keys_test.go).
		zero := make([]byte, 32)
		check("expand_uniform(0^32) keypair", hex.EncodeToString(refsr.ExpandUniform(zero).KeypairBytes()) ==
			"04f0557e7f35e00df0824f458868915368bd5e41fd91f85b177f5907383ac50bdd0660b091e0ec47ecaf1f6ce73e7168fef267770f5030d5c524a49615163471063b66cc8b77aa24f694d073ad72c21a9f296be0fd4ee953d8e58d5d627d435b")
		check("expand_ed25519(0^32) keypair", hex.EncodeToString(refsr.ExpandEd25519(zero).KeypairBytes()) ==
			"caa835781b15c7706f65b71f7a58c807ab360faed6440fb23e0f4c52e930de0a0a6a85eaa642dac835424b5d7c8d637c00408c7a73da672b7f498521420b6dd3def12e42f3e487e9b14095aa8d5cc16a33491f1b50dadcf8811d1480f3fa8627")
		// schnorrkel documentation of SecretKey::from_ed25519_bytes
		ed := unhex("28b0ae221c6bb06856b287f60d7ea0d98552ea5a16db16956849aa371db3eb51fd190cce74df356432b410bd64682309d6dedb27c76845daf388557cbac3ca34")
		sk := refsr.FromEd25519Bytes(ed[:32], ed[32:])
		check("from_ed25519_bytes scalar", hex.EncodeToString(ref.LE32(sk.Key)) == "05d65584630d16cd4af6d0bec10f34bb504a5dcb62dba2122d49f5a663763d0a")
		check("from_ed25519_bytes nonce", hex.EncodeToString(sk.Nonce[:]) == "fd190cce74df356432b410bd64682309d6dedb27c76845daf388557cbac3ca34")

		// signature produced by real schnorrkel (substrate), as used by go-schnorrkel and the repository's sign_test.go
		pk := unhex("46ebddef8cd9bb167dc30878d7113b7e168e6f0646beffd77d69d39bad76b47a")
		sig := unhex("4e172314444b8f820bb54c22e95076f220ed25373e5c178234aa6c211d29271244b947e3ff3418ff6b45fd1df1140c8cbff69fc58ee6dc96df70936a2bb74b82")
		v := refsr.NewVerifier(pk)
		check("vector public key decodes", v.Valid())
		check("schnorrkel signature verifies", v.Verify(refsr.TranscriptBytes([]byte("substrate"), []byte("this is a message")), sig))
		check("wrong message rejected", !v.Verify(refsr.TranscriptBytes([]byte("substrate"), []byte("wrong message")), sig))
		check("wrong context rejected", !v.Verify(refsr.TranscriptBytes([]byte("substratf"), []byte("this is a message")), sig))
		unmarked := append([]byte{}, sig...)
		unmarked[63] &= 127
		check("unmarked signature rejected", !v.Verify(refsr.TranscriptBytes([]byte("substrate"), []byte("this is a message")), unmarked))

		// reference sign -> reference verify, and sensitivity to entropy / nonce / key
		for i, mini := range [][]byte{zero, bytes.Repeat([]byte{0xff}, 32), unhex("000102030405060708090a0b0c0d0e0f101112131415161718191a1b1c1d1e1f")} {
			for j, sk := range []refsr.SecretKey{refsr.ExpandUniform(mini), refsr.ExpandEd25519(mini)} {
				pk := sk.PublicKey()
				t := refsr.TranscriptBytes([]byte("ctx"), []byte{byte(i), byte(j)})
				s1 := refsr.Sign(sk, pk, t, make([]byte, 32))
				s2 := refsr.Sign(sk, pk, t, bytes.Repeat([]byte{1}, 32))
				vv := refsr.NewVerifier(pk)
				check("ref sign/verify", vv.Verify(t, s1.Sig) && vv.Verify(t, s2.Sig))
				check("entropy changes R", !bytes.Equal(s1.R, s2.R))
				check("marker set, s < L", s1.Sig[63]&128 != 0 && s1.S.Cmp(ref.L) < 0)
				check("transcript not modified by signing", bytes.Equal(refsr.Sign(sk, pk, t, make([]byte, 32)).Sig, s1.Sig))
				// s*B - k*A = R  <=> verification equation, checked with the slow affine law as well
				A, _ := refsr.DecodePublicKey(pk)
				R, _ := ref.RistrettoDecode(s1.R)
				check("equation (affine law)", ref.RistrettoEqual(R, ref.Base.Mul(s1.S).Sub(A.Mul(s1.Challenge))))
				kp, ok := refsr.DecodeKeyPair(sk.KeypairBytes())
				check("keypair round trip", ok && kp.Key.Cmp(sk.Key) == 0)
			}
		}
	})
}
