package main

import (
	"math/big"

	"github.com/oasisprotocol/curve25519-voi/internal/verif/mc"
	"github.com/oasisprotocol/curve25519-voi/internal/verif/ref"
	"github.com/oasisprotocol/curve25519-voi/internal/verif/ref/refmul"
)

func init() {
	register("refmul: projective double-and-add == affine reference multiplication (prime-order, torsion, mixed points)", func() {
		t := ref.Torsion()
		g := ref.FromLE(mc.Bytes(7, "refmul-selftest", 0, 31))
		pts := []ref.Point{ref.Base, ref.Base.Add(t[1]), t[1], t[4], ref.Identity(), ref.Base.Mul(big.NewInt(77)).Add(t[6])}
		ks := []*big.Int{big.NewInt(0), big.NewInt(1), big.NewInt(2), big.NewInt(8), big.NewInt(-5),
			new(big.Int).Sub(ref.L, big.NewInt(1)), ref.L, g, new(big.Int).Sub(new(big.Int).Lsh(big.NewInt(1), 255), big.NewInt(1))}
		for i, p := range pts {
			for j, k := range ks {
				if (i >= 2 && j >= 7) || (i >= 4 && j >= 5) {
					continue // keep the slow affine side of the self-test short
				}
				got := refmul.Mul(p, k)
				check("refmul on curve", got.OnCurve())
				check("refmul == affine Mul", got.Equal(p.Mul(k)))
			}
		}
		check("[L]B = O", refmul.IsTorsionFree(ref.Base) && refmul.BaseMul(ref.L).IsIdentity())
		check("[L](B+T1) != O", !refmul.IsTorsionFree(ref.Base.Add(t[1])))
		// additive homomorphism on generic scalars (independent of the affine Mul)
		a := ref.FromLE(mc.Bytes(7, "refmul-selftest", 1, 32))
		b := ref.FromLE(mc.Bytes(7, "refmul-selftest", 2, 32))
		check("[a]B + [b]B = [a+b]B", refmul.BaseMul(a).Add(refmul.BaseMul(b)).Equal(refmul.BaseMul(new(big.Int).Add(a, b))))
		check("[a]([b]B) = [ab]B", refmul.Mul(refmul.BaseMul(b), a).Equal(refmul.BaseMul(new(big.Int).Mul(a, b))))
	})
}
