package main

import (
	"math/big"

	"github.com/oasisprotocol/curve25519-voi/internal/verif/ref"
	"github.com/oasisprotocol/curve25519-voi/internal/verif/ref/refconst"
)

func dec(s string) *big.Int {
	v, _ := new(big.Int).SetString(s, 10)
	return v
}

func init() {
	register("refconst: constants against the decimal/hex values printed in RFC 8032, RFC 7748, RFC 9496, RFC 9380", func() {
		f := refconst.Field()
		// RFC 8032 5.1: d, base point, L
		check("d (RFC 8032)", f["constEDWARDS_D"].Cmp(dec("37095705934669439343138083508754565189542113879843219016388785533085940283555")) == 0)
		check("Bx (RFC 8032)", ref.Base.X.Cmp(dec("15112221349535400772501151409588531511454012693041857206046113283949847762202")) == 0)
		check("By (RFC 8032)", ref.Base.Y.Cmp(dec("46316835694926478169428394003475163141307993866256225615783033603165251855960")) == 0)
		check("L (RFC 8032)", ref.L.Cmp(new(big.Int).Add(new(big.Int).Lsh(big.NewInt(1), 252), dec("27742317777372353535851937790883648493"))) == 0)
		// RFC 9496 4.1
		check("SQRT_M1 (RFC 9496)", f["field.SQRT_M1"].Cmp(dec("19681161376707505956807079304988542015446066515923890162744021073123829784752")) == 0)
		check("SQRT_M1^2 = -1", ref.FSq(f["field.SQRT_M1"]).Cmp(ref.FNeg(big.NewInt(1))) == 0)
		check("SQRT_AD_MINUS_ONE (RFC 9496)", f["constSQRT_AD_MINUS_ONE"].Cmp(dec("25063068953384623474111414158702152701244531502492656460079210482610430750235")) == 0)
		check("INVSQRT_A_MINUS_D (RFC 9496)", f["constINVSQRT_A_MINUS_D"].Cmp(dec("54469307008909316920995813868745141605393597292927456921205312896311721017578")) == 0)
		check("ONE_MINUS_D_SQ (RFC 9496)", f["constONE_MINUS_EDWARDS_D_SQUARED"].Cmp(dec("1159843021668779879193775521855586647937357759715417654439879720876111806838")) == 0)
		check("D_MINUS_ONE_SQ (RFC 9496)", f["constEDWARDS_D_MINUS_ONE_SQUARED"].Cmp(dec("40440834346308536858101042469323190826248399146238708352240133220865137265952")) == 0)
		// RFC 7748 4.1: Montgomery base point on the curve, and the birational map to the Ed25519 base point
		u, v := big.NewInt(9), refconst.MontBaseV
		rhs := ref.FAdd(ref.FAdd(ref.FMul(ref.FSq(u), u), ref.FMul(refconst.MontA, ref.FSq(u))), u)
		check("RFC 7748 base point on curve25519", ref.FSq(v).Cmp(rhs) == 0)
		c := f["constMONTGOMERY_SQRT_NEG_A_PLUS_TWO"]
		check("sqrt(-486664)^2", ref.FSq(c).Cmp(ref.FNeg(big.NewInt(486664))) == 0)
		check("sgn0(sqrt(-486664)) = 0 (RFC 9380)", c.Bit(0) == 0)
		// The sign of sqrt(-486664) is pinned by RFC 9380 (sgn0 = 0, and the printed hex value below).  With that root the
		// RFC 7748 map sends (9, -v) to B for the v printed in RFC 7748 4.1 (the well-known sign erratum of that section),
		// so the map is checked up to the sign of v.
		mx := ref.FDiv(ref.FMul(c, u), v)
		check("RFC 7748 map (9, +-v) -> B: x = +-sqrt(-486664)*u/v", mx.Cmp(ref.Base.X) == 0 || ref.FNeg(mx).Cmp(ref.Base.X) == 0)
		check("RFC 7748 map (9, v) -> B: y = (u-1)/(u+1)", ref.FDiv(big.NewInt(8), big.NewInt(10)).Cmp(ref.Base.Y) == 0)
		h, _ := new(big.Int).SetString("0f26edf460a006bbd27b08dc03fc4f7ec5a1d3d14b7d1a82cc6e04aaff457e06", 16)
		check("sqrt(-486664) hex (RFC 9380 section 6.8.2)", c.Cmp(h) == 0)
		check("u(B) = 9", ref.Base.ToMontgomeryU().Cmp(big.NewInt(9)) == 0)
		// U_FACTOR / V_FACTOR relation
		check("V_FACTOR^2 = U_FACTOR, V_FACTOR non-negative", ref.FSq(f["constMONTGOMERY_V_FACTOR"]).Cmp(f["constMONTGOMERY_U_FACTOR"]) == 0 && f["constMONTGOMERY_V_FACTOR"].Bit(0) == 0)
		check("SQRT_AD_MINUS_ONE is the odd (negative) root, INVSQRT_A_MINUS_D the even one (RFC 9496 literals)", f["constSQRT_AD_MINUS_ONE"].Bit(0) == 1 && f["constINVSQRT_A_MINUS_D"].Bit(0) == 0)
	})
	register("refconst: tables ([k]B by repeated addition agrees with double-and-add), Montgomery constants", func() {
		t := refconst.BasepointTable()
		for _, ij := range [][2]int{{0, 0}, {0, 7}, {1, 0}, {5, 3}, {31, 7}} {
			k := new(big.Int).Lsh(big.NewInt(int64(ij[1]+1)), uint(8*ij[0]))
			check("table entry", t[ij[0]][ij[1]].Equal(ref.Base.Mul(k)))
		}
		sh := refconst.BShl128()
		check("[2^128]B", sh.Equal(ref.Base.Mul(new(big.Int).Lsh(big.NewInt(1), 128))))
		o := refconst.OddMultiples(sh)
		check("odd multiple 63", o[63].Equal(ref.Base.Mul(new(big.Int).Lsh(big.NewInt(127), 128))))
		o = refconst.OddMultiples(ref.Base)
		check("odd multiple 1", o[1].Equal(ref.Base.Mul(big.NewInt(3))))
		for _, wn := range [][2]int{{52, 5}, {29, 9}} {
			r, rr, lf := refconst.ScalarMontgomery(uint(wn[0]), wn[1])
			m := new(big.Int).Lsh(big.NewInt(1), uint(wn[0]))
			x := new(big.Int).Mul(ref.L, lf)
			x.Add(x, big.NewInt(1))
			check("L*LFACTOR = -1 mod 2^w", new(big.Int).Mod(x, m).Sign() == 0 && lf.Cmp(m) < 0)
			check("R < L, RR < L", r.Cmp(ref.L) < 0 && rr.Cmp(ref.L) < 0)
			check("limb round trip", refconst.FromLimbs(refconst.Limbs(rr, uint(wn[0]), wn[1]), uint(wn[0])).Cmp(rr) == 0)
		}
		check("ell lower half", new(big.Int).Add(new(big.Int).Lsh(big.NewInt(1), 252), refconst.EllLowerHalf()).Cmp(ref.L) == 0)
		nc := refconst.NoncanonicalSignBits()
		for _, b := range nc {
			p, ok, canon := ref.Decode(b)
			check("x=0/sign=1 decodes, non-canonical, x = 0", ok && !canon && p.X.Sign() == 0)
		}
	})
}
