package main

import (
	"bytes"
	"encoding/hex"
	"fmt"

	"golang.org/x/crypto/sha3"

	"github.com/oasisprotocol/curve25519-voi/internal/verif/ref/refstrobe"
)

// rsStrobe is a second, structurally different formulation of the STROBE subset
// (the absorb / overwrite / squeeze formulation used by the Merlin Rust crate's
// strobe.rs) used only to cross-check refstrobe.Strobe on many histories.
type rsStrobe struct {
	st            [200]byte
	pos, posBegin byte
	curFlags      byte
}

const rsR = 166

func newRsStrobe(proto []byte) *rsStrobe {
	s := &rsStrobe{}
	copy(s.st[0:6], []byte{1, rsR + 2, 1, 0, 1, 96})
	copy(s.st[6:18], "STROBEv1.0.2")
	refstrobe.KeccakF1600(&s.st)
	s.metaAD(proto, false)
	return s
}
func (s *rsStrobe) runF() {
	s.st[s.pos] ^= s.posBegin
	s.st[s.pos+1] ^= 0x04
	s.st[rsR+1] ^= 0x80
	refstrobe.KeccakF1600(&s.st)
	s.pos, s.posBegin = 0, 0
}
func (s *rsStrobe) absorb(d []byte) {
	for _, b := range d {
		s.st[s.pos] ^= b
		s.pos++
		if s.pos == rsR {
			s.runF()
		}
	}
}
func (s *rsStrobe) overwrite(d []byte) {
	for _, b := range d {
		s.st[s.pos] = b
		s.pos++
		if s.pos == rsR {
			s.runF()
		}
	}
}
func (s *rsStrobe) squeeze(n int) []byte {
	out := make([]byte, n)
	for i := range out {
		out[i] = s.st[s.pos]
		s.st[s.pos] = 0
		s.pos++
		if s.pos == rsR {
			s.runF()
		}
	}
	return out
}
func (s *rsStrobe) beginOp(flags byte, more bool) {
	if more {
		if s.curFlags != flags {
			panic("flags")
		}
		return
	}
	old := s.posBegin
	s.posBegin = s.pos + 1
	s.curFlags = flags
	s.absorb([]byte{old, flags})
	if flags&(4|32) != 0 && s.pos != 0 {
		s.runF()
	}
}
func (s *rsStrobe) metaAD(d []byte, more bool) { s.beginOp(16|2, more); s.absorb(d) }
func (s *rsStrobe) ad(d []byte, more bool)     { s.beginOp(2, more); s.absorb(d) }
func (s *rsStrobe) prf(n int) []byte           { s.beginOp(1|2|4, false); return s.squeeze(n) }
func (s *rsStrobe) key(d []byte)               { s.beginOp(2|4, false); s.overwrite(d) }

func init() {
	register("keccak: FIPS 202 round constants, zero-state vector, sponge vs x/crypto/sha3", func() {
		want := [24]uint64{
			0x0000000000000001, 0x0000000000008082, 0x800000000000808A, 0x8000000080008000,
			0x000000000000808B, 0x0000000080000001, 0x8000000080008081, 0x8000000000008009,
			0x000000000000008A, 0x0000000000000088, 0x0000000080008009, 0x000000008000000A,
			0x000000008000808B, 0x800000000000008B, 0x8000000000008089, 0x8000000000008003,
			0x8000000000008002, 0x8000000000000080, 0x000000000000800A, 0x800000008000000A,
			0x8000000080008081, 0x8000000000008080, 0x0000000080000001, 0x8000000080008008,
		}
		check("round constants (LFSR) = FIPS 202 table", refstrobe.RoundConstants() == want)
		var z [200]byte
		refstrobe.KeccakF1600(&z)
		check("Keccak-f[1600](0) first lanes", hex.EncodeToString(z[:16]) == "e7dde140798f25f18a47c033f9ccd584")
		mk := func(n int, seed byte) []byte {
			m := make([]byte, n)
			for i := range m {
				m[i] = byte(i)*seed + seed
			}
			return m
		}
		for _, n := range []int{0, 1, 2, 71, 72, 73, 135, 136, 137, 167, 168, 169, 271, 272, 273, 335, 336, 337, 1000} {
			for _, seed := range []byte{0, 0xff, 0xa5, 7} {
				m := mk(n, seed)
				d256 := sha3.Sum256(m)
				check(fmt.Sprintf("SHA3-256 len %d", n), bytes.Equal(d256[:], refstrobe.Sponge(136, 0x06, m, 32)))
				d512 := sha3.Sum512(m)
				check(fmt.Sprintf("SHA3-512 len %d", n), bytes.Equal(d512[:], refstrobe.Sponge(72, 0x06, m, 64)))
				for _, ol := range []int{1, 32, 167, 168, 169, 500} {
					o := make([]byte, ol)
					sha3.ShakeSum128(o, m)
					check(fmt.Sprintf("SHAKE128 len %d out %d", n, ol), bytes.Equal(o, refstrobe.Sponge(168, 0x1f, m, ol)))
					sha3.ShakeSum256(o, m)
					check(fmt.Sprintf("SHAKE256 len %d out %d", n, ol), bytes.Equal(o, refstrobe.Sponge(136, 0x1f, m, ol)))
				}
			}
		}
		// Single-bit states through a one-block sponge: absorbing a block that is zero except for one
		// bit exercises the permutation on every single-bit state of the outer part (rate 168 -> 1344 bits).
		for bit := 0; bit < 168*8-8; bit += 1 {
			m := make([]byte, 167)
			if bit < 167*8 {
				m[bit/8] = 1 << (bit % 8)
			}
			o := make([]byte, 200)
			sha3.ShakeSum128(o, m)
			if !bytes.Equal(o, refstrobe.Sponge(168, 0x1f, m, 200)) {
				check(fmt.Sprintf("SHAKE128 single-bit block, bit %d", bit), false)
			}
		}
	})
	register("strobe/merlin: published vectors and the absorb/overwrite/squeeze formulation", func() {
		// Merlin "equivalence_simple" transcript vector (merlin.cool; also quoted in the repository's merlin_test.go).
		t := refstrobe.NewTranscript([]byte("test protocol"))
		t.AppendMessage([]byte("some label"), []byte("some data"))
		check("merlin simple vector", hex.EncodeToString(t.ChallengeBytes([]byte("challenge"), 32)) == "d5a21972d0d5fe320c0d263fac7fffb8145aa640af6e9bca177c03c7efcf0615")
		// Merlin "equivalence_complex" vector.
		t = refstrobe.NewTranscript([]byte("test protocol"))
		t.AppendMessage([]byte("step1"), []byte("some data"))
		data := bytes.Repeat([]byte{99}, 1024)
		var chl []byte
		for i := 0; i < 32; i++ {
			chl = t.ChallengeBytes([]byte("challenge"), 32)
			t.AppendMessage([]byte("bigdata"), data)
			t.AppendMessage([]byte("challengedata"), chl)
		}
		check("merlin complex vector", hex.EncodeToString(chl) == "a8c933f54fae76e3f9bea93648c1308e7dfa2152dd51674ff3ca438351cf003c")
		// STROBE vector generated with mimoo/StrobeGo (recorded in the repository's strobe_test.go).
		d := make([]byte, 1024)
		for i := range d {
			d[i] = byte(i)
		}
		s := refstrobe.NewStrobe([]byte("test-strobe-sanity"))
		s.MetaAD(d, false)
		s.KEY([]byte("test-strobe-sanity-key"), false)
		s2 := s.Clone()
		s.AD(d, false)
		s.AD(d, true)
		check("StrobeGo vector 1", hex.EncodeToString(s.PRF(64, false)) == "c4728cdd0361684d643a44221d16dc4677c62ed74a7f103635bd9cb6f3cc11bdd8405b105cd7de36f800dda96ea52c6adab88225c44faba4281dcdf84b2f3454")
		check("StrobeGo vector 2", hex.EncodeToString(s2.PRF(16, false)) == "16671f5f3603853adaf55614387d5604")

		// Cross-check of the two formulations, state by state, on every first-message length
		// 0..335 followed by each of {AD, meta-AD, KEY, PRF} at lengths around the rate.
		lens := []int{0, 1, 2, 163, 164, 165, 166, 167, 168, 169, 331, 332, 333, 334, 335}
		same := func(a *refstrobe.Strobe, b *rsStrobe) bool {
			return a.St == b.st && a.Pos == int(b.pos) && a.PosBegin == int(b.posBegin) && a.CurFlags == b.curFlags
		}
		bad := 0
		for n := 0; n <= 2*166+3; n++ {
			for _, n2 := range lens {
				for op := 0; op < 4; op++ {
					a, b := refstrobe.NewStrobe([]byte("Merlin v1.0")), newRsStrobe([]byte("Merlin v1.0"))
					m := bytes.Repeat([]byte{byte(n + 1)}, n)
					a.MetaAD([]byte("x"), false)
					a.MetaAD(refstrobe.LE32(n), true)
					a.AD(m, false)
					b.metaAD([]byte("x"), false)
					b.metaAD(refstrobe.LE32(n), true)
					b.ad(m, false)
					if !same(a, b) {
						bad++
					}
					m2 := bytes.Repeat([]byte{0x5a}, n2)
					switch op {
					case 0:
						a.AD(m2, false)
						b.ad(m2, false)
					case 1:
						a.MetaAD(m2, false)
						b.metaAD(m2, false)
					case 2:
						a.KEY(m2, false)
						b.key(m2)
					case 3:
						if !bytes.Equal(a.PRF(n2, false), b.prf(n2)) {
							bad++
						}
					}
					if !same(a, b) {
						bad++
					}
					if !bytes.Equal(a.PRF(32, false), b.prf(32)) || !same(a, b) {
						bad++
					}
				}
			}
		}
		check("spec formulation = absorb/overwrite/squeeze formulation on 20160 histories", bad == 0)
	})
}
