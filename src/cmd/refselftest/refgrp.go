package main

import (
	"math/big"

	"github.com/oasisprotocol/curve25519-voi/internal/verif/ref"
	"github.com/oasisprotocol/curve25519-voi/internal/verif/ref/refgrp"
)

// Pins the fast projective/table reference (refgrp) to the literal affine
// model (ref.Point: complete affine law, plain double-and-add).
func init() {
	register("refgrp: projective law and table multiplication agree with the affine double-and-add model", func() {
		t := ref.Torsion()
		g1 := ref.FromLE(ref.SHA512([]byte("refgrp-selftest-1"))[:32])
		g1.Mod(g1, ref.L)
		pts := []ref.Point{ref.Identity(), ref.Base, ref.Base.Double(), ref.Base.Mul(g1), t[1], t[4], t[6], ref.Base.Add(t[1]), ref.Base.Mul(g1).Add(t[7]), ref.Base.Neg()}
		for y := int64(2); len(pts) < 12; y++ { // points found by decoding small y: unknown discrete log
			if q, ok := ref.PointFromY(big.NewInt(y), 0); ok {
				pts = append(pts, q)
			}
		}
		// group law on all ordered pairs (includes P+P, P+(-P), P+O, torsion+torsion)
		for _, a := range pts {
			for _, b := range pts {
				got := refgrp.FromAffine(a).Add(refgrp.FromAffine(b)).Affine()
				check("refgrp add", got.Equal(a.Add(b)) && got.OnCurve())
			}
			check("refgrp neg", refgrp.FromAffine(a).Neg().Affine().Equal(a.Neg()))
			// non-trivial Z on both operands
			aa := refgrp.FromAffine(a).Add(refgrp.FromAffine(ref.Base)) // a+B with Z != 1
			bb := aa.Add(refgrp.FromAffine(ref.Base).Neg())             // back to a
			check("refgrp projective operands", bb.Affine().Equal(a))
			check("refgrp double", aa.Double().Affine().Equal(a.Add(ref.Base).Double()))
		}
		two255 := new(big.Int).Lsh(big.NewInt(1), 255)
		// boundary scalars on every point (the affine reference costs ~27 ms per multiplication, so the sets are kept small)
		special := []*big.Int{big.NewInt(0), big.NewInt(1), big.NewInt(16), ref.L, new(big.Int).Sub(two255, big.NewInt(1)), big.NewInt(-5)}
		// all-equal-nibble patterns touch every table entry (w, d) of a point; mixed patterns vary the digit along the windows
		var patterns []*big.Int
		for i := 0; i < 32; i++ {
			b := make([]byte, 32)
			for j := range b {
				b[j] = byte(i%16)<<4 | byte((i+i/16)%16)
			}
			b[0] &= 0x7f
			patterns = append(patterns, new(big.Int).SetBytes(b))
		}
		patterns = append(patterns, g1, new(big.Int).Mul(ref.L, big.NewInt(7)), new(big.Int).Add(ref.L, big.NewInt(1)),
			ref.FromLE(ref.SHA512([]byte("refgrp-selftest-2"))[:31]))
		for i, a := range pts {
			tb := refgrp.NewTable(a)
			scalars := special
			if i == 7 || i == 10 { // B+T1 (mixed order) and a point with unknown discrete log
				scalars = append(append([]*big.Int{}, special...), patterns...)
			}
			for _, s := range scalars {
				check("refgrp table mul", tb.Mul(s).Equal(a.Mul(s)))
			}
		}
		check("refgrp sum", refgrp.Sum(pts...).Equal(func() ref.Point {
			r := ref.Identity()
			for _, q := range pts {
				r = r.Add(q)
			}
			return r
		}()))
		check("refgrp sum empty", refgrp.Sum().IsIdentity())
	})
}
