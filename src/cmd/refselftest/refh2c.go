package main

import (
	"bytes"
	"compress/gzip"
	"encoding/hex"
	"encoding/json"
	"math/big"
	"os"
	"path/filepath"
	"strconv"
	"strings"

	"github.com/oasisprotocol/curve25519-voi/internal/verif/ref"
	"github.com/oasisprotocol/curve25519-voi/internal/verif/ref/refh2c"
)

func repoRoot() string {
	if r := os.Getenv("VERIF_REPO"); r != "" {
		return r
	}
	return "/repo"
}

func readGzJSON(rel string, v interface{}) bool {
	f, err := os.Open(filepath.Join(repoRoot(), rel))
	if err != nil {
		return false
	}
	defer f.Close()
	rd, err := gzip.NewReader(f)
	if err != nil {
		return false
	}
	defer rd.Close()
	return json.NewDecoder(rd).Decode(v) == nil
}

type h2cExpandFile struct {
	DST   string `json:"DST"`
	K     int    `json:"k"`
	Tests []struct {
		DSTPrime     string `json:"DST_prime"`
		LenInBytes   string `json:"len_in_bytes"`
		Msg          string `json:"msg"`
		MsgPrime     string `json:"msg_prime"`
		UniformBytes string `json:"uniform_bytes"`
	} `json:"tests"`
}

type h2cPoint struct {
	X string `json:"x"`
	Y string `json:"y"`
}

type h2cSuiteFile struct {
	DST     string `json:"dst"`
	Vectors []struct {
		P   h2cPoint `json:"P"`
		Q   h2cPoint `json:"Q"`
		Q0  h2cPoint `json:"Q0"`
		Q1  h2cPoint `json:"Q1"`
		Msg string   `json:"msg"`
		U   []string `json:"u"`
	} `json:"vectors"`
}

func hexInt(s string) *big.Int {
	v, ok := new(big.Int).SetString(strings.TrimPrefix(s, "0x"), 16)
	if !ok {
		return big.NewInt(-1)
	}
	return v
}

func ptEq(p ref.Point, v h2cPoint) bool {
	return ref.FMod(p.X).Cmp(hexInt(v.X)) == 0 && ref.FMod(p.Y).Cmp(hexInt(v.Y)) == 0
}

func init() {
	register("refh2c: RFC 9380 Appendix K expand_message vectors (msg_prime, DST_prime, uniform_bytes)", func() {
		xmd := []struct {
			file string
			h    refh2c.Hash
		}{
			{"primitives/h2c/testdata/expand_message_xmd_SHA256_38.json.gz", refh2c.SHA256},
			{"primitives/h2c/testdata/expand_message_xmd_SHA256_256.json.gz", refh2c.SHA256},
			{"primitives/h2c/testdata/expand_message_xmd_SHA512_38.json.gz", refh2c.SHA512},
		}
		n := 0
		for _, d := range xmd {
			var f h2cExpandFile
			if !readGzJSON(d.file, &f) {
				check("read "+d.file, false)
				continue
			}
			for _, t := range f.Tests {
				ln, _ := strconv.ParseInt(strings.TrimPrefix(t.LenInBytes, "0x"), 16, 32)
				out, err := refh2c.ExpandMessageXMD(d.h, []byte(t.Msg), []byte(f.DST), int(ln))
				check("xmd uniform_bytes "+d.file, err == nil && hex.EncodeToString(out) == t.UniformBytes)
				dp, mp := refh2c.MsgPrimeXMD(d.h, []byte(t.Msg), refh2c.ShortenDSTXMD(d.h, []byte(f.DST)), int(ln))
				check("xmd DST_prime", hex.EncodeToString(dp) == t.DSTPrime)
				check("xmd msg_prime", hex.EncodeToString(mp) == t.MsgPrime)
				n++
			}
		}
		xof := []struct {
			file string
			x    refh2c.XOF
		}{
			{"primitives/h2c/testdata/expand_message_xof_SHAKE128_36.json.gz", refh2c.SHAKE128},
			{"primitives/h2c/testdata/expand_message_xof_SHAKE128_256.json.gz", refh2c.SHAKE128},
			{"primitives/h2c/testdata/expand_message_xof_SHAKE256_36.json.gz", refh2c.SHAKE256},
		}
		for _, d := range xof {
			var f h2cExpandFile
			if !readGzJSON(d.file, &f) {
				check("read "+d.file, false)
				continue
			}
			for _, t := range f.Tests {
				ln, _ := strconv.ParseInt(strings.TrimPrefix(t.LenInBytes, "0x"), 16, 32)
				out, err := refh2c.ExpandMessageXOF(d.x, f.K, []byte(t.Msg), []byte(f.DST), int(ln))
				check("xof uniform_bytes "+d.file, err == nil && hex.EncodeToString(out) == t.UniformBytes)
				dp, mp := refh2c.MsgPrimeXOF([]byte(t.Msg), refh2c.ShortenDSTXOF(d.x, f.K, []byte(f.DST)), int(ln))
				check("xof DST_prime", hex.EncodeToString(dp) == t.DSTPrime)
				check("xof msg_prime", hex.EncodeToString(mp) == t.MsgPrime)
				n++
			}
		}
		check("expand vectors present (>= 50)", n >= 50)
		// transcribed from RFC 9380 K.1 (first vector), independent of the repository files
		out, err := refh2c.ExpandMessageXMD(refh2c.SHA256, []byte(""), []byte("QUUX-V01-CS02-with-expander-SHA256-128"), 0x20)
		check("K.1 #1 transcribed", err == nil && hex.EncodeToString(out) == "68a985b87eb6b46952128911f2a4412bbc302a9d759667f87f7a21d803f07235")
		// abort conditions
		_, err = refh2c.ExpandMessageXMD(refh2c.SHA256, nil, []byte("d"), 255*32)
		check("xmd ell=255 ok", err == nil)
		_, err = refh2c.ExpandMessageXMD(refh2c.SHA256, nil, []byte("d"), 255*32+1)
		check("xmd ell=256 aborts", err == refh2c.ErrEll)
		_, err = refh2c.ExpandMessageXMDStrict(refh2c.SHA256, nil, make([]byte, 256), 32)
		check("xmd strict DST 256 aborts", err == refh2c.ErrDSTLen)
		_, err = refh2c.ExpandMessageXOF(refh2c.SHAKE128, 128, nil, []byte("d"), 65535)
		check("xof 65535 ok", err == nil)
		_, err = refh2c.ExpandMessageXOF(refh2c.SHAKE128, 128, nil, []byte("d"), 65536)
		check("xof 65536 aborts", err == refh2c.ErrLen)
		// the hash parameter table agrees with the hash objects
		for _, h := range []refh2c.Hash{refh2c.MD5, refh2c.SHA1, refh2c.SHA224, refh2c.SHA256, refh2c.SHA384, refh2c.SHA512, refh2c.SHA512_224, refh2c.SHA512_256, refh2c.SHA3_224, refh2c.SHA3_256, refh2c.SHA3_384, refh2c.SHA3_512, refh2c.BLAKE2b256, refh2c.BLAKE2b512} {
			x := h.New()
			check("hash params "+h.Name, x.Size() == h.B && x.BlockSize() == h.S)
		}
	})

	register("refh2c: RFC 9380 Appendix J.5 edwards25519 RO/NU vectors (u, Q0, Q1, P), constants, projective group", func() {
		check("c1 = sqrt(-486664), sgn0 = 0 (G.2.2)", refh2c.SqrtNeg486664.Text(16) == "f26edf460a006bbd27b08dc03fc4f7ec5a1d3d14b7d1a82cc6e04aaff457e06")
		check("c1^2", ref.FSq(refh2c.SqrtNeg486664).Cmp(ref.FNeg(big.NewInt(486664))) == 0)
		check("Z = 2 is a non-square", !ref.FIsSquare(refh2c.Z))
		nv := 0
		for _, d := range []struct {
			file string
			ro   bool
		}{
			{"primitives/h2c/testdata/edwards25519_XMD_SHA-512_ELL2_RO_.json.gz", true},
			{"primitives/h2c/testdata/edwards25519_XMD_SHA-512_ELL2_NU_.json.gz", false},
		} {
			var f h2cSuiteFile
			if !readGzJSON(d.file, &f) {
				check("read "+d.file, false)
				continue
			}
			for _, v := range f.Vectors {
				count := 1
				if d.ro {
					count = 2
				}
				u, err := refh2c.HashToField(refh2c.XMD(refh2c.SHA512), []byte(v.Msg), []byte(f.DST), count)
				check("hash_to_field", err == nil && len(v.U) == count)
				if err != nil || len(v.U) != count {
					continue
				}
				for i := range u {
					check("u", u[i].Cmp(hexInt(v.U[i])) == 0)
				}
				if d.ro {
					check("Q0", ptEq(refh2c.MapToCurveEdwards25519(u[0]), v.Q0))
					check("Q1", ptEq(refh2c.MapToCurveEdwards25519(u[1]), v.Q1))
					p, err := refh2c.HashToCurve(refh2c.XMD(refh2c.SHA512), []byte(v.Msg), []byte(f.DST))
					check("P (RO)", err == nil && ptEq(p, v.P) && p.OnCurve() && p.IsTorsionFree())
				} else {
					check("Q", ptEq(refh2c.MapToCurveEdwards25519(u[0]), v.Q))
					p, err := refh2c.EncodeToCurve(refh2c.XMD(refh2c.SHA512), []byte(v.Msg), []byte(f.DST))
					check("P (NU)", err == nil && ptEq(p, v.P) && p.OnCurve() && p.IsTorsionFree())
				}
				nv++
			}
		}
		check("suite vectors present (>= 10)", nv >= 10)
		// transcribed from RFC 9380 J.5.2 (NU, msg = ""), independent of the repository files
		p, err := refh2c.EncodeToCurve(refh2c.XMD(refh2c.SHA512), []byte(""), []byte("QUUX-V01-CS02-with-edwards25519_XMD:SHA-512_ELL2_NU_"))
		check("J.5.2 #1 transcribed", err == nil && ptEq(p, h2cPoint{
			X: "1ff2b70ecf862799e11b7ae744e3489aa058ce805dd323a936375a84695e76da",
			Y: "222e314d04a4d5725e9f2aff9fb2a6b69ef375a1214eb19021ceab2d687f0f9b"}))

		// Elligator 2 structural facts used by the C14 harness
		for _, uv := range []int64{0, 1, 2, 3, 5, 1234567} {
			u := big.NewInt(uv)
			s, t, _, exc := refh2c.MapToCurveElligator2(u)
			check("elligator output on curve25519", refh2c.OnCurve25519(s, t) && !exc)
			s2, t2, _, _ := refh2c.MapToCurveElligator2(ref.FNeg(u))
			check("map(u) = map(-u)", s.Cmp(s2) == 0 && t.Cmp(t2) == 0)
			q, _ := refh2c.RationalMap(s, t)
			check("rational map lands on edwards25519", q.OnCurve())
		}
		s0, t0, _, _ := refh2c.MapToCurveElligator2(big.NewInt(0))
		q0, exc0 := refh2c.RationalMap(s0, t0)
		_ = q0
		_ = exc0

		// projective group agrees with the affine reference group
		tor := ref.Torsion()
		pts := []ref.Point{ref.Identity(), ref.Base, ref.Base.Mul(big.NewInt(7)), tor[1], tor[4], ref.Base.Mul(big.NewInt(9)).Add(tor[3])}
		for _, a := range pts {
			for _, b := range pts {
				check("proj add", refh2c.FromAffine(a).Add(refh2c.FromAffine(b)).Affine().Equal(a.Add(b)))
			}
			check("proj double", refh2c.FromAffine(a).Double().Affine().Equal(a.Double()))
			check("proj double twice", refh2c.FromAffine(a).Double().Double().Affine().Equal(a.Double().Double()))
			big1 := new(big.Int).Sub(new(big.Int).Lsh(big.NewInt(1), 256), big.NewInt(189))
			for _, k := range []*big.Int{big.NewInt(0), big.NewInt(1), big.NewInt(8), big.NewInt(15), big.NewInt(16), big.NewInt(17), big.NewInt(12345), ref.L,
				new(big.Int).Add(ref.L, big.NewInt(3)), new(big.Int).Lsh(big.NewInt(1), 128), big1, big.NewInt(-5)} {
				check("proj mul", refh2c.Mul(a, k).Equal(a.Mul(k)))
			}
			check("subgroup predicate", refh2c.InPrimeOrderSubgroup(a) == a.IsTorsionFree())
		}
		check("encode base", bytes.Equal(refh2c.Mul(ref.Base, big.NewInt(1)).Encode(), ref.Base.Encode()))
	})
}
