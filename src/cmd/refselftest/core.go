package main

import (
	"bytes"
	"crypto/ed25519"
	"encoding/hex"
	"math/big"

	"github.com/oasisprotocol/curve25519-voi/internal/verif/ref"
)

func init() {
	register("edwards: base point, order, torsion, std-lib public keys", func() {
		check("base on curve", ref.Base.OnCurve())
		check("[L]B = O", ref.Base.Mul(ref.L).IsIdentity())
		check("base encoding", hex.EncodeToString(ref.Base.Encode()) == "5866666666666666666666666666666666666666666666666666666666666666")
		t := ref.Torsion()
		check("T0 identity", t[0].IsIdentity())
		for i := 1; i < 8; i++ {
			check("torsion on curve", t[i].OnCurve())
			check("torsion order", t[i].MulCofactor().IsIdentity() && !t[i].IsIdentity())
		}
		check("T1 order 8", !t[1].Double().Double().IsIdentity())
		check("T1 is dalek EIGHT_TORSION[1]", hex.EncodeToString(t[1].Encode()) == "c7176a703d4dd84fba3c0b760d10670f2a2053fa2c39ccc64ec7fd7792ac037a")
		check("T4 = (0,-1)", hex.EncodeToString(t[4].Encode()) == "ecffffffffffffffffffffffffffffffffffffffffffffffffffffffffffff7f")
		// associativity on a few points
		p, q, r := ref.Base.Mul(big.NewInt(7)), ref.Base.Mul(big.NewInt(11)).Add(t[3]), t[5]
		check("assoc", p.Add(q).Add(r).Equal(p.Add(q.Add(r))))
		// public keys vs crypto/ed25519 (clamped scalar mult)
		for i := 0; i < 4; i++ {
			seed := bytes.Repeat([]byte{byte(i * 37)}, 32)
			pk := ed25519.NewKeyFromSeed(seed).Public().(ed25519.PublicKey)
			a := ref.ClampedScalarFromSeed(seed)
			check("pubkey", bytes.Equal(ref.Base.Mul(a).Encode(), pk))
			d, ok, canon := ref.Decode(pk)
			check("decode", ok && canon && d.Equal(ref.Base.Mul(a)))
		}
	})
	register("ristretto255: RFC 9496 A.1 multiples of the generator, A.2 bad encodings, A.3 one-way map", func() {
		mult := []string{
			"0000000000000000000000000000000000000000000000000000000000000000",
			"e2f2ae0a6abc4e71a884a961c500515f58e30b6aa582dd8db6a65945e08d2d76",
			"6a493210f7499cd17fecb510ae0cea23a110e8d5b901f8acadd3095c73a3b919",
			"94741f5d5d52755ece4f23f044ee27d5d1ea1e2bd196b462166b16152a9d0259",
			"da80862773358b466ffadfe0b3293ab3d9fd53c5ea6c955358f568322daf6a57",
			"e882b131016b52c1d3337080187cf768423efccbb517bb495ab812c4160ff44e",
			"f64746d3c92b13050ed8d80236a7f0007c3b3f962f5ba793d19a601ebb1df403",
			"44f53520926ec81fbd5a387845beb7df85a96a24ece18738bdcfa6a7822a176d",
			"903293d8f2287ebe10e2374dc1a53e0bc887e592699f02d077d5263cdd55601c",
			"02622ace8f7303a31cafc63f8fc48fdc16e1c8c8d234b2f0d6685282a9076031",
			"20706fd788b2720a1ed2a5dad4952b01f413bcf0e7564de8cdc816689e2db95f",
			"bce83f8ba5dd2fa572864c24ba1810f9522bc6004afe95877ac73241cafdab42",
			"e4549ee16b9aa03099ca208c67adafcafa4c3f3e4e5303de6026e3ca8ff84460",
			"aa52e000df2e16f55fb1032fc33bc42742dad6bd5a8fc0be0167436c5948501f",
			"46376b80f409b29dc2b5f6f0c52591990896e5716f41477cd30085ab7f10301e",
			"e0c418f7c8d9c4cdd7395b93ea124f3ad99021bb681dfc3302a9d99a2e53e64e",
		}
		// generator of ristretto255 is the Ed25519 base point
		for i, m := range mult {
			p := ref.Base.Mul(big.NewInt(int64(i)))
			check("mult encode", hex.EncodeToString(ref.RistrettoEncode(p)) == m)
			b, _ := hex.DecodeString(m)
			q, ok := ref.RistrettoDecode(b)
			check("mult decode", ok && ref.RistrettoEqual(p, q))
			// all four coset representatives encode identically
			t := ref.Torsion()
			for _, k := range []int{2, 4, 6} {
				check("coset", hex.EncodeToString(ref.RistrettoEncode(p.Add(t[k]))) == m)
			}
		}
		bad := []string{
			"00ffffffffffffffffffffffffffffffffffffffffffffffffffffffffffffff",
			"ffffffffffffffffffffffffffffffffffffffffffffffffffffffffffffff7f",
			"f3ffffffffffffffffffffffffffffffffffffffffffffffffffffffffffff7f",
			"edffffffffffffffffffffffffffffffffffffffffffffffffffffffffffff7f",
			"0100000000000000000000000000000000000000000000000000000000000000",
			"01ffffffffffffffffffffffffffffffffffffffffffffffffffffffffffff7f",
			"ed57ffd8c914fb201471d1c3d245ce3c746fcbe63a3679d51b6a516ebebe0e20",
			"c34c4e1826e5d403b78e246e88aa051c36ccf0aafebffe137d148a2bf9104562",
			"c940e5a4404157cfb1628b108db051a8d439e1a421394ec4ebccb9ec92a8ac78",
			"47cfc5497c53dc8e61c91d17fd626ffb1c49e2bca94eed052281b510b1117a24",
			"f1c6165d33367351b0da8f6e4511010c68174a03b6581212c71c0e1d026c3c72",
			"87260f7a2f12495118360f02c26a470f450dadf34a413d21042b43b9d93e1309",
			"26948d35ca62e643e26a83177332e6b6afeb9d08e4268b650f1f5bbd8d81d371",
			"4eac077a713c57b4f4397629a4145982c661f48044dd3f96427d40b147d9742f",
			"de6a7b00deadc788eb6b6c8d20c0ae96c2f2019078fa604fee5b87d6e989ad7b",
			"bcab477be20861e01e4a0e295284146a510150d9817763caf1a6f4b422d67042",
			"2a292df7e32cababbd9de088d1d1abec9fc0440f637ed2fba145094dc14bea08",
			"f4a9e534fc0d216c44b218fa0c42d99635a0127ee2e53c712f70609649fdff22",
			"8268436f8c4126196cf64b3c7ddbda90746a378625f9813dd9b8457077256731",
			"2810e5cbc2cc4d4eece54f61c6f69758e289aa7ab440b3cbeaa21995c2f4232b",
			"3eb858e78f5a7254d8c9731174a94f76755fd3941c0ac93735c07ba14579630e",
			"a45fdc55c76448c049a1ab33f17023edfb2be3581e9c7aade8a6125215e04220",
			"d483fe813c6ba647ebbfd3ec41adca1c6130c2beeee9d9bf065c8d151c5f396e",
			"8a2e1d30050198c65a54483123960ccc38aef6848e1ec8f5f780e8523769ba32",
			"32888462f8b486c68ad7dd9610be5192bbeaf3b443951ac1a8118419d9fa097b",
			"227142501b9d4355ccba290404bde41575b037693cef1f438c47f8fbf35d1165",
			"5c37cc491da847cfeb9281d407efc41e15144c876e0170b499a96a22ed31e01e",
			"445425117cb8c90edcbc7c1cc0e74f747f2c1efa5630a967c64f287792a48a4b",
			"ecffffffffffffffffffffffffffffffffffffffffffffffffffffffffffff7f",
		}
		for _, m := range bad {
			b, _ := hex.DecodeString(m)
			_, ok := ref.RistrettoDecode(b)
			check("bad encoding "+m, !ok)
		}
		maps := [][2]string{
			{"5d1be09e3d0c82fc538112490e35701979d99e06ca3e2b5b54bffe8b4dc772c14d98b696a1bbfb5ca32c436cc61c16563790306c79eaca7705668b47dffe5bb6", "3066f82a1a747d45120d1740f14358531a8f04bbffe6a819f86dfe50f44a0a46"},
			{"f116b34b8f17ceb56e8732a60d913dd10cce47a6d53bee9204be8b44f6678b270102a56902e2488c46120e9276cfe54638286b9e4b3cdb470b542d46c2068d38", "f26e5b6f7d362d2d2a94c5d0e7602cb4773c95a2e5c31a64f133189fa76ed61b"},
			{"8422e1bbdaab52938b81fd602effb6f89110e1e57208ad12d9ad767e2e25510c27140775f9337088b982d83d7fcf0b2fa1edffe51952cbe7365e95c86eaf325c", "006ccd2a9e6867e6a2c5cea83d3302cc9de128dd2a9a57dd8ee7b9d7ffe02826"},
			{"ac22415129b61427bf464e17baee8db65940c233b98afce8d17c57beeb7876c2150d15af1cb1fb824bbd14955f2b57d08d388aab431a391cfc33d5bafb5dbbaf", "f8f0c87cf237953c5890aec3998169005dae3eca1fbb04548c635953c817f92a"},
			{"165d697a1ef3d5cf3c38565beefcf88c0f282b8e7dbd28544c483432f1cec7675debea8ebb4e5fe7d6f6e5db15f15587ac4d4d4a1de7191e0c1ca6664abcc413", "ae81e7dedf20a497e10c304a765c1767a42d6e06029758d2d7e8ef7cc4c41179"},
			{"a836e6c9a9ca9f1e8d486273ad56a78c70cf18f0ce10abb1c7172ddd605d7fd2979854f47ae1ccf204a33102095b4200e5befc0465accc263175485f0e17ea5c", "e2705652ff9f5e44d3e841bf1c251cf7dddb77d140870d1ab2ed64f1a9ce8628"},
			{"2cdc11eaeb95daf01189417cdddbf95952993aa9cb9c640eb5058d09702c74622c9965a697a3b345ec24ee56335b556e677b30e6f90ac77d781064f866a3c982", "80bd07262511cdde4863f8a7434cef696750681cb9510eea557088f76d9e5065"},
			{"edffffffffffffffffffffffffffffffffffffffffffffffffffffffffffffff1200000000000000000000000000000000000000000000000000000000000000", "304282791023b73128d277bdcb5c7746ef2eac08dde9f2983379cb8e5ef0517f"},
			{"edffffffffffffffffffffffffffffffffffffffffffffffffffffffffffff7fffffffffffffffffffffffffffffffffffffffffffffffffffffffffffffffff", "304282791023b73128d277bdcb5c7746ef2eac08dde9f2983379cb8e5ef0517f"},
			{"0000000000000000000000000000000000000000000000000000000000000080ffffffffffffffffffffffffffffffffffffffffffffffffffffffffffffff7f", "304282791023b73128d277bdcb5c7746ef2eac08dde9f2983379cb8e5ef0517f"},
			{"00000000000000000000000000000000000000000000000000000000000000001200000000000000000000000000000000000000000000000000000000000080", "304282791023b73128d277bdcb5c7746ef2eac08dde9f2983379cb8e5ef0517f"},
		}
		for _, m := range maps {
			in, _ := hex.DecodeString(m[0])
			check("one-way map "+m[1][:8], hex.EncodeToString(ref.RistrettoEncode(ref.RistrettoFromUniform(in))) == m[1])
		}
	})
}
