// C12: sr25519 is complete, mutation-rejecting, schnorrkel-exact and has
// canonical encodings; batch verification agrees with single verification for
// every batch history.
package main

import (
	"bytes"
	"crypto/sha256"
	"crypto/sha512"
	"errors"
	"fmt"
	"hash"
	"io"
	"math/big"
	"os"
	"runtime"
	"runtime/pprof"
	"strings"

	"golang.org/x/crypto/sha3"

	"github.com/oasisprotocol/curve25519-voi/internal/strobe"
	"github.com/oasisprotocol/curve25519-voi/internal/verif/alph"
	"github.com/oasisprotocol/curve25519-voi/internal/verif/mc"
	"github.com/oasisprotocol/curve25519-voi/internal/verif/ref"
	"github.com/oasisprotocol/curve25519-voi/internal/verif/ref/refsr"
	"github.com/oasisprotocol/curve25519-voi/internal/verif/ref/refstrobe"
	"github.com/oasisprotocol/curve25519-voi/primitives/merlin"
	"github.com/oasisprotocol/curve25519-voi/primitives/sr25519"
)

func main() { mc.Main("C12", run) }

// guard turns a panic of the implementation into a violation of the current case (the engine
// does not recover when a single case is replayed) after counting the case in its class.
func guard(w *mc.W, counted *bool, class, what string) {
	if r := recover(); r != nil {
		if !*counted {
			w.Eval(class, false)
		}
		buf := make([]byte, 2048)
		buf = buf[:runtime.Stack(buf, false)]
		w.Fail("sr25519/panic", fmt.Sprintf("panic: %v | case: %s\n%s", r, what, buf), map[string]string{"case": what})
	}
}

// ---------------------------------------------------------------------------
// Entropy readers (deterministic only)
// ---------------------------------------------------------------------------

const (
	rdZero = iota
	rdFF
	rdGeneric
	rdByte // the generic stream delivered one byte per Read call
	rdFail // fails after 31 bytes
	nReaders
)

var readerName = [...]string{"zero", "ff", "generic", "generic-1-byte-reads", "fails-after-31"}

var genericStream []byte

type byteReader struct{ b []byte }

func (r *byteReader) Read(p []byte) (int, error) {
	if len(p) == 0 {
		return 0, nil
	}
	if len(r.b) == 0 {
		return 0, io.EOF
	}
	p[0] = r.b[0]
	r.b = r.b[1:]
	return 1, nil
}

type failReader struct{ b []byte }

func (r *failReader) Read(p []byte) (int, error) {
	if len(r.b) == 0 {
		return 0, errors.New("verif: entropy source failed")
	}
	n := copy(p, r.b)
	r.b = r.b[n:]
	return n, nil
}

// stream returns the first n bytes reader kind rd delivers.
func stream(rd, n int) []byte {
	switch rd {
	case rdZero:
		return make([]byte, n)
	case rdFF:
		return bytes.Repeat([]byte{0xff}, n)
	}
	return append([]byte{}, genericStream[:n]...)
}

func mkReader(rd int) io.Reader {
	switch rd {
	case rdByte:
		return &byteReader{b: stream(rd, 256)}
	case rdFail:
		return &failReader{b: stream(rdGeneric, 31)}
	}
	return bytes.NewReader(stream(rd, 256))
}

// ---------------------------------------------------------------------------
// Transcript sources
// ---------------------------------------------------------------------------

type source struct {
	name  string
	label string                  // Merlin label schnorrkel uses for this source
	pre   func(msg []byte) []byte // independent pre-hash (nil for bytes)
	mk    func(sc *sr25519.SigningContext, msg []byte) *sr25519.SigningTranscript
}

func hashSource(name, label string, newH func() hash.Hash, pre func([]byte) []byte) source {
	return source{name, label, pre, func(sc *sr25519.SigningContext, msg []byte) *sr25519.SigningTranscript {
		h := newH()
		h.Write(msg)
		return sc.NewTranscriptHash(h)
	}}
}

func sources(thorough bool) []source {
	s := []source{
		{"bytes", "sign-bytes", nil, func(sc *sr25519.SigningContext, msg []byte) *sr25519.SigningTranscript {
			return sc.NewTranscriptBytes(lendAs("SigningContext.NewTranscriptBytes", msg))
		}},
		hashSource("sha256", "sign-256", sha256.New, func(m []byte) []byte { d := sha256.Sum256(m); return d[:] }),
		hashSource("sha512", "sign-512", sha512.New, func(m []byte) []byte { d := sha512.Sum512(m); return d[:] }),
		// the XOF pre-hashes are recomputed with the plain-loop reference sponge, not with x/crypto
		{"shake128", "sign-XoF", func(m []byte) []byte { return refstrobe.Sponge(168, 0x1f, m, 32) },
			func(sc *sr25519.SigningContext, msg []byte) *sr25519.SigningTranscript {
				x := sha3.NewShake128()
				x.Write(msg)
				return sc.NewTranscriptXOF(x)
			}},
		{"shake256", "sign-XoF", func(m []byte) []byte { return refstrobe.Sponge(136, 0x1f, m, 32) },
			func(sc *sr25519.SigningContext, msg []byte) *sr25519.SigningTranscript {
				x := sha3.NewShake256()
				x.Write(msg)
				return sc.NewTranscriptXOF(x)
			}},
	}
	if thorough {
		s = append(s,
			hashSource("sha512/256", "sign-256", sha512.New512_256, func(m []byte) []byte { d := sha512.Sum512_256(m); return d[:] }),
			hashSource("sha3-256", "sign-256", sha3.New256, func(m []byte) []byte { return refstrobe.Sponge(136, 0x06, m, 32) }),
			hashSource("sha3-512", "sign-512", sha3.New512, func(m []byte) []byte { return refstrobe.Sponge(72, 0x06, m, 64) }),
		)
	}
	return s
}

func refTranscript(src source, ctx, msg []byte) *refstrobe.Transcript {
	if src.pre == nil {
		return refsr.TranscriptBytes(ctx, msg)
	}
	return refsr.TranscriptPrehashed(ctx, src.label, src.pre(msg))
}

// ---------------------------------------------------------------------------
// Keys
// ---------------------------------------------------------------------------

type keyInfo struct {
	name string
	mini []byte
	ed   bool
	// implementation
	sk *sr25519.SecretKey
	kp *sr25519.KeyPair
	pk *sr25519.PublicKey
	// reference
	rsk refsr.SecretKey
	rpk []byte
	ver *refsr.Verifier
}

type env struct {
	c        *mc.Ctx
	keys     []*keyInfo
	srcs     []source
	ctxData  []byte
	msgData  []byte
	requires []req
	probeSig []byte // a reference signature (for the caller-memory probe)
}

func (e *env) ctxOf(n int) []byte { return append([]byte{}, e.ctxData[:n]...) }
func (e *env) msgOf(n int) []byte { return append([]byte{}, e.msgData[:n]...) }

// stateHook is false when the STROBE / Merlin state can no longer be read from this tree through the
// reflection hooks (a refactoring changed the representation): state comparisons are then skipped (and the
// run is reported as capped); everything observable through the public API is still compared.
var stateHook = true

var missingField = map[string]bool{}

func sameStrobe(t *merlin.Transcript, r *refstrobe.Transcript) bool {
	if !stateHook || t == nil || merlin.VerifStrobe(t) == nil {
		return true
	}
	st, pos, pb, cf, _, _ := strobe.VerifFields(merlin.VerifStrobe(t))
	return *st == r.S.St && (missingField["pos"] || pos == r.S.Pos) && (missingField["posBegin"] || pb == r.S.PosBegin) && (missingField["curFlags"] || cf == r.S.CurFlags)
}

func strobeSnapshot(t *merlin.Transcript) (out [204]byte) {
	if !stateHook || t == nil || merlin.VerifStrobe(t) == nil {
		return
	}
	st, pos, pb, cf, _, _ := strobe.VerifFields(merlin.VerifStrobe(t))
	copy(out[:200], st[:])
	out[200], out[201], out[202], out[203] = byte(pos), byte(pos>>8), byte(pb), cf
	return
}

func mustMarshal(m interface{ MarshalBinary() ([]byte, error) }) []byte {
	b, err := m.MarshalBinary()
	if err != nil {
		panic(fmt.Sprintf("MarshalBinary failed: %v", err))
	}
	return b
}

func run(c *mc.Ctx) {
	if pf := os.Getenv("VERIF_CPUPROFILE"); pf != "" { // developer aid only
		if f, err := os.Create(pf); err == nil {
			_ = pprof.StartCPUProfile(f)
			defer pprof.StopCPUProfile()
		}
	}
	genericStream = mc.Bytes(c.Seed, "c12-entropy", 0, 256)
	if m := strings.Trim(strobe.VerifMissing()+","+merlin.VerifMissing(), ","); m != "" {
		for _, f := range strings.Split(m, ",") {
			missingField[f] = true
		}
		if missingField["st"] || missingField["Transcript.s"] {
			stateHook = false
		}
		c.Cap("STROBE state components that can no longer be read from this tree: " + m + " (their comparison is skipped; public-API comparisons unaffected)")
	}
	e := &env{c: c, srcs: sources(c.Thorough)}
	e.ctxData = mc.Bytes(c.Seed, "c12-context", 0, 512)
	e.msgData = mc.Bytes(c.Seed, "c12-message", 0, 512)

	// --- keys: mini-secret keys x expansion modes
	minis := [][]byte{make([]byte, 32), bytes.Repeat([]byte{0xff}, 32)}
	for i := 0; i < c.Pick(1, 3); i++ {
		minis = append(minis, mc.Bytes(c.Seed, "c12-mini", i, 32))
	}
	for i, m := range minis {
		for _, ed := range []bool{false, true} {
			k := &keyInfo{mini: m, ed: ed, name: fmt.Sprintf("mini#%d(%x..)/%s", i, m[:4], map[bool]string{false: "uniform", true: "ed25519"}[ed])}
			if ed {
				k.rsk = refsr.ExpandEd25519(m)
			} else {
				k.rsk = refsr.ExpandUniform(m)
			}
			k.rpk = k.rsk.PublicKey()
			k.ver = refsr.NewFastVerifier(k.rpk)
			e.keys = append(e.keys, k)
		}
	}
	c.Rep.Extra["keys"] = len(e.keys)
	c.Rep.Extra["sources"] = len(e.srcs)

	e.buildRealKeys()
	e.keyChecks()
	for _, k := range e.keys {
		if k.kp == nil {
			return // key derivation panicked: the violation was recorded by "keys"
		}
	}
	e.signChecks()
	e.flipChecks()
	e.decoderChecks()
	e.batchChecks()
	e.reuseChecks()
	e.themeChecks()
	e.probeSig = refsr.Sign(e.keys[0].rsk, e.keys[0].rpk, refsr.TranscriptBytes([]byte("probe"), []byte("probe")), make([]byte, 32)).Sig
	e.reportModified()
	for _, r := range e.requires {
		c.Require(r.class, r.min)
	}
}

type req struct {
	class string
	min   int64
}

// buildRealKeys derives the implementation-side key objects used by the later sub-spaces (the
// derivation itself is checked, with fresh objects, in "keys").
func (e *env) buildRealKeys() {
	defer func() { _ = recover() }()
	for _, k := range e.keys {
		msk, err := sr25519.NewMiniSecretKeyFromBytes(lendAs("MiniSecretKey.UnmarshalBinary", k.mini))
		if err != nil {
			return
		}
		var sk *sr25519.SecretKey
		if k.ed {
			sk = msk.ExpandEd25519()
		} else {
			sk = msk.ExpandUniform()
		}
		pk := sk.PublicKey()
		kp := sk.KeyPair()
		k.sk, k.pk, k.kp = sk, pk, kp
	}
}

// ---------------------------------------------------------------------------
// Key derivation
// ---------------------------------------------------------------------------

func (e *env) keyChecks() {
	c := e.c
	c.Par("keys", len(e.keys), func(w *mc.W, i int) {
		k := e.keys[i]
		counted := false
		defer guard(w, &counted, "keys", k.name)
		w.Eval("keys", !bytes.Equal(k.mini, make([]byte, 32)))
		counted = true
		cas := map[string]string{"mini": mc.Hex(k.mini), "expansion": k.name}
		msk, err := sr25519.NewMiniSecretKeyFromBytes(lendAs("MiniSecretKey.UnmarshalBinary", k.mini))
		if err != nil {
			w.Fail("NewMiniSecretKeyFromBytes", "rejects a 32-byte mini secret key", cas)
			return
		}
		if !bytes.Equal(mustMarshal(msk), k.mini) {
			w.Fail("MiniSecretKey.MarshalBinary", "round trip mismatch", cas)
		}
		var sk *sr25519.SecretKey
		if k.ed {
			sk = msk.ExpandEd25519()
		} else {
			sk = msk.ExpandUniform()
		}
		skb := mustMarshal(sk)
		if !bytes.Equal(skb, k.rsk.Bytes()) {
			what := "ExpandUniform"
			if k.ed {
				what = "ExpandEd25519"
			}
			w.Fail("MiniSecretKey."+what, fmt.Sprintf("%s(%x) = %x, schnorrkel definition gives %x", what, k.mini, skb, k.rsk.Bytes()), cas)
		}
		pk := sk.PublicKey()
		pkb := mustMarshal(pk)
		if !bytes.Equal(pkb, k.rpk) {
			w.Fail("SecretKey.PublicKey", fmt.Sprintf("public key %x, reference [sk]B encodes to %x", pkb, k.rpk), cas)
		}
		kp := sk.KeyPair()
		kpb := mustMarshal(kp)
		if !bytes.Equal(kpb, k.rsk.KeypairBytes()) {
			w.Fail("KeyPair.MarshalBinary", fmt.Sprintf("key pair %x, reference %x", kpb, k.rsk.KeypairBytes()), cas)
		}
		// round trips through the decoders
		if sk2, err := sr25519.NewSecretKeyFromBytes(lendAs("SecretKey.UnmarshalBinary", skb)); err != nil || !sk2.Equal(sk) || !bytes.Equal(mustMarshal(sk2), skb) {
			w.Fail("SecretKey.UnmarshalBinary/roundtrip", fmt.Sprintf("err=%v", err), cas)
		}
		if pk2, err := sr25519.NewPublicKeyFromBytes(lendAs("PublicKey.UnmarshalBinary", pkb)); err != nil || !pk2.Equal(pk) || !bytes.Equal(mustMarshal(pk2), pkb) {
			w.Fail("PublicKey.UnmarshalBinary/roundtrip", fmt.Sprintf("err=%v", err), cas)
		}
		if kp2, err := sr25519.NewKeyPairFromBytes(lendAs("KeyPair.UnmarshalBinary", kpb)); err != nil || !bytes.Equal(mustMarshal(kp2), kpb) || !kp2.PublicKey().Equal(pk) || !kp2.SecretKey().Equal(sk) {
			w.Fail("KeyPair.UnmarshalBinary/roundtrip", fmt.Sprintf("err=%v", err), cas)
		}
		// Ed25519-style expansion must agree with importing the expanded Ed25519 key
		if k.ed {
			h := sha512.Sum512(k.mini)
			h[0] &= 248
			h[31] &= 63
			h[31] |= 64
			sk3, err := sr25519.NewSecretKeyFromEd25519Bytes(lendAs("NewSecretKeyFromEd25519Bytes", h[:]))
			if err != nil || !bytes.Equal(mustMarshal(sk3), k.rsk.Bytes()) {
				w.Fail("NewSecretKeyFromEd25519Bytes", fmt.Sprintf("import of the clamped SHA-512 expansion differs from the reference (err=%v)", err), cas)
			}
		}
		// a different key never compares equal
		other := e.keys[(i+1)%len(e.keys)]
		if osk, err := sr25519.NewSecretKeyFromBytes(lendAs("SecretKey.UnmarshalBinary", other.rsk.Bytes())); err != nil || osk.Equal(sk) {
			w.Fail("SecretKey.Equal", "distinct secret keys compare equal (or reference key bytes rejected)", cas)
		}
		if opk, err := sr25519.NewPublicKeyFromBytes(lendAs("PublicKey.UnmarshalBinary", other.rpk)); err != nil || opk.Equal(pk) {
			w.Fail("PublicKey.Equal", "distinct public keys compare equal (or reference key bytes rejected)", cas)
		}
	})
	e.requires = append(e.requires, req{"keys", 6})

	// Generate* with deterministic readers = schnorrkel's generate_with
	c.Par("generate", nReaders, func(w *mc.W, rd int) {
		counted := false
		defer guard(w, &counted, "generate", readerName[rd])
		w.Eval("generate", rd != rdFail)
		counted = true
		cas := map[string]string{"reader": readerName[rd]}
		msk, err := sr25519.GenerateMiniSecretKey(mkReader(rd))
		sk, err2 := sr25519.GenerateSecretKey(mkReader(rd))
		kp, err3 := sr25519.GenerateKeyPair(mkReader(rd))
		if rd == rdFail {
			if err == nil || err2 == nil || err3 == nil || msk != nil || sk != nil || kp != nil {
				w.Fail("Generate/failing-reader", "key generation with a failing entropy source did not fail cleanly", cas)
			}
			return
		}
		if err != nil || err2 != nil || err3 != nil {
			w.Fail("Generate", fmt.Sprintf("errors %v %v %v", err, err2, err3), cas)
			return
		}
		if !bytes.Equal(msk[:], stream(rd, 32)) {
			w.Fail("GenerateMiniSecretKey", "mini secret key is not the first 32 bytes of the entropy", cas)
		}
		want := refsr.Generate(stream(rd, 96))
		if !bytes.Equal(mustMarshal(sk), want.Bytes()) {
			w.Fail("GenerateSecretKey", fmt.Sprintf("got %x want %x (wide reduction of 64 bytes, then 32 nonce bytes)", mustMarshal(sk), want.Bytes()), cas)
		}
		if !bytes.Equal(mustMarshal(kp), want.KeypairBytes()) {
			w.Fail("GenerateKeyPair", "key pair differs from the reference", cas)
		}
	})
}

// ---------------------------------------------------------------------------
// Signing: signature bytes, challenge, verification, rejection of any change
// ---------------------------------------------------------------------------

type signCase struct {
	key      *keyInfo
	ctx, msg []byte
	src      source
	rd       int
}

func (sc signCase) String() string {
	return fmt.Sprintf("key=%s ctx=%x msg=%x source=%s reader=%s", sc.key.name, sc.ctx, sc.msg, sc.src.name, readerName[sc.rd])
}

func (e *env) signChecks() {
	c := e.c
	ctxLens := []int{0, 1, 31, 32, 33, 64, 255, 256} // every context length 0..400 is in sign-lengths
	if !c.Thorough {
		ctxLens = []int{0, 1, 32, 255}
	}
	msgLens := alph.Lengths
	prod := mc.Product{Radix: []int{len(e.keys), len(ctxLens), len(msgLens), len(e.srcs), nReaders}}
	c.Rep.Extra["sign_product"] = prod.Radix
	c.Par("sign", prod.Size(), func(w *mc.W, i int) {
		var d [5]int
		prod.Decode(i, d[:])
		sc := signCase{key: e.keys[d[0]], ctx: e.ctxOf(ctxLens[d[1]]), msg: e.msgOf(msgLens[d[2]]), src: e.srcs[d[3]], rd: d[4]}
		class := "sign/signature"
		if sc.rd == rdFail {
			class = "sign/reader-fails"
		}
		counted := false
		defer guard(w, &counted, class, sc.String())
		w.Eval(class, sc.rd != rdFail)
		counted = true
		e.signOne(w, sc, d[0], sc.rd == rdZero && (d[1]+d[2]+d[3])%2 == 0)
		if i%997 == 0 {
			w.Sample(map[string]string{"sub": "sign", "case": clipStr(sc.String(), 300)})
		}
	})
	e.requires = append(e.requires, req{"sign/signature", 1000}, req{"sign/reader-fails", 100}, req{"reject/context", 100},
		req{"reject/message", 100}, req{"reject/key", 100}, req{"reject/source", 50}, req{"reject/noncanonical-R", 100}, req{"reject/s-plus-L", 50})
}

func clipStr(s string, n int) string {
	if len(s) > n {
		return s[:n] + "..."
	}
	return s
}

// signOne signs on the implementation and on the reference and compares everything observable.
func (e *env) signOne(w *mc.W, sc signCase, keyIdx int, rejections bool) {
	k := sc.key
	cas := map[string]string{"case": sc.String()}
	ctx := sr25519.NewSigningContext(lendAs("NewSigningContext", sc.ctx))
	ctxBefore := strobeSnapshot(sr25519.VerifContextTranscript(ctx))
	if !sameStrobe(sr25519.VerifContextTranscript(ctx), refsr.SigningContext(sc.ctx)) {
		w.Fail("SigningContext/transcript", "Merlin state of NewSigningContext differs from SigningContext::new of the reference | "+sc.String(), cas)
	}
	st := sc.src.mk(ctx, sc.msg)
	rt := refTranscript(sc.src, sc.ctx, sc.msg)
	// the signing transcript itself must be schnorrkel's (context.rs), state for state
	if !sameStrobe(sr25519.VerifTranscript(st), rt) {
		w.Fail("SigningContext/transcript", "Merlin state of the signing transcript differs from SigningContext::"+sc.src.name+" of the reference | "+sc.String(), cas)
	}
	before := strobeSnapshot(sr25519.VerifTranscript(st))
	sig, err := k.kp.Sign(mkReader(sc.rd), st)
	if sc.rd == rdFail {
		if err == nil || sig != nil {
			w.Fail("KeyPair.Sign/failing-reader", "Sign with a failing entropy source returned a signature | "+sc.String(), cas)
		}
		return
	}
	if err != nil || sig == nil {
		w.Fail("KeyPair.Sign/error", fmt.Sprintf("Sign failed: %v | %s", err, sc), cas)
		return
	}
	sb := mustMarshal(sig)
	want := refsr.Sign(k.rsk, k.rpk, rt, stream(sc.rd, 32))
	if !bytes.Equal(sb, want.Sig) {
		w.Fail("KeyPair.Sign/bytes", fmt.Sprintf("signature %x, schnorrkel definition gives %x | %s", sb, want.Sig, sc), cas)
	}
	if got, ok := implChallenge(k.pk, st, sig); ok && !bytes.Equal(got, ref.LE32(refsr.Challenge(rt, k.rpk, sb[:32]))) {
		w.Fail("challenge", fmt.Sprintf("challenge scalar %x differs from the reference | %s", got, sc), cas)
	}
	if !k.pk.Verify(st, sig) {
		w.Fail("PublicKey.Verify/complete", "own signature does not verify | "+sc.String(), cas)
	}
	if strobeSnapshot(sr25519.VerifTranscript(st)) != before {
		w.Fail("SigningTranscript/modified", "Sign/Verify modified the caller's transcript | "+sc.String(), cas)
	}
	// deterministic: same entropy, same bytes
	if sig1, err := k.kp.Sign(mkReader(sc.rd), st); err != nil || !bytes.Equal(mustMarshal(sig1), sb) {
		w.Fail("KeyPair.Sign/determinism", "two signatures with the same entropy differ | "+sc.String(), cas)
	}
	// round trip through the decoder and verification on a freshly built transcript and key
	sig2, err := sr25519.NewSignatureFromBytes(lendAs("Signature.UnmarshalBinary", sb))
	if err != nil {
		w.Fail("Signature.UnmarshalBinary/own", fmt.Sprintf("produced signature rejected by the decoder: %v | %s", err, sc), cas)
		return
	}
	if !bytes.Equal(mustMarshal(sig2), sb) {
		w.Fail("Signature.MarshalBinary/roundtrip", "marshal(unmarshal(sig)) != sig | "+sc.String(), cas)
	}
	pk2, err := sr25519.NewPublicKeyFromBytes(lendAs("PublicKey.UnmarshalBinary", k.rpk))
	if err != nil {
		w.Fail("PublicKey.UnmarshalBinary/own", "reference public key rejected", cas)
		return
	}
	// a second transcript from the SAME context object: the context must not have been consumed
	st2 := sc.src.mk(ctx, sc.msg)
	if strobeSnapshot(sr25519.VerifContextTranscript(ctx)) != ctxBefore || !sameStrobe(sr25519.VerifTranscript(st2), rt) {
		w.Fail("SigningContext/reuse", "creating transcripts modified the signing context | "+sc.String(), cas)
	}
	if !pk2.Verify(st2, sig2) {
		w.Fail("PublicKey.Verify/complete", "decoded signature does not verify under the decoded key on a rebuilt transcript | "+sc.String(), cas)
	}
	// in a batch of one
	bv := sr25519.NewBatchVerifier()
	bv.Add(pk2, st2, sig2)
	if all, each := bv.Verify(mkReader(rdGeneric)); !all || len(each) != 1 || !each[0] {
		w.Fail("BatchVerifier.Verify/complete", "own signature fails in a batch of one | "+sc.String(), cas)
	}
	if !bv.VerifyBatchOnly(mkReader(rdZero)) {
		w.Fail("BatchVerifier.VerifyBatchOnly/complete", "own signature fails in a batch of one | "+sc.String(), cas)
	}
	if !rejections {
		return
	}
	// the reference accepts its own signature (guards the reference verifier used below)
	if !k.ver.Verify(rt, want.Sig) {
		e.c.Broken("reference verifier rejects the reference signature: " + sc.String())
	}
	// --- any change of context / message / key / source must be rejected
	reject := func(class, what string, pk *sr25519.PublicKey, ver *refsr.Verifier, t *sr25519.SigningTranscript, r *refstrobe.Transcript) {
		w.Eval("reject/"+class, true)
		if ver.Verify(r, sb) {
			e.c.Broken("reference verifier accepts a signature after " + what + ": " + sc.String())
			return
		}
		if pk.Verify(t, sig2) {
			w.Fail("PublicKey.Verify/accepts-"+class, fmt.Sprintf("signature still verifies after %s | %s", what, sc), cas)
		}
		b := sr25519.NewBatchVerifier()
		b.Add(pk, t, sig2)
		if all, each := b.Verify(mkReader(rdZero)); all || len(each) != 1 || each[0] {
			w.Fail("BatchVerifier.Verify/accepts-"+class, fmt.Sprintf("batch accepts the signature after %s | %s", what, sc), cas)
		}
	}
	alt := func(b []byte) [][]byte {
		var out [][]byte
		if len(b) == 0 {
			return [][]byte{{0}}
		}
		f := append([]byte{}, b...)
		f[len(f)-1] ^= 1
		out = append(out, f, append(append([]byte{}, b...), 0), b[:len(b)-1])
		return out
	}
	for _, c2 := range alt(sc.ctx) {
		reject("context", fmt.Sprintf("context -> %x", c2), pk2, k.ver, sc.src.mk(sr25519.NewSigningContext(lendAs("NewSigningContext", c2)), sc.msg), refTranscript(sc.src, c2, sc.msg))
	}
	for _, m2 := range alt(sc.msg) {
		reject("message", fmt.Sprintf("message -> %x", m2), pk2, k.ver, sc.src.mk(sr25519.NewSigningContext(lendAs("NewSigningContext", sc.ctx)), m2), refTranscript(sc.src, sc.ctx, m2))
	}
	ok := e.keys[(keyIdx+1)%len(e.keys)]
	reject("key", "public key -> "+ok.name, ok.pk, ok.ver, st2, rt)
	if sc.src.pre != nil {
		// the same pre-hash bytes presented as a plain message (label sign-bytes)
		p := sc.src.pre(sc.msg)
		reject("source", "pre-hash presented through NewTranscriptBytes", pk2, k.ver, sr25519.NewSigningContext(lendAs("NewSigningContext", sc.ctx)).NewTranscriptBytes(lendAs("SigningContext.NewTranscriptBytes", p)), refsr.TranscriptBytes(sc.ctx, p))
	} else if len(sc.msg) == 32 || len(sc.msg) == 64 {
		// a 32/64-byte message presented as a digest
		lbl := map[int]string{32: "sign-256", 64: "sign-512"}[len(sc.msg)]
		reject("source", "message presented as a digest through NewTranscriptHash", pk2, k.ver,
			sr25519.NewSigningContext(lendAs("NewSigningContext", sc.ctx)).NewTranscriptHash(fixedHash(sc.msg)), refsr.TranscriptPrehashed(sc.ctx, lbl, sc.msg))
	}
	// --- alternative encodings of the same R / s must be rejected ("exactly one byte encoding")
	rv := ref.FromLE(sb[:32])
	hiR := append([]byte{}, sb[:32]...)
	hiR[31] |= 0x80
	for _, alias := range []struct {
		name string
		rb   []byte
	}{{"R negated (p - r)", ref.LE32(new(big.Int).Sub(ref.P, rv))}, {"R with bit 255 set", hiR}} {
		name, rb := alias.name, alias.rb
		mut := append(append([]byte{}, rb...), sb[32:]...)
		w.Eval("reject/noncanonical-R", true)
		if k.ver.Verify(rt, mut) {
			e.c.Broken("reference accepts a non-canonical R")
		}
		s3, err := sr25519.NewSignatureFromBytes(lendAs("Signature.UnmarshalBinary", mut))
		if err == nil && pk2.Verify(st2, s3) {
			w.Fail("PublicKey.Verify/noncanonical-R", fmt.Sprintf("signature with %s verifies | %s", name, sc), cas)
		}
	}
	sPlusL := new(big.Int).Add(want.S, ref.L)
	if sPlusL.BitLen() <= 255 {
		mut := append(append([]byte{}, sb[:32]...), ref.LE32(sPlusL)...)
		mut[63] |= 128
		w.Eval("reject/s-plus-L", true)
		if _, err := sr25519.NewSignatureFromBytes(lendAs("Signature.UnmarshalBinary", mut)); err == nil {
			w.Fail("Signature.UnmarshalBinary/s-plus-L", fmt.Sprintf("signature with s+L accepted by the decoder | %s", sc), cas)
		}
	}
}

// fixedHash is a hash.Hash whose digest is a fixed byte string (to present bytes as a digest).
type fixedDigest struct{ d []byte }

func (f fixedDigest) Write(p []byte) (int, error) { return len(p), nil }
func (f fixedDigest) Sum(b []byte) []byte         { return append(b, f.d...) }
func (f fixedDigest) Reset()                      {}
func (f fixedDigest) Size() int                   { return len(f.d) }
func (f fixedDigest) BlockSize() int              { return 64 }
func fixedHash(d []byte) hash.Hash                { return fixedDigest{append([]byte{}, d...)} }

// ---------------------------------------------------------------------------
// Bit flips: every signature bit, every public-key bit, message and context bits
// ---------------------------------------------------------------------------

func (e *env) flipChecks() {
	c := e.c
	nBase := c.Pick(4, 16)
	const per = 512 + 256 + 128 + 128
	lens := []int{1, 16, 33, 64, 129, 255}
	c.Par("flips", nBase*per, func(w *mc.W, i int) {
		b, j := i/per, i%per
		sc := signCase{key: e.keys[b%len(e.keys)], ctx: e.ctxOf(lens[(b/2)%len(lens)]), msg: e.msgOf(lens[(b/3+1)%len(lens)]), src: e.srcs[b%len(e.srcs)], rd: []int{rdZero, rdGeneric, rdFF}[b%3]}
		class, what := "", ""
		switch {
		case j < 512:
			class, what = "flip/signature-bit", fmt.Sprintf("signature bit %d", j)
		case j < 768:
			class, what = "flip/public-key-bit", fmt.Sprintf("public key bit %d", j-512)
		case j < 896:
			class, what = "flip/message-bit", fmt.Sprintf("message bit %d", j-768)
		default:
			class, what = "flip/context-bit", fmt.Sprintf("context bit %d", j-896)
		}
		counted := false
		defer guard(w, &counted, class, what+" | "+sc.String())
		cas := map[string]string{"case": sc.String(), "flip": what}
		k := sc.key
		rt := refTranscript(sc.src, sc.ctx, sc.msg)
		want := refsr.Sign(k.rsk, k.rpk, rt, stream(sc.rd, 32))
		sigB, pkB, ctx, msg := append([]byte{}, want.Sig...), append([]byte{}, k.rpk...), sc.ctx, sc.msg
		flip := func(b []byte, bit int) []byte {
			o := append([]byte{}, b...)
			o[bit/8] ^= 1 << (uint(bit) % 8)
			return o
		}
		ver := k.ver
		switch {
		case j < 512:
			sigB = flip(sigB, j)
		case j < 768:
			pkB = flip(pkB, j-512)
			ver = refsr.NewVerifier(pkB)
		case j < 896:
			if j-768 >= 8*len(msg) {
				return // no such bit (not counted)
			}
			msg = flip(msg, j-768)
		default:
			if j-896 >= 8*len(ctx) {
				return
			}
			ctx = flip(ctx, j-896)
		}
		w.Eval(class, true)
		counted = true
		if ver.Verify(refTranscript(sc.src, ctx, msg), sigB) {
			c.Broken("reference verifier accepts after flipping " + what + ": " + sc.String())
			return
		}
		// the unflipped signature is what the implementation itself produces (checked in "sign"); here
		// the flipped inputs go through the public decoders
		pk, errP := sr25519.NewPublicKeyFromBytes(lendAs("PublicKey.UnmarshalBinary", pkB))
		sig, errS := sr25519.NewSignatureFromBytes(lendAs("Signature.UnmarshalBinary", sigB))
		if errP != nil || errS != nil {
			return // rejected at decoding: fine
		}
		st := sc.src.mk(sr25519.NewSigningContext(lendAs("NewSigningContext", ctx)), msg)
		if pk.Verify(st, sig) {
			w.Fail("PublicKey.Verify/accepts-flip", fmt.Sprintf("signature verifies after flipping %s | %s", what, sc), cas)
		}
		bv := sr25519.NewBatchVerifier()
		bv.Add(pk, st, sig)
		if all, each := bv.Verify(mkReader(rdGeneric)); all || len(each) != 1 || each[0] {
			w.Fail("BatchVerifier.Verify/accepts-flip", fmt.Sprintf("batch accepts after flipping %s | %s", what, sc), cas)
		}
		if bv.VerifyBatchOnly(mkReader(rdGeneric)) {
			w.Fail("BatchVerifier.VerifyBatchOnly/accepts-flip", fmt.Sprintf("batch accepts after flipping %s | %s", what, sc), cas)
		}
		if i%1013 == 0 {
			w.Sample(map[string]string{"sub": "flips", "flip": what, "case": clipStr(sc.String(), 200)})
		}
	})
	e.requires = append(e.requires, req{"flip/signature-bit", 2048}, req{"flip/public-key-bit", 1024}, req{"flip/message-bit", 32}, req{"flip/context-bit", 32})
}
