package main

import (
	"bytes"
	"fmt"
	"io"
	"strings"

	"github.com/oasisprotocol/curve25519-voi/internal/verif/mc"
	"github.com/oasisprotocol/curve25519-voi/internal/verif/ref"
	"github.com/oasisprotocol/curve25519-voi/internal/verif/ref/refsr"
	"github.com/oasisprotocol/curve25519-voi/internal/verif/ref/refstrobe"
	"github.com/oasisprotocol/curve25519-voi/primitives/sr25519"
)

// ---------------------------------------------------------------------------
// Receiver reuse: two- and three-step histories on ONE object.
//
// Every decodable type is decoded into, used (so that anything lazily derived is
// derived), decoded into AGAIN with another value (valid, or invalid followed by
// valid), and used again.  After every step every observable of the reused object
// must equal (a) the reference for the value the object now holds and (b) a fresh
// object brought to the same value.  A value that survives a decode (a cached
// public key, a stale point, a stale nonce) makes the object history dependent.
// ---------------------------------------------------------------------------

const (
	ruSecretKey = iota
	ruKeyPair
	ruPublicKey
	ruSignature
	ruMiniSecretKey
	nReuseTypes
)

var reuseTypeName = [...]string{"SecretKey", "KeyPair", "PublicKey", "Signature", "MiniSecretKey"}

// values a step can decode: three distinct valid values, then two invalid ones
const (
	valA = iota
	valB
	valC
	valBadContent // scalar = L / RFC bad point / unmarked signature / mismatched pair (MiniSecretKey: 33 bytes)
	valBadLength  // one byte short
	nReuseVals
)

var reuseValName = [...]string{"A", "B", "C", "invalid content", "invalid length"}

// how the object comes into existence holding A
const (
	ctorZeroUnmarshal = iota // var x T; x.UnmarshalBinary(lend(A))
	ctorFromBytes            // NewXFromBytes(A)
	ctorDerived              // derived by the library: Expand*(mini), sk.KeyPair(), sk.PublicKey(), kp.Sign()
	nCtors
)

var ctorName = [...]string{"zero value + UnmarshalBinary(A)", "New...FromBytes(A)", "derived by the library (A)"}

// material is everything known about one key on the reference side.
type material struct {
	k             *keyInfo
	skB, pkB, kpB []byte
	sig           []byte // reference signature on the fixed reuse transcript, zero entropy
}

type reuseCase struct {
	typ, rot, ctor int
	steps          []int // values decoded into the object after construction
	useBetween     bool  // use the object after every step (true) or only at the end (false)
	valueCopy      bool  // the steps are applied to a VALUE COPY (*obj) of the constructed object; the original must stay A
}

func (rc reuseCase) String() string {
	var s []string
	for _, v := range rc.steps {
		s = append(s, "UnmarshalBinary("+reuseValName[v]+")")
	}
	u := "observed after every step"
	if !rc.useBetween {
		u = "observed only at the end"
	}
	if rc.valueCopy {
		u += "; steps applied to a value copy of the object, the original is observed at the end"
	}
	return fmt.Sprintf("%s: %s; %s (%s; key rotation %d)", reuseTypeName[rc.typ], ctorName[rc.ctor], strings.Join(s, "; "), u, rc.rot)
}

var reuseCtx, reuseMsg = []byte("receiver reuse"), []byte("one object, several values")

func (e *env) reuseTranscript() *sr25519.SigningTranscript {
	return sr25519.NewSigningContext(lendAs("NewSigningContext", reuseCtx)).NewTranscriptBytes(lendAs("SigningContext.NewTranscriptBytes", reuseMsg))
}

func (e *env) reuseChecks() {
	c := e.c
	rt := refsr.TranscriptBytes(reuseCtx, reuseMsg)
	mats := make([]*material, len(e.keys))
	for i, k := range e.keys {
		mats[i] = &material{k: k, skB: k.rsk.Bytes(), pkB: k.rpk, kpB: k.rsk.KeypairBytes(), sig: refsr.Sign(k.rsk, k.rpk, rt, make([]byte, 32)).Sig}
	}
	// enumerate cases up front (index-stable)
	var cases []reuseCase
	rots := len(e.keys)
	if !c.Thorough && rots > 3 {
		rots = 3
	}
	for typ := 0; typ < nReuseTypes; typ++ {
		for rot := 0; rot < rots; rot++ {
			for ctor := 0; ctor < nCtors; ctor++ {
				for s1 := 0; s1 < nReuseVals; s1++ {
					for _, ub := range []bool{true, false} {
						cases = append(cases, reuseCase{typ, rot, ctor, []int{s1}, ub, false})
						if ub {
							cases = append(cases, reuseCase{typ, rot, ctor, []int{s1}, ub, true})
						}
						for s2 := 0; s2 < nReuseVals; s2++ {
							cases = append(cases, reuseCase{typ, rot, ctor, []int{s1, s2}, ub, false})
						}
					}
				}
			}
		}
	}
	c.Rep.Extra["reuse_cases"] = len(cases)
	c.Par("reuse", len(cases), func(w *mc.W, i int) {
		rc := cases[i]
		class := "reuse/" + reuseTypeName[rc.typ]
		counted := false
		defer guard(w, &counted, class, rc.String())
		// non-trivial: the object is overwritten with a DIFFERENT valid value at some step
		nontriv := false
		for _, v := range rc.steps {
			if v == valB || v == valC {
				nontriv = true
			}
		}
		w.Eval(class, nontriv)
		counted = true
		e.runReuse(w, rc, mats)
		if i%211 == 0 {
			w.Sample(map[string]string{"sub": "reuse", "case": rc.String()})
		}
	})
	for t := 0; t < nReuseTypes; t++ {
		e.requires = append(e.requires, req{"reuse/" + reuseTypeName[t], 100})
	}

	e.shortReadChecks()
	e.contextReuseChecks()
	e.decodeTwiceChecks(mats)
}

// decodeTwiceChecks: the SAME wire bytes (one caller buffer, deliberately not copied between the two uses) are
// decoded twice - first for a single verification, then again for a batch Add - as a server does with a
// received packet.  Both decodes must succeed and agree, and the buffer must be byte-identical afterwards.
func (e *env) decodeTwiceChecks(mats []*material) {
	c := e.c
	types := []string{"Signature", "PublicKey", "SecretKey", "KeyPair", "MiniSecretKey"}
	c.Par("decode-twice", len(mats)*len(types), func(w *mc.W, i int) {
		m, typ := mats[i/len(types)], types[i%len(types)]
		what := fmt.Sprintf("%s of key %s decoded twice from one buffer", typ, m.k.name)
		counted := false
		defer guard(w, &counted, "decode-twice", what)
		w.Eval("decode-twice", true)
		counted = true
		cas := map[string]string{"case": what}
		orig := map[string][]byte{"Signature": m.sig, "PublicKey": m.pkB, "SecretKey": m.skB, "KeyPair": m.kpB, "MiniSecretKey": m.k.mini}[typ]
		wire := append(make([]byte, 0, len(orig)+16), orig...) // the packet: private to this case, shared by both decodes
		st := e.reuseTranscript()
		var enc [2][]byte
		for round := 0; round < 2; round++ {
			var obj interface{ MarshalBinary() ([]byte, error) }
			var err error
			switch typ {
			case "Signature":
				var s *sr25519.Signature
				s, err = sr25519.NewSignatureFromBytes(wire)
				obj = s
				if err == nil {
					if round == 0 && !m.k.pk.Verify(st, s) {
						w.Fail("PublicKey.Verify/complete", "signature decoded from the packet does not verify | "+what, cas)
					}
					if round == 1 {
						bv := sr25519.NewBatchVerifier()
						bv.Add(m.k.pk, st, s)
						if all, _ := bv.Verify(mkReader(rdZero)); !all {
							w.Fail("BatchVerifier.Verify/complete", "signature decoded a second time from the same packet fails in a batch | "+what, cas)
						}
					}
				}
			case "PublicKey":
				var p *sr25519.PublicKey
				p, err = sr25519.NewPublicKeyFromBytes(wire)
				obj = p
				if err == nil {
					s, _ := sr25519.NewSignatureFromBytes(append([]byte{}, m.sig...))
					bv := sr25519.NewBatchVerifier()
					bv.Add(p, st, s)
					if all, _ := bv.Verify(mkReader(rdZero)); !p.Verify(st, s) || !all {
						w.Fail("PublicKey.Verify/complete", fmt.Sprintf("public key decoded from the packet (decode #%d) does not verify its signature | %s", round+1, what), cas)
					}
				}
			case "SecretKey":
				obj, err = sr25519.NewSecretKeyFromBytes(wire)
			case "KeyPair":
				obj, err = sr25519.NewKeyPairFromBytes(wire)
			default:
				obj, err = sr25519.NewMiniSecretKeyFromBytes(wire)
			}
			if err != nil {
				w.Fail(typ+".UnmarshalBinary/decode-twice", fmt.Sprintf("decode #%d of the same valid bytes failed: %v | %s", round+1, err, what), cas)
				break
			}
			enc[round] = mustMarshal(obj)
			if !bytes.Equal(enc[round], orig) {
				w.Fail(typ+".UnmarshalBinary/decode-twice", fmt.Sprintf("decode #%d gives %x, the bytes were %x | %s", round+1, enc[round], orig, what), cas)
			}
		}
		if !bytes.Equal(wire, orig) {
			w.Fail(typ+".UnmarshalBinary/caller-memory-modified", fmt.Sprintf("decoding changed the caller's buffer: was %x, now %x | %s", orig, wire, what), cas)
		}
	})
	e.requires = append(e.requires, req{"decode-twice", 30})
}

// encoding returns the byte string a step decodes, and whether the reference accepts it.
func reuseEncoding(typ, val int, m [3]*material) (b []byte, ok bool) {
	if val <= valC {
		switch typ {
		case ruSecretKey:
			return m[val].skB, true
		case ruKeyPair:
			return m[val].kpB, true
		case ruPublicKey:
			return m[val].pkB, true
		case ruSignature:
			return m[val].sig, true
		}
		return m[val].k.mini, true
	}
	var good []byte
	good, _ = reuseEncoding(typ, valB, m)
	if val == valBadLength {
		return good[:len(good)-1], false
	}
	bad := append([]byte{}, good...)
	switch typ {
	case ruSecretKey:
		copy(bad[:32], ref.LE32(ref.L))
	case ruKeyPair: // secret half of B with the public half of C
		copy(bad[64:], m[valC].pkB)
	case ruPublicKey:
		bad = make([]byte, 32)
		bad[0] = 1 // RFC 9496 A.2: odd ("negative") field element
	case ruSignature:
		bad[63] &= 127
	case ruMiniSecretKey:
		bad = append(bad, 0) // a MiniSecretKey has no invalid content: 33 bytes
	}
	return bad, false
}

// resetsOnFailure: Signature, PublicKey and KeyPair clear the receiver before decoding;
// SecretKey and MiniSecretKey leave it untouched.
func resetsOnFailure(typ int) bool {
	return typ == ruKeyPair || typ == ruPublicKey || typ == ruSignature
}

func (e *env) runReuse(w *mc.W, rc reuseCase, mats []*material) {
	var m [3]*material
	n := len(mats)
	// three distinct keys; for MiniSecretKey the three must have distinct mini keys (keys come in uniform/ed25519 pairs)
	stride := 1
	if rc.typ == ruMiniSecretKey {
		stride = 2
	}
	for j := range m {
		m[j] = mats[(rc.rot+j*stride)%n]
	}
	cas := map[string]string{"case": rc.String()}
	fail := func(key, format string, a ...interface{}) {
		w.Fail(key, fmt.Sprintf(format, a...)+" | "+rc.String(), cas)
	}
	st := e.reuseTranscript()

	// the one object
	var (
		sk  *sr25519.SecretKey
		kp  *sr25519.KeyPair
		pk  *sr25519.PublicKey
		sig *sr25519.Signature
		msk *sr25519.MiniSecretKey
		err error
	)
	a, _ := reuseEncoding(rc.typ, valA, m)
	expand := func(k *keyInfo) *sr25519.SecretKey {
		mk, err := sr25519.NewMiniSecretKeyFromBytes(lendAs("MiniSecretKey.UnmarshalBinary", k.mini))
		if err != nil {
			panic(err)
		}
		if k.ed {
			return mk.ExpandEd25519()
		}
		return mk.ExpandUniform()
	}
	switch rc.typ {
	case ruSecretKey:
		switch rc.ctor {
		case ctorZeroUnmarshal:
			sk = &sr25519.SecretKey{}
			err = sk.UnmarshalBinary(lend(a))
		case ctorFromBytes:
			sk, err = sr25519.NewSecretKeyFromBytes(lendAs("SecretKey.UnmarshalBinary", a))
		default:
			sk = expand(m[valA].k)
		}
	case ruKeyPair:
		switch rc.ctor {
		case ctorZeroUnmarshal:
			kp = &sr25519.KeyPair{}
			err = kp.UnmarshalBinary(lend(a))
		case ctorFromBytes:
			kp, err = sr25519.NewKeyPairFromBytes(lendAs("KeyPair.UnmarshalBinary", a))
		default:
			kp = expand(m[valA].k).KeyPair()
		}
	case ruPublicKey:
		switch rc.ctor {
		case ctorZeroUnmarshal:
			pk = &sr25519.PublicKey{}
			err = pk.UnmarshalBinary(lend(a))
		case ctorFromBytes:
			pk, err = sr25519.NewPublicKeyFromBytes(lendAs("PublicKey.UnmarshalBinary", a))
		default:
			pk = expand(m[valA].k).PublicKey()
		}
	case ruSignature:
		switch rc.ctor {
		case ctorZeroUnmarshal:
			sig = &sr25519.Signature{}
			err = sig.UnmarshalBinary(lend(a))
		case ctorFromBytes:
			sig, err = sr25519.NewSignatureFromBytes(lendAs("Signature.UnmarshalBinary", a))
		default:
			sig, err = expand(m[valA].k).KeyPair().Sign(mkReader(rdZero), st)
		}
	case ruMiniSecretKey:
		switch rc.ctor {
		case ctorZeroUnmarshal:
			msk = &sr25519.MiniSecretKey{}
			err = msk.UnmarshalBinary(lend(a))
		case ctorFromBytes:
			msk, err = sr25519.NewMiniSecretKeyFromBytes(lendAs("MiniSecretKey.UnmarshalBinary", a))
		default:
			msk, err = sr25519.GenerateMiniSecretKey(bytes.NewReader(a))
		}
	}
	if err != nil {
		fail(reuseTypeName[rc.typ]+"/reuse-construct", "construction with value A failed: %v", err)
		return
	}

	// observe compares every observable of the object with the value index it must now hold (-1: holds nothing)
	observe := func(state int, after string) {
		key := reuseTypeName[rc.typ] + "/reuse"
		if state < 0 {
			switch rc.typ {
			case ruKeyPair:
				if !bytes.Equal(mustMarshal(kp), zeros(96)) || kp.PublicKey() != nil || kp.SecretKey() != nil {
					fail(key, "after %s the key pair must hold nothing", after)
				}
			case ruPublicKey:
				s, _ := sr25519.NewSignatureFromBytes(lendAs("Signature.UnmarshalBinary", m[valA].sig))
				if !bytes.Equal(mustMarshal(pk), zeros(32)) || pk.Verify(st, s) {
					fail(key, "after %s the public key must hold nothing", after)
				}
			case ruSignature:
				neutral := zeros(64)
				neutral[63] = 128
				if !bytes.Equal(mustMarshal(sig), neutral) || m[valA].k.pk.Verify(st, sig) || m[valB].k.pk.Verify(st, sig) {
					fail(key, "after %s the signature must hold nothing", after)
				}
			}
			return
		}
		cur := m[state]
		other := m[(state+1)%3]
		checkSigner := func(p *sr25519.KeyPair, what string) {
			b := mustMarshal(p)
			if !bytes.Equal(b, cur.kpB) {
				fail(key, "after %s: %s encodes to %x, reference key pair of %s is %x", after, what, b, reuseValName[state], cur.kpB)
			}
			if _, err := sr25519.NewKeyPairFromBytes(lendAs("KeyPair.UnmarshalBinary", b)); err != nil {
				fail(key, "after %s: encoding of %s is rejected by NewKeyPairFromBytes: %v", after, what, err)
			}
			if !bytes.Equal(mustMarshal(p.PublicKey()), cur.pkB) || !bytes.Equal(mustMarshal(p.SecretKey()), cur.skB) {
				fail(key, "after %s: halves of %s differ from value %s", after, what, reuseValName[state])
			}
			s, err := p.Sign(mkReader(rdZero), st)
			if err != nil {
				fail(key, "after %s: %s cannot sign: %v", after, what, err)
				return
			}
			if sb := mustMarshal(s); !bytes.Equal(sb, cur.sig) {
				fail(key, "after %s: %s signs %x with fixed entropy, schnorrkel definition for value %s gives %x", after, what, sb, reuseValName[state], cur.sig)
			}
			if !p.PublicKey().Verify(st, s) {
				fail(key, "after %s: signature by %s does not verify under its own public key", after, what)
			}
			fresh, err := sr25519.NewPublicKeyFromBytes(lendAs("PublicKey.UnmarshalBinary", cur.pkB))
			if err != nil || !fresh.Verify(st, s) {
				fail(key, "after %s: signature by %s does not verify under a fresh public key of value %s", after, what, reuseValName[state])
			}
			bv := sr25519.NewBatchVerifier()
			bv.Add(p.PublicKey(), st, s)
			if all, _ := bv.Verify(mkReader(rdZero)); !all {
				fail(key, "after %s: signature by %s fails in a batch", after, what)
			}
			if o, err := sr25519.NewPublicKeyFromBytes(lendAs("PublicKey.UnmarshalBinary", other.pkB)); err != nil || o.Verify(st, s) {
				fail(key, "after %s: signature by %s verifies under another key", after, what)
			}
		}
		switch rc.typ {
		case ruSecretKey:
			if b := mustMarshal(sk); !bytes.Equal(b, cur.skB) {
				fail(key, "after %s: MarshalBinary %x, want %x", after, b, cur.skB)
			}
			if b := mustMarshal(sk.PublicKey()); !bytes.Equal(b, cur.pkB) {
				fail(key, "after %s: PublicKey() is %x, the public key of value %s is %x", after, b, reuseValName[state], cur.pkB)
			}
			checkSigner(sk.KeyPair(), "KeyPair()")
			if fresh, err := sr25519.NewSecretKeyFromBytes(lendAs("SecretKey.UnmarshalBinary", cur.skB)); err != nil || !sk.Equal(fresh) || !fresh.Equal(sk) {
				fail(key, "after %s: not Equal to a fresh object holding value %s", after, reuseValName[state])
			}
			if o, err := sr25519.NewSecretKeyFromBytes(lendAs("SecretKey.UnmarshalBinary", other.skB)); err != nil || sk.Equal(o) {
				fail(key, "after %s: Equal to a different key", after)
			}
		case ruKeyPair:
			checkSigner(kp, "the key pair")
		case ruPublicKey:
			if b := mustMarshal(pk); !bytes.Equal(b, cur.pkB) {
				fail(key, "after %s: MarshalBinary %x, want %x", after, b, cur.pkB)
			}
			s, _ := sr25519.NewSignatureFromBytes(lendAs("Signature.UnmarshalBinary", cur.sig))
			so, _ := sr25519.NewSignatureFromBytes(lendAs("Signature.UnmarshalBinary", other.sig))
			if !pk.Verify(st, s) {
				fail(key, "after %s: does not verify the signature of value %s", after, reuseValName[state])
			}
			if pk.Verify(st, so) {
				fail(key, "after %s: verifies the signature of another key", after)
			}
			bv := sr25519.NewBatchVerifier()
			bv.Add(pk, st, s)
			bv.Add(pk, st, so)
			if all, each := bv.Verify(mkReader(rdZero)); all || len(each) != 2 || !each[0] || each[1] {
				fail(key, "after %s: batch verdicts %v, want [true false]", after, each)
			}
			if fresh, err := sr25519.NewPublicKeyFromBytes(lendAs("PublicKey.UnmarshalBinary", cur.pkB)); err != nil || !pk.Equal(fresh) || !fresh.Equal(pk) {
				fail(key, "after %s: not Equal to a fresh object holding value %s", after, reuseValName[state])
			}
			if o, err := sr25519.NewPublicKeyFromBytes(lendAs("PublicKey.UnmarshalBinary", other.pkB)); err != nil || pk.Equal(o) {
				fail(key, "after %s: Equal to a different key", after)
			}
		case ruSignature:
			if b := mustMarshal(sig); !bytes.Equal(b, cur.sig) {
				fail(key, "after %s: MarshalBinary %x, want %x", after, b, cur.sig)
			}
			if !cur.k.pk.Verify(st, sig) {
				fail(key, "after %s: does not verify under the key of value %s", after, reuseValName[state])
			}
			if other.k.pk.Verify(st, sig) {
				fail(key, "after %s: verifies under another key", after)
			}
			bv := sr25519.NewBatchVerifier()
			bv.Add(cur.k.pk, st, sig)
			if all, _ := bv.Verify(mkReader(rdZero)); !all || !bv.VerifyBatchOnly(mkReader(rdGeneric)) {
				fail(key, "after %s: fails in a batch", after)
			}
		case ruMiniSecretKey:
			if b := mustMarshal(msk); !bytes.Equal(b, cur.k.mini) {
				fail(key, "after %s: MarshalBinary %x, want %x", after, b, cur.k.mini)
			}
			if b := mustMarshal(msk.ExpandUniform()); !bytes.Equal(b, refsr.ExpandUniform(cur.k.mini).Bytes()) {
				fail(key, "after %s: ExpandUniform differs from the reference for value %s", after, reuseValName[state])
			}
			if b := mustMarshal(msk.ExpandEd25519()); !bytes.Equal(b, refsr.ExpandEd25519(cur.k.mini).Bytes()) {
				fail(key, "after %s: ExpandEd25519 differs from the reference for value %s", after, reuseValName[state])
			}
			fresh, _ := sr25519.NewMiniSecretKeyFromBytes(lendAs("MiniSecretKey.UnmarshalBinary", cur.k.mini))
			o, _ := sr25519.NewMiniSecretKeyFromBytes(lendAs("MiniSecretKey.UnmarshalBinary", other.k.mini))
			if !msk.Equal(fresh) || msk.Equal(o) {
				fail(key, "after %s: Equal disagrees with the held value", after)
			}
		}
	}

	state := valA
	if rc.useBetween {
		observe(state, "construction")
	}
	// theme T3: copy the (used) object by value and re-set the copy; the original must be unaffected
	var restore func()
	if rc.valueCopy {
		switch rc.typ {
		case ruSecretKey:
			orig, cp := sk, *sk
			sk, restore = &cp, func() { sk = orig }
		case ruKeyPair:
			orig, cp := kp, *kp
			kp, restore = &cp, func() { kp = orig }
		case ruPublicKey:
			orig, cp := pk, *pk
			pk, restore = &cp, func() { pk = orig }
		case ruSignature:
			orig, cp := sig, *sig
			sig, restore = &cp, func() { sig = orig }
		case ruMiniSecretKey:
			orig, cp := msk, *msk
			msk, restore = &cp, func() { msk = orig }
		}
		observe(state, "value copy")
	}
	defer func() {
		if restore != nil {
			restore()
			observe(valA, "the steps performed on a value copy (original object)")
		}
	}()
	for si, v := range rc.steps {
		b, ok := reuseEncoding(rc.typ, v, m)
		switch rc.typ {
		case ruSecretKey:
			err = sk.UnmarshalBinary(lend(b))
		case ruKeyPair:
			err = kp.UnmarshalBinary(lend(b))
		case ruPublicKey:
			err = pk.UnmarshalBinary(lend(b))
		case ruSignature:
			err = sig.UnmarshalBinary(lend(b))
		case ruMiniSecretKey:
			err = msk.UnmarshalBinary(lend(b))
		}
		after := fmt.Sprintf("step %d, UnmarshalBinary(%s)", si+1, reuseValName[v])
		if (err == nil) != ok {
			fail(reuseTypeName[rc.typ]+"/reuse-decode", "%s on a used receiver: err=%v, reference accepts: %v", after, err, ok)
			return
		}
		switch {
		case ok:
			state = v
		case resetsOnFailure(rc.typ):
			state = -1
		}
		if rc.useBetween || si == len(rc.steps)-1 {
			observe(state, after)
		}
	}
}

// ---------------------------------------------------------------------------
// Short reads: an entropy source that returns fewer bytes than asked for (with a
// nil error) must give exactly the signature / keys of a source that delivers
// everything at once.
// ---------------------------------------------------------------------------

type chunkReader struct {
	b []byte
	n int
}

func (r *chunkReader) Read(p []byte) (int, error) {
	if len(p) == 0 {
		return 0, nil
	}
	if len(r.b) == 0 {
		return 0, io.EOF
	}
	n := r.n
	if n > len(p) {
		n = len(p)
	}
	if n > len(r.b) {
		n = len(r.b)
	}
	copy(p, r.b[:n])
	r.b = r.b[n:]
	return n, nil
}

var chunkSizes = []int{1, 7, 16, 31, 33}

func (e *env) shortReadChecks() {
	c := e.c
	msgLens := []int{0, 33, 129}
	prod := mc.Product{Radix: []int{len(e.keys), len(e.srcs), len(msgLens), len(chunkSizes)}}
	c.Par("short-reads", prod.Size(), func(w *mc.W, i int) {
		var d [4]int
		prod.Decode(i, d[:])
		k, src, msg, chunk := e.keys[d[0]], e.srcs[d[1]], e.msgOf(msgLens[d[2]]), chunkSizes[d[3]]
		what := fmt.Sprintf("key=%s source=%s msg=%x entropy delivered %d byte(s) per Read", k.name, src.name, msg, chunk)
		counted := false
		defer guard(w, &counted, "short-reads/sign", what)
		w.Eval("short-reads/sign", true)
		counted = true
		cas := map[string]string{"case": what}
		ctx := []byte("short reads")
		st := src.mk(sr25519.NewSigningContext(lendAs("NewSigningContext", ctx)), msg)
		want := refsr.Sign(k.rsk, k.rpk, refTranscript(src, ctx, msg), stream(rdGeneric, 32)).Sig
		sig, err := k.kp.Sign(&chunkReader{b: stream(rdGeneric, 256), n: chunk}, st)
		if err != nil || sig == nil {
			w.Fail("KeyPair.Sign/short-reads", fmt.Sprintf("Sign failed with a short-reading entropy source: %v | %s", err, what), cas)
			return
		}
		if sb := mustMarshal(sig); !bytes.Equal(sb, want) {
			w.Fail("KeyPair.Sign/short-reads", fmt.Sprintf("signature %x differs from the signature with the same entropy read at once (%x) | %s", sb, want, what), cas)
		}
		if !k.pk.Verify(st, sig) {
			w.Fail("KeyPair.Sign/short-reads", "signature made with a short-reading entropy source does not verify | "+what, cas)
		}
		// batch verification with a short-reading delinearisation source
		bv := sr25519.NewBatchVerifier()
		bv.Add(k.pk, st, sig)
		bv.Add(k.pk, st, sig)
		if all, each := bv.Verify(&chunkReader{b: stream(rdGeneric, 256), n: chunk}); !all || len(each) != 2 || !each[0] || !each[1] {
			w.Fail("BatchVerifier.Verify/short-reads", "valid batch rejected with a short-reading entropy source | "+what, cas)
		}
		if !bv.VerifyBatchOnly(&chunkReader{b: stream(rdGeneric, 256), n: chunk}) {
			w.Fail("BatchVerifier.VerifyBatchOnly/short-reads", "valid batch rejected with a short-reading entropy source | "+what, cas)
		}
	})
	c.Par("short-reads-generate", len(chunkSizes), func(w *mc.W, i int) {
		chunk := chunkSizes[i]
		what := fmt.Sprintf("entropy delivered %d byte(s) per Read", chunk)
		counted := false
		defer guard(w, &counted, "short-reads/generate", what)
		w.Eval("short-reads/generate", true)
		counted = true
		rd := func() io.Reader { return &chunkReader{b: stream(rdGeneric, 256), n: chunk} }
		want := refsr.Generate(stream(rdGeneric, 96))
		msk, err := sr25519.GenerateMiniSecretKey(rd())
		if err != nil || !bytes.Equal(msk[:], stream(rdGeneric, 32)) {
			w.Fail("GenerateMiniSecretKey/short-reads", fmt.Sprintf("err=%v | %s", err, what), nil)
		}
		sk, err := sr25519.GenerateSecretKey(rd())
		if err != nil || !bytes.Equal(mustMarshal(sk), want.Bytes()) {
			w.Fail("GenerateSecretKey/short-reads", fmt.Sprintf("err=%v: key differs from the key generated from the same entropy read at once | %s", err, what), nil)
		}
		kp, err := sr25519.GenerateKeyPair(rd())
		if err != nil || !bytes.Equal(mustMarshal(kp), want.KeypairBytes()) {
			w.Fail("GenerateKeyPair/short-reads", fmt.Sprintf("err=%v: key pair differs | %s", err, what), nil)
		}
	})
	e.requires = append(e.requires, req{"short-reads/sign", 100}, req{"short-reads/generate", 5})
}

// ---------------------------------------------------------------------------
// Contexts, transcripts and key pairs used repeatedly: nothing may survive from
// an earlier message / signature into a later one.
// ---------------------------------------------------------------------------

func (e *env) contextReuseChecks() {
	c := e.c
	lens := []int{0, 1, 32, 64, 200}
	prod := mc.Product{Radix: []int{len(e.keys), len(e.srcs), len(e.srcs), len(lens)}}
	c.Par("reuse-context", prod.Size(), func(w *mc.W, i int) {
		var d [4]int
		prod.Decode(i, d[:])
		k, s1, s2 := e.keys[d[0]], e.srcs[d[1]], e.srcs[d[2]]
		ctx := e.ctxOf(lens[d[3]])
		m1, m2 := e.msgOf(lens[(d[3]+1)%len(lens)]), e.msgOf(lens[(d[3]+2)%len(lens)])
		what := fmt.Sprintf("key=%s ctx=%x first source=%s msg=%x then source=%s msg=%x from the same context", k.name, ctx, s1.name, m1, s2.name, m2)
		counted := false
		defer guard(w, &counted, "reuse/context", what)
		w.Eval("reuse/context", true)
		counted = true
		cas := map[string]string{"case": what}
		// ONE context object and ONE key pair object (freshly decoded, so that its history is only this case)
		sc := sr25519.NewSigningContext(lendAs("NewSigningContext", ctx))
		kp, err := sr25519.NewKeyPairFromBytes(lendAs("KeyPair.UnmarshalBinary", k.rsk.KeypairBytes()))
		if err != nil {
			w.Fail("KeyPair.UnmarshalBinary/valid", "reference key pair rejected", cas)
			return
		}
		var rts [2]*refstrobe.Transcript
		rts[0], rts[1] = refTranscript(s1, ctx, m1), refTranscript(s2, ctx, m2)
		sts := [2]*sr25519.SigningTranscript{s1.mk(sc, m1), nil}
		sigs := [2]*sr25519.Signature{}
		for j := 0; j < 2; j++ {
			if j == 1 {
				sts[1] = s2.mk(sc, m2) // created AFTER the first transcript was signed and verified
			}
			want := refsr.Sign(k.rsk, k.rpk, rts[j], stream(rdFF, 32)).Sig
			s, err := kp.Sign(mkReader(rdFF), sts[j])
			if err != nil || !bytes.Equal(mustMarshal(s), want) {
				w.Fail("SigningContext/reuse", fmt.Sprintf("signature #%d made from a reused context / key pair differs from the reference (err=%v) | %s", j+1, err, what), cas)
				return
			}
			if !kp.PublicKey().Verify(sts[j], s) {
				w.Fail("SigningContext/reuse", fmt.Sprintf("signature #%d does not verify | %s", j+1, what), cas)
			}
			sigs[j] = s
		}
		// the first transcript is still the first transcript (sign again, verify again), and the two do not cross-verify
		if s, err := kp.Sign(mkReader(rdFF), sts[0]); err != nil || !bytes.Equal(mustMarshal(s), mustMarshal(sigs[0])) {
			w.Fail("SigningTranscript/reuse", "re-signing the first transcript after the second was created gives different bytes | "+what, cas)
		}
		if !kp.PublicKey().Verify(sts[0], sigs[0]) || !sameStrobe(sr25519.VerifTranscript(sts[0]), rts[0]) || !sameStrobe(sr25519.VerifTranscript(sts[1]), rts[1]) {
			w.Fail("SigningTranscript/reuse", "a transcript changed after being used | "+what, cas)
		}
		distinct := !bytes.Equal(m1, m2) || s1.label != s2.label || s1.name != s2.name
		if distinct && (kp.PublicKey().Verify(sts[1], sigs[0]) || kp.PublicKey().Verify(sts[0], sigs[1])) {
			w.Fail("PublicKey.Verify/accepts-message", "signatures of two different transcripts from one context cross-verify | "+what, cas)
		}
	})
	e.requires = append(e.requires, req{"reuse/context", 100})
}
