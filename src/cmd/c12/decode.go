package main

import (
	"bytes"
	"crypto/sha1"
	"crypto/sha256"
	"crypto/sha512"
	"encoding/hex"
	"fmt"
	"hash"
	"math/big"

	"github.com/oasisprotocol/curve25519-voi/internal/verif/alph"
	"github.com/oasisprotocol/curve25519-voi/internal/verif/mc"
	"github.com/oasisprotocol/curve25519-voi/internal/verif/ref"
	"github.com/oasisprotocol/curve25519-voi/internal/verif/ref/refsr"
	"github.com/oasisprotocol/curve25519-voi/primitives/sr25519"
)

// RFC 9496 appendix A.2 (bad encodings).
var rfcBadEncodings = []string{
	"00ffffffffffffffffffffffffffffffffffffffffffffffffffffffffffffff",
	"ffffffffffffffffffffffffffffffffffffffffffffffffffffffffffffff7f",
	"f3ffffffffffffffffffffffffffffffffffffffffffffffffffffffffffff7f",
	"edffffffffffffffffffffffffffffffffffffffffffffffffffffffffffff7f",
	"0100000000000000000000000000000000000000000000000000000000000000",
	"01ffffffffffffffffffffffffffffffffffffffffffffffffffffffffffff7f",
	"ed57ffd8c914fb201471d1c3d245ce3c746fcbe63a3679d51b6a516ebebe0e20",
	"c34c4e1826e5d403b78e246e88aa051c36ccf0aafebffe137d148a2bf9104562",
	"c940e5a4404157cfb1628b108db051a8d439e1a421394ec4ebccb9ec92a8ac78",
	"47cfc5497c53dc8e61c91d17fd626ffb1c49e2bca94eed052281b510b1117a24",
	"f1c6165d33367351b0da8f6e4511010c68174a03b6581212c71c0e1d026c3c72",
	"87260f7a2f12495118360f02c26a470f450dadf34a413d21042b43b9d93e1309",
	"26948d35ca62e643e26a83177332e6b6afeb9d08e4268b650f1f5bbd8d81d371",
	"4eac077a713c57b4f4397629a4145982c661f48044dd3f96427d40b147d9742f",
	"de6a7b00deadc788eb6b6c8d20c0ae96c2f2019078fa604fee5b87d6e989ad7b",
	"bcab477be20861e01e4a0e295284146a510150d9817763caf1a6f4b422d67042",
	"2a292df7e32cababbd9de088d1d1abec9fc0440f637ed2fba145094dc14bea08",
	"f4a9e534fc0d216c44b218fa0c42d99635a0127ee2e53c712f70609649fdff22",
	"8268436f8c4126196cf64b3c7ddbda90746a378625f9813dd9b8457077256731",
	"2810e5cbc2cc4d4eece54f61c6f69758e289aa7ab440b3cbeaa21995c2f4232b",
	"3eb858e78f5a7254d8c9731174a94f76755fd3941c0ac93735c07ba14579630e",
	"a45fdc55c76448c049a1ab33f17023edfb2be3581e9c7aade8a6125215e04220",
	"d483fe813c6ba647ebbfd3ec41adca1c6130c2beeee9d9bf065c8d151c5f396e",
	"8a2e1d30050198c65a54483123960ccc38aef6848e1ec8f5f780e8523769ba32",
	"32888462f8b486c68ad7dd9610be5192bbeaf3b443951ac1a8118419d9fa097b",
	"227142501b9d4355ccba290404bde41575b037693cef1f438c47f8fbf35d1165",
	"5c37cc491da847cfeb9281d407efc41e15144c876e0170b499a96a22ed31e01e",
	"445425117cb8c90edcbc7c1cc0e74f747f2c1efa5630a967c64f287792a48a4b",
	"ecffffffffffffffffffffffffffffffffffffffffffffffffffffffffffff7f",
}

type pointStr struct {
	b    []byte
	what string
}

// pointAlphabet is the ristretto encoding alphabet (DESIGN section 5, "P"): canonical encodings
// of [s]B, their negated / high-bit / +p aliases, small values, the RFC bad list, generic strings.
func pointAlphabet(seed int64, thorough bool) []pointStr {
	var out []pointStr
	seen := map[string]bool{}
	add := func(b []byte, what string) {
		if !seen[string(b)] {
			seen[string(b)] = true
			out = append(out, pointStr{append([]byte{}, b...), what})
		}
	}
	scal := alph.Scalars(seed, true)
	if !thorough {
		scal = scal[:40]
	}
	for i, s := range scal {
		enc := ref.RistrettoEncode(refsr.BaseTable.Mul(s))
		add(enc, fmt.Sprintf("canonical encoding of [%s]B", s.Text(16)))
		v := ref.FromLE(enc)
		if i < 24 {
			add(ref.LE32(new(big.Int).Sub(ref.P, v)), "negated field element (p - r) of a valid encoding")
			hb := append([]byte{}, enc...)
			hb[31] |= 0x80
			add(hb, "valid encoding with bit 255 set")
			fb := append([]byte{}, enc...)
			fb[0] ^= 1
			add(fb, "valid encoding with bit 0 set (odd)")
		}
	}
	for v := int64(0); v <= 40; v++ {
		add(ref.LE32(big.NewInt(v)), fmt.Sprintf("small value %d", v))
		if v < 19 {
			add(ref.LE32(new(big.Int).Add(ref.P, big.NewInt(v))), fmt.Sprintf("p + %d (unreduced)", v))
		}
		add(ref.LE32(new(big.Int).Sub(ref.P, big.NewInt(v+1))), fmt.Sprintf("p - %d", v+1))
	}
	for _, h := range rfcBadEncodings {
		b, _ := hex.DecodeString(h)
		add(b, "RFC 9496 A.2 bad encoding")
	}
	add(bytes.Repeat([]byte{0xff}, 32), "all ones")
	ng := 64
	if thorough {
		ng = 512
	}
	for i := 0; i < ng; i++ {
		g := mc.Bytes(seed, "c12-point", i, 32)
		add(g, "generic string")
		g[0] &^= 1
		g[31] &= 0x7f
		add(g, "generic even string below 2^255")
	}
	return out
}

// scalarAlphabet: 255-bit values for the scalar halves of signatures and secret keys.
func scalarAlphabet(seed int64) []*big.Int {
	mask := new(big.Int).Sub(new(big.Int).Lsh(big.NewInt(1), 255), big.NewInt(1))
	seen := map[string]bool{}
	var out []*big.Int
	add := func(v *big.Int) {
		v = new(big.Int).And(v, mask)
		if !seen[v.Text(16)] {
			seen[v.Text(16)] = true
			out = append(out, v)
		}
	}
	for _, v := range alph.Scalars(seed, false) {
		add(v)
	}
	for _, v := range alph.Wide(seed, 256, false) {
		add(v)
	}
	// top-byte classes around the order (L = 2^252 + ...): byte 31 in {0x0f, 0x10, 0x11, 0x1f, 0x20, 0x7f} over low parts {0, L's low part -1/0/+1, all ones}
	lo := new(big.Int).And(ref.L, new(big.Int).Sub(new(big.Int).Lsh(big.NewInt(1), 248), big.NewInt(1)))
	for _, top := range []int64{0x00, 0x0f, 0x10, 0x11, 0x1f, 0x20, 0x40, 0x7f} {
		for _, l := range []*big.Int{big.NewInt(0), new(big.Int).Sub(lo, big.NewInt(1)), lo, new(big.Int).Add(lo, big.NewInt(1)), new(big.Int).Sub(new(big.Int).Lsh(big.NewInt(1), 248), big.NewInt(1))} {
			add(new(big.Int).Add(new(big.Int).Lsh(big.NewInt(top), 248), l))
		}
	}
	return out
}

func zeros(n int) []byte { return make([]byte, n) }

func (e *env) decoderChecks() {
	c := e.c
	points := pointAlphabet(c.Seed, c.Thorough)
	scalars := scalarAlphabet(c.Seed)
	c.Rep.Extra["alphabet_points"] = len(points)
	c.Rep.Extra["alphabet_scalars255"] = len(scalars)
	k0 := e.keys[0]
	validSig := refsr.Sign(k0.rsk, k0.rpk, refsr.TranscriptBytes([]byte("ctx"), []byte("msg")), zeros(32)).Sig

	// ---- Signature: marker x scalar x R
	rStrings := [][]byte{validSig[:32], zeros(32), ref.LE32(new(big.Int).Sub(ref.P, ref.FromLE(validSig[:32]))), bytes.Repeat([]byte{0xff}, 32), {1, 0, 0, 0, 0, 0, 0, 0, 0, 0, 0, 0, 0, 0, 0, 0, 0, 0, 0, 0, 0, 0, 0, 0, 0, 0, 0, 0, 0, 0, 0, 0}}
	prodS := mc.Product{Radix: []int{len(scalars), 2, len(rStrings)}}
	c.Par("decode-sig", prodS.Size(), func(w *mc.W, i int) {
		var d [3]int
		prodS.Decode(i, d[:])
		s := scalars[d[0]]
		b := append(append([]byte{}, rStrings[d[2]]...), ref.LE32(s)...)
		if d[1] == 1 {
			b[63] |= 128
		}
		_, _, ok := refsr.DecodeSignature(b)
		class := "decode-sig/accept"
		switch {
		case d[1] == 0:
			class = "decode-sig/reject-unmarked"
		case !ok:
			class = "decode-sig/reject-scalar"
		}
		what := fmt.Sprintf("signature bytes %x", b)
		counted := false
		defer guard(w, &counted, class, what)
		w.Eval(class, !ok || s.BitLen() > 251)
		counted = true
		cas := map[string]string{"bytes": mc.Hex(b)}
		// receiver previously holding a valid signature
		sig, err := sr25519.NewSignatureFromBytes(lendAs("Signature.UnmarshalBinary", validSig))
		if err != nil {
			w.Fail("Signature.UnmarshalBinary/valid", "reference signature rejected", cas)
			return
		}
		err = sig.UnmarshalBinary(lend(b))
		if (err == nil) != ok {
			w.Fail("Signature.UnmarshalBinary/"+class[11:], fmt.Sprintf("UnmarshalBinary(%x) err=%v, schnorrkel accepts: %v", b, err, ok), cas)
			return
		}
		var fresh sr25519.Signature
		if err2 := fresh.UnmarshalBinary(lend(b)); (err2 == nil) != ok {
			w.Fail("Signature.UnmarshalBinary/fresh-receiver", "fresh and used receivers disagree", cas)
		}
		if ok {
			if !bytes.Equal(mustMarshal(sig), b) {
				w.Fail("Signature.MarshalBinary/roundtrip", fmt.Sprintf("marshal(unmarshal(%x)) = %x", b, mustMarshal(sig)), cas)
			}
			// an accepted string that is not THE signature must not verify (R alphabet incl. non-decodable R)
			if d[0]%8 == 0 {
				rt := refsr.TranscriptBytes([]byte("ctx"), []byte("msg"))
				want := k0.ver.Verify(rt, b)
				got := k0.pk.Verify(sr25519.NewSigningContext(lendAs("NewSigningContext", []byte("ctx"))).NewTranscriptBytes(lendAs("SigningContext.NewTranscriptBytes", []byte("msg"))), sig)
				if got != want {
					w.Fail("PublicKey.Verify/structured", fmt.Sprintf("Verify(%x)=%v, reference %v", b, got, want), cas)
				}
			}
		} else {
			// documented reset: the receiver holds no signature
			neutral := zeros(64)
			neutral[63] = 128
			if sr25519.VerifSignatureInitialised(sig) || !bytes.Equal(mustMarshal(sig), neutral) {
				w.Fail("Signature.UnmarshalBinary/receiver-after-failure", fmt.Sprintf("receiver not reset after rejecting %x", b), cas)
			}
			if k0.pk.Verify(sr25519.NewSigningContext(lendAs("NewSigningContext", []byte("ctx"))).NewTranscriptBytes(lendAs("SigningContext.NewTranscriptBytes", []byte("msg"))), sig) {
				w.Fail("Signature.UnmarshalBinary/receiver-after-failure", "receiver still verifies after a failed unmarshal", cas)
			}
		}
		if i%499 == 0 {
			w.Sample(map[string]string{"sub": "decode-sig", "bytes": mc.Hex(b), "accept": fmt.Sprint(ok)})
		}
	})

	// ---- PublicKey: point alphabet
	c.Par("decode-pk", len(points), func(w *mc.W, i int) {
		p := points[i]
		_, ok := refsr.DecodePublicKey(p.b)
		class := map[bool]string{true: "decode-pk/accept", false: "decode-pk/reject"}[ok]
		counted := false
		defer guard(w, &counted, class, p.what)
		w.Eval(class, !ok || bytes.Equal(p.b, zeros(32)))
		counted = true
		cas := map[string]string{"bytes": mc.Hex(p.b), "what": p.what}
		pk, err := sr25519.NewPublicKeyFromBytes(lendAs("PublicKey.UnmarshalBinary", k0.rpk))
		if err != nil {
			w.Fail("PublicKey.UnmarshalBinary/valid", "reference public key rejected", cas)
			return
		}
		err = pk.UnmarshalBinary(lend(p.b))
		if (err == nil) != ok {
			w.Fail("PublicKey.UnmarshalBinary/"+class[10:], fmt.Sprintf("UnmarshalBinary(%x) [%s] err=%v, RFC 9496 decodes: %v", p.b, p.what, err, ok), cas)
			return
		}
		if ok {
			if !bytes.Equal(mustMarshal(pk), p.b) {
				w.Fail("PublicKey.MarshalBinary/roundtrip", fmt.Sprintf("marshal(unmarshal(%x)) = %x", p.b, mustMarshal(pk)), cas)
			}
			// the decoded key must be usable and must not accept a foreign signature
			rt := refsr.TranscriptBytes([]byte("ctx"), []byte("msg"))
			want := refsr.NewVerifier(p.b).Verify(rt, validSig)
			sig, _ := sr25519.NewSignatureFromBytes(lendAs("Signature.UnmarshalBinary", validSig))
			if got := pk.Verify(sr25519.NewSigningContext(lendAs("NewSigningContext", []byte("ctx"))).NewTranscriptBytes(lendAs("SigningContext.NewTranscriptBytes", []byte("msg"))), sig); got != want {
				w.Fail("PublicKey.Verify/structured-key", fmt.Sprintf("Verify under key %x = %v, reference %v", p.b, got, want), cas)
			}
		} else {
			if sr25519.VerifPublicKeyInitialised(pk) || !bytes.Equal(mustMarshal(pk), zeros(32)) {
				w.Fail("PublicKey.UnmarshalBinary/receiver-after-failure", fmt.Sprintf("receiver not reset after rejecting %x", p.b), cas)
			}
			sig, _ := sr25519.NewSignatureFromBytes(lendAs("Signature.UnmarshalBinary", validSig))
			if pk.Verify(sr25519.NewSigningContext(lendAs("NewSigningContext", []byte("ctx"))).NewTranscriptBytes(lendAs("SigningContext.NewTranscriptBytes", []byte("msg"))), sig) {
				w.Fail("PublicKey.UnmarshalBinary/receiver-after-failure", "receiver still verifies after a failed unmarshal", cas)
			}
		}
		if i%53 == 0 {
			w.Sample(map[string]string{"sub": "decode-pk", "bytes": mc.Hex(p.b), "what": p.what, "accept": fmt.Sprint(ok)})
		}
	})

	// ---- SecretKey: scalar (all 256 bits: bit 255 set or clear) x nonce
	nonces := [][]byte{zeros(32), bytes.Repeat([]byte{0xff}, 32), mc.Bytes(c.Seed, "c12-nonce", 0, 32)}
	prodK := mc.Product{Radix: []int{len(scalars), 2, len(nonces)}}
	c.Par("decode-sk", prodK.Size(), func(w *mc.W, i int) {
		var d [3]int
		prodK.Decode(i, d[:])
		kb := ref.LE32(scalars[d[0]])
		if d[1] == 1 {
			kb[31] |= 0x80
		}
		b := append(kb, nonces[d[2]]...)
		rsk, ok := refsr.DecodeSecretKey(b)
		class := map[bool]string{true: "decode-sk/accept", false: "decode-sk/reject"}[ok]
		counted := false
		defer guard(w, &counted, class, fmt.Sprintf("%x", b))
		w.Eval(class, !ok || scalars[d[0]].BitLen() > 251)
		counted = true
		cas := map[string]string{"bytes": mc.Hex(b)}
		prev := k0.rsk.Bytes()
		sk, err := sr25519.NewSecretKeyFromBytes(lendAs("SecretKey.UnmarshalBinary", prev))
		if err != nil {
			w.Fail("SecretKey.UnmarshalBinary/valid", "reference secret key rejected", cas)
			return
		}
		err = sk.UnmarshalBinary(lend(b))
		if (err == nil) != ok {
			w.Fail("SecretKey.UnmarshalBinary/"+class[10:], fmt.Sprintf("UnmarshalBinary(%x) err=%v, scalar < L: %v", b, err, ok), cas)
			return
		}
		if ok {
			if !bytes.Equal(mustMarshal(sk), b) {
				w.Fail("SecretKey.MarshalBinary/roundtrip", fmt.Sprintf("marshal(unmarshal(%x)) = %x", b, mustMarshal(sk)), cas)
			}
			if d[0]%16 == d[2] { // public key of structured scalars (0, 1, L-1, 2^252, ...)
				if got := mustMarshal(sk.PublicKey()); !bytes.Equal(got, rsk.PublicKey()) {
					w.Fail("SecretKey.PublicKey/structured", fmt.Sprintf("public key of scalar %x is %x, reference %x", kb, got, rsk.PublicKey()), cas)
				}
			}
		} else if !bytes.Equal(mustMarshal(sk), prev) {
			// SecretKey documents no reset: the receiver must then be exactly its previous value, never a mixture
			w.Fail("SecretKey.UnmarshalBinary/receiver-after-failure", fmt.Sprintf("receiver changed to %x by a failed unmarshal of %x", mustMarshal(sk), b), cas)
		}
	})

	// ---- KeyPair: secret half x public half
	type kpCase struct {
		b    []byte
		what string
	}
	var kps []kpCase
	core := alph.Scalars(c.Seed, true)
	if !c.Thorough {
		core = core[:30]
	}
	otherPK := e.keys[1].rpk
	for i, s := range core {
		if s.Cmp(ref.L) >= 0 {
			continue
		}
		rsk := refsr.SecretKey{Key: s}
		copy(rsk.Nonce[:], nonces[i%3])
		good := rsk.KeypairBytes()
		pkv := ref.FromLE(good[64:])
		kps = append(kps, kpCase{good, "consistent"})
		mk := func(pk []byte, what string) {
			kps = append(kps, kpCase{append(append([]byte{}, good[:64]...), pk...), what})
		}
		mk(otherPK, "public half of another key")
		mk(ref.LE32(new(big.Int).Sub(ref.P, pkv)), "public half negated (p - r)")
		hb := append([]byte{}, good[64:]...)
		hb[31] |= 0x80
		mk(hb, "public half with bit 255 set")
		mk(ref.RistrettoEncode(refsr.BaseTable.Mul(new(big.Int).Add(s, big.NewInt(1)))), "public half of scalar+1")
		mk(zeros(32), "public half = identity")
		// secret half non-canonical (s + L) with the matching public key
		if sl := new(big.Int).Add(s, ref.L); sl.BitLen() <= 256 {
			kps = append(kps, kpCase{append(append(ref.LE32(sl), good[32:64]...), good[64:]...), "secret scalar + L, matching public half"})
		}
		// a flipped nonce bit keeps the pair consistent
		nb := append([]byte{}, good...)
		nb[40] ^= 4
		kps = append(kps, kpCase{nb, "consistent, nonce bit flipped"})
	}
	for _, p := range points[:c.Pick(60, 200)] {
		kps = append(kps, kpCase{append(append([]byte{}, k0.rsk.Bytes()...), p.b...), "valid secret half, public half: " + p.what})
	}
	c.Rep.Extra["keypair_strings"] = len(kps)
	c.Par("decode-kp", len(kps), func(w *mc.W, i int) {
		b := kps[i].b
		_, ok := refsr.DecodeKeyPair(b)
		class := "decode-kp/accept"
		if !ok {
			_, okS := refsr.DecodeSecretKey(b[:64])
			_, okP := refsr.DecodePublicKey(b[64:])
			class = map[bool]string{true: "decode-kp/reject-mismatch", false: "decode-kp/reject-half"}[okS && okP]
		}
		counted := false
		defer guard(w, &counted, class, kps[i].what)
		w.Eval(class, true)
		counted = true
		cas := map[string]string{"bytes": mc.Hex(b), "what": kps[i].what}
		kp, err := sr25519.NewKeyPairFromBytes(lendAs("KeyPair.UnmarshalBinary", k0.rsk.KeypairBytes()))
		if err != nil {
			w.Fail("KeyPair.UnmarshalBinary/valid", "reference key pair rejected", cas)
			return
		}
		err = kp.UnmarshalBinary(lend(b))
		if (err == nil) != ok {
			w.Fail("KeyPair.UnmarshalBinary/"+class[10:], fmt.Sprintf("UnmarshalBinary(%x) [%s] err=%v, reference accepts: %v", b, kps[i].what, err, ok), cas)
			return
		}
		if ok {
			if !bytes.Equal(mustMarshal(kp), b) {
				w.Fail("KeyPair.MarshalBinary/roundtrip", fmt.Sprintf("marshal(unmarshal(%x)) = %x", b, mustMarshal(kp)), cas)
			}
			if !bytes.Equal(mustMarshal(kp.PublicKey()), b[64:]) || !bytes.Equal(mustMarshal(kp.SecretKey()), b[:64]) {
				w.Fail("KeyPair.UnmarshalBinary/halves", "accessors disagree with the decoded bytes", cas)
			}
		} else if sr25519.VerifKeyPairInitialised(kp) || kp.PublicKey() != nil || kp.SecretKey() != nil || !bytes.Equal(mustMarshal(kp), zeros(96)) {
			w.Fail("KeyPair.UnmarshalBinary/receiver-after-failure", fmt.Sprintf("receiver not reset after rejecting %x", b), cas)
		}
		if i%41 == 0 {
			w.Sample(map[string]string{"sub": "decode-kp", "what": kps[i].what, "accept": fmt.Sprint(ok)})
		}
	})

	// ---- lengths: every decoder on every length 0..130 (prefix / zero-extension of a valid encoding)
	valid := map[string][]byte{"Signature": validSig, "PublicKey": k0.rpk, "SecretKey": k0.rsk.Bytes(), "KeyPair": k0.rsk.KeypairBytes(), "MiniSecretKey": k0.mini}
	names := []string{"Signature", "PublicKey", "SecretKey", "KeyPair", "MiniSecretKey", "SecretKeyFromEd25519"}
	c.Par("lengths", len(names)*131, func(w *mc.W, i int) {
		name, n := names[i/131], i%131
		src := valid[name]
		if name == "SecretKeyFromEd25519" {
			h := sha512.Sum512(k0.mini)
			h[0] &= 248
			h[31] &= 63
			h[31] |= 64
			src = h[:]
		}
		b := zeros(n)
		copy(b, src)
		if n > len(src) && name == "Signature" {
			b[n-1] |= 128
		}
		counted := false
		defer guard(w, &counted, "lengths", fmt.Sprintf("%s with %d bytes", name, n))
		w.Eval("lengths", n != len(src))
		counted = true
		var err error
		switch name {
		case "Signature":
			_, err = sr25519.NewSignatureFromBytes(lendAs("Signature.UnmarshalBinary", b))
		case "PublicKey":
			_, err = sr25519.NewPublicKeyFromBytes(lendAs("PublicKey.UnmarshalBinary", b))
		case "SecretKey":
			_, err = sr25519.NewSecretKeyFromBytes(lendAs("SecretKey.UnmarshalBinary", b))
		case "KeyPair":
			_, err = sr25519.NewKeyPairFromBytes(lendAs("KeyPair.UnmarshalBinary", b))
		case "MiniSecretKey":
			_, err = sr25519.NewMiniSecretKeyFromBytes(lendAs("MiniSecretKey.UnmarshalBinary", b))
		case "SecretKeyFromEd25519":
			_, err = sr25519.NewSecretKeyFromEd25519Bytes(lendAs("NewSecretKeyFromEd25519Bytes", b))
		}
		if (err == nil) != (n == len(src)) {
			w.Fail(name+".UnmarshalBinary/length", fmt.Sprintf("%s decoder on %d bytes (valid size %d): err=%v", name, n, len(src), err), map[string]string{"bytes": mc.Hex(b)})
		}
	})

	// ---- NewTranscriptHash: only 256- and 512-bit digests; anything else is a documented panic
	hs := []struct {
		name string
		h    func() hash.Hash
		ok   bool
	}{{"sha1", sha1.New, false}, {"sha224", sha256.New224, false}, {"sha256", sha256.New, true}, {"sha384", sha512.New384, false},
		{"sha512", sha512.New, true}, {"sha512/224", sha512.New512_224, false}, {"sha512/256", sha512.New512_256, true}}
	c.Par("digest-size", len(hs), func(w *mc.W, i int) {
		w.Eval("digest-size", !hs[i].ok)
		panicked := func() (p bool) {
			defer func() { p = recover() != nil }()
			sr25519.NewSigningContext(lendAs("NewSigningContext", []byte("ctx"))).NewTranscriptHash(hs[i].h())
			return false
		}()
		if panicked == hs[i].ok {
			w.Fail("NewTranscriptHash/digest-size", fmt.Sprintf("NewTranscriptHash(%s): panicked=%v, documented: panic exactly for digest sizes other than 32 and 64", hs[i].name, panicked), nil)
		}
	})
	e.requires = append(e.requires, req{"decode-sig/accept", 40}, req{"decode-sig/reject-unmarked", 40}, req{"decode-sig/reject-scalar", 40},
		req{"decode-pk/accept", 12}, req{"decode-pk/reject", 20}, req{"decode-sk/accept", 40}, req{"decode-sk/reject", 40},
		req{"decode-kp/accept", 8}, req{"decode-kp/reject-mismatch", 8}, req{"decode-kp/reject-half", 8}, req{"lengths", 700}, req{"digest-size", 7})
}
