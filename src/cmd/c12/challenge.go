//go:build !verifmin

package main

import "github.com/oasisprotocol/curve25519-voi/primitives/sr25519"

// implChallenge reads the verifier's challenge scalar through the (fragile) hook.
func implChallenge(pk *sr25519.PublicKey, st *sr25519.SigningTranscript, sig *sr25519.Signature) ([]byte, bool) {
	return sr25519.VerifChallenge(pk, st, sig), true
}
