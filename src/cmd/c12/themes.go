package main

import (
	"bytes"
	"fmt"
	"math/big"

	"github.com/oasisprotocol/curve25519-voi/internal/verif/mc"
	"github.com/oasisprotocol/curve25519-voi/internal/verif/ref"
	"github.com/oasisprotocol/curve25519-voi/internal/verif/ref/refsr"
	"github.com/oasisprotocol/curve25519-voi/internal/verif/ref/refstrobe"
	"github.com/oasisprotocol/curve25519-voi/primitives/sr25519"
)

// Sub-spaces added by the audit against notes/THEMES.md (T1 caller memory, T2 state between calls,
// T4 complete length sweeps, T5 special values, T7 retry after a failed entropy read).

func (e *env) themeChecks() {
	e.callerMemoryChecks()
	e.lengthSweepChecks()
	e.digestSizeSweep()
	e.specialValueChecks()
	e.sharedContextChecks()
	e.handoutChecks()
}

// ---------------------------------------------------------------------------
// T1: caller memory.  Every byte-slice argument is a sub-slice of one larger caller buffer with guard bytes
// in front and (inside its spare capacity) behind; the call must not change a byte of it, the object must
// not keep a reference into it (scribbling over the buffer afterwards changes nothing), and a slice returned
// by MarshalBinary must be private to the caller.
// ---------------------------------------------------------------------------

const cmGuard = 0xc3

type cmBuf struct {
	buf      []byte
	off, n   int
	original []byte
}

func newCM(data []byte) *cmBuf {
	const g = 24
	b := &cmBuf{buf: bytes.Repeat([]byte{cmGuard}, len(data)+2*g), off: g, n: len(data)}
	copy(b.buf[g:], data)
	b.original = append([]byte{}, b.buf...)
	return b
}

// slice has spare capacity that covers the trailing guard.
func (b *cmBuf) slice() []byte   { return b.buf[b.off : b.off+b.n] }
func (b *cmBuf) unchanged() bool { return bytes.Equal(b.buf, b.original) }
func (b *cmBuf) scribble() {
	for i := range b.buf {
		b.buf[i] ^= 0x5a
	}
}

func (e *env) callerMemoryChecks() {
	c := e.c
	type cmCase struct {
		name string
		run  func(fail func(key, msg string))
	}
	var cases []cmCase
	add := func(name string, run func(fail func(key, msg string))) { cases = append(cases, cmCase{name, run}) }
	ctxB, msgB := []byte("caller memory ctx"), e.msgOf(200)
	for ki := 0; ki < len(e.keys) && ki < 4; ki++ {
		k := e.keys[ki]
		rt := refsr.TranscriptBytes(ctxB, msgB)
		sigB := refsr.Sign(k.rsk, k.rpk, rt, make([]byte, 32)).Sig
		// decoders: decode from a guarded sub-slice, scribble, the object must still hold the value
		type dec struct {
			name string
			enc  []byte
			mk   func(b []byte) (interface{ MarshalBinary() ([]byte, error) }, error)
		}
		for _, d := range []dec{
			{"SecretKey", k.rsk.Bytes(), func(b []byte) (interface{ MarshalBinary() ([]byte, error) }, error) {
				var x sr25519.SecretKey
				return &x, x.UnmarshalBinary(b)
			}},
			{"PublicKey", k.rpk, func(b []byte) (interface{ MarshalBinary() ([]byte, error) }, error) {
				var x sr25519.PublicKey
				return &x, x.UnmarshalBinary(b)
			}},
			{"KeyPair", k.rsk.KeypairBytes(), func(b []byte) (interface{ MarshalBinary() ([]byte, error) }, error) {
				var x sr25519.KeyPair
				return &x, x.UnmarshalBinary(b)
			}},
			{"Signature", sigB, func(b []byte) (interface{ MarshalBinary() ([]byte, error) }, error) {
				var x sr25519.Signature
				return &x, x.UnmarshalBinary(b)
			}},
			{"MiniSecretKey", k.mini, func(b []byte) (interface{ MarshalBinary() ([]byte, error) }, error) {
				var x sr25519.MiniSecretKey
				return &x, x.UnmarshalBinary(b)
			}},
		} {
			d := d
			add(fmt.Sprintf("%s.UnmarshalBinary / MarshalBinary, key %s", d.name, k.name), func(fail func(key, msg string)) {
				b := newCM(d.enc)
				obj, err := d.mk(b.slice())
				if err != nil {
					fail(d.name+".UnmarshalBinary/valid", "valid encoding rejected when passed as a sub-slice: "+err.Error())
					return
				}
				if !b.unchanged() {
					fail(d.name+".UnmarshalBinary/caller-memory", "UnmarshalBinary modified the caller's buffer (argument or guard bytes)")
				}
				b.scribble()
				m1 := mustMarshal(obj)
				if !bytes.Equal(m1, d.enc) {
					fail(d.name+".UnmarshalBinary/aliases-input", fmt.Sprintf("the object changed when the caller's buffer was overwritten after decoding: now %x, decoded %x", m1, d.enc))
				}
				for i := range m1 {
					m1[i] ^= 0xff
				}
				if m2 := mustMarshal(obj); !bytes.Equal(m2, d.enc) {
					fail(d.name+".MarshalBinary/aliases-output", "writing into the slice returned by MarshalBinary changed the object")
				}
				// an invalid encoding passed the same way: rejected, buffer untouched
				bad := append([]byte{}, d.enc...)
				bad = bad[:len(bad)-1]
				bb := newCM(bad)
				if _, err := d.mk(bb.slice()); err == nil || !bb.unchanged() {
					fail(d.name+".UnmarshalBinary/caller-memory", "short encoding passed as a sub-slice with spare capacity: accepted or buffer modified")
				}
			})
		}
		// an encoding followed, in the SAME buffer, by more valid-looking bytes: the decoder must look at len(), not cap()
		add("decoders with a second encoding in the spare capacity, key "+k.name, func(fail func(key, msg string)) {
			two := append(append([]byte{}, k.rpk...), e.keys[(ki+1)%len(e.keys)].rpk...)
			pk, err := sr25519.NewPublicKeyFromBytes(two[:32])
			if err != nil || !bytes.Equal(mustMarshal(pk), k.rpk) {
				fail("PublicKey.UnmarshalBinary/caller-memory", "decoding the first of two adjacent public keys failed")
			}
			kk := append(append([]byte{}, k.rsk.KeypairBytes()...), k.rsk.KeypairBytes()...)
			if _, err := sr25519.NewSecretKeyFromBytes(kk[:64]); err != nil {
				fail("SecretKey.UnmarshalBinary/caller-memory", "decoding a secret key that is the prefix of a key pair buffer failed")
			}
			if _, err := sr25519.NewKeyPairFromBytes(kk[:96]); err != nil {
				fail("KeyPair.UnmarshalBinary/caller-memory", "decoding the first of two adjacent key pairs failed")
			}
		})
		// context and message buffers
		for si, src := range e.srcs {
			src := src
			if si > 0 && ki > 0 {
				continue
			}
			add(fmt.Sprintf("NewSigningContext / transcript (%s), key %s", src.name, k.name), func(fail func(key, msg string)) {
				cb, mb := newCM(ctxB), newCM(msgB)
				sc := sr25519.NewSigningContext(cb.slice())
				if !cb.unchanged() {
					fail("NewSigningContext/caller-memory", "NewSigningContext modified the caller's context buffer")
				}
				cb.scribble() // the context object must not depend on the caller's buffer any more
				t := src.mk(sc, mb.slice())
				if !mb.unchanged() {
					fail("SigningContext.NewTranscript/caller-memory", "creating the transcript modified the caller's message buffer")
				}
				mb.scribble()
				want := refsr.Sign(k.rsk, k.rpk, refTranscript(src, ctxB, msgB), make([]byte, 32)).Sig
				s, err := k.kp.Sign(mkReader(rdZero), t)
				if err != nil || !bytes.Equal(mustMarshal(s), want) {
					fail("SigningContext/aliases-input", fmt.Sprintf("after the caller overwrote its context and message buffers the signature is not the reference signature for the ORIGINAL bytes (err=%v)", err))
				}
			})
		}
		// NewSecretKeyFromEd25519Bytes
		if k.ed {
			add("NewSecretKeyFromEd25519Bytes, key "+k.name, func(fail func(key, msg string)) {
				h := ref.SHA512(k.mini)
				h[0] &= 248
				h[31] &= 63
				h[31] |= 64
				b := newCM(h)
				sk, err := sr25519.NewSecretKeyFromEd25519Bytes(b.slice())
				if err != nil || !b.unchanged() {
					fail("NewSecretKeyFromEd25519Bytes/caller-memory", fmt.Sprintf("err=%v, buffer unchanged=%v", err, b.unchanged()))
					return
				}
				b.scribble()
				if !bytes.Equal(mustMarshal(sk), k.rsk.Bytes()) {
					fail("NewSecretKeyFromEd25519Bytes/aliases-input", "the key changed when the caller's buffer was overwritten")
				}
			})
		}
	}
	c.Par("caller-memory", len(cases), func(w *mc.W, i int) {
		counted := false
		defer guard(w, &counted, "caller-memory", cases[i].name)
		w.Eval("caller-memory", true)
		counted = true
		cases[i].run(func(key, msg string) { w.Fail(key, msg+" | "+cases[i].name, map[string]string{"case": cases[i].name}) })
	})
	e.requires = append(e.requires, req{"caller-memory", 20})
}

// ---------------------------------------------------------------------------
// T4: complete length sweeps.  The signing code appends its own framing behind the caller's transcript, so a
// block-boundary mistake shows at exactly one residue of (context length + message length) mod 166: sweep
// EVERY message length 0..400 (three contexts) and EVERY context length 0..400 (two messages) with full
// signing, every message length 0..300 for the hashed / XOF sources, and compare the Merlin state of the
// signing transcript for the cross product context 0..300 x message 0..300.
// ---------------------------------------------------------------------------

func (e *env) lengthSweepChecks() {
	c := e.c
	type lc struct {
		key      *keyInfo
		src      source
		ctx, msg int
	}
	var cases []lc
	nk := c.Pick(2, 4)
	if nk > len(e.keys) {
		nk = len(e.keys)
	}
	for ki := 0; ki < nk; ki++ {
		k := e.keys[(ki*3+1)%len(e.keys)]
		for m := 0; m <= 400; m++ {
			for _, cl := range []int{0, 1, 13} {
				cases = append(cases, lc{k, e.srcs[0], cl, m})
			}
		}
		for cl := 0; cl <= 400; cl++ {
			for _, m := range []int{0, 1} {
				cases = append(cases, lc{k, e.srcs[0], cl, m})
			}
		}
		if ki == 0 || c.Thorough {
			for _, src := range e.srcs[1:] {
				for m := 0; m <= 300; m++ {
					cases = append(cases, lc{k, src, (m * 7) % 41, m})
				}
			}
		}
	}
	c.Rep.Extra["sign_length_sweep_cases"] = len(cases)
	c.Par("sign-lengths", len(cases), func(w *mc.W, i int) {
		x := cases[i]
		sc := signCase{key: x.key, ctx: e.ctxOf(x.ctx), msg: e.msgOf(x.msg), src: x.src, rd: []int{rdZero, rdGeneric, rdFF}[i%3]}
		counted := false
		defer guard(w, &counted, "sign-lengths", sc.String())
		w.Eval("sign-lengths", x.ctx+x.msg > 0)
		counted = true
		e.signOne(w, sc, 0, false)
	})
	e.requires = append(e.requires, req{"sign-lengths", 4000})

	if !stateHook {
		return
	}
	// Merlin state of context + transcript for the cross product of lengths (no curve arithmetic: cheap)
	const maxLen = 300
	step := c.Pick(3, 1)
	c.Par("transcript-lengths", (maxLen+1)*(maxLen+1), func(w *mc.W, i int) {
		cl, ml := i/(maxLen+1), i%(maxLen+1)
		if (cl+ml)%step != 0 {
			return
		}
		what := fmt.Sprintf("context length %d, message length %d", cl, ml)
		counted := false
		defer guard(w, &counted, "transcript-lengths", what)
		w.Eval("transcript-lengths", true)
		counted = true
		ctx, msg := e.ctxOf(cl), e.msgOf(ml)
		st := sr25519.NewSigningContext(ctx).NewTranscriptBytes(msg)
		if !sameStrobe(sr25519.VerifTranscript(st), refsr.TranscriptBytes(ctx, msg)) {
			w.Fail("SigningContext/transcript", "Merlin state of NewSigningContext(ctx).NewTranscriptBytes(msg) differs from the reference | "+what, map[string]string{"case": what})
		}
	})
	e.requires = append(e.requires, req{"transcript-lengths", 30000})
}

// digestSizeSweep: NewTranscriptHash for EVERY digest size 0..130: documented panic for every size other than
// 32 and 64; for those two the transcript must commit exactly the digest under the right label.
func (e *env) digestSizeSweep() {
	c := e.c
	k := e.keys[0]
	c.Par("digest-sizes", 131, func(w *mc.W, n int) {
		what := fmt.Sprintf("digest size %d", n)
		counted := false
		defer guard(w, &counted, "digest-sizes", what)
		w.Eval("digest-sizes", n != 32 && n != 64)
		counted = true
		d := e.msgOf(n)
		ctx := []byte("digest sizes")
		var st *sr25519.SigningTranscript
		panicked := func() (p bool) {
			defer func() { p = recover() != nil }()
			st = sr25519.NewSigningContext(ctx).NewTranscriptHash(fixedHash(d))
			return false
		}()
		ok := n == 32 || n == 64
		if panicked == ok {
			w.Fail("NewTranscriptHash/digest-size", fmt.Sprintf("NewTranscriptHash with a %d-byte digest: panicked=%v (documented: panic exactly for sizes other than 32 and 64)", n, panicked), nil)
			return
		}
		if !ok {
			return
		}
		rt := refsr.TranscriptPrehashed(ctx, map[int]string{32: "sign-256", 64: "sign-512"}[n], d)
		if !sameStrobe(sr25519.VerifTranscript(st), rt) {
			w.Fail("SigningContext/transcript", "Merlin state after NewTranscriptHash differs from the reference | "+what, nil)
		}
		want := refsr.Sign(k.rsk, k.rpk, rt, make([]byte, 32)).Sig
		if s, err := k.kp.Sign(mkReader(rdZero), st); err != nil || !bytes.Equal(mustMarshal(s), want) {
			w.Fail("KeyPair.Sign/bytes", "signature over a pre-hashed transcript differs from the reference | "+what, nil)
		}
	})
	e.requires = append(e.requires, req{"digest-sizes", 131})
}

// ---------------------------------------------------------------------------
// T5: special values.  Secret scalars 0, 1, L-1 (public key = identity, B, -B); the signature (R = identity,
// s = 0), which satisfies the verification equation for the identity public key on ANY transcript and for no
// other key; the same entries at index 0 of a batch.  Expected verdicts are the reference's.
// ---------------------------------------------------------------------------

func (e *env) specialValueChecks() {
	c := e.c
	scalars := []*big.Int{big.NewInt(0), big.NewInt(1), big.NewInt(2), new(big.Int).Sub(ref.L, big.NewInt(1)), new(big.Int).Sub(ref.L, big.NewInt(2)),
		new(big.Int).Lsh(big.NewInt(1), 252), new(big.Int).Rsh(ref.L, 1)}
	ctx, msg := []byte(""), []byte("")
	mkZeroSig := func() []byte { // a private copy per use: R = identity (all-zero encoding), s = 0, marker set
		z := make([]byte, 64)
		z[63] = 128
		return z
	}
	c.Par("special-values", len(scalars)*len(e.srcs), func(w *mc.W, i int) {
		sv, src := scalars[i/len(e.srcs)], e.srcs[i%len(e.srcs)]
		what := fmt.Sprintf("secret scalar %s, source %s, empty context and message", sv.Text(16), src.name)
		counted := false
		defer guard(w, &counted, "special-values", what)
		w.Eval("special-values", true)
		counted = true
		cas := map[string]string{"case": what}
		rsk := refsr.SecretKey{Key: sv}
		copy(rsk.Nonce[:], e.msgOf(32))
		kp, err := sr25519.NewKeyPairFromBytes(rsk.KeypairBytes())
		if err != nil {
			w.Fail("KeyPair.UnmarshalBinary/accept", "consistent key pair with a special scalar rejected: "+err.Error()+" | "+what, cas)
			return
		}
		rpk := rsk.PublicKey()
		ver := refsr.NewVerifier(rpk)
		rt := refTranscript(src, ctx, msg)
		// reference-side self-check first, on private bytes, before any library call of this case
		wantZ := ver.Verify(rt, mkZeroSig()) // true exactly for the identity public key
		if wantZ != (sv.Sign() == 0) {
			c.Broken("reference verdict on the zero signature is not as derived")
			return
		}
		st := src.mk(sr25519.NewSigningContext(lendAs("NewSigningContext", ctx)), lendAs("message", msg))
		want := refsr.Sign(rsk, rpk, rt, make([]byte, 32))
		s, err := kp.Sign(mkReader(rdZero), st)
		if err != nil || !bytes.Equal(mustMarshal(s), want.Sig) {
			w.Fail("KeyPair.Sign/bytes", fmt.Sprintf("signature differs from the reference (err=%v) | %s", err, what), cas)
			return
		}
		if !ver.Verify(rt, want.Sig) {
			c.Broken("reference rejects its own signature for a special scalar")
			return
		}
		if !kp.PublicKey().Verify(st, s) {
			w.Fail("PublicKey.Verify/complete", "own signature does not verify | "+what, cas)
		}
		// the all-zero signature (R = identity, s = 0) and the genuine one, singly and in batches in both orders
		z, err := sr25519.NewSignatureFromBytes(lendAs("Signature.UnmarshalBinary", mkZeroSig()))
		if err != nil {
			w.Fail("Signature.UnmarshalBinary/accept", "R = identity, s = 0 with the marker set is a well-formed signature", cas)
			return
		}
		if got := kp.PublicKey().Verify(st, z); got != wantZ {
			w.Fail("PublicKey.Verify/zero-signature", fmt.Sprintf("Verify(R = identity, s = 0) = %v, verification equation gives %v | %s", got, wantZ, what), cas)
		}
		for _, order := range [][2]*sr25519.Signature{{z, s}, {s, z}} {
			bv := sr25519.NewBatchVerifier()
			bv.Add(kp.PublicKey(), st, order[0])
			bv.Add(kp.PublicKey(), st, order[1])
			wantEach := []bool{wantZ, true}
			if order[0] == s {
				wantEach = []bool{true, wantZ}
			}
			all, each := bv.Verify(mkReader(rdGeneric))
			if all != wantZ || len(each) != 2 || each[0] != wantEach[0] || each[1] != wantEach[1] {
				w.Fail("BatchVerifier.Verify/zero-signature", fmt.Sprintf("batch verdicts (%v, %v), single verification gives (%v, %v) | %s", all, each, wantZ, wantEach, what), cas)
			}
			if got := bv.VerifyBatchOnly(mkReader(rdZero)); got != wantZ {
				w.Fail("BatchVerifier.VerifyBatchOnly/zero-signature", fmt.Sprintf("VerifyBatchOnly = %v, single verification gives %v | %s", got, wantZ, what), cas)
			}
		}
	})
	e.requires = append(e.requires, req{"special-values", 30})
}

// ---------------------------------------------------------------------------
// T2 / T7: state between calls.  ONE context and ONE transcript object shared by two keys in the order
// [a; b; a]; the same label / context bytes under different sources back to back; a key pair and transcript
// that first saw a FAILED signing attempt (entropy source failing) and are then used again.
// ---------------------------------------------------------------------------

func (e *env) sharedContextChecks() {
	c := e.c
	prod := mc.Product{Radix: []int{len(e.keys), len(e.srcs), len(e.srcs)}}
	c.Par("shared-context", prod.Size(), func(w *mc.W, i int) {
		var d [3]int
		prod.Decode(i, d[:])
		ka, kb := e.keys[d[0]], e.keys[(d[0]+1)%len(e.keys)]
		s1, s2 := e.srcs[d[1]], e.srcs[d[2]]
		ctx, msg := e.ctxOf(20), e.msgOf(64)
		what := fmt.Sprintf("keys %s / %s, sources %s then %s, one context", ka.name, kb.name, s1.name, s2.name)
		counted := false
		defer guard(w, &counted, "shared-context", what)
		w.Eval("shared-context", true)
		counted = true
		cas := map[string]string{"case": what}
		sc := sr25519.NewSigningContext(ctx)
		// the SAME message bytes under two sources from the same context, back to back
		t1, t2 := s1.mk(sc, msg), s2.mk(sc, msg)
		r1, r2 := refTranscript(s1, ctx, msg), refTranscript(s2, ctx, msg)
		// a failed attempt first: it must leave nothing behind in the key pair or the transcript (T7)
		if s, err := ka.kp.Sign(mkReader(rdFail), t1); err == nil || s != nil {
			w.Fail("KeyPair.Sign/failing-reader", "Sign with a failing entropy source returned a signature | "+what, cas)
		}
		step := 0
		sign := func(k *keyInfo, t *sr25519.SigningTranscript, rt *refstrobe.Transcript, rd int) {
			step++
			want := refsr.Sign(k.rsk, k.rpk, rt, stream(rd, 32)).Sig
			s, err := k.kp.Sign(mkReader(rd), t)
			if err != nil || !bytes.Equal(mustMarshal(s), want) {
				w.Fail("SigningContext/shared", fmt.Sprintf("step %d: signature by %s differs from the reference (err=%v) | %s", step, k.name, err, what), cas)
				return
			}
			if !k.pk.Verify(t, s) {
				w.Fail("SigningContext/shared", fmt.Sprintf("step %d: signature by %s does not verify | %s", step, k.name, what), cas)
			}
			other := ka
			if k == ka {
				other = kb
			}
			if other.pk.Verify(t, s) {
				w.Fail("PublicKey.Verify/accepts-key", fmt.Sprintf("step %d: signature verifies under the other key | %s", step, what), cas)
			}
		}
		// [a; b; a] on one transcript, then the other transcript, then the first again with other entropy
		sign(ka, t1, r1, rdZero)
		sign(kb, t1, r1, rdZero)
		sign(ka, t1, r1, rdZero)
		sign(kb, t2, r2, rdGeneric)
		sign(ka, t2, r2, rdGeneric)
		sign(ka, t1, r1, rdFF)
	})
	e.requires = append(e.requires, req{"shared-context", 100})
}
