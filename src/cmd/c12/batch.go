package main

import (
	"bytes"
	"crypto/sha256"
	"fmt"
	"io"
	"math/big"
	"sort"
	"strings"
	"sync"
	"sync/atomic"

	"github.com/oasisprotocol/curve25519-voi/internal/verif/mc"
	"github.com/oasisprotocol/curve25519-voi/internal/verif/ref"
	"github.com/oasisprotocol/curve25519-voi/internal/verif/ref/refsr"
	"github.com/oasisprotocol/curve25519-voi/internal/verif/ref/refstrobe"
	"github.com/oasisprotocol/curve25519-voi/primitives/sr25519"
)

// A pool entry is one (public key, transcript, signature) triple that can be added to a batch.
type poolEntry struct {
	name string
	pk   *sr25519.PublicKey
	st   *sr25519.SigningTranscript
	sig  *sr25519.Signature
	// reference side
	wellFormed bool   // key and signature initialised and R decodes (the entry "can be valid")
	valid      bool   // reference verdict of single verification
	hram       []byte // reference challenge scalar
	s          []byte
	witness    []byte // reference delinearisation bytes: transcript rng (no rekey, zero entropy), 16 bytes
	pkB, rB    []byte
	sigB       []byte // reference signature bytes (pool encodings are derived from these, never from the tree under test)
}

const (
	eValid1 = iota
	eValid2
	eWrongMessage
	eWrongKey
	eMutatedS
	eBadR
	eUninitKey
	eUninitSig
	eCancelS
	nEntryKinds
)

// batch operations
const (
	bAdd0       = 0 // .. bAdd0+nEntryKinds-1
	bReset      = nEntryKinds
	bVerifyZero = nEntryKinds + 1
	bVerifyGen  = nEntryKinds + 2
	bOnlyZero   = nEntryKinds + 3
	bOnlyGen    = nEntryKinds + 4
	nBatchOps   = nEntryKinds + 5
	// used by the size sweep only (not members of the history alphabet): nil reader = crypto/rand, the documented default (T12)
	bVerifyNil = nBatchOps
	bOnlyNil   = nBatchOps + 1
)

func (e *env) batchOpName(pool []*poolEntry, o int) string {
	switch {
	case o < nEntryKinds:
		return "Add(" + pool[o].name + ")"
	case o == bReset:
		return "Reset"
	case o == bVerifyZero:
		return "Verify(zero reader)"
	case o == bVerifyGen:
		return "Verify(generic reader)"
	case o == bOnlyZero:
		return "VerifyBatchOnly(zero reader)"
	}
	return "VerifyBatchOnly(generic reader)"
}

// buildPool signs with the implementation (bytes were compared with the reference in "sign"; here
// they are compared again) and derives every reference-side expectation.
func (e *env) buildPool(nValid int) (pool []*poolEntry, valids []*poolEntry, problems [][2]string) {
	defer func() {
		if r := recover(); r != nil {
			pool, valids = nil, nil
			problems = append(problems, [2]string{"sr25519/panic", fmt.Sprintf("panic while building the batch pool: %v", r)})
		}
	}()
	mk := func(name string, k *keyInfo, src source, ctx, msg []byte, rd int) *poolEntry {
		st := src.mk(sr25519.NewSigningContext(lendAs("NewSigningContext", ctx)), msg)
		rt := refTranscript(src, ctx, msg)
		want := refsr.Sign(k.rsk, k.rpk, rt, stream(rd, 32))
		sig, err := k.kp.Sign(mkReader(rd), st)
		if err != nil || !bytes.Equal(mustMarshal(sig), want.Sig) {
			problems = append(problems, [2]string{"KeyPair.Sign/bytes", "pool signature differs from the reference: " + name})
			sig, _ = sr25519.NewSignatureFromBytes(lendAs("Signature.UnmarshalBinary", want.Sig))
		}
		p := &poolEntry{name: name, pk: k.pk, st: st, sig: sig, wellFormed: true, valid: true, sigB: want.Sig}
		e.fillRef(p, k.ver, rt, want.Sig)
		return p
	}
	k1, k2 := e.keys[0], e.keys[len(e.keys)-1]
	v1 := mk("valid#1", k1, e.srcs[0], []byte("batch ctx"), []byte("message one"), rdZero)
	v2 := mk("valid#2", k2, e.srcs[1], []byte(""), e.msgOf(200), rdGeneric)
	pool = make([]*poolEntry, nEntryKinds)
	pool[eValid1], pool[eValid2] = v1, v2
	// wrong message: v1's key and signature on another transcript
	wm := &poolEntry{name: "wrong message", pk: k1.pk, sig: v1.sig, wellFormed: true}
	wm.st = e.srcs[0].mk(sr25519.NewSigningContext(lendAs("NewSigningContext", []byte("batch ctx"))), []byte("message two"))
	e.fillRef(wm, k1.ver, refTranscript(e.srcs[0], []byte("batch ctx"), []byte("message two")), v1.sigB)
	pool[eWrongMessage] = wm
	// wrong key
	wk := &poolEntry{name: "wrong key", pk: k2.pk, sig: v1.sig, st: v1.st, wellFormed: true}
	e.fillRef(wk, k2.ver, refTranscript(e.srcs[0], []byte("batch ctx"), []byte("message one")), v1.sigB)
	pool[eWrongKey] = wk
	// mutated signature scalar (still canonical and marked)
	sb := v1.sigB
	ms := append([]byte{}, sb...)
	ms[32] ^= 1
	if _, _, ok := refsr.DecodeSignature(ms); !ok {
		ms[32] ^= 3
	}
	msig, err := sr25519.NewSignatureFromBytes(lendAs("Signature.UnmarshalBinary", ms))
	if err != nil {
		problems = append(problems, [2]string{"Signature.UnmarshalBinary/accept", "canonical mutated signature rejected"})
		msig = v1.sig
	}
	mu := &poolEntry{name: "mutated s", pk: k1.pk, sig: msig, st: v1.st, wellFormed: true}
	e.fillRef(mu, k1.ver, refTranscript(e.srcs[0], []byte("batch ctx"), []byte("message one")), ms)
	pool[eMutatedS] = mu
	// R that is not a ristretto encoding (decoder accepts the signature, verification must not)
	br := append([]byte{}, sb...)
	copy(br[:32], ref.LE32(ref.FSub(ref.P, ref.FromLE(sb[:32]))))
	bsig, err := sr25519.NewSignatureFromBytes(lendAs("Signature.UnmarshalBinary", br))
	if err != nil {
		problems = append(problems, [2]string{"Signature.UnmarshalBinary/accept", "signature with an undecodable R must be accepted by the decoder (R is decompressed lazily)"})
		bsig = &sr25519.Signature{}
	}
	pool[eBadR] = &poolEntry{name: "non-canonical R", pk: k1.pk, sig: bsig, st: v1.st}
	pool[eUninitKey] = &poolEntry{name: "uninitialised key", pk: &sr25519.PublicKey{}, sig: v1.sig, st: v1.st}
	pool[eUninitSig] = &poolEntry{name: "uninitialised signature", pk: k1.pk, sig: &sr25519.Signature{}, st: v1.st}
	// the partner of "mutated s": valid#2 with its scalar moved by one in the OPPOSITE direction, so that the
	// two errors cancel in an unweighted sum - only independent delinearisation coefficients reject the pair
	// (added after the seeded change C12-2, a transcript RNG that never advances, passed every batch history)
	{
		sb2 := v2.sigB
		cs := append([]byte{}, sb2...)
		sv := append([]byte{}, cs[32:]...)
		sv[31] &= 0x7f
		x := ref.FromLE(sv)
		if ms[32]&1 == 1 { // "mutated s" is s+1 -> partner is s-1
			x = ref.SSub(x, big.NewInt(1))
		} else {
			x = ref.SAdd(x, big.NewInt(1))
		}
		copy(cs[32:], ref.LE32(x))
		cs[63] |= 0x80
		csig, err := sr25519.NewSignatureFromBytes(lendAs("Signature.UnmarshalBinary", cs))
		if err != nil {
			problems = append(problems, [2]string{"Signature.UnmarshalBinary/accept", "canonical cancelling signature rejected"})
			csig = v2.sig
		}
		cp := &poolEntry{name: "cancelling s (partner of mutated s)", pk: k2.pk, sig: csig, st: v2.st, wellFormed: true}
		e.fillRef(cp, k2.ver, refTranscript(e.srcs[1], []byte(""), e.msgOf(200)), cs)
		pool[eCancelS] = cp
	}
	// distinct valid entries for the size sweep
	valids = []*poolEntry{v1, v2}
	for i := 2; i < nValid; i++ {
		k := e.keys[i%len(e.keys)]
		valids = append(valids, mk(fmt.Sprintf("valid#%d", i+1), k, e.srcs[i%len(e.srcs)], e.ctxOf(i), e.msgOf(7*i), []int{rdZero, rdFF, rdGeneric}[i%3]))
	}
	return pool, valids, problems
}

func (e *env) fillRef(p *poolEntry, ver *refsr.Verifier, rt *refstrobe.Transcript, sig []byte) {
	p.valid = ver.Verify(rt, sig)
	p.pkB = ver.PK
	p.rB = append([]byte{}, sig[:32]...)
	p.hram = ref.LE32(refsr.Challenge(rt, ver.PK, sig[:32]))
	s := append([]byte{}, sig[32:]...)
	s[31] &= 127
	p.s = s
	p.witness = rt.BuildRng().Finalize(make([]byte, 32)).FillBytes(16)
}

// model of the batch verifier
type batchModel struct{ entries []*poolEntry }

func (m *batchModel) anyInvalid() bool {
	for _, p := range m.entries {
		if !p.wellFormed {
			return true
		}
	}
	return false
}

func (m *batchModel) verdicts() (all bool, each []bool) {
	if len(m.entries) == 0 {
		return false, nil
	}
	all = true
	for _, p := range m.entries {
		each = append(each, p.valid)
		all = all && p.valid
	}
	return all, each
}

type batchAcct struct{ states, transitions, traces int64 }

// checkState compares every field of the real verifier with the model (through the hook) and returns a digest.
func checkState(bv *sr25519.BatchVerifier, m *batchModel, fail func(key, msg string)) [32]byte {
	ents, anyInv, missing, ok := sr25519.VerifBatchState(bv)
	h := sha256.New()
	if !ok {
		noteBatchHook(missing)
		return [32]byte{}
	}
	miss := map[string]bool{}
	for _, n := range missing {
		miss[n] = true
	}
	if len(missing) > 0 {
		noteBatchHook(missing)
	}
	if len(ents) != len(m.entries) {
		fail("BatchVerifier/state", fmt.Sprintf("%d entries in the real object, %d in the model", len(ents), len(m.entries)))
		return [32]byte{}
	}
	if !miss["anyInvalid"] && anyInv != m.anyInvalid() {
		fail("BatchVerifier/state", fmt.Sprintf("anyInvalid=%v, model %v", anyInv, m.anyInvalid()))
	}
	fmt.Fprint(h, anyInv)
	for i, en := range ents {
		p := m.entries[i]
		if !miss["canBeValid"] && en.CanBeValid != p.wellFormed {
			fail("BatchVerifier/state", fmt.Sprintf("entry %d (%s): canBeValid=%v, model %v", i, p.name, en.CanBeValid, p.wellFormed))
		}
		if en.CanBeValid && p.wellFormed {
			eq := func(name string, got, want []byte) bool { return miss[name] || bytes.Equal(got, want) }
			if !eq("hram", en.Hram[:], p.hram) {
				fail("BatchVerifier/entry-challenge", fmt.Sprintf("entry %d (%s): challenge %x, reference %x", i, p.name, en.Hram, p.hram))
			}
			if !eq("S", en.S[:], p.s) || !eq("R", en.R[:], p.rB) || !eq("A", en.A[:], p.pkB) || !eq("witnessA", en.WitnessA[:], p.pkB) || !eq("witnessR", en.WitnessR[:], p.rB) {
				fail("BatchVerifier/entry-fields", fmt.Sprintf("entry %d (%s): stored R/A/S differ from the added triple", i, p.name))
			}
			if !eq("witnessBytes", en.WitnessBytes[:], p.witness) {
				fail("BatchVerifier/entry-delinearisation", fmt.Sprintf("entry %d (%s): transcript witness bytes %x, reference %x", i, p.name, en.WitnessBytes, p.witness))
			}
		}
		fmt.Fprintf(h, "|%v%x%x%x%x%x", en.CanBeValid, en.R, en.A, en.S, en.Hram, en.WitnessBytes)
	}
	var d [32]byte
	copy(d[:], h.Sum(nil))
	return d
}

// noteBatchHook remembers which batch-verifier fields can no longer be read from this tree; the run is
// then reported as capped (never as broken): the public results of Verify / VerifyBatchOnly are still compared.
var (
	batchHookMu      sync.Mutex
	batchHookMissing = map[string]bool{}
)

func noteBatchHook(missing []string) {
	batchHookMu.Lock()
	for _, n := range missing {
		batchHookMissing[n] = true
	}
	batchHookMu.Unlock()
}

func (e *env) batchChecks() {
	c := e.c
	defer func() {
		if len(batchHookMissing) > 0 {
			var n []string
			for k := range batchHookMissing {
				n = append(n, k)
			}
			sort.Strings(n)
			c.Cap("batch-verifier fields that can no longer be read from this tree (comparison skipped): " + strings.Join(n, ","))
		}
	}()
	pool, valids, problems := e.buildPool(8)
	c.Seq("batch-pool", 1, func(w *mc.W, i int) {
		counted := false
		defer guard(w, &counted, "batch-pool", "pool construction")
		w.Eval("batch-pool", true)
		counted = true
		for _, p := range problems {
			w.Fail(p[0], p[1], nil)
		}
		// single verification of every pool entry: implementation == reference
		for _, p := range append(append([]*poolEntry{}, pool...), valids...) {
			if got := p.pk.Verify(p.st, p.sig); got != p.valid {
				w.Fail("PublicKey.Verify/pool", fmt.Sprintf("single verification of pool entry %q = %v, reference %v", p.name, got, p.valid), nil)
			}
		}
	})
	if pool == nil {
		return // the violation was recorded above
	}
	if !pool[eValid1].valid || !pool[eValid2].valid || pool[eWrongMessage].valid || pool[eWrongKey].valid || pool[eMutatedS].valid {
		c.Broken("batch pool: reference verdicts are not as constructed")
		return
	}

	// ---- histories: all sequences of length <= depth over the 13 operations
	depth := c.Pick(3, 4)
	total, offs := 0, []int{}
	for d, n := 0, 1; d <= depth; d++ {
		offs = append(offs, total)
		total += n
		n *= nBatchOps
	}
	acct := &batchAcct{}
	seen := newDigestSet()
	c.Par("batch-hist", total, func(w *mc.W, i int) {
		d := 0
		for d+1 < len(offs) && i >= offs[d+1] {
			d++
		}
		j := i - offs[d]
		ops := make([]int, d)
		for k := d - 1; k >= 0; k-- {
			ops[k] = j % nBatchOps
			j /= nBatchOps
		}
		var names []string
		for _, o := range ops {
			names = append(names, e.batchOpName(pool, o))
		}
		hist := strings.Join(names, "; ")
		// reference-side class: does the history contain a verification of a non-empty batch, and its verdict
		class := "batch-hist/no-verification"
		{
			n, ok := 0, true
			for _, o := range ops {
				switch {
				case o < nEntryKinds:
					n++
					ok = ok && pool[o].valid
				case o == bReset:
					n, ok = 0, true
				default:
					if n > 0 {
						class = map[bool]string{true: "batch-hist/verify-true", false: "batch-hist/verify-false"}[ok]
					}
				}
			}
		}
		counted := false
		defer guard(w, &counted, class, hist)
		w.Eval(class, class != "batch-hist/no-verification")
		counted = true
		cas := map[string]string{"history": hist}
		fail := func(key, msg string) { w.Fail(key, msg+" | history: "+hist, cas) }
		var bv *sr25519.BatchVerifier
		if i%2 == 0 {
			bv = sr25519.NewBatchVerifier()
		} else {
			bv = sr25519.NewBatchVerifierWithCapacity(2)
		}
		m := &batchModel{}
		seen.add(checkState(bv, m, fail))
		for _, o := range ops {
			e.applyBatchOp(bv, m, pool, o, fail)
			seen.add(checkState(bv, m, fail))
			atomic.AddInt64(&acct.transitions, 1)
		}
		atomic.AddInt64(&acct.traces, 1)
		if i%2003 == 0 {
			w.Sample(map[string]string{"sub": "batch-hist", "history": hist})
		}
	})

	// ---- sizes on both sides of the multiscalar thresholds (2n+1 terms: 189/191 at n = 94/95, 501 at n = 250)
	// (T14) the Straus -> Pippenger switch (190 terms, n = 95) is crossed from both sides in EVERY configuration
	// (the generic Pippenger only runs without AVX2), with valid batches and with ONE invalid member that lies
	// beyond the threshold (index 95, last) or before it, incl. the pair whose errors cancel in an unweighted sum.
	sizes := []int{0, 1, 2, 93, 94, 95, 96, 97, 128, 249, 250} // 249 / 250: 499 / 501 terms (Pippenger window switch)
	patterns := []string{"all-valid", "bad-first", "bad-last", "wrong-key-middle", "uninit-sig-middle", "bad-R-last", "bad-at-94", "bad-at-95", "mutated-s-at-95", "cancelling-pair-across-95"}
	c.Par("batch-size", len(sizes)*len(patterns), func(w *mc.W, i int) {
		n, pat := sizes[i/len(patterns)], patterns[i%len(patterns)]
		what := fmt.Sprintf("size %d pattern %s", n, pat)
		if n == 249 && pat != "all-valid" && pat != "bad-last" && pat != "mutated-s-at-95" {
			return // the lower side of the window switch with three patterns only (cost)
		}
		// the members first (reference side), then the class, then the implementation
		var members []*poolEntry
		allValid := n > 0
		for k := 0; k < n; k++ {
			p := valids[k%len(valids)]
			switch {
			case pat == "bad-first" && k == 0, pat == "bad-last" && k == n-1:
				p = pool[eWrongMessage]
			case pat == "wrong-key-middle" && k == n/2:
				p = pool[eWrongKey]
			case pat == "uninit-sig-middle" && k == n/2:
				p = pool[eUninitSig]
			case pat == "bad-R-last" && k == n-1:
				p = pool[eBadR]
			case pat == "bad-at-94" && k == 94, pat == "bad-at-95" && k == 95:
				p = pool[eWrongMessage]
			case pat == "mutated-s-at-95" && k == 95:
				p = pool[eMutatedS]
			case pat == "cancelling-pair-across-95" && n > 95 && k == 1:
				p = pool[eMutatedS]
			case pat == "cancelling-pair-across-95" && n > 95 && k == n-1:
				p = pool[eCancelS]
			}
			members = append(members, p)
			allValid = allValid && p.valid
		}
		class := "batch-size/" + map[bool]string{true: "all-valid", false: "with-invalid"}[allValid]
		if n >= 95 {
			class += "-pippenger-sized"
		}
		counted := false
		defer guard(w, &counted, class, what)
		w.Eval(class, n > 2)
		counted = true
		fail := func(key, msg string) { w.Fail(key, msg+" | "+what, map[string]string{"case": what}) }
		bv := sr25519.NewBatchVerifierWithCapacity(n)
		m := &batchModel{}
		for _, p := range members {
			bv.Add(p.pk, p.st, p.sig)
			m.entries = append(m.entries, p)
		}
		checkState(bv, m, fail)
		ops := []int{bVerifyGen, bOnlyGen, bVerifyZero, bOnlyZero, bVerifyNil, bOnlyNil, bReset, bOnlyZero, bAdd0 + eValid2, bVerifyGen, bOnlyGen}
		if n >= 128 { // a Verify of an invalid batch falls back to n single verifications: fewer of them for the big sizes
			ops = []int{bVerifyGen, bOnlyZero, bOnlyNil, bReset, bOnlyZero, bAdd0 + eValid2, bVerifyGen}
		} else if n >= 93 {
			ops = []int{bVerifyGen, bOnlyGen, bOnlyZero, bVerifyNil, bOnlyNil, bReset, bOnlyZero, bAdd0 + eValid2, bVerifyGen, bOnlyGen}
		}
		for _, o := range ops {
			e.applyBatchOp(bv, m, pool, o, fail)
			checkState(bv, m, fail)
		}
	})
	e.requires = append(e.requires, req{"batch-hist/verify-true", 100}, req{"batch-hist/verify-false", 100}, req{"batch-size/all-valid", 5}, req{"batch-size/all-valid-pippenger-sized", 6}, req{"batch-size/with-invalid-pippenger-sized", 30})
	c.Rep.Extra["batch_histories"] = map[string]int64{"histories": acct.traces, "operation_steps": acct.transitions, "distinct_states": seen.size()}
}

func (e *env) applyBatchOp(bv *sr25519.BatchVerifier, m *batchModel, pool []*poolEntry, o int, fail func(key, msg string)) {
	switch {
	case o < nEntryKinds:
		p := pool[o]
		bv.Add(p.pk, p.st, p.sig)
		m.entries = append(m.entries, p)
	case o == bReset:
		if bv.Reset() != bv {
			fail("BatchVerifier.Reset/return", "Reset did not return its receiver")
		}
		m.entries = nil
	case o == bVerifyZero, o == bVerifyGen, o == bVerifyNil:
		var rdr io.Reader = mkReader(rdZero)
		switch o {
		case bVerifyGen:
			rdr = mkReader(rdGeneric)
		case bVerifyNil:
			rdr = nil // documented default: crypto/rand (only the verdicts are compared)
		}
		before, _, _, _ := sr25519.VerifBatchState(bv)
		all, each := bv.Verify(rdr)
		wantAll, wantEach := m.verdicts()
		if all != wantAll {
			fail("BatchVerifier.Verify/summary", fmt.Sprintf("Verify returned %v, single verification of the entries gives %v", all, wantAll))
		}
		if len(each) != len(wantEach) {
			fail("BatchVerifier.Verify/vector-length", fmt.Sprintf("Verify returned %d per-entry results for %d entries", len(each), len(wantEach)))
		} else {
			for k := range each {
				if each[k] != wantEach[k] {
					fail("BatchVerifier.Verify/per-entry", fmt.Sprintf("entry %d (%s): batch says %v, single verification says %v", k, m.entries[k].name, each[k], wantEach[k]))
					break
				}
			}
		}
		after, _, _, _ := sr25519.VerifBatchState(bv)
		if fmt.Sprint(before) != fmt.Sprint(after) {
			fail("BatchVerifier.Verify/mutates", "Verify modified the batch")
		}
		// (T11) the result vector belongs to the caller: overwriting it must not influence the verifier
		if len(each) > 0 && len(each) <= 4 {
			for k := range each {
				each[k] = !each[k]
			}
			if all2, each2 := bv.Verify(mkReader(rdZero)); all2 != wantAll || len(each2) != len(wantEach) || (len(each2) > 0 && each2[0] != wantEach[0]) {
				fail("BatchVerifier.Verify/handed-out", "overwriting the per-entry result slice returned by Verify changed the next Verify")
			}
		}
	default:
		var rdr io.Reader = mkReader(rdZero)
		switch o {
		case bOnlyGen:
			rdr = mkReader(rdGeneric)
		case bOnlyNil:
			rdr = nil
		}
		got := bv.VerifyBatchOnly(rdr)
		wantAll, _ := m.verdicts()
		if got != wantAll {
			fail("BatchVerifier.VerifyBatchOnly", fmt.Sprintf("VerifyBatchOnly returned %v, single verification of the entries gives %v", got, wantAll))
		}
	}
}

// digestSet is a concurrent set of state digests.
type digestSet struct {
	mu sync.Mutex
	m  map[[32]byte]struct{}
}

func newDigestSet() *digestSet { return &digestSet{m: map[[32]byte]struct{}{}} }
func (d *digestSet) add(k [32]byte) {
	d.mu.Lock()
	d.m[k] = struct{}{}
	d.mu.Unlock()
}
func (d *digestSet) size() int64 {
	d.mu.Lock()
	defer d.mu.Unlock()
	return int64(len(d.m))
}
