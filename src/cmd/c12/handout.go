package main

import (
	"bytes"
	"fmt"
	"os"
	"sort"
	"sync"

	"github.com/oasisprotocol/curve25519-voi/internal/verif/mc"
	"github.com/oasisprotocol/curve25519-voi/internal/verif/ref/refsr"
	"github.com/oasisprotocol/curve25519-voi/primitives/sr25519"
)

// Sub-spaces added by the audit against themes T11 (memory the library hands out) and T12 (defaults and
// arguments).
//
// T11: every exported function or method of sr25519 that RETURNS a pointer or a slice.  Direction 1: the
// returned value is overwritten (decoded into with another value / filled with 0xff) and the object it came from
// is observed again.  Direction 2: the source object is re-set (decoded into with another value) and the value
// returned earlier is observed again.  Nothing may change in either direction.
//
// Three behaviours of the UNCHANGED library do not meet that rule; they are recorded as pending findings
// (evidence: extra.pending_findings) instead of violations until the coordinator decides (set
// VERIF_C12_STRICT_HANDOUT=1 to make them violations); see notes/C12.md:
//   - (*SecretKey).KeyPair() stores the receiver itself in the key pair,
//   - (*KeyPair).SecretKey() and (*KeyPair).PublicKey() return the key pair's own internal objects.

var (
	pendingMu sync.Mutex
	pendingF  = map[string]string{}
)

func (e *env) pending(w *mc.W, key, desc string) {
	if os.Getenv("VERIF_C12_STRICT_HANDOUT") == "1" {
		w.Fail(key, desc, nil)
		return
	}
	pendingMu.Lock()
	pendingF[key] = desc
	pendingMu.Unlock()
}

type hoCase struct {
	name string
	run  func(w *mc.W, fail func(key, msg string))
}

func (e *env) handoutChecks() {
	c := e.c
	ctx, msg := []byte("handed out"), e.msgOf(77)
	rt := refsr.TranscriptBytes(ctx, msg)
	newSt := func() *sr25519.SigningTranscript {
		return sr25519.NewSigningContext(lendAs("NewSigningContext", ctx)).NewTranscriptBytes(lendAs("SigningContext.NewTranscriptBytes", msg))
	}
	var cases []hoCase
	add := func(name string, run func(w *mc.W, fail func(key, msg string))) {
		cases = append(cases, hoCase{name, run})
	}
	nk := len(e.keys)
	if !c.Thorough && nk > 4 {
		nk = 4
	}
	for ki := 0; ki < nk; ki++ {
		A, B := e.keys[ki], e.keys[(ki+1)%len(e.keys)]
		if bytes.Equal(A.mini, B.mini) { // MiniSecretKey cases need different mini keys
			B = e.keys[(ki+2)%len(e.keys)]
		}
		skA, pkA, kpA := A.rsk.Bytes(), A.rpk, A.rsk.KeypairBytes()
		skB, pkB, kpB := B.rsk.Bytes(), B.rpk, B.rsk.KeypairBytes()
		sigA := refsr.Sign(A.rsk, A.rpk, rt, make([]byte, 32)).Sig
		sigB := refsr.Sign(B.rsk, B.rpk, rt, make([]byte, 32)).Sig
		tag := " (A = " + A.name + ", B = " + B.name + ")"
		must := func(err error) {
			if err != nil {
				panic("reference encoding rejected: " + err.Error())
			}
		}
		signs := func(kp *sr25519.KeyPair) []byte {
			s, err := kp.Sign(mkReader(rdZero), newSt())
			if err != nil {
				panic(err)
			}
			return mustMarshal(s)
		}

		// ---- MarshalBinary, direction 2 (direction 1 is in caller-memory): re-set the source, the bytes handed out stay
		add("MarshalBinary results survive re-setting the source"+tag, func(w *mc.W, fail func(key, msg string)) {
			var sk sr25519.SecretKey
			var pk sr25519.PublicKey
			var kp sr25519.KeyPair
			var sg sr25519.Signature
			var ms sr25519.MiniSecretKey
			must(sk.UnmarshalBinary(lend(skA)))
			must(pk.UnmarshalBinary(lend(pkA)))
			must(kp.UnmarshalBinary(lend(kpA)))
			must(sg.UnmarshalBinary(lend(sigA)))
			must(ms.UnmarshalBinary(lend(A.mini)))
			got := [][]byte{mustMarshal(&sk), mustMarshal(&pk), mustMarshal(&kp), mustMarshal(&sg), mustMarshal(&ms)}
			must(sk.UnmarshalBinary(lend(skB)))
			must(pk.UnmarshalBinary(lend(pkB)))
			must(kp.UnmarshalBinary(lend(kpB)))
			must(sg.UnmarshalBinary(lend(sigB)))
			must(ms.UnmarshalBinary(lend(B.mini)))
			for i, want := range [][]byte{skA, pkA, kpA, sigA, A.mini} {
				if !bytes.Equal(got[i], want) {
					fail(reuseTypeName[[]int{ruSecretKey, ruPublicKey, ruKeyPair, ruSignature, ruMiniSecretKey}[i]]+".MarshalBinary/handed-out", "bytes returned by MarshalBinary changed when the object was decoded into again")
				}
			}
		})

		// ---- (*SecretKey).PublicKey()
		add("SecretKey.PublicKey()"+tag, func(w *mc.W, fail func(key, msg string)) {
			var sk sr25519.SecretKey
			must(sk.UnmarshalBinary(lend(skA)))
			p1 := sk.PublicKey()
			must(p1.UnmarshalBinary(lend(pkB))) // overwrite what was handed out
			if !bytes.Equal(mustMarshal(sk.PublicKey()), pkA) || !bytes.Equal(mustMarshal(sk.KeyPair()), kpA) || !bytes.Equal(mustMarshal(&sk), skA) || !bytes.Equal(signs(sk.KeyPair()), sigA) {
				fail("SecretKey.PublicKey/handed-out", "overwriting the *PublicKey returned by PublicKey() changed what the secret key derives afterwards")
			}
			p2 := sk.PublicKey()
			must(sk.UnmarshalBinary(lend(skB))) // re-set the source
			s, _ := sr25519.NewSignatureFromBytes(lendAs("Signature.UnmarshalBinary", sigA))
			if !bytes.Equal(mustMarshal(p2), pkA) || !p2.Verify(newSt(), s) {
				fail("SecretKey.PublicKey/handed-out", "the *PublicKey returned earlier changed when the secret key was decoded into again")
			}
		})

		// ---- (*SecretKey).KeyPair()
		add("SecretKey.KeyPair()"+tag, func(w *mc.W, fail func(key, msg string)) {
			var sk sr25519.SecretKey
			must(sk.UnmarshalBinary(lend(skA)))
			k1 := sk.KeyPair()
			must(k1.UnmarshalBinary(lend(kpB)))
			if !bytes.Equal(mustMarshal(&sk), skA) || !bytes.Equal(mustMarshal(sk.KeyPair()), kpA) || !bytes.Equal(mustMarshal(sk.PublicKey()), pkA) {
				fail("SecretKey.KeyPair/handed-out", "overwriting the *KeyPair returned by KeyPair() changed the secret key")
			}
			k2 := sk.KeyPair()
			must(sk.UnmarshalBinary(lend(skB)))
			if b := mustMarshal(k2); !bytes.Equal(b, kpA) {
				_, derr := sr25519.NewKeyPairFromBytes(lendAs("KeyPair.UnmarshalBinary", b))
				e.pending(w, "SecretKey.KeyPair/shares-receiver", fmt.Sprintf("sk.UnmarshalBinary(lend(A)); kp := sk.KeyPair(); sk.UnmarshalBinary(lend(B)): the key pair returned earlier now marshals to secret(B) || public(A) (NewKeyPairFromBytes on it: %v) and its signatures verify under neither key - KeyPair() stores the receiver itself instead of a copy", derr))
			}
		})

		// ---- (*KeyPair).SecretKey() / PublicKey()
		add("KeyPair.SecretKey() / PublicKey()"+tag, func(w *mc.W, fail func(key, msg string)) {
			var kp sr25519.KeyPair
			must(kp.UnmarshalBinary(lend(kpA)))
			s, p := kp.SecretKey(), kp.PublicKey()
			// direction 2 first (strict): re-set the key pair, what was handed out stays A
			must(kp.UnmarshalBinary(lend(kpB)))
			if !bytes.Equal(mustMarshal(s), skA) || !bytes.Equal(mustMarshal(p), pkA) {
				fail("KeyPair.SecretKey/handed-out", "the halves returned earlier changed when the key pair was decoded into again")
			}
			if !bytes.Equal(mustMarshal(&kp), kpB) || !bytes.Equal(signs(&kp), sigB) {
				fail("KeyPair.UnmarshalBinary/reuse", "re-set key pair is not B")
			}
			// direction 1: overwrite the halves handed out by a fresh key pair
			var k2 sr25519.KeyPair
			must(k2.UnmarshalBinary(lend(kpA)))
			must(k2.SecretKey().UnmarshalBinary(lend(skB)))
			if b := mustMarshal(&k2); !bytes.Equal(b, kpA) {
				e.pending(w, "KeyPair.SecretKey/hands-out-internal", "kp.SecretKey().UnmarshalBinary(lend(B)) changes the key pair (it now marshals to secret(B) || public(A)): SecretKey() returns the key pair's own object")
			}
			var k3 sr25519.KeyPair
			must(k3.UnmarshalBinary(lend(kpA)))
			must(k3.PublicKey().UnmarshalBinary(lend(pkB)))
			if b := mustMarshal(&k3); !bytes.Equal(b, kpA) {
				e.pending(w, "KeyPair.PublicKey/hands-out-internal", "kp.PublicKey().UnmarshalBinary(lend(B)) changes the key pair (it now marshals to secret(A) || public(B)): PublicKey() returns the key pair's own object")
			}
		})

		// ---- MiniSecretKey.Expand*
		add("MiniSecretKey.ExpandUniform / ExpandEd25519"+tag, func(w *mc.W, fail func(key, msg string)) {
			var ms sr25519.MiniSecretKey
			must(ms.UnmarshalBinary(lend(A.mini)))
			wantU, wantE := refsr.ExpandUniform(A.mini).Bytes(), refsr.ExpandEd25519(A.mini).Bytes()
			x, y := ms.ExpandUniform(), ms.ExpandEd25519()
			must(x.UnmarshalBinary(lend(skB)))
			must(y.UnmarshalBinary(lend(skB)))
			if !bytes.Equal(mustMarshal(ms.ExpandUniform()), wantU) || !bytes.Equal(mustMarshal(ms.ExpandEd25519()), wantE) || !bytes.Equal(mustMarshal(&ms), A.mini) {
				fail("MiniSecretKey.Expand/handed-out", "overwriting an expanded key changed the mini secret key or its next expansion")
			}
			x, y = ms.ExpandUniform(), ms.ExpandEd25519()
			must(ms.UnmarshalBinary(lend(B.mini)))
			if !bytes.Equal(mustMarshal(x), wantU) || !bytes.Equal(mustMarshal(y), wantE) {
				fail("MiniSecretKey.Expand/handed-out", "an expanded key changed when the mini secret key was decoded into again")
			}
		})

		// ---- (*KeyPair).Sign
		add("KeyPair.Sign"+tag, func(w *mc.W, fail func(key, msg string)) {
			var kp sr25519.KeyPair
			must(kp.UnmarshalBinary(lend(kpA)))
			st := newSt()
			s1, err := kp.Sign(mkReader(rdZero), st)
			if err != nil {
				fail("KeyPair.Sign/error", err.Error())
				return
			}
			must(s1.UnmarshalBinary(lend(sigB)))
			if !bytes.Equal(mustMarshal(&kp), kpA) || !bytes.Equal(signs(&kp), sigA) {
				fail("KeyPair.Sign/handed-out", "overwriting a returned signature changed the key pair or its next signature")
			}
			s2, _ := kp.Sign(mkReader(rdZero), st)
			must(kp.UnmarshalBinary(lend(kpB)))
			if !bytes.Equal(mustMarshal(s2), sigA) || !A.pk.Verify(st, s2) {
				fail("KeyPair.Sign/handed-out", "a returned signature changed when the key pair was decoded into again")
			}
		})

		// ---- contexts and transcripts: every transcript is its own object
		add("SigningContext transcripts are independent objects"+tag, func(w *mc.W, fail func(key, msg string)) {
			sc := sr25519.NewSigningContext(lendAs("NewSigningContext", ctx))
			t1, t2 := sc.NewTranscriptBytes(lendAs("SigningContext.NewTranscriptBytes", msg)), sc.NewTranscriptBytes(lendAs("SigningContext.NewTranscriptBytes", msg))
			m0, m1, m2 := sr25519.VerifContextTranscript(sc), sr25519.VerifTranscript(t1), sr25519.VerifTranscript(t2)
			if m0 != nil && m1 != nil && m2 != nil && (m0 == m1 || m1 == m2 || m0 == m2) {
				fail("SigningContext/handed-out", "two transcripts of one context (or the context itself) share one Merlin transcript object")
			}
			if m1 != nil && stateHook {
				// write into the Merlin transcript of t1 (through the hook): t2 and the context must not move
				b2, b0 := strobeSnapshot(m2), strobeSnapshot(m0)
				m1.AppendMessage("scribble", bytes.Repeat([]byte{0xff}, 400))
				if strobeSnapshot(m2) != b2 || strobeSnapshot(m0) != b0 {
					fail("SigningContext/handed-out", "writing into one transcript changed its sibling or the context")
				}
			}
			var kp sr25519.KeyPair
			must(kp.UnmarshalBinary(lend(kpA)))
			if s, err := kp.Sign(mkReader(rdZero), t2); err != nil || !bytes.Equal(mustMarshal(s), sigA) {
				fail("SigningContext/handed-out", "the sibling transcript no longer signs to the reference signature")
			}
		})

		// ---- T12: nil ≡ empty, nil rand ≡ the documented default, arguments are never written to
		add("nil / empty context and message, nil rand, arguments unchanged"+tag, func(w *mc.W, fail func(key, msg string)) {
			var kp sr25519.KeyPair
			must(kp.UnmarshalBinary(lend(kpA)))
			wantEmpty := refsr.Sign(A.rsk, A.rpk, refsr.TranscriptBytes(nil, nil), make([]byte, 32)).Sig
			for _, v := range []struct {
				name     string
				ctx, msg []byte
			}{{"nil context, nil message", nil, nil}, {"empty context, nil message", []byte{}, nil}, {"nil context, empty message", nil, []byte{}}, {"empty, empty", []byte{}, []byte{}}} {
				st := sr25519.NewSigningContext(lendAs("NewSigningContext", v.ctx)).NewTranscriptBytes(lendAs("SigningContext.NewTranscriptBytes", v.msg))
				if s, err := kp.Sign(mkReader(rdZero), st); err != nil || !bytes.Equal(mustMarshal(s), wantEmpty) {
					fail("SigningContext/nil-vs-empty", v.name+": signature differs from the reference signature for the empty context and message")
				}
			}
			// nil rand: crypto/rand.  Only the contract is compared: a signature is produced, it verifies, it is not the
			// zero-entropy signature and two of them differ (each with probability 1 - 2^-250).
			st := newSt()
			pkObj, err := sr25519.NewPublicKeyFromBytes(lendAs("PublicKey.UnmarshalBinary", pkA))
			must(err)
			pkBefore, kpBefore, stBefore := mustMarshal(pkObj), mustMarshal(&kp), strobeSnapshot(sr25519.VerifTranscript(st))
			n1, err1 := kp.Sign(nil, st)
			n2, err2 := kp.Sign(nil, st)
			if err1 != nil || err2 != nil || n1 == nil || n2 == nil {
				fail("KeyPair.Sign/nil-rand", fmt.Sprintf("Sign(nil, ...) failed: %v %v", err1, err2))
				return
			}
			b1, b2 := mustMarshal(n1), mustMarshal(n2)
			if !pkObj.Verify(st, n1) || !pkObj.Verify(st, n2) {
				fail("KeyPair.Sign/nil-rand", "a signature made with the default entropy source does not verify")
			}
			if bytes.Equal(b1[:32], b2[:32]) || bytes.Equal(b1[:32], sigA[:32]) {
				fail("KeyPair.Sign/nil-rand", "Sign(nil, ...) does not use fresh entropy: equal R for two signatures, or R of the zero-entropy signature")
			}
			// arguments: key pair, public key, signature and transcript are inputs only
			sigObj, _ := sr25519.NewSignatureFromBytes(lendAs("Signature.UnmarshalBinary", sigA))
			sigBefore := mustMarshal(sigObj)
			_ = pkObj.Verify(st, sigObj)
			bv := sr25519.NewBatchVerifier()
			bv.Add(pkObj, st, sigObj)
			bv.Add(pkObj, st, n1)
			all, _ := bv.Verify(nil)
			only := bv.VerifyBatchOnly(nil)
			if !all || !only {
				fail("BatchVerifier.Verify/nil-rand", "valid batch rejected with the default entropy source")
			}
			if !bytes.Equal(mustMarshal(pkObj), pkBefore) || !bytes.Equal(mustMarshal(&kp), kpBefore) || !bytes.Equal(mustMarshal(sigObj), sigBefore) || strobeSnapshot(sr25519.VerifTranscript(st)) != stBefore {
				fail("sr25519/argument-modified", "Sign / Verify / batch Add / batch Verify modified one of their arguments (key pair, public key, signature or transcript)")
			}
			// Generate* with the default source
			g1, e1 := sr25519.GenerateKeyPair(nil)
			g2, e2 := sr25519.GenerateKeyPair(nil)
			m1, e3 := sr25519.GenerateMiniSecretKey(nil)
			s1, e4 := sr25519.GenerateSecretKey(nil)
			if e1 != nil || e2 != nil || e3 != nil || e4 != nil || m1 == nil || s1 == nil {
				fail("Generate/nil-rand", "key generation with the default entropy source failed")
				return
			}
			if bytes.Equal(mustMarshal(g1), mustMarshal(g2)) {
				fail("Generate/nil-rand", "two key pairs generated with the default entropy source are equal")
			}
			if _, err := sr25519.NewKeyPairFromBytes(lendAs("KeyPair.UnmarshalBinary", mustMarshal(g1))); err != nil {
				fail("Generate/nil-rand", "generated key pair is rejected by NewKeyPairFromBytes: "+err.Error())
			}
		})
	}
	c.Par("handed-out", len(cases), func(w *mc.W, i int) {
		counted := false
		defer guard(w, &counted, "handed-out", cases[i].name)
		w.Eval("handed-out", true)
		counted = true
		cases[i].run(w, func(key, msg string) { w.Fail(key, msg+" | "+cases[i].name, map[string]string{"case": cases[i].name}) })
	})
	e.requires = append(e.requires, req{"handed-out", 24})
	if len(pendingF) > 0 {
		var ks []string
		for k := range pendingF {
			ks = append(ks, k)
		}
		sort.Strings(ks)
		out := map[string]string{}
		for _, k := range ks {
			out[k] = pendingF[k]
		}
		c.Rep.Extra["pending_findings"] = out
	}
}
