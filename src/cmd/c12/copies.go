package main

import (
	"bytes"
	"fmt"
	"sort"
	"sync"
	"sync/atomic"

	"github.com/oasisprotocol/curve25519-voi/internal/verif/mc"
	"github.com/oasisprotocol/curve25519-voi/primitives/sr25519"
)

// Rule: the library only ever sees per-call COPIES of the harness's byte fixtures (signatures, keys, messages,
// contexts).  A library that writes into its input can then never corrupt a fixture that is shared between
// cases (and so never turn its own defect into a harness error); and every lent copy is compared with the
// original afterwards (theme T12: the library never writes to caller memory), a difference being a violation
// with the key "<what>/caller-memory-modified".
//
// lend() is used at every call site that hands bytes to the library.  The copy is remembered in a ring; it is
// compared with the original when its slot is re-used (long after the call has returned) and in a final sweep.

type lentRec struct {
	cp, orig []byte
	what     string
}

const lentSlots = 1 << 15

var (
	lentRing [lentSlots]struct {
		mu sync.Mutex
		r  lentRec
	}
	lentIdx    uint64
	modifiedMu sync.Mutex
	modified   = map[string]string{}
)

func noteModified(r lentRec) {
	if r.cp == nil || bytes.Equal(r.cp, r.orig) {
		return
	}
	key := r.what + "/caller-memory-modified"
	modifiedMu.Lock()
	if _, ok := modified[key]; !ok {
		modified[key] = fmt.Sprintf("the library wrote into the byte slice it was given: passed %x, afterwards %x", r.orig, r.cp)
	}
	modifiedMu.Unlock()
}

func lendAs(what string, b []byte) []byte {
	if b == nil {
		return nil
	}
	c := make([]byte, len(b), len(b)+8)
	copy(c, b)
	slot := &lentRing[atomic.AddUint64(&lentIdx, 1)%lentSlots]
	slot.mu.Lock()
	old := slot.r
	slot.r = lentRec{cp: c, orig: append([]byte{}, b...), what: what}
	slot.mu.Unlock()
	noteModified(old)
	return c
}

// lend: the type is inferred from the length where the call site does not say it.
func lend(b []byte) []byte {
	return lendAs(map[int]string{32: "sr25519 (32-byte input)", 64: "sr25519 (64-byte input)", 96: "KeyPair.UnmarshalBinary"}[len(b)]+func() string {
		if len(b) != 32 && len(b) != 64 && len(b) != 96 {
			return fmt.Sprintf("sr25519 (%d-byte input)", len(b))
		}
		return ""
	}(), b)
}

// reportModified sweeps the ring and reports every modification as a violation.  It first runs a small
// self-contained probe (each decoder and constructor once on a lent copy of a valid encoding), so that the
// violation reproduces when this case is replayed alone.
func (e *env) reportModified() {
	c := e.c
	c.Seq("caller-memory-modified", 1, func(w *mc.W, i int) {
		counted := false
		defer guard(w, &counted, "caller-memory-modified", "probe + sweep of all lent copies")
		w.Eval("caller-memory-modified", true)
		counted = true
		k := e.keys[0]
		probe := func(what string, b []byte, f func(b []byte)) {
			cpy := append(make([]byte, 0, len(b)+8), b...)
			f(cpy)
			if !bytes.Equal(cpy, b) {
				noteModified(lentRec{cp: cpy, orig: b, what: what})
			}
		}
		sig := append([]byte{}, e.probeSig...)
		probe("Signature.UnmarshalBinary", sig, func(b []byte) { _, _ = sr25519.NewSignatureFromBytes(b) })
		probe("PublicKey.UnmarshalBinary", k.rpk, func(b []byte) { _, _ = sr25519.NewPublicKeyFromBytes(b) })
		probe("SecretKey.UnmarshalBinary", k.rsk.Bytes(), func(b []byte) { _, _ = sr25519.NewSecretKeyFromBytes(b) })
		probe("KeyPair.UnmarshalBinary", k.rsk.KeypairBytes(), func(b []byte) { _, _ = sr25519.NewKeyPairFromBytes(b) })
		probe("MiniSecretKey.UnmarshalBinary", k.mini, func(b []byte) { _, _ = sr25519.NewMiniSecretKeyFromBytes(b) })
		probe("NewSigningContext", []byte("probe context"), func(b []byte) { _ = sr25519.NewSigningContext(b) })
		probe("SigningContext.NewTranscriptBytes", []byte("probe message"), func(b []byte) { _ = sr25519.NewSigningContext(nil).NewTranscriptBytes(b) })
		for s := range lentRing {
			lentRing[s].mu.Lock()
			r := lentRing[s].r
			lentRing[s].mu.Unlock()
			noteModified(r)
		}
		var keys []string
		for key := range modified {
			keys = append(keys, key)
		}
		sort.Strings(keys)
		for _, key := range keys {
			w.Fail(key, modified[key], nil)
		}
	})
}
