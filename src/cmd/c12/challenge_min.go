//go:build verifmin

package main

import "github.com/oasisprotocol/curve25519-voi/primitives/sr25519"

// implChallenge: reduced variant used when a hook file had to be dropped for the tree under test (the
// challenge is then compared only through the batch entries and, implicitly, the signature bytes).
func implChallenge(pk *sr25519.PublicKey, st *sr25519.SigningTranscript, sig *sr25519.Signature) ([]byte, bool) {
	return nil, false
}
