package main

// Sub-spaces added by the audit against notes/THEMES.md:
//   T5 unclamped scalars of EVERY bit length through MontgomeryPoint.Mul (values; timing is C08's)
//   T3 reuse of the typed API objects (PrivateKey / PublicKey / SharedSecret) through [A; B; A] histories, value copies
//   T7 entropy readers of GenerateKey / GeneratePrivateKey (short reads, failures, retry)
//   T1 caller memory of X25519 (inputs with spare capacity between guards)

import (
	"bytes"
	"errors"
	"fmt"
	"io"
	"math/big"

	stded "crypto/ed25519"

	"github.com/oasisprotocol/curve25519-voi/curve"
	"github.com/oasisprotocol/curve25519-voi/curve/scalar"
	"github.com/oasisprotocol/curve25519-voi/internal/verif/alph/alphed"
	"github.com/oasisprotocol/curve25519-voi/internal/verif/mc"
	"github.com/oasisprotocol/curve25519-voi/internal/verif/ref"
	"github.com/oasisprotocol/curve25519-voi/internal/verif/ref/refx"
	"github.com/oasisprotocol/curve25519-voi/primitives/ed25519"
	"github.com/oasisprotocol/curve25519-voi/primitives/x25519"
)

type chunkReader struct {
	r io.Reader
	n int
}

func (c chunkReader) Read(p []byte) (int, error) {
	if len(p) > c.n {
		p = p[:c.n]
	}
	return c.r.Read(p)
}

type failReader struct {
	data   []byte
	n, pos int
}

var errEntropy = errors.New("entropy source failed")

func (f *failReader) Read(p []byte) (int, error) {
	if f.pos >= f.n {
		return 0, errEntropy
	}
	k := copy(p, f.data[f.pos:f.n])
	f.pos += k
	return k, nil
}

func themes(c *mc.Ctx) {
	// ---------------------------------------------------------------- every bit length 0..255
	gen := ref.FromLE(mc.Bytes(c.Seed, "c07-bitlen", 0, 32))
	shapes := 1
	if c.Thorough {
		shapes = 3
	}
	us := [][]byte{nine, ref.LE32(big.NewInt(2))}
	if c.Thorough {
		u3 := mc.Bytes(c.Seed, "c07-bitlen-u", 0, 32)
		us = append(us, u3, ref.LE32(new(big.Int).Add(ref.P, big.NewInt(9))))
	}
	alphed.Par(c, "scalar-bit-lengths", 256*shapes*len(us), func(w *mc.W, i int) {
		bl, shape, u := i/(shapes*len(us)), (i/len(us))%shapes, us[i%len(us)]
		if !c.Thorough && (bl+i)%2 == 1 {
			return // quick: the curve point for even, the twist point for odd bit lengths
		}
		k := new(big.Int)
		if bl > 0 {
			top := new(big.Int).Lsh(big.NewInt(1), uint(bl-1))
			switch shape {
			case 0: // generic value of exactly bl bits
				k.Or(top, new(big.Int).Mod(gen, top))
			case 1: // 2^(bl-1)
				k.Set(top)
			default: // 2^bl - 1
				k.Sub(new(big.Int).Lsh(top, 1), big.NewInt(1))
			}
		}
		raw := ref.LE32(k)
		// SetBits documents "the low 255 bits": a 256-bit value keeps its low 255 bits
		kk := new(big.Int).SetBit(new(big.Int).Set(k), 255, 0)
		want := refx.EncodeUCoordinate(refx.Ladder(kk, refx.DecodeUCoordinate(u)))
		w.Eval(fmt.Sprintf("scalar-bit-lengths/%d", bl/64), true)
		ks, err := scalar.NewFromBits(raw)
		if err != nil {
			w.Fail("Scalar.SetBits", err.Error(), nil)
			return
		}
		var mp, mo curve.MontgomeryPoint
		copy(mp[:], u)
		mo.Mul(&mp, ks)
		if !bytes.Equal(mo[:], want) {
			w.Fail("MontgomeryPoint.Mul/bit-length", fmt.Sprintf("MontgomeryPoint.Mul(u=%x, k=%x (%d bits, unclamped))=%x want %x", u, raw, bl, mo[:], want), map[string]string{"u": hx(u), "k": hx(raw), "bits": fmt.Sprint(bl)})
		}
		if !bytes.Equal(mp[:], u) {
			w.Fail("MontgomeryPoint.Mul/argument-modified", "Mul modified its point argument", nil)
		}
	})
	for q := 0; q < 4; q++ {
		c.Require(fmt.Sprintf("scalar-bit-lengths/%d", q), int64(64*shapes*len(us)/2))
	}

	// ---------------------------------------------------------------- typed API: one PrivateKey / PublicKey object through [A; B; A], value copies
	nk := c.Pick(4, 10)
	alphed.Par(c, "typed-reuse", nk*nk, func(w *mc.W, i int) {
		ka, kb := mc.Bytes(c.Seed, "c07-typed", i/nk, 32), mc.Bytes(c.Seed, "c07-typed", i%nk, 32)
		if i%nk == 0 {
			kb = rep(0xff)
		}
		if i/nk == 0 {
			ka = rep(0)
		}
		w.Eval("typed-reuse", i/nk != i%nk)
		pubA, pubB := refx.X25519(ka, nine), refx.X25519(kb, nine)
		low := ref.LE32(big.NewInt(1)) // low-order public key: all-zero secret
		priv := x25519.PrivateKey(*arr(ka))
		var pub x25519.PublicKey
		var last *x25519.SharedSecret
		for step, peer := range [][]byte{pubB, pubA, low, pubB, pubB} {
			copy(pub[:], peer) // the same PublicKey object is overwritten
			want := refx.X25519(ka, peer)
			privCopy, pubCopy := priv, pub
			ss := priv.DiffieHellman(&pub)
			if !bytes.Equal(ss[:], want) || ss.IsZero() != refx.IsZero32(want) {
				w.Fail("PrivateKey.DiffieHellman/reuse", fmt.Sprintf("step %d: DiffieHellman(priv=%x, pub=%x)=%x want %x", step, ka, peer, ss[:], want), nil)
			}
			if priv != privCopy || pub != pubCopy {
				w.Fail("PrivateKey.DiffieHellman/argument-modified", fmt.Sprintf("step %d: DiffieHellman modified its receiver or argument", step), nil)
			}
			if last != nil && ss == last {
				w.Fail("PrivateKey.DiffieHellman/shared-result", "two calls returned the same SharedSecret object", nil)
			}
			last = ss
			if p := priv.Public(); !bytes.Equal(p[:], pubA) {
				w.Fail("PrivateKey.Public/reuse", fmt.Sprintf("step %d: Public()=%x want %x", step, p[:], pubA), nil)
			}
		}
		// the private key object is overwritten with another key
		priv = x25519.PrivateKey(*arr(kb))
		if p := priv.Public(); !bytes.Equal(p[:], pubB) {
			w.Fail("PrivateKey.Public/reuse", fmt.Sprintf("after overwriting the key: Public()=%x want %x", p[:], pubB), nil)
		}
		p1, p2 := priv.Public(), priv.Public()
		p1[0] ^= 0xff
		if p1 == p2 || !bytes.Equal(p2[:], pubB) {
			w.Fail("PrivateKey.Public/shared-result", "Public() results share memory", nil)
		}
		// X25519 with inputs handed over with spare capacity between guards; the result must be fresh memory
		s, sOK := alphed.Guarded(ka)
		u, uOK := alphed.Guarded(pubB)
		o1, e1 := x25519.X25519(s, u)
		o2, e2 := x25519.X25519(s, u)
		want := refx.X25519(ka, pubB)
		if e1 != nil || e2 != nil || !bytes.Equal(o1, want) || !bytes.Equal(o2, want) {
			w.Fail("X25519/value", fmt.Sprintf("X25519(%x,%x)=%x/%x want %x", ka, pubB, o1, o2, want), nil)
		} else {
			o1[0] ^= 0xff
			if !bytes.Equal(o2, want) {
				w.Fail("X25519/shared-result", "two X25519 results share memory", nil)
			}
			if cap(o1) > 32 {
				// spare capacity behind the result is harmless, but it must not be the caller's input
				_ = o1
			}
		}
		if !sOK() || !uOK() {
			w.Fail("caller-memory/X25519", "X25519 wrote to the caller's input buffers", nil)
		}
	})

	// ---------------------------------------------------------------- entropy readers
	type rcase struct {
		name  string
		chunk int
		fail  int
	}
	var rc []rcase
	for _, n := range []int{1, 7, 16, 31, 32, 100} {
		rc = append(rc, rcase{fmt.Sprintf("chunks of %d", n), n, -1})
	}
	for _, n := range []int{0, 1, 16, 31} {
		rc = append(rc, rcase{fmt.Sprintf("fails after %d bytes", n), 0, n})
	}
	alphed.Par(c, "generate-readers", len(rc)*4, func(w *mc.W, i int) {
		r, k := rc[i/4], i%4
		ent := mc.Bytes(c.Seed, "c07-entropy", k, 80)
		w.Eval("generate-readers", true)
		refPriv, err := x25519.GeneratePrivateKey(bytes.NewReader(ent[:32])) // exactly the bytes a whole read consumes
		if err != nil {
			w.Fail("GeneratePrivateKey/error", err.Error(), nil)
			return
		}
		wantPub := refx.X25519(refPriv[:], nine)
		if r.fail < 0 {
			src := bytes.NewReader(ent)
			pub, priv, err := x25519.GenerateKey(chunkReader{src, r.chunk})
			if err != nil || *priv != *refPriv || !bytes.Equal(pub[:], wantPub) {
				w.Fail("GenerateKey/short-reads", fmt.Sprintf("reader with %s: err=%v; key differs from the one generated from a whole read of the same bytes", r.name, err), nil)
			}
			if got := len(ent) - src.Len(); got != 32 {
				w.Fail("GenerateKey/consumed", fmt.Sprintf("reader with %s: %d bytes consumed, want exactly 32", r.name, got), nil)
			}
			return
		}
		pub, priv, err := x25519.GenerateKey(&failReader{data: ent, n: r.fail})
		if err == nil || pub != nil || priv != nil {
			w.Fail("GenerateKey/error-swallowed", fmt.Sprintf("reader that %s: err=%v pub=%v priv=%v", r.name, err, pub, priv), nil)
		}
		if p, err := x25519.GeneratePrivateKey(&failReader{data: ent, n: r.fail}); err == nil || p != nil {
			w.Fail("GeneratePrivateKey/error-swallowed", fmt.Sprintf("reader that %s: err=%v", r.name, err), nil)
		}
		// retry with a good reader after the failure
		pub, priv, err = x25519.GenerateKey(bytes.NewReader(ent))
		if err != nil || *priv != *refPriv || !bytes.Equal(pub[:], wantPub) {
			w.Fail("GenerateKey/retry", fmt.Sprintf("retry after a reader that %s: err=%v or a different key", r.name, err), nil)
		}
	})

	// ---------------------------------------------------------------- T11: memory package x25519 hands out; T12: nil entropy source
	alphed.Par(c, "handed-out-memory", 6, func(w *mc.W, i int) {
		w.Eval("handed-out-memory", true)
		k := mc.Bytes(c.Seed, "c07-handout", i, 32)
		u := refx.X25519(mc.Bytes(c.Seed, "c07-handout-u", i, 32), nine)
		wantBase, want := refx.X25519(k, nine), refx.X25519(k, u)
		fill := func(b []byte) {
			b = b[:cap(b)]
			for j := range b {
				b[j] = 0xff
			}
		}
		globals := func(when string) {
			if !bytes.Equal(x25519.Basepoint, nine) || len(x25519.Basepoint) != 32 || !bytes.Equal(curve.X25519_BASEPOINT[:], nine) {
				w.Fail("package-level-value/Basepoint", when+": x25519.Basepoint / curve.X25519_BASEPOINT no longer is 9", nil)
			}
			if o, err := x25519.X25519(k, x25519.Basepoint); err != nil || !bytes.Equal(o, wantBase) {
				w.Fail("package-level-value/Basepoint-path", fmt.Sprintf("%s: X25519(k, Basepoint)=%x err=%v want %x", when, o, err, wantBase), nil)
			}
		}
		globals("before")
		switch i {
		case 0: // results of the fixed-base path must not be (or overlap) the Basepoint global
			o1, _ := x25519.X25519(k, x25519.Basepoint)
			o2, _ := x25519.X25519(k, x25519.Basepoint)
			fill(o1)
			if !bytes.Equal(o2, wantBase) {
				w.Fail("handed-out-memory/X25519", "two X25519(k, Basepoint) results share memory", nil)
			}
		case 1: // general path; the converse: inputs change after the call
			kk, uu := append([]byte{}, k...), append([]byte{}, u...)
			o1, _ := x25519.X25519(kk, uu)
			fill(kk)
			fill(uu)
			if !bytes.Equal(o1, want) {
				w.Fail("handed-out-memory/X25519", "the result changed when the inputs were overwritten afterwards", nil)
			}
			fill(o1)
		case 2: // typed API
			priv := x25519.PrivateKey(*arr(k))
			p1, p2 := priv.Public(), priv.Public()
			fill(p1[:])
			pub := x25519.PublicKey(*arr(u))
			s1, s2 := priv.DiffieHellman(&pub), priv.DiffieHellman(&pub)
			fill(s1[:])
			if p1 == p2 || s1 == s2 || !bytes.Equal(p2[:], wantBase) || !bytes.Equal(s2[:], want) || !bytes.Equal(priv[:], k) || !bytes.Equal(pub[:], u) {
				w.Fail("handed-out-memory/typed", "Public()/DiffieHellman results share memory with each other or with the keys", nil)
			}
		case 3: // conversions: results must not alias the Ed25519 keys
			std := stdKey(k)
			edPriv := ed25519.PrivateKey(append([]byte{}, std...))
			x1 := x25519.EdPrivateKeyToX25519(edPriv)
			x2 := x25519.EdPrivateKeyToX25519(edPriv)
			keep := append([]byte{}, x2...)
			fill(x1)
			if !bytes.Equal(edPriv, std) || !bytes.Equal(x2, keep) {
				w.Fail("handed-out-memory/EdPrivateKeyToX25519", "the result aliases the private key or an earlier result", nil)
			}
			edPub := ed25519.PublicKey(append([]byte{}, std[32:]...))
			y1, ok1 := x25519.EdPublicKeyToX25519(edPub)
			y2, ok2 := x25519.EdPublicKeyToX25519(edPub)
			keepY := append([]byte{}, y2...)
			if !ok1 || !ok2 {
				w.Fail("EdPublicKeyToX25519/accept-set", "honest public key rejected", nil)
				break
			}
			fill(y1)
			if !bytes.Equal(edPub, std[32:]) || !bytes.Equal(y2, keepY) {
				w.Fail("handed-out-memory/EdPublicKeyToX25519", "the result aliases the public key or an earlier result", nil)
			}
			fill(edPub) // the converse
			if !bytes.Equal(y2, keepY) {
				w.Fail("handed-out-memory/EdPublicKeyToX25519", "the result changed with the input", nil)
			}
		case 4: // key generation with a supplied reader: distinct objects
			ent := mc.Bytes(c.Seed, "c07-handout-ent", 0, 64)
			pub1, priv1, e1 := x25519.GenerateKey(bytes.NewReader(ent))
			pub2, priv2, e2 := x25519.GenerateKey(bytes.NewReader(ent))
			if e1 != nil || e2 != nil {
				w.Fail("GenerateKey/error", fmt.Sprint(e1, e2), nil)
				break
			}
			wantPub := refx.X25519(priv2[:], nine)
			fill(pub1[:])
			fill(priv1[:])
			if pub1 == pub2 || priv1 == priv2 || !bytes.Equal(pub2[:], wantPub) {
				w.Fail("handed-out-memory/GenerateKey", "GenerateKey results share memory", nil)
			}
		case 5: // T12: nil rand == a supplied reader as far as the contract goes
			pubA, privA, e1 := x25519.GenerateKey(nil)
			privB, e2 := x25519.GeneratePrivateKey(nil)
			if e1 != nil || e2 != nil || pubA == nil || privA == nil || privB == nil {
				w.Fail("GenerateKey/nil-rand", fmt.Sprintf("nil rand: %v %v", e1, e2), nil)
				break
			}
			if !bytes.Equal(pubA[:], refx.X25519(privA[:], nine)) {
				w.Fail("GenerateKey/nil-rand-public", fmt.Sprintf("nil rand: public %x is not X25519(private, 9)", pubA[:]), nil)
			}
			if *privA == *privB || refx.IsZero32(privA[:]) || refx.IsZero32(privB[:]) {
				w.Fail("GenerateKey/nil-rand-constant", "nil rand: two generated private keys are equal or zero", nil)
			}
		}
		globals("after")
	})
}

func stdKey(seed []byte) []byte { return []byte(stded.NewKeyFromSeed(seed)) }
