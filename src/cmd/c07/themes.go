package main

// Sub-spaces added by the audit against notes/THEMES.md:
//   T5 unclamped scalars of EVERY bit length through MontgomeryPoint.Mul (values; timing is C08's)
//   T3 reuse of the typed API objects (PrivateKey / PublicKey / SharedSecret) through [A; B; A] histories, value copies
//   T7 entropy readers of GenerateKey / GeneratePrivateKey (short reads, failures, retry)
//   T1 caller memory of X25519 (inputs with spare capacity between guards)

import (
	"bytes"
	"errors"
	"fmt"
	"io"
	"math/big"

	"github.com/oasisprotocol/curve25519-voi/curve"
	"github.com/oasisprotocol/curve25519-voi/curve/scalar"
	"github.com/oasisprotocol/curve25519-voi/internal/verif/alph/alphed"
	"github.com/oasisprotocol/curve25519-voi/internal/verif/mc"
	"github.com/oasisprotocol/curve25519-voi/internal/verif/ref"
	"github.com/oasisprotocol/curve25519-voi/internal/verif/ref/refx"
	"github.com/oasisprotocol/curve25519-voi/primitives/x25519"
)

type chunkReader struct {
	r io.Reader
	n int
}

func (c chunkReader) Read(p []byte) (int, error) {
	if len(p) > c.n {
		p = p[:c.n]
	}
	return c.r.Read(p)
}

type failReader struct {
	data   []byte
	n, pos int
}

var errEntropy = errors.New("entropy source failed")

func (f *failReader) Read(p []byte) (int, error) {
	if f.pos >= f.n {
		return 0, errEntropy
	}
	k := copy(p, f.data[f.pos:f.n])
	f.pos += k
	return k, nil
}

func themes(c *mc.Ctx) {
	// ---------------------------------------------------------------- every bit length 0..255
	gen := ref.FromLE(mc.Bytes(c.Seed, "c07-bitlen", 0, 32))
	shapes := 1
	if c.Thorough {
		shapes = 3
	}
	us := [][]byte{nine, ref.LE32(big.NewInt(2))}
	if c.Thorough {
		u3 := mc.Bytes(c.Seed, "c07-bitlen-u", 0, 32)
		us = append(us, u3, ref.LE32(new(big.Int).Add(ref.P, big.NewInt(9))))
	}
	alphed.Par(c, "scalar-bit-lengths", 256*shapes*len(us), func(w *mc.W, i int) {
		bl, shape, u := i/(shapes*len(us)), (i/len(us))%shapes, us[i%len(us)]
		k := new(big.Int)
		if bl > 0 {
			top := new(big.Int).Lsh(big.NewInt(1), uint(bl-1))
			switch shape {
			case 0: // generic value of exactly bl bits
				k.Or(top, new(big.Int).Mod(gen, top))
			case 1: // 2^(bl-1)
				k.Set(top)
			default: // 2^bl - 1
				k.Sub(new(big.Int).Lsh(top, 1), big.NewInt(1))
			}
		}
		raw := ref.LE32(k)
		// SetBits documents "the low 255 bits": a 256-bit value keeps its low 255 bits
		kk := new(big.Int).SetBit(new(big.Int).Set(k), 255, 0)
		want := refx.EncodeUCoordinate(refx.Ladder(kk, refx.DecodeUCoordinate(u)))
		w.Eval(fmt.Sprintf("scalar-bit-lengths/%d", bl/64), true)
		ks, err := scalar.NewFromBits(raw)
		if err != nil {
			w.Fail("Scalar.SetBits", err.Error(), nil)
			return
		}
		var mp, mo curve.MontgomeryPoint
		copy(mp[:], u)
		mo.Mul(&mp, ks)
		if !bytes.Equal(mo[:], want) {
			w.Fail("MontgomeryPoint.Mul/bit-length", fmt.Sprintf("MontgomeryPoint.Mul(u=%x, k=%x (%d bits, unclamped))=%x want %x", u, raw, bl, mo[:], want), map[string]string{"u": hx(u), "k": hx(raw), "bits": fmt.Sprint(bl)})
		}
		if !bytes.Equal(mp[:], u) {
			w.Fail("MontgomeryPoint.Mul/argument-modified", "Mul modified its point argument", nil)
		}
	})
	for q := 0; q < 4; q++ {
		c.Require(fmt.Sprintf("scalar-bit-lengths/%d", q), int64(64*shapes*len(us)))
	}

	// ---------------------------------------------------------------- typed API: one PrivateKey / PublicKey object through [A; B; A], value copies
	nk := c.Pick(4, 10)
	alphed.Par(c, "typed-reuse", nk*nk, func(w *mc.W, i int) {
		ka, kb := mc.Bytes(c.Seed, "c07-typed", i/nk, 32), mc.Bytes(c.Seed, "c07-typed", i%nk, 32)
		if i%nk == 0 {
			kb = rep(0xff)
		}
		if i/nk == 0 {
			ka = rep(0)
		}
		w.Eval("typed-reuse", i/nk != i%nk)
		pubA, pubB := refx.X25519(ka, nine), refx.X25519(kb, nine)
		low := ref.LE32(big.NewInt(1)) // low-order public key: all-zero secret
		priv := x25519.PrivateKey(*arr(ka))
		var pub x25519.PublicKey
		var last *x25519.SharedSecret
		for step, peer := range [][]byte{pubB, pubA, low, pubB, pubB} {
			copy(pub[:], peer) // the same PublicKey object is overwritten
			want := refx.X25519(ka, peer)
			privCopy, pubCopy := priv, pub
			ss := priv.DiffieHellman(&pub)
			if !bytes.Equal(ss[:], want) || ss.IsZero() != refx.IsZero32(want) {
				w.Fail("PrivateKey.DiffieHellman/reuse", fmt.Sprintf("step %d: DiffieHellman(priv=%x, pub=%x)=%x want %x", step, ka, peer, ss[:], want), nil)
			}
			if priv != privCopy || pub != pubCopy {
				w.Fail("PrivateKey.DiffieHellman/argument-modified", fmt.Sprintf("step %d: DiffieHellman modified its receiver or argument", step), nil)
			}
			if last != nil && ss == last {
				w.Fail("PrivateKey.DiffieHellman/shared-result", "two calls returned the same SharedSecret object", nil)
			}
			last = ss
			if p := priv.Public(); !bytes.Equal(p[:], pubA) {
				w.Fail("PrivateKey.Public/reuse", fmt.Sprintf("step %d: Public()=%x want %x", step, p[:], pubA), nil)
			}
		}
		// the private key object is overwritten with another key
		priv = x25519.PrivateKey(*arr(kb))
		if p := priv.Public(); !bytes.Equal(p[:], pubB) {
			w.Fail("PrivateKey.Public/reuse", fmt.Sprintf("after overwriting the key: Public()=%x want %x", p[:], pubB), nil)
		}
		p1, p2 := priv.Public(), priv.Public()
		p1[0] ^= 0xff
		if p1 == p2 || !bytes.Equal(p2[:], pubB) {
			w.Fail("PrivateKey.Public/shared-result", "Public() results share memory", nil)
		}
		// X25519 with inputs handed over with spare capacity between guards; the result must be fresh memory
		s, sOK := alphed.Guarded(ka)
		u, uOK := alphed.Guarded(pubB)
		o1, e1 := x25519.X25519(s, u)
		o2, e2 := x25519.X25519(s, u)
		want := refx.X25519(ka, pubB)
		if e1 != nil || e2 != nil || !bytes.Equal(o1, want) || !bytes.Equal(o2, want) {
			w.Fail("X25519/value", fmt.Sprintf("X25519(%x,%x)=%x/%x want %x", ka, pubB, o1, o2, want), nil)
		} else {
			o1[0] ^= 0xff
			if !bytes.Equal(o2, want) {
				w.Fail("X25519/shared-result", "two X25519 results share memory", nil)
			}
			if cap(o1) > 32 {
				// spare capacity behind the result is harmless, but it must not be the caller's input
				_ = o1
			}
		}
		if !sOK() || !uOK() {
			w.Fail("caller-memory/X25519", "X25519 wrote to the caller's input buffers", nil)
		}
	})

	// ---------------------------------------------------------------- entropy readers
	type rcase struct {
		name  string
		chunk int
		fail  int
	}
	var rc []rcase
	for _, n := range []int{1, 7, 16, 31, 32, 100} {
		rc = append(rc, rcase{fmt.Sprintf("chunks of %d", n), n, -1})
	}
	for _, n := range []int{0, 1, 16, 31} {
		rc = append(rc, rcase{fmt.Sprintf("fails after %d bytes", n), 0, n})
	}
	alphed.Par(c, "generate-readers", len(rc)*4, func(w *mc.W, i int) {
		r, k := rc[i/4], i%4
		ent := mc.Bytes(c.Seed, "c07-entropy", k, 80)
		w.Eval("generate-readers", true)
		refPriv, err := x25519.GeneratePrivateKey(bytes.NewReader(ent[:32])) // exactly the bytes a whole read consumes
		if err != nil {
			w.Fail("GeneratePrivateKey/error", err.Error(), nil)
			return
		}
		wantPub := refx.X25519(refPriv[:], nine)
		if r.fail < 0 {
			src := bytes.NewReader(ent)
			pub, priv, err := x25519.GenerateKey(chunkReader{src, r.chunk})
			if err != nil || *priv != *refPriv || !bytes.Equal(pub[:], wantPub) {
				w.Fail("GenerateKey/short-reads", fmt.Sprintf("reader with %s: err=%v; key differs from the one generated from a whole read of the same bytes", r.name, err), nil)
			}
			if got := len(ent) - src.Len(); got != 32 {
				w.Fail("GenerateKey/consumed", fmt.Sprintf("reader with %s: %d bytes consumed, want exactly 32", r.name, got), nil)
			}
			return
		}
		pub, priv, err := x25519.GenerateKey(&failReader{data: ent, n: r.fail})
		if err == nil || pub != nil || priv != nil {
			w.Fail("GenerateKey/error-swallowed", fmt.Sprintf("reader that %s: err=%v pub=%v priv=%v", r.name, err, pub, priv), nil)
		}
		if p, err := x25519.GeneratePrivateKey(&failReader{data: ent, n: r.fail}); err == nil || p != nil {
			w.Fail("GeneratePrivateKey/error-swallowed", fmt.Sprintf("reader that %s: err=%v", r.name, err), nil)
		}
		// retry with a good reader after the failure
		pub, priv, err = x25519.GenerateKey(bytes.NewReader(ent))
		if err != nil || *priv != *refPriv || !bytes.Equal(pub[:], wantPub) {
			w.Fail("GenerateKey/retry", fmt.Sprintf("retry after a reader that %s: err=%v or a different key", r.name, err), nil)
		}
	})
}
