// C07: X25519 is the RFC 7748 function on every input, rejects exactly the
// all-zero results (and wrong lengths), Diffie-Hellman is symmetric and the
// Ed25519 -> X25519 key conversions are consistent.
//
// Oracle: package refx (literal RFC 7748 section 5 ladder in math/big, pinned
// by the RFC vectors in ref-selftest).  crypto/ecdh and x/crypto/curve25519 are
// evaluated on every case as second opinions: if they disagree with the
// reference the run is BROKEN (reference defect), never a violation.
package main

import (
	"bytes"
	"crypto/ecdh"
	stded "crypto/ed25519"
	"fmt"
	"math/big"
	"sync"

	xcurve "golang.org/x/crypto/curve25519"

	"github.com/oasisprotocol/curve25519-voi/curve"
	"github.com/oasisprotocol/curve25519-voi/curve/scalar"
	"github.com/oasisprotocol/curve25519-voi/internal/verif/alph"
	"github.com/oasisprotocol/curve25519-voi/internal/verif/alph/alphed"
	"github.com/oasisprotocol/curve25519-voi/internal/verif/mc"
	"github.com/oasisprotocol/curve25519-voi/internal/verif/ref"
	"github.com/oasisprotocol/curve25519-voi/internal/verif/ref/refmul"
	"github.com/oasisprotocol/curve25519-voi/internal/verif/ref/refx"
	"github.com/oasisprotocol/curve25519-voi/primitives/ed25519"
	"github.com/oasisprotocol/curve25519-voi/primitives/x25519"
)

func main() { mc.Main("C07", run) }

func hx(b []byte) string { return mc.Hex(b) }

var nine = func() []byte { b := make([]byte, 32); b[0] = 9; return b }()

func rep(b byte) []byte { return bytes.Repeat([]byte{b}, 32) }

// scalarStrings: 0^32, ff^32, clamping-sensitive patterns, then the scalar
// alphabet as raw little-endian bytes, then a few seed-derived strings.
func scalarStrings(seed int64, core bool, nalph int, allPatterns bool) [][]byte {
	s := alphed.NewSet()
	s.Add(rep(0))
	s.Add(rep(0xff))
	pat := func(first, last byte, fill byte) {
		b := rep(fill)
		b[0], b[31] = first, last
		s.Add(b)
	}
	// low three bits (cleared by clamping), bit 254 (set by clamping), bit 255 (cleared by clamping)
	for _, f := range []byte{0x01, 0x02, 0x04, 0x07, 0x08, 0xf8} {
		pat(f, 0x00, 0x00)
		if allPatterns {
			pat(f, 0x40, 0x00)
		}
	}
	for _, l := range []byte{0x40, 0x80, 0xc0, 0x3f, 0x7f, 0xbf} {
		pat(0x00, l, 0x00)
		if allPatterns || l == 0x7f || l == 0xbf || l == 0x3f {
			pat(0xff, l, 0xff)
		}
	}
	pat(0xf8, 0x7f, 0xff) // the largest clamped scalar
	pat(0x00, 0x40, 0x00) // the smallest clamped scalar 2^254
	vals := alph.Scalars(seed, core)
	if nalph > 0 && nalph < len(vals) {
		var sub []*big.Int
		for i := 0; i < nalph; i++ {
			sub = append(sub, vals[i*len(vals)/nalph])
		}
		vals = sub
	}
	for i, v := range vals {
		b := ref.LE32(v)
		s.Add(b)
		if i%5 == 0 { // the same value with bit 255 set
			c := append([]byte{}, b...)
			c[31] |= 0x80
			s.Add(c)
		}
	}
	ngen := 4
	if nalph > 0 && nalph <= 4 {
		ngen = 2
	}
	for i := 0; i < ngen; i++ {
		s.Add(mc.Bytes(seed, "c07-scalar", i, 32))
	}
	return s.Out
}

func arr(b []byte) *[32]byte {
	var a [32]byte
	copy(a[:], b)
	return &a
}

// secondOpinions evaluates x/crypto and crypto/ecdh; a disagreement with the reference breaks the run.
func secondOpinions(c *mc.Ctx, s, u, want []byte, zero bool) {
	xo, xerr := xcurve.X25519(s, u)
	if (xerr != nil) != zero || (xerr == nil && !bytes.Equal(xo, want)) {
		c.Broken(fmt.Sprintf("reference disagrees with x/crypto/curve25519 on k=%x u=%x: ref=%x x/crypto=%x err=%v", s, u, want, xo, xerr))
	}
	priv, e1 := ecdh.X25519().NewPrivateKey(s)
	pub, e2 := ecdh.X25519().NewPublicKey(u)
	if e1 != nil || e2 != nil {
		c.Broken(fmt.Sprintf("crypto/ecdh refused 32-byte inputs: %v %v", e1, e2))
		return
	}
	eo, eerr := priv.ECDH(pub)
	if (eerr != nil) != zero || (eerr == nil && !bytes.Equal(eo, want)) {
		c.Broken(fmt.Sprintf("reference disagrees with crypto/ecdh on k=%x u=%x: ref=%x ecdh=%x err=%v", s, u, want, eo, eerr))
	}
}

// checkCase runs every scalar-multiplication entry point on one (scalar, u)
// pair against the reference result want (zero = want is the all-zero string).
func checkCase(c *mc.Ctx, w *mc.W, s, u, want []byte, zero bool) {
	secondOpinions(c, s, u, want, zero)
	cas := map[string]string{"scalar": hx(s), "u": hx(u), "want": hx(want)}

	sIn, uIn := append([]byte{}, s...), append([]byte{}, u...)
	out, err := x25519.X25519(sIn, uIn)
	switch {
	case zero && err == nil:
		w.Fail("X25519/zero-check", fmt.Sprintf("X25519(k=%x, u=%x) returned %x without error, but the RFC 7748 result is all zero (low-order input)", s, u, out), cas)
	case !zero && err != nil:
		w.Fail("X25519/spurious-error", fmt.Sprintf("X25519(k=%x, u=%x): %v, but the RFC 7748 result is %x", s, u, err, want), cas)
	case !zero && !bytes.Equal(out, want):
		w.Fail("X25519/value", fmt.Sprintf("X25519(k=%x, u=%x)=%x want %x", s, u, out, want), cas)
	}
	if !bytes.Equal(sIn, s) || !bytes.Equal(uIn, u) {
		w.Fail("X25519/input-modified", "X25519 modified its input slices", cas)
	}
	var dst [32]byte
	x25519.ScalarMult(&dst, arr(s), arr(u))
	if !bytes.Equal(dst[:], want) {
		w.Fail("ScalarMult/value", fmt.Sprintf("ScalarMult(k=%x, u=%x)=%x want %x", s, u, dst[:], want), cas)
	}
	al := arr(u) // dst aliases base
	x25519.ScalarMult(al, arr(s), al)
	if !bytes.Equal(al[:], want) {
		w.Fail("ScalarMult/alias", fmt.Sprintf("ScalarMult(dst=base) k=%x u=%x gave %x want %x", s, u, al[:], want), cas)
	}
	ks, kerr := scalar.NewFromBits(refx.Clamp(s))
	if kerr != nil {
		w.Fail("Scalar.SetBits", kerr.Error(), cas)
		return
	}
	var mp, mo curve.MontgomeryPoint
	copy(mp[:], u)
	if ret := mo.Mul(&mp, ks); ret != &mo || !bytes.Equal(mo[:], want) {
		w.Fail("MontgomeryPoint.Mul/value", fmt.Sprintf("MontgomeryPoint.Mul(u=%x, clamp(k=%x))=%x want %x", u, s, mo[:], want), cas)
	}
	priv, pub := x25519.PrivateKey(*arr(s)), x25519.PublicKey(*arr(u))
	ss := priv.DiffieHellman(&pub)
	if !bytes.Equal(ss[:], want) {
		w.Fail("PrivateKey.DiffieHellman/value", fmt.Sprintf("DiffieHellman(k=%x, u=%x)=%x want %x", s, u, ss[:], want), cas)
	}
	if ss.IsZero() != zero {
		w.Fail("SharedSecret.IsZero", fmt.Sprintf("IsZero()=%v for shared secret %x", ss.IsZero(), ss[:]), cas)
	}
}

// sparseSpace: (scalar, u) pairs whose correct X25519 output is non-zero only
// in ONE byte (every byte position 0..31) or only in ONE 64-bit word (each of
// the four words, all eight bytes of the word non-zero).  The target
// T = k * 2^(8*pos) is accepted when the reference finds it in the prime-order
// subgroup of the curve (order L) or of the twist (order L'); the input is
// U = [s^-1 mod order] T computed with the reference ladder, so that
// X25519(s, U) = T.  The oracle is, as everywhere, the reference ladder on
// (s, U); that it reproduces T is a reference self-check.
func sparseSpace(c *mc.Ctx) {
	type target struct {
		t     *big.Int
		q     *big.Int
		curve bool
		pos   int // byte position, or -1-word for whole-word targets
		k     *big.Int
	}
	perPos := c.Pick(1, 2) // hits per (byte position, curve/twist); quick: first hit of either kind
	var mu sync.Mutex
	found := make([][]target, 36)
	var wg sync.WaitGroup
	for slot := 0; slot < 36; slot++ {
		wg.Add(1)
		go func(slot int) {
			defer wg.Done()
			var res []target
			nc, nt := 0, 0
			try := func(k *big.Int, shift uint, pos int) bool {
				T := new(big.Int).Lsh(k, shift)
				if T.Cmp(refx.P) >= 0 {
					return false
				}
				ok, q := refx.PrimeOrderSubgroup(T)
				if !ok {
					return false
				}
				onc := q.Cmp(refx.L) == 0
				if c.Thorough {
					if (onc && nc >= perPos) || (!onc && nt >= perPos) {
						return false
					}
				}
				if onc {
					nc++
				} else {
					nt++
				}
				res = append(res, target{t: T, q: q, curve: onc, pos: pos, k: new(big.Int).Set(k)})
				if c.Thorough {
					return nc >= perPos && nt >= perPos
				}
				return true
			}
			if slot < 32 { // single byte at position slot
				max := int64(255)
				if slot == 31 {
					max = 127
				}
				for k := int64(1); k <= max; k++ {
					if try(big.NewInt(k), uint(8*slot), slot) {
						break
					}
				}
			} else { // whole word: every byte of the word non-zero, scanning down from ff..ff (7f.. for the top word)
				word := slot - 32
				k := new(big.Int).Sub(new(big.Int).Lsh(big.NewInt(1), 64), big.NewInt(1))
				if word == 3 {
					k.Rsh(k, 1)
				}
				for n := 0; n < 400; n++ {
					hasZeroByte := false
					for _, b := range k.Bytes() {
						if b == 0 {
							hasZeroByte = true
						}
					}
					if !hasZeroByte && try(k, uint(64*word), -1-word) {
						break
					}
					k = new(big.Int).Sub(k, big.NewInt(1))
				}
			}
			mu.Lock()
			found[slot] = res
			mu.Unlock()
		}(slot)
	}
	wg.Wait()
	var targets []target
	for _, r := range found {
		targets = append(targets, r...)
	}
	scalars := [][]byte{mc.Bytes(c.Seed, "c07-scalar", 0, 32), rep(0xff)}
	if c.Thorough {
		scalars = append(scalars, rep(0), mc.Bytes(c.Seed, "c07-scalar", 1, 32))
	}
	c.Rep.Extra["sparse_targets"] = len(targets)
	// inputs (reference side): U = [s^-1] T, with bit 255 clear and set
	type scase struct {
		tg   target
		s, u []byte
	}
	cases := make([]scase, len(targets)*len(scalars)*2)
	for ti := range targets {
		for si := range scalars {
			wg.Add(1)
			go func(ti, si int) {
				defer wg.Done()
				u := refx.Preimage(scalars[si], targets[ti].t, targets[ti].q)
				for v := 0; v < 2; v++ {
					var uu []byte
					if u != nil {
						uu = append([]byte{}, u...)
						uu[31] |= byte(v) << 7
					}
					cases[(ti*len(scalars)+si)*2+v] = scase{targets[ti], scalars[si], uu}
				}
			}(ti, si)
		}
	}
	wg.Wait()
	alphed.Par(c, "sparse-output", len(cases), func(w *mc.W, i int) {
		cs := cases[i]
		if cs.u == nil {
			c.Broken("sparse-output: clamped scalar not invertible modulo the subgroup order")
			return
		}
		want := refx.X25519(cs.s, cs.u)
		if !bytes.Equal(want, refx.EncodeUCoordinate(cs.tg.t)) {
			c.Broken(fmt.Sprintf("reference inconsistency: X25519(%x, preimage %x) = %x is not the target %x", cs.s, cs.u, want, refx.EncodeUCoordinate(cs.tg.t)))
			return
		}
		word := cs.tg.pos / 8
		kind := "byte"
		if cs.tg.pos < 0 {
			word, kind = -1-cs.tg.pos, "word"
		}
		grp := "twist"
		if cs.tg.curve {
			grp = "curve"
		}
		w.Eval(fmt.Sprintf("sparse-output/%s-in-word%d", kind, word), true)
		w.Eval("sparse-output/"+grp, true)
		checkCase(c, w, cs.s, cs.u, want, false)
		if i%23 == 0 {
			w.Sample(map[string]string{"op": "X25519 with a one-" + kind + " output", "scalar": hx(cs.s), "u": hx(cs.u), "output": hx(want)})
		}
	})
	for word := 0; word < 4; word++ {
		c.Require(fmt.Sprintf("sparse-output/byte-in-word%d", word), int64(8*len(scalars)*2))
		c.Require(fmt.Sprintf("sparse-output/word-in-word%d", word), int64(len(scalars)*2))
	}
	c.Require("sparse-output/curve", int64(4*len(scalars)*2))
	c.Require("sparse-output/twist", int64(4*len(scalars)*2))
}

// aliasSpace: every aliasing pattern of the pointer / slice arguments, an
// in-place run of the RFC 7748 5.2 iteration, and wrong-length slices that
// alias the exported Basepoint global.  Oracle as everywhere: the reference
// ladder on the argument CONTENTS at call time; error iff a length is wrong or
// the result is all zero; arguments that are not the destination are unchanged.
func aliasSpace(c *mc.Ctx) {
	// strings used both as scalars and as points
	A := alphed.NewSet()
	for _, v := range alphed.LowOrderU()[:5] {
		A.AddInt(v)
	}
	A.Add(nine)
	A.Add(rep(0xff))
	A.AddInt(big.NewInt(2)) // twist
	A.AddInt(new(big.Int).Add(ref.P, big.NewInt(3)))
	for i := 0; i < c.Pick(6, 24); i++ {
		A.Add(mc.Bytes(c.Seed, "c07-alias", i, 32))
	}
	str := A.Out
	n := len(str)
	c.Rep.Extra["alphabet_alias_strings"] = n
	isNine := func() bool { return bytes.Equal(x25519.Basepoint, nine) }

	// all ordered pairs (k, u) of the strings; the diagonal is the "same array" family
	alphed.Par(c, "aliasing", n*n, func(w *mc.W, i int) {
		k, u := str[i/n], str[i%n]
		want := refx.X25519(k, u)
		zero := refx.IsZero32(want)
		w.Eval("aliasing", true)
		cas := map[string]string{"scalar": hx(k), "u": hx(u), "want": hx(want)}
		fail := func(key, pattern string, got []byte) {
			w.Fail(key, fmt.Sprintf("%s with k=%x u=%x gave %x want %x", pattern, k, u, got, want), cas)
		}
		// ScalarMult: dst == in
		ka, ua := arr(k), arr(u)
		x25519.ScalarMult(ka, ka, ua)
		if !bytes.Equal(ka[:], want) {
			fail("ScalarMult/alias-dst-in", "ScalarMult(&k, &k, &u)", ka[:])
		}
		if !bytes.Equal(ua[:], u) {
			w.Fail("ScalarMult/argument-modified", "ScalarMult(&k, &k, &u) modified u", cas)
		}
		// ScalarMult: dst == base
		ka, ua = arr(k), arr(u)
		x25519.ScalarMult(ua, ka, ua)
		if !bytes.Equal(ua[:], want) {
			fail("ScalarMult/alias-dst-base", "ScalarMult(&u, &k, &u)", ua[:])
		}
		if !bytes.Equal(ka[:], k) {
			w.Fail("ScalarMult/argument-modified", "ScalarMult(&u, &k, &u) modified k", cas)
		}
		// no aliasing, but dst holds garbage / the scalar / the point beforehand
		for pre, init := range [][]byte{rep(0xa5), k, u} {
			ka, ua = arr(k), arr(u)
			d := arr(init)
			x25519.ScalarMult(d, ka, ua)
			if !bytes.Equal(d[:], want) || !bytes.Equal(ka[:], k) || !bytes.Equal(ua[:], u) {
				fail("ScalarMult/dst-prefilled", fmt.Sprintf("ScalarMult(&dst, &k, &u), dst prefilled (%d)", pre), d[:])
			}
		}
		// MontgomeryPoint.Mul: receiver == point
		ks, _ := scalar.NewFromBits(refx.Clamp(k))
		var mp curve.MontgomeryPoint
		copy(mp[:], u)
		mp.Mul(&mp, ks)
		if !bytes.Equal(mp[:], want) {
			fail("MontgomeryPoint.Mul/alias", "p.Mul(p, clamp(k))", mp[:])
		}
		// slices: scalar and point are adjacent / reversed halves of one buffer; result must not disturb them
		buf := append(append([]byte{}, k...), u...)
		out, err := x25519.X25519(buf[:32:32], buf[32:64:64])
		if (err != nil) != zero || (err == nil && !bytes.Equal(out, want)) {
			fail("X25519/shared-buffer", fmt.Sprintf("X25519(buf[:32], buf[32:]) err=%v", err), out)
		}
		if !bytes.Equal(buf[:32], k) || !bytes.Equal(buf[32:], u) {
			w.Fail("X25519/input-modified", "X25519 modified its shared input buffer", cas)
		}
		if i/n == i%n {
			// the same array / slice for scalar and point (and destination)
			a := k
			w.Eval("aliasing/same-array", true)
			x := arr(a)
			var d [32]byte
			x25519.ScalarMult(&d, x, x)
			if !bytes.Equal(d[:], want) || !bytes.Equal(x[:], a) {
				fail("ScalarMult/alias-in-base", "ScalarMult(&dst, &a, &a)", d[:])
			}
			x25519.ScalarMult(x, x, x)
			if !bytes.Equal(x[:], want) {
				fail("ScalarMult/alias-all", "ScalarMult(&a, &a, &a)", x[:])
			}
			sl := append([]byte{}, a...)
			out, err := x25519.X25519(sl, sl)
			if (err != nil) != zero || (err == nil && !bytes.Equal(out, want)) || !bytes.Equal(sl, a) {
				fail("X25519/alias-scalar-point", fmt.Sprintf("X25519(a, a) err=%v", err), out)
			}
			// typed API: the public key is the private key's memory
			priv := x25519.PrivateKey(*arr(a))
			ss := priv.DiffieHellman((*x25519.PublicKey)(&priv))
			if !bytes.Equal(ss[:], want) || !bytes.Equal(priv[:], a) || ss.IsZero() != zero {
				fail("PrivateKey.DiffieHellman/alias", "priv.DiffieHellman((*PublicKey)(&priv))", ss[:])
			}
			// ScalarBaseMult: dst == in
			wb := refx.X25519(a, nine)
			x = arr(a)
			x25519.ScalarBaseMult(x, x)
			if !bytes.Equal(x[:], wb) {
				w.Fail("ScalarBaseMult/alias-dst-in", fmt.Sprintf("ScalarBaseMult(&k, &k) with k=%x gave %x want %x", a, x[:], wb), cas)
			}
			// the scalar IS the Basepoint global's content / the point is the global, scalar a copy of it etc.
			out, err = x25519.X25519(a, x25519.Basepoint)
			if err != nil || !bytes.Equal(out, wb) || !isNine() {
				w.Fail("X25519/Basepoint-slice", fmt.Sprintf("X25519(k=%x, Basepoint)=%x err=%v want %x", a, out, err, wb), cas)
			}
		}
		if !isNine() {
			w.Fail("Basepoint/modified", "the exported Basepoint global was modified", cas)
		}
	})

	// in-place run of the RFC 7748 section 5.2 iteration: k, u = X25519(k, u), k
	iters := c.Pick(24, 160)
	starts := [][]byte{nine, mc.Bytes(c.Seed, "c07-iter", 0, 32), rep(0xff)}
	alphed.Par(c, "in-place-iteration", len(starts)*3, func(w *mc.W, i int) {
		start, variant := starts[i/3], i%3
		rk, ru := append([]byte{}, start...), append([]byte{}, start...)
		k, u := arr(start), arr(start)
		for it := 1; it <= iters; it++ {
			r := refx.X25519(rk, ru)
			ru, rk = rk, r
			switch variant {
			case 0: // result written over the point, then the roles are swapped
				x25519.ScalarMult(u, k, u)
				k, u = u, k
			case 1: // result written over the scalar, the old scalar saved by value
				old := *k
				x25519.ScalarMult(k, k, u)
				*u = old
			case 2: // the slice API on slices of the two arrays, copied back in place
				out, err := x25519.X25519(k[:], u[:])
				if err != nil {
					w.Fail("X25519/iteration-error", fmt.Sprintf("iteration %d from %x: %v", it, start, err), nil)
					return
				}
				copy(u[:], k[:])
				copy(k[:], out)
			}
			w.Eval("in-place-iteration", true)
			if !bytes.Equal(k[:], rk) || !bytes.Equal(u[:], ru) {
				w.Fail(fmt.Sprintf("ScalarMult/in-place-iteration-variant%d", variant), fmt.Sprintf("in-place iteration %d from k=u=%x (variant %d): k=%x u=%x want k=%x u=%x", it, start, variant, k[:], u[:], rk, ru), map[string]string{"start": hx(start), "iteration": fmt.Sprint(it)})
				return
			}
		}
	})

	// slices that alias the exported global Basepoint (and a private buffer) with every length
	type sl struct {
		name string
		mk   func(buf []byte) []byte
	}
	var shapes []sl
	for k := 0; k <= 32; k++ {
		k := k
		shapes = append(shapes, sl{fmt.Sprintf("[:%d]", k), func(b []byte) []byte { return b[:k] }})
		shapes = append(shapes, sl{fmt.Sprintf("[:%d:%d]", k, k), func(b []byte) []byte { return b[:k:k] }})
		shapes = append(shapes, sl{fmt.Sprintf("[%d:]", k), func(b []byte) []byte { return b[k:] }})
	}
	shapes = append(shapes, sl{"[1:32:32]", func(b []byte) []byte { return b[1:32:32] }}, sl{"[0:1:1]", func(b []byte) []byte { return b[0:1:1] }},
		sl{"[16:]", func(b []byte) []byte { return b[16:] }}, sl{"copy", func(b []byte) []byte { return append([]byte{}, b...) }})
	other := mc.Bytes(c.Seed, "c07-alias-other", 0, 32)
	alphed.Par(c, "global-alias-lengths", len(shapes)*4, func(w *mc.W, i int) {
		sh, mode := shapes[i/4], i%4
		private := append([]byte{}, nine...) // same contents as the global, different memory
		var s, u []byte
		switch mode {
		case 0: // point is a slice of the global
			s, u = other, sh.mk(x25519.Basepoint)
		case 1: // point is the same slice shape of a private copy
			s, u = other, sh.mk(private)
		case 2: // scalar is a slice of the global, generic point
			s, u = sh.mk(x25519.Basepoint), other
		case 3: // scalar is a slice of the global and the point is the global itself
			s, u = sh.mk(x25519.Basepoint), x25519.Basepoint
		}
		okLen := len(s) == 32 && len(u) == 32
		wantErr := !okLen
		var want []byte
		if okLen {
			want = refx.X25519(s, u)
			wantErr = refx.IsZero32(want)
		}
		w.Eval(fmt.Sprintf("global-alias-lengths/ok=%v", okLen), !okLen)
		out, err := x25519.X25519(s, u)
		desc := fmt.Sprintf("mode %d, slice shape %s (scalar %d bytes, point %d bytes)", mode, sh.name, len(s), len(u))
		if (err != nil) != wantErr {
			w.Fail("X25519/length-global-alias", fmt.Sprintf("X25519 with %s: out=%x err=%v, expected error=%v", desc, out, err, wantErr), map[string]string{"shape": sh.name, "mode": fmt.Sprint(mode)})
		} else if err == nil && !bytes.Equal(out, want) {
			w.Fail("X25519/value-global-alias", fmt.Sprintf("X25519 with %s = %x want %x", desc, out, want), map[string]string{"shape": sh.name, "mode": fmt.Sprint(mode)})
		}
		if !isNine() || !bytes.Equal(private, nine) {
			w.Fail("Basepoint/modified", "the Basepoint global (or the private copy) was modified", nil)
		}
	})
}

func run(c *mc.Ctx) {
	U := alphed.UCoordsSized(c.Seed, c.Pick(10, 40), int64(c.Pick(8, 40)))
	S := scalarStrings(c.Seed, true, c.Pick(3, 40), c.Thorough)
	c.Rep.Extra["alphabet_U_strings"] = len(U)
	c.Rep.Extra["alphabet_scalar_strings"] = len(S)

	// reference-side classification of every u string
	type uinfo struct {
		val      *big.Int
		onCurve  bool
		lowOrder bool
		noncanon bool
	}
	ui := make([]uinfo, len(U))
	for i, u := range U {
		v := refx.DecodeUCoordinate(u)
		ui[i] = uinfo{val: v, onCurve: refx.OnCurve(v), noncanon: ref.FromLE(u).Cmp(ref.P) >= 0}
		// low order <=> [8]P = O on curve or twist <=> Ladder(8, u) = 0
		ui[i].lowOrder = refx.Ladder(big.NewInt(8), v).Sign() == 0
	}

	// ---------------------------------------------------------------- ladder: U x S
	ns := len(S)
	alphed.Par(c, "ladder", len(U)*ns, func(w *mc.W, i int) {
		u, s := U[i/ns], S[i%ns]
		inf := ui[i/ns]
		want := refx.X25519(s, u)
		zero := refx.IsZero32(want)
		if inf.lowOrder && !zero {
			c.Broken(fmt.Sprintf("reference inconsistency: X25519(%x,%x) is not zero for a low-order u", s, u))
			return
		}
		cls := "ladder/twist"
		switch {
		case zero:
			cls = "ladder/low-order"
		case inf.onCurve:
			cls = "ladder/curve"
		}
		if inf.noncanon {
			cls += "+noncanonical-u"
		}
		w.Eval(cls, zero || inf.noncanon || !inf.onCurve)
		checkCase(c, w, s, u, want, zero)
		if i%997 == 0 {
			w.Sample(map[string]string{"op": "X25519", "scalar": hx(s), "u": hx(u), "class": cls})
		}
	})
	c.Require("ladder/low-order", int64(5*ns))
	c.Require("ladder/low-order+noncanonical-u", int64(9*ns))
	c.Require("ladder/curve", int64(20*ns))
	c.Require("ladder/twist", int64(10*ns)) // 10 seed-independent members (the generic values add ~half of theirs)
	c.Require("ladder/curve+noncanonical-u", int64(20*ns))
	c.Require("ladder/twist+noncanonical-u", int64(12*ns))

	// ---------------------------------------------------------------- MontgomeryPoint.Mul with unclamped scalars
	nuc := c.Pick(36, 100)
	if nuc > len(U) {
		nuc = len(U)
	}
	// spread over U but keep the low-order head
	uidx := make([]int, nuc)
	for k := range uidx {
		if k < 30 {
			uidx[k] = k
		} else {
			uidx[k] = 30 + (k-30)*(len(U)-30)/(nuc-30)
		}
	}
	alphed.Par(c, "montgomery-mul-unclamped", nuc*ns, func(w *mc.W, i int) {
		u, s := U[uidx[i/ns]], S[i%ns]
		k := ref.FromLE(s)
		k.SetBit(k, 255, 0) // SetBits documents: the low 255 bits
		want := refx.EncodeUCoordinate(refx.Ladder(k, refx.DecodeUCoordinate(u)))
		w.Eval("montgomery-mul-unclamped", k.Bit(0) == 1 || k.Bit(254) == 0)
		ks, err := scalar.NewFromBits(s)
		if err != nil {
			w.Fail("Scalar.SetBits", err.Error(), nil)
			return
		}
		var mp, mo curve.MontgomeryPoint
		copy(mp[:], u)
		mo.Mul(&mp, ks)
		if !bytes.Equal(mo[:], want) {
			w.Fail("MontgomeryPoint.Mul/unclamped", fmt.Sprintf("MontgomeryPoint.Mul(u=%x, k=%x (no clamping))=%x want %x", u, ref.LE32(k), mo[:], want), map[string]string{"scalar": hx(s), "u": hx(u)})
		}
		mp.Mul(&mp, ks) // aliasing
		if !bytes.Equal(mp[:], want) {
			w.Fail("MontgomeryPoint.Mul/alias", fmt.Sprintf("p.Mul(p, k) u=%x k=%x gave %x want %x", u, ref.LE32(k), mp[:], want), nil)
		}
	})

	// ---------------------------------------------------------------- sparse outputs: results that are non-zero in one byte / one word only
	sparseSpace(c)

	// ---------------------------------------------------------------- carry seams of the multiplication by 121666 in the first ladder step
	seams := alphed.Mul121666Seams(c.Thorough)
	seamS := [][]byte{mc.Bytes(c.Seed, "c07-scalar", 0, 32)}
	if c.Thorough {
		seamS = append(seamS, rep(0xff), rep(0))
	}
	c.Rep.Extra["alphabet_seam_u_strings"] = len(seams)
	alphed.Par(c, "mul121666-seam", len(seams)*len(seamS), func(w *mc.W, i int) {
		sm, s := seams[i/len(seamS)], seamS[i%len(seamS)]
		want := refx.X25519(s, sm.U)
		zero := refx.IsZero32(want)
		cls := "mul121666-seam/cold"
		if sm.Hot {
			cls = "mul121666-seam/hot"
		}
		w.Eval(fmt.Sprintf("%s:limb%d", cls, sm.Limb), sm.Hot)
		checkCase(c, w, s, sm.U, want, zero)
		if i%97 == 0 {
			w.Sample(map[string]string{"op": "X25519 on a Mul121666 carry seam", "u": hx(sm.U), "limb": fmt.Sprint(sm.Limb), "j": fmt.Sprint(sm.J), "lower": sm.Lower, "fill": sm.Fill})
		}
	})
	for limb := 1; limb <= 4; limb++ {
		c.Require(fmt.Sprintf("mul121666-seam/hot:limb%d", limb), int64(14*4*len(seamS)))
		c.Require(fmt.Sprintf("mul121666-seam/cold:limb%d", limb), int64(14*len(seamS)))
	}

	// ---------------------------------------------------------------- fixed base
	SB := scalarStrings(c.Seed, !c.Thorough, 0, true)
	c.Rep.Extra["alphabet_basemult_scalars"] = len(SB)
	alphed.Par(c, "basemult", len(SB), func(w *mc.W, i int) {
		s := SB[i]
		want := refx.X25519(s, nine)
		w.Eval("basemult", !bytes.Equal(s, refx.Clamp(s)))
		if refx.IsZero32(want) {
			c.Broken("reference: a clamped multiple of the base point is zero")
			return
		}
		secondOpinions(c, s, nine, want, false)
		cas := map[string]string{"scalar": hx(s), "want": hx(want)}
		var dst [32]byte
		x25519.ScalarBaseMult(&dst, arr(s))
		if !bytes.Equal(dst[:], want) {
			w.Fail("ScalarBaseMult/value", fmt.Sprintf("ScalarBaseMult(k=%x)=%x want X25519(k,9)=%x", s, dst[:], want), cas)
		}
		// the Basepoint slice itself (the library may take a fixed-base path on pointer equality) ...
		out, err := x25519.X25519(s, x25519.Basepoint)
		if err != nil || !bytes.Equal(out, want) {
			w.Fail("X25519/Basepoint-slice", fmt.Sprintf("X25519(k=%x, Basepoint)=%x err=%v want %x", s, out, err, want), cas)
		}
		out, err = x25519.X25519(s, x25519.Basepoint[0:32:32])
		if err != nil || !bytes.Equal(out, want) {
			w.Fail("X25519/Basepoint-reslice", fmt.Sprintf("X25519(k=%x, Basepoint[0:32])=%x err=%v want %x", s, out, err, want), cas)
		}
		// ... and a copy of it
		out, err = x25519.X25519(s, append([]byte{}, x25519.Basepoint...))
		if err != nil || !bytes.Equal(out, want) {
			w.Fail("X25519/Basepoint-copy", fmt.Sprintf("X25519(k=%x, copy of Basepoint)=%x err=%v want %x", s, out, err, want), cas)
		}
		if !bytes.Equal(x25519.Basepoint, nine) || !bytes.Equal(curve.X25519_BASEPOINT[:], nine) {
			w.Fail("Basepoint/constant", "the Basepoint constant is not 9", nil)
		}
		priv := x25519.PrivateKey(*arr(s))
		if pub := priv.Public(); !bytes.Equal(pub[:], want) {
			w.Fail("PrivateKey.Public/value", fmt.Sprintf("PrivateKey(%x).Public()=%x want %x", s, pub[:], want), cas)
		}
		ks, _ := scalar.NewFromBits(refx.Clamp(s))
		var mo curve.MontgomeryPoint
		mo.Mul(curve.X25519_BASEPOINT, ks)
		if !bytes.Equal(mo[:], want) {
			w.Fail("MontgomeryPoint.Mul/basepoint", fmt.Sprintf("Mul(X25519_BASEPOINT, clamp(%x))=%x want %x", s, mo[:], want), cas)
		}
		if i%101 == 0 {
			w.Sample(map[string]string{"op": "ScalarBaseMult / X25519(k, Basepoint)", "scalar": hx(s)})
		}
	})

	// ---------------------------------------------------------------- Diffie-Hellman symmetry on all pairs
	D := scalarStrings(c.Seed, true, c.Pick(2, 36), false)
	nd := len(D)
	c.Rep.Extra["alphabet_dh_scalars"] = nd
	refPub := make([][]byte, nd)
	var wg sync.WaitGroup
	for k := range D {
		wg.Add(1)
		go func(k int) {
			defer wg.Done()
			refPub[k] = refx.X25519(D[k], nine)
		}(k)
	}
	wg.Wait()
	alphed.Par(c, "dh", nd*nd, func(w *mc.W, i int) {
		ia, ib := i/nd, i%nd
		a, b := D[ia], D[ib]
		// reference shared secret, computed in one canonical orientation (lower index is the scalar);
		// the mirrored orientation is recomputed on a fixed eighth of the pairs as a reference self-check.
		lo, hi := ia, ib
		if lo > hi {
			lo, hi = hi, lo
		}
		want := refx.X25519(D[lo], refPub[hi])
		if (ia+3*ib)%8 == 0 && !bytes.Equal(want, refx.X25519(D[hi], refPub[lo])) {
			c.Broken(fmt.Sprintf("reference: DH not symmetric for %x, %x", a, b))
			return
		}
		w.Eval("dh", ia != ib)
		cas := map[string]string{"a": hx(a), "b": hx(b)}
		pa, e1 := x25519.X25519(a, x25519.Basepoint)
		pb, e2 := x25519.X25519(b, x25519.Basepoint)
		if e1 != nil || e2 != nil || !bytes.Equal(pa, refPub[ia]) || !bytes.Equal(pb, refPub[ib]) {
			w.Fail("X25519/public-key", fmt.Sprintf("public keys of %x, %x: %x (err %v), %x (err %v) want %x, %x", a, b, pa, e1, pb, e2, refPub[ia], refPub[ib]), cas)
			return
		}
		sab, e1 := x25519.X25519(a, pb)
		sba, e2 := x25519.X25519(b, pa)
		if e1 != nil || e2 != nil || !bytes.Equal(sab, sba) {
			w.Fail("X25519/dh-symmetry", fmt.Sprintf("X25519(a, X25519(b,9))=%x (err %v) but X25519(b, X25519(a,9))=%x (err %v), a=%x b=%x", sab, e1, sba, e2, a, b), cas)
		}
		if !bytes.Equal(sab, want) {
			w.Fail("X25519/dh-value", fmt.Sprintf("shared secret of a=%x b=%x is %x want %x", a, b, sab, want), cas)
		}
		// the typed API
		ka, kb := x25519.PrivateKey(*arr(a)), x25519.PrivateKey(*arr(b))
		s1, s2 := ka.DiffieHellman(kb.Public()), kb.DiffieHellman(ka.Public())
		if *s1 != *s2 || !bytes.Equal(s1[:], want) || s1.IsZero() {
			w.Fail("PrivateKey.DiffieHellman/symmetry", fmt.Sprintf("typed DH of a=%x b=%x: %x vs %x want %x", a, b, s1[:], s2[:], want), cas)
		}
	})

	// ---------------------------------------------------------------- argument aliasing, in-place iteration, slices of the exported global
	aliasSpace(c)

	// ---------------------------------------------------------------- audit themes (notes/THEMES.md): every bit length, typed API reuse, entropy readers
	themes(c)

	// ---------------------------------------------------------------- lengths
	longS := mc.Bytes(c.Seed, "c07-len-scalar", 0, 300)
	longU := mc.Bytes(c.Seed, "c07-len-point", 0, 300)
	type lp struct{ n, m int }
	var L []lp
	for n := 0; n <= 300; n++ {
		L = append(L, lp{n, 32})
	}
	for m := 0; m <= 300; m++ {
		if m != 32 {
			L = append(L, lp{32, m})
		}
	}
	for _, n := range []int{0, 1, 31, 33, 64, 256} {
		for _, m := range []int{0, 1, 31, 33, 64, 256} {
			L = append(L, lp{n, m})
		}
	}
	alphed.Par(c, "lengths", len(L)*2, func(w *mc.W, i int) {
		l, variant := L[i/2], i%2
		s, u := longS[:l.n:l.n], longU[:l.m:l.m]
		if variant == 1 { // nil instead of empty, zero bytes otherwise
			s, u = make([]byte, l.n), make([]byte, l.m)
			if l.n == 0 {
				s = nil
			}
			if l.m == 0 {
				u = nil
			}
			if l.m == 32 {
				u[0] = 9 // not a low-order point
			}
		}
		okLen := l.n == 32 && l.m == 32
		wantErr := !okLen
		var want []byte
		if okLen {
			want = refx.X25519(s, u)
			wantErr = refx.IsZero32(want)
		}
		w.Eval(fmt.Sprintf("lengths/ok=%v", okLen), !okLen)
		out, err := x25519.X25519(s, u)
		if (err != nil) != wantErr {
			w.Fail("X25519/length", fmt.Sprintf("X25519(scalar of %d bytes, point of %d bytes): err=%v, expected error=%v", l.n, l.m, err, wantErr), map[string]int{"scalar_len": l.n, "point_len": l.m})
		} else if err == nil && !bytes.Equal(out, want) {
			w.Fail("X25519/value", fmt.Sprintf("X25519(%x,%x)=%x want %x", s, u, out, want), nil)
		}
		if _, xerr := xcurve.X25519(s, u); (xerr != nil) != wantErr {
			c.Broken(fmt.Sprintf("x/crypto disagrees on lengths %d,%d: %v", l.n, l.m, xerr))
		}
	})

	// ---------------------------------------------------------------- key generation helpers (typed API)
	alphed.Par(c, "generate", 8, func(w *mc.W, i int) {
		entropy := mc.Bytes(c.Seed, "c07-generate", i, 40)
		w.Eval("generate", true)
		pub, priv, err := x25519.GenerateKey(bytes.NewReader(entropy))
		if err != nil {
			w.Fail("GenerateKey/error", err.Error(), nil)
			return
		}
		if want := refx.X25519(priv[:], nine); !bytes.Equal(pub[:], want) {
			w.Fail("GenerateKey/public", fmt.Sprintf("GenerateKey: public %x is not X25519(private %x, 9)=%x", pub[:], priv[:], want), nil)
		}
		p2, err := x25519.GeneratePrivateKey(bytes.NewReader(entropy))
		if err != nil || *p2 != *priv {
			w.Fail("GeneratePrivateKey/deterministic", "GeneratePrivateKey is not a function of the entropy read", nil)
		}
		if _, _, err := x25519.GenerateKey(bytes.NewReader(entropy[:31])); err == nil {
			w.Fail("GenerateKey/short-read", "GenerateKey did not fail on a 31-byte entropy source", nil)
		}
	})

	// ---------------------------------------------------------------- Ed25519 -> X25519 private/public conversion on honest keys
	nseed := c.Pick(64, 768)
	alphed.Par(c, "convert-keypair", nseed, func(w *mc.W, i int) {
		var seed []byte
		switch {
		case i == 0:
			seed = rep(0)
		case i == 1:
			seed = rep(0xff)
		case i < 18:
			seed = rep(byte(i-2)<<4 | byte(i-2))
		default:
			seed = mc.Bytes(c.Seed, "c07-seed", i, 32)
		}
		w.Eval("convert-keypair", i < 18)
		cas := map[string]string{"seed": hx(seed)}
		std := stded.NewKeyFromSeed(seed) // independent key pair (Go standard library)
		stdPub := []byte(std.Public().(stded.PublicKey))
		h := ref.SHA512(seed)
		a := ref.ClampInt(h[:32])
		A := refmul.BaseMul(a)
		if !bytes.Equal(A.Encode(), stdPub) {
			c.Broken("reference: Ed25519 public key differs from crypto/ed25519")
			return
		}
		wantPub := ref.LE32(A.ToMontgomeryU())
		if !bytes.Equal(wantPub, refx.X25519(h[:32], nine)) {
			c.Broken("reference: birational map of [a]B differs from X25519(a, 9)")
			return
		}
		for k, priv := range []ed25519.PrivateKey{ed25519.PrivateKey(append([]byte{}, std...)), ed25519.NewKeyFromSeed(seed)} {
			if k == 1 && !bytes.Equal(priv, std) {
				w.Fail("ed25519.NewKeyFromSeed", fmt.Sprintf("seed %x: library key pair differs from crypto/ed25519", seed), cas)
				continue
			}
			xpriv := x25519.EdPrivateKeyToX25519(priv)
			if len(xpriv) != 32 {
				w.Fail("EdPrivateKeyToX25519/length", fmt.Sprintf("result has %d bytes", len(xpriv)), cas)
				continue
			}
			xpub, ok := x25519.EdPublicKeyToX25519(ed25519.PublicKey(priv[32:]))
			if !ok || !bytes.Equal(xpub, wantPub) {
				w.Fail("EdPublicKeyToX25519/value", fmt.Sprintf("EdPublicKeyToX25519(%x)=%x ok=%v want (1+y)/(1-y)=%x", priv[32:], xpub, ok, wantPub), cas)
			}
			// the property: the converted public key is the X25519 public key of the converted private key
			// (X25519 is a function of the clamped scalar: when clamp(xpriv) is the Ed25519 secret scalar a,
			// the reference ladder result is wantPub, already computed above; otherwise run the ladder.)
			got := wantPub
			if refx.DecodeScalar25519(xpriv).Cmp(a) != 0 {
				got = refx.X25519(xpriv, nine)
			}
			if !bytes.Equal(got, wantPub) {
				w.Fail("EdPrivateKeyToX25519/pair", fmt.Sprintf("seed %x: X25519(EdPrivateKeyToX25519(priv)=%x, 9)=%x (reference ladder) but the converted public key is %x", seed, xpriv, got, wantPub), cas)
			}
			lp, err := x25519.X25519(xpriv, x25519.Basepoint)
			if err != nil || !bytes.Equal(lp, xpub) {
				w.Fail("EdPrivateKeyToX25519/pair-library", fmt.Sprintf("seed %x: X25519(EdPrivateKeyToX25519(priv), Basepoint)=%x err=%v but EdPublicKeyToX25519(pub)=%x", seed, lp, err, xpub), cas)
			}
		}
	})

	// ---------------------------------------------------------------- EdPublicKeyToX25519 on the whole Edwards encoding alphabet and all lengths
	E := alphed.EdEncodings(c.Seed, c.Pick(1500, 15000))
	c.Rep.Extra["alphabet_E_strings"] = len(E)
	alphed.Par(c, "convert-public", len(E), func(w *mc.W, i int) {
		b := E[i]
		pt, ok, canon := ref.Decode(b)
		cls := "convert-public/reject"
		if ok {
			cls = "convert-public/accept"
			switch {
			case pt.IsIdentity():
				cls += "-identity"
			case !canon:
				cls += "-noncanonical"
			}
		}
		w.Eval(cls, !ok || !canon || pt.IsIdentity())
		in, intact := alphed.Guarded(b)
		defer func() {
			if !intact() {
				w.Fail("caller-memory/EdPublicKeyToX25519", fmt.Sprintf("EdPublicKeyToX25519 wrote to the caller's buffer (%x)", b), nil)
			}
		}()
		out, got := x25519.EdPublicKeyToX25519(ed25519.PublicKey(in))
		if got != ok {
			w.Fail("EdPublicKeyToX25519/accept-set", fmt.Sprintf("EdPublicKeyToX25519(%x) ok=%v, but the string decodes=%v", b, got, ok), map[string]string{"bytes": hx(b)})
			return
		}
		if ok {
			want := ref.LE32(pt.ToMontgomeryU())
			if !bytes.Equal(out, want) {
				w.Fail("EdPublicKeyToX25519/value", fmt.Sprintf("EdPublicKeyToX25519(%x)=%x want (1+y)/(1-y)=%x (identity maps to 0)", b, out, want), map[string]string{"bytes": hx(b)})
			}
		}
		if !bytes.Equal(in, b) {
			w.Fail("EdPublicKeyToX25519/input-modified", "input modified", nil)
		}
	})
	c.Require("convert-public/accept", 500)
	c.Require("convert-public/accept-identity", 3)
	c.Require("convert-public/accept-noncanonical", 20)
	c.Require("convert-public/reject", 500)
	alphed.Par(c, "convert-public-lengths", 301*2, func(w *mc.W, i int) {
		n := i / 2
		b := make([]byte, n)
		if i%2 == 1 {
			copy(b, bytes.Repeat(ref.Base.Encode(), 10))
		} else if n > 0 {
			b[0] = 1
		}
		if n == 0 && i%2 == 1 {
			b = nil
		}
		_, ok, _ := ref.Decode(b)
		w.Eval(fmt.Sprintf("convert-public-lengths/len32=%v", n == 32), n != 32)
		if _, got := x25519.EdPublicKeyToX25519(ed25519.PublicKey(b)); got != ok {
			w.Fail("EdPublicKeyToX25519/length", fmt.Sprintf("EdPublicKeyToX25519(%d bytes) ok=%v want %v", n, got, ok), map[string]int{"len": n})
		}
	})

	// ---------------------------------------------------------------- history on the exported, caller-writable Basepoint slice
	// (run last and alone: it writes to a package-level value).  The fixed-base fast path is selected by the identity of
	// the slice, not by its contents: [X25519(k, Basepoint) succeeds; the caller overwrites a byte of Basepoint;
	// X25519(k, Basepoint) again] must either refuse (panic or error - the unchanged tree panics) or return the RFC 7748
	// result for the u-coordinate the slice NOW holds - never silently k*9.  Afterwards the bytes are restored and the
	// fixed-base result must be k*9 again.
	type bpMod struct {
		pos int
		val byte
	}
	mods := []bpMod{{0, 5}, {1, 1}, {0, 10}, {31, 0x40}, {16, 0x80}, {0, 8}}
	c.Seq("basepoint-overwritten-history", len(mods), func(w *mc.W, i int) {
		m := mods[i]
		w.Eval("basepoint-overwritten-history", true)
		k := mc.Bytes(c.Seed, "c07-bp-hist", i, 32)
		nine := append([]byte{}, x25519.Basepoint...)
		wantBase := refx.X25519(k, nine)
		cas := map[string]string{"k": hx(k), "position": fmt.Sprint(m.pos), "value": fmt.Sprint(m.val)}
		call := func() (out []byte, err error, panicked interface{}) {
			defer func() { panicked = recover() }()
			out, err = x25519.X25519(k, x25519.Basepoint)
			return
		}
		if o, err, p := call(); p != nil || err != nil || !bytes.Equal(o, wantBase) {
			w.Fail("X25519/Basepoint-history/first-call", fmt.Sprintf("X25519(k, Basepoint)=%x err=%v panic=%v want %x", o, err, p, wantBase), cas)
			return
		}
		old := x25519.Basepoint[m.pos]
		x25519.Basepoint[m.pos] = m.val
		held := append([]byte{}, x25519.Basepoint...)
		o, err, p := call()
		x25519.Basepoint[m.pos] = old
		if p == nil && err == nil && !bytes.Equal(o, refx.X25519(k, held)) {
			w.Fail("X25519/Basepoint-history/stale-fast-path", fmt.Sprintf("after one successful call the caller set Basepoint[%d]=%#x; X25519(k, Basepoint) returned %x without refusing, but the slice holds u=%x whose RFC 7748 result is %x (k*9 is %x)",
				m.pos, m.val, o, held, refx.X25519(k, held), wantBase), cas)
		}
		if o, err, p := call(); p != nil || err != nil || !bytes.Equal(o, wantBase) {
			w.Fail("X25519/Basepoint-history/after-restore", fmt.Sprintf("after the bytes were restored X25519(k, Basepoint)=%x err=%v panic=%v want %x", o, err, p, wantBase), cas)
		}
	})
}
