// C09: batch, expanded-key and cached verification agree with single
// verification, for every operation history (explicit-state exploration of
// the real BatchVerifier / cache.Verifier objects).
package main

import (
	"bytes"
	"crypto"
	"crypto/sha512"
	"fmt"
	"io"
	"sort"
	"strings"
	"sync"
	"sync/atomic"

	"github.com/oasisprotocol/curve25519-voi/curve"
	"github.com/oasisprotocol/curve25519-voi/curve/scalar"
	"github.com/oasisprotocol/curve25519-voi/internal/verif/mc"
	"github.com/oasisprotocol/curve25519-voi/primitives/ed25519"
	"github.com/oasisprotocol/curve25519-voi/primitives/ed25519/extra/cache"
)

var lruUninspectable int32

func main() { mc.Main("C09", run) }

// ---- crafted inputs ---------------------------------------------------------

type sigCase struct {
	name string
	pk   []byte
	msg  []byte
	sig  []byte
}

type optSet struct {
	name string
	o    *ed25519.Options
}

type signer struct {
	seed   []byte
	a      *scalar.Scalar // clamped secret scalar
	prefix []byte
	A      curve.EdwardsPoint
	pk     []byte
}

func newSigner(seed []byte) *signer {
	h := sha512.Sum512(seed)
	h[0] &= 248
	h[31] &= 127
	h[31] |= 64
	a, _ := scalar.NewFromBits(h[:32])
	s := &signer{seed: seed, a: a, prefix: h[32:]}
	s.A.MulBasepoint(curve.ED25519_BASEPOINT_TABLE, a)
	s.pk, _ = s.A.MarshalBinary()
	return s
}

func enc(p *curve.EdwardsPoint) []byte {
	b, _ := p.MarshalBinary()
	return b
}

// craft builds (R || S) with S = r + k*a for k = H(Renc || Aenc || M): valid
// for the public key Aenc iff the residue -k*(A - aB) - (R - rB) is in the
// 8-torsion (cofactored) / zero with canonical R (cofactorless).
func craft(a *scalar.Scalar, rSeed string, Renc func(rB *curve.EdwardsPoint) []byte, Aenc, msg []byte) []byte {
	hr := sha512.Sum512([]byte("nonce" + rSeed))
	r, _ := scalar.NewFromBytesModOrderWide(hr[:])
	var rB curve.EdwardsPoint
	rB.MulBasepoint(curve.ED25519_BASEPOINT_TABLE, r)
	re := Renc(&rB)
	h := sha512.New()
	h.Write(re)
	h.Write(Aenc)
	h.Write(msg)
	k, _ := scalar.NewFromBytesModOrderWide(h.Sum(nil))
	var s scalar.Scalar
	s.Mul(k, a)
	s.Add(&s, r)
	sb, _ := s.MarshalBinary()
	return append(append([]byte{}, re...), sb...)
}

var (
	cases   []sigCase
	optSets []optSet
	caseIdx = map[string]int{}
	optIdx  = map[string]int{}
)

func addCase(name string, pk, msg, sig []byte) {
	caseIdx[name] = len(cases)
	cases = append(cases, sigCase{name, pk, msg, sig})
}

func buildInputs(seed int64) {
	k1 := newSigner(mc.Bytes(seed, "c09key", 1, 32))
	k2 := newSigner(mc.Bytes(seed, "c09key", 2, 32))
	m1, m2 := []byte("c09 message one"), []byte("c09 message two")
	sk1 := ed25519.NewKeyFromSeed(k1.seed)
	sk2 := ed25519.NewKeyFromSeed(k2.seed)
	zero := scalar.New()
	tors := curve.EIGHT_TORSION
	plainR := func(rB *curve.EdwardsPoint) []byte { return enc(rB) }
	plusT := func(i int) func(rB *curve.EdwardsPoint) []byte {
		return func(rB *curve.EdwardsPoint) []byte {
			var p curve.EdwardsPoint
			p.Add(rB, tors[i])
			return enc(&p)
		}
	}
	honest1 := ed25519.Sign(sk1, m1)
	addCase("honest-k1", k1.pk, m1, honest1)
	addCase("honest-k2", k2.pk, m2, ed25519.Sign(sk2, m2))
	addCase("cofactored-only(R+T1)", k1.pk, m1, craft(k1.a, "a", plusT(1), k1.pk, m1))
	addCase("cofactored-only(R+T4)", k1.pk, m1, craft(k1.a, "b", plusT(4), k1.pk, m1))
	// keys that NEARLY collide with k1 (the honest signature of k1 under them is simply invalid): an index of the
	// caching verifier keyed by part of the key (a prefix, a suffix, the y-coordinate) answers for k1 instead
	{
		nk := append([]byte{}, k1.pk...)
		nk[31] ^= 0x80 // the negated point: bytes 0..30 and the low 7 bits of byte 31 in common
		addCase("near-colliding-A(k1 sign-flipped)", nk, m1, honest1)
		for d := byte(1); d != 0; d++ {
			nk2 := append([]byte{}, k1.pk...)
			nk2[0] += d // bytes 1..31 in common
			if _, err := ed25519.NewExpandedPublicKey(nk2); err == nil {
				addCase("near-colliding-A(k1 byte 0 changed)", nk2, m1, honest1)
				break
			}
		}
	}
	fl := append([]byte{}, honest1...)
	fl[32] ^= 1
	addCase("flipped-S-bit", k1.pk, m1, fl)
	fl = append([]byte{}, honest1...)
	fl[3] ^= 0x10
	addCase("flipped-R-bit", k1.pk, m1, fl)
	// S + L
	{
		sl := append([]byte{}, honest1...)
		lb, _ := scalar.BASEPOINT_ORDER.MarshalBinary()
		carry := 0
		for i := 0; i < 32; i++ {
			v := int(sl[32+i]) + int(lb[i]) + carry
			sl[32+i] = byte(v)
			carry = v >> 8
		}
		addCase("S+L", k1.pk, m1, sl)
	}
	addCase("sig-63-bytes", k1.pk, m1, honest1[:63])
	addCase("sig-65-bytes", k1.pk, m1, append(append([]byte{}, honest1...), 0))
	addCase("wrong-message", k1.pk, m2, honest1)
	// a pair of invalid signatures whose errors cancel in an UNWEIGHTED sum (S+1 under k1, S-1 under k2): only
	// independent random coefficients make the batch equation reject them
	{
		bump := func(sig []byte, neg bool) []byte {
			out := append([]byte{}, sig...)
			sv, _ := scalar.NewFromCanonicalBytes(out[32:])
			one := scalar.One()
			if neg {
				sv.Sub(sv, one)
			} else {
				sv.Add(sv, one)
			}
			b, _ := sv.MarshalBinary()
			copy(out[32:], b)
			return out
		}
		addCase("cancelling-pair(S+1,k1)", k1.pk, m1, bump(honest1, false))
		addCase("cancelling-pair(S-1,k2)", k2.pk, m2, bump(ed25519.Sign(sk2, m2), true))
	}
	t1 := enc(tors[1])
	addCase("small-order-A(T1)", t1, m1, craft(zero, "c", plainR, t1, m1))
	// grind a message so that the small-order key also passes cofactorless (k*T1 == O iff 8 | k)
	for ctr := 0; ; ctr++ {
		m := []byte(fmt.Sprintf("grind %d", ctr))
		sig := craft(zero, "d", plainR, t1, m)
		if ed25519.VerifyWithOptions(t1, m, sig, &ed25519.Options{Verify: ed25519.VerifyOptionsStdLib}) {
			addCase("small-order-A(T1)/k=0mod8", t1, m, sig)
			break
		}
		if ctr > 4000 {
			break
		}
	}
	ncId := append(bytes.Repeat([]byte{0xff}, 32)) // y = p+1 -> identity, non-canonical
	ncId[0] = 0xee
	ncId[31] = 0x7f
	addCase("noncanonical-small-order-A(identity)", ncId, m1, craft(zero, "e", plainR, ncId, m1))
	// mixed-order A = A0 + T1
	var mixed curve.EdwardsPoint
	mixed.Add(&k1.A, tors[1])
	mx := enc(&mixed)
	addCase("mixed-order-A", mx, m1, craft(k1.a, "f", plainR, mx, m1))
	bad := make([]byte, 32)
	for y := byte(2); ; y++ {
		bad[0] = y
		var p curve.EdwardsPoint
		if err := p.UnmarshalBinary(bad); err != nil {
			break
		}
	}
	addCase("undecodable-A", bad, m1, honest1)
	addCase("key-31-bytes", k1.pk[:31], m1, honest1)
	// wrong-length keys that share their first bytes with a key that may be RESIDENT in the cache: a lookup that
	// forgets the length check would hand them the resident expansion
	addCase("key-33-bytes(k1||00)", append(append([]byte{}, k1.pk...), 0), m1, honest1)
	addCase("key-64-bytes(k1||k2)", append(append([]byte{}, k1.pk...), k2.pk...), m1, honest1)
	{
		// an honest key whose last byte is zero, and its 31-byte prefix (a copy into a zeroed 32-byte buffer completes it)
		for ctr := 0; ctr < 100000; ctr++ {
			kz := newSigner(mc.Bytes(seed, "c09key-z", ctr, 32))
			if kz.pk[31] == 0 {
				skz := ed25519.NewKeyFromSeed(kz.seed)
				sz := ed25519.Sign(skz, m1)
				addCase("honest-kz(last byte 0)", kz.pk, m1, sz)
				addCase("key-31-bytes(prefix of kz)", kz.pk[:31], m1, sz)
				break
			}
		}
	}
	addCase("key-empty", nil, m1, honest1)
	// small-order R: R = T2 (r = 0)
	smallR := func(i int) func(rB *curve.EdwardsPoint) []byte {
		return func(rB *curve.EdwardsPoint) []byte { return enc(tors[i]) }
	}
	addCase("small-order-R(T2)", k1.pk, m1, craftZeroR(k1.a, smallR(2), k1.pk, m1))
	addCase("noncanonical-R(identity)", k1.pk, m1, craftZeroR(k1.a, func(*curve.EdwardsPoint) []byte { return ncId }, k1.pk, m1))
	// ctx / ph
	ctxSig, _ := sk1.Sign(nil, m1, &ed25519.Options{Context: "ctx-A"})
	addCase("ctx-honest", k1.pk, m1, ctxSig)
	ph := sha512.Sum512(m1)
	phSig, _ := sk1.Sign(nil, ph[:], &ed25519.Options{Hash: crypto.SHA512})
	addCase("ph-honest", k1.pk, ph[:], phSig)
	addCase("ph-63-byte-message", k1.pk, ph[:63], phSig)

	vo := func(v ed25519.VerifyOptions) *ed25519.VerifyOptions { return &v }
	addOpt := func(name string, o *ed25519.Options) {
		optIdx[name] = len(optSets)
		optSets = append(optSets, optSet{name, o})
	}
	addOpt("default(nil)", &ed25519.Options{})
	addOpt("default", &ed25519.Options{Verify: ed25519.VerifyOptionsDefault})
	addOpt("stdlib", &ed25519.Options{Verify: ed25519.VerifyOptionsStdLib})
	addOpt("fips", &ed25519.Options{Verify: ed25519.VerifyOptionsFIPS_186_5})
	addOpt("zip215", &ed25519.Options{Verify: ed25519.VerifyOptionsZIP_215})
	addOpt("no-small-order-R", &ed25519.Options{Verify: vo(ed25519.VerifyOptions{})})
	addOpt("cofactorless+no-small-order-R", &ed25519.Options{Verify: vo(ed25519.VerifyOptions{CofactorlessVerify: true, AllowSmallOrderA: true})})
	addOpt("incompatible", &ed25519.Options{Verify: vo(ed25519.VerifyOptions{AllowNonCanonicalR: true, CofactorlessVerify: true, AllowSmallOrderR: true})})
	addOpt("ctx-A", &ed25519.Options{Context: "ctx-A"})
	addOpt("ctx-B", &ed25519.Options{Context: "ctx-B"})
	addOpt("ctx-256", &ed25519.Options{Context: strings.Repeat("x", 256)})
	addOpt("ph", &ed25519.Options{Hash: crypto.SHA512})
	addOpt("ph+zip215", &ed25519.Options{Hash: crypto.SHA512, Verify: ed25519.VerifyOptionsZIP_215})
	addOpt("hash-sha256(invalid)", &ed25519.Options{Hash: crypto.SHA256})
}

func craftZeroR(a *scalar.Scalar, Renc func(*curve.EdwardsPoint) []byte, Aenc, msg []byte) []byte {
	re := Renc(nil)
	h := sha512.New()
	h.Write(re)
	h.Write(Aenc)
	h.Write(msg)
	k, _ := scalar.NewFromBytesModOrderWide(h.Sum(nil))
	var s scalar.Scalar
	s.Mul(k, a)
	sb, _ := s.MarshalBinary()
	return append(append([]byte{}, re...), sb...)
}

// single is the property's oracle, literally: what single-signature
// verification returns for that entry on its own (a documented panic -> false).
func single(ci, oi int) (ok bool, panicked bool) {
	defer func() {
		if recover() != nil {
			ok, panicked = false, true
		}
	}()
	c := cases[ci]
	return ed25519.VerifyWithOptions(c.pk, c.msg, c.sig, optSets[oi].o), false
}

var (
	singleTab   [][]bool
	singlePanic [][]bool
	cofless     []bool
)

// ---- readers ---------------------------------------------------------------

type zeroR struct{}

func (zeroR) Read(p []byte) (int, error) {
	for i := range p {
		p[i] = 0
	}
	return len(p), nil
}

type oneByte struct{ r io.Reader }

func (o oneByte) Read(p []byte) (int, error) {
	if len(p) == 0 {
		return 0, nil
	}
	return o.r.Read(p[:1])
}

func reader(kind int, seed int64) io.Reader {
	switch kind {
	case 0:
		return zeroR{}
	case 1:
		return bytes.NewReader(mc.Bytes(seed, "entropy", 0, 64))
	default:
		return oneByte{bytes.NewReader(mc.Bytes(seed, "entropy1", 0, 64))}
	}
}

// ---- batch operations --------------------------------------------------------

type bop struct {
	kind int // 0 Add 1 AddWithOptions 2 AddExpanded 3 AddExpandedWithOptions 4 Force 5 Reset 6 Verify 7 VerifyBatchOnly 8 AddExpanded(nil) 9 AddMany
	ci   int
	oi   int
	rd   int
	n    int
	pat  int
}

func (o bop) String() string {
	switch o.kind {
	case 0:
		return "Add(" + cases[o.ci].name + ")"
	case 1:
		return "AddWithOptions(" + cases[o.ci].name + "," + optSets[o.oi].name + ")"
	case 2:
		return "AddExpanded(" + cases[o.ci].name + ")"
	case 3:
		return "AddExpandedWithOptions(" + cases[o.ci].name + "," + optSets[o.oi].name + ")"
	case 4:
		return "ForceNoPublicKeyExpansion"
	case 5:
		return "Reset"
	case 6:
		return fmt.Sprintf("Verify(reader%d)", o.rd)
	case 7:
		return fmt.Sprintf("VerifyBatchOnly(reader%d)", o.rd)
	case 8:
		return "AddExpandedWithOptions(nil," + optSets[o.oi].name + ")"
	case 9:
		return fmt.Sprintf("AddMany(%d,%s)", o.n, patNames[o.pat])
	}
	return "?"
}

var patNames = []string{"all-honest", "bad-first", "bad-last", "cofactored-only-middle", "all-honest-expanded", "stdlib-last"}

// model: the abstract batch = list of (case, optset) in order.
type ment struct{ ci, oi int }

type obs struct {
	all   bool
	each  []bool
	batch bool
	kind  int
}

var expCache sync.Map

func expanded(ci int) *ed25519.ExpandedPublicKey {
	if v, ok := expCache.Load(ci); ok {
		return v.(*ed25519.ExpandedPublicKey)
	}
	e, err := ed25519.NewExpandedPublicKey(cases[ci].pk)
	if err != nil {
		e = nil
	}
	expCache.Store(ci, e)
	return e
}

// manyEntries gives the (case, optset) list of an AddMany macro operation.
func manyEntries(n, pat int) []ment {
	d := optIdx["default"]
	out := make([]ment, n)
	for i := range out {
		out[i] = ment{caseIdx["honest-k1"], d}
		if i%2 == 1 {
			out[i] = ment{caseIdx["honest-k2"], d}
		}
		if i%5 == 3 {
			out[i] = ment{caseIdx["mixed-order-A"], d}
		}
	}
	switch pat {
	case 1:
		out[0] = ment{caseIdx["flipped-S-bit"], d}
	case 2:
		out[n-1] = ment{caseIdx["flipped-S-bit"], d}
	case 3:
		out[n/2] = ment{caseIdx["cofactored-only(R+T1)"], d}
	case 5:
		out[n-1] = ment{caseIdx["honest-k1"], optIdx["stdlib"]}
	}
	return out
}

// callerBufs: the byte strings of every Add* call on one verifier are handed over in the SAME three caller-owned buffers
// (the way a caller that decodes successive entries into scratch memory does it), which are overwritten by the next
// call's strings.  The verifier may copy what it needs; it must not keep the slices (a "same key as the last entry?"
// memo that stores the caller's slice compares the buffer with itself).
type callerBufs struct{ pk, msg, sig []byte }

var bufsOf sync.Map // *ed25519.BatchVerifier -> *callerBufs

func inBufs(v *ed25519.BatchVerifier, c *sigCase) (pk, msg, sig []byte) {
	x, _ := bufsOf.LoadOrStore(v, &callerBufs{make([]byte, 0, 96), make([]byte, 0, 512), make([]byte, 0, 160)})
	b := x.(*callerBufs)
	put := func(dst *[]byte, src []byte) []byte {
		if src == nil {
			return nil
		}
		if len(src) > cap(*dst) {
			*dst = make([]byte, 0, 2*len(src))
		}
		for i := range (*dst)[:cap(*dst)] { // whatever the previous call's string was is gone
			(*dst)[:cap(*dst)][i] = 0xee
		}
		*dst = append((*dst)[:0], src...)
		return *dst
	}
	return put(&b.pk, c.pk), put(&b.msg, c.msg), put(&b.sig, c.sig)
}

// step applies one operation to the real object and the model; returns an observation for verify ops.
func step(v *ed25519.BatchVerifier, m *[]ment, o bop, seed int64) *obs {
	switch o.kind {
	case 0:
		pk, msg, sig := inBufs(v, &cases[o.ci])
		v.Add(pk, msg, sig)
		*m = append(*m, ment{o.ci, optIdx["default"]})
	case 1:
		pk, msg, sig := inBufs(v, &cases[o.ci])
		v.AddWithOptions(pk, msg, sig, optSets[o.oi].o)
		*m = append(*m, ment{o.ci, o.oi})
	case 2:
		_, msg, sig := inBufs(v, &cases[o.ci])
		v.AddExpanded(expanded(o.ci), msg, sig)
		*m = append(*m, ment{o.ci, optIdx["default"]})
	case 3:
		_, msg, sig := inBufs(v, &cases[o.ci])
		v.AddExpandedWithOptions(expanded(o.ci), msg, sig, optSets[o.oi].o)
		*m = append(*m, ment{o.ci, o.oi})
	case 8:
		c := cases[0]
		v.AddExpandedWithOptions(nil, c.msg, c.sig, optSets[o.oi].o)
		*m = append(*m, ment{-1, o.oi})
	case 4:
		v.ForceNoPublicKeyExpansion()
	case 5:
		v.Reset()
		*m = (*m)[:0]
	case 6:
		all, each := v.Verify(reader(o.rd, seed))
		return &obs{all: all, each: each, kind: 6}
	case 7:
		return &obs{batch: v.VerifyBatchOnly(reader(o.rd, seed)), kind: 7}
	case 9:
		for _, e := range manyEntries(o.n, o.pat) {
			c := cases[e.ci]
			if o.pat == 4 {
				v.AddExpandedWithOptions(expanded(e.ci), c.msg, c.sig, optSets[e.oi].o)
			} else {
				v.AddWithOptions(c.pk, c.msg, c.sig, optSets[e.oi].o)
			}
			*m = append(*m, e)
		}
	}
	return nil
}

func entryValid(e ment) bool {
	if e.ci < 0 {
		return false // nil expanded key: there is no key to verify against
	}
	return singleTab[e.ci][e.oi]
}

// check compares an observation with the property's oracle.
func check(w *mc.W, hist []bop, m []ment, ob *obs) {
	if ob == nil {
		return
	}
	cas := map[string]interface{}{"history": fmt.Sprint(hist)}
	all := true
	anyCofless := false
	want := make([]bool, len(m))
	for i, e := range m {
		want[i] = entryValid(e)
		all = all && want[i]
		anyCofless = anyCofless || cofless[e.oi]
	}
	if ob.kind == 6 {
		wantAll := all && len(m) > 0
		if len(ob.each) != len(m) {
			if !(len(m) == 0 && len(ob.each) == 0) {
				w.Fail("BatchVerifier.Verify/result-length", fmt.Sprintf("history %v: %d per-entry results for %d entries", hist, len(ob.each), len(m)), cas)
				return
			}
		}
		for i := range m {
			if ob.each[i] != want[i] {
				nm := "nil-expanded-key"
				if m[i].ci >= 0 {
					nm = cases[m[i].ci].name
				}
				w.Fail("BatchVerifier.Verify/per-entry", fmt.Sprintf("history %v: entry %d (%s, %s) reported %v, single verification says %v", hist, i, nm, optSets[m[i].oi].name, ob.each[i], want[i]), cas)
				return
			}
		}
		if ob.all != wantAll {
			w.Fail("BatchVerifier.Verify/overall", fmt.Sprintf("history %v: overall flag %v, conjunction of single results %v (entries=%d)", hist, ob.all, wantAll, len(m)), cas)
		}
	} else {
		wantB := len(m) > 0 && all && !anyCofless
		if ob.batch != wantB {
			w.Fail("BatchVerifier.VerifyBatchOnly", fmt.Sprintf("history %v: VerifyBatchOnly=%v, expected %v (entries=%d allValid=%v anyCofactorless=%v)", hist, ob.batch, wantB, len(m), all, anyCofless), cas)
		}
	}
}

func stateKey(v *ed25519.BatchVerifier) string {
	a, b, c, n, d := ed25519.VerifBatchState(v)
	return fmt.Sprintf("%v%v%v/%d/%s", a, b, c, n, d)
}

func run(c *mc.Ctx) {
	buildInputs(c.Seed)
	singleTab = make([][]bool, len(cases))
	singlePanic = make([][]bool, len(cases))
	for ci := range cases {
		singleTab[ci] = make([]bool, len(optSets))
		singlePanic[ci] = make([]bool, len(optSets))
		for oi := range optSets {
			singleTab[ci][oi], singlePanic[ci][oi] = single(ci, oi)
		}
	}
	cofless = make([]bool, len(optSets))
	for oi, o := range optSets {
		cofless[oi] = o.o.Verify != nil && o.o.Verify.CofactorlessVerify
	}
	for ci := range cases {
		expanded(ci)
	}
	// Reference-side sanity of the crafted inputs (vacuity): the option-separating cases exist.
	must := func(name, opt string, want bool) {
		ci, ok := caseIdx[name]
		if !ok {
			c.Broken("crafted case missing: " + name)
			return
		}
		if singleTab[ci][optIdx[opt]] != want {
			c.Broken(fmt.Sprintf("crafted case %s under %s: single verification = %v, construction expects %v", name, opt, !want, want))
		}
	}
	must("honest-k1", "default", true)
	must("honest-k1", "stdlib", true)
	must("cofactored-only(R+T1)", "default", true)
	must("cofactored-only(R+T1)", "stdlib", false)
	must("small-order-A(T1)", "default", false)
	must("small-order-A(T1)", "zip215", true)
	must("small-order-A(T1)/k=0mod8", "stdlib", true)
	must("noncanonical-small-order-A(identity)", "zip215", true)
	must("noncanonical-small-order-A(identity)", "fips", false)
	must("mixed-order-A", "default", true)
	must("small-order-R(T2)", "default", true)
	must("small-order-R(T2)", "no-small-order-R", false)
	must("noncanonical-R(identity)", "zip215", true)
	must("noncanonical-R(identity)", "default", false)
	must("ctx-honest", "ctx-A", true)
	must("ctx-honest", "ctx-B", false)
	must("ph-honest", "ph", true)
	must("S+L", "zip215", false)
	must("cancelling-pair(S+1,k1)", "zip215", false)
	must("cancelling-pair(S-1,k2)", "zip215", false)

	expandedVsSingle(c)
	flagSweep(c)
	expandedReuse(c)
	entropyUse(c)
	zeroValueExpanded(c)
	resetGenerations(c)
	batchHistories(c)
	batchMacro(c)
	cachedClosure(c)
}

// ---- expanded-key verification == single verification ------------------------

func expandedVsSingle(c *mc.Ctx) {
	c.Par("expanded-vs-single", len(cases)*len(optSets), func(w *mc.W, i int) {
		ci, oi := i/len(optSets), i%len(optSets)
		cs := cases[ci]
		e, err := ed25519.NewExpandedPublicKey(cs.pk)
		want := singleTab[ci][oi]
		w.Eval(fmt.Sprintf("expanded-vs-single/single=%v", want), want || !singlePanic[ci][oi])
		if err != nil {
			// no expanded key exists: single verification must reject (or panic on a bad length)
			if want {
				w.Fail("NewExpandedPublicKey", fmt.Sprintf("%s: key rejected by NewExpandedPublicKey but single verification under %s accepts", cs.name, optSets[oi].name), nil)
			}
			return
		}
		got, panicked := func() (ok bool, p bool) {
			defer func() {
				if recover() != nil {
					ok, p = false, true
				}
			}()
			return ed25519.VerifyExpandedWithOptions(e, cs.msg, cs.sig, optSets[oi].o), false
		}()
		if got != want || panicked != singlePanic[ci][oi] {
			w.Fail("VerifyExpandedWithOptions", fmt.Sprintf("%s under %s: expanded=%v (panic=%v) single=%v (panic=%v)", cs.name, optSets[oi].name, got, panicked, want, singlePanic[ci][oi]), map[string]string{"case": cs.name, "opts": optSets[oi].name})
		}
		if k := e.CompressedY(); !bytes.Equal(k[:], cs.pk) {
			w.Fail("ExpandedPublicKey.CompressedY", cs.name+": CompressedY differs from the key bytes", nil)
		}
	})
}

// ---- one precomputed key object used many times --------------------------------
//
// Each index owns ONE ExpandedPublicKey (and one caching verifier holding it) and runs a fixed sequence of
// verifications through it: honest signatures on 24 messages (the lattice coefficient d0 of the triple product takes
// both signs over them), one bad signature, every option set, then a batch whose entries share the object, then the
// singles again.  Every decision must equal plain verification.  A routine that scribbles on the shared precomputed
// table (negates it in place, rebuilds it lazily) is right the first time and wrong on a later use; because the whole
// sequence lives in one index it replays on its own.
func expandedReuse(c *mc.Ctx) {
	nKeys := c.Pick(4, 12)
	c.Par("expanded-reuse", nKeys, func(w *mc.W, ki int) {
		sg := newSigner(mc.Bytes(c.Seed, "c09reuse", ki, 32))
		sk := ed25519.NewKeyFromSeed(sg.seed)
		epk, err := ed25519.NewExpandedPublicKey(sg.pk)
		if err != nil {
			w.Fail("NewExpandedPublicKey", "honest key rejected", nil)
			return
		}
		cv := cache.NewVerifier(cache.NewLRUCache(1))
		cv.AddPublicKey(sg.pk)
		type sm struct{ m, sig []byte }
		var sms []sm
		for j := 0; j < 24; j++ {
			m := []byte(fmt.Sprintf("reuse message %d/%d", ki, j))
			sms = append(sms, sm{m, ed25519.Sign(sk, m)})
		}
		bad := append([]byte{}, sms[0].sig...)
		bad[33] ^= 0x40
		sms = append(sms, sm{sms[0].m, bad})
		round := func(tag string) {
			for j, x := range sms {
				for oi, os := range optSets {
					if os.o.Context != "" || os.o.Hash != 0 {
						continue
					}
					want, wp := func() (ok bool, p bool) {
						defer func() {
							if recover() != nil {
								ok, p = false, true
							}
						}()
						return ed25519.VerifyWithOptions(sg.pk, x.m, x.sig, os.o), false
					}()
					got, gp := func() (ok bool, p bool) {
						defer func() {
							if recover() != nil {
								ok, p = false, true
							}
						}()
						return ed25519.VerifyExpandedWithOptions(epk, x.m, x.sig, os.o), false
					}()
					if got != want || gp != wp {
						w.Fail("VerifyExpandedWithOptions/reused-key", fmt.Sprintf("key %d, %s, signature %d under %s: the reused expanded key says %v, plain verification %v", ki, tag, j, optSets[oi].name, got, want), map[string]interface{}{"key": ki, "step": tag, "sig": j})
						return
					}
					if wp {
						continue
					}
					if cg := cv.VerifyWithOptions(sg.pk, x.m, x.sig, os.o); cg != want {
						w.Fail("cache.Verifier/reused-key", fmt.Sprintf("key %d, %s, signature %d under %s: cached decision %v, plain %v", ki, tag, j, optSets[oi].name, cg, want), nil)
						return
					}
				}
			}
		}
		round("first round")
		// a batch whose entries all share the object; the bad entry forces the serial fallback through it
		bv := ed25519.NewBatchVerifier()
		for _, x := range sms {
			bv.AddExpanded(epk, x.m, x.sig)
		}
		all, each := bv.Verify(zeroR{})
		for j := range sms {
			want := j != len(sms)-1
			if len(each) != len(sms) || each[j] != want {
				w.Fail("BatchVerifier.Verify/shared-expanded-key", fmt.Sprintf("key %d: batch entry %d reported %v, single verification %v", ki, j, len(each) == len(sms) && each[j], want), nil)
				return
			}
		}
		if all {
			w.Fail("BatchVerifier.Verify/overall", "batch with a bad entry reported all valid", nil)
		}
		round("after the batch")
		if k := epk.CompressedY(); !bytes.Equal(k[:], sg.pk) {
			w.Fail("ExpandedPublicKey/modified", "CompressedY changed after use", nil)
		}
		w.Eval("expanded-reuse", true)
	})
}

// ---- entropy -----------------------------------------------------------------
//
// The random linear combination is only sound with 128-bit coefficients.  Whatever the reader's chunking, a batch
// whose equation is evaluated must (a) give the same decisions and (b) have drawn at least 16 bytes from the reader -
// a verifier that takes "whatever the first Read returns" from a trickling source runs on a handful of bits.
type countingReader struct {
	chunk int
	n     int
	src   []byte
}

func (r *countingReader) Read(p []byte) (int, error) {
	k := r.chunk
	if k > len(p) {
		k = len(p)
	}
	for i := 0; i < k; i++ {
		p[i] = r.src[(r.n+i)%len(r.src)]
	}
	r.n += k
	return k, nil
}

// newBV rotates through the exported constructors: a batch verifier's behaviour must not depend on how it was made.
func newBV(i int) *ed25519.BatchVerifier {
	switch i % 4 {
	case 1:
		return ed25519.NewBatchVerifierWithCapacity(0)
	case 2:
		return ed25519.NewBatchVerifierWithCapacity(1)
	case 3:
		return ed25519.NewBatchVerifierWithCapacity(7)
	}
	return ed25519.NewBatchVerifier()
}

// zeroValueExpanded: an ExpandedPublicKey that was never initialised (the zero value, a caller's forgotten
// NewExpandedPublicKey) is not a valid key under any option set: plain expanded verification and a batch member must
// both answer false, without a panic, and must not disturb the other members of the batch.
func zeroValueExpanded(c *mc.Ctx) {
	msg := []byte("c09 zero-value expanded key")
	sk := ed25519.NewKeyFromSeed(mc.Bytes(c.Seed, "c09zero", 0, 32))
	pk := sk.Public().(ed25519.PublicKey)
	sig := ed25519.Sign(sk, msg)
	presets := []*ed25519.VerifyOptions{nil, ed25519.VerifyOptionsDefault, ed25519.VerifyOptionsStdLib, ed25519.VerifyOptionsFIPS_186_5, ed25519.VerifyOptionsZIP_215}
	sigs := [][]byte{sig, make([]byte, 64), append(append([]byte{1}, make([]byte, 31)...), make([]byte, 32)...)}
	c.Par("zero-value-expanded-key", len(presets)*len(sigs)*4, func(w *mc.W, i int) {
		vo, sg, mode := presets[i%len(presets)], sigs[i/len(presets)%len(sigs)], i/(len(presets)*len(sigs))
		opts := &ed25519.Options{Verify: vo}
		var single, all, only bool
		var each []bool
		var pv interface{}
		func() {
			defer func() { pv = recover() }()
			single = ed25519.VerifyExpandedWithOptions(&ed25519.ExpandedPublicKey{}, msg, sg, opts)
			v := newBV(i)
			if mode&1 == 1 {
				v.ForceNoPublicKeyExpansion()
			}
			v.AddWithOptions(pk, msg, sig, opts)
			v.AddExpandedWithOptions(&ed25519.ExpandedPublicKey{}, msg, sg, opts)
			if mode&2 == 2 {
				v.AddWithOptions(pk, msg, sig, opts)
			}
			only = v.VerifyBatchOnly(bytes.NewReader(make([]byte, 64)))
			all, each = v.Verify(bytes.NewReader(make([]byte, 64)))
		}()
		w.Eval("zero-value-expanded-key", true)
		cas := map[string]interface{}{"preset": i % len(presets), "signature": mc.Hex(sg), "mode": mode}
		if pv != nil {
			w.Fail("ExpandedPublicKey/zero-value-panic", fmt.Sprintf("zero-value ExpandedPublicKey: panic %v", pv), cas)
			return
		}
		okEach := len(each) == 2+mode/2 && each[0] && !each[1] && (mode&2 == 0 || each[2])
		if single || all || only || !okEach {
			w.Fail("ExpandedPublicKey/zero-value-accepted", fmt.Sprintf("zero-value ExpandedPublicKey (sig %x..., preset #%d, mode %d): VerifyExpanded=%v batch all=%v only=%v each=%v; want false,false,false,[true false ...]",
				sg[:4], i%len(presets), mode, single, all, only, each), cas)
		}
	})
}

func entropyUse(c *mc.Ctx) {
	chunks := []int{1, 2, 7, 16, 31, 32, 33, 64}
	sizes := []int{1, 2, 3, 95, 96}
	c.Par("entropy-use", len(chunks)*len(sizes)*2, func(w *mc.W, i int) {
		ch, n, only := chunks[i%len(chunks)], sizes[(i/len(chunks))%len(sizes)], i/(len(chunks)*len(sizes)) == 1
		v := newBV(i)
		var m []ment
		step(v, &m, bop{kind: 9, n: n, pat: 0}, c.Seed)
		rd := &countingReader{chunk: ch, src: mc.Bytes(c.Seed, "entropy-use", 0, 97)}
		var ob *obs
		if only {
			ob = &obs{batch: v.VerifyBatchOnly(rd), kind: 7}
		} else {
			all, each := v.Verify(rd)
			ob = &obs{all: all, each: each, kind: 6}
		}
		hist := []bop{{kind: 9, n: n, pat: 0}, {kind: 6 + b2i(only), rd: 2}}
		check(w, hist, m, ob)
		if rd.n < 16 {
			w.Fail("BatchVerifier/entropy-drawn", fmt.Sprintf("batch of %d valid entries verified after drawing only %d byte(s) from a reader that hands out %d byte(s) per Read: the coefficients cannot be 128-bit", n, rd.n, ch),
				map[string]int{"chunk": ch, "entries": n, "drawn": rd.n})
		}
		w.Eval("entropy-use", ch < 32)
	})
}

func b2i(b bool) int {
	if b {
		return 1
	}
	return 0
}

// ---- generations: a batch verifier that has been used, Reset, and is used again -----------------------------------
//
// Generation 1 fills the verifier (through Add, which expands keys; AddExpanded; a mixture; a long run), then Reset
// (optionally followed by ForceNoPublicKeyExpansion); generation 2 is EVERY history of depth <= 3 over the core
// alphabet followed by VerifyBatchOnly and Verify.  Slots of the backing array that held other keys' entries in
// generation 1 are reused by generation 2: nothing of the old entries may show.
func resetGenerations(c *mc.Ctx) {
	alphabet := batchAlphabet(true)
	C := func(n string) int { return caseIdx[n] }
	d := optIdx["default"]
	gen1 := [][]bop{
		{{kind: 0, ci: C("honest-k2")}},
		{{kind: 2, ci: C("honest-k2")}},
		{{kind: 0, ci: C("honest-k2")}, {kind: 0, ci: C("honest-k1")}, {kind: 2, ci: C("honest-k2")}},
		{{kind: 2, ci: C("honest-k2")}, {kind: 0, ci: C("flipped-S-bit")}, {kind: 1, ci: C("honest-k1"), oi: optIdx["stdlib"]}},
		{{kind: 3, ci: C("mixed-order-A"), oi: d}, {kind: 0, ci: C("honest-k2")}, {kind: 0, ci: C("honest-k2")}, {kind: 0, ci: C("honest-k2")}},
		{{kind: 9, n: 96, pat: 4}},
		{{kind: 9, n: 96, pat: 0}},
	}
	depth := c.Pick(3, 4)
	var g2 [][]int
	var rec func(prefix []int)
	rec = func(prefix []int) {
		g2 = append(g2, append([]int{}, prefix...))
		if len(prefix) == depth {
			return
		}
		for oi := range alphabet {
			if alphabet[oi].kind == 5 || alphabet[oi].kind == 6 || alphabet[oi].kind == 7 {
				continue // Reset / verify operations are added around generation 2, not inside it
			}
			rec(append(prefix, oi))
		}
	}
	rec(nil)
	c.Rep.Extra["reset-generations"] = map[string]int{"generation1": len(gen1), "generation2": len(g2)}
	// generation 1 may be VERIFIED before the Reset (nothing a verification leaves behind - a memoised verdict, scratch
	// scalars, a cached coefficient stream - may survive into generation 2): pre = none / VerifyBatchOnly / Verify
	c.Par("reset-generations", len(gen1)*3*2*len(g2), func(w *mc.W, i int) {
		gi, pre, force, hi := i/(6*len(g2)), (i/(2*len(g2)))%3, (i/len(g2))%2 == 1, i%len(g2)
		v := newBV(i)
		var m []ment
		var hops []bop
		// every per-entry result slice Verify hands out belongs to the caller: the caller scribbles over it straight away
		// (which must not disturb the verifier) and it must still hold the scribbled values at the end of the history
		// (the verifier must not keep writing into memory it has handed out - e.g. a reused scratch vector)
		type keptSlice struct {
			live, snap []bool
			at         int
		}
		var kept []keptSlice
		do := func(o bop) {
			hops = append(hops, o)
			ob := step(v, &m, o, c.Seed)
			check(w, hops, m, ob)
			if ob != nil && ob.kind == 6 && len(ob.each) > 0 {
				for j := range ob.each {
					ob.each[j] = !ob.each[j]
				}
				kept = append(kept, keptSlice{ob.each, append([]bool{}, ob.each...), len(hops)})
			}
		}
		defer func() {
			for _, k := range kept {
				if fmt.Sprint(k.live) != fmt.Sprint(k.snap) {
					w.Fail("BatchVerifier.Verify/returned-slice-changed", fmt.Sprintf("history %v: the per-entry results returned by the Verify at step %d (and since owned by the caller) were rewritten by later operations on the verifier: now %v, the caller left %v", hops, k.at, k.live, k.snap), map[string]interface{}{"history": fmt.Sprint(hops)})
					return
				}
			}
		}()
		for _, o := range gen1[gi] {
			do(o)
		}
		switch pre {
		case 1:
			do(bop{kind: 7, rd: 0})
		case 2:
			do(bop{kind: 6, rd: 0})
		}
		do(bop{kind: 5})
		if force {
			do(bop{kind: 4})
		}
		for _, oi := range g2[hi] {
			do(alphabet[oi])
		}
		do(bop{kind: 7, rd: 0})
		do(bop{kind: 6, rd: 0})
		w.Eval("reset-generations", len(g2[hi]) > 0)
		if i%7001 == 0 {
			w.Sample(map[string]interface{}{"part": "reset generations", "history": fmt.Sprint(hops)})
		}
	})
	if !c.Replaying() {
		c.Rep.Traces += int64(len(gen1) * 6 * len(g2))
		c.Rep.Transitions += int64(len(gen1) * 6 * len(g2))
	}
}

// ---- (a) batch histories -----------------------------------------------------

func batchAlphabet(core bool) []bop {
	C := func(n string) int {
		i, ok := caseIdx[n]
		if !ok {
			panic("no case " + n)
		}
		return i
	}
	O := func(n string) int { return optIdx[n] }
	ops := []bop{
		{kind: 0, ci: C("honest-k1")},
		{kind: 0, ci: C("flipped-S-bit")},
		{kind: 1, ci: C("cofactored-only(R+T1)"), oi: O("default")},
		{kind: 1, ci: C("honest-k1"), oi: O("stdlib")},
		{kind: 2, ci: C("honest-k2")},
		{kind: 0, ci: C("undecodable-A")},
		{kind: 4}, {kind: 5},
		{kind: 6, rd: 0}, {kind: 7, rd: 0},
		{kind: 1, ci: C("small-order-A(T1)"), oi: O("zip215")},
		{kind: 3, ci: C("mixed-order-A"), oi: O("default")},
		{kind: 0, ci: C("cancelling-pair(S+1,k1)")},
		{kind: 0, ci: C("cancelling-pair(S-1,k2)")},
	}
	if core {
		return ops
	}
	ops = append(ops,
		bop{kind: 0, ci: C("honest-k2")},
		bop{kind: 0, ci: C("flipped-R-bit")},
		bop{kind: 0, ci: C("S+L")},
		bop{kind: 0, ci: C("sig-63-bytes")},
		bop{kind: 0, ci: C("sig-65-bytes")},
		bop{kind: 0, ci: C("wrong-message")},
		bop{kind: 0, ci: C("key-31-bytes")},
		bop{kind: 0, ci: C("key-empty")},
		bop{kind: 0, ci: C("small-order-A(T1)")},
		bop{kind: 0, ci: C("small-order-R(T2)")},
		bop{kind: 1, ci: C("cofactored-only(R+T4)"), oi: O("fips")},
		bop{kind: 1, ci: C("cofactored-only(R+T1)"), oi: O("stdlib")},
		bop{kind: 1, ci: C("honest-k1"), oi: O("zip215")},
		bop{kind: 1, ci: C("honest-k1"), oi: O("incompatible")},
		bop{kind: 1, ci: C("honest-k1"), oi: O("cofactorless+no-small-order-R")},
		bop{kind: 1, ci: C("small-order-A(T1)/k=0mod8"), oi: O("stdlib")},
		bop{kind: 1, ci: C("small-order-A(T1)"), oi: O("stdlib")},
		bop{kind: 1, ci: C("noncanonical-small-order-A(identity)"), oi: O("zip215")},
		bop{kind: 1, ci: C("noncanonical-small-order-A(identity)"), oi: O("fips")},
		bop{kind: 1, ci: C("mixed-order-A"), oi: O("stdlib")},
		bop{kind: 1, ci: C("small-order-R(T2)"), oi: O("no-small-order-R")},
		bop{kind: 1, ci: C("noncanonical-R(identity)"), oi: O("zip215")},
		bop{kind: 1, ci: C("noncanonical-R(identity)"), oi: O("default")},
		bop{kind: 1, ci: C("ctx-honest"), oi: O("ctx-A")},
		bop{kind: 1, ci: C("ctx-honest"), oi: O("ctx-B")},
		bop{kind: 1, ci: C("ctx-honest"), oi: O("ctx-256")},
		bop{kind: 1, ci: C("ph-honest"), oi: O("ph")},
		bop{kind: 1, ci: C("ph-63-byte-message"), oi: O("ph")},
		bop{kind: 1, ci: C("honest-k1"), oi: O("hash-sha256(invalid)")},
		bop{kind: 2, ci: C("honest-k1")},
		bop{kind: 2, ci: C("flipped-S-bit")},
		bop{kind: 3, ci: C("small-order-A(T1)"), oi: O("zip215")},
		bop{kind: 3, ci: C("small-order-A(T1)"), oi: O("default")},
		bop{kind: 3, ci: C("honest-k1"), oi: O("stdlib")},
		bop{kind: 3, ci: C("ph-honest"), oi: O("ph+zip215")},
		bop{kind: 8, oi: O("default")},
		bop{kind: 6, rd: 1}, bop{kind: 6, rd: 2},
		bop{kind: 7, rd: 1}, bop{kind: 7, rd: 2},
	)
	return ops
}

type node struct {
	hist []int
}

func batchHistories(c *mc.Ctx) {
	type plan struct {
		name  string
		core  bool
		depth int
	}
	plans := []plan{{"batch-hist/full", false, 3}, {"batch-hist/core", true, 4}}
	if c.Thorough {
		plans = []plan{{"batch-hist/full", false, 4}, {"batch-hist/core", true, 5}}
	}
	for _, pl := range plans {
		alphabet := batchAlphabet(pl.core)
		seen := map[string]bool{}
		{
			v := ed25519.NewBatchVerifier()
			seen[stateKey(v)] = true
		}
		frontier := []node{{nil}}
		states, trans := int64(1), int64(0)
		for depth := 1; depth <= pl.depth && len(frontier) > 0; depth++ {
			type res struct {
				key  string
				hist []int
			}
			out := make([]res, len(frontier)*len(alphabet))
			sub := fmt.Sprintf("%s/depth%d", pl.name, depth)
			fr := frontier
			c.ParAlways(sub, len(out), func(w *mc.W, i int) {
				h := fr[i/len(alphabet)].hist
				oi := i % len(alphabet)
				// successor = replay of the history on a fresh real object + one operation; every replayed
				// step is re-checked (a divergence in a known-good prefix shows up as the same violation again)
				v := ed25519.NewBatchVerifier()
				var m []ment
				hops := make([]bop, 0, len(h)+1)
				for _, x := range h {
					hops = append(hops, alphabet[x])
					step(v, &m, alphabet[x], c.Seed)
				}
				o := alphabet[oi]
				hops = append(hops, o)
				ob := step(v, &m, o, c.Seed)
				check(w, hops, m, ob)
				// the batch verifier must be usable after any history: a final Verify is always checked too
				fin := step(v, &m, bop{kind: 6, rd: 0}, c.Seed)
				check(w, append(hops, bop{kind: 6, rd: 0}), m, fin)
				nvalid := 0
				for _, e := range m {
					if entryValid(e) {
						nvalid++
					}
				}
				w.Eval(fmt.Sprintf("%s/entries=%d/valid=%d", pl.name, len(m), nvalid), len(m) > 0)
				nh := append(append([]int{}, h...), oi)
				out[i] = res{stateKey(v), nh}
				if i%5003 == 0 {
					w.Sample(map[string]interface{}{"part": "batch history", "history": fmt.Sprint(hops), "entries": len(m)})
				}
			})
			if c.ReplayingSub(sub) {
				return
			}
			var next []node
			for _, r := range out {
				if r.hist == nil {
					continue
				}
				trans++
				if !seen[r.key] {
					seen[r.key] = true
					states++
					next = append(next, node{r.hist})
				}
			}
			frontier = next
		}
		c.Rep.States += states
		c.Rep.Transitions += trans
		c.Rep.Traces += trans
		c.Rep.Extra[pl.name] = map[string]interface{}{"alphabet": len(alphabet), "depth": pl.depth, "states": states, "transitions": trans}
	}
}

// ---- (a') macro operations: batch sizes across every threshold ---------------

func batchMacro(c *mc.Ctx) {
	sizes := []int{93, 94, 95, 96, 189, 190}
	if c.Thorough {
		sizes = append(sizes, 249, 250, 251, 399, 400, 401, 1000)
	}
	alphabet := batchAlphabet(true)
	type mh struct {
		n, pat int
		pre    int // operation before AddMany (-1 none)
		post   int // operation after (-1 none)
	}
	var hs []mh
	for _, n := range sizes {
		for pat := range patNames {
			hs = append(hs, mh{n, pat, -1, -1})
			for oi := range alphabet {
				hs = append(hs, mh{n, pat, -1, oi})
				if pat < 2 || pat == 4 {
					hs = append(hs, mh{n, pat, oi, -1})
				}
			}
		}
	}
	if !c.Replaying() {
		c.Rep.Traces += int64(len(hs))
		c.Rep.Transitions += int64(len(hs))
	}
	c.Par("batch-macro", len(hs), func(w *mc.W, i int) {
		h := hs[i]
		v := newBV(i)
		var m []ment
		var hops []bop
		do := func(o bop) {
			hops = append(hops, o)
			check(w, hops, m, nil)
			ob := step(v, &m, o, c.Seed)
			check(w, hops, m, ob)
		}
		if h.pre >= 0 {
			do(alphabet[h.pre])
		}
		do(bop{kind: 9, n: h.n, pat: h.pat})
		if h.post >= 0 {
			do(alphabet[h.post])
		}
		do(bop{kind: 7, rd: 1})
		do(bop{kind: 6, rd: 1})
		w.Eval(fmt.Sprintf("batch-macro/n=%d/%s", h.n, patNames[h.pat]), true)
		if i%101 == 0 {
			w.Sample(map[string]interface{}{"part": "batch macro history", "history": fmt.Sprint(hops)})
		}
	})
}

// ---- (b) caching verifier: closed state graph --------------------------------

type cop struct {
	kind int // 0 VerifyWithOptions, 1 AddPublicKey, 2 Verify (default), 3 AddWithOptions into a batch then verify batch
	ci   int
	oi   int
}

func (o cop) String() string {
	n := [...]string{"VerifyWithOptions", "AddPublicKey", "Verify", "AddWithOptions+BatchVerify"}[o.kind]
	return fmt.Sprintf("%s(%s,%s)", n, cases[o.ci].name, optSets[o.oi].name)
}

func cachedClosure(c *mc.Ctx) {
	C := func(n string) int { return caseIdx[n] }
	O := func(n string) int { return optIdx[n] }
	keysC := []string{"honest-k1", "honest-k2", "mixed-order-A", "small-order-A(T1)", "noncanonical-small-order-A(identity)", "undecodable-A", "key-31-bytes", "flipped-S-bit", "cofactored-only(R+T1)",
		"key-33-bytes(k1||00)", "key-64-bytes(k1||k2)"}
	for _, n := range []string{"near-colliding-A(k1 sign-flipped)", "near-colliding-A(k1 byte 0 changed)"} {
		if _, ok := caseIdx[n]; ok {
			keysC = append(keysC, n)
		}
	}
	if _, ok := caseIdx["honest-kz(last byte 0)"]; ok {
		keysC = append(keysC, "honest-kz(last byte 0)", "key-31-bytes(prefix of kz)")
	}
	var alphabet []cop
	for _, k := range keysC {
		alphabet = append(alphabet, cop{2, C(k), O("default(nil)")}, cop{1, C(k), 0})
		for _, o := range []string{"stdlib", "zip215"} {
			alphabet = append(alphabet, cop{0, C(k), O(o)})
		}
		alphabet = append(alphabet, cop{3, C(k), O("default")})
	}
	alphabet = append(alphabet, cop{0, C("ctx-honest"), O("ctx-A")}, cop{0, C("ph-honest"), O("ph")}, cop{0, C("small-order-A(T1)/k=0mod8"), O("stdlib")})
	caps := []int{1, 2, 3}
	if c.Thorough {
		caps = append(caps, 4)
	}
	var mu sync.Mutex
	defer func() {
		if atomic.LoadInt32(&lruUninspectable) == 1 {
			c.Cap("the LRU cache's representation could not be read by the accessor: the cached-verification state graph was explored to history depth 3 instead of to closure, structural invariants were not observed")
		}
	}()
	c.Par("cached-closure", len(caps), func(w *mc.W, ci int) {
		cp := caps[ci]
		lruKey := func(l cache.Cache) (string, []string) {
			ord, _, _, pr := cache.VerifLRUState(l)
			if len(pr) == 1 && pr[0] == cache.VerifUninspectable {
				return "", nil // representation not readable: handled by the caller (history-keyed, depth-bounded)
			}
			s := ""
			for _, k := range ord {
				s += fmt.Sprintf("%x,", k[:6])
			}
			return s, pr
		}
		seen := map[string]bool{"": true}
		frontier := [][]int{nil}
		states, trans := int64(1), int64(0)
		for len(frontier) > 0 {
			h := frontier[0]
			frontier = frontier[1:]
			for oi, o := range alphabet {
				l := cache.NewLRUCache(cp)
				cv := cache.NewVerifier(l)
				apply := func(o cop) (got bool, panicked bool) {
					defer func() {
						if r := recover(); r != nil {
							got, panicked = false, true
						}
					}()
					cs := cases[o.ci]
					switch o.kind {
					case 0:
						return cv.VerifyWithOptions(cs.pk, cs.msg, cs.sig, optSets[o.oi].o), false
					case 1:
						cv.AddPublicKey(cs.pk)
						return true, false
					case 2:
						return cv.Verify(cs.pk, cs.msg, cs.sig), false
					default:
						bv := ed25519.NewBatchVerifier()
						cv.AddWithOptions(bv, cs.pk, cs.msg, cs.sig, optSets[o.oi].o)
						cv.Add(bv, cases[0].pk, cases[0].msg, cases[0].sig)
						all, each := bv.Verify(zeroR{})
						if len(each) != 2 || all != (len(each) == 2 && each[0] && each[1]) {
							// an entry submitted through the cache must appear in the batch (as invalid, if its key is unusable)
							panic(fmt.Sprintf("2 entries were added through the cache, the batch reports %d results %v, summary %v", len(each), each, all))
						}
						return each[0] && each[1] == singleTab[0][optIdx["default"]], false
					}
				}
				for _, x := range h {
					apply(alphabet[x])
				}
				got, panicked := apply(o)
				trans++
				hist := ""
				for _, x := range h {
					hist += alphabet[x].String() + "; "
				}
				hist += o.String()
				cas := map[string]interface{}{"capacity": cp, "history": hist}
				if o.kind != 1 {
					// decision = plain verification of the same inputs (false for a key plain verification panics on)
					want := singleTab[o.ci][o.oi]
					w.Eval(fmt.Sprintf("cached/cap=%d/plain=%v", cp, want), len(h) > 0)
					if got != want {
						w.Fail("cache.Verifier/decision", fmt.Sprintf("cap=%d history [%s]: cached decision %v, plain verification %v", cp, hist, got, want), cas)
					}
					if panicked && !singlePanic[o.ci][o.oi] {
						w.Fail("cache.Verifier/panic", fmt.Sprintf("cap=%d history [%s]: cached verification panicked, plain verification does not", cp, hist), cas)
					}
				} else {
					w.Eval(fmt.Sprintf("cached/cap=%d/addkey", cp), len(h) > 0)
				}
				k, pr := lruKey(l)
				if k == "" && pr == nil {
					if _, _, _, p0 := cache.VerifLRUState(l); len(p0) == 1 && p0[0] == cache.VerifUninspectable {
						// behavioural mode: states are identified with histories, explored to depth 3
						atomic.StoreInt32(&lruUninspectable, 1)
						k = fmt.Sprint("history", h, oi)
						if len(h) >= 2 {
							seen[k] = true
						}
					}
				}
				if len(pr) > 0 {
					w.Fail("lruCache/invariant", fmt.Sprintf("cap=%d history [%s]: %s", cp, hist, strings.Join(pr, "; ")), cas)
				}
				if !seen[k] {
					seen[k] = true
					states++
					frontier = append(frontier, append(append([]int{}, h...), oi))
				}
			}
		}
		mu.Lock()
		c.Rep.States += states
		c.Rep.Transitions += trans
		c.Rep.Traces += trans
		mu.Unlock()
		w.Sample(map[string]interface{}{"part": "caching verifier closure", "capacity": cp, "reachable_lru_states": states, "transitions": trans, "operations": len(alphabet)})
	})
	_ = sort.Ints
}
