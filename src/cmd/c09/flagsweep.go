package main

import (
	"fmt"

	"github.com/oasisprotocol/curve25519-voi/internal/verif/mc"
	"github.com/oasisprotocol/curve25519-voi/primitives/ed25519"
	"github.com/oasisprotocol/curve25519-voi/primitives/ed25519/extra/cache"
)

// flagSweep: every crafted case x ALL 32 VerifyOptions flag combinations (not only the presets and the handful of
// hand-picked sets of the history alphabet) x every route that is supposed to agree with single verification:
// VerifyExpandedWithOptions, a one-entry batch filled by AddWithOptions (with and without key expansion) and by
// AddExpandedWithOptions, cache.Verifier.VerifyWithOptions and cache.Verifier.AddWithOptions.  Oracle, literally the
// property: the route's verdict for the entry = VerifyWithOptions' verdict (a documented panic -> false; the routes
// themselves never panic except the single-shot ones under the documented incompatible pair / bad key length).
// Added after a seeded change that skipped the small-order flag of an expanded key for non-canonical encodings: only
// visible under AllowNonCanonicalA && !AllowSmallOrderA, a combination no preset has.
func flagSweep(c *mc.Ctx) {
	routes := []string{"VerifyExpandedWithOptions", "batch/AddWithOptions", "batch/AddWithOptions/no-expansion", "batch/AddExpandedWithOptions", "cache.VerifyWithOptions", "cache.AddWithOptions"}
	n := len(cases) * 32 * len(routes)
	c.Par("flag-sweep", n, func(w *mc.W, i int) {
		ri := i % len(routes)
		flags := (i / len(routes)) % 32
		ci := i / len(routes) / 32
		cs := cases[ci]
		vo := &ed25519.VerifyOptions{AllowSmallOrderA: flags&1 != 0, AllowSmallOrderR: flags&2 != 0, AllowNonCanonicalA: flags&4 != 0, AllowNonCanonicalR: flags&8 != 0, CofactorlessVerify: flags&16 != 0}
		opts := &ed25519.Options{Verify: vo}
		guarded := func(f func() bool) (ok, p bool) {
			defer func() {
				if recover() != nil {
					ok, p = false, true
				}
			}()
			return f(), false
		}
		want, wantPanic := guarded(func() bool { return ed25519.VerifyWithOptions(cs.pk, cs.msg, cs.sig, opts) })
		w.Eval(fmt.Sprintf("flag-sweep/single=%v", want), want || !wantPanic)
		cas := map[string]string{"case": cs.name, "flags": fmt.Sprintf("%+v", *vo), "route": routes[ri]}
		var got, gotPanic bool
		mayPanic := false
		switch ri {
		case 0, 3:
			e, err := ed25519.NewExpandedPublicKey(cs.pk)
			if err != nil {
				if want {
					w.Fail("NewExpandedPublicKey/flag-sweep", fmt.Sprintf("%s: NewExpandedPublicKey rejects a key single verification accepts under %+v", cs.name, *vo), cas)
				}
				return
			}
			if ri == 0 {
				mayPanic = wantPanic
				got, gotPanic = guarded(func() bool { return ed25519.VerifyExpandedWithOptions(e, cs.msg, cs.sig, opts) })
			} else {
				got, gotPanic = guarded(func() bool {
					v := ed25519.NewBatchVerifier()
					v.AddExpandedWithOptions(e, cs.msg, cs.sig, opts)
					all, each := v.Verify(&ctr{})
					return all && len(each) == 1 && each[0]
				})
			}
		case 1, 2:
			got, gotPanic = guarded(func() bool {
				v := ed25519.NewBatchVerifier()
				if ri == 2 {
					v.ForceNoPublicKeyExpansion()
				}
				v.AddWithOptions(cs.pk, cs.msg, cs.sig, opts)
				all, each := v.Verify(&ctr{})
				if all != (len(each) == 1 && each[0]) {
					w.Fail("BatchVerifier.Verify/flag-sweep-summary", fmt.Sprintf("%s under %+v: summary %v, per-entry %v", cs.name, *vo, all, each), cas)
				}
				return all
			})
		case 4:
			mayPanic = wantPanic
			got, gotPanic = guarded(func() bool {
				return cache.NewVerifier(cache.NewLRUCache(2)).VerifyWithOptions(cs.pk, cs.msg, cs.sig, opts)
			})
		case 5:
			got, gotPanic = guarded(func() bool {
				v := ed25519.NewBatchVerifier()
				cache.NewVerifier(cache.NewLRUCache(2)).AddWithOptions(v, cs.pk, cs.msg, cs.sig, opts)
				all, each := v.Verify(&ctr{})
				return all && len(each) == 1 && each[0]
			})
		}
		if gotPanic && !mayPanic {
			w.Fail(routes[ri]+"/flag-sweep-panic", fmt.Sprintf("%s under %+v: %s panicked (single verification: ok=%v panic=%v)", cs.name, *vo, routes[ri], want, wantPanic), cas)
			return
		}
		if got != want {
			w.Fail(routes[ri]+"/flag-sweep", fmt.Sprintf("%s under %+v: %s says %v, single verification says %v", cs.name, *vo, routes[ri], got, want), cas)
		}
	})
	c.Require("flag-sweep/single=true", 100)
	c.Require("flag-sweep/single=false", 100)
}

// ctr is a deterministic entropy stream for the batch coefficients.
type ctr struct{ n byte }

func (c *ctr) Read(p []byte) (int, error) {
	for i := range p {
		c.n += 37
		p[i] = c.n
	}
	return len(p), nil
}
