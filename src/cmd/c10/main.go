// C10: Edwards point decoding, encoding, canonicity and subgroup predicates are
// exact; Edwards<->Montgomery conversions answer the mathematical question.
//
// Everything is compared with package ref (math/big affine group, RFC 8032
// encode/decode); library points used as inputs are built from reference
// coordinates through the hooks, never through the library's own decoder.
package main

import (
	"bytes"
	"fmt"
	"math/big"
	"sync"

	"github.com/oasisprotocol/curve25519-voi/curve"
	"github.com/oasisprotocol/curve25519-voi/internal/verif/alph/alphed"
	"github.com/oasisprotocol/curve25519-voi/internal/verif/alph/edpts"
	"github.com/oasisprotocol/curve25519-voi/internal/verif/mc"
	"github.com/oasisprotocol/curve25519-voi/internal/verif/ref"
	"github.com/oasisprotocol/curve25519-voi/internal/verif/ref/refmul"
	"github.com/oasisprotocol/curve25519-voi/internal/verif/ref/refx"
)

func main() { mc.Main("C10", run) }

var (
	identityEnc = func() []byte { b := make([]byte, 32); b[0] = 1; return b }()
	x0sign1A    = func() []byte { b := ref.LE32(big.NewInt(1)); b[31] |= 0x80; return b }()
	x0sign1B    = func() []byte { b := ref.LE32(new(big.Int).Sub(ref.P, big.NewInt(1))); b[31] |= 0x80; return b }()
)

// refCanonical is the property's definition: y below p and not one of the two
// x=0 encodings with the sign bit set.  It is a statement about the string only.
func refCanonical(b []byte) (canonical bool, why string) {
	t := append([]byte{}, b...)
	t[31] &= 0x7f
	if ref.FromLE(t).Cmp(ref.P) >= 0 {
		return false, "y>=p"
	}
	if bytes.Equal(b, x0sign1A) || bytes.Equal(b, x0sign1B) {
		return false, "x0-sign1"
	}
	return true, ""
}

func hx(b []byte) string { return mc.Hex(b) }

func canonClass(canon bool, why string) string {
	if canon {
		return "canonical/true"
	}
	return "canonical/false:" + why
}

// receivers: the pre-states a decoder is started from.
type recv struct {
	name string
	mk   func() *curve.EdwardsPoint
}

func run(c *mc.Ctx) {
	if edpts.Reduced {
		c.Cap("coordinate hooks of package curve do not compile against this tree: points are built/read through the public API only (no well-formedness test of internal representations, no reference-built projective scalings)")
	}
	benc := ref.Base.Encode()
	tor := ref.Torsion()
	g0 := new(big.Int).Mod(ref.FromLE(mc.Bytes(c.Seed, "c10-g", 0, 32)), ref.L)
	mixed := refmul.BaseMul(g0).Add(tor[1])
	lam := edpts.Lambdas(c.Seed, 2)

	receivers := []recv{
		{"zero-value", func() *curve.EdwardsPoint { return new(curve.EdwardsPoint) }},
		{"identity", func() *curve.EdwardsPoint { return curve.NewEdwardsPoint() }},
		{"holding-B", func() *curve.EdwardsPoint {
			// two-step history: a successful decode of B first.  (If that decode is broken the
			// "decode" sub-space reports it; fall back to reference coordinates here.)
			p := new(curve.EdwardsPoint)
			if err := p.UnmarshalBinary(benc); err != nil || !edpts.Is(p, ref.Base) {
				return edpts.FromRef(ref.Base)
			}
			return p
		}},
		{"holding-Z!=1", func() *curve.EdwardsPoint { return edpts.FromRefScaled(mixed, lam[3]) }},
	}

	// ------------------------------------------------------------------ decode
	E := alphed.EdEncodings(c.Seed, c.Pick(3000, 30000))
	c.Rep.Extra["alphabet_E_strings"] = len(E)
	alphed.Par(c, "decode", len(E), func(w *mc.W, i int) {
		b, intact := alphed.Guarded(E[i]) // handed over with spare capacity between guard bytes
		pt, ok, canonDec := ref.Decode(b)
		canon, why := refCanonical(b)
		if ok && canon != canonDec {
			c.Broken(fmt.Sprintf("reference inconsistency: canonicity of %x", b))
			return
		}
		cas := map[string]string{"bytes": hx(b)}
		cls := "decode/reject"
		if ok {
			switch {
			case canon:
				cls = "decode/accept-canonical"
			case why == "x0-sign1":
				cls = "decode/accept-x0-sign1"
			default:
				cls = "decode/accept-noncanonical-y"
				if pt.X.Sign() == 0 && b[31]>>7 == 1 {
					cls = "decode/accept-noncanonical-y-x0-sign1"
				}
			}
		}
		w.Eval(cls, !(ok && canon))
		w.Eval(canonClass(canon, why), !canon)

		// the canonicity predicate (on every string, decodable or not)
		cp, err := curve.NewCompressedEdwardsYFromBytes(b)
		if err != nil || !bytes.Equal(cp[:], b) {
			w.Fail("NewCompressedEdwardsYFromBytes", fmt.Sprintf("32-byte input %x: err=%v", b, err), cas)
			return
		}
		if got := cp.IsCanonicalVartime(); got != canon {
			w.Fail("IsCanonicalVartime", fmt.Sprintf("IsCanonicalVartime(%x)=%v want %v (%s)", b, got, canon, why), cas)
		}
		var cp2 curve.CompressedEdwardsY
		if r, err := cp2.SetBytes(b); err != nil || r != &cp2 || !bytes.Equal(cp2[:], b) {
			w.Fail("CompressedEdwardsY.SetBytes", fmt.Sprintf("SetBytes(%x) err=%v", b, err), cas)
		}
		if mb, err := cp.MarshalBinary(); err != nil || !bytes.Equal(mb, b) {
			w.Fail("CompressedEdwardsY.MarshalBinary", fmt.Sprintf("MarshalBinary of %x gave %x err=%v", b, mb, err), cas)
		}

		checkValue := func(name string, p *curve.EdwardsPoint) {
			if !edpts.Is(p, pt) {
				x, y, z, t := edpts.Coords(p)
				w.Fail(name+"/value", fmt.Sprintf("%s(%x): decoded (X,Y,Z,T)=(%x,%x,%x,%x), want affine x=%x y=%x (sign bit %d)", name, b, x, y, z, t, pt.X, pt.Y, b[31]>>7), cas)
				return
			}
			want := pt.Encode()
			mb, err := p.MarshalBinary()
			if err != nil || !bytes.Equal(mb, want) {
				w.Fail("EdwardsPoint.MarshalBinary/after-decode", fmt.Sprintf("decode(%x) re-encodes to %x, want %x", b, mb, want), cas)
			}
			if canon && !bytes.Equal(mb, b) {
				w.Fail("EdwardsPoint.MarshalBinary/roundtrip", fmt.Sprintf("canonical %x re-encodes to %x", b, mb), cas)
			}
			var out curve.CompressedEdwardsY
			out.SetEdwardsPoint(p)
			if !bytes.Equal(out[:], want) {
				w.Fail("CompressedEdwardsY.SetEdwardsPoint/after-decode", fmt.Sprintf("decode(%x) compresses to %x, want %x", b, out[:], want), cas)
			}
			if !out.IsCanonicalVartime() {
				w.Fail("IsCanonicalVartime/encoder-output", fmt.Sprintf("encoder output %x reported non-canonical", out[:]), cas)
			}
		}

		for _, r := range receivers {
			// UnmarshalBinary: error <=> not decodable; identity after any error.
			p := r.mk()
			err := p.UnmarshalBinary(b)
			switch {
			case ok && err != nil:
				w.Fail("EdwardsPoint.UnmarshalBinary/reject-valid", fmt.Sprintf("UnmarshalBinary(%x) on %s receiver: %v, but y is on the curve", b, r.name, err), cas)
			case !ok && err == nil:
				w.Fail("EdwardsPoint.UnmarshalBinary/accept-invalid", fmt.Sprintf("UnmarshalBinary(%x) on %s receiver succeeded, but y is not on the curve", b, r.name), cas)
			case ok:
				checkValue("EdwardsPoint.UnmarshalBinary", p)
			}
			if err != nil && !edpts.IsExactIdentity(p) {
				w.Fail("EdwardsPoint.UnmarshalBinary/receiver", fmt.Sprintf("after failed UnmarshalBinary(%x) the %s receiver is not the identity", b, r.name), cas)
			}

			// SetCompressedY: same accept set; a failure must not leave a third state.
			p = r.mk()
			var before curve.EdwardsPoint
			before = *p
			q, err := p.SetCompressedY(cp)
			switch {
			case ok && err != nil:
				w.Fail("SetCompressedY/reject-valid", fmt.Sprintf("SetCompressedY(%x): %v, but y is on the curve", b, err), cas)
			case !ok && err == nil:
				w.Fail("SetCompressedY/accept-invalid", fmt.Sprintf("SetCompressedY(%x) succeeded, but y is not on the curve", b), cas)
			case ok:
				if q != p {
					w.Fail("SetCompressedY/return", "successful SetCompressedY did not return its receiver", cas)
				}
				checkValue("SetCompressedY", p)
			}
			if err != nil && r.name != "zero-value" && !edpts.SameCoords(p, &before) && !edpts.IsExactIdentity(p) {
				w.Fail("SetCompressedY/receiver", fmt.Sprintf("failed SetCompressedY(%x) left the %s receiver neither unchanged nor the identity", b, r.name), cas)
			}
		}

		// CompressedEdwardsY.UnmarshalBinary: same accept set, bytes preserved, identity after error.
		for k := 0; k < 2; k++ {
			var u curve.CompressedEdwardsY
			if k == 1 {
				copy(u[:], benc)
			}
			err := u.UnmarshalBinary(b)
			switch {
			case ok && err != nil:
				w.Fail("CompressedEdwardsY.UnmarshalBinary/reject-valid", fmt.Sprintf("UnmarshalBinary(%x): %v", b, err), cas)
			case !ok && err == nil:
				w.Fail("CompressedEdwardsY.UnmarshalBinary/accept-invalid", fmt.Sprintf("UnmarshalBinary(%x) succeeded, but y is not on the curve", b), cas)
			case ok && !bytes.Equal(u[:], b):
				w.Fail("CompressedEdwardsY.UnmarshalBinary/value", fmt.Sprintf("UnmarshalBinary(%x) stored %x", b, u[:]), cas)
			}
			if err != nil && !bytes.Equal(u[:], identityEnc) {
				w.Fail("CompressedEdwardsY.UnmarshalBinary/receiver", fmt.Sprintf("after failed UnmarshalBinary(%x) the receiver is %x, not the identity encoding", b, u[:]), cas)
			}
		}
		if !intact() {
			w.Fail("caller-memory/decode", fmt.Sprintf("a decoder wrote to the caller's buffer around/in %x", E[i]), cas)
		}
		if i%211 == 0 {
			w.Sample(map[string]string{"op": "decode", "bytes": hx(b), "class": cls})
		}
	})
	c.Require("decode/accept-canonical", 300)
	c.Require("decode/reject", 300)
	c.Require("decode/accept-noncanonical-y", 10)
	c.Require("decode/accept-x0-sign1", 2)
	c.Require("decode/accept-noncanonical-y-x0-sign1", 1)
	c.Require("canonical/false:y>=p", 38)
	c.Require("canonical/false:x0-sign1", 2)
	c.Require("canonical/true", 1000)
	if !c.Replaying() {
		nc := c.Rep.Classes["decode/accept-noncanonical-y"] + c.Rep.Classes["decode/accept-x0-sign1"] + c.Rep.Classes["decode/accept-noncanonical-y-x0-sign1"]
		c.Rep.Extra["accepted_noncanonical_encodings"] = nc
	}

	// ------------------------------------------------------------------ lengths
	contents := []func(n int) []byte{
		func(n int) []byte { return make([]byte, n) },
		func(n int) []byte { return bytes.Repeat([]byte{0xff}, n) },
		func(n int) []byte { // the base point encoding, truncated or zero-extended
			b := make([]byte, n)
			copy(b, benc)
			return b
		},
		func(n int) []byte { // the base point encoding, repeated
			return append([]byte{}, bytes.Repeat(benc, 10)[:n]...)
		},
		func(n int) []byte { // identity encoding, truncated or 0-extended (nil for n = 0)
			if n == 0 {
				return nil
			}
			b := make([]byte, n)
			b[0] = 1
			return b
		},
		func(n int) []byte { return mc.Bytes(c.Seed, "c10-len", n, n) },
	}
	alphed.Par(c, "lengths", 301*len(contents), func(w *mc.W, i int) {
		n, k := i/len(contents), i%len(contents)
		raw := contents[k](n)
		b, intact := alphed.Guarded(raw)
		_, ok, _ := ref.Decode(b) // false for every length != 32
		cas := map[string]string{"len": fmt.Sprint(n), "bytes": hx(b)}
		w.Eval(fmt.Sprintf("lengths/len32=%v", n == 32), n != 32)
		for _, r := range receivers {
			p := r.mk()
			err := p.UnmarshalBinary(b)
			if n != 32 && err == nil {
				w.Fail("EdwardsPoint.UnmarshalBinary/length", fmt.Sprintf("(*EdwardsPoint).UnmarshalBinary accepted %d bytes (%x) without error on %s receiver", n, b, r.name), cas)
			} else if (err == nil) != ok {
				w.Fail("EdwardsPoint.UnmarshalBinary/lengths-content", fmt.Sprintf("UnmarshalBinary(%x): err=%v, reference decodable=%v", b, err, ok), cas)
			}
			if !ok && !edpts.IsExactIdentity(p) {
				w.Fail("EdwardsPoint.UnmarshalBinary/receiver", fmt.Sprintf("after UnmarshalBinary of %d undecodable bytes the %s receiver is not the identity", n, r.name), cas)
			}
		}
		for k := 0; k < 2; k++ {
			var u curve.CompressedEdwardsY
			if k == 1 {
				copy(u[:], benc)
			}
			err := u.UnmarshalBinary(b)
			if n != 32 && err == nil {
				w.Fail("EdwardsPoint.UnmarshalBinary/length", fmt.Sprintf("(*CompressedEdwardsY).UnmarshalBinary accepted %d bytes (%x) without error", n, b), cas)
			} else if (err == nil) != ok {
				w.Fail("CompressedEdwardsY.UnmarshalBinary/lengths-content", fmt.Sprintf("UnmarshalBinary(%x): err=%v, reference decodable=%v", b, err, ok), cas)
			}
			if !ok && !bytes.Equal(u[:], identityEnc) {
				w.Fail("CompressedEdwardsY.UnmarshalBinary/receiver", fmt.Sprintf("after UnmarshalBinary of %d undecodable bytes the receiver is %x", n, u[:]), cas)
			}
			// SetBytes / constructor: error <=> wrong length; a failed SetBytes must not half-write.
			var s curve.CompressedEdwardsY
			if k == 1 {
				copy(s[:], benc)
			}
			pre := s
			r, err := s.SetBytes(b)
			if (err == nil) != (n == 32) {
				w.Fail("CompressedEdwardsY.SetBytes/length", fmt.Sprintf("SetBytes with %d bytes: err=%v", n, err), cas)
			}
			if err == nil && (r != &s || !bytes.Equal(s[:], b)) {
				w.Fail("CompressedEdwardsY.SetBytes", "SetBytes did not copy its input", cas)
			}
			if err != nil && s != pre && !bytes.Equal(s[:], identityEnc) {
				w.Fail("CompressedEdwardsY.SetBytes/receiver", fmt.Sprintf("failed SetBytes(%d bytes) modified the receiver to %x", n, s[:]), cas)
			}
		}
		cp, err := curve.NewCompressedEdwardsYFromBytes(b)
		if (err == nil) != (n == 32) || (err == nil && !bytes.Equal(cp[:], b)) {
			w.Fail("NewCompressedEdwardsYFromBytes/length", fmt.Sprintf("NewCompressedEdwardsYFromBytes with %d bytes: err=%v", n, err), cas)
		}
		var mp curve.MontgomeryPoint
		if _, err := mp.SetBytes(b); (err == nil) != (n == 32) || (err == nil && !bytes.Equal(mp[:], b)) {
			w.Fail("MontgomeryPoint.SetBytes/length", fmt.Sprintf("MontgomeryPoint.SetBytes with %d bytes: err=%v", n, err), cas)
		}
		if !intact() {
			w.Fail("caller-memory/lengths", fmt.Sprintf("a decoder wrote to the caller's buffer (input of %d bytes)", n), cas)
		}
	})

	// ------------------------------------------------------------------ histories
	histories(c, E, benc)

	// ------------------------------------------------------------------ points
	pointSpace(c, tor, lam)

	// ------------------------------------------------------------------ Montgomery -> Edwards
	montSpace(c, receivers)

	// ------------------------------------------------------------------ audit themes (notes/THEMES.md): aliasing, reuse, special points, output shapes
	themes(c, tor, lam, benc)
	selfAliased(c, E)
	encodeAfterHistory(c)

	// ------------------------------------------------------------------ CompressedEdwardsY.Equal
	nq := c.Pick(260, 700)
	if nq > len(E) {
		nq = len(E)
	}
	// the first strings of E are y = 0..40 and p-40.. with both signs; add the aliases >= p so that
	// canonical / non-canonical encodings of the same point meet.
	Q := append([][]byte{}, E[:nq]...)
	type dec struct {
		p  ref.Point
		ok bool
	}
	qd := make([]dec, len(Q))
	for i, b := range Q {
		qd[i].p, qd[i].ok, _ = ref.Decode(b)
	}
	alphed.Par(c, "compressed-equal", len(Q)*len(Q), func(w *mc.W, i int) {
		a, b := Q[i/len(Q)], Q[i%len(Q)]
		var ca, cb curve.CompressedEdwardsY
		copy(ca[:], a)
		copy(cb[:], b)
		want := 0
		if bytes.Equal(a, b) {
			want = 1
		}
		da, db := qd[i/len(Q)], qd[i%len(Q)]
		samePoint := da.ok && db.ok && da.p.Equal(db.p)
		w.Eval(fmt.Sprintf("compressed-equal/%d", want), samePoint && want == 0)
		if got := ca.Equal(&cb); got != want {
			w.Fail("CompressedEdwardsY.Equal", fmt.Sprintf("Equal(%x,%x)=%d want %d (byte comparison)", a, b, got, want), map[string]string{"a": hx(a), "b": hx(b)})
		}
	})
	c.Require("compressed-equal/1", 100)
}

// histories runs every sequence of 2 (quick) / 3 (thorough) unmarshalling steps
// over a core alphabet of inputs (valid canonical, valid non-canonical, x=0
// with sign, invalid, wrong lengths) on one receiver: after each step the
// state must be a function of the last input only.
func histories(c *mc.Ctx, E [][]byte, benc []byte) {
	H := alphed.NewSet()
	H.Add(benc)
	H.Add(identityEnc)
	H.Add(x0sign1A)
	H.Add(x0sign1B)
	H.Add(ref.Base.Double().Encode())
	H.Add(ref.Torsion()[1].Encode())
	H.Add(ref.LE32(ref.P))                                  // y = p (== 0), non-canonical, on curve
	H.Add(ref.LE32(new(big.Int).Add(ref.P, big.NewInt(1)))) // y = p+1 (== 1), non-canonical identity
	// first rejected small y, first rejected high y, some generic accepts / rejects
	nAcc, nRej := 0, 0
	for _, b := range E {
		_, ok, _ := ref.Decode(b)
		if ok && nAcc < c.Pick(4, 8) && b[1] != 0 && b[1] != 0xff {
			H.Add(b)
			nAcc++
		}
		if !ok && nRej < c.Pick(6, 10) {
			H.Add(b)
			nRej++
		}
	}
	H.Add(bytes.Repeat([]byte{0xff}, 32))
	in := append([][]byte{}, H.Out...)
	// wrong lengths
	in = append(in, nil, []byte{}, benc[:31], append(append([]byte{}, benc...), 0), append(append([]byte{}, benc...), benc...), make([]byte, 1))
	type dec struct {
		p  ref.Point
		ok bool
	}
	ind := make([]dec, len(in))
	for i, b := range in {
		ind[i].p, ind[i].ok, _ = ref.Decode(b)
	}
	depth := c.Pick(3, 4)
	n := 1
	for k := 0; k < depth; k++ {
		n *= len(in)
	}
	c.Rep.Extra["history_alphabet"] = len(in)
	c.Rep.Extra["history_depth"] = depth
	alphed.Par(c, "histories", n, func(w *mc.W, i int) {
		var p curve.EdwardsPoint
		var cp curve.CompressedEdwardsY
		idx := make([]int, depth)
		j := i
		for k := depth - 1; k >= 0; k-- {
			idx[k] = j % len(in)
			j /= len(in)
		}
		desc := ""
		anyBad := false
		for step, ix := range idx {
			b := in[ix]
			desc += fmt.Sprintf("%x;", b)
			pt, ok := ind[ix].p, ind[ix].ok
			if !ok {
				anyBad = true
			}
			cas := map[string]string{"history": desc}
			err := p.UnmarshalBinary(b)
			if len(b) != 32 && err == nil {
				w.Fail("EdwardsPoint.UnmarshalBinary/length", fmt.Sprintf("history %s: step %d accepted %d bytes without error", desc, step, len(b)), cas)
			} else if (err == nil) != ok {
				w.Fail("EdwardsPoint.UnmarshalBinary/history", fmt.Sprintf("history %s: step %d err=%v, reference decodable=%v", desc, step, err, ok), cas)
			}
			if ok && err == nil && !edpts.Is(&p, pt) {
				w.Fail("EdwardsPoint.UnmarshalBinary/history-value", fmt.Sprintf("history %s: step %d decoded a wrong point", desc, step), cas)
			}
			if !ok && !edpts.IsExactIdentity(&p) {
				w.Fail("EdwardsPoint.UnmarshalBinary/receiver", fmt.Sprintf("history %s: after failing step %d the receiver is not the identity", desc, step), cas)
			}
			err = cp.UnmarshalBinary(b)
			if len(b) != 32 && err == nil {
				w.Fail("EdwardsPoint.UnmarshalBinary/length", fmt.Sprintf("history %s: (*CompressedEdwardsY) step %d accepted %d bytes without error", desc, step, len(b)), cas)
			} else if (err == nil) != ok {
				w.Fail("CompressedEdwardsY.UnmarshalBinary/history", fmt.Sprintf("history %s: step %d err=%v, reference decodable=%v", desc, step, err, ok), cas)
			}
			if ok && err == nil && !bytes.Equal(cp[:], b) {
				w.Fail("CompressedEdwardsY.UnmarshalBinary/history-value", fmt.Sprintf("history %s: step %d stored %x", desc, step, cp[:]), cas)
			}
			if !ok && !bytes.Equal(cp[:], identityEnc) {
				w.Fail("CompressedEdwardsY.UnmarshalBinary/receiver", fmt.Sprintf("history %s: after failing step %d the receiver is %x", desc, step, cp[:]), cas)
			}
		}
		w.Eval("histories", anyBad)
	})
}

type pinfo struct {
	name  string
	p     ref.Point
	enc   []byte
	small bool
	tfree bool
	cof   ref.Point
	neg   ref.Point
	mont  []byte
}

type prep struct {
	pt   int
	kind string
	z1   bool
	p    *curve.EdwardsPoint
}

func pointSpace(c *mc.Ctx, tor [8]ref.Point, lam []*big.Int) {
	// ---- the point alphabet (reference side)
	var pts []*pinfo
	seen := map[string]bool{}
	add := func(name string, p ref.Point) {
		e := p.Encode()
		if seen[string(e)] {
			return
		}
		seen[string(e)] = true
		pts = append(pts, &pinfo{name: name, p: p, enc: e})
	}
	addPM := func(name string, p ref.Point) {
		add(name, p)
		add("-"+name, p.Neg())
	}
	add("O", ref.Identity())
	addPM("B", ref.Base)
	addPM("2B", ref.Base.Double())
	for i := 1; i < 8; i++ {
		add(fmt.Sprintf("T%d", i), tor[i])
	}
	for i := 1; i < 8; i++ {
		addPM(fmt.Sprintf("B+T%d", i), ref.Base.Add(tor[i]))
	}
	ng := c.Pick(6, 16)
	for k := 0; k < ng; k++ {
		g := new(big.Int).Mod(ref.FromLE(mc.Bytes(c.Seed, "c10-g", k, 32)), ref.L)
		gb := refmul.BaseMul(g)
		addPM(fmt.Sprintf("[g%d]B", k), gb)
		if k < c.Pick(2, 6) {
			for i := 1; i < 8; i++ {
				addPM(fmt.Sprintf("[g%d]B+T%d", k, i), gb.Add(tor[i]))
			}
		}
	}
	add("[L-1]B", refmul.BaseMul(new(big.Int).Sub(ref.L, big.NewInt(1))))
	// points of unknown discrete logarithm: decode seed-derived y (mixed order in general) and their [8] multiples
	nu := 0
	for i := 0; nu < c.Pick(6, 16); i++ {
		b := mc.Bytes(c.Seed, "c10-unknown-dlog", i, 32)
		if p, ok, _ := ref.Decode(b); ok {
			addPM(fmt.Sprintf("H%d", nu), p)
			add(fmt.Sprintf("[8]H%d", nu), p.MulCofactor())
			nu++
		}
	}
	// small y on the curve
	ns := 0
	for y := int64(2); ns < 2; y++ {
		if p, ok := ref.PointFromY(big.NewInt(y), 0); ok {
			add(fmt.Sprintf("y=%d", y), p)
			ns++
		}
	}
	var wg sync.WaitGroup
	for _, pi := range pts {
		wg.Add(1)
		go func(pi *pinfo) {
			defer wg.Done()
			pi.small = pi.p.IsSmallOrder()
			pi.tfree = refmul.IsTorsionFree(pi.p)
			pi.cof = pi.p.MulCofactor()
			pi.neg = pi.p.Neg()
			pi.mont = ref.LE32(pi.p.ToMontgomeryU())
		}(pi)
	}
	wg.Wait()

	// ---- representations (library side, built from reference coordinates)
	var reps []*prep
	if !alphed.Guard(c, "representations-build", func() {
		for k, pi := range pts {
			z1 := edpts.FromRef(pi.p)
			reps = append(reps, &prep{k, "Z=1", true, z1})
			reps = append(reps, &prep{k, "rescale(2)", false, edpts.Rescale(z1, lam[1])})
			reps = append(reps, &prep{k, "coords(-1)", false, edpts.FromRefScaled(pi.p, lam[2])})
			reps = append(reps, &prep{k, "rescale(generic0)", false, edpts.Rescale(z1, lam[3])})
			reps = append(reps, &prep{k, "coords(generic1)", false, edpts.FromRefScaled(pi.p, lam[4])})
			// T13: ONE coordinate takes a special value (X, Y, T = +-1; Z = 1/3) while the point is ordinary
			for _, sl := range specialLambdas(pi.p) {
				reps = append(reps, &prep{k, "coords(" + sl.name + ")", false, edpts.FromRefScaled(pi.p, sl.l)})
				if sl.viaHook {
					reps = append(reps, &prep{k, "rescale(" + sl.name + ")", false, edpts.Rescale(z1, sl.l)})
				}
			}
			q := refmul.BaseMul(big.NewInt(int64(3 + k)))
			var s, d curve.EdwardsPoint
			s.Add(edpts.FromRef(pi.p.Sub(q)), edpts.FromRef(q))
			reps = append(reps, &prep{k, "lib.Add(P-Q,Q)", false, &s})
			d.Sub(edpts.Rescale(edpts.FromRef(pi.p.Add(q)), lam[3]), edpts.FromRef(q))
			reps = append(reps, &prep{k, "lib.Sub(P+Q,Q)", false, &d})
			if c.Thorough {
				var dd curve.EdwardsPoint
				dd.Add(&s, edpts.FromRef(ref.Identity()))
				reps = append(reps, &prep{k, "lib.Add(lib.Add(P-Q,Q),O)", false, &dd})
			}
		}
	}) {
		return
	}
	c.Rep.Extra["points"] = len(pts)
	c.Rep.Extra["representations"] = len(reps)

	// ---- unary predicates and encodings on every representation
	alphed.Par(c, "points", len(reps), func(w *mc.W, i int) {
		r := reps[i]
		pi := pts[r.pt]
		id := fmt.Sprintf("%s as %s", pi.name, r.kind)
		cas := map[string]string{"point": pi.name, "representation": r.kind, "encoding": hx(pi.enc)}
		cls := "points/torsion-free"
		switch {
		case pi.p.IsIdentity():
			cls = "points/identity"
		case pi.small:
			cls = "points/small-order"
		case !pi.tfree:
			cls = "points/mixed-order"
		}
		w.Eval(cls, !r.z1 || !pi.tfree || pi.small)
		if !edpts.Is(r.p, pi.p) {
			w.Fail("representation/"+r.kind, fmt.Sprintf("%s: the library-built representation is not the intended point", id), cas)
			return
		}
		var snapshot curve.EdwardsPoint
		snapshot = *r.p
		mb, err := r.p.MarshalBinary()
		if err != nil || !bytes.Equal(mb, pi.enc) {
			w.Fail("EdwardsPoint.MarshalBinary", fmt.Sprintf("%s: MarshalBinary=%x want %x", id, mb, pi.enc), cas)
		}
		var cp curve.CompressedEdwardsY
		if ret := cp.SetEdwardsPoint(r.p); ret != &cp || !bytes.Equal(cp[:], pi.enc) {
			w.Fail("CompressedEdwardsY.SetEdwardsPoint", fmt.Sprintf("%s: compressed to %x want %x", id, cp[:], pi.enc), cas)
		}
		if !cp.IsCanonicalVartime() {
			w.Fail("IsCanonicalVartime/encoder-output", fmt.Sprintf("%s: encoder output %x reported non-canonical", id, cp[:]), cas)
		}
		// encode -> decode -> same point
		var back curve.EdwardsPoint
		if err := back.UnmarshalBinary(mb); err != nil || !edpts.Is(&back, pi.p) {
			w.Fail("EdwardsPoint.UnmarshalBinary/after-encode", fmt.Sprintf("%s: decode(encode(P)) != P (err=%v)", id, err), cas)
		}
		if got, want := r.p.IsIdentity(), pi.p.IsIdentity(); got != want {
			w.Fail("EdwardsPoint.IsIdentity", fmt.Sprintf("%s: IsIdentity=%v want %v", id, got, want), cas)
		}
		if got := r.p.IsSmallOrder(); got != pi.small {
			w.Fail("EdwardsPoint.IsSmallOrder", fmt.Sprintf("%s: IsSmallOrder=%v want %v", id, got, pi.small), cas)
		}
		if got := r.p.IsTorsionFree(); got != pi.tfree {
			w.Fail("EdwardsPoint.IsTorsionFree", fmt.Sprintf("%s: IsTorsionFree=%v want %v", id, got, pi.tfree), cas)
		}
		var m8 curve.EdwardsPoint
		if ret := m8.MulByCofactor(r.p); ret != &m8 || !edpts.Is(&m8, pi.cof) {
			w.Fail("EdwardsPoint.MulByCofactor", fmt.Sprintf("%s: MulByCofactor is not [8]P", id), cas)
		}
		var al curve.EdwardsPoint
		al = *r.p
		al.MulByCofactor(&al) // aliasing
		if !edpts.Is(&al, pi.cof) {
			w.Fail("EdwardsPoint.MulByCofactor/alias", fmt.Sprintf("%s: p.MulByCofactor(p) is not [8]P", id), cas)
		}
		var ng curve.EdwardsPoint
		if ng.Neg(r.p); !edpts.Is(&ng, pi.neg) {
			w.Fail("EdwardsPoint.Neg", fmt.Sprintf("%s: Neg is not -P", id), cas)
		}
		var cpy curve.EdwardsPoint
		if cpy.Set(r.p); !edpts.SameCoords(&cpy, r.p) {
			w.Fail("EdwardsPoint.Set", fmt.Sprintf("%s: Set does not copy", id), cas)
		}
		var mp curve.MontgomeryPoint
		if ret := mp.SetEdwards(r.p); ret != &mp || !bytes.Equal(mp[:], pi.mont) {
			w.Fail("MontgomeryPoint.SetEdwards", fmt.Sprintf("%s: SetEdwards=%x want (1+y)/(1-y)=%x (identity maps to 0)", id, mp[:], pi.mont), cas)
		}
		// expanded point round trip
		ex := curve.NewExpandedEdwardsPoint(r.p)
		pp := ex.Point()
		if pp.Equal(r.p) != 1 || !edpts.Is(pp, pi.p) {
			w.Fail("ExpandedEdwardsPoint.Point", fmt.Sprintf("%s: NewExpandedEdwardsPoint(p).Point() != p", id), cas)
		}
		var se curve.EdwardsPoint
		if se.SetExpanded(ex); !edpts.Is(&se, pi.p) {
			w.Fail("EdwardsPoint.SetExpanded", fmt.Sprintf("%s: SetExpanded(NewExpandedEdwardsPoint(p)) != p", id), cas)
		}
		var ex2 curve.ExpandedEdwardsPoint
		ex2.SetEdwardsPoint(edpts.FromRef(ref.Base)) // overwrite a used expanded point
		ex2.SetEdwardsPoint(r.p)
		if !edpts.Is(ex2.Point(), pi.p) {
			w.Fail("ExpandedEdwardsPoint.SetEdwardsPoint/reuse", fmt.Sprintf("%s: reused expanded point does not hold p", id), cas)
		}
		if !edpts.SameCoords(&snapshot, r.p) {
			w.Fail("argument-modified", fmt.Sprintf("%s: a read-only operation modified its argument", id), cas)
		}
		if i%37 == 0 {
			w.Sample(map[string]string{"op": "point predicates", "point": pi.name, "representation": r.kind, "class": cls})
		}
	})
	c.Require("points/identity", 5)
	c.Require("points/small-order", 7*5)
	c.Require("points/mixed-order", 14*5)
	c.Require("points/torsion-free", 8*5)

	// ---- Equal and ConditionalSelect on all pairs of representations
	nr := len(reps)
	alphed.Par(c, "equal-pairs", nr*nr, func(w *mc.W, i int) {
		a, b := reps[i/nr], reps[i%nr]
		want := 0
		if a.pt == b.pt {
			want = 1
		}
		w.Eval(fmt.Sprintf("equal/%d", want), a != b && (!a.z1 || !b.z1))
		if got := a.p.Equal(b.p); got != want {
			w.Fail("EdwardsPoint.Equal", fmt.Sprintf("Equal(%s as %s, %s as %s)=%d want %d", pts[a.pt].name, a.kind, pts[b.pt].name, b.kind, got, want),
				map[string]string{"a": pts[a.pt].name + " " + a.kind, "b": pts[b.pt].name + " " + b.kind, "a_enc": hx(pts[a.pt].enc), "b_enc": hx(pts[b.pt].enc)})
		}
		var s0, s1 curve.EdwardsPoint
		s0.ConditionalSelect(a.p, b.p, 0)
		s1.ConditionalSelect(a.p, b.p, 1)
		if !edpts.SameCoords(&s0, a.p) || !edpts.SameCoords(&s1, b.p) {
			w.Fail("EdwardsPoint.ConditionalSelect", fmt.Sprintf("ConditionalSelect(%s as %s, %s as %s, 0/1) did not return a/b", pts[a.pt].name, a.kind, pts[b.pt].name, b.kind), nil)
		}
		if i%9973 == 0 {
			w.Sample(map[string]string{"op": "Equal", "a": pts[a.pt].name + " as " + a.kind, "b": pts[b.pt].name + " as " + b.kind, "want": fmt.Sprint(want)})
		}
	})
	c.Require("equal/1", int64(len(pts)*40))
}

// montSpace: EdwardsPoint.SetMontgomery(u, sign) on the u alphabet, and MontgomeryPoint.Equal.
func montSpace(c *mc.Ctx, receivers []recv) {
	U := alphed.UCoords(c.Seed, c.Pick(150, 1200))
	c.Rep.Extra["alphabet_U_strings"] = len(U)
	minusOne := new(big.Int).Sub(ref.P, big.NewInt(1))
	alphed.Par(c, "setmontgomery", len(U)*2, func(w *mc.W, i int) {
		ub, sign := U[i/2], uint8(i%2)
		u := refx.DecodeUCoordinate(ub)
		on := refx.OnCurve(u)
		cls := "setmontgomery/twist"
		if on {
			cls = "setmontgomery/curve"
		}
		if u.Cmp(minusOne) == 0 {
			cls = "setmontgomery/u=-1"
		}
		noncanon := ref.FromLE(ub).Cmp(ref.P) >= 0
		w.Eval(cls, noncanon || !on || u.Sign() == 0)
		cas := map[string]string{"u": hx(ub), "sign": fmt.Sprint(sign)}
		var mp curve.MontgomeryPoint
		copy(mp[:], ub)
		for _, r := range receivers {
			p := r.mk()
			var before curve.EdwardsPoint
			before = *p
			q, err := p.SetMontgomery(&mp, sign)
			if (err == nil) != on {
				w.Fail("EdwardsPoint.SetMontgomery/accept-set", fmt.Sprintf("SetMontgomery(u=%x, sign=%d): err=%v, but u (=%x mod p) on curve is %v", ub, sign, err, u, on), cas)
				continue
			}
			if err != nil {
				if r.name != "zero-value" && !edpts.SameCoords(p, &before) && !edpts.IsExactIdentity(p) {
					w.Fail("EdwardsPoint.SetMontgomery/receiver", fmt.Sprintf("failed SetMontgomery(u=%x) left the %s receiver neither unchanged nor the identity", ub, r.name), cas)
				}
				continue
			}
			if q != p {
				w.Fail("EdwardsPoint.SetMontgomery/return", "successful SetMontgomery did not return its receiver", cas)
			}
			got, ok := edpts.Affine(p)
			wantY := ref.FDiv(ref.FSub(u, big.NewInt(1)), ref.FAdd(u, big.NewInt(1)))
			if !ok || got.Y.Cmp(wantY) != 0 {
				w.Fail("EdwardsPoint.SetMontgomery/value", fmt.Sprintf("SetMontgomery(u=%x, sign=%d): result is not a curve point with y=(u-1)/(u+1)=%x", ub, sign, wantY), cas)
				continue
			}
			if got.X.Sign() != 0 && got.X.Bit(0) != uint(sign) {
				w.Fail("EdwardsPoint.SetMontgomery/sign", fmt.Sprintf("SetMontgomery(u=%x, sign=%d): x=%x has the wrong sign", ub, sign, got.X), cas)
			}
			if back := got.ToMontgomeryU(); back.Cmp(u) != 0 {
				c.Broken("reference inconsistency: birational map does not round-trip")
				return
			}
			var m2 curve.MontgomeryPoint
			m2.SetEdwards(p)
			if !bytes.Equal(m2[:], ref.LE32(u)) {
				w.Fail("MontgomeryPoint.SetEdwards/roundtrip", fmt.Sprintf("SetEdwards(SetMontgomery(u=%x, sign=%d))=%x want %x", ub, sign, m2[:], ref.LE32(u)), cas)
			}
		}
		if i%53 == 0 {
			w.Sample(map[string]string{"op": "SetMontgomery", "u": hx(ub), "sign": fmt.Sprint(sign), "class": cls})
		}
	})
	c.Require("setmontgomery/curve", 100)
	c.Require("setmontgomery/twist", 100)
	c.Require("setmontgomery/u=-1", 4)

	// MontgomeryPoint.Equal compares field elements (bit 255 ignored, value reduced).
	nu := len(U)
	alphed.Par(c, "montgomery-equal", nu*nu, func(w *mc.W, i int) {
		a, b := U[i/nu], U[i%nu]
		want := 0
		if refx.DecodeUCoordinate(a).Cmp(refx.DecodeUCoordinate(b)) == 0 {
			want = 1
		}
		w.Eval(fmt.Sprintf("montgomery-equal/%d", want), want == 1 && !bytes.Equal(a, b))
		var ma, mb curve.MontgomeryPoint
		copy(ma[:], a)
		copy(mb[:], b)
		if got := ma.Equal(&mb); got != want {
			w.Fail("MontgomeryPoint.Equal", fmt.Sprintf("Equal(%x,%x)=%d want %d", a, b, got, want), map[string]string{"a": hx(a), "b": hx(b)})
		}
	})
}

type slambda struct {
	name    string
	l       *big.Int
	viaHook bool // also through the hook multiplication (library limbs)
}

// specialLambdas returns the projective scalings of (x : y : 1 : xy) that give
// ONE coordinate a special value: lambda = 1/3 (Z = 1/3), 1/x and -1/x (X = +-1),
// 1/y and -1/y (Y = +-1 with Z != 1 unless the point is the identity / the
// 2-torsion point), 1/t (T = 1), where defined.
func specialLambdas(p ref.Point) []slambda {
	x, y := ref.FMod(p.X), ref.FMod(p.Y)
	t := ref.FMul(x, y)
	out := []slambda{{"1/3", ref.FInv(big.NewInt(3)), false}}
	if x.Sign() != 0 {
		out = append(out, slambda{"1/X", ref.FInv(x), false}, slambda{"-1/X", ref.FNeg(ref.FInv(x)), false})
	}
	if y.Sign() != 0 {
		out = append(out, slambda{"1/Y", ref.FInv(y), true}, slambda{"-1/Y", ref.FNeg(ref.FInv(y)), false})
	}
	if t.Sign() != 0 {
		out = append(out, slambda{"1/T", ref.FInv(t), false})
	}
	return out
}
