package main

// encode-after-history: a point OBJECT is given a first value in one of the ways that leave a "simple" representation
// behind (zero value, NewEdwardsPoint, a decode, a failed UnmarshalBinary, Identity()), is then overwritten by every
// method that writes to a receiver from sources with Z != 1, and is then encoded / compared / used as an operand.
// Anything the object remembers about its first value (a memoised "already affine" flag, a cached encoding) that one
// of the writers forgets to refresh shows up as an encoding of the wrong point.  Added after a seeded change whose
// stale flag survived Neg and ConditionalSelect only.

import (
	"bytes"
	"fmt"
	"math/big"

	"github.com/oasisprotocol/curve25519-voi/curve"
	"github.com/oasisprotocol/curve25519-voi/curve/scalar"
	"github.com/oasisprotocol/curve25519-voi/internal/verif/mc"
	"github.com/oasisprotocol/curve25519-voi/internal/verif/ptalph"
	"github.com/oasisprotocol/curve25519-voi/internal/verif/ref"
	"github.com/oasisprotocol/curve25519-voi/internal/verif/ref/refmul"
)

func encodeAfterHistory(c *mc.Ctx) {
	tor := ref.Torsion()
	g1 := new(big.Int).Mod(ref.FromLE(mc.Bytes(c.Seed, "c10-rh", 0, 32)), ref.L)
	g2 := new(big.Int).Mod(ref.FromLE(mc.Bytes(c.Seed, "c10-rh", 1, 32)), ref.L)
	type pair struct{ q, r ref.Point }
	pairs := []pair{
		{refmul.BaseMul(g1), refmul.BaseMul(g2)},
		{refmul.BaseMul(g2).Add(tor[3]), refmul.BaseMul(g1).Add(tor[5])},
	}
	k5 := big.NewInt(5)
	sc5 := scalar.NewFromUint64(5)
	sc3 := scalar.NewFromUint64(3)
	one := scalar.NewFromUint64(1)
	benc := ref.Base.Encode()
	badEnc := func() []byte { // a string that does not decode
		b := make([]byte, 32)
		for y := byte(2); ; y++ {
			b[0] = y
			if _, ok, _ := ref.Decode(b); !ok {
				return b
			}
		}
	}()
	type prev struct {
		name string
		mk   func(pr pair) *curve.EdwardsPoint
	}
	prevs := []prev{
		{"zero-value", func(pair) *curve.EdwardsPoint { return new(curve.EdwardsPoint) }},
		{"NewEdwardsPoint", func(pair) *curve.EdwardsPoint { return curve.NewEdwardsPoint() }},
		{"decoded-B", func(pair) *curve.EdwardsPoint { p := new(curve.EdwardsPoint); _ = p.UnmarshalBinary(benc); return p }},
		{"decoded-other", func(pr pair) *curve.EdwardsPoint { p := new(curve.EdwardsPoint); _ = p.UnmarshalBinary(pr.r.Encode()); return p }},
		{"failed-UnmarshalBinary", func(pr pair) *curve.EdwardsPoint {
			p := ptalph.Rep(c.Seed, pr.r, 4)
			_ = p.UnmarshalBinary(badEnc)
			return p
		}},
		{"Identity()-on-projective", func(pr pair) *curve.EdwardsPoint { p := ptalph.Rep(c.Seed, pr.r, 4); p.Identity(); return p }},
		{"SetCompressedY(torsion)", func(pair) *curve.EdwardsPoint {
			p := new(curve.EdwardsPoint)
			var cy curve.CompressedEdwardsY
			copy(cy[:], tor[2].Encode())
			_, _ = p.SetCompressedY(&cy)
			return p
		}},
		{"projective", func(pr pair) *curve.EdwardsPoint { return ptalph.Rep(c.Seed, pr.r, 3) }},
	}
	type writer struct {
		name string
		f    func(p, q, r *curve.EdwardsPoint)
		want func(q, r ref.Point) ref.Point
	}
	writers := []writer{
		{"Set(q)", func(p, q, r *curve.EdwardsPoint) { p.Set(q) }, func(q, r ref.Point) ref.Point { return q }},
		{"*p = *q", func(p, q, r *curve.EdwardsPoint) { *p = *q }, func(q, r ref.Point) ref.Point { return q }},
		{"Neg(q)", func(p, q, r *curve.EdwardsPoint) { p.Neg(q) }, func(q, r ref.Point) ref.Point { return q.Neg() }},
		{"Add(q,r)", func(p, q, r *curve.EdwardsPoint) { p.Add(q, r) }, func(q, r ref.Point) ref.Point { return q.Add(r) }},
		{"Add(q,q)", func(p, q, r *curve.EdwardsPoint) { p.Add(q, q) }, func(q, r ref.Point) ref.Point { return q.Double() }},
		{"Sub(q,r)", func(p, q, r *curve.EdwardsPoint) { p.Sub(q, r) }, func(q, r ref.Point) ref.Point { return q.Sub(r) }},
		{"ConditionalSelect(q,r,0)", func(p, q, r *curve.EdwardsPoint) { p.ConditionalSelect(q, r, 0) }, func(q, r ref.Point) ref.Point { return q }},
		{"ConditionalSelect(q,r,1)", func(p, q, r *curve.EdwardsPoint) { p.ConditionalSelect(q, r, 1) }, func(q, r ref.Point) ref.Point { return r }},
		{"ConditionalSelect(p,q,1)", func(p, q, r *curve.EdwardsPoint) { p.ConditionalSelect(p, q, 1) }, func(q, r ref.Point) ref.Point { return q }},
		{"Mul(q,5)", func(p, q, r *curve.EdwardsPoint) { p.Mul(q, sc5) }, func(q, r ref.Point) ref.Point { return q.Mul(k5) }},
		{"Mul(q,1)", func(p, q, r *curve.EdwardsPoint) { p.Mul(q, one) }, func(q, r ref.Point) ref.Point { return q }},
		{"MulByCofactor(q)", func(p, q, r *curve.EdwardsPoint) { p.MulByCofactor(q) }, func(q, r ref.Point) ref.Point { return q.MulCofactor() }},
		{"Sum(q,r)", func(p, q, r *curve.EdwardsPoint) { p.Sum([]*curve.EdwardsPoint{q, r}) }, func(q, r ref.Point) ref.Point { return q.Add(r) }},
		{"Sum(q)", func(p, q, r *curve.EdwardsPoint) { p.Sum([]*curve.EdwardsPoint{q}) }, func(q, r ref.Point) ref.Point { return q }},
		{"MultiscalarMul(1*q)", func(p, q, r *curve.EdwardsPoint) { p.MultiscalarMul([]*scalar.Scalar{one}, []*curve.EdwardsPoint{q}) }, func(q, r ref.Point) ref.Point { return q }},
		{"MultiscalarMulVartime(1*q+1*r)", func(p, q, r *curve.EdwardsPoint) {
			p.MultiscalarMulVartime([]*scalar.Scalar{one, one}, []*curve.EdwardsPoint{q, r})
		}, func(q, r ref.Point) ref.Point { return q.Add(r) }},
		{"DoubleScalarMulBasepointVartime(1,q,3)", func(p, q, r *curve.EdwardsPoint) { p.DoubleScalarMulBasepointVartime(one, q, sc3) },
			func(q, r ref.Point) ref.Point { return q.Add(ref.Base.Mul(big.NewInt(3))) }},
		{"SetExpanded(expanded q)", func(p, q, r *curve.EdwardsPoint) { p.SetExpanded(curve.NewExpandedEdwardsPoint(q)) }, func(q, r ref.Point) ref.Point { return q }},
		{"MulBasepoint(table of q,1)", func(p, q, r *curve.EdwardsPoint) { p.MulBasepoint(curve.NewEdwardsBasepointTable(q), one) }, func(q, r ref.Point) ref.Point { return q }},
	}
	// expected values, computed once (reference side)
	want := make([][]ref.Point, len(writers))
	for wi := range writers {
		for _, pr := range pairs {
			want[wi] = append(want[wi], writers[wi].want(pr.q, pr.r))
		}
	}
	const nrep = 5
	n := len(prevs) * len(writers) * nrep * len(pairs)
	c.Par("encode-after-history", n, func(w *mc.W, i int) {
		pv := &prevs[i%len(prevs)]
		wi := (i / len(prevs)) % len(writers)
		wr := &writers[wi]
		rep := (i / len(prevs) / len(writers)) % nrep
		pi := i / len(prevs) / len(writers) / nrep
		pr := pairs[pi]
		exp := want[wi][pi]
		q := ptalph.Rep(c.Seed, pr.q, rep)
		r := ptalph.Rep(c.Seed, pr.r, 4)
		p := pv.mk(pr)
		wr.f(p, q, r)
		w.Eval("writer/"+wr.name, rep != 0)
		cas := map[string]string{"previous": pv.name, "writer": wr.name, "rep_of_q": fmt.Sprint(rep), "q": hx(pr.q.Encode()), "r": hx(pr.r.Encode())}
		fail := func(what string, got, wantB []byte) {
			w.Fail("EdwardsPoint/encode-after-history/"+what, fmt.Sprintf("receiver first %s, then %s (q in representation %d): %s gives %x, want %x", pv.name, wr.name, rep, what, got, wantB), cas)
		}
		we := exp.Encode()
		if got := ptalph.Enc(p); !bytes.Equal(got, we) {
			fail("MarshalBinary", got, we)
			return
		}
		var cy curve.CompressedEdwardsY
		cy.SetEdwardsPoint(p)
		if !bytes.Equal(cy[:], we) {
			fail("CompressedEdwardsY.SetEdwardsPoint", cy[:], we)
		}
		if p.Equal(ptalph.Decode(we)) != 1 {
			fail("Equal(fresh decode of the expected point)", []byte{0}, []byte{1})
		}
		// the object as an operand afterwards: -p, p + B and a by-value copy
		if got := ptalph.Enc(new(curve.EdwardsPoint).Neg(p)); !bytes.Equal(got, exp.Neg().Encode()) {
			fail("encoding of Neg(p) into a fresh object", got, exp.Neg().Encode())
		}
		if got := ptalph.Enc(new(curve.EdwardsPoint).Add(p, curve.ED25519_BASEPOINT_POINT)); !bytes.Equal(got, exp.Add(ref.Base).Encode()) {
			fail("encoding of p + B", got, exp.Add(ref.Base).Encode())
		}
		cp := *p
		if got := ptalph.Enc(&cp); !bytes.Equal(got, we) {
			fail("encoding of a by-value copy", got, we)
		}
		// second write on the same object (the first write may itself have left something behind)
		p.Neg(q)
		if got := ptalph.Enc(p); !bytes.Equal(got, pr.q.Neg().Encode()) {
			fail("encoding after a second write Neg(q)", got, pr.q.Neg().Encode())
		}
		// the sources are untouched
		if !bytes.Equal(ptalph.Enc(q), pr.q.Encode()) || !bytes.Equal(ptalph.Enc(r), pr.r.Encode()) {
			fail("source operand changed", ptalph.Enc(q), pr.q.Encode())
		}
	})
	for _, wr := range writers {
		c.Require("writer/"+wr.name, 16)
	}
}
