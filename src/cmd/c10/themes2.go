package main

// T11 (notes/THEMES.md): memory the library hands out.  Every exported
// function / method of the Edwards and Montgomery API that RETURNS a pointer
// or slice: overwrite what was returned, then observe the object it came from
// and every exported package-level value again; and the converse (re-set the
// source, the value returned earlier must not change).

import (
	"bytes"
	"fmt"
	"math/big"

	"github.com/oasisprotocol/curve25519-voi/curve"
	"github.com/oasisprotocol/curve25519-voi/curve/scalar"
	"github.com/oasisprotocol/curve25519-voi/internal/verif/alph/alphed"
	"github.com/oasisprotocol/curve25519-voi/internal/verif/alph/edpts"
	"github.com/oasisprotocol/curve25519-voi/internal/verif/mc"
	"github.com/oasisprotocol/curve25519-voi/internal/verif/ref"
	"github.com/oasisprotocol/curve25519-voi/internal/verif/ref/refmul"
)

// observeGlobals compares every exported package-level value of the Edwards /
// Montgomery API with the reference.
func observeGlobals(w *mc.W, tor [8]ref.Point, when string) {
	bad := func(what string) {
		w.Fail("package-level-value/"+what, fmt.Sprintf("%s: the exported value %s no longer equals its definition", when, what), map[string]string{"after": when})
	}
	if !edpts.Is(curve.ED25519_BASEPOINT_POINT, ref.Base) {
		bad("ED25519_BASEPOINT_POINT")
	}
	if !bytes.Equal(curve.ED25519_BASEPOINT_COMPRESSED[:], ref.Base.Encode()) {
		bad("ED25519_BASEPOINT_COMPRESSED")
	}
	nine := make([]byte, 32)
	nine[0] = 9
	if !bytes.Equal(curve.X25519_BASEPOINT[:], nine) {
		bad("X25519_BASEPOINT")
	}
	for i := range curve.EIGHT_TORSION {
		if !edpts.Is(curve.EIGHT_TORSION[i], tor[i]) {
			bad(fmt.Sprintf("EIGHT_TORSION[%d]", i))
		}
	}
	if !edpts.Is(curve.ED25519_BASEPOINT_TABLE.Basepoint(), ref.Base) {
		bad("ED25519_BASEPOINT_TABLE.Basepoint()")
	}
	k := big.NewInt(0x1d2c3b4a)
	var m curve.EdwardsPoint
	m.MulBasepoint(curve.ED25519_BASEPOINT_TABLE, scOf(k))
	if !edpts.Is(&m, refmul.BaseMul(k)) {
		bad("ED25519_BASEPOINT_TABLE (MulBasepoint)")
	}
	var ob [32]byte
	if err := scalar.BASEPOINT_ORDER.ToBytes(ob[:]); err != nil || !bytes.Equal(ob[:], ref.LE32(ref.L)) {
		bad("scalar.BASEPOINT_ORDER")
	}
}

func clobberPoint(p *curve.EdwardsPoint) {
	p.Add(p, p)
	p.Add(p, curve.ED25519_BASEPOINT_POINT)
}

func handedOut(c *mc.Ctx, tor [8]ref.Point, lam []*big.Int) {
	g := new(big.Int).Mod(ref.FromLE(mc.Bytes(c.Seed, "c10-handout-g", 0, 32)), ref.L)
	P := refmul.BaseMul(g).Add(tor[3])
	Q := refmul.BaseMul(big.NewInt(77)).Add(tor[6])
	k := new(big.Int).Mod(ref.FromLE(mc.Bytes(c.Seed, "c10-handout-k", 0, 32)), ref.L)
	kP := refmul.Mul(P, k)
	type handout struct {
		name string
		run  func(w *mc.W, fail func(string))
	}
	is := func(p *curve.EdwardsPoint, want ref.Point) bool { return edpts.Is(p, want) }
	hs := []handout{
		{"ED25519_BASEPOINT_TABLE.Basepoint()", func(w *mc.W, fail func(string)) {
			b1 := curve.ED25519_BASEPOINT_TABLE.Basepoint()
			b2 := curve.ED25519_BASEPOINT_TABLE.Basepoint()
			if b1 == b2 || b1 == curve.ED25519_BASEPOINT_POINT {
				fail("two calls return the same pointer (or the package-level generator)")
			}
			clobberPoint(b1)
			if !is(b2, ref.Base) || !is(curve.ED25519_BASEPOINT_TABLE.Basepoint(), ref.Base) {
				fail("writing to the returned point changed a later / earlier result")
			}
		}},
		{"custom EdwardsBasepointTable", func(w *mc.W, fail func(string)) {
			src := edpts.FromRefScaled(P, lam[3])
			tbl := curve.NewEdwardsBasepointTable(src)
			early := tbl.Basepoint()
			clobberPoint(src) // the converse: the source changes after the table was built
			if !is(tbl.Basepoint(), P) || !is(early, P) {
				fail("the table's basepoint changed with the source point")
			}
			b := tbl.Basepoint()
			clobberPoint(b)
			var m curve.EdwardsPoint
			m.MulBasepoint(tbl, scOf(k))
			if !is(tbl.Basepoint(), P) || !is(early, P) || !is(&m, kP) {
				fail("writing to Basepoint() changed the table")
			}
		}},
		{"ExpandedEdwardsPoint.Point()", func(w *mc.W, fail func(string)) {
			src := edpts.FromRefScaled(P, lam[4])
			ex := curve.NewExpandedEdwardsPoint(src)
			p1 := ex.Point()
			clobberPoint(src)
			if !is(ex.Point(), P) || !is(p1, P) {
				fail("the expanded point changed with its source")
			}
			clobberPoint(p1)
			var r curve.EdwardsPoint
			r.ExpandedDoubleScalarMulBasepointVartime(scOf(k), ex, scOf(big.NewInt(0)))
			if !is(ex.Point(), P) || !is(&r, kP) {
				fail("writing to Point() changed the expanded point")
			}
			p2 := ex.Point()
			ex.SetEdwardsPoint(edpts.FromRef(Q)) // the converse
			if !is(p2, P) || !is(ex.Point(), Q) {
				fail("re-setting the expanded point changed a value returned earlier")
			}
			var s curve.EdwardsPoint
			s.SetExpanded(ex)
			clobberPoint(&s)
			if !is(ex.Point(), Q) {
				fail("SetExpanded shares memory with the expanded point")
			}
		}},
		{"MarshalBinary", func(w *mc.W, fail func(string)) {
			for _, mk := range []func() ([]byte, error){
				curve.ED25519_BASEPOINT_POINT.MarshalBinary, curve.ED25519_BASEPOINT_COMPRESSED.MarshalBinary,
				curve.EIGHT_TORSION[1].MarshalBinary, curve.ED25519_BASEPOINT_TABLE.Basepoint().MarshalBinary,
			} {
				b, err := mk()
				if err != nil {
					fail("MarshalBinary error " + err.Error())
					continue
				}
				b = b[:cap(b)]
				for i := range b {
					b[i] = 0xff
				}
			}
		}},
		{"constructors", func(w *mc.W, fail func(string)) {
			a, b := curve.NewEdwardsPoint(), curve.NewEdwardsPoint()
			clobberPoint(a)
			if a == b || !edpts.IsExactIdentity(b) || !edpts.IsExactIdentity(curve.NewEdwardsPoint()) {
				fail("NewEdwardsPoint results share memory")
			}
			ca, cb := curve.NewCompressedEdwardsY(), curve.NewCompressedEdwardsY()
			for i := range ca {
				ca[i] = 0xff
			}
			if ca == cb || !bytes.Equal(cb[:], identityEnc) || !bytes.Equal(curve.NewCompressedEdwardsY()[:], identityEnc) {
				fail("NewCompressedEdwardsY results share memory")
			}
			ma, mb := curve.NewMontgomeryPoint(), curve.NewMontgomeryPoint()
			for i := range ma {
				ma[i] = 0xff
			}
			if ma == mb || !bytes.Equal(mb[:], make([]byte, 32)) {
				fail("NewMontgomeryPoint results share memory")
			}
			in := ref.Base.Encode()
			cp, err := curve.NewCompressedEdwardsYFromBytes(in)
			if err != nil {
				fail(err.Error())
				return
			}
			in[0] ^= 0xff // the converse: the input changes after the call
			if !bytes.Equal(cp[:], ref.Base.Encode()) {
				fail("NewCompressedEdwardsYFromBytes keeps a reference to its input")
			}
			var pt curve.EdwardsPoint
			in2 := ref.Base.Encode()
			_ = pt.UnmarshalBinary(in2)
			for i := range in2 {
				in2[i] = 0xff
			}
			if !is(&pt, ref.Base) {
				fail("UnmarshalBinary keeps a reference to its input")
			}
		}},
		{"operands that are package-level values", func(w *mc.W, fail func(string)) {
			// the exported points used as operands and as Set sources: results must be private copies
			var a, b, d curve.EdwardsPoint
			a.Set(curve.ED25519_BASEPOINT_POINT)
			clobberPoint(&a)
			b.ConditionalSelect(curve.ED25519_BASEPOINT_POINT, curve.EIGHT_TORSION[1], 1)
			clobberPoint(&b)
			d.Neg(curve.EIGHT_TORSION[4])
			clobberPoint(&d)
			var mp curve.MontgomeryPoint
			mp.Mul(curve.X25519_BASEPOINT, scOf(k))
			var cy curve.CompressedEdwardsY
			cy.SetEdwardsPoint(curve.ED25519_BASEPOINT_POINT)
			cy[0] ^= 0xff
		}},
	}
	alphed.Par(c, "handed-out-memory", len(hs), func(w *mc.W, i int) {
		h := hs[i]
		w.Eval("handed-out-memory", true)
		observeGlobals(w, tor, "before "+h.name)
		h.run(w, func(msg string) {
			w.Fail("handed-out-memory/"+h.name, h.name+": "+msg, map[string]string{"handout": h.name})
		})
		observeGlobals(w, tor, "after overwriting the result of "+h.name)
	})
}

// selfAliased: the decoders of CompressedEdwardsY handed (a window of) the
// receiver's OWN storage as input.  Verdict and receiver afterwards must be
// those of decoding a separate copy of the same bytes into a receiver holding
// the same value, and both must match the reference (error <=> not 32 bytes or
// not on the curve; bytes kept on success, identity encoding after an error).
// Defect of the pinned tree (reset before the aliased input was read: every
// string accepted, identity left behind), fixed in /repo by 3d8d518.
func selfAliased(c *mc.Ctx, E [][]byte) {
	windows := [][2]int{{0, 32}, {0, 31}, {1, 32}, {16, 32}, {0, 0}}
	n := len(E)
	if !c.Thorough && n > 4000 {
		n = 4000
	}
	alphed.Par(c, "self-aliased-decode", n*len(windows), func(w *mc.W, i int) {
		init, win := E[i/len(windows)], windows[i%len(windows)]
		lo, hi := win[0], win[1]
		_, ok, _ := ref.Decode(init[lo:hi])
		w.Eval(fmt.Sprintf("self-aliased-decode/decodable=%v", ok), true)
		cas := map[string]string{"receiver": hx(init), "window": fmt.Sprintf("[%d:%d]", lo, hi)}
		run := func(alias, setBytes bool) (bool, []byte) {
			var p curve.CompressedEdwardsY
			copy(p[:], init)
			in := append([]byte{}, init[lo:hi]...)
			if alias {
				in = p[lo:hi]
			}
			var err error
			if setBytes {
				_, err = p.SetBytes(in)
			} else {
				err = p.UnmarshalBinary(in)
			}
			return err != nil, append([]byte{}, p[:]...)
		}
		// UnmarshalBinary
		wantAfter := identityEnc
		if ok {
			wantAfter = init
		}
		eA, pA := run(true, false)
		eC, pC := run(false, false)
		if eA != eC || !bytes.Equal(pA, pC) || eA != !ok || !bytes.Equal(pA, wantAfter) {
			w.Fail("CompressedEdwardsY.UnmarshalBinary/data-aliases-receiver", fmt.Sprintf("receiver holding %x, p.UnmarshalBinary(p[%d:%d]): error=%v receiver=%x; separate copy of the same bytes: error=%v receiver=%x; reference: decodable=%v", init, lo, hi, eA, pA, eC, pC, ok), cas)
		}
		// SetBytes: error <=> window is not 32 bytes; receiver unchanged in every case
		sA, qA := run(true, true)
		sC, qC := run(false, true)
		if sA != sC || !bytes.Equal(qA, qC) || sA != (hi-lo != 32) || !bytes.Equal(qA, init) {
			w.Fail("CompressedEdwardsY.SetBytes/data-aliases-receiver", fmt.Sprintf("receiver holding %x, p.SetBytes(p[%d:%d]): error=%v receiver=%x; separate copy: error=%v receiver=%x", init, lo, hi, sA, qA, sC, qC), cas)
		}
	})
	c.Require("self-aliased-decode/decodable=true", 300)
	c.Require("self-aliased-decode/decodable=false", 300)
}
