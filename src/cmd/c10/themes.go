package main

// Sub-spaces added by the audit against notes/THEMES.md:
//   T1 aliasing of every remaining method with a receiver, returned slices, a compressed receiver's own bytes
//   T3 re-set / copy-by-value / reuse of points and expanded points, compared with fresh objects
//   T5 the identity and the 2-torsion point reached many ways, every torsion coset through [L]P
//   T8 Equal on strings that differ in exactly one byte position
// (T4 complete length sweeps and caller memory are folded into "decode" and "lengths" in main.go.)

import (
	"bytes"
	"fmt"
	"math/big"

	"github.com/oasisprotocol/curve25519-voi/curve"
	"github.com/oasisprotocol/curve25519-voi/curve/scalar"
	"github.com/oasisprotocol/curve25519-voi/internal/verif/alph/alphed"
	"github.com/oasisprotocol/curve25519-voi/internal/verif/alph/edpts"
	"github.com/oasisprotocol/curve25519-voi/internal/verif/mc"
	"github.com/oasisprotocol/curve25519-voi/internal/verif/ref"
	"github.com/oasisprotocol/curve25519-voi/internal/verif/ref/refmul"
)

func scOf(v *big.Int) *scalar.Scalar {
	s, err := scalar.NewFromCanonicalBytes(ref.LE32(ref.SMod(v)))
	if err != nil {
		panic(err)
	}
	return s
}

type tpoint struct {
	name string
	p    ref.Point
	tf   bool // torsion-free
}

// mk builds a fresh library representation of p; kind selects the representation.
func mkRep(p ref.Point, kind int, lam []*big.Int) *curve.EdwardsPoint {
	switch kind % 3 {
	case 0:
		return edpts.FromRef(p)
	case 1:
		return edpts.FromRefScaled(p, lam[3])
	default:
		return edpts.Rescale(edpts.FromRef(p), lam[4])
	}
}

func themes(c *mc.Ctx, tor [8]ref.Point, lam []*big.Int, benc []byte) {
	g := new(big.Int).Mod(ref.FromLE(mc.Bytes(c.Seed, "c10-themes-g", 0, 32)), ref.L)
	gB := refmul.BaseMul(g)
	pts := []tpoint{
		{"O", ref.Identity(), true}, {"B", ref.Base, true}, {"-B", ref.Base.Neg(), true}, {"2B", ref.Base.Double(), true},
		{"[g]B", gB, true}, {"T1", tor[1], false}, {"T4", tor[4], false}, {"B+T3", ref.Base.Add(tor[3]), false},
		{"[g]B+T4", gB.Add(tor[4]), false}, {"[g]B+T7", gB.Add(tor[7]), false},
	}
	if c.Thorough {
		pts = append(pts, tpoint{"T2", tor[2], false}, tpoint{"B+T4", ref.Base.Add(tor[4]), false}, tpoint{"[L-1]B", ref.Base.Neg(), true}, tpoint{"-[g]B+T5", gB.Neg().Add(tor[5]), false})
	}
	scalars := []*big.Int{big.NewInt(0), big.NewInt(1), big.NewInt(2), new(big.Int).Sub(ref.L, big.NewInt(1)), ref.SMod(ref.FromLE(mc.Bytes(c.Seed, "c10-themes-s", 0, 32))), ref.SMod(ref.FromLE(mc.Bytes(c.Seed, "c10-themes-s", 1, 32)))}
	np := len(pts)

	// ---------------------------------------------------------------- T1: receiver among the operands
	alphed.Par(c, "alias-ops", np*np, func(w *mc.W, i int) {
		ip, iq := i/np, i%np
		P, Q := pts[ip], pts[iq]
		a, b := scalars[(ip+iq)%len(scalars)], scalars[(2*ip+iq+1)%len(scalars)]
		id := fmt.Sprintf("P=%s Q=%s a=%x b=%x", P.name, Q.name, a, b)
		cas := map[string]string{"P": P.name, "Q": Q.name, "a": a.Text(16), "b": b.Text(16)}
		w.Eval("alias-ops", true)
		fresh := func(t tpoint, k int) *curve.EdwardsPoint { return mkRep(t.p, k+i, lam) }
		expect := func(key string, got *curve.EdwardsPoint, want ref.Point) {
			if !edpts.Is(got, want) {
				mb, _ := got.MarshalBinary()
				w.Fail(key, fmt.Sprintf("%s with %s: result encodes to %x want %x", key, id, mb, want.Encode()), cas)
			}
		}
		q := fresh(Q, 1)
		qSnap := *q
		sum, diff := P.p.Add(Q.p), P.p.Sub(Q.p)

		x := fresh(P, 0)
		x.Add(x, q)
		expect("EdwardsPoint.Add/alias(x,x,q)", x, sum)
		x = fresh(P, 0)
		x.Add(q, x)
		expect("EdwardsPoint.Add/alias(x,q,x)", x, sum)
		x = fresh(P, 0)
		x.Add(x, x)
		expect("EdwardsPoint.Add/alias(x,x,x)", x, P.p.Double())
		x = fresh(P, 0)
		x.Sub(x, q)
		expect("EdwardsPoint.Sub/alias(x,x,q)", x, diff)
		x = fresh(Q, 0)
		x.Sub(fresh(P, 2), x)
		expect("EdwardsPoint.Sub/alias(x,p,x)", x, diff)
		x = fresh(P, 0)
		x.Sub(x, x)
		expect("EdwardsPoint.Sub/alias(x,x,x)", x, ref.Identity())
		x = fresh(P, 0)
		x.Neg(x)
		expect("EdwardsPoint.Neg/alias", x, P.p.Neg())
		x = fresh(P, 0)
		x.Set(x)
		expect("EdwardsPoint.Set/alias", x, P.p)

		// scalar multiplications with the receiver as the point
		aP := refmul.Mul(P.p, a)
		x = fresh(P, 0)
		x.Mul(x, scOf(a))
		expect("EdwardsPoint.Mul/alias", x, aP)
		aPbB := aP.Add(refmul.BaseMul(b))
		x = fresh(P, 0)
		x.DoubleScalarMulBasepointVartime(scOf(a), x, scOf(b))
		expect("EdwardsPoint.DoubleScalarMulBasepointVartime/alias", x, aPbB)
		aPbQ := aP.Add(refmul.Mul(Q.p, b))
		for _, vt := range []bool{false, true} {
			name := "EdwardsPoint.MultiscalarMul"
			if vt {
				name = "EdwardsPoint.MultiscalarMulVartime"
			}
			call := func(r *curve.EdwardsPoint, ss []*scalar.Scalar, pp []*curve.EdwardsPoint) {
				if vt {
					r.MultiscalarMulVartime(ss, pp)
				} else {
					r.MultiscalarMul(ss, pp)
				}
			}
			x = fresh(P, 0)
			call(x, []*scalar.Scalar{scOf(a), scOf(b)}, []*curve.EdwardsPoint{x, q})
			expect(name+"/alias(first)", x, aPbQ)
			x = fresh(P, 0)
			call(x, []*scalar.Scalar{scOf(b), scOf(a)}, []*curve.EdwardsPoint{q, x})
			expect(name+"/alias(last)", x, aPbQ)
			x = fresh(P, 0)
			call(x, []*scalar.Scalar{scOf(a), scOf(b)}, []*curve.EdwardsPoint{x, x})
			expect(name+"/alias(both)", x, refmul.Mul(P.p, new(big.Int).Add(a, b)))
		}
		// Sum with the receiver among the terms (defect fixed by 9aa67a3)
		x = fresh(P, 0)
		x.Sum([]*curve.EdwardsPoint{x, q})
		expect("EdwardsPoint.Sum/alias(first)", x, sum)
		x = fresh(P, 0)
		x.Sum([]*curve.EdwardsPoint{q, x})
		expect("EdwardsPoint.Sum/alias(last)", x, sum)
		// expanded: the receiver is the point the expanded operand was made from; SetExpanded into its own source
		x = fresh(P, 0)
		ex := curve.NewExpandedEdwardsPoint(x)
		x.ExpandedDoubleScalarMulBasepointVartime(scOf(a), ex, scOf(b))
		expect("EdwardsPoint.ExpandedDoubleScalarMulBasepointVartime/alias(source)", x, aPbB)
		if !edpts.Is(ex.Point(), P.p) {
			w.Fail("ExpandedEdwardsPoint/changed-with-source", fmt.Sprintf("%s: the expanded point changed when its source point was overwritten", id), cas)
		}
		x.SetExpanded(ex)
		expect("EdwardsPoint.SetExpanded/alias(source)", x, P.p)
		x = fresh(P, 0)
		x.ExpandedMultiscalarMulVartime([]*scalar.Scalar{scOf(b)}, []*curve.ExpandedEdwardsPoint{curve.NewExpandedEdwardsPoint(q)}, []*scalar.Scalar{scOf(a)}, []*curve.EdwardsPoint{x})
		expect("EdwardsPoint.ExpandedMultiscalarMulVartime/alias(dynamic)", x, aPbQ)
		// ConditionalSelect with the receiver as an operand
		for ch := 0; ch <= 1; ch++ {
			want := P.p
			if ch == 1 {
				want = Q.p
			}
			x = fresh(P, 0)
			x.ConditionalSelect(x, q, ch)
			expect(fmt.Sprintf("EdwardsPoint.ConditionalSelect/alias(x,x,q,%d)", ch), x, want)
			x = fresh(Q, 0)
			x.ConditionalSelect(fresh(P, 2), x, ch)
			expect(fmt.Sprintf("EdwardsPoint.ConditionalSelect/alias(x,p,x,%d)", ch), x, want)
		}
		// the delta-scaled triple product on prime-order points: identity <=> aA + bB = C, with A or C the receiver
		if P.tf && Q.tf {
			x = fresh(P, 0)
			x.TripleScalarMulBasepointVartime(scOf(a), x, scOf(b), edpts.FromRef(aPbB))
			if !x.IsIdentity() {
				w.Fail("EdwardsPoint.TripleScalarMulBasepointVartime/alias(A)", fmt.Sprintf("%s: [d a]A+[d b]B-[d]C is not the identity for C = aA+bB with A the receiver", id), cas)
			}
			x = edpts.FromRef(aPbB)
			x.TripleScalarMulBasepointVartime(scOf(a), fresh(P, 0), scOf(b), x)
			if !x.IsIdentity() {
				w.Fail("EdwardsPoint.TripleScalarMulBasepointVartime/alias(C)", fmt.Sprintf("%s: not the identity for C = aA+bB with C the receiver", id), cas)
			}
			x = fresh(P, 0)
			x.TripleScalarMulBasepointVartime(scOf(a), x, scOf(b), edpts.FromRef(aPbB.Add(ref.Base)))
			if x.IsIdentity() {
				w.Fail("EdwardsPoint.TripleScalarMulBasepointVartime/alias(A)", fmt.Sprintf("%s: identity although C != aA+bB", id), cas)
			}
		}
		if !edpts.SameCoords(q, &qSnap) {
			w.Fail("argument-modified", fmt.Sprintf("%s: an operation modified its non-receiver operand", id), cas)
		}
		// Montgomery / compressed: receiver's own storage as the input
		if ip == iq {
			var cp curve.CompressedEdwardsY
			cp.SetEdwardsPoint(fresh(P, 0))
			if r, err := cp.SetBytes(cp[:]); err != nil || r != &cp || !bytes.Equal(cp[:], P.p.Encode()) {
				w.Fail("CompressedEdwardsY.SetBytes/alias(own bytes)", fmt.Sprintf("%s: p.SetBytes(p[:]) err=%v value %x", id, err, cp[:]), cas)
			}
			var mp curve.MontgomeryPoint
			mp.SetEdwards(fresh(P, 0))
			mu := append([]byte{}, mp[:]...)
			if _, err := mp.SetBytes(mp[:]); err != nil || !bytes.Equal(mp[:], mu) {
				w.Fail("MontgomeryPoint.SetBytes/alias(own bytes)", fmt.Sprintf("%s: p.SetBytes(p[:]) err=%v", id, err), cas)
			}
			// returned slices must not alias the object
			x = fresh(P, 0)
			mb, _ := x.MarshalBinary()
			for k := range mb {
				mb[k] ^= 0xff
			}
			mb2, _ := x.MarshalBinary()
			cb, _ := cp.MarshalBinary()
			for k := range cb {
				cb[k] ^= 0xff
			}
			if !bytes.Equal(mb2, P.p.Encode()) || !bytes.Equal(cp[:], P.p.Encode()) {
				w.Fail("MarshalBinary/returned-slice-aliases-object", fmt.Sprintf("%s: writing to a MarshalBinary result changed the object", id), cas)
			}
		}
	})

	// ---------------------------------------------------------------- T3: re-set, copy by value, reuse of expanded points
	bad := []byte{2, 0, 0, 0, 0, 0, 0, 0, 0, 0, 0, 0, 0, 0, 0, 0, 0, 0, 0, 0, 0, 0, 0, 0, 0, 0, 0, 0, 0, 0, 0, 0}
	if _, ok, _ := ref.Decode(bad); ok {
		bad = bytes.Repeat([]byte{0xff}, 32)
	}
	alphed.Par(c, "reuse", np*np, func(w *mc.W, i int) {
		ip, iq := i/np, i%np
		P, Q := pts[ip], pts[iq]
		a, b := scalars[(ip+2*iq+1)%len(scalars)], scalars[(ip+iq+2)%len(scalars)]
		id := fmt.Sprintf("P=%s Q=%s a=%x b=%x", P.name, Q.name, a, b)
		cas := map[string]string{"P": P.name, "Q": Q.name}
		w.Eval("reuse", ip != iq)
		bB := refmul.BaseMul(b)
		wantP, wantQ := refmul.Mul(P.p, a).Add(bB), refmul.Mul(Q.p, a).Add(bB)
		use := func(step string, e *curve.ExpandedEdwardsPoint, holds ref.Point, want ref.Point) {
			var r curve.EdwardsPoint
			r.ExpandedDoubleScalarMulBasepointVartime(scOf(a), e, scOf(b))
			if !edpts.Is(&r, want) {
				w.Fail("ExpandedEdwardsPoint/reuse:"+step, fmt.Sprintf("%s, step %s: aA+bB through the expanded point is wrong", id, step), cas)
			}
			var m curve.EdwardsPoint
			m.ExpandedMultiscalarMulVartime([]*scalar.Scalar{scOf(a)}, []*curve.ExpandedEdwardsPoint{e}, []*scalar.Scalar{scOf(b)}, []*curve.EdwardsPoint{edpts.FromRef(ref.Base)})
			if !edpts.Is(&m, want) {
				w.Fail("ExpandedEdwardsPoint/reuse-multiscalar:"+step, fmt.Sprintf("%s, step %s: ExpandedMultiscalarMulVartime through the expanded point is wrong", id, step), cas)
			}
			if !edpts.Is(e.Point(), holds) {
				w.Fail("ExpandedEdwardsPoint/reuse-point:"+step, fmt.Sprintf("%s, step %s: Point() is wrong", id, step), cas)
			}
		}
		// history [P; Q; P] on ONE expanded object, then a value copy that is re-set
		e := curve.NewExpandedEdwardsPoint(mkRep(P.p, i, lam))
		use("P", e, P.p, wantP)
		e.SetEdwardsPoint(mkRep(Q.p, i+1, lam))
		use("P;Q", e, Q.p, wantQ)
		cp := *e
		cp.SetEdwardsPoint(mkRep(P.p, i+2, lam))
		use("P;Q;copy<-P (copy)", &cp, P.p, wantP)
		use("P;Q;copy<-P (original)", e, Q.p, wantQ)
		e.SetEdwardsPoint(mkRep(P.p, i, lam))
		use("P;Q;P", e, P.p, wantP)

		// decoders: valid -> valid, valid -> invalid -> valid into ONE receiver, value copies are independent
		var x curve.EdwardsPoint
		var cx curve.CompressedEdwardsY
		steps := [][]byte{P.p.Encode(), Q.p.Encode(), bad, P.p.Encode(), benc[:31], Q.p.Encode()}
		for k, in := range steps {
			pt, ok, _ := ref.Decode(in)
			keep := x // value copy taken before the step
			keepEnc, _ := keep.MarshalBinary()
			e1 := x.UnmarshalBinary(in)
			e2 := cx.UnmarshalBinary(in)
			var fresh curve.EdwardsPoint
			e3 := fresh.UnmarshalBinary(in)
			if (e1 == nil) != ok || (e2 == nil) != ok || (e3 == nil) != ok {
				w.Fail("UnmarshalBinary/reuse-error", fmt.Sprintf("%s: step %d (%x): errors %v / %v / fresh %v, decodable=%v", id, k, in, e1, e2, e3, ok), cas)
				continue
			}
			if ok && (!edpts.Is(&x, pt) || x.Equal(&fresh) != 1 || !bytes.Equal(cx[:], in)) {
				w.Fail("UnmarshalBinary/reuse-value", fmt.Sprintf("%s: step %d (%x): the reused receiver differs from a fresh one", id, k, in), cas)
			}
			if !ok && (!edpts.IsExactIdentity(&x) || !bytes.Equal(cx[:], identityEnc)) {
				w.Fail("EdwardsPoint.UnmarshalBinary/receiver", fmt.Sprintf("%s: step %d (%x): the reused receiver is not the identity after the error", id, k, in), cas)
			}
			if k > 0 {
				after, _ := keep.MarshalBinary()
				if !bytes.Equal(after, keepEnc) {
					w.Fail("copy-by-value/not-independent", fmt.Sprintf("%s: step %d: a value copy taken before the call changed", id, k), cas)
				}
			}
		}
	})

	// ---------------------------------------------------------------- T5: special points reached many ways
	specialPoints(c, tor, lam, gB)

	// ---------------------------------------------------------------- T11: memory the library hands out
	handedOut(c, tor, lam)

	// ---------------------------------------------------------------- T8: Equal on strings that differ in exactly one byte
	bases := [][]byte{benc, make([]byte, 32), bytes.Repeat([]byte{0xff}, 32), mc.Bytes(c.Seed, "c10-onebyte", 0, 32)}
	alphed.Par(c, "equal-one-byte", len(bases)*32*3, func(w *mc.W, i int) {
		base, pos, d := bases[i/96], (i/3)%32, []byte{0x01, 0x80, 0xff}[i%3]
		other := append([]byte{}, base...)
		other[pos] ^= d
		var a, b curve.CompressedEdwardsY
		copy(a[:], base)
		copy(b[:], other)
		w.Eval("equal-one-byte", true)
		if a.Equal(&b) != 0 || b.Equal(&a) != 0 || a.Equal(&a) != 1 {
			w.Fail("CompressedEdwardsY.Equal/one-byte", fmt.Sprintf("Equal(%x, %x) (byte %d differs) is not 0", base, other, pos), nil)
		}
		var ma, mb curve.MontgomeryPoint
		copy(ma[:], base)
		copy(mb[:], other)
		ta, tb := append([]byte{}, base...), append([]byte{}, other...)
		ta[31] &= 0x7f
		tb[31] &= 0x7f
		want := 0
		if ref.FMod(ref.FromLE(ta)).Cmp(ref.FMod(ref.FromLE(tb))) == 0 {
			want = 1
		}
		if ma.Equal(&mb) != want || mb.Equal(&ma) != want {
			w.Fail("MontgomeryPoint.Equal/one-byte", fmt.Sprintf("Equal(%x, %x) (byte %d differs) is not %d", base, other, pos, want), nil)
		}
	})
}

// specialPoints: the identity, the 2-torsion point and every torsion point
// produced BY THE LIBRARY in many ways and scalings; all predicates, encoders
// and Equal (all ordered pairs of ways) against the reference.
func specialPoints(c *mc.Ctx, tor [8]ref.Point, lam []*big.Int, gB ref.Point) {
	type way struct {
		name string
		want ref.Point
		mk   func() *curve.EdwardsPoint
	}
	dec := func(b []byte) func() *curve.EdwardsPoint {
		return func() *curve.EdwardsPoint {
			var p curve.EdwardsPoint
			if err := p.UnmarshalBinary(b); err != nil {
				panic(fmt.Sprintf("decode(%x): %v", b, err))
			}
			return &p
		}
	}
	B := func() *curve.EdwardsPoint { return edpts.FromRef(ref.Base) }
	T := func(i int) *curve.EdwardsPoint { return edpts.FromRef(tor[i]) }
	zero, one := scOf(big.NewInt(0)), scOf(big.NewInt(1))
	O, T4 := ref.Identity(), tor[4]
	x0s1 := append([]byte{}, identityEnc...)
	x0s1[31] |= 0x80
	t4s1 := tor[4].Encode()
	t4s1[31] |= 0x80
	ways := []way{
		{"NewEdwardsPoint", O, func() *curve.EdwardsPoint { return curve.NewEdwardsPoint() }},
		{"Identity() on a used receiver", O, func() *curve.EdwardsPoint { p := B(); p.Identity(); return p }},
		{"B-B", O, func() *curve.EdwardsPoint { var p curve.EdwardsPoint; p.Sub(B(), B()); return &p }},
		{"B+Neg(B)", O, func() *curve.EdwardsPoint { var n, p curve.EdwardsPoint; n.Neg(B()); p.Add(B(), &n); return &p }},
		{"[L]B", O, func() *curve.EdwardsPoint { var p curve.EdwardsPoint; p.Mul(B(), scalar.BASEPOINT_ORDER); return &p }},
		{"[0]B", O, func() *curve.EdwardsPoint { var p curve.EdwardsPoint; p.Mul(B(), zero); return &p }},
		{"MulBasepoint(0)", O, func() *curve.EdwardsPoint {
			var p curve.EdwardsPoint
			p.MulBasepoint(curve.ED25519_BASEPOINT_TABLE, zero)
			return &p
		}},
		{"MulBasepoint(L)", O, func() *curve.EdwardsPoint {
			var p curve.EdwardsPoint
			p.MulBasepoint(curve.ED25519_BASEPOINT_TABLE, scalar.BASEPOINT_ORDER)
			return &p
		}},
		{"[8]T1", O, func() *curve.EdwardsPoint { var p curve.EdwardsPoint; p.MulByCofactor(T(1)); return &p }},
		{"T4+T4", O, func() *curve.EdwardsPoint { var p curve.EdwardsPoint; p.Add(T(4), T(4)); return &p }},
		{"T3+T5", O, func() *curve.EdwardsPoint { var p curve.EdwardsPoint; p.Add(T(3), T(5)); return &p }},
		{"Sum(nil)", O, func() *curve.EdwardsPoint { p := B(); p.Sum(nil); return p }},
		{"MultiscalarMul()", O, func() *curve.EdwardsPoint { p := B(); p.MultiscalarMul(nil, nil); return p }},
		{"MultiscalarMulVartime()", O, func() *curve.EdwardsPoint { p := B(); p.MultiscalarMulVartime(nil, nil); return p }},
		{"0*B+0*B (double scalar)", O, func() *curve.EdwardsPoint {
			var p curve.EdwardsPoint
			p.DoubleScalarMulBasepointVartime(zero, B(), zero)
			return &p
		}},
		{"1*(-B)+1*B (double scalar)", O, func() *curve.EdwardsPoint {
			var p curve.EdwardsPoint
			p.DoubleScalarMulBasepointVartime(one, edpts.FromRef(ref.Base.Neg()), one)
			return &p
		}},
		{"Neg(O)", O, func() *curve.EdwardsPoint { var p curve.EdwardsPoint; p.Neg(curve.NewEdwardsPoint()); return &p }},
		{"decode 0100..00", O, dec(identityEnc)},
		{"decode y=p+1", O, dec(ref.LE32(new(big.Int).Add(ref.P, big.NewInt(1))))},
		{"decode 0100..80", O, dec(x0s1)},
		{"(B-B) rescaled", O, func() *curve.EdwardsPoint {
			var p curve.EdwardsPoint
			p.Sub(B(), B())
			return edpts.Rescale(&p, lam[3])
		}},
		{"SetExpanded(expanded(B-B))", O, func() *curve.EdwardsPoint {
			var p, r curve.EdwardsPoint
			p.Sub(B(), B())
			r.SetExpanded(curve.NewExpandedEdwardsPoint(&p))
			return &r
		}},
		{"EIGHT_TORSION[0]", O, func() *curve.EdwardsPoint { return curve.EIGHT_TORSION[0] }},
		// the 2-torsion point (0,-1)
		{"decode ecff..7f", T4, dec(tor[4].Encode())},
		{"decode ecff..ff (x=0, sign=1)", T4, dec(t4s1)},
		{"T2+T2", T4, func() *curve.EdwardsPoint { var p curve.EdwardsPoint; p.Add(T(2), T(2)); return &p }},
		{"T1+T3", T4, func() *curve.EdwardsPoint { var p curve.EdwardsPoint; p.Add(T(1), T(3)); return &p }},
		{"T6-T2", T4, func() *curve.EdwardsPoint { var p curve.EdwardsPoint; p.Sub(T(6), T(2)); return &p }},
		{"Neg(T4)", T4, func() *curve.EdwardsPoint { var p curve.EdwardsPoint; p.Neg(T(4)); return &p }},
		{"[L](B+T4)", T4, func() *curve.EdwardsPoint {
			var p curve.EdwardsPoint
			p.Mul(edpts.FromRef(ref.Base.Add(tor[4])), scalar.BASEPOINT_ORDER)
			return &p
		}},
		{"(B+T4)-B", T4, func() *curve.EdwardsPoint {
			var p curve.EdwardsPoint
			p.Sub(edpts.FromRef(ref.Base.Add(tor[4])), B())
			return &p
		}},
		{"EIGHT_TORSION[4]", T4, func() *curve.EdwardsPoint { return curve.EIGHT_TORSION[4] }},
	}
	for _, l := range lam[1:] {
		l := l
		ways = append(ways, way{fmt.Sprintf("O scaled by %x", l), O, func() *curve.EdwardsPoint { return edpts.FromRefScaled(O, l) }})
		ways = append(ways, way{fmt.Sprintf("T4 scaled by %x", l), T4, func() *curve.EdwardsPoint { return edpts.FromRefScaled(T4, l) }})
		ways = append(ways, way{fmt.Sprintf("T4 rescaled by %x", l), T4, func() *curve.EdwardsPoint { return edpts.Rescale(T(4), l) }})
	}
	// every torsion coset through the library's own multiplication by L (L = 5 mod 8): [L]([g]B + T_i) = T_{5i mod 8},
	// and the library's EIGHT_TORSION table
	for i := 0; i < 8; i++ {
		i := i
		ways = append(ways, way{fmt.Sprintf("[L]([g]B+T%d)", i), tor[(5*i)%8], func() *curve.EdwardsPoint {
			var p curve.EdwardsPoint
			p.Mul(edpts.FromRefScaled(gB.Add(tor[i]), lam[4]), scalar.BASEPOINT_ORDER)
			return &p
		}})
		ways = append(ways, way{fmt.Sprintf("[g]B+T%d-[g]B", i), tor[i], func() *curve.EdwardsPoint {
			var p curve.EdwardsPoint
			p.Sub(edpts.FromRef(gB.Add(tor[i])), edpts.FromRefScaled(gB, lam[3]))
			return &p
		}})
	}
	nw := len(ways)
	c.Rep.Extra["special_point_ways"] = nw
	alphed.Par(c, "special-points", nw*nw, func(w *mc.W, i int) {
		a, b := ways[i/nw], ways[i%nw]
		pa, pb := a.mk(), b.mk()
		cls := "special-points/torsion"
		switch {
		case a.want.IsIdentity():
			cls = "special-points/identity"
		case a.want.Equal(tor[4]):
			cls = "special-points/2-torsion"
		}
		w.Eval(cls, true)
		cas := map[string]string{"a": a.name, "b": b.name}
		want := 0
		if a.want.Equal(b.want) {
			want = 1
		}
		if got := pa.Equal(pb); got != want {
			w.Fail("EdwardsPoint.Equal/special", fmt.Sprintf("Equal(%s, %s)=%d want %d", a.name, b.name, got, want), cas)
		}
		if i/nw != i%nw {
			return
		}
		if !edpts.Is(pa, a.want) {
			mb, _ := pa.MarshalBinary()
			w.Fail("special-point/value", fmt.Sprintf("%s: the library produced %x, want %x", a.name, mb, a.want.Encode()), cas)
			return
		}
		if got, wantB := pa.IsIdentity(), a.want.IsIdentity(); got != wantB {
			w.Fail("EdwardsPoint.IsIdentity/special", fmt.Sprintf("%s: IsIdentity=%v want %v", a.name, got, wantB), cas)
		}
		if !pa.IsSmallOrder() {
			w.Fail("EdwardsPoint.IsSmallOrder/special", fmt.Sprintf("%s: IsSmallOrder=false for a torsion point", a.name), cas)
		}
		if got, wantB := pa.IsTorsionFree(), a.want.IsIdentity(); got != wantB {
			w.Fail("EdwardsPoint.IsTorsionFree/special", fmt.Sprintf("%s: IsTorsionFree=%v want %v (only the identity is both small-order and torsion-free)", a.name, got, wantB), cas)
		}
		if mb, err := pa.MarshalBinary(); err != nil || !bytes.Equal(mb, a.want.Encode()) {
			w.Fail("EdwardsPoint.MarshalBinary/special", fmt.Sprintf("%s: encodes to %x want %x", a.name, mb, a.want.Encode()), cas)
		}
		var m8 curve.EdwardsPoint
		if m8.MulByCofactor(pa); !m8.IsIdentity() || !edpts.Is(&m8, ref.Identity()) {
			w.Fail("EdwardsPoint.MulByCofactor/special", fmt.Sprintf("%s: [8]P is not the identity", a.name), cas)
		}
		var mp curve.MontgomeryPoint
		mp.SetEdwards(pa)
		if !bytes.Equal(mp[:], ref.LE32(a.want.ToMontgomeryU())) {
			w.Fail("MontgomeryPoint.SetEdwards/special", fmt.Sprintf("%s: SetEdwards=%x want %x", a.name, mp[:], ref.LE32(a.want.ToMontgomeryU())), cas)
		}
	})
	c.Require("special-points/identity", int64(20*nw))
	c.Require("special-points/2-torsion", int64(10*nw))
	c.Require("special-points/torsion", int64(10*nw))
}
