package main

import (
	"fmt"

	"github.com/oasisprotocol/curve25519-voi/curve"
	"github.com/oasisprotocol/curve25519-voi/curve/scalar"
	"github.com/oasisprotocol/curve25519-voi/internal/verif/mc"
	"github.com/oasisprotocol/curve25519-voi/internal/verif/ptalph"
	"github.com/oasisprotocol/curve25519-voi/internal/verif/ref"
	"github.com/oasisprotocol/curve25519-voi/internal/verif/ref/refgrp"
)

// spareS / spareP / spareX return a copy of in with spare capacity whose hidden tail holds a sentinel, and a function
// reporting whether the slice elements and the tail (caller memory beyond len) are still intact.  (go.mod pins go1.17: no generics.)
func spareS(in []*scalar.Scalar, sentinel *scalar.Scalar) ([]*scalar.Scalar, func() bool) {
	buf := make([]*scalar.Scalar, len(in)+3)
	copy(buf, in)
	for i := len(in); i < len(buf); i++ {
		buf[i] = sentinel
	}
	return buf[:len(in)], func() bool {
		for i := len(in); i < len(buf); i++ {
			if buf[i] != sentinel {
				return false
			}
		}
		for i := range in {
			if buf[i] != in[i] {
				return false
			}
		}
		return true
	}
}

func spareP(in []*curve.EdwardsPoint, sentinel *curve.EdwardsPoint) ([]*curve.EdwardsPoint, func() bool) {
	buf := make([]*curve.EdwardsPoint, len(in)+3)
	copy(buf, in)
	for i := len(in); i < len(buf); i++ {
		buf[i] = sentinel
	}
	return buf[:len(in)], func() bool {
		for i := len(in); i < len(buf); i++ {
			if buf[i] != sentinel {
				return false
			}
		}
		for i := range in {
			if buf[i] != in[i] {
				return false
			}
		}
		return true
	}
}

func spareX(in []*curve.ExpandedEdwardsPoint, sentinel *curve.ExpandedEdwardsPoint) ([]*curve.ExpandedEdwardsPoint, func() bool) {
	buf := make([]*curve.ExpandedEdwardsPoint, len(in)+3)
	copy(buf, in)
	for i := len(in); i < len(buf); i++ {
		buf[i] = sentinel
	}
	return buf[:len(in)], func() bool {
		for i := len(in); i < len(buf); i++ {
			if buf[i] != sentinel {
				return false
			}
		}
		for i := range in {
			if buf[i] != in[i] {
				return false
			}
		}
		return true
	}
}

var (
	sentScalar = scalar.New()
	sentPoint  = curve.NewEdwardsPoint()
	sentExp    = new(curve.ExpandedEdwardsPoint)
)

func objs(scs []*scalar.Scalar, pts []*curve.EdwardsPoint, more ...interface{}) []interface{} {
	var o []interface{}
	for _, x := range scs {
		o = append(o, x)
	}
	for _, x := range pts {
		o = append(o, x)
	}
	return append(o, more...)
}

// msmCase runs every multiscalar routine on n terms chosen from the alphabets.
func (s *space) msmCase(w *mc.W, n int, scIdx func(t int) int, ptIdx func(t int) int, ristretto bool) {
	var scs []*scalar.Scalar
	var pts []*lpt
	var terms []ref.Point
	desc := ""
	nt := n == 0
	for t := 0; t < n; t++ {
		si, p := scIdx(t), s.pts[ptIdx(t)]
		scs = append(scs, s.scs[si])
		pts = append(pts, p)
		terms = append(terms, s.refMul(p.e, si))
		desc += fmt.Sprintf("[0x%x](%s/%s) ", s.full[si], s.elems[p.e].Name, p.repName())
		nt = nt || s.full[si].Cmp(ref.L) >= 0 || s.tors[p.e] || s.elems[p.e].IsIdentity()
	}
	s.msmRun(w, "msm", n, scs, pts, refgrp.Sum(terms...), desc, nt, ristretto)
}

// msmRun: every multiscalar routine, every static/dynamic split, the receiver among the points of every
// routine (for the expanded routine: among the dynamic points), inputs unchanged after every call.
// The slices may contain the same *Scalar / the same point object more than once.
func (s *space) msmRun(w *mc.W, cls string, n int, scs []*scalar.Scalar, pts []*lpt, want ref.Point, desc string, nt bool, ristretto bool) {
	cas := map[string]string{"terms": desc}
	d := func(op string) func() string { return func() string { return op + ": " + desc } }
	lp := make([]*curve.EdwardsPoint, n)
	for t, p := range pts {
		lp[t] = p.P
	}
	ev := func(r string) { w.Eval(fmt.Sprintf("%s/%s/n=%d", cls, r, n), nt) }
	// aliased(k): the point list with every occurrence of the object at position k replaced by a private copy r
	aliased := func(k int) (*curve.EdwardsPoint, []*curve.EdwardsPoint) {
		r := cp(lp[k])
		l2 := make([]*curve.EdwardsPoint, n)
		for t := range lp {
			l2[t] = lp[t]
			if lp[t] == lp[k] {
				l2[t] = r
			}
		}
		return r, l2
	}
	if !ristretto {
		in := objs(scs, lp)
		unchanged(w, "EdwardsPoint.MultiscalarMul", d("MultiscalarMul"), cas, in, func() {
			checkPt(w, "EdwardsPoint.MultiscalarMul", func() *curve.EdwardsPoint { return nr().MultiscalarMul(scs, lp) }, want, d("MultiscalarMul"), cas)
		})
		ev("MultiscalarMul")
		sc2, okS := spareS(scs, sentScalar)
		lp2, okP := spareP(lp, sentPoint)
		unchanged(w, "EdwardsPoint.MultiscalarMulVartime", d("MultiscalarMulVartime"), cas, in, func() {
			checkPt(w, "EdwardsPoint.MultiscalarMulVartime", func() *curve.EdwardsPoint { return nr().MultiscalarMulVartime(sc2, lp2) }, want, d("MultiscalarMulVartime"), cas)
			checkPt(w, "EdwardsPoint.MultiscalarMul", func() *curve.EdwardsPoint { return nr().MultiscalarMul(sc2, lp2) }, want, d("MultiscalarMul (slices with spare capacity)"), cas)
		})
		if !(okS() && okP()) {
			w.Fail("EdwardsPoint.MultiscalarMul/caller-slice-modified", d("MultiscalarMul / MultiscalarMulVartime")()+": an argument slice (its elements or the spare capacity behind it) was written to", cas)
		}
		ev("MultiscalarMulVartime")
		if n > 0 { // receiver is one of the points: first and last position for both routines
			for _, k := range dedupInts([]int{0, n - 1}) {
				r, l2 := aliased(k)
				checkPt(w, "EdwardsPoint.MultiscalarMulVartime/alias", func() *curve.EdwardsPoint { return r.MultiscalarMulVartime(scs, l2) }, want, d(fmt.Sprintf("p.MultiscalarMulVartime with p = points[%d]", k)), cas)
				r, l2 = aliased(k)
				checkPt(w, "EdwardsPoint.MultiscalarMul/alias", func() *curve.EdwardsPoint { return r.MultiscalarMul(scs, l2) }, want, d(fmt.Sprintf("p.MultiscalarMul with p = points[%d]", k)), cas)
			}
			ev("aliased-receiver")
		}
		for _, sp := range splits(n) {
			var ss, ds []*scalar.Scalar
			var spn []*curve.ExpandedEdwardsPoint
			var dpn []*curve.EdwardsPoint
			lastDyn := -1
			try(w, "NewExpandedEdwardsPoint", cas, func() {
				for t := 0; t < n; t++ {
					if sp[t] {
						ss = append(ss, scs[t])
						spn = append(spn, pts[t].expanded())
					} else {
						ds = append(ds, scs[t])
						dpn = append(dpn, lp[t])
						lastDyn = len(dpn) - 1
					}
				}
			})
			what := fmt.Sprintf("ExpandedMultiscalarMulVartime(static=%d, dynamic=%d)", len(ss), len(ds))
			in := objs(append(append([]*scalar.Scalar{}, ss...), ds...), dpn)
			for _, x := range spn {
				in = append(in, x)
			}
			// the four argument slices have spare capacity: the caller's memory behind them must survive
			ss2, okSS := spareS(ss, sentScalar)
			sp2, okSP := spareX(spn, sentExp)
			ds2, okDS := spareS(ds, sentScalar)
			dp2, okDP := spareP(dpn, sentPoint)
			unchanged(w, "EdwardsPoint.ExpandedMultiscalarMulVartime", d(what), cas, in, func() {
				checkPt(w, "EdwardsPoint.ExpandedMultiscalarMulVartime", func() *curve.EdwardsPoint { return nr().ExpandedMultiscalarMulVartime(ss2, sp2, ds2, dp2) }, want, d(what), cas)
			})
			if !(okSS() && okSP() && okDS() && okDP()) {
				w.Fail("EdwardsPoint.ExpandedMultiscalarMulVartime/caller-slice-modified", d(what)()+": an argument slice (its elements or the spare capacity behind it) was written to", cas)
			}
			ev("ExpandedMultiscalarMulVartime")
			if lastDyn >= 0 { // receiver among the dynamic points
				r := cp(dpn[lastDyn])
				d2 := make([]*curve.EdwardsPoint, len(dpn))
				for t := range dpn {
					d2[t] = dpn[t]
					if dpn[t] == dpn[lastDyn] {
						d2[t] = r
					}
				}
				checkPt(w, "EdwardsPoint.ExpandedMultiscalarMulVartime/alias", func() *curve.EdwardsPoint { return r.ExpandedMultiscalarMulVartime(ss, spn, ds, d2) }, want, d("p."+what+" with p among the dynamic points"), cas)
			}
		}
		return
	}
	rpn := make([]*curve.RistrettoPoint, n)
	for t := range lp {
		rpn[t] = rp(lp[t])
		for u := 0; u < t; u++ { // keep shared objects shared
			if lp[u] == lp[t] {
				rpn[t] = rpn[u]
			}
		}
	}
	in := []interface{}{}
	for _, x := range scs {
		in = append(in, x)
	}
	for _, x := range rpn {
		in = append(in, x)
	}
	unchanged(w, "RistrettoPoint.MultiscalarMul", d("ristretto MultiscalarMul"), cas, in, func() {
		checkR(w, "RistrettoPoint.MultiscalarMul", func() *curve.RistrettoPoint { return nrr().MultiscalarMul(scs, rpn) }, want, d("ristretto MultiscalarMul"), cas)
	})
	ev("ristretto.MultiscalarMul")
	unchanged(w, "RistrettoPoint.MultiscalarMulVartime", d("ristretto MultiscalarMulVartime"), cas, in, func() {
		checkR(w, "RistrettoPoint.MultiscalarMulVartime", func() *curve.RistrettoPoint { return nrr().MultiscalarMulVartime(scs, rpn) }, want, d("ristretto MultiscalarMulVartime"), cas)
	})
	ev("ristretto.MultiscalarMulVartime")
	raliased := func(k int) (*curve.RistrettoPoint, []*curve.RistrettoPoint) {
		r := rp(lp[k])
		l2 := make([]*curve.RistrettoPoint, n)
		for t := range rpn {
			l2[t] = rpn[t]
			if rpn[t] == rpn[k] {
				l2[t] = r
			}
		}
		return r, l2
	}
	if n > 0 {
		r, l2 := raliased(n - 1)
		checkR(w, "RistrettoPoint.MultiscalarMul/alias", func() *curve.RistrettoPoint { return r.MultiscalarMul(scs, l2) }, want, d("ristretto p.MultiscalarMul(.., p)"), cas)
		r, l2 = raliased(0)
		checkR(w, "RistrettoPoint.MultiscalarMulVartime/alias", func() *curve.RistrettoPoint { return r.MultiscalarMulVartime(scs, l2) }, want, d("ristretto p.MultiscalarMulVartime(p, ..)"), cas)
	}
	for _, sp := range splits(n) {
		var ss, ds []*scalar.Scalar
		var spn []*curve.ExpandedRistrettoPoint
		var dpn []*curve.RistrettoPoint
		try(w, "NewExpandedRistrettoPoint", cas, func() {
			for t := 0; t < n; t++ {
				if sp[t] {
					ss = append(ss, scs[t])
					spn = append(spn, curve.NewExpandedRistrettoPoint(rpn[t]))
				} else {
					ds = append(ds, scs[t])
					dpn = append(dpn, rpn[t])
				}
			}
		})
		what := fmt.Sprintf("ristretto ExpandedMultiscalarMulVartime(static=%d, dynamic=%d)", len(ss), len(ds))
		in := []interface{}{}
		for _, x := range spn {
			in = append(in, x)
		}
		for _, x := range dpn {
			in = append(in, x)
		}
		unchanged(w, "RistrettoPoint.ExpandedMultiscalarMulVartime", d(what), cas, in, func() {
			checkR(w, "RistrettoPoint.ExpandedMultiscalarMulVartime", func() *curve.RistrettoPoint { return nrr().ExpandedMultiscalarMulVartime(ss, spn, ds, dpn) }, want, d(what), cas)
		})
		ev("ristretto.ExpandedMultiscalarMulVartime")
		if len(dpn) > 0 {
			k := len(dpn) - 1
			r := curve.NewRistrettoPoint().Set(dpn[k])
			d2 := make([]*curve.RistrettoPoint, len(dpn))
			for t := range dpn {
				d2[t] = dpn[t]
				if dpn[t] == dpn[k] {
					d2[t] = r
				}
			}
			checkR(w, "RistrettoPoint.ExpandedMultiscalarMulVartime/alias", func() *curve.RistrettoPoint { return r.ExpandedMultiscalarMulVartime(ss, spn, ds, d2) }, want, d("p."+what+" with p among the dynamic points"), cas)
		}
	}
}

// msmSpecial enumerates the degenerate shapes of every multiscalar routine for n in {1,2,3,8}: all scalars
// zero (one shared *Scalar / distinct objects), all points the identity (distinct representations), both,
// one shared *Scalar for all terms, one shared point object for all terms, both shared, and the first two
// terms sharing scalar and point objects while the rest differ.
func (s *space) msmSpecial(c *mc.Ctx, evenPts []int) {
	var idReps []*lpt
	for _, p := range s.pts {
		if s.elems[p.e].IsIdentity() {
			idReps = append(idReps, p)
		}
	}
	zeroIdx := s.scalarIndex(bigZero)
	patterns := []string{"zero-scalars(shared object)", "zero-scalars(distinct objects)", "identity-points", "zero-scalars+identity-points",
		"shared-scalar", "shared-point", "shared-scalar+shared-point", "first-two-terms-share-objects"}
	ns := []int{1, 2, 3, 8}
	nj, nk := c.Pick(4, 12), c.Pick(6, 30)
	prod := mc.Product{Radix: []int{2, len(ns), len(patterns), nj, nk}}
	c.Par("msm-special", prod.Size(), func(w *mc.W, i int) {
		var dg [5]int
		prod.Decode(i, dg[:])
		rist, n, pat, j, k := dg[0] == 1, ns[dg[1]], patterns[dg[2]], dg[3], dg[4]
		ptAt := func(t int) *lpt {
			if rist {
				return s.pts[evenPts[(k*7+13*t)%len(evenPts)]]
			}
			return s.pts[(k*7+13*t)%len(s.pts)]
		}
		scAt := func(t int) int { return s.core[(j*13+5*t)%len(s.core)] }
		var scs []*scalar.Scalar
		var pts []*lpt
		var terms []ref.Point
		desc := pat + ": "
		add := func(si int, sc *scalar.Scalar, p *lpt) {
			scs, pts = append(scs, sc), append(pts, p)
			terms = append(terms, s.refMul(p.e, si))
			desc += fmt.Sprintf("[0x%x](%s/%s) ", s.full[si], s.elems[p.e].Name, p.repName())
		}
		for t := 0; t < n; t++ {
			si, p := scAt(t), ptAt(t)
			sc := s.scs[si]
			switch pat {
			case "zero-scalars(shared object)":
				si, sc = zeroIdx, s.scs[zeroIdx]
			case "zero-scalars(distinct objects)":
				si, sc = zeroIdx, ptalph.Sc(bigZero)
			case "identity-points":
				p = idReps[(k+t)%len(idReps)]
			case "zero-scalars+identity-points":
				si, sc, p = zeroIdx, ptalph.Sc(bigZero), idReps[(k+t)%len(idReps)]
			case "shared-scalar":
				si, sc = scAt(0), s.scs[scAt(0)]
			case "shared-point":
				p = ptAt(0)
			case "shared-scalar+shared-point":
				si, sc, p = scAt(0), s.scs[scAt(0)], ptAt(0)
			case "first-two-terms-share-objects":
				if t == 1 {
					si, sc, p = scAt(0), s.scs[scAt(0)], ptAt(0)
				}
			}
			add(si, sc, p)
		}
		s.msmRun(w, "msm-special/"+pat, n, scs, pts, refgrp.Sum(terms...), desc, true, rist)
	})
}
