// C03: the group law and every scalar-multiplication routine give the true
// group result (canonical encoding == independent affine/projective math/big
// computation), for torsion-laden points, every projective representation and
// reduced as well as unreduced 255-bit scalars, at every algorithm threshold.
package main

import (
	"bytes"
	"flag"
	"fmt"
	"math/big"
	"runtime"
	"sync"
	"sync/atomic"
	"time"

	"github.com/oasisprotocol/curve25519-voi/curve"
	"github.com/oasisprotocol/curve25519-voi/curve/scalar"
	"github.com/oasisprotocol/curve25519-voi/internal/verif/alph"
	"github.com/oasisprotocol/curve25519-voi/internal/verif/mc"
	"github.com/oasisprotocol/curve25519-voi/internal/verif/ptalph"
	"github.com/oasisprotocol/curve25519-voi/internal/verif/ref"
	"github.com/oasisprotocol/curve25519-voi/internal/verif/ref/refgrp"
)

// -sum-alias demands p.Sum([]{p, q}) == p_old + q (receiver among the terms).  The pinned tree did NOT
// satisfy this (EdwardsPoint.Sum / RistrettoPoint.Sum reset the receiver before reading the terms); it was
// repaired by the "fix:" commit 9aa67a3 in /repo (known_findings.json), so the demand is on by default and a
// regression is reported under the key EdwardsPoint.Sum/receiver-in-values.
var sumAlias = flag.Bool("sum-alias", true, "also require Sum to tolerate the receiver among its terms")

func main() { mc.Main("C03", run) }

// lpt is one member of the point alphabet on the library side.
type lpt struct {
	label  string // non-empty: the exported package-level OBJECT itself (pointer identity), not a representation built by the harness
	e, rep int
	P      *curve.EdwardsPoint
	xonce  sync.Once
	x      *curve.ExpandedEdwardsPoint
	tonce  sync.Once
	tbl    *curve.EdwardsBasepointTable
	ronce  sync.Once
	rx     *curve.ExpandedRistrettoPoint
}

func (p *lpt) repName() string {
	if p.label != "" {
		return p.label
	}
	return ptalph.RepName[p.rep]
}

func (p *lpt) expanded() *curve.ExpandedEdwardsPoint {
	p.xonce.Do(func() { p.x = curve.NewExpandedEdwardsPoint(p.P) })
	return p.x
}

func (p *lpt) rexpanded() *curve.ExpandedRistrettoPoint {
	p.ronce.Do(func() { p.rx = curve.NewExpandedRistrettoPoint(curve.VerifRistrettoFromEdwards(p.P)) })
	return p.rx
}

func (p *lpt) table() *curve.EdwardsBasepointTable {
	p.tonce.Do(func() { p.tbl = curve.NewEdwardsBasepointTable(p.P) })
	return p.tbl
}

type space struct {
	c        *mc.Ctx
	elems    []*ptalph.Elem
	tors     []bool // reference: element outside the prime-order subgroup
	pts      []*lpt // elems x reps, element-major
	full     []*big.Int
	scs      []*scalar.Scalar // library scalars for full
	core     []int            // indices into full
	isCore   []bool
	mulc     [][]*ref.Point // [elem][scalar index] reference multiples (nil = not precomputed)
	baseIdx  int            // index of B in elems
	exported int            // s.pts[exported:] are the exported package-level objects themselves
}

func (s *space) refMul(e, si int) ref.Point {
	if c := s.mulc[e][si]; c != nil {
		return *c
	}
	return s.elems[e].Mul(s.full[si])
}

// precompute fills the reference cache in parallel (pure function of the alphabets).
func (s *space) precompute() {
	ne, ns := len(s.elems), len(s.full)
	var next int64
	var wg sync.WaitGroup
	for k := 0; k < runtime.GOMAXPROCS(0); k++ {
		wg.Add(1)
		go func() {
			defer wg.Done()
			for {
				i := int(atomic.AddInt64(&next, 1) - 1)
				if i >= ne*ns {
					return
				}
				e, si := i/ns, i%ns
				p := s.elems[e].Mul(s.full[si])
				s.mulc[e][si] = &p
			}
		}()
	}
	wg.Wait()
}

func hx(b []byte) string { return fmt.Sprintf("%x", b) }

var bigZero = big.NewInt(0)

var two255m1 = new(big.Int).Sub(new(big.Int).Lsh(big.NewInt(1), 255), big.NewInt(1))

// try runs a piece of library code; a panic is a violation of the entry point
// (and must not stop the reference-side accounting of the case).
func try(w *mc.W, key string, cas interface{}, f func()) (ok bool) {
	defer func() {
		if r := recover(); r != nil {
			buf := make([]byte, 2048)
			n := runtime.Stack(buf, false)
			w.Fail(key+"/panic", fmt.Sprintf("unexpected panic: %v\n%s", r, buf[:n]), cas)
			ok = false
		}
	}()
	f()
	return true
}

// checkPt compares a library result with the reference point: canonical
// encoding, Equal against the decoded expectation, and the extended-coordinate
// invariant X*Y = Z*T (a result violating it would encode correctly and then
// poison the next addition).
func checkPt(w *mc.W, key string, gotf func() *curve.EdwardsPoint, want ref.Point, desc func() string, cas interface{}) {
	try(w, key, cas, func() {
		got := gotf()
		wenc := want.Encode()
		genc := ptalph.Enc(got)
		if !bytes.Equal(genc, wenc) {
			w.Fail(key, fmt.Sprintf("%s: got %x want %x", desc(), genc, wenc), cas)
			return
		}
		if got.Equal(ptalph.Decode(wenc)) != 1 {
			w.Fail(key+"/Equal", fmt.Sprintf("%s: Equal(result, expected) = 0 although encodings agree", desc()), cas)
		}
		x, y, z, t := curve.VerifCoords(got)
		if ref.FMul(ref.FromLE(x[:]), ref.FromLE(y[:])).Cmp(ref.FMul(ref.FromLE(z[:]), ref.FromLE(t[:]))) != 0 {
			w.Fail(key+"/T-coordinate", fmt.Sprintf("%s: result has X*Y != Z*T", desc()), cas)
		}
	})
}

func checkR(w *mc.W, key string, gotf func() *curve.RistrettoPoint, want ref.Point, desc func() string, cas interface{}) {
	try(w, key, cas, func() {
		wenc := ref.RistrettoEncode(want)
		genc := ptalph.REnc(gotf())
		if !bytes.Equal(genc, wenc) {
			w.Fail(key, fmt.Sprintf("%s: ristretto encoding got %x want %x", desc(), genc, wenc), cas)
		}
	})
}

// unchanged runs f (library calls and their checks) and then demands that every input object - scalars,
// points, expanded points, tables, including everything they point to - is bit-identical to what it was.
func unchanged(w *mc.W, key string, desc func() string, cas interface{}, inputs []interface{}, f func()) {
	snap := ptalph.Snap(inputs...)
	f()
	if snap.Changed(inputs...) {
		w.Fail(key+"/input-modified", desc()+": an input (scalar, point, expanded point or table) was modified by the call", cas)
	}
}

func cp(p *curve.EdwardsPoint) *curve.EdwardsPoint { return curve.NewEdwardsPoint().Set(p) }

// Receivers: every routine is called on a receiver that previously held an
// unrelated, non-identity, torsion-laden point in a non-trivial representation
// (a fresh NewEdwardsPoint() is the identity with T = 0, which would hide state
// that a routine forgets to overwrite).  Aliased receivers are covered separately.
var dirtyPoint *curve.EdwardsPoint

func nr() *curve.EdwardsPoint { return curve.NewEdwardsPoint().Set(dirtyPoint) }

func nrr() *curve.RistrettoPoint { return curve.VerifRistrettoFromEdwards(dirtyPoint) }

func rp(p *curve.EdwardsPoint) *curve.RistrettoPoint { return curve.VerifRistrettoFromEdwards(p) }

func run(c *mc.Ctx) {
	s := &space{c: c}
	t0 := time.Now()
	timings := map[string]float64{}
	c.Rep.Extra["phase_wall_s"] = timings
	lap := func(name string) {
		timings[name] = float64(int(time.Since(t0).Seconds()*100)) / 100
		t0 = time.Now()
	}
	// ---------------------------------------------------------------- alphabets
	s.elems = ptalph.Elements(c.Seed, c.Pick(2, 3)) // reference side only
	dirtyRef := ptalph.Known("dirty", ptalph.Generic(c.Seed, 9), 6).P
	for i, e := range s.elems {
		s.tors = append(s.tors, e.HasTorsion())
		if e.Name == "B" {
			s.baseIdx = i
		}
	}
	// Library side of the alphabet (decode, Add, rescale).  If the tree under test panics or rejects a reference
	// encoding here, that is a violation of the property (sub-space "alphabet"), not a harness error.
	var buildPanic interface{}
	func() {
		defer func() { buildPanic = recover() }()
		for i, e := range s.elems {
			for r := 0; r < ptalph.NumReps; r++ {
				s.pts = append(s.pts, &lpt{e: i, rep: r, P: ptalph.Rep(c.Seed, e.P, r)})
			}
		}
		// [g9]B + T6 rescaled: even torsion component, so that it is also a valid ristretto representative
		dirtyPoint = ptalph.Rep(c.Seed, dirtyRef, 4)
		// The exported package-level objects THEMSELVES as operands (appended after the elements x representations block,
		// which keeps its e*NumReps+rep layout): curve.EIGHT_TORSION[i] stands for [i]T1, ED25519_BASEPOINT_POINT for B.
		// They are only ever read (aliasing cases work on copies).
		byName := map[string]int{}
		for i, e := range s.elems {
			byName[e.Name] = i
		}
		for i := 0; i < 8; i++ {
			n := fmt.Sprintf("T%d", i)
			if i == 0 {
				n = "O"
			}
			s.pts = append(s.pts, &lpt{label: fmt.Sprintf("curve.EIGHT_TORSION[%d] (the exported object)", i), e: byName[n], rep: 0, P: curve.EIGHT_TORSION[i]})
		}
		s.pts = append(s.pts, &lpt{label: "curve.ED25519_BASEPOINT_POINT (the exported object)", e: s.baseIdx, rep: 0, P: curve.ED25519_BASEPOINT_POINT})
		s.exported = len(s.pts) - 9
	}()
	if buildPanic != nil {
		c.Seq("alphabet", 1, func(w *mc.W, i int) {
			w.Fail("point-alphabet/panic", fmt.Sprintf("building the point alphabet (UnmarshalBinary of reference encodings, Add, rescaling) failed in the library: %v", buildPanic), nil)
		})
		return
	}
	s.full = alph.Scalars(c.Seed, false)
	coreVals := alph.Scalars(c.Seed, true)
	pos := map[string]int{}
	for i, v := range s.full {
		pos[v.Text(16)] = i
		s.scs = append(s.scs, ptalph.Sc(v))
	}
	s.isCore = make([]bool, len(s.full))
	for _, v := range coreVals {
		i, ok := pos[v.Text(16)]
		if !ok {
			i = len(s.full)
			s.full = append(s.full, v)
			s.scs = append(s.scs, ptalph.Sc(v))
			s.isCore = append(s.isCore, false)
			pos[v.Text(16)] = i
		}
		s.isCore[i] = true
		s.core = append(s.core, i)
	}
	s.mulc = make([][]*ref.Point, len(s.elems))
	for i := range s.mulc {
		s.mulc[i] = make([]*ref.Point, len(s.full))
	}
	if !c.Replaying() {
		s.precompute()
	}
	lap("alphabets+reference-cache")
	c.Rep.Extra["elements"] = len(s.elems)
	c.Rep.Extra["points"] = len(s.pts)
	c.Rep.Extra["scalars_full"] = len(s.full)
	c.Rep.Extra["scalars_core"] = len(s.core)
	c.Rep.Extra["vector_backend"] = curve.VerifSupportsVector()

	ne, np := len(s.elems), len(s.pts)
	unred := func(si int) bool { return s.full[si].Cmp(ref.L) >= 0 }
	special := func(e int) bool { return s.tors[e] || s.elems[e].IsIdentity() }
	pname := func(p *lpt) string { return s.elems[p.e].Name + "/" + p.repName() }

	// ---------------------------------------------------------------- (0) representations, unary operations, predicates
	c.Par("reps", np, func(w *mc.W, i int) {
		p := s.pts[i]
		el := s.elems[p.e]
		cas := map[string]string{"point": pname(p), "enc": hx(el.Enc)}
		d := func(op string) func() string { return func() string { return op + "(" + pname(p) + ")" } }
		nt := special(p.e) || p.rep != 0
		checkPt(w, "EdwardsPoint.MarshalBinary/representation", func() *curve.EdwardsPoint { return p.P }, el.P, d("encode"), cas)
		try(w, "CompressedEdwardsY.SetEdwardsPoint", cas, func() {
			var cy curve.CompressedEdwardsY
			cy.SetEdwardsPoint(p.P)
			if !bytes.Equal(cy[:], el.Enc) {
				w.Fail("CompressedEdwardsY.SetEdwardsPoint", d("compress")(), cas)
			}
		})
		w.Eval("reps/encode", nt)
		checkPt(w, "EdwardsPoint.Neg", func() *curve.EdwardsPoint { return nr().Neg(p.P) }, el.P.Neg(), d("Neg"), cas)
		q := cp(p.P)
		checkPt(w, "EdwardsPoint.Neg/alias", func() *curve.EdwardsPoint { return q.Neg(q) }, el.P.Neg(), d("p.Neg(p)"), cas)
		w.Eval("reps/neg", nt)
		dbl := el.P.Double()
		checkPt(w, "EdwardsPoint.Add/double", func() *curve.EdwardsPoint { return nr().Add(p.P, p.P) }, dbl, d("Add(p,p)"), cas)
		q = cp(p.P)
		checkPt(w, "EdwardsPoint.Add/alias", func() *curve.EdwardsPoint { return q.Add(q, q) }, dbl, d("p.Add(p,p)"), cas)
		w.Eval("reps/double", nt)
		checkPt(w, "EdwardsPoint.Sub/self", func() *curve.EdwardsPoint { return nr().Sub(p.P, p.P) }, ref.Identity(), d("Sub(p,p)"), cas)
		q = cp(p.P)
		checkPt(w, "EdwardsPoint.Sub/alias", func() *curve.EdwardsPoint { return q.Sub(q, q) }, ref.Identity(), d("p.Sub(p,p)"), cas)
		w.Eval("reps/sub-self", nt)
		cof := el.P.MulCofactor()
		checkPt(w, "EdwardsPoint.MulByCofactor", func() *curve.EdwardsPoint { return nr().MulByCofactor(p.P) }, cof, d("MulByCofactor"), cas)
		q = cp(p.P)
		checkPt(w, "EdwardsPoint.MulByCofactor/alias", func() *curve.EdwardsPoint { return q.MulByCofactor(q) }, cof, d("p.MulByCofactor(p)"), cas)
		w.Eval("reps/cofactor", nt)
		try(w, "EdwardsPoint.predicates", cas, func() {
			if got, want := p.P.IsIdentity(), el.IsIdentity(); got != want {
				w.Fail("EdwardsPoint.IsIdentity", fmt.Sprintf("IsIdentity(%s)=%v", pname(p), got), cas)
			}
			if got, want := p.P.IsSmallOrder(), cof.IsIdentity(); got != want {
				w.Fail("EdwardsPoint.IsSmallOrder", fmt.Sprintf("IsSmallOrder(%s)=%v", pname(p), got), cas)
			}
			if got, want := p.P.IsTorsionFree(), !s.tors[p.e]; got != want {
				w.Fail("EdwardsPoint.IsTorsionFree", fmt.Sprintf("IsTorsionFree(%s)=%v", pname(p), got), cas)
			}
		})
		w.Eval(fmt.Sprintf("reps/predicates/smallorder=%v/torsionfree=%v", cof.IsIdentity(), !s.tors[p.e]), nt)
		checkPt(w, "EdwardsPoint.Sum/1", func() *curve.EdwardsPoint { return nr().Sum([]*curve.EdwardsPoint{p.P}) }, el.P, d("Sum"), cas)
		checkPt(w, "ExpandedEdwardsPoint.Point", func() *curve.EdwardsPoint { return p.expanded().Point() }, el.P, d("Expanded.Point"), cas)
		checkPt(w, "EdwardsPoint.SetExpanded", func() *curve.EdwardsPoint { return nr().SetExpanded(p.expanded()) }, el.P, d("SetExpanded"), cas)
		checkPt(w, "EdwardsBasepointTable.Basepoint", func() *curve.EdwardsPoint { return p.table().Basepoint() }, el.P, d("Table.Basepoint"), cas)
		w.Eval("reps/precomputed-roundtrip", nt)
		if el.In2E() {
			checkR(w, "RistrettoPoint.MarshalBinary/representation", func() *curve.RistrettoPoint { return rp(p.P) }, el.P, d("ristretto encode"), cas)
			checkR(w, "RistrettoPoint.Neg", func() *curve.RistrettoPoint { return nrr().Neg(rp(p.P)) }, el.P.Neg(), d("ristretto Neg"), cas)
			w.Eval("reps/ristretto", nt)
		}
		s.marshalOverwrite(w, p, cas)
		w.Eval("reps/returned-slices", nt)
		if i%37 == 0 {
			w.Sample(map[string]string{"op": "reps", "point": pname(p)})
		}
	})

	lap("reps")
	// ---------------------------------------------------------------- (i) group law on Pi x Pi'
	addRef := make([][]ref.Point, ne)
	subRef := make([][]ref.Point, ne)
	for a := 0; a < ne; a++ {
		addRef[a] = make([]ref.Point, ne)
		subRef[a] = make([]ref.Point, ne)
	}
	if !c.Replaying() {
		var wg sync.WaitGroup
		for a := 0; a < ne; a++ {
			wg.Add(1)
			go func(a int) {
				defer wg.Done()
				for b := 0; b < ne; b++ {
					addRef[a][b] = s.elems[a].P.Add(s.elems[b].P) // literal affine law
					subRef[a][b] = s.elems[a].P.Sub(s.elems[b].P)
				}
			}(a)
		}
		wg.Wait()
	}
	getAdd := func(a, b int) (ref.Point, ref.Point) {
		if addRef[a][b].X == nil {
			return s.elems[a].P.Add(s.elems[b].P), s.elems[a].P.Sub(s.elems[b].P)
		}
		return addRef[a][b], subRef[a][b]
	}
	second := []int{} // indices into pts used as second operand
	for i, p := range s.pts {
		if c.Thorough || p.rep == 0 || p.rep == 1 || p.rep == 4 {
			second = append(second, i)
		}
	}
	c.Par("grouplaw", np*len(second), func(w *mc.W, i int) {
		p, q := s.pts[i/len(second)], s.pts[second[i%len(second)]]
		sum, diff := getAdd(p.e, q.e)
		cas := map[string]string{"p": pname(p), "q": pname(q), "p_enc": hx(s.elems[p.e].Enc), "q_enc": hx(s.elems[q.e].Enc)}
		d := func(op string) func() string {
			return func() string { return op + "(" + pname(p) + ", " + pname(q) + ")" }
		}
		// non-trivial: an operand with torsion / identity, or the exceptional cases of incomplete laws (Q = +-P)
		nt := special(p.e) || special(q.e) || p.e == q.e || sum.IsIdentity()
		checkPt(w, "EdwardsPoint.Add", func() *curve.EdwardsPoint { return nr().Add(p.P, q.P) }, sum, d("Add"), cas)
		r := cp(p.P)
		checkPt(w, "EdwardsPoint.Add/alias", func() *curve.EdwardsPoint { return r.Add(r, q.P) }, sum, d("p.Add(p,q)"), cas)
		r = cp(q.P)
		checkPt(w, "EdwardsPoint.Add/alias", func() *curve.EdwardsPoint { return r.Add(p.P, r) }, sum, d("q.Add(p,q)"), cas)
		w.Eval("grouplaw/add", nt)
		checkPt(w, "EdwardsPoint.Sub", func() *curve.EdwardsPoint { return nr().Sub(p.P, q.P) }, diff, d("Sub"), cas)
		r = cp(p.P)
		checkPt(w, "EdwardsPoint.Sub/alias", func() *curve.EdwardsPoint { return r.Sub(r, q.P) }, diff, d("p.Sub(p,q)"), cas)
		r = cp(q.P)
		checkPt(w, "EdwardsPoint.Sub/alias", func() *curve.EdwardsPoint { return r.Sub(p.P, r) }, diff, d("q.Sub(p,q)"), cas)
		w.Eval("grouplaw/sub", nt)
		checkPt(w, "EdwardsPoint.Sum/2", func() *curve.EdwardsPoint { return nr().Sum([]*curve.EdwardsPoint{p.P, q.P}) }, sum, d("Sum"), cas)
		w.Eval("grouplaw/sum2", nt)
		try(w, "EdwardsPoint.Equal", cas, func() {
			if got, want := p.P.Equal(q.P) == 1, p.e == q.e; got != want {
				w.Fail("EdwardsPoint.Equal", fmt.Sprintf("Equal(%s, %s) = %v", pname(p), pname(q), got), cas)
			}
		})
		w.Eval(fmt.Sprintf("grouplaw/equal=%v", p.e == q.e), nt)
		if s.elems[p.e].In2E() && s.elems[q.e].In2E() {
			checkR(w, "RistrettoPoint.Add", func() *curve.RistrettoPoint { return nrr().Add(rp(p.P), rp(q.P)) }, sum, d("ristretto Add"), cas)
			checkR(w, "RistrettoPoint.Sub", func() *curve.RistrettoPoint { return nrr().Sub(rp(p.P), rp(q.P)) }, diff, d("ristretto Sub"), cas)
			checkR(w, "RistrettoPoint.Sum", func() *curve.RistrettoPoint { return nrr().Sum([]*curve.RistrettoPoint{rp(p.P), rp(q.P)}) }, sum, d("ristretto Sum"), cas)
			wantEq := ref.RistrettoEqual(s.elems[p.e].P, s.elems[q.e].P)
			try(w, "RistrettoPoint.Equal", cas, func() {
				if got := rp(p.P).Equal(rp(q.P)) == 1; got != wantEq {
					w.Fail("RistrettoPoint.Equal", fmt.Sprintf("ristretto Equal(%s, %s) = %v", pname(p), pname(q), got), cas)
				}
				if got := nrr().Sub(rp(p.P), rp(q.P)).IsIdentity(); got != wantEq {
					w.Fail("RistrettoPoint.IsIdentity", fmt.Sprintf("ristretto IsIdentity(%s - %s) = %v", pname(p), pname(q), got), cas)
				}
			})
			w.Eval(fmt.Sprintf("grouplaw/ristretto/equal=%v", wantEq), nt)
		}
		if i%1999 == 0 {
			w.Sample(map[string]string{"op": "Add/Sub", "p": pname(p), "q": pname(q)})
		}
	})

	lap("grouplaw")
	// Sum of 0..3 terms over a sub-alphabet mixing elements and representations.
	var sumAlpha []int
	sumAlpha = append(sumAlpha, s.exported+5, s.exported+7, s.exported+8) // EIGHT_TORSION[5], [7] and ED25519_BASEPOINT_POINT themselves
	for i := 0; i < np && len(sumAlpha) < c.Pick(14, 24); i += 2*ptalph.NumReps + 1 {
		sumAlpha = append(sumAlpha, i)
	}
	for i := 3; len(sumAlpha) < c.Pick(14, 24); i += 2*ptalph.NumReps + 1 {
		sumAlpha = append(sumAlpha, i%np)
	}
	na := len(sumAlpha)
	c.Par("sum", 1+na+na*na+na*na*na, func(w *mc.W, i int) {
		n := 0
		for _, sz := range []int{1, na, na * na, na * na * na} {
			if i < sz {
				break
			}
			i -= sz
			n++
		}
		var lp []*curve.EdwardsPoint
		var rpts []ref.Point
		names := ""
		nt := false
		for k := 0; k < n; k++ {
			p := s.pts[sumAlpha[i%na]]
			i /= na
			lp = append(lp, p.P)
			rpts = append(rpts, s.elems[p.e].P)
			names += pname(p) + " "
			nt = nt || special(p.e)
		}
		want := ref.Identity()
		for _, q := range rpts {
			want = want.Add(q) // literal affine law
		}
		checkPt(w, fmt.Sprintf("EdwardsPoint.Sum/%d", n), func() *curve.EdwardsPoint { return nr().Sum(lp) }, want, func() string { return "Sum(" + names + ")" }, map[string]string{"terms": names})
		// receiver previously holding an unrelated value
		r := cp(s.pts[7].P)
		checkPt(w, fmt.Sprintf("EdwardsPoint.Sum/%d/used-receiver", n), func() *curve.EdwardsPoint { return r.Sum(lp) }, want, func() string { return "used.Sum(" + names + ")" }, map[string]string{"terms": names})
		w.Eval(fmt.Sprintf("sum/n=%d", n), nt)
		if *sumAlias && n >= 1 {
			r := cp(lp[0])
			lp2 := append([]*curve.EdwardsPoint{r}, lp[1:]...)
			checkPt(w, "EdwardsPoint.Sum/receiver-in-values", func() *curve.EdwardsPoint { return r.Sum(lp2) }, want, func() string { return "p.Sum(p, ...) terms " + names }, map[string]string{"terms": names})
			w.Eval(fmt.Sprintf("sum-alias/n=%d", n), nt)
		}
	})

	lap("sum")
	// ---------------------------------------------------------------- (ii) single-scalar routines on Sigma x Pi
	type sp struct{ si, pi int }
	var mulCases []sp
	for si := range s.full {
		for pi, p := range s.pts {
			// quick: every core scalar on every point; every other scalar on a third of the elements, one representation each
			if c.Thorough || s.isCore[si] || (p.rep == (si+p.e)%ptalph.NumReps && (si+p.e)%3 == 0) {
				mulCases = append(mulCases, sp{si, pi})
			}
		}
	}
	c.Par("mul", len(mulCases), func(w *mc.W, i int) {
		k := mulCases[i]
		p, sc, sv := s.pts[k.pi], s.scs[k.si], s.full[k.si]
		want := s.refMul(p.e, k.si)
		cas := map[string]string{"point": pname(p), "enc": hx(s.elems[p.e].Enc), "scalar": sv.Text(16)}
		d := func(op string) func() string {
			return func() string { return fmt.Sprintf("%s(%s, 0x%x)", op, pname(p), sv) }
		}
		nt := unred(k.si) || special(p.e)
		snap := ptalph.Snap(sc, p.P)
		defer func() {
			if snap.Changed(sc, p.P, p.tbl) {
				w.Fail("scalar-multiplication/input-modified", d("Mul / MulBasepoint")()+": the scalar, the point or the table was modified", cas)
			}
		}()
		checkPt(w, "EdwardsPoint.Mul", func() *curve.EdwardsPoint { return nr().Mul(p.P, sc) }, want, d("Mul"), cas)
		w.Eval("mul/Mul", nt)
		if c.Thorough || s.isCore[k.si] || p.rep == 0 {
			r := cp(p.P)
			checkPt(w, "EdwardsPoint.Mul/alias", func() *curve.EdwardsPoint { return r.Mul(r, sc) }, want, d("p.Mul(p,s)"), cas)
			w.Eval("mul/Mul(aliased receiver)", nt)
		}
		if c.Thorough || s.isCore[k.si] || k.si%2 == 0 {
			try(w, "NewEdwardsBasepointTable", cas, func() { snap = ptalph.Snap(sc, p.P, p.table()) })
			checkPt(w, "EdwardsPoint.MulBasepoint/NewEdwardsBasepointTable", func() *curve.EdwardsPoint { return nr().MulBasepoint(p.table(), sc) }, want, d("MulBasepoint(NewEdwardsBasepointTable"), cas)
			// the receiver is the very point the table was built from
			checkPt(w, "EdwardsPoint.MulBasepoint/alias", func() *curve.EdwardsPoint { r := cp(p.P); return r.MulBasepoint(p.table(), sc) }, want, d("P.MulBasepoint(table(P), s)"), cas)
			w.Eval("mul/MulBasepoint(table(P))", nt)
		}
		if s.elems[p.e].In2E() && (c.Thorough || s.isCore[k.si] || p.rep == 0) {
			checkR(w, "RistrettoPoint.Mul", func() *curve.RistrettoPoint { return nrr().Mul(rp(p.P), sc) }, want, d("ristretto Mul"), cas)
			checkR(w, "RistrettoPoint.Mul/alias", func() *curve.RistrettoPoint { r := rp(p.P); return r.Mul(r, sc) }, want, d("ristretto p.Mul(p,s)"), cas)
			w.Eval("mul/ristretto.Mul", nt)
			if s.isCore[k.si] && p.rep%2 == 0 {
				var tb *curve.RistrettoBasepointTable
				try(w, "NewRistrettoBasepointTable", cas, func() { tb = curve.NewRistrettoBasepointTable(rp(p.P)) })
				checkR(w, "RistrettoPoint.MulBasepoint/NewRistrettoBasepointTable", func() *curve.RistrettoPoint { return nrr().MulBasepoint(tb, sc) }, want, d("ristretto MulBasepoint(NewRistrettoBasepointTable"), cas)
				checkR(w, "RistrettoBasepointTable.Basepoint", func() *curve.RistrettoPoint { return tb.Basepoint() }, s.elems[p.e].P, d("ristretto table Basepoint"), cas)
				w.Eval("mul/ristretto.MulBasepoint(table(P))", nt)
			}
		}
		if i%4999 == 0 {
			w.Sample(map[string]string{"op": "Mul", "point": pname(p), "scalar": sv.Text(16)})
		}
	})
	lap("mul")
	c.Par("mulbase", len(s.full), func(w *mc.W, si int) {
		want := s.refMul(s.baseIdx, si)
		sv := s.full[si]
		cas := map[string]string{"scalar": sv.Text(16)}
		d := func(op string) func() string { return func() string { return fmt.Sprintf("%s(0x%x)", op, sv) } }
		checkPt(w, "EdwardsPoint.MulBasepoint/ED25519_BASEPOINT_TABLE", func() *curve.EdwardsPoint { return nr().MulBasepoint(curve.ED25519_BASEPOINT_TABLE, s.scs[si]) }, want, d("MulBasepoint(ED25519_BASEPOINT_TABLE)"), cas)
		checkPt(w, "EdwardsPoint.Mul/ED25519_BASEPOINT_POINT", func() *curve.EdwardsPoint { return nr().Mul(curve.ED25519_BASEPOINT_POINT, s.scs[si]) }, want, d("Mul(ED25519_BASEPOINT_POINT)"), cas)
		checkR(w, "RistrettoPoint.MulBasepoint/RISTRETTO_BASEPOINT_TABLE", func() *curve.RistrettoPoint { return nrr().MulBasepoint(curve.RISTRETTO_BASEPOINT_TABLE, s.scs[si]) }, want, d("ristretto MulBasepoint(RISTRETTO_BASEPOINT_TABLE)"), cas)
		checkR(w, "RistrettoPoint.Mul/RISTRETTO_BASEPOINT_POINT", func() *curve.RistrettoPoint { return nrr().Mul(curve.RISTRETTO_BASEPOINT_POINT, s.scs[si]) }, want, d("ristretto Mul(RISTRETTO_BASEPOINT_POINT)"), cas)
		w.EvalN("mulbase/package-table", 4, unred(si))
	})

	lap("mulbase")
	// ---------------------------------------------------------------- (iii) double-base
	type dcase struct{ ai, bi, pi int }
	var dCases []dcase
	var bset []int
	{
		for k := 0; k < len(s.core); k += c.Pick(11, 2) {
			bset = append(bset, s.core[k])
		}
		// always keep the extreme values
		for _, v := range []*big.Int{big.NewInt(0), ref.L, two255m1, new(big.Int).Lsh(big.NewInt(1), 254), new(big.Int).Lsh(big.NewInt(1), 253), new(big.Int).Sub(new(big.Int).Lsh(big.NewInt(1), 254), big.NewInt(1))} {
			bset = append(bset, pos[v.Text(16)])
		}
		bset = dedupInts(bset)
	}
	for ka, ai := range s.core {
		for kb, bi := range bset {
			for e := 0; e < ne; e++ {
				if c.Thorough || (ka+kb+e)%2 == 0 {
					dCases = append(dCases, dcase{ai, bi, e*ptalph.NumReps + (ka+kb+e)%ptalph.NumReps})
				}
			}
		}
	}
	for ka, ai := range s.core { // the exported objects themselves as A
		for kb, bi := range bset {
			for x := s.exported; x < len(s.pts); x++ {
				if c.Thorough || (ka+kb+x)%3 == 0 {
					dCases = append(dCases, dcase{ai, bi, x})
				}
			}
		}
	}
	c.Rep.Extra["double_b_alphabet"] = len(bset)
	c.Par("double", len(dCases), func(w *mc.W, i int) {
		k := dCases[i]
		p := s.pts[k.pi]
		av, bv := s.full[k.ai], s.full[k.bi]
		want := refgrp.Sum(s.refMul(p.e, k.ai), s.refMul(s.baseIdx, k.bi))
		cas := map[string]string{"A": pname(p), "A_enc": hx(s.elems[p.e].Enc), "a": av.Text(16), "b": bv.Text(16)}
		d := func(op string) func() string {
			return func() string { return fmt.Sprintf("%s(a=0x%x, A=%s, b=0x%x)", op, av, pname(p), bv) }
		}
		nt := unred(k.ai) || unred(k.bi) || special(p.e)
		a, b := s.scs[k.ai], s.scs[k.bi]
		var snap ptalph.Snapshot
		try(w, "NewExpandedEdwardsPoint", cas, func() { snap = ptalph.Snap(a, b, p.P, p.expanded()) })
		defer func() {
			if snap != nil && snap.Changed(a, b, p.P, p.x) {
				w.Fail("double-base/input-modified", d("DoubleScalarMulBasepointVartime / Expanded")()+": a scalar, the point or the expanded point was modified", cas)
			}
		}()
		checkPt(w, "EdwardsPoint.DoubleScalarMulBasepointVartime", func() *curve.EdwardsPoint { return nr().DoubleScalarMulBasepointVartime(a, p.P, b) }, want, d("DoubleScalarMulBasepointVartime"), cas)
		w.Eval("double/plain", nt)
		if c.Thorough || i%2 == 0 {
			r := cp(p.P)
			checkPt(w, "EdwardsPoint.DoubleScalarMulBasepointVartime/alias", func() *curve.EdwardsPoint { return r.DoubleScalarMulBasepointVartime(a, r, b) }, want, d("A.DoubleScalarMulBasepointVartime(a,A,b)"), cas)
			w.Eval("double/plain(aliased receiver)", nt)
		}
		checkPt(w, "EdwardsPoint.ExpandedDoubleScalarMulBasepointVartime", func() *curve.EdwardsPoint { return nr().ExpandedDoubleScalarMulBasepointVartime(a, p.expanded(), b) }, want, d("ExpandedDoubleScalarMulBasepointVartime"), cas)
		w.Eval("double/expanded", nt)
		if s.elems[p.e].In2E() && (c.Thorough || i%2 == 1) {
			checkR(w, "RistrettoPoint.DoubleScalarMulBasepointVartime", func() *curve.RistrettoPoint { return nrr().DoubleScalarMulBasepointVartime(a, rp(p.P), b) }, want, d("ristretto DoubleScalarMulBasepointVartime"), cas)
			checkR(w, "RistrettoPoint.DoubleScalarMulBasepointVartime/alias", func() *curve.RistrettoPoint { r := rp(p.P); return r.DoubleScalarMulBasepointVartime(a, r, b) }, want, d("ristretto A.DoubleScalarMulBasepointVartime(a,A,b)"), cas)
			checkR(w, "RistrettoPoint.ExpandedDoubleScalarMulBasepointVartime", func() *curve.RistrettoPoint {
				return nrr().ExpandedDoubleScalarMulBasepointVartime(a, curve.NewExpandedRistrettoPoint(rp(p.P)), b)
			}, want, d("ristretto ExpandedDoubleScalarMulBasepointVartime"), cas)
			w.Eval("double/ristretto", nt)
		}
		if i%4999 == 0 {
			w.Sample(map[string]string{"op": "DoubleScalarMulBasepointVartime", "A": pname(p), "a": av.Text(16), "b": bv.Text(16)})
		}
	})

	lap("double")
	// ---------------------------------------------------------------- (iv)+(v) multiscalar, small n, arbitrary alphabet points
	smallN := []int{0, 1, 2, 3, 8}
	var evenPts []int // alphabet points that are valid ristretto representatives
	for i, p := range s.pts {
		if s.elems[p.e].In2E() {
			evenPts = append(evenPts, i)
		}
	}
	kstep := c.Pick(9, 2)
	nj := len(s.core)
	type mcase struct{ n, j, k int }
	var mCases, mrCases []mcase
	for _, n := range smallN {
		for j := 0; j < nj; j++ {
			ks := kstep
			if n == 8 && !c.Thorough {
				ks = 2 * kstep // the eight-term cases cost the most
			}
			for k := 0; k < np; k += ks {
				if n > 0 || (j == 0 && k == 0) {
					mCases = append(mCases, mcase{n, j, k})
				}
			}
			for k := 0; k < len(evenPts); k += ks {
				if n > 0 || (j == 0 && k == 0) {
					mrCases = append(mrCases, mcase{n, j, k})
				}
			}
		}
	}
	c.Par("msm-small", len(mCases), func(w *mc.W, i int) {
		m := mCases[i]
		s.msmCase(w, m.n, func(t int) int { return s.core[(m.j+7*t)%nj] }, func(t int) int { return (m.k + m.n + 11*t) % np }, false)
		if i%2999 == 0 {
			w.Sample(map[string]interface{}{"op": "multiscalar (all routines)", "n": m.n, "first_scalar": s.full[s.core[m.j]].Text(16), "first_point": pname(s.pts[(m.k+m.n)%np])})
		}
	})
	lap("msm-small")
	c.Par("msm-small-ristretto", len(mrCases), func(w *mc.W, i int) {
		m := mrCases[i]
		s.msmCase(w, m.n, func(t int) int { return s.core[(m.j+7*t)%nj] }, func(t int) int { return evenPts[(m.k+m.n+11*t)%len(evenPts)] }, true)
	})

	lap("msm-small-ristretto")
	// the exported *RistrettoPoint object itself as an operand of every ristretto routine
	c.Par("exported-ristretto-basepoint", len(evenPts), func(w *mc.W, i int) {
		q := s.pts[evenPts[i]]
		G := curve.RISTRETTO_BASEPOINT_POINT
		cas := map[string]string{"operand": "curve.RISTRETTO_BASEPOINT_POINT (the exported object)", "other": pname(q)}
		d := func(op string) func() string {
			return func() string { return op + " with RISTRETTO_BASEPOINT_POINT and " + pname(q) }
		}
		Q := s.elems[q.e].P
		ai, bi := s.core[(3*i)%len(s.core)], s.core[(5*i+1)%len(s.core)]
		unchanged(w, "RistrettoPoint/exported-basepoint", d("ristretto operations"), cas, []interface{}{G, s.scs[ai], s.scs[bi]}, func() {
			checkR(w, "RistrettoPoint.Add/exported-basepoint", func() *curve.RistrettoPoint { return nrr().Add(G, rp(q.P)) }, refgrp.Sum(ref.Base, Q), d("Add(G, q)"), cas)
			checkR(w, "RistrettoPoint.Add/exported-basepoint", func() *curve.RistrettoPoint { return nrr().Add(rp(q.P), G) }, refgrp.Sum(ref.Base, Q), d("Add(q, G)"), cas)
			checkR(w, "RistrettoPoint.Add/exported-basepoint", func() *curve.RistrettoPoint { return nrr().Add(G, G) }, refgrp.Sum(ref.Base, ref.Base), d("Add(G, G)"), cas)
			checkR(w, "RistrettoPoint.Sub/exported-basepoint", func() *curve.RistrettoPoint { return nrr().Sub(rp(q.P), G) }, refgrp.Sum(Q, ref.Base.Neg()), d("Sub(q, G)"), cas)
			checkR(w, "RistrettoPoint.Neg/exported-basepoint", func() *curve.RistrettoPoint { return nrr().Neg(G) }, ref.Base.Neg(), d("Neg(G)"), cas)
			checkR(w, "RistrettoPoint.Sum/exported-basepoint", func() *curve.RistrettoPoint { return nrr().Sum([]*curve.RistrettoPoint{G, rp(q.P), G}) }, refgrp.Sum(ref.Base, Q, ref.Base), d("Sum(G, q, G)"), cas)
			aG, bB, bQ := s.refMul(s.baseIdx, ai), s.refMul(s.baseIdx, bi), s.refMul(q.e, bi)
			checkR(w, "RistrettoPoint.Mul/exported-basepoint", func() *curve.RistrettoPoint { return nrr().Mul(G, s.scs[ai]) }, aG, d("Mul(G, a)"), cas)
			checkR(w, "RistrettoPoint.DoubleScalarMulBasepointVartime/exported-basepoint", func() *curve.RistrettoPoint { return nrr().DoubleScalarMulBasepointVartime(s.scs[ai], G, s.scs[bi]) }, refgrp.Sum(aG, bB), d("DoubleScalarMulBasepointVartime(a, G, b)"), cas)
			checkR(w, "RistrettoPoint.ExpandedDoubleScalarMulBasepointVartime/exported-basepoint", func() *curve.RistrettoPoint {
				return nrr().ExpandedDoubleScalarMulBasepointVartime(s.scs[ai], curve.NewExpandedRistrettoPoint(G), s.scs[bi])
			}, refgrp.Sum(aG, bB), d("ExpandedDoubleScalarMulBasepointVartime(a, expanded G, b)"), cas)
			sc2 := []*scalar.Scalar{s.scs[ai], s.scs[bi]}
			pt2 := []*curve.RistrettoPoint{G, rp(q.P)}
			checkR(w, "RistrettoPoint.MultiscalarMul/exported-basepoint", func() *curve.RistrettoPoint { return nrr().MultiscalarMul(sc2, pt2) }, refgrp.Sum(aG, bQ), d("MultiscalarMul"), cas)
			checkR(w, "RistrettoPoint.MultiscalarMulVartime/exported-basepoint", func() *curve.RistrettoPoint { return nrr().MultiscalarMulVartime(sc2, pt2) }, refgrp.Sum(aG, bQ), d("MultiscalarMulVartime"), cas)
			checkR(w, "RistrettoPoint.MulBasepoint/exported-basepoint", func() *curve.RistrettoPoint {
				return nrr().MulBasepoint(curve.NewRistrettoBasepointTable(G), s.scs[ai])
			}, aG, d("MulBasepoint(NewRistrettoBasepointTable(G), a)"), cas)
			try(w, "RistrettoPoint.Equal/exported-basepoint", cas, func() {
				if got, want := G.Equal(rp(q.P)) == 1, ref.RistrettoEqual(ref.Base, Q); got != want {
					w.Fail("RistrettoPoint.Equal/exported-basepoint", d(fmt.Sprintf("Equal = %v", got))(), cas)
				}
			})
		})
		w.Eval("exported-objects/ristretto-basepoint", true)
	})
	lap("exported-ristretto-basepoint")
	s.msmSpecial(c, evenPts)
	lap("msm-special")
	s.reuse(c)
	lap("reuse")
	// ---------------------------------------------------------------- (v) multiscalar at the algorithm thresholds
	s.large(c)
	lap("msm-large")
	// ---------------------------------------------------------------- (vi) operation histories of the stateful precomputed objects
	s.histories(c)
	lap("histories")

	s.specialReps(c)
	lap("special-representations")
	// ---------------------------------------------------------------- (vii) memory handed out by the package-level values (last: process-wide state)
	s.returnedMemory(c)
	lap("returned-memory")

	if c.Rep.NViolations > 0 {
		return // a violation is being reported; a panicking case may not have reached its accounting, so the guards would only add noise
	}
	for _, cl := range []string{"reps/encode", "reps/ristretto", "grouplaw/add", "grouplaw/sub", "grouplaw/equal=true", "grouplaw/equal=false",
		"grouplaw/ristretto/equal=true", "grouplaw/ristretto/equal=false", "sum/n=0", "sum/n=3",
		"mul/Mul", "mul/MulBasepoint(table(P))", "mul/ristretto.Mul", "mul/ristretto.MulBasepoint(table(P))", "mulbase/package-table",
		"double/plain", "double/expanded", "double/ristretto"} {
		c.Require(cl, 1)
	}
	c.Require("mul/Mul", 15000)
	c.Require("double/plain", 8000)
	c.Require("reps/predicates/smallorder=true/torsionfree=false", 7*ptalph.NumReps)
	c.Require("reps/predicates/smallorder=false/torsionfree=false", 14*ptalph.NumReps)
	c.Require("reps/predicates/smallorder=true/torsionfree=true", ptalph.NumReps)
	for _, n := range smallN {
		for _, r := range []string{"MultiscalarMul", "MultiscalarMulVartime", "ExpandedMultiscalarMulVartime", "ristretto.MultiscalarMul", "ristretto.MultiscalarMulVartime", "ristretto.ExpandedMultiscalarMulVartime"} {
			c.Require(fmt.Sprintf("msm/%s/n=%d", r, n), 1)
		}
	}
}

func dedupInts(in []int) []int {
	seen := map[int]bool{}
	var out []int
	for _, v := range in {
		if !seen[v] {
			seen[v] = true
			out = append(out, v)
		}
	}
	return out
}

// splits returns the static-term index sets (as bitmaps over n terms) of
// ExpandedMultiscalarMulVartime: all static, all dynamic, alternating halves,
// exactly one static, exactly one dynamic - de-duplicated.
func splits(n int) [][]bool {
	mk := func(f func(t int) bool) []bool {
		b := make([]bool, n)
		for t := range b {
			b[t] = f(t)
		}
		return b
	}
	cands := [][]bool{
		mk(func(int) bool { return true }),
		mk(func(int) bool { return false }),
		mk(func(t int) bool { return t%2 == 0 }),
		mk(func(t int) bool { return t == 0 }),
		mk(func(t int) bool { return t != n-1 }),
	}
	var out [][]bool
	seen := map[string]bool{}
	for _, b := range cands {
		k := fmt.Sprint(b)
		if !seen[k] {
			seen[k] = true
			out = append(out, b)
		}
	}
	return out
}
