package main

import (
	"fmt"
	"math/big"
	"runtime"
	"sync"
	"sync/atomic"

	"github.com/oasisprotocol/curve25519-voi/curve"
	"github.com/oasisprotocol/curve25519-voi/curve/scalar"
	"github.com/oasisprotocol/curve25519-voi/internal/verif/mc"
	"github.com/oasisprotocol/curve25519-voi/internal/verif/ptalph"
	"github.com/oasisprotocol/curve25519-voi/internal/verif/ref"
	"github.com/oasisprotocol/curve25519-voi/internal/verif/ref/refgrp"
)

// Multiscalar multiplication at the algorithm thresholds.
//
// Term i uses the point P_i = [m_i]B + T_{i mod 8} (ristretto: T_{2(i mod 4)}) with
// m_i known to the reference, in representation i mod 5, so that
//
//	sum_i [s_i]P_i = [ (sum_i s_i m_i) mod L ]B + T_{ (sum_i s_i (i mod 8)) mod 8 }
//
// costs ONE reference scalar multiplication whatever the number of terms (B has
// order L and T_1 order 8: both pinned by ref-selftest; the identity itself is
// cross-checked below against the literal term-by-term sum on a prefix).

type vec struct {
	name string
	f    func(i, n int) *big.Int
}

func mask255(v *big.Int) *big.Int { return new(big.Int).And(v, two255m1) }

func repByte(b byte) *big.Int {
	buf := make([]byte, 32)
	for i := range buf {
		buf[i] = b
	}
	return mask255(new(big.Int).SetBytes(buf))
}

// windows builds the 255-bit value whose radix-2^w windows are first, rest, rest, ...
func windows(w uint, first, rest uint64) *big.Int {
	v := new(big.Int)
	for j := uint(0); j*w < 255; j++ {
		d := rest
		if j == 0 {
			d = first
		}
		v.Or(v, new(big.Int).Lsh(new(big.Int).SetUint64(d), j*w))
	}
	return mask255(v)
}

func (s *space) vectors(thorough bool, wsel []uint) []vec {
	seed := s.c.Seed
	constant := func(name string, v *big.Int) vec { return vec{name, func(int, int) *big.Int { return v }} }
	gen := func(tag string, i int) *big.Int { return mask255(ref.FromLE(mc.Bytes(seed, tag, i, 32))) }
	vs := []vec{
		constant("all-0", big.NewInt(0)),
		constant("all-(2^255-1)", two255m1),
		constant("all-L", ref.L),
		constant("all-0x0888..88", repByte(0x88)),
		constant("all-(L-1)", new(big.Int).Sub(ref.L, big.NewInt(1))),
		constant("all-1", big.NewInt(1)),
		constant("all-0x7777..77", repByte(0x77)),
		constant("all-0x1999..99", repByte(0x99)),
		constant("all-0x70f0..f0", repByte(0xf0)),
		constant("all-7L+3", new(big.Int).Add(new(big.Int).Mul(ref.L, big.NewInt(7)), big.NewInt(3))),
		{"generic-unreduced", func(i, n int) *big.Int { return gen("c03-large-s", i) }},
		{"generic-reduced", func(i, n int) *big.Int { return ref.SMod(gen("c03-large-r", i)) }},
		{"core-cycle", func(i, n int) *big.Int { return s.full[s.core[i%len(s.core)]] }},
		{"full-cycle", func(i, n int) *big.Int { return s.full[(7*i+3)%len(s.full)] }},
		{"one-hot-last", func(i, n int) *big.Int {
			if i == n-1 {
				return gen("c03-large-hot", 0)
			}
			return big.NewInt(0)
		}},
		{"one-hot-first", func(i, n int) *big.Int {
			if i == 0 {
				return two255m1
			}
			return big.NewInt(0)
		}},
		{"alternate-0/(2^255-1)", func(i, n int) *big.Int {
			if i%2 == 0 {
				return big.NewInt(0)
			}
			return two255m1
		}},
		{"small-integers", func(i, n int) *big.Int { return big.NewInt(int64(i)) }},
	}
	if thorough {
		for k := 1; k <= 4; k++ {
			k := k
			vs = append(vs, vec{fmt.Sprintf("core-cycle+%d", 13*k), func(i, n int) *big.Int { return s.full[s.core[(i+13*k)%len(s.core)]] }})
			vs = append(vs, vec{fmt.Sprintf("generic-unreduced-%d", k), func(i, n int) *big.Int { return gen(fmt.Sprintf("c03-large-s%d", k), i) }})
		}
	}
	// radix-2^w specific vectors: every bucket index with either sign, extreme digits everywhere
	for _, w := range wsel {
		w := w
		half := uint64(1) << (w - 1)
		full := uint64(1) << w
		vs = append(vs,
			constant(fmt.Sprintf("radix2^%d/all-digits-max", w), windows(w, half-1, half-1)),
			constant(fmt.Sprintf("radix2^%d/all-digits-min", w), windows(w, half, half-1)),
			vec{fmt.Sprintf("radix2^%d/positive-ramp", w), func(i, n int) *big.Int {
				d := 1 + uint64(i)%(half-1)
				return windows(w, d, d)
			}},
			vec{fmt.Sprintf("radix2^%d/negative-ramp", w), func(i, n int) *big.Int {
				d := 1 + uint64(i)%half // digit -d in every window: window value 2^w - d, then 2^w - d - 1 with the carry
				return windows(w, full-d, full-d-1)
			}},
		)
	}
	return vs
}

type largeCase struct {
	n    int
	vi   int
	kind int // 0: P_i list with scalar vector vi; 1: every point the identity (rotating representations); 2: ONE scalar object and ONE point object for all terms
}

func (s *space) large(c *mc.Ctx) {
	// quick: BOTH sides of the Straus/Pippenger switch (190 terms; 191 for the expanded routine) and of the two Pippenger
	// window switches (500, 800) in every configuration (T14), plus 200 for the uneven static/dynamic mixes
	sizes := []int{189, 190, 191, 200, 499, 500, 799, 800}
	if c.Thorough {
		sizes = []int{189, 190, 191, 200, 499, 500, 501, 799, 800, 801}
	}
	nmax := sizes[len(sizes)-1]
	// reference side: m_i, P_i (Edwards list) and Q_i (ristretto list)
	ms := make([]*big.Int, nmax)
	for i := range ms {
		switch {
		case i < 8:
			ms[i] = big.NewInt(0) // the torsion points themselves (O at i = 0)
		case i < 16:
			ms[i] = big.NewInt(1)
		case i < 24:
			ms[i] = new(big.Int).Sub(ref.L, big.NewInt(1))
		default:
			ms[i] = ref.SMod(ref.FromLE(mc.Bytes(c.Seed, "c03-large-m", i, 32)))
		}
	}
	pe := make([]ref.Point, nmax)
	pr := make([]ref.Point, nmax)
	le := make([]*lpt, nmax)
	lr := make([]*lpt, nmax)
	var next int64
	var wg sync.WaitGroup
	for k := 0; k < runtime.GOMAXPROCS(0); k++ {
		wg.Add(1)
		go func() {
			defer wg.Done()
			for {
				i := int(atomic.AddInt64(&next, 1) - 1)
				if i >= nmax {
					return
				}
				mb := ptalph.BaseElem.Mul(ms[i])
				pe[i] = mb.Add(ptalph.T[i%8])
				pr[i] = mb.Add(ptalph.T[2*(i%4)])
				le[i] = &lpt{e: -1, rep: i % ptalph.NumReps, P: ptalph.Rep(c.Seed, pe[i], i%ptalph.NumReps)}
				lr[i] = &lpt{e: -1, rep: i % ptalph.NumReps, P: ptalph.Rep(c.Seed, pr[i], i%ptalph.NumReps)}
			}
		}()
	}
	wg.Wait()

	expect := func(n int, v vec, tmul int) (ref.Point, []*scalar.Scalar, bool) {
		sm, st := new(big.Int), new(big.Int)
		scs := make([]*scalar.Scalar, n)
		unred := false
		for i := 0; i < n; i++ {
			sv := v.f(i, n)
			scs[i] = ptalph.Sc(sv)
			unred = unred || sv.Cmp(ref.L) >= 0
			sm.Add(sm, new(big.Int).Mul(sv, ms[i]))
			st.Add(st, new(big.Int).Mul(sv, big.NewInt(int64(tmul*(i%(8/tmul))))))
		}
		sm.Mod(sm, ref.L)
		ti := int(new(big.Int).Mod(st, big.NewInt(8)).Int64())
		return refgrp.Sum(ptalph.BaseElem.Mul(sm), ptalph.T[ti]), scs, unred
	}

	// cross-check of the closed form against the literal sum on a prefix (reference-side only)
	if !c.Replaying() {
		v := s.vectors(false, nil)[10] // generic-unreduced
		const n0 = 12
		var terms, rterms []ref.Point
		for i := 0; i < n0; i++ {
			terms = append(terms, refgrp.NewTable(pe[i+4]).Mul(v.f(i+4, n0+4)))
			rterms = append(rterms, refgrp.NewTable(pr[i+4]).Mul(v.f(i+4, n0+4)))
		}
		// closed form on the same index window: subtract the first four terms
		w16, _, _ := expect(n0+4, v, 1)
		w4, _, _ := expect(4, v, 1)
		r16, _, _ := expect(n0+4, v, 2)
		r4, _, _ := expect(4, v, 2)
		if !refgrp.Sum(terms...).Equal(w16.Sub(w4)) || !refgrp.Sum(rterms...).Equal(r16.Sub(r4)) {
			c.Broken("reference self-check failed: closed-form multiscalar expectation differs from the literal sum")
		}
	}

	var cases []largeCase
	var vecsBy = map[int][]vec{}
	for _, n := range sizes {
		var wsel []uint
		switch {
		case n < 500:
			wsel = []uint{6}
		case n < 800:
			wsel = []uint{7}
		default:
			wsel = []uint{8}
		}
		if c.Thorough {
			wsel = []uint{6, 7, 8}
		}
		vecsBy[n] = s.vectors(c.Thorough, wsel)
		if !c.Thorough && (n == 200 || n == 499 || n == 799) {
			// quick: a 6-vector core on the near side of the window switches and at 200
			var sel []vec
			for _, v := range vecsBy[n] {
				switch v.name {
				case "all-(2^255-1)", "generic-unreduced", "core-cycle", "small-integers":
					sel = append(sel, v)
				}
				if len(v.name) > 6 && v.name[:6] == "radix2" && (v.name[len(v.name)-13:] == "negative-ramp" || v.name[len(v.name)-14:] == "all-digits-min") {
					sel = append(sel, v)
				}
			}
			vecsBy[n] = sel
		} else if !c.Thorough && n >= 400 {
			// quick: a 10-vector core at the window switches (extremes, generic, cycles, zeros interleaved, bucket ramps)
			var sel []vec
			for _, v := range vecsBy[n] {
				switch v.name {
				case "all-0", "all-(2^255-1)", "all-L", "generic-unreduced", "core-cycle", "one-hot-last", "alternate-0/(2^255-1)", "small-integers":
					sel = append(sel, v)
				}
				if len(v.name) > 6 && v.name[:6] == "radix2" && (v.name[len(v.name)-4:] == "ramp") {
					sel = append(sel, v)
				}
			}
			vecsBy[n] = sel
		}
		for vi := range vecsBy[n] {
			cases = append(cases, largeCase{n, vi, 0})
		}
		for vi, v := range vecsBy[n] {
			if v.name == "generic-unreduced" { // scalars of the two special kinds (kind 2 uses its first element)
				cases = append(cases, largeCase{n, vi, 1}, largeCase{n, vi, 2})
			}
		}
	}
	c.Rep.Extra["large_sizes"] = sizes
	vcount := map[string]int{}
	for _, n := range sizes {
		vcount[fmt.Sprint(n)] = len(vecsBy[n])
	}
	c.Rep.Extra["large_vectors_per_size"] = vcount

	// identity points as distinct objects in rotating representations (special kind 1)
	idl := make([]*lpt, nmax)
	for t := range idl {
		idl[t] = &lpt{e: -1, rep: t % ptalph.NumReps, P: ptalph.Rep(c.Seed, ref.Identity(), t%ptalph.NumReps)}
	}
	const sharedIdx = 21 // special kind 2: P_21 = [L-1]B + T_5 (ristretto list: + T_2)

	c.Par("msm-large", len(cases), func(w *mc.W, i int) {
		lc := cases[i]
		n, v := lc.n, vecsBy[lc.n][lc.vi]
		name := v.name
		want, scs, _ := expect(n, v, 1)
		rwant, _, _ := expect(n, v, 2)
		pl, rl := le[:n], lr[:n]
		switch lc.kind {
		case 1:
			name = "generic-unreduced on identity points"
			pl, rl = idl[:n], idl[:n]
			want, rwant = ref.Identity(), ref.Identity()
		case 2:
			name = "ONE scalar object and ONE point object for all terms"
			sv := v.f(0, n)
			sc0 := ptalph.Sc(sv)
			ns := new(big.Int).Mul(sv, big.NewInt(int64(n)))
			scs = make([]*scalar.Scalar, n)
			pl, rl = make([]*lpt, n), make([]*lpt, n)
			for t := range scs {
				scs[t], pl[t], rl[t] = sc0, le[sharedIdx], lr[sharedIdx]
			}
			mb := ptalph.BaseElem.Mul(ref.SMul(ns, ms[sharedIdx]))
			tor := func(t int) ref.Point {
				return ptalph.T[int(new(big.Int).Mod(new(big.Int).Mul(ns, big.NewInt(int64(t))), big.NewInt(8)).Int64())]
			}
			want, rwant = refgrp.Sum(mb, tor(sharedIdx%8)), refgrp.Sum(mb, tor(2*(sharedIdx%4)))
		}
		cas := map[string]interface{}{"n": n, "scalar_vector": name, "points": "P_i=[m_i]B+T_(i mod 8), representation i mod 5"}
		d := func(op string) func() string {
			return func() string { return fmt.Sprintf("%s n=%d scalars=%s", op, n, name) }
		}
		lp := make([]*curve.EdwardsPoint, n)
		for t := 0; t < n; t++ {
			lp[t] = pl[t].P
		}
		// aliased(k): the receiver is a private copy of points[k], substituted at every position holding that object
		aliased := func(src []*curve.EdwardsPoint, k int) (*curve.EdwardsPoint, []*curve.EdwardsPoint) {
			r := cp(src[k])
			l2 := make([]*curve.EdwardsPoint, len(src))
			for t := range src {
				l2[t] = src[t]
				if src[t] == src[k] {
					l2[t] = r
				}
			}
			return r, l2
		}
		cl := func(r string) string { return fmt.Sprintf("msm-large/%s/n=%d", r, n) }
		in := objs(scs, lp)
		unchanged(w, "EdwardsPoint.MultiscalarMulVartime", d("MultiscalarMulVartime"), cas, in, func() {
			checkPt(w, "EdwardsPoint.MultiscalarMulVartime", func() *curve.EdwardsPoint { return nr().MultiscalarMulVartime(scs, lp) }, want, d("MultiscalarMulVartime"), cas)
		})
		w.Eval(cl("MultiscalarMulVartime"), true)
		unchanged(w, "EdwardsPoint.MultiscalarMul", d("MultiscalarMul"), cas, in, func() {
			checkPt(w, "EdwardsPoint.MultiscalarMul", func() *curve.EdwardsPoint { return nr().MultiscalarMul(scs, lp) }, want, d("MultiscalarMul"), cas)
		})
		w.Eval(cl("MultiscalarMul"), true)
		r, lp2 := aliased(lp, n/2)
		checkPt(w, "EdwardsPoint.MultiscalarMulVartime/alias", func() *curve.EdwardsPoint { return r.MultiscalarMulVartime(scs, lp2) }, want, d("p.MultiscalarMulVartime(.., p, ..)"), cas)
		r, lp2 = aliased(lp, (i*7)%n)
		checkPt(w, "EdwardsPoint.MultiscalarMul/alias", func() *curve.EdwardsPoint { return r.MultiscalarMul(scs, lp2) }, want, d("p.MultiscalarMul(.., p, ..)"), cas)
		for _, sp := range largeSplits(n) {
			var ss, ds []*scalar.Scalar
			var spn []*curve.ExpandedEdwardsPoint
			var dpn []*curve.EdwardsPoint
			try(w, "NewExpandedEdwardsPoint", cas, func() {
				for t := 0; t < n; t++ {
					if sp[t] {
						ss = append(ss, scs[t])
						spn = append(spn, pl[t].expanded())
					} else {
						ds = append(ds, scs[t])
						dpn = append(dpn, lp[t])
					}
				}
			})
			what := fmt.Sprintf("ExpandedMultiscalarMulVartime(static=%d, dynamic=%d)", len(ss), len(ds))
			in := objs(append(append([]*scalar.Scalar{}, ss...), ds...), dpn)
			for _, x := range spn {
				in = append(in, x)
			}
			ss2, okSS := spareS(ss, sentScalar)
			sp2, okSP := spareX(spn, sentExp)
			ds2, okDS := spareS(ds, sentScalar)
			dp2, okDP := spareP(dpn, sentPoint)
			unchanged(w, "EdwardsPoint.ExpandedMultiscalarMulVartime", d(what), cas, in, func() {
				checkPt(w, "EdwardsPoint.ExpandedMultiscalarMulVartime", func() *curve.EdwardsPoint { return nr().ExpandedMultiscalarMulVartime(ss2, sp2, ds2, dp2) }, want, d(what), cas)
			})
			if !(okSS() && okSP() && okDS() && okDP()) {
				w.Fail("EdwardsPoint.ExpandedMultiscalarMulVartime/caller-slice-modified", d(what)()+": an argument slice (its elements or the spare capacity behind it) was written to", cas)
			}
			w.Eval(cl(fmt.Sprintf("ExpandedMultiscalarMulVartime(static=%d)", len(ss))), true)
			if len(dpn) > 0 { // receiver among the dynamic points (Straus and Pippenger sizes, both backends' code paths)
				r, d2 := aliased(dpn, (i*5)%len(dpn))
				checkPt(w, "EdwardsPoint.ExpandedMultiscalarMulVartime/alias", func() *curve.EdwardsPoint { return r.ExpandedMultiscalarMulVartime(ss, spn, ds, d2) }, want, d("p."+what+" with p among the dynamic points"), cas)
			}
		}
		// ristretto wrappers on representatives in 2E
		rpn := make([]*curve.RistrettoPoint, n)
		for t := 0; t < n; t++ {
			rpn[t] = rp(rl[t].P)
			if t > 0 && rl[t] == rl[0] {
				rpn[t] = rpn[0]
			}
		}
		rin := []interface{}{}
		for _, x := range scs {
			rin = append(rin, x)
		}
		for _, x := range rpn {
			rin = append(rin, x)
		}
		unchanged(w, "RistrettoPoint.MultiscalarMulVartime", d("ristretto MultiscalarMulVartime"), cas, rin, func() {
			checkR(w, "RistrettoPoint.MultiscalarMulVartime", func() *curve.RistrettoPoint { return nrr().MultiscalarMulVartime(scs, rpn) }, rwant, d("ristretto MultiscalarMulVartime"), cas)
		})
		w.Eval(cl("ristretto.MultiscalarMulVartime"), true)
		unchanged(w, "RistrettoPoint.MultiscalarMul", d("ristretto MultiscalarMul"), cas, rin, func() {
			checkR(w, "RistrettoPoint.MultiscalarMul", func() *curve.RistrettoPoint { return nrr().MultiscalarMul(scs, rpn) }, rwant, d("ristretto MultiscalarMul"), cas)
		})
		w.Eval(cl("ristretto.MultiscalarMul"), true)
		{
			k := (i * 3) % n
			rr := curve.NewRistrettoPoint().Set(rpn[k])
			l2 := make([]*curve.RistrettoPoint, n)
			for t := range rpn {
				l2[t] = rpn[t]
				if rpn[t] == rpn[k] {
					l2[t] = rr
				}
			}
			checkR(w, "RistrettoPoint.MultiscalarMulVartime/alias", func() *curve.RistrettoPoint { return rr.MultiscalarMulVartime(scs, l2) }, rwant, d("ristretto p.MultiscalarMulVartime(.., p, ..)"), cas)
		}
		for _, sp := range append(splits(n)[:3], largeSplits(n)[len(splits(n)):]...) {
			var ss, ds []*scalar.Scalar
			var spn []*curve.ExpandedRistrettoPoint
			var dpn []*curve.RistrettoPoint
			try(w, "NewExpandedRistrettoPoint", cas, func() {
				for t := 0; t < n; t++ {
					if sp[t] {
						ss = append(ss, scs[t])
						spn = append(spn, rl[t].rexpanded())
					} else {
						ds = append(ds, scs[t])
						dpn = append(dpn, rpn[t])
					}
				}
			})
			checkR(w, "RistrettoPoint.ExpandedMultiscalarMulVartime", func() *curve.RistrettoPoint { return nrr().ExpandedMultiscalarMulVartime(ss, spn, ds, dpn) }, rwant,
				d(fmt.Sprintf("ristretto ExpandedMultiscalarMulVartime(static=%d, dynamic=%d)", len(ss), len(ds))), cas)
			w.Eval(cl(fmt.Sprintf("ristretto.ExpandedMultiscalarMulVartime(static=%d)", len(ss))), true)
		}
		w.Sample(map[string]interface{}{"op": "multiscalar (all routines)", "n": n, "scalars": name})
	})
	for _, n := range sizes {
		if c.Rep.NViolations > 0 {
			break
		}
		nv := int64(len(vecsBy[n]))
		for _, r := range []string{"MultiscalarMulVartime", "MultiscalarMul", "ristretto.MultiscalarMulVartime", "ristretto.MultiscalarMul",
			fmt.Sprintf("ExpandedMultiscalarMulVartime(static=%d)", n), "ExpandedMultiscalarMulVartime(static=0)", "ExpandedMultiscalarMulVartime(static=1)",
			fmt.Sprintf("ExpandedMultiscalarMulVartime(static=%d)", n-1), fmt.Sprintf("ExpandedMultiscalarMulVartime(static=%d)", (n+1)/2),
			fmt.Sprintf("ristretto.ExpandedMultiscalarMulVartime(static=%d)", n)} {
			c.Require(fmt.Sprintf("msm-large/%s/n=%d", r, n), nv)
		}
	}
}

// largeSplits: the five generic static/dynamic patterns plus uneven contiguous mixes (90 static + the rest dynamic, i.e.
// 90+99, 90+100, 90+101, 90+110, ...; 120+80 at n = 200; the rest static + 90 dynamic) - both sets non-empty and different.
func largeSplits(n int) [][]bool {
	out := splits(n)
	mk := func(f func(t int) bool) []bool {
		b := make([]bool, n)
		for t := range b {
			b[t] = f(t)
		}
		return b
	}
	out = append(out, mk(func(t int) bool { return t < 90 }), mk(func(t int) bool { return t >= 90 }))
	if n == 200 {
		out = append(out, mk(func(t int) bool { return t < 120 }))
	}
	return out
}
