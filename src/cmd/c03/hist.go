package main

import (
	"fmt"
	"math/big"
	"sort"
	"strings"
	"sync"

	"github.com/oasisprotocol/curve25519-voi/curve"
	"github.com/oasisprotocol/curve25519-voi/curve/scalar"
	"github.com/oasisprotocol/curve25519-voi/internal/verif/mc"
	"github.com/oasisprotocol/curve25519-voi/internal/verif/ptalph"
	"github.com/oasisprotocol/curve25519-voi/internal/verif/ref"
	"github.com/oasisprotocol/curve25519-voi/internal/verif/ref/refgrp"
)

// Operation histories of the STATEFUL precomputed objects
// (ExpandedEdwardsPoint, ExpandedRistrettoPoint, EdwardsBasepointTable,
// RistrettoBasepointTable).
//
// Every history over the operation alphabet
//
//	New(P)        a fresh object for P (= zero value + Set)
//	Set(#i, P)    SetEdwardsPoint / SetRistrettoPoint on the live object #i      (expanded points only)
//	Copy(#i)      c := *obj_i, a by-value copy of the struct (as ExpandedRistrettoPoint and
//	              ed25519.ExpandedPublicKey do with the ExpandedEdwardsPoint they embed)
//	Assign(#i,#j) *obj_i = *obj_j
//	Use(#i)       every consumer of obj_i (this is what triggers any lazily built state)
//
// over two (quick) / three (thorough) distinct points, to depth 4 (tables: 5 in thorough) and at most three live
// objects, is replayed on fresh real objects.  The model is one integer per
// object: the point it was last set to (copies inherit it).  After the last
// step EVERY live object - originals and copies - must compute with exactly its
// model point in every consumer: the ones that read the stored point
// (Point, SetExpanded, the Pippenger branch of ExpandedMultiscalarMulVartime,
// Basepoint) and the ones that read the table (expanded double-base, expanded
// triple-base, the Straus branch, MulBasepoint).  Every prefix of a history is
// itself an enumerated history, so "after every step" is covered without
// implicit uses in between (a Use is an explicit operation).

type hop struct {
	kind byte // 'N', 'S', 'C', 'A', 'U', 'M'
	i, j int  // object index / second object index or point index
}

func (o hop) String() string {
	switch o.kind {
	case 'N':
		return fmt.Sprintf("New(P%d)", o.j)
	case 'S':
		return fmt.Sprintf("Set(#%d,P%d)", o.i, o.j)
	case 'C':
		return fmt.Sprintf("Copy(#%d)", o.i)
	case 'A':
		return fmt.Sprintf("Assign(#%d=#%d)", o.i, o.j)
	case 'M':
		return fmt.Sprintf("MutateReturnedPoint(#%d)", o.i)
	}
	return fmt.Sprintf("Use(#%d)", o.i)
}

func histString(h []hop) string {
	var p []string
	for _, o := range h {
		p = append(p, o.String())
	}
	return strings.Join(p, "; ")
}

// setSources: the caller-owned source variable of every object that has been Set (see the set functions below).
var setSources sync.Map

const histMaxLive = 3

// genHistories enumerates all histories of length 1..depth (DFS, fixed operation order).
func genHistories(depth, npts int, canSet bool) [][]hop {
	var out [][]hop
	var rec func(cur []hop, live int)
	rec = func(cur []hop, live int) {
		if len(cur) > 0 {
			out = append(out, append([]hop{}, cur...))
		}
		if len(cur) == depth {
			return
		}
		if live < histMaxLive {
			for p := 0; p < npts; p++ {
				rec(append(cur, hop{'N', live, p}), live+1)
			}
		}
		for i := 0; i < live; i++ {
			if canSet {
				for p := 0; p < npts; p++ {
					rec(append(cur, hop{'S', i, p}), live)
				}
			}
			if live < histMaxLive {
				rec(append(cur, hop{'C', i, 0}), live+1)
			}
			for j := 0; j < live; j++ {
				if i != j {
					rec(append(cur, hop{'A', i, j}), live)
				}
			}
			if len(cur)+1 < depth { // a trailing Use adds nothing: the final check uses every object
				rec(append(cur, hop{'U', i, 0}), live)
			}
			// q := obj.Point() / Basepoint(); then q is overwritten in place (T11: memory the library hands out)
			rec(append(cur, hop{'M', i, 0}), live)
		}
	}
	rec(nil, 0)
	// shortest first, so that the first counter-example reported is a shortest one
	sort.SliceStable(out, func(x, y int) bool { return len(out[x]) < len(out[y]) })
	return out
}

// histKind binds the operation alphabet to one object type.
type histKind struct {
	name    string
	canSet  bool
	newObj  func(p int) interface{}
	set     func(o interface{}, p int)
	copyObj func(o interface{}) interface{}
	assign  func(dst, src interface{})
	use     func(w *mc.W, o interface{}, model int, where string, cas map[string]string)
	// handed-out memory: get returns what Point()/Basepoint() returns; mutate overwrites it in place (variant how) and
	// returns the value it must hold from now on, given the point it held; checkHeld compares a held value
	get       func(o interface{}) interface{}
	mutate    func(q interface{}, how int, was ref.Point) ref.Point
	checkHeld func(w *mc.W, q interface{}, want ref.Point, where string, cas map[string]string)
	point     func(model int) ref.Point
}

// structural classes of a history, computed on the model side only
func histClasses(h []hop) (sharedThenSet, useThenSet, mutating bool) {
	group := []int{} // objects that are by-value copies of each other share a group id
	model := []int{}
	used := []bool{}
	next := 0
	members := func(g int) int {
		n := 0
		for _, x := range group {
			if x == g {
				n++
			}
		}
		return n
	}
	for _, o := range h {
		switch o.kind {
		case 'N':
			group, model, used = append(group, next), append(model, o.j), append(used, false)
			next++
		case 'S':
			mutating = true
			if members(group[o.i]) > 1 && model[o.i] != o.j {
				sharedThenSet = true
			}
			if used[o.i] && model[o.i] != o.j {
				useThenSet = true
			}
			group[o.i], model[o.i], used[o.i] = next, o.j, false
			next++
		case 'C':
			mutating = true
			group, model, used = append(group, group[o.i]), append(model, model[o.i]), append(used, used[o.i])
		case 'A':
			mutating = true
			group[o.i], model[o.i], used[o.i] = group[o.j], model[o.j], used[o.j]
		case 'U':
			used[o.i] = true
		case 'M':
			mutating = true
		}
	}
	return
}

func (s *space) runHistories(c *mc.Ctx, k *histKind, depth, npts int) {
	hs := genHistories(depth, npts, k.canSet)
	c.Rep.Extra["histories/"+k.name] = len(hs)
	c.Par("hist-"+k.name, len(hs), func(w *mc.W, idx int) {
		h := hs[idx]
		desc := histString(h)
		cas := map[string]string{"object": k.name, "history": desc}
		var objs, held []interface{}
		var model []int
		var heldWant []ref.Point
		hasM := false
		try(w, k.name+"/history", cas, func() {
			for step, o := range h {
				switch o.kind {
				case 'N':
					objs, model = append(objs, k.newObj(o.j)), append(model, o.j)
				case 'S':
					k.set(objs[o.i], o.j)
					model[o.i] = o.j
				case 'C':
					objs, model = append(objs, k.copyObj(objs[o.i])), append(model, model[o.i])
				case 'A':
					k.assign(objs[o.i], objs[o.j])
					model[o.i] = model[o.j]
				case 'U':
					k.use(w, objs[o.i], model[o.i], fmt.Sprintf("object #%d (model P%d) used at step %d of [%s]", o.i, model[o.i], step+1, desc), cas)
				case 'M':
					q := k.get(objs[o.i])
					held = append(held, q)
					heldWant = append(heldWant, k.mutate(q, len(held)+idx, k.point(model[o.i])))
					hasM = true
				}
			}
			// the values handed out earlier (and overwritten by the caller) keep the caller's content whatever happened to their source since
			for i, q := range held {
				k.checkHeld(w, q, heldWant[i], fmt.Sprintf("returned value %d after [%s]", i, desc), cas)
			}
			if !c.Thorough && len(h) > 3 && !hasM {
				cas["skip-pippenger"] = "yes" // quick: the 191-term consumer (which reads the same stored point as Point()) only after histories of length <= 3
			}
			for i, o := range objs {
				k.use(w, o, model[i], fmt.Sprintf("object #%d (model P%d) after [%s]", i, model[i], desc), cas)
			}
		})
		shared, stale, mut := histClasses(h)
		w.Eval(fmt.Sprintf("hist/%s/depth=%d", k.name, len(h)), mut)
		if shared {
			w.Eval("hist/"+k.name+"/copied-then-one-side-set", true)
		}
		if stale {
			w.Eval("hist/"+k.name+"/used-then-set", true)
		}
		if hasM {
			w.Eval("hist/"+k.name+"/returned-point-overwritten", true)
		}
		if idx%997 == 0 {
			w.Sample(cas)
		}
	})
}

func (s *space) elemByName(name string) int {
	for i, e := range s.elems {
		if e.Name == name {
			return i
		}
	}
	panic("c03: no alphabet element " + name)
}

func (s *space) scalarIndex(v *big.Int) int {
	for i, x := range s.full {
		if x.Cmp(v) == 0 {
			return i
		}
	}
	panic("c03: scalar not in the alphabet")
}

// histories is sub-space (vi): stateful precomputed objects.
func (s *space) histories(c *mc.Ctx) {
	depth := 4
	npts := c.Pick(2, 3)                                   // quick: two of the three points
	ai, bi := s.core[len(s.core)-1], s.core[len(s.core)-2] // generic core scalars (one reduced, one unreduced)
	a, b := s.scs[ai], s.scs[bi]
	oneIdx := s.scalarIndex(big.NewInt(1))
	oneSc := s.scs[oneIdx]
	bB := s.refMul(s.baseIdx, bi)
	refB := ref.Base

	type hp struct {
		e     int                 // element index
		P     *curve.EdwardsPoint // library point (one of the representations)
		aP    ref.Point           // [a]P
		libC  *curve.EdwardsPoint // C with [a]P + [b]B - C = O
		libC2 *curve.EdwardsPoint // C with [a]P + [b]B - C = -B (not in E[8])
		name  string
	}
	mk := func(names []string, reps []int) []hp {
		var out []hp
		for k, n := range names {
			e := s.elemByName(n)
			aP := s.refMul(e, ai)
			C := refgrp.Sum(aP, bB)
			out = append(out, hp{e: e, P: s.pts[e*ptalph.NumReps+reps[k]].P, aP: aP,
				libC: ptalph.Rep(c.Seed, C, (k+1)%ptalph.NumReps), libC2: ptalph.Rep(c.Seed, refgrp.Sum(C, refB), (k+2)%ptalph.NumReps),
				name: n + "/" + ptalph.RepName[reps[k]]})
		}
		return out
	}
	// three pairwise distinct elements whose differences are not torsion points (also distinct as ristretto elements in the second list)
	ePts := mk([]string{"[g0]B", "B+T1", "U0"}, []int{0, 4, 1})
	rPts := mk([]string{"[g0]B", "B+T4", "2U0"}, []int{2, 0, 4})

	// fixed dynamic companions: one term for the Straus branch, 190 terms (scalar 1) to force the Pippenger branch
	qE := s.pts[s.elemByName("[g1]B")*ptalph.NumReps+3]
	bQ := s.refMul(qE.e, bi)
	var dynE, dynR []*curve.EdwardsPoint
	var dynRR []*curve.RistrettoPoint
	var sumE, sumR []ref.Point
	var evens []int
	for i, p := range s.pts {
		if s.elems[p.e].In2E() {
			evens = append(evens, i)
		}
	}
	ones := make([]*scalar.Scalar, 190)
	for i := 0; i < 190; i++ {
		ones[i] = oneSc
		p := s.pts[(3+7*i)%len(s.pts)]
		dynE = append(dynE, p.P)
		sumE = append(sumE, s.elems[p.e].P)
		q := s.pts[evens[(3+7*i)%len(evens)]]
		dynR = append(dynR, q.P)
		dynRR = append(dynRR, rp(q.P))
		sumR = append(sumR, s.elems[q.e].P)
	}
	dE, dR := refgrp.Sum(sumE...), refgrp.Sum(sumR...)
	_ = dynR

	useE := func(pts []hp) func(w *mc.W, o interface{}, m int, where string, cas map[string]string) {
		return func(w *mc.W, o interface{}, m int, where string, cas map[string]string) {
			x := o.(*curve.ExpandedEdwardsPoint)
			P := pts[m]
			el := s.elems[P.e]
			d := func(op string) func() string {
				return func() string { return op + " on " + where + " (P" + fmt.Sprint(m) + " = " + P.name + ")" }
			}
			const K = "ExpandedEdwardsPoint/history/"
			checkPt(w, K+"Point", func() *curve.EdwardsPoint { return x.Point() }, el.P, d("Point()"), cas)
			checkPt(w, K+"SetExpanded", func() *curve.EdwardsPoint { return nr().SetExpanded(x) }, el.P, d("SetExpanded"), cas)
			checkPt(w, K+"ExpandedDoubleScalarMulBasepointVartime", func() *curve.EdwardsPoint { return nr().ExpandedDoubleScalarMulBasepointVartime(a, x, b) },
				refgrp.Sum(P.aP, bB), d("ExpandedDoubleScalarMulBasepointVartime"), cas)
			checkPt(w, K+"ExpandedMultiscalarMulVartime/straus", func() *curve.EdwardsPoint {
				return nr().ExpandedMultiscalarMulVartime([]*scalar.Scalar{a}, []*curve.ExpandedEdwardsPoint{x}, nil, nil)
			}, P.aP, d("ExpandedMultiscalarMulVartime(1 static)"), cas)
			checkPt(w, K+"ExpandedMultiscalarMulVartime/straus", func() *curve.EdwardsPoint {
				return nr().ExpandedMultiscalarMulVartime([]*scalar.Scalar{a}, []*curve.ExpandedEdwardsPoint{x}, []*scalar.Scalar{b}, []*curve.EdwardsPoint{qE.P})
			}, refgrp.Sum(P.aP, bQ), d("ExpandedMultiscalarMulVartime(1 static, 1 dynamic)"), cas)
			if cas["skip-pippenger"] == "" {
				checkPt(w, K+"ExpandedMultiscalarMulVartime/pippenger", func() *curve.EdwardsPoint {
					return nr().ExpandedMultiscalarMulVartime([]*scalar.Scalar{a}, []*curve.ExpandedEdwardsPoint{x}, ones, dynE)
				}, refgrp.Sum(P.aP, dE), d("ExpandedMultiscalarMulVartime(1 static, 190 dynamic)"), cas)
			}
			try(w, K+"ExpandedTripleScalarMulBasepointVartime", cas, func() {
				if !nr().ExpandedTripleScalarMulBasepointVartime(a, x, b, P.libC).IsSmallOrder() {
					w.Fail(K+"ExpandedTripleScalarMulBasepointVartime", d("ExpandedTripleScalarMulBasepointVartime with aP+bB-C = O: result not in E[8]")(), cas)
				}
				if nr().ExpandedTripleScalarMulBasepointVartime(a, x, b, P.libC2).IsSmallOrder() {
					w.Fail(K+"ExpandedTripleScalarMulBasepointVartime", d("ExpandedTripleScalarMulBasepointVartime with aP+bB-C = -B: result in E[8]")(), cas)
				}
			})
		}
	}
	// T11 helpers.  The point handed to New/Set is a private copy that the harness overwrites right after the call
	// (an object that kept a reference to its argument goes wrong in every later check); what Point()/Basepoint() hand
	// out is overwritten in place by MutateReturnedPoint in one of three ways.
	libB := s.pts[s.baseIdx*ptalph.NumReps].P
	scribble := func(arg *curve.EdwardsPoint) { arg.Add(arg, libB) }
	scribbleR := func(arg *curve.RistrettoPoint) { arg.Add(arg, rp(libB)) }
	mutE := func(q interface{}, how int, was ref.Point) ref.Point {
		pt := q.(*curve.EdwardsPoint)
		switch how % 3 {
		case 0:
			pt.Add(pt, libB)
			return refgrp.Sum(was, ref.Base)
		case 1:
			pt.Identity()
			return ref.Identity()
		}
		pt.Neg(pt)
		return was.Neg()
	}
	mutR := func(q interface{}, how int, was ref.Point) ref.Point {
		pt := q.(*curve.RistrettoPoint)
		switch how % 3 {
		case 0:
			pt.Add(pt, rp(libB))
			return refgrp.Sum(was, ref.Base)
		case 1:
			pt.Identity()
			return ref.Identity()
		}
		pt.Neg(pt)
		return was.Neg()
	}
	heldE := func(key string) func(w *mc.W, q interface{}, want ref.Point, where string, cas map[string]string) {
		return func(w *mc.W, q interface{}, want ref.Point, where string, cas map[string]string) {
			checkPt(w, key+"/history/returned-value", func() *curve.EdwardsPoint { return q.(*curve.EdwardsPoint) }, want, func() string { return where + ": a value handed out earlier and overwritten by the caller changed" }, cas)
		}
	}
	heldR := func(key string) func(w *mc.W, q interface{}, want ref.Point, where string, cas map[string]string) {
		return func(w *mc.W, q interface{}, want ref.Point, where string, cas map[string]string) {
			checkR(w, key+"/history/returned-value", func() *curve.RistrettoPoint { return q.(*curve.RistrettoPoint) }, want, func() string { return where + ": a value handed out earlier and overwritten by the caller changed" }, cas)
		}
	}
	pointE := func(m int) ref.Point { return s.elems[ePts[m].e].P }
	pointR := func(m int) ref.Point { return s.elems[rPts[m].e].P }

	kE := &histKind{name: "ExpandedEdwardsPoint", canSet: true,
		newObj: func(p int) interface{} {
			arg := cp(ePts[p].P)
			o := curve.NewExpandedEdwardsPoint(arg)
			scribble(arg)
			return o
		},
		set: func(o interface{}, p int) {
			// every Set on one object goes through the SAME caller-owned source variable, overwritten in place before
			// and scribbled over after the call (a caller that reuses one point variable for successive keys): a memo
			// keyed by the identity of the source pointer must not survive a change of its contents
			v, _ := setSources.LoadOrStore(o, new(curve.EdwardsPoint))
			arg := v.(*curve.EdwardsPoint)
			*arg = *cp(ePts[p].P)
			o.(*curve.ExpandedEdwardsPoint).SetEdwardsPoint(arg)
			scribble(arg)
		},
		get:       func(o interface{}) interface{} { return o.(*curve.ExpandedEdwardsPoint).Point() },
		mutate:    mutE,
		checkHeld: heldE("ExpandedEdwardsPoint"),
		point:     pointE,
		copyObj: func(o interface{}) interface{} {
			cpy := *o.(*curve.ExpandedEdwardsPoint)
			return &cpy
		},
		assign: func(dst, src interface{}) { *dst.(*curve.ExpandedEdwardsPoint) = *src.(*curve.ExpandedEdwardsPoint) },
		use:    useE(ePts),
	}
	s.runHistories(c, kE, depth, npts)

	kR := &histKind{name: "ExpandedRistrettoPoint", canSet: true,
		newObj: func(p int) interface{} {
			arg := rp(rPts[p].P)
			o := curve.NewExpandedRistrettoPoint(arg)
			scribbleR(arg)
			return o
		},
		set: func(o interface{}, p int) {
			v, _ := setSources.LoadOrStore(o, new(curve.RistrettoPoint))
			arg := v.(*curve.RistrettoPoint)
			*arg = *rp(rPts[p].P)
			o.(*curve.ExpandedRistrettoPoint).SetRistrettoPoint(arg)
			scribbleR(arg)
		},
		get:       func(o interface{}) interface{} { return o.(*curve.ExpandedRistrettoPoint).Point() },
		mutate:    mutR,
		checkHeld: heldR("ExpandedRistrettoPoint"),
		point:     pointR,
		copyObj: func(o interface{}) interface{} {
			cpy := *o.(*curve.ExpandedRistrettoPoint) //nolint:govet // by-value copy is the operation under test
			return &cpy
		},
		assign: func(dst, src interface{}) {
			*dst.(*curve.ExpandedRistrettoPoint) = *src.(*curve.ExpandedRistrettoPoint)
		}, //nolint:govet
		use: func(w *mc.W, o interface{}, m int, where string, cas map[string]string) {
			x := o.(*curve.ExpandedRistrettoPoint)
			P := rPts[m]
			el := s.elems[P.e]
			d := func(op string) func() string {
				return func() string { return op + " on " + where + " (P" + fmt.Sprint(m) + " = " + P.name + ")" }
			}
			const K = "ExpandedRistrettoPoint/history/"
			checkR(w, K+"Point", func() *curve.RistrettoPoint { return x.Point() }, el.P, d("Point()"), cas)
			checkR(w, K+"SetExpanded", func() *curve.RistrettoPoint { return nrr().SetExpanded(x) }, el.P, d("SetExpanded"), cas)
			checkR(w, K+"ExpandedDoubleScalarMulBasepointVartime", func() *curve.RistrettoPoint { return nrr().ExpandedDoubleScalarMulBasepointVartime(a, x, b) },
				refgrp.Sum(P.aP, bB), d("ristretto ExpandedDoubleScalarMulBasepointVartime"), cas)
			checkR(w, K+"ExpandedMultiscalarMulVartime/straus", func() *curve.RistrettoPoint {
				return nrr().ExpandedMultiscalarMulVartime([]*scalar.Scalar{a}, []*curve.ExpandedRistrettoPoint{x}, nil, nil)
			}, P.aP, d("ristretto ExpandedMultiscalarMulVartime(1 static)"), cas)
			if cas["skip-pippenger"] == "" {
				checkR(w, K+"ExpandedMultiscalarMulVartime/pippenger", func() *curve.RistrettoPoint {
					return nrr().ExpandedMultiscalarMulVartime([]*scalar.Scalar{a}, []*curve.ExpandedRistrettoPoint{x}, ones, dynRR)
				}, refgrp.Sum(P.aP, dR), d("ristretto ExpandedMultiscalarMulVartime(1 static, 190 dynamic)"), cas)
			}
			try(w, K+"ExpandedTripleScalarMulBasepointVartime", cas, func() {
				if !nrr().ExpandedTripleScalarMulBasepointVartime(a, x, b, rp(P.libC)).IsIdentity() {
					w.Fail(K+"ExpandedTripleScalarMulBasepointVartime", d("ristretto ExpandedTripleScalarMulBasepointVartime with aP+bB-C = O: result is not the identity")(), cas)
				}
				if nrr().ExpandedTripleScalarMulBasepointVartime(a, x, b, rp(P.libC2)).IsIdentity() {
					w.Fail(K+"ExpandedTripleScalarMulBasepointVartime", d("ristretto ExpandedTripleScalarMulBasepointVartime with aP+bB-C = -B: result is the identity")(), cas)
				}
			})
		},
	}
	s.runHistories(c, kR, depth, npts)

	// tables have no Set: New / Copy / Assign / Use only (one level deeper at the same cost)
	useTable := func(w *mc.W, key string, tbl *curve.EdwardsBasepointTable, P hp, where string, cas interface{}) {
		d := func(op string) func() string {
			return func() string { return op + " on " + where + " (" + P.name + ")" }
		}
		checkPt(w, key+"Basepoint", func() *curve.EdwardsPoint { return tbl.Basepoint() }, s.elems[P.e].P, d("Basepoint()"), cas)
		checkPt(w, key+"MulBasepoint", func() *curve.EdwardsPoint { return nr().MulBasepoint(tbl, a) }, P.aP, d("MulBasepoint(a)"), cas)
		checkPt(w, key+"MulBasepoint", func() *curve.EdwardsPoint { return nr().MulBasepoint(tbl, oneSc) }, s.elems[P.e].P, d("MulBasepoint(1)"), cas)
	}
	kT := &histKind{name: "EdwardsBasepointTable",
		newObj: func(p int) interface{} {
			arg := cp(ePts[p].P)
			o := curve.NewEdwardsBasepointTable(arg)
			scribble(arg)
			return o
		},
		get:       func(o interface{}) interface{} { return o.(*curve.EdwardsBasepointTable).Basepoint() },
		mutate:    mutE,
		checkHeld: heldE("EdwardsBasepointTable"),
		point:     pointE,
		copyObj: func(o interface{}) interface{} {
			cpy := *o.(*curve.EdwardsBasepointTable)
			return &cpy
		},
		assign: func(dst, src interface{}) { *dst.(*curve.EdwardsBasepointTable) = *src.(*curve.EdwardsBasepointTable) },
		use: func(w *mc.W, o interface{}, m int, where string, cas map[string]string) {
			useTable(w, "EdwardsBasepointTable/history/", o.(*curve.EdwardsBasepointTable), ePts[m], where, cas)
		},
	}
	s.runHistories(c, kT, depth+c.Pick(0, 1), npts)
	kRT := &histKind{name: "RistrettoBasepointTable",
		newObj: func(p int) interface{} {
			arg := rp(rPts[p].P)
			o := curve.NewRistrettoBasepointTable(arg)
			scribbleR(arg)
			return o
		},
		get:       func(o interface{}) interface{} { return o.(*curve.RistrettoBasepointTable).Basepoint() },
		mutate:    mutR,
		checkHeld: heldR("RistrettoBasepointTable"),
		point:     pointR,
		copyObj: func(o interface{}) interface{} {
			cpy := *o.(*curve.RistrettoBasepointTable)
			return &cpy
		},
		assign: func(dst, src interface{}) {
			*dst.(*curve.RistrettoBasepointTable) = *src.(*curve.RistrettoBasepointTable)
		},
		use: func(w *mc.W, o interface{}, m int, where string, cas map[string]string) {
			tbl := o.(*curve.RistrettoBasepointTable)
			P := rPts[m]
			d := func(op string) func() string {
				return func() string { return op + " on " + where + " (" + P.name + ")" }
			}
			const K = "RistrettoBasepointTable/history/"
			checkR(w, K+"Basepoint", func() *curve.RistrettoPoint { return tbl.Basepoint() }, s.elems[P.e].P, d("Basepoint()"), cas)
			checkR(w, K+"MulBasepoint", func() *curve.RistrettoPoint { return nrr().MulBasepoint(tbl, a) }, P.aP, d("ristretto MulBasepoint(a)"), cas)
		},
	}
	s.runHistories(c, kRT, depth+c.Pick(0, 1), npts)

	if c.Rep.NViolations > 0 {
		return
	}
	for _, k := range []string{"ExpandedEdwardsPoint", "ExpandedRistrettoPoint"} {
		c.Require("hist/"+k+"/copied-then-one-side-set", 20)
		c.Require("hist/"+k+"/used-then-set", 4)
		c.Require("hist/"+k+"/returned-point-overwritten", 100)
		c.Require(fmt.Sprintf("hist/%s/depth=%d", k, depth), 200)
	}
	for _, k := range []string{"EdwardsBasepointTable", "RistrettoBasepointTable"} {
		c.Require(fmt.Sprintf("hist/%s/depth=%d", k, depth+c.Pick(0, 1)), 50)
	}
}

// reuse: ONE ExpandedEdwardsPoint / ExpandedRistrettoPoint / EdwardsBasepointTable is used for the whole core scalar
// alphabet in a row (single goroutine); every result is compared and the object must be bit-identical after
// every call.  The scalars a include lattice-reduced d0 of both signs for the triple-base routine.
func (s *space) reuse(c *mc.Ctx) {
	names := []string{"[g0]B", "B+T1", "U0", "O", "T4", "[g0]B+T6", "2U0"}
	c.Par("reuse", len(names), func(w *mc.W, i int) {
		e := s.elemByName(names[i])
		p := s.pts[e*ptalph.NumReps+(i+1)%ptalph.NumReps]
		el := s.elems[e]
		cas := map[string]string{"point": el.Name + "/" + p.repName()}
		var x *curve.ExpandedEdwardsPoint
		var rx *curve.ExpandedRistrettoPoint
		var tb *curve.EdwardsBasepointTable
		if !try(w, "precomputation", cas, func() {
			x, tb = curve.NewExpandedEdwardsPoint(p.P), curve.NewEdwardsBasepointTable(p.P)
			if el.In2E() {
				rx = curve.NewExpandedRistrettoPoint(rp(p.P))
			}
		}) {
			return
		}
		for k, ai := range s.core {
			bi := s.core[(k+1)%len(s.core)]
			a, b := s.scs[ai], s.scs[bi]
			aP, bB := s.refMul(e, ai), s.refMul(s.baseIdx, bi)
			d := func(op string) func() string {
				return func() string {
					return fmt.Sprintf("%s, use %d of one object for %s (a=0x%x, b=0x%x)", op, k+1, cas["point"], s.full[ai], s.full[bi])
				}
			}
			in := []interface{}{a, b, x, tb}
			if rx != nil {
				in = append(in, rx)
			}
			unchanged(w, "reuse", d("precomputed object"), cas, in, func() {
				checkPt(w, "EdwardsPoint.ExpandedDoubleScalarMulBasepointVartime/reuse", func() *curve.EdwardsPoint { return nr().ExpandedDoubleScalarMulBasepointVartime(a, x, b) }, refgrp.Sum(aP, bB), d("ExpandedDoubleScalarMulBasepointVartime"), cas)
				checkPt(w, "EdwardsPoint.ExpandedMultiscalarMulVartime/reuse", func() *curve.EdwardsPoint {
					return nr().ExpandedMultiscalarMulVartime([]*scalar.Scalar{a, b}, []*curve.ExpandedEdwardsPoint{x, x}, nil, nil)
				}, refgrp.Sum(aP, s.refMul(e, bi)), d("ExpandedMultiscalarMulVartime(static = {x, x})"), cas)
				checkPt(w, "EdwardsPoint.MulBasepoint/reuse", func() *curve.EdwardsPoint { return nr().MulBasepoint(tb, a) }, aP, d("MulBasepoint"), cas)
				C := ptalph.Rep(c.Seed, refgrp.Sum(aP, bB), k%ptalph.NumReps)
				try(w, "EdwardsPoint.ExpandedTripleScalarMulBasepointVartime/reuse", cas, func() {
					if !nr().ExpandedTripleScalarMulBasepointVartime(a, x, b, C).IsSmallOrder() {
						w.Fail("EdwardsPoint.ExpandedTripleScalarMulBasepointVartime/reuse", d("ExpandedTripleScalarMulBasepointVartime with aP+bB-C = O: result not in E[8]")(), cas)
					}
				})
				if rx != nil {
					checkR(w, "RistrettoPoint.ExpandedDoubleScalarMulBasepointVartime/reuse", func() *curve.RistrettoPoint { return nrr().ExpandedDoubleScalarMulBasepointVartime(a, rx, b) }, refgrp.Sum(aP, bB), d("ristretto ExpandedDoubleScalarMulBasepointVartime"), cas)
					try(w, "RistrettoPoint.ExpandedTripleScalarMulBasepointVartime/reuse", cas, func() {
						if !nrr().ExpandedTripleScalarMulBasepointVartime(a, rx, b, rp(C)).IsIdentity() {
							w.Fail("RistrettoPoint.ExpandedTripleScalarMulBasepointVartime/reuse", d("ristretto ExpandedTripleScalarMulBasepointVartime with aP+bB-C = O: result is not the identity")(), cas)
						}
					})
				}
			})
			w.Eval("reuse/"+el.Name, true)
		}
	})
}
