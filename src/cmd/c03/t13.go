package main

import (
	"bytes"
	"fmt"
	"math/big"

	"github.com/oasisprotocol/curve25519-voi/curve"
	"github.com/oasisprotocol/curve25519-voi/internal/verif/mc"
	"github.com/oasisprotocol/curve25519-voi/internal/verif/ptalph"
	"github.com/oasisprotocol/curve25519-voi/internal/verif/ref"
	"github.com/oasisprotocol/curve25519-voi/internal/verif/ref/refgrp"
)

// T13: representation-level special values.  Every alphabet element in projective representations in which ONE
// internal coordinate takes a special value although the point is ordinary: Y = 1 (scaled by 1/y), X = 1 (scaled by
// 1/x), Z = y (scaled by y, so Y = y^2 ... Z = Y only for the identity class is therefore distinguishable), Z = x.
// A fast path that tests a raw coordinate instead of the affine value answers differently for these.
func (s *space) specialReps(c *mc.Ctx) {
	type sp struct {
		e    int
		kind string
		P    *curve.EdwardsPoint
	}
	var pts []sp
	var buildErr interface{}
	func() {
		defer func() { buildErr = recover() }()
		for e, el := range s.elems {
			x, y := ref.FMod(el.P.X), ref.FMod(el.P.Y)
			base := ptalph.Decode(el.Enc)
			add := func(kind string, lam *big.Int) {
				if lam.Sign() != 0 {
					pts = append(pts, sp{e, kind, curve.VerifRescale(base, ref.LE32(lam))})
				}
			}
			add("Y=1 (scaled by 1/y)", ref.FInv(y))
			add("X=1 (scaled by 1/x)", ref.FInv(x))
			add("Z=y (scaled by y)", y)
			add("Z=x (scaled by x)", x)
			add("Z=-1/y, Y=-1", ref.FNeg(ref.FInv(y)))
		}
	}()
	if buildErr != nil {
		c.Seq("special-representations-setup", 1, func(w *mc.W, i int) {
			w.Fail("special-representations/panic", fmt.Sprintf("building rescaled representations failed in the library: %v", buildErr), nil)
		})
		return
	}
	// three scalars: small, generic reduced, >= 2^254
	var sis []int
	for _, v := range []*big.Int{big.NewInt(1), big.NewInt(8)} {
		sis = append(sis, s.scalarIndex(v))
	}
	sis = append(sis, s.core[len(s.core)-2], s.scalarIndex(two255m1), s.scalarIndex(new(big.Int).Lsh(big.NewInt(1), 254)))
	libB := s.pts[s.baseIdx*ptalph.NumReps].P
	c.Par("special-representations", len(pts), func(w *mc.W, i int) {
		p := pts[i]
		el := s.elems[p.e]
		name := el.Name + "/" + p.kind
		cas := map[string]string{"point": name, "enc": hx(el.Enc)}
		d := func(op string) func() string { return func() string { return op + "(" + name + ")" } }
		checkPt(w, "EdwardsPoint.MarshalBinary/special-representation", func() *curve.EdwardsPoint { return p.P }, el.P, d("encode"), cas)
		cof := el.P.MulCofactor()
		try(w, "EdwardsPoint.predicates/special-representation", cas, func() {
			if got, want := p.P.IsIdentity(), el.IsIdentity(); got != want {
				w.Fail("EdwardsPoint.IsIdentity/special-representation", fmt.Sprintf("IsIdentity(%s)=%v", name, got), cas)
			}
			if got, want := p.P.IsSmallOrder(), cof.IsIdentity(); got != want {
				w.Fail("EdwardsPoint.IsSmallOrder/special-representation", fmt.Sprintf("IsSmallOrder(%s)=%v", name, got), cas)
			}
			if got, want := p.P.IsTorsionFree(), !s.tors[p.e]; got != want {
				w.Fail("EdwardsPoint.IsTorsionFree/special-representation", fmt.Sprintf("IsTorsionFree(%s)=%v", name, got), cas)
			}
			if p.P.Equal(ptalph.Decode(el.Enc)) != 1 || ptalph.Decode(el.Enc).Equal(p.P) != 1 {
				w.Fail("EdwardsPoint.Equal/special-representation", fmt.Sprintf("Equal(%s, affine form) = 0", name), cas)
			}
			if got, want := p.P.Equal(libB) == 1, el.Name == "B"; got != want {
				w.Fail("EdwardsPoint.Equal/special-representation", fmt.Sprintf("Equal(%s, B) = %v", name, got), cas)
			}
			var cy curve.CompressedEdwardsY
			cy.SetEdwardsPoint(p.P)
			if !bytes.Equal(cy[:], el.Enc) {
				w.Fail("CompressedEdwardsY.SetEdwardsPoint/special-representation", d("compress")(), cas)
			}
			{ // documented: the identity maps to u = 0, which is what (1+y)/(1-y) gives with 1/0 = 0
				var mp curve.MontgomeryPoint
				mp.SetEdwards(p.P)
				if want := ref.LE32(el.P.ToMontgomeryU()); !bytes.Equal(mp[:], want) {
					w.Fail("MontgomeryPoint.SetEdwards/special-representation", fmt.Sprintf("SetEdwards(%s) = %x want %x", name, mp[:], want), cas)
				}
			}
		})
		checkPt(w, "EdwardsPoint.Neg/special-representation", func() *curve.EdwardsPoint { return nr().Neg(p.P) }, el.P.Neg(), d("Neg"), cas)
		checkPt(w, "EdwardsPoint.Add/special-representation", func() *curve.EdwardsPoint { return nr().Add(p.P, libB) }, refgrp.Sum(el.P, ref.Base), d("Add(.,B)"), cas)
		checkPt(w, "EdwardsPoint.Add/special-representation", func() *curve.EdwardsPoint { return nr().Add(libB, p.P) }, refgrp.Sum(el.P, ref.Base), d("Add(B,.)"), cas)
		checkPt(w, "EdwardsPoint.Add/special-representation", func() *curve.EdwardsPoint { return nr().Add(p.P, p.P) }, refgrp.Sum(el.P, el.P), d("Add(p,p)"), cas)
		checkPt(w, "EdwardsPoint.Sub/special-representation", func() *curve.EdwardsPoint { return nr().Sub(libB, p.P) }, refgrp.Sum(ref.Base, el.P.Neg()), d("Sub(B,.)"), cas)
		checkPt(w, "EdwardsPoint.MulByCofactor/special-representation", func() *curve.EdwardsPoint { return nr().MulByCofactor(p.P) }, cof, d("MulByCofactor"), cas)
		for k, si := range sis {
			sc, bi := s.scs[si], sis[(k+1)%len(sis)]
			want := s.refMul(p.e, si)
			dd := func(op string) func() string {
				return func() string { return fmt.Sprintf("%s(%s, 0x%x)", op, name, s.full[si]) }
			}
			checkPt(w, "EdwardsPoint.Mul/special-representation", func() *curve.EdwardsPoint { return nr().Mul(p.P, sc) }, want, dd("Mul"), cas)
			checkPt(w, "EdwardsPoint.MulBasepoint/special-representation", func() *curve.EdwardsPoint { return nr().MulBasepoint(curve.NewEdwardsBasepointTable(p.P), sc) }, want, dd("MulBasepoint(NewEdwardsBasepointTable"), cas)
			w2 := refgrp.Sum(want, s.refMul(s.baseIdx, bi))
			checkPt(w, "EdwardsPoint.DoubleScalarMulBasepointVartime/special-representation", func() *curve.EdwardsPoint { return nr().DoubleScalarMulBasepointVartime(sc, p.P, s.scs[bi]) }, w2, dd("DoubleScalarMulBasepointVartime"), cas)
			checkPt(w, "EdwardsPoint.ExpandedDoubleScalarMulBasepointVartime/special-representation", func() *curve.EdwardsPoint {
				return nr().ExpandedDoubleScalarMulBasepointVartime(sc, curve.NewExpandedEdwardsPoint(p.P), s.scs[bi])
			}, w2, dd("ExpandedDoubleScalarMulBasepointVartime"), cas)
			checkPt(w, "EdwardsPoint.MultiscalarMul/special-representation", func() *curve.EdwardsPoint {
				return nr().MultiscalarMul(s.scs[si:si+1], []*curve.EdwardsPoint{p.P})
			}, want, dd("MultiscalarMul"), cas)
			checkPt(w, "EdwardsPoint.MultiscalarMulVartime/special-representation", func() *curve.EdwardsPoint {
				return nr().MultiscalarMulVartime(s.scs[si:si+1], []*curve.EdwardsPoint{p.P})
			}, want, dd("MultiscalarMulVartime"), cas)
			if el.In2E() {
				checkR(w, "RistrettoPoint.Mul/special-representation", func() *curve.RistrettoPoint { return nrr().Mul(rp(p.P), sc) }, want, dd("ristretto Mul"), cas)
			}
		}
		if el.In2E() {
			checkR(w, "RistrettoPoint.MarshalBinary/special-representation", func() *curve.RistrettoPoint { return rp(p.P) }, el.P, d("ristretto encode"), cas)
			try(w, "RistrettoPoint.Equal/special-representation", cas, func() {
				if rp(p.P).Equal(rp(ptalph.Decode(el.Enc))) != 1 {
					w.Fail("RistrettoPoint.Equal/special-representation", fmt.Sprintf("ristretto Equal(%s, affine form) = 0", name), cas)
				}
				if got, want := rp(p.P).IsIdentity(), ref.RistrettoEqual(el.P, ref.Identity()); got != want {
					w.Fail("RistrettoPoint.IsIdentity/special-representation", fmt.Sprintf("ristretto IsIdentity(%s) = %v", name, got), cas)
				}
			})
		}
		w.Eval("special-representations/"+p.kind, true)
	})
}
