package main

import (
	"bytes"
	"fmt"
	"math/big"

	"github.com/oasisprotocol/curve25519-voi/curve"
	"github.com/oasisprotocol/curve25519-voi/curve/scalar"
	"github.com/oasisprotocol/curve25519-voi/internal/verif/mc"
	"github.com/oasisprotocol/curve25519-voi/internal/verif/ptalph"
	"github.com/oasisprotocol/curve25519-voi/internal/verif/ref"
)

// T11: memory the library hands out.  Exported functions of package curve that return a pointer or a slice which is
// not the receiver: ExpandedEdwardsPoint.Point, ExpandedRistrettoPoint.Point, EdwardsBasepointTable.Basepoint,
// RistrettoBasepointTable.Basepoint (histories, hist.go) and the four MarshalBinary.  Here: the package-level values.
//
// returnedMemory overwrites everything the exported package-level objects hand out and then observes every
// exported package-level value again through all its readers.  Single goroutine, and the LAST sub-space of the
// run: on a tree that hands out shared memory the overwrites corrupt process-wide state.
func (s *space) returnedMemory(c *mc.Ctx) {
	bEnc := ref.Base.Encode()
	bREnc := ref.RistrettoEncode(ref.Base)
	sv := s.full[s.core[len(s.core)-1]]
	sc := s.scs[s.core[len(s.core)-1]]
	sB := s.refMul(s.baseIdx, s.core[len(s.core)-1])
	zero := ptalph.Sc(big.NewInt(0))
	observe := func(w *mc.W, after string) {
		cas := map[string]string{"after": after}
		d := func(what string) func() string { return func() string { return what + " after " + after } }
		checkPt(w, "package-level/ED25519_BASEPOINT_POINT", func() *curve.EdwardsPoint { return curve.ED25519_BASEPOINT_POINT }, ref.Base, d("ED25519_BASEPOINT_POINT"), cas)
		checkR(w, "package-level/RISTRETTO_BASEPOINT_POINT", func() *curve.RistrettoPoint { return curve.RISTRETTO_BASEPOINT_POINT }, ref.Base, d("RISTRETTO_BASEPOINT_POINT"), cas)
		checkPt(w, "package-level/ED25519_BASEPOINT_TABLE", func() *curve.EdwardsPoint { return curve.ED25519_BASEPOINT_TABLE.Basepoint() }, ref.Base, d("ED25519_BASEPOINT_TABLE.Basepoint()"), cas)
		checkR(w, "package-level/RISTRETTO_BASEPOINT_TABLE", func() *curve.RistrettoPoint { return curve.RISTRETTO_BASEPOINT_TABLE.Basepoint() }, ref.Base, d("RISTRETTO_BASEPOINT_TABLE.Basepoint()"), cas)
		checkPt(w, "package-level/ED25519_BASEPOINT_TABLE", func() *curve.EdwardsPoint { return nr().MulBasepoint(curve.ED25519_BASEPOINT_TABLE, sc) }, sB, d(fmt.Sprintf("MulBasepoint(ED25519_BASEPOINT_TABLE, 0x%x)", sv)), cas)
		checkR(w, "package-level/RISTRETTO_BASEPOINT_TABLE", func() *curve.RistrettoPoint { return nrr().MulBasepoint(curve.RISTRETTO_BASEPOINT_TABLE, sc) }, sB, d("ristretto MulBasepoint(RISTRETTO_BASEPOINT_TABLE)"), cas)
		checkPt(w, "package-level/basepoint-NAF-table", func() *curve.EdwardsPoint {
			return nr().DoubleScalarMulBasepointVartime(zero, curve.ED25519_BASEPOINT_POINT, sc)
		}, sB, d("DoubleScalarMulBasepointVartime(0, B, s)"), cas)
		checkPt(w, "package-level/ED25519_BASEPOINT_POINT", func() *curve.EdwardsPoint { return nr().Mul(curve.ED25519_BASEPOINT_POINT, sc) }, sB, d("Mul(ED25519_BASEPOINT_POINT, s)"), cas)
		try(w, "package-level/compressed", cas, func() {
			if !bytes.Equal(curve.ED25519_BASEPOINT_COMPRESSED[:], bEnc) {
				w.Fail("package-level/ED25519_BASEPOINT_COMPRESSED", d("ED25519_BASEPOINT_COMPRESSED")()+fmt.Sprintf(": %x", curve.ED25519_BASEPOINT_COMPRESSED[:]), cas)
			}
			if !bytes.Equal(curve.RISTRETTO_BASEPOINT_COMPRESSED[:], bREnc) {
				w.Fail("package-level/RISTRETTO_BASEPOINT_COMPRESSED", d("RISTRETTO_BASEPOINT_COMPRESSED")()+fmt.Sprintf(": %x", curve.RISTRETTO_BASEPOINT_COMPRESSED[:]), cas)
			}
			var ob [32]byte
			_ = scalar.BASEPOINT_ORDER.ToBytes(ob[:])
			if ref.FromLE(ob[:]).Cmp(ref.L) != 0 {
				w.Fail("package-level/BASEPOINT_ORDER", d("scalar.BASEPOINT_ORDER")(), cas)
			}
		})
	}
	libB := func() *curve.EdwardsPoint { return ptalph.Decode(bEnc) }
	fill := func(b []byte) {
		for i := range b {
			b[i] = 0xff
		}
	}
	steps := []struct {
		name string
		f    func()
	}{
		{"nothing (baseline)", func() {}},
		{"q := ED25519_BASEPOINT_TABLE.Basepoint(); q.Add(q, B)", func() { q := curve.ED25519_BASEPOINT_TABLE.Basepoint(); q.Add(q, libB()) }},
		{"q := ED25519_BASEPOINT_TABLE.Basepoint(); q.Identity()", func() { curve.ED25519_BASEPOINT_TABLE.Basepoint().Identity() }},
		{"q := RISTRETTO_BASEPOINT_TABLE.Basepoint(); q.Add(q, q)", func() { q := curve.RISTRETTO_BASEPOINT_TABLE.Basepoint(); q.Add(q, q) }},
		{"q := RISTRETTO_BASEPOINT_TABLE.Basepoint(); q.Identity()", func() { curve.RISTRETTO_BASEPOINT_TABLE.Basepoint().Identity() }},
		{"q := RISTRETTO_BASEPOINT_TABLE.Basepoint(); q.Neg(q)", func() { q := curve.RISTRETTO_BASEPOINT_TABLE.Basepoint(); q.Neg(q) }},
		{"by-value copy of ED25519_BASEPOINT_TABLE; q := copy.Basepoint(); q.Neg(q)", func() { t := *curve.ED25519_BASEPOINT_TABLE; q := t.Basepoint(); q.Neg(q) }},
		{"by-value copy of RISTRETTO_BASEPOINT_TABLE; q := copy.Basepoint(); q.Add(q, q)", func() { t := *curve.RISTRETTO_BASEPOINT_TABLE; q := t.Basepoint(); q.Add(q, q) }},
		{"b := ED25519_BASEPOINT_POINT.MarshalBinary(); fill(b, 0xff)", func() { b, _ := curve.ED25519_BASEPOINT_POINT.MarshalBinary(); fill(b) }},
		{"b := RISTRETTO_BASEPOINT_POINT.MarshalBinary(); fill(b, 0xff)", func() { b, _ := curve.RISTRETTO_BASEPOINT_POINT.MarshalBinary(); fill(b) }},
		{"b := ED25519_BASEPOINT_COMPRESSED.MarshalBinary(); fill(b, 0xff)", func() { b, _ := curve.ED25519_BASEPOINT_COMPRESSED.MarshalBinary(); fill(b) }},
		{"b := RISTRETTO_BASEPOINT_COMPRESSED.MarshalBinary(); fill(b, 0xff)", func() { b, _ := curve.RISTRETTO_BASEPOINT_COMPRESSED.MarshalBinary(); fill(b) }},
		{"x := NewExpandedEdwardsPoint(ED25519_BASEPOINT_POINT); q := x.Point(); q.Identity()", func() { curve.NewExpandedEdwardsPoint(curve.ED25519_BASEPOINT_POINT).Point().Identity() }},
		{"x := NewExpandedRistrettoPoint(RISTRETTO_BASEPOINT_POINT); q := x.Point(); q.Identity()", func() { curve.NewExpandedRistrettoPoint(curve.RISTRETTO_BASEPOINT_POINT).Point().Identity() }},
		{"t := NewEdwardsBasepointTable(ED25519_BASEPOINT_POINT); q := t.Basepoint(); q.Identity()", func() { curve.NewEdwardsBasepointTable(curve.ED25519_BASEPOINT_POINT).Basepoint().Identity() }},
		{"t := NewRistrettoBasepointTable(RISTRETTO_BASEPOINT_POINT); q := t.Basepoint(); q.Identity()", func() { curve.NewRistrettoBasepointTable(curve.RISTRETTO_BASEPOINT_POINT).Basepoint().Identity() }},
		{"p := NewEdwardsPoint().Set(ED25519_BASEPOINT_POINT); p.Identity()", func() { curve.NewEdwardsPoint().Set(curve.ED25519_BASEPOINT_POINT).Identity() }},
		{"p := NewRistrettoPoint().Set(RISTRETTO_BASEPOINT_POINT); p.Identity()", func() { curve.NewRistrettoPoint().Set(curve.RISTRETTO_BASEPOINT_POINT).Identity() }},
	}
	// every step is a prefix history: replaying index i performs steps 0..i (the state is process-wide)
	c.Seq("returned-memory", len(steps), func(w *mc.W, i int) {
		lo := i
		if c.Replaying() {
			lo = 0
		}
		for k := lo; k <= i; k++ {
			try(w, "package-level/"+steps[k].name, nil, steps[k].f)
		}
		observe(w, steps[i].name)
		w.Eval("returned-memory/package-level", i > 0)
	})
}

// marshalOverwrite (per alphabet point, called from sub-space reps): the slices MarshalBinary hands out are overwritten,
// the source must not notice; and the source is changed, the slice handed out earlier must not notice.
func (s *space) marshalOverwrite(w *mc.W, p *lpt, cas interface{}) {
	el := s.elems[p.e]
	d := func(op string) func() string {
		return func() string { return op + " (" + el.Name + "/" + p.repName() + ")" }
	}
	try(w, "MarshalBinary/returned-slice", cas, func() {
		q := cp(p.P)
		b1, _ := q.MarshalBinary()
		keep := append([]byte{}, b1...)
		for i := range b1 {
			b1[i] = 0xff
		}
		checkPt(w, "EdwardsPoint.MarshalBinary/returned-slice", func() *curve.EdwardsPoint { return q }, el.P, d("point after its MarshalBinary() result was filled with 0xff"), cas)
		b2, _ := q.MarshalBinary()
		q.Add(q, q)
		if !bytes.Equal(b2, keep) {
			w.Fail("EdwardsPoint.MarshalBinary/returned-slice", d("the slice returned by MarshalBinary changed when the point was modified")(), cas)
		}
		var cy curve.CompressedEdwardsY
		cy.SetEdwardsPoint(p.P)
		b3, _ := cy.MarshalBinary()
		for i := range b3 {
			b3[i] = 0xff
		}
		if !bytes.Equal(cy[:], el.Enc) {
			w.Fail("CompressedEdwardsY.MarshalBinary/returned-slice", d("CompressedEdwardsY changed after its MarshalBinary() result was filled with 0xff")(), cas)
		}
		b4, _ := cy.MarshalBinary()
		cy.Identity()
		if !bytes.Equal(b4, el.Enc) {
			w.Fail("CompressedEdwardsY.MarshalBinary/returned-slice", d("the slice returned by CompressedEdwardsY.MarshalBinary changed when the value was modified")(), cas)
		}
		if el.In2E() {
			r := rp(p.P)
			renc := ref.RistrettoEncode(el.P)
			b5, _ := r.MarshalBinary()
			for i := range b5 {
				b5[i] = 0xff
			}
			checkR(w, "RistrettoPoint.MarshalBinary/returned-slice", func() *curve.RistrettoPoint { return r }, el.P, d("ristretto point after its MarshalBinary() result was filled with 0xff"), cas)
			var cr curve.CompressedRistretto
			cr.SetRistrettoPoint(r)
			b6, _ := cr.MarshalBinary()
			for i := range b6 {
				b6[i] = 0xff
			}
			if !bytes.Equal(cr[:], renc) {
				w.Fail("CompressedRistretto.MarshalBinary/returned-slice", d("CompressedRistretto changed after its MarshalBinary() result was filled with 0xff")(), cas)
			}
			b7, _ := cr.MarshalBinary()
			cr.Identity()
			if !bytes.Equal(b7, renc) {
				w.Fail("CompressedRistretto.MarshalBinary/returned-slice", d("the slice returned by CompressedRistretto.MarshalBinary changed when the value was modified")(), cas)
			}
		}
	})
}
