// C06: all arithmetic backends are observationally identical.  This binary
// runs a deterministic workload that calls every exported operation of every
// public package on the shared alphabets and writes one digest line per
// (operation, case); the driver requires the four configurations' digest
// streams to be identical line by line.  No oracle is needed here
// (differential); every other check runs its reference oracle in all four
// configurations as well, so a common error is not masked.
package main

import (
	"bytes"
	"crypto"
	"crypto/sha256"
	"crypto/sha512"
	"encoding/binary"
	"flag"
	"fmt"
	"math/big"
	"os"
	"strings"

	"golang.org/x/crypto/sha3"

	"github.com/oasisprotocol/curve25519-voi/curve"
	"github.com/oasisprotocol/curve25519-voi/curve/scalar"
	"github.com/oasisprotocol/curve25519-voi/internal/strobe"
	"github.com/oasisprotocol/curve25519-voi/internal/verif/alph"
	"github.com/oasisprotocol/curve25519-voi/internal/verif/alph/alphed"
	"github.com/oasisprotocol/curve25519-voi/internal/verif/mc"
	"github.com/oasisprotocol/curve25519-voi/internal/verif/ref"
	"github.com/oasisprotocol/curve25519-voi/primitives/ed25519"
	"github.com/oasisprotocol/curve25519-voi/primitives/ed25519/extra/cache"
	"github.com/oasisprotocol/curve25519-voi/primitives/ed25519/extra/ecvrf"
	"github.com/oasisprotocol/curve25519-voi/primitives/h2c"
	"github.com/oasisprotocol/curve25519-voi/primitives/merlin"
	"github.com/oasisprotocol/curve25519-voi/primitives/sr25519"
	"github.com/oasisprotocol/curve25519-voi/primitives/x25519"
)

var digestOut = flag.String("digests", "", "file receiving the digest stream")

func main() { mc.Main("C06", run) }

var lines []string

// space runs n cases of one operation family in parallel and appends their digest lines in index order.
func space(c *mc.Ctx, op string, n int, f func(i int) string) {
	out := make([]string, n)
	c.Par(op, n, func(w *mc.W, i int) {
		defer func() {
			if r := recover(); r != nil {
				out[i] = "PANIC" // compared as a condition, not as text
			}
		}()
		out[i] = f(i)
		if !secondPass {
			w.Eval(op, true)
		}
		if i == 0 {
			w.Sample(map[string]string{"operation": op, "case": "0", "digest": dg(out[i])})
		}
	})
	for i, o := range out {
		lines = append(lines, fmt.Sprintf("%s|%d|%s", op, i, dg(o)))
	}
}

func dg(s string) string {
	h := sha256.Sum256([]byte(s))
	return fmt.Sprintf("%x", h[:10])
}

func hx(parts ...interface{}) string {
	var b strings.Builder
	for _, p := range parts {
		switch v := p.(type) {
		case []byte:
			fmt.Fprintf(&b, "%x;", v)
		case error:
			fmt.Fprintf(&b, "err=%v;", v != nil) // condition only: message text may name the backend
		case nil:
			b.WriteString("nil;")
		default:
			fmt.Fprintf(&b, "%v;", v)
		}
	}
	return b.String()
}

func errOf(e error) string { return fmt.Sprintf("err=%v;", e != nil) }

func sc(v *big.Int) *scalar.Scalar {
	s, _ := scalar.NewFromBits(ref.LE32(v))
	return s
}
func sb(s *scalar.Scalar) []byte { b, _ := s.MarshalBinary(); return b }
func eb(p *curve.EdwardsPoint) []byte {
	b, _ := p.MarshalBinary()
	return b
}
func rb(p *curve.RistrettoPoint) []byte {
	b, _ := p.MarshalBinary()
	return b
}

type zr struct{ b byte }

func (z zr) Read(p []byte) (int, error) {
	for i := range p {
		p[i] = z.b
	}
	return len(p), nil
}

// run executes the workload TWICE in one process: the second pass must reproduce every digest of the first.  A
// result that depends on what the process did before (a cache keyed by too little, a pooled scratch object, a lazily
// built table) shows up as a difference between the passes even when all four backends agree with each other.
func run(c *mc.Ctx) {
	workload(c)
	if c.Replaying() {
		return
	}
	first := lines
	lines = nil
	secondPass = true
	workload(c)
	second := lines
	lines = first
	if len(first) != len(second) {
		c.Broken("second workload pass produced a different number of digest lines")
		return
	}
	c.Seq("second-pass", 1, func(w *mc.W, _ int) {
		seen := map[string]bool{}
		for i := range first {
			if first[i] != second[i] {
				op := strings.SplitN(first[i], "|", 2)[0]
				if !seen[op] {
					seen[op] = true
					w.Fail("history-dependent-result/"+op, fmt.Sprintf("the same call gave different results in two passes of one process: %s vs %s", first[i], second[i]), nil)
				}
			}
		}
		w.Eval("second-pass", true)
	})
	if *digestOut != "" {
		if err := os.WriteFile(*digestOut, []byte(strings.Join(lines, "\n")+"\n"), 0o644); err != nil {
			c.Broken("cannot write digest stream: " + err.Error())
		}
	}
	c.Rep.Extra["digest_lines"] = len(lines)
}

var secondPass bool

func workload(c *mc.Ctx) {
	// ---- cold start: the accessors of the package-level objects, evaluated BEFORE anything else in this process has
	// used the library (first pass; the second pass repeats them warm and the two passes must agree).  A table that is
	// filled lazily by the first multiplication, but handed out by an accessor that forgets to fill it, shows only here.
	space(c, "cold-start/package-level accessors", 4, func(i int) string {
		switch i {
		case 0:
			return hx(eb(curve.ED25519_BASEPOINT_TABLE.Basepoint()))
		case 1:
			return hx(rb(curve.RISTRETTO_BASEPOINT_TABLE.Basepoint()))
		case 2:
			return hx(eb(curve.ED25519_BASEPOINT_POINT), curve.ED25519_BASEPOINT_COMPRESSED[:], rb(curve.RISTRETTO_BASEPOINT_POINT), curve.RISTRETTO_BASEPOINT_COMPRESSED[:], curve.X25519_BASEPOINT[:])
		default:
			o := ""
			for _, t := range curve.EIGHT_TORSION {
				o += hx(eb(t))
			}
			return o
		}
	})
	S := alph.Scalars(c.Seed, true)
	if c.Thorough {
		S = alph.Scalars(c.Seed, false)[:300]
	}
	nS := len(S)
	// points: identity, B, multiples, torsion, mixed order, decoded generic
	var P []*curve.EdwardsPoint
	P = append(P, curve.NewEdwardsPoint().Identity(), curve.ED25519_BASEPOINT_POINT)
	for i := 0; i < 6; i++ {
		P = append(P, curve.NewEdwardsPoint().Mul(curve.ED25519_BASEPOINT_POINT, sc(S[(7*i+3)%nS])))
	}
	for _, t := range curve.EIGHT_TORSION {
		P = append(P, t)
	}
	for i := 0; i < 8; i++ {
		P = append(P, curve.NewEdwardsPoint().Add(P[2+i%6], curve.EIGHT_TORSION[i]))
	}
	for i := 0; len(P) < 32 && i < 4096; i++ { // (bounded: a decoder that rejects everything must not make the harness spin)
		var cp curve.CompressedEdwardsY
		copy(cp[:], mc.Bytes(c.Seed, "c06pt", i, 32))
		if p, err := curve.NewEdwardsPoint().SetCompressedY(&cp); err == nil {
			P = append(P, p)
		}
	}
	for i := 0; len(P) < 32; i++ { // not enough decodable strings (the backends then differ in P, which the digests show)
		P = append(P, curve.NewEdwardsPoint().Add(P[2+i%6], P[3+i%5]))
	}
	nP := len(P)
	var R []*curve.RistrettoPoint
	for i := 0; i < 12; i++ {
		R = append(R, curve.NewRistrettoPoint().Mul(curve.RISTRETTO_BASEPOINT_POINT, sc(S[(5*i)%nS])))
	}
	nR := len(R)
	// 32-byte strings for decoders
	var E [][]byte
	for _, v := range alph.Wide(c.Seed, 256, true) {
		E = append(E, ref.LE32(v))
	}
	for _, p := range P {
		E = append(E, eb(p))
	}
	for _, r := range R {
		E = append(E, rb(r))
	}
	nE := len(E)

	// ---- curve/scalar ----
	space(c, "scalar.Add/Sub/Mul", nS*nS, func(i int) string {
		a, b := sc(S[i/nS]), sc(S[i%nS])
		return hx(sb(scalar.New().Add(a, b)), sb(scalar.New().Sub(a, b)), sb(scalar.New().Mul(a, b)), a.Equal(b))
	})
	space(c, "scalar.unary", nS, func(i int) string {
		a := sc(S[i])
		inv := scalar.New()
		if ref.SMod(S[i]).Sign() != 0 {
			inv.Invert(a)
		}
		r16 := a.ToRadix16()
		bits := a.Bits()
		o := hx(sb(scalar.New().Neg(a)), sb(scalar.New().Reduce(a)), sb(inv), a.IsCanonical(), fmt.Sprint(r16), fmt.Sprint(bits))
		for w := uint(2); w <= 8; w++ {
			o += fmt.Sprint(a.NonAdjacentForm(w))
		}
		for w := uint(6); w <= 8; w++ {
			o += fmt.Sprint(a.ToRadix2w(w), scalar.ToRadix2wSizeHint(w))
		}
		return o
	})
	space(c, "scalar.decode", nE, func(i int) string {
		b := E[i]
		s1, e1 := scalar.NewFromCanonicalBytes(b)
		s2, e2 := scalar.NewFromBytesModOrder(b)
		s3, e3 := scalar.NewFromBits(b)
		w := append(append([]byte{}, b...), E[(i*7+1)%nE]...)
		s4, e4 := scalar.NewFromBytesModOrderWide(w)
		var u scalar.Scalar
		e5 := u.UnmarshalBinary(b)
		s6, e6 := scalar.New().SetRandom(bytes.NewReader(w))
		o := hx(e1, e2, e3, e4, e5, e6, scalar.ScMinimalVartime(b), sb(s2), sb(s3), sb(s4), sb(s6))
		if e1 == nil {
			o += hx(sb(s1))
		}
		return o
	})
	space(c, "scalar.vectors", nS, func(i int) string {
		v := []*scalar.Scalar{sc(S[i]), sc(S[(i+1)%nS]), sc(S[(i+2)%nS])}
		o := hx(sb(scalar.New().Product(v)), sb(scalar.New().Sum(v)))
		nz := true
		for _, x := range v {
			if sb(scalar.New().Reduce(x))[0] == 0 && bytes.Equal(sb(scalar.New().Reduce(x)), make([]byte, 32)) {
				nz = false
			}
		}
		if nz {
			o += hx(sb(scalar.New().BatchInvert(v)), sb(v[0]), sb(v[1]), sb(v[2]))
		}
		var cs scalar.Scalar
		cs.ConditionalSelect(v[0], v[1], i&1)
		return o + hx(sb(&cs), sb(scalar.NewFromUint64(uint64(i)*0x9e3779b97f4a7c15)), sb(scalar.One()), sb(scalar.New().Zero()))
	})
	// ---- curve: Edwards ----
	space(c, "edwards.Add/Sub/Equal", nP*nP, func(i int) string {
		a, b := P[i/nP], P[i%nP]
		var sel curve.EdwardsPoint
		sel.ConditionalSelect(a, b, i&1)
		return hx(eb(curve.NewEdwardsPoint().Add(a, b)), eb(curve.NewEdwardsPoint().Sub(a, b)), a.Equal(b), eb(&sel))
	})
	space(c, "edwards.unary", nP, func(i int) string {
		a := P[i]
		var m curve.MontgomeryPoint
		m.SetEdwards(a)
		var cy curve.CompressedEdwardsY
		cy.SetEdwardsPoint(a)
		e0, err0 := curve.NewEdwardsPoint().SetMontgomery(&m, 0)
		e1, err1 := curve.NewEdwardsPoint().SetMontgomery(&m, 1)
		o := hx(eb(curve.NewEdwardsPoint().Neg(a)), eb(curve.NewEdwardsPoint().MulByCofactor(a)), a.IsIdentity(), a.IsSmallOrder(), a.IsTorsionFree(), m[:], cy[:], cy.IsCanonicalVartime(), err0, err1)
		if err0 == nil {
			o += hx(eb(e0))
		}
		if err1 == nil {
			o += hx(eb(e1))
		}
		x := curve.NewExpandedEdwardsPoint(a)
		o += hx(eb(x.Point()), eb(curve.NewEdwardsPoint().SetExpanded(x)), eb(curve.NewEdwardsPoint().Sum([]*curve.EdwardsPoint{a, a, P[(i+1)%nP]})))
		return o
	})
	space(c, "edwards.decode", nE, func(i int) string {
		b := E[i]
		var p curve.EdwardsPoint
		e1 := p.UnmarshalBinary(b)
		var cp curve.CompressedEdwardsY
		e2 := cp.UnmarshalBinary(b)
		cq, e3 := curve.NewCompressedEdwardsYFromBytes(b)
		var m curve.MontgomeryPoint
		_, e4 := m.SetBytes(b)
		p0, e5 := curve.NewEdwardsPoint().SetMontgomery(&m, 0)
		o := hx(e1, e2, e3, e4, e5, eb(&p), cp[:], cq.IsCanonicalVartime())
		if e5 == nil {
			o += hx(eb(p0))
		}
		return o
	})
	space(c, "edwards.Mul", nS*nP, func(i int) string {
		s, p := sc(S[i/nP]), P[i%nP]
		return hx(eb(curve.NewEdwardsPoint().Mul(p, s)))
	})
	space(c, "edwards.MulBasepoint/tables", nS, func(i int) string {
		s := sc(S[i])
		o := hx(eb(curve.NewEdwardsPoint().MulBasepoint(curve.ED25519_BASEPOINT_TABLE, s)))
		if i%8 == 0 {
			t := curve.NewEdwardsBasepointTable(P[2+i%20])
			o += hx(eb(curve.NewEdwardsPoint().MulBasepoint(t, s)), eb(t.Basepoint()))
		}
		var m curve.MontgomeryPoint
		m.Mul(curve.X25519_BASEPOINT, s)
		return o + hx(m[:])
	})
	space(c, "edwards.DoubleScalarMul/Triple", nS*8, func(i int) string {
		a, b, A, C := sc(S[i/8]), sc(S[(i*13+5)%nS]), P[2+(i%8)*3], P[(i*5+1)%nP]
		x := curve.NewExpandedEdwardsPoint(A)
		t1 := curve.NewEdwardsPoint().TripleScalarMulBasepointVartime(a, A, b, C)
		t2 := curve.NewEdwardsPoint().ExpandedTripleScalarMulBasepointVartime(a, x, b, C)
		// the triple product is only defined up to an unspecified non-zero factor delta; what a caller can
		// observe portably is membership in the 8-torsion, and (documented) equality of the two variants
		return hx(eb(curve.NewEdwardsPoint().DoubleScalarMulBasepointVartime(a, A, b)), eb(curve.NewEdwardsPoint().ExpandedDoubleScalarMulBasepointVartime(a, x, b)), t1.IsSmallOrder(), t2.IsSmallOrder(), eb(t1), eb(t2))
	})
	sizes := []int{0, 1, 2, 3, 8, 189, 190, 191, 500, 800}
	if c.Thorough {
		sizes = append(sizes, 499, 501, 799, 801, 1000)
	}
	space(c, "edwards.Multiscalar", len(sizes)*4, func(i int) string {
		n := sizes[i/4]
		ss := make([]*scalar.Scalar, n)
		ps := make([]*curve.EdwardsPoint, n)
		xs := make([]*curve.ExpandedEdwardsPoint, n)
		for k := 0; k < n; k++ {
			ss[k] = sc(S[(k*(i%4+1)+i)%nS])
			ps[k] = P[(k*3+i)%nP]
			xs[k] = curve.NewExpandedEdwardsPoint(ps[k])
		}
		o := hx(eb(curve.NewEdwardsPoint().MultiscalarMulVartime(ss, ps)))
		if n <= 8 {
			o += hx(eb(curve.NewEdwardsPoint().MultiscalarMul(ss, ps)))
		}
		h := n / 2
		o += hx(eb(curve.NewEdwardsPoint().ExpandedMultiscalarMulVartime(ss[:h], xs[:h], ss[h:], ps[h:])), eb(curve.NewEdwardsPoint().ExpandedMultiscalarMulVartime(ss, xs, nil, nil)))
		return o
	})
	// receiver aliasing an operand, and operands aliasing each other: results must be the same bytes in every backend
	space(c, "aliasing", nP*8, func(i int) string {
		P0, Q0, sv := P[i%nP], P[(i*7+3)%nP], sc(S[(i*5+1)%nS])
		fresh := func() (*curve.EdwardsPoint, *curve.EdwardsPoint) {
			return curve.NewEdwardsPoint().Set(P0), curve.NewEdwardsPoint().Set(Q0)
		}
		var o string
		p, q := fresh()
		o += hx(eb(p.Add(p, q)))
		p, q = fresh()
		o += hx(eb(p.Add(q, p)))
		p, q = fresh()
		o += hx(eb(p.Sub(p, q)))
		p, q = fresh()
		o += hx(eb(p.Sub(q, p)))
		p, _ = fresh()
		o += hx(eb(p.Add(p, p)))
		p, _ = fresh()
		o += hx(eb(p.Sub(p, p)))
		p, _ = fresh()
		o += hx(eb(p.Neg(p)))
		p, _ = fresh()
		o += hx(eb(p.MulByCofactor(p)))
		p, _ = fresh()
		o += hx(eb(p.Mul(p, sv)))
		p, q = fresh()
		o += hx(eb(p.MultiscalarMul([]*scalar.Scalar{sv, sv}, []*curve.EdwardsPoint{p, q})))
		p, q = fresh()
		o += hx(eb(p.MultiscalarMul([]*scalar.Scalar{sv, sv}, []*curve.EdwardsPoint{q, p})))
		p, q = fresh()
		o += hx(eb(p.MultiscalarMulVartime([]*scalar.Scalar{sv, sv}, []*curve.EdwardsPoint{p, q})))
		p, q = fresh()
		o += hx(eb(p.MultiscalarMulVartime([]*scalar.Scalar{sv, sv, sv}, []*curve.EdwardsPoint{q, p, p})))
		p, q = fresh()
		o += hx(eb(p.Sum([]*curve.EdwardsPoint{p, q, p})))
		p, _ = fresh()
		o += hx(eb(p.DoubleScalarMulBasepointVartime(sv, p, sv)))
		p, q = fresh()
		o += hx(p.TripleScalarMulBasepointVartime(sv, p, sv, q).IsSmallOrder())
		p, q = fresh()
		o += hx(p.TripleScalarMulBasepointVartime(sv, q, sv, p).IsSmallOrder())
		p, q = fresh()
		x := curve.NewExpandedEdwardsPoint(q)
		o += hx(eb(p.ExpandedMultiscalarMulVartime([]*scalar.Scalar{sv}, []*curve.ExpandedEdwardsPoint{x}, []*scalar.Scalar{sv}, []*curve.EdwardsPoint{p})))
		p, q = fresh()
		p.ConditionalSelect(p, q, i&1)
		o += hx(eb(p))
		// Ristretto wrappers
		r0 := curve.VerifRistrettoFromEdwards(curve.NewEdwardsPoint().Add(P0, P0))
		r1 := curve.VerifRistrettoFromEdwards(curve.NewEdwardsPoint().Add(Q0, Q0))
		rf := func() (*curve.RistrettoPoint, *curve.RistrettoPoint) {
			return curve.NewRistrettoPoint().Set(r0), curve.NewRistrettoPoint().Set(r1)
		}
		a, b := rf()
		o += hx(rb(a.Add(a, b)))
		a, b = rf()
		o += hx(rb(a.Sub(a, b)))
		a, b = rf()
		o += hx(rb(a.Sub(b, a)))
		a, _ = rf()
		o += hx(rb(a.Neg(a)))
		a, _ = rf()
		o += hx(rb(a.Mul(a, sv)))
		a, b = rf()
		o += hx(rb(a.MultiscalarMul([]*scalar.Scalar{sv, sv}, []*curve.RistrettoPoint{a, b})))
		a, b = rf()
		o += hx(rb(a.MultiscalarMulVartime([]*scalar.Scalar{sv, sv}, []*curve.RistrettoPoint{b, a})))
		a, b = rf()
		o += hx(rb(a.Sum([]*curve.RistrettoPoint{a, b})))
		a, _ = rf()
		o += hx(rb(a.DoubleScalarMulBasepointVartime(sv, a, sv)))
		// scalars
		s1, s2 := sc(S[i%nS]), sc(S[(i*3+2)%nS])
		t := scalar.New().Set(s1)
		o += hx(sb(t.Add(t, s2)))
		t.Set(s1)
		o += hx(sb(t.Sub(s2, t)))
		t.Set(s1)
		o += hx(sb(t.Mul(t, t)))
		t.Set(s1)
		o += hx(sb(t.Neg(t)))
		t.Set(s1)
		o += hx(sb(t.Reduce(t)))
		t.Set(s1)
		o += hx(sb(t.Sum([]*scalar.Scalar{t, s2})), sb(scalar.New().Set(s1).Product([]*scalar.Scalar{s1, s2})))
		return o
	})
	// ---- curve: Ristretto ----
	space(c, "ristretto.ops", nR*nR, func(i int) string {
		a, b := R[i/nR], R[i%nR]
		s := sc(S[i%nS])
		var cr curve.CompressedRistretto
		cr.SetRistrettoPoint(a)
		x := curve.NewExpandedRistrettoPoint(b)
		var sel curve.RistrettoPoint
		sel.ConditionalSelect(a, b, i&1)
		return hx(rb(curve.NewRistrettoPoint().Add(a, b)), rb(curve.NewRistrettoPoint().Sub(a, b)), rb(curve.NewRistrettoPoint().Neg(a)), a.Equal(b), a.IsIdentity(), cr[:],
			rb(curve.NewRistrettoPoint().Mul(a, s)), rb(curve.NewRistrettoPoint().MulBasepoint(curve.RISTRETTO_BASEPOINT_TABLE, s)),
			rb(curve.NewRistrettoPoint().DoubleScalarMulBasepointVartime(s, a, s)), rb(curve.NewRistrettoPoint().ExpandedDoubleScalarMulBasepointVartime(s, x, s)),
			curve.NewRistrettoPoint().TripleScalarMulBasepointVartime(s, a, s, b).IsIdentity(), curve.NewRistrettoPoint().ExpandedTripleScalarMulBasepointVartime(s, x, s, a).IsIdentity(),
			rb(curve.NewRistrettoPoint().MultiscalarMul([]*scalar.Scalar{s, s}, []*curve.RistrettoPoint{a, b})), rb(curve.NewRistrettoPoint().MultiscalarMulVartime([]*scalar.Scalar{s, s}, []*curve.RistrettoPoint{a, b})),
			rb(curve.NewRistrettoPoint().ExpandedMultiscalarMulVartime([]*scalar.Scalar{s}, []*curve.ExpandedRistrettoPoint{x}, []*scalar.Scalar{s}, []*curve.RistrettoPoint{a})),
			rb(curve.NewRistrettoPoint().Sum([]*curve.RistrettoPoint{a, b, a})), rb(&sel), rb(x.Point()), rb(curve.NewRistrettoPoint().SetExpanded(x)),
			rb(curve.NewRistrettoPoint().MulBasepoint(curve.NewRistrettoBasepointTable(a), s)))
	})
	space(c, "ristretto.decode/uniform", nE, func(i int) string {
		b := E[i]
		var p curve.RistrettoPoint
		e1 := p.UnmarshalBinary(b)
		var cp curve.CompressedRistretto
		e2 := cp.UnmarshalBinary(b)
		u := append(append([]byte{}, b...), E[(i*11+3)%nE]...)
		q, e3 := curve.NewRistrettoPoint().SetUniformBytes(u)
		r, e4 := curve.NewRistrettoPoint().SetRandom(bytes.NewReader(u))
		return hx(e1, e2, e3, e4, rb(&p), cp[:], rb(q), rb(r))
	})
	// ---- ed25519 ----
	msgs := [][]byte{nil, []byte("a"), bytes.Repeat([]byte{7}, 111), bytes.Repeat([]byte{9}, 256)}
	presets := []*ed25519.VerifyOptions{nil, ed25519.VerifyOptionsDefault, ed25519.VerifyOptionsStdLib, ed25519.VerifyOptionsFIPS_186_5, ed25519.VerifyOptionsZIP_215}
	nSeeds := c.Pick(12, 48)
	space(c, "ed25519.sign/verify", nSeeds*len(msgs), func(i int) string {
		seed := mc.Bytes(c.Seed, "c06seed", i/len(msgs), 32)
		if i/len(msgs) < 3 {
			seed = bytes.Repeat([]byte{[]byte{0, 0xff, 0x88}[i/len(msgs)]}, 32)
		}
		m := msgs[i%len(msgs)]
		sk := ed25519.NewKeyFromSeed(seed)
		pk := sk.Public().(ed25519.PublicKey)
		sig := ed25519.Sign(sk, m)
		o := hx([]byte(sk), []byte(pk), sig, sk.Seed(), sk.Equal(sk), pk.Equal(pk))
		sigc, e1 := sk.Sign(nil, m, &ed25519.Options{Context: "ctx"})
		ph := sha512.Sum512(m)
		sigp, e2 := sk.Sign(nil, ph[:], &ed25519.Options{Hash: crypto.SHA512, Context: "ctx"})
		sigr, e3 := sk.Sign(zr{byte(i)}, m, &ed25519.Options{AddedRandomness: true, SelfVerify: true})
		_, e4 := sk.Sign(nil, m, &ed25519.Options{Hash: crypto.SHA256})
		o += hx(sigc, e1, sigp, e2, sigr, e3, e4)
		epk, e5 := ed25519.NewExpandedPublicKey(pk)
		o += hx(e5)
		bv := ed25519.NewBatchVerifier()
		for _, vo := range presets {
			opt := &ed25519.Options{Verify: vo}
			bad := append([]byte{}, sig...)
			bad[i%64] ^= 1
			o += hx(ed25519.VerifyWithOptions(pk, m, sig, opt), ed25519.VerifyWithOptions(pk, m, bad, opt), ed25519.VerifyExpandedWithOptions(epk, m, sig, opt), ed25519.VerifyExpandedWithOptions(epk, m, bad, opt))
			bv.AddWithOptions(pk, m, sig, opt)
			bv.AddExpandedWithOptions(epk, m, bad, opt)
		}
		all, each := bv.Verify(zr{1})
		o += hx(all, fmt.Sprint(each), bv.VerifyBatchOnly(zr{2}), ed25519.Verify(pk, m, sig), ed25519.VerifyExpanded(epk, m, sig), ed25519.VerifyWithOptions(pk, m, sigc, &ed25519.Options{Context: "ctx"}))
		cv := cache.NewVerifier(cache.NewLRUCache(1))
		cv.AddPublicKey(pk)
		o += hx(cv.Verify(pk, m, sig), cv.VerifyWithOptions(pk, m, sigr, &ed25519.Options{Verify: ed25519.VerifyOptionsZIP_215}))
		pub2, priv2, e6 := ed25519.GenerateKey(zr{byte(i)})
		o += hx([]byte(pub2), []byte(priv2), e6)
		// ECVRF
		pi := ecvrf.Prove(sk, m)
		pi10 := ecvrf.Prove_v10(sk, m)
		pir, e7 := ecvrf.ProveWithAddedRandomness(zr{byte(i)}, sk, m)
		pir10, e8 := ecvrf.ProveWithAddedRandomness_v10(zr{byte(i)}, sk, m)
		ok1, beta1 := ecvrf.Verify(pk, pi, m)
		ok2, beta2 := ecvrf.Verify_v10(pk, pi10, m)
		ok3, _ := ecvrf.Verify(pk, pi10, m)
		beta3, e9 := ecvrf.ProofToHash(pir)
		o += hx(pi, pi10, pir, e7, pir10, e8, ok1, beta1, ok2, beta2, ok3, beta3, e9)
		// X25519
		xk := x25519.EdPrivateKeyToX25519(sk)
		xp, okx := x25519.EdPublicKeyToX25519(pk)
		sh, e10 := x25519.X25519(xk, xp)
		sh2, e11 := x25519.X25519(seed, x25519.Basepoint)
		var d1, d2, in [32]byte
		copy(in[:], seed)
		x25519.ScalarBaseMult(&d1, &in)
		x25519.ScalarMult(&d2, &in, &d1)
		o += hx(xk, xp, okx, sh, e10, sh2, e11, d1[:], d2[:])
		return o
	})
	space(c, "ed25519.verify-crafted", nE*len(presets), func(i int) string {
		// arbitrary strings as public key / R: exercises decoding + small-order + canonical checks in every backend
		b := E[i/len(presets)]
		opt := &ed25519.Options{Verify: presets[i%len(presets)]}
		sig := append(append([]byte{}, E[(i/len(presets)*3+1)%nE]...), ref.LE32(S[i%nS])...)
		o := hx(ed25519.VerifyWithOptions(b, []byte("m"), sig, opt))
		if e, err := ed25519.NewExpandedPublicKey(b); err == nil {
			o += hx(ed25519.VerifyExpandedWithOptions(e, []byte("m"), sig, opt))
		}
		ok, beta := ecvrf.Verify(b, append(append(append([]byte{}, E[(i+5)%nE]...), sig[:16]...), sig[32:]...), []byte("alpha"))
		xp, okx := x25519.EdPublicKeyToX25519(b)
		xr, ex := x25519.X25519(ref.LE32(S[i%nS]), b)
		return o + hx(ok, beta, xp, okx, xr, ex)
	})
	// ---- sr25519 ----
	space(c, "sr25519", c.Pick(24, 96), func(i int) string {
		var msk sr25519.MiniSecretKey
		copy(msk[:], mc.Bytes(c.Seed, "c06sr", i, 32))
		if i < 2 {
			copy(msk[:], bytes.Repeat([]byte{byte(i * 255)}, 32))
		}
		var sk *sr25519.SecretKey
		if i%2 == 0 {
			sk = msk.ExpandUniform()
		} else {
			sk = msk.ExpandEd25519()
		}
		kp := sk.KeyPair()
		ctx := sr25519.NewSigningContext([]byte("c06 ctx"))
		m := msgs[i%len(msgs)]
		sig, e1 := kp.Sign(zr{byte(i)}, ctx.NewTranscriptBytes(m))
		sigB, _ := sig.MarshalBinary()
		skB, _ := sk.MarshalBinary()
		pkB, _ := kp.PublicKey().MarshalBinary()
		kpB, _ := kp.MarshalBinary()
		h := sha512.New()
		h.Write(m)
		sigH, _ := kp.Sign(zr{1}, ctx.NewTranscriptHash(h))
		x := sha3.NewShake128()
		x.Write(m)
		sigX, _ := kp.Sign(zr{2}, ctx.NewTranscriptXOF(x))
		sigHB, _ := sigH.MarshalBinary()
		sigXB, _ := sigX.MarshalBinary()
		bv := sr25519.NewBatchVerifier()
		bv.Add(kp.PublicKey(), ctx.NewTranscriptBytes(m), sig)
		bad, _ := sr25519.NewSignatureFromBytes(sigB)
		bv.Add(kp.PublicKey(), ctx.NewTranscriptBytes([]byte("other")), bad)
		all, each := bv.Verify(zr{3})
		kp2, e2 := sr25519.NewKeyPairFromBytes(kpB)
		_, e3 := sr25519.NewSecretKeyFromBytes(skB)
		_, e4 := sr25519.NewPublicKeyFromBytes(pkB)
		_, e5 := sr25519.NewSecretKeyFromEd25519Bytes(skB)
		return hx(e1, sigB, skB, pkB, kpB, sigHB, sigXB, kp.PublicKey().Verify(ctx.NewTranscriptBytes(m), sig), all, fmt.Sprint(each), bv.VerifyBatchOnly(zr{4}), e2, kp2 != nil, e3, e4, e5, sk.Equal(sk), msk.Equal(&msk))
	})
	// ---- merlin / STROBE / Keccak ----
	space(c, "merlin", c.Pick(340, 700), func(i int) string {
		t := merlin.NewTranscript("c06")
		t.AppendMessage("sweep", bytes.Repeat([]byte{byte(i)}, i))
		t2 := t.Clone()
		out := make([]byte, 32+i%170)
		t.ExtractBytes(out, "ch")
		t2.AppendMessage("x", out[:i%40])
		rng, err := t2.BuildRng().RekeyWithWitnessBytes("w", out).Finalize(zr{byte(i)})
		o2 := make([]byte, 40)
		_, _ = rng.Read(o2)
		return hx(out, o2, err)
	})
	nk := c.Pick(1700, 3300)
	space(c, "keccak-f1600", nk, func(i int) string {
		var st [200]byte
		switch {
		case i < 1600:
			st[i/8] = 1 << (i % 8)
		case i == 1600:
		default:
			copy(st[:], mc.Bytes(c.Seed, "keccak", i, 200))
		}
		return hx(strobe.VerifC06KeccakBytes(st[:]))
	})
	// ---- h2c ----
	hashes := []crypto.Hash{crypto.SHA256, crypto.SHA384, crypto.SHA512, crypto.SHA512_256, crypto.SHA3_256, crypto.SHA224}
	dsts := [][]byte{nil, []byte("d"), bytes.Repeat([]byte{1}, 255), bytes.Repeat([]byte{2}, 256), bytes.Repeat([]byte{3}, 1000)}
	lens := []int{0, 1, 31, 32, 33, 47, 48, 64, 65, 127, 128, 129, 255, 256, 1000, 8160, 8161, 16320, 16321, 65535, 65536}
	space(c, "h2c.expand", len(hashes)*len(dsts)*len(lens), func(i int) string {
		hf, dst, n := hashes[i%len(hashes)], dsts[(i/len(hashes))%len(dsts)], lens[i/(len(hashes)*len(dsts))]
		out := make([]byte, n)
		e1 := h2c.ExpandMessageXMD(out, hf, dst, msgs[i%len(msgs)])
		out2 := make([]byte, n)
		e2 := h2c.ExpandMessageXOF(out2, sha3.NewShake128(), dst, msgs[i%len(msgs)])
		out3 := make([]byte, n)
		e3 := h2c.ExpandMessageXOF(out3, sha3.NewShake256(), dst, msgs[i%len(msgs)])
		return hx(e1, out, e2, out2, e3, out3)
	})
	space(c, "h2c.suites", len(dsts)*len(msgs)*c.Pick(2, 8), func(i int) string {
		dst, m := dsts[i%len(dsts)], append(append([]byte{}, msgs[(i/len(dsts))%len(msgs)]...), byte(i/(len(dsts)*len(msgs))))
		p1, e1 := h2c.Edwards25519_XMD_SHA512_ELL2_RO(dst, m)
		p2, e2 := h2c.Edwards25519_XMD_SHA512_ELL2_NU(dst, m)
		p3, e3 := h2c.Edwards25519_XMD_ELL2_RO(crypto.SHA256, dst, m)
		p4, e4 := h2c.Edwards25519_XMD_ELL2_NU(crypto.SHA3_256, dst, m)
		p5, e5 := h2c.Edwards25519_XOF_ELL2_RO(sha3.NewShake128(), dst, m)
		p6, e6 := h2c.Edwards25519_XOF_ELL2_NU(sha3.NewShake256(), dst, m)
		r1, e7 := h2c.Ristretto255_XMD_R255MAP_RO(crypto.SHA512, dst, m)
		r2, e8 := h2c.Ristretto255_XOF_R255MAP_RO(sha3.NewShake256(), dst, m)
		o := hx(e1, e2, e3, e4, e5, e6, e7, e8)
		for k, p := range []*curve.EdwardsPoint{p1, p2, p3, p4, p5, p6} {
			if []error{e1, e2, e3, e4, e5, e6}[k] == nil {
				o += hx(eb(p))
			}
		}
		if e7 == nil {
			o += hx(rb(r1))
		}
		if e8 == nil {
			o += hx(rb(r2))
		}
		return o
	})
	// ---- x25519 ----
	space(c, "x25519", nS*24, func(i int) string {
		s := ref.LE32(S[i/24])
		u := E[(i%24)*5%nE]
		r, err := x25519.X25519(s, u)
		var d, in, base [32]byte
		copy(in[:], s)
		copy(base[:], u)
		x25519.ScalarMult(&d, &in, &base)
		var priv x25519.PrivateKey
		copy(priv[:], s)
		pub := priv.Public()
		var peer x25519.PublicKey
		copy(peer[:], u)
		ss := priv.DiffieHellman(&peer)
		return hx(r, err, d[:], pub[:], ss[:], ss.IsZero())
	})

	// ---- x25519 on the carry seams of the ladder's constant multiplication (solved-for u strings, see alphed) ----
	seams := alphed.Mul121666Seams(c.Thorough)
	space(c, "x25519.seams", len(seams)*2, func(i int) string {
		sm := seams[i/2]
		s := ref.LE32(S[(i%2*13+5)%nS])
		r, err := x25519.X25519(s, sm.U)
		var d, in, base [32]byte
		copy(in[:], s)
		copy(base[:], sm.U)
		x25519.ScalarMult(&d, &in, &base)
		return hx(r, err, d[:])
	})

	// ---- histories over the precomputed objects: set, copy by value, re-set one copy, use every live copy ----
	space(c, "precomputed.histories", nP*6, func(i int) string {
		p, q := P[i/6], P[(i/6*7+i%6+1)%nP]
		a, b := sc(S[(3*i+1)%nS]), sc(S[(5*i+2)%nS])
		e := curve.NewExpandedEdwardsPoint(p)
		snap := *e // a copy by value must stay a description of p ...
		e.SetEdwardsPoint(q)
		snap2 := *e
		e.SetEdwardsPoint(p) // ... and e is now p again, snap2 describes q
		use := func(x *curve.ExpandedEdwardsPoint) string {
			return hx(eb(x.Point()), eb(curve.NewEdwardsPoint().SetExpanded(x)),
				eb(curve.NewEdwardsPoint().ExpandedDoubleScalarMulBasepointVartime(a, x, b)),
				curve.NewEdwardsPoint().ExpandedTripleScalarMulBasepointVartime(a, x, b, q).IsSmallOrder(),
				eb(curve.NewEdwardsPoint().ExpandedMultiscalarMulVartime([]*scalar.Scalar{a}, []*curve.ExpandedEdwardsPoint{x}, []*scalar.Scalar{b}, []*curve.EdwardsPoint{q})))
		}
		o := use(&snap) + use(&snap2) + use(e)
		t := curve.NewEdwardsBasepointTable(p)
		tsnap := *t
		t = curve.NewEdwardsBasepointTable(q)
		o += hx(eb(curve.NewEdwardsPoint().MulBasepoint(&tsnap, a)), eb(tsnap.Basepoint()), eb(curve.NewEdwardsPoint().MulBasepoint(t, a)))
		rp, rq := curve.NewRistrettoPoint(), curve.NewRistrettoPoint()
		var u [64]byte
		copy(u[:], mc.Bytes(c.Seed, "c06hist", i/6, 64))
		if _, err := rp.SetUniformBytes(u[:]); err != nil {
			panic(err)
		}
		rq.Add(rp, curve.RISTRETTO_BASEPOINT_POINT)
		re := curve.NewExpandedRistrettoPoint(rp)
		rsnap := *re
		re.SetRistrettoPoint(rq)
		ruse := func(x *curve.ExpandedRistrettoPoint) string {
			return hx(rb(x.Point()), rb(curve.NewRistrettoPoint().ExpandedDoubleScalarMulBasepointVartime(a, x, b)),
				rb(curve.NewRistrettoPoint().ExpandedMultiscalarMulVartime([]*scalar.Scalar{a}, []*curve.ExpandedRistrettoPoint{x}, nil, nil)))
		}
		return o + ruse(&rsnap) + ruse(re)
	})

	_ = binary.LittleEndian
}
