// C11: ristretto255 is the group and encoding of RFC 9496.
//
// Oracle: package ref (ristretto.go is a literal transcription of RFC 9496
// section 4, pinned by the RFC's vectors in ref-selftest).  Library points used
// as inputs are built on the Edwards side from reference coordinates (every
// coset representative P+T, T in E[4], in several projective scalings) and
// wrapped through the hook; results are compared through their encodings and
// through the reference equality of the internal representative.
package main

import (
	"bytes"
	"encoding/hex"
	"fmt"
	"io"
	"math/big"
	"sync"

	"github.com/oasisprotocol/curve25519-voi/curve"
	"github.com/oasisprotocol/curve25519-voi/curve/scalar"
	"github.com/oasisprotocol/curve25519-voi/internal/verif/alph"
	"github.com/oasisprotocol/curve25519-voi/internal/verif/alph/alphed"
	"github.com/oasisprotocol/curve25519-voi/internal/verif/alph/edpts"
	"github.com/oasisprotocol/curve25519-voi/internal/verif/mc"
	"github.com/oasisprotocol/curve25519-voi/internal/verif/ref"
	"github.com/oasisprotocol/curve25519-voi/internal/verif/ref/refmul"
)

func main() {
	mc.Main("C11", func(c *mc.Ctx) {
		run(c)
		encodeAfterHistoryR(c)
	})
}

func hx(b []byte) string { return mc.Hex(b) }

var zero32 = make([]byte, 32)

// reason classifies a string by the first failing step of RFC 9496 4.3.1
// ("" = accepted).  Reference side only.
func reason(b []byte) string {
	if len(b) != 32 {
		return "length"
	}
	s := ref.FromLE(b)
	if s.Cmp(ref.P) >= 0 {
		return "noncanonical"
	}
	if s.Bit(0) == 1 {
		return "negative-s"
	}
	one := big.NewInt(1)
	ss := ref.FSq(s)
	u1 := ref.FSub(one, ss)
	u2 := ref.FAdd(one, ss)
	u2s := ref.FSq(u2)
	v := ref.FSub(ref.FNeg(ref.FMul(ref.D, ref.FSq(u1))), u2s)
	wasSquare, invsqrt := ref.SqrtRatioI(one, ref.FMul(v, u2s))
	denX := ref.FMul(invsqrt, u2)
	denY := ref.FMul(ref.FMul(invsqrt, denX), v)
	x := ref.FAbs(ref.FMul(ref.FMul(big.NewInt(2), s), denX))
	y := ref.FMul(u1, denY)
	t := ref.FMul(x, y)
	switch {
	case !wasSquare:
		return "nonsquare"
	case ref.FIsNegative(t):
		return "negative-t"
	case y.Sign() == 0:
		return "y-zero"
	}
	return ""
}

var rfcBad = []string{
	"00ffffffffffffffffffffffffffffffffffffffffffffffffffffffffffffff",
	"ffffffffffffffffffffffffffffffffffffffffffffffffffffffffffffff7f",
	"f3ffffffffffffffffffffffffffffffffffffffffffffffffffffffffffff7f",
	"edffffffffffffffffffffffffffffffffffffffffffffffffffffffffffff7f",
	"0100000000000000000000000000000000000000000000000000000000000000",
	"01ffffffffffffffffffffffffffffffffffffffffffffffffffffffffffff7f",
	"ed57ffd8c914fb201471d1c3d245ce3c746fcbe63a3679d51b6a516ebebe0e20",
	"c34c4e1826e5d403b78e246e88aa051c36ccf0aafebffe137d148a2bf9104562",
	"c940e5a4404157cfb1628b108db051a8d439e1a421394ec4ebccb9ec92a8ac78",
	"47cfc5497c53dc8e61c91d17fd626ffb1c49e2bca94eed052281b510b1117a24",
	"f1c6165d33367351b0da8f6e4511010c68174a03b6581212c71c0e1d026c3c72",
	"87260f7a2f12495118360f02c26a470f450dadf34a413d21042b43b9d93e1309",
	"26948d35ca62e643e26a83177332e6b6afeb9d08e4268b650f1f5bbd8d81d371",
	"4eac077a713c57b4f4397629a4145982c661f48044dd3f96427d40b147d9742f",
	"de6a7b00deadc788eb6b6c8d20c0ae96c2f2019078fa604fee5b87d6e989ad7b",
	"bcab477be20861e01e4a0e295284146a510150d9817763caf1a6f4b422d67042",
	"2a292df7e32cababbd9de088d1d1abec9fc0440f637ed2fba145094dc14bea08",
	"f4a9e534fc0d216c44b218fa0c42d99635a0127ee2e53c712f70609649fdff22",
	"8268436f8c4126196cf64b3c7ddbda90746a378625f9813dd9b8457077256731",
	"2810e5cbc2cc4d4eece54f61c6f69758e289aa7ab440b3cbeaa21995c2f4232b",
	"3eb858e78f5a7254d8c9731174a94f76755fd3941c0ac93735c07ba14579630e",
	"a45fdc55c76448c049a1ab33f17023edfb2be3581e9c7aade8a6125215e04220",
	"d483fe813c6ba647ebbfd3ec41adca1c6130c2beeee9d9bf065c8d151c5f396e",
	"8a2e1d30050198c65a54483123960ccc38aef6848e1ec8f5f780e8523769ba32",
	"32888462f8b486c68ad7dd9610be5192bbeaf3b443951ac1a8118419d9fa097b",
	"227142501b9d4355ccba290404bde41575b037693cef1f438c47f8fbf35d1165",
	"5c37cc491da847cfeb9281d407efc41e15144c876e0170b499a96a22ed31e01e",
	"445425117cb8c90edcbc7c1cc0e74f747f2c1efa5630a967c64f287792a48a4b",
	"ecffffffffffffffffffffffffffffffffffffffffffffffffffffffffffff7f",
}

// element is one group element [s]B with its reference data.
type element struct {
	s   *big.Int // reduced
	p   ref.Point
	enc []byte
}

// rrep is one internal representative of an element.
type rrep struct {
	el    int
	coset int // 0,2,4,6
	kind  string
	z1    bool
	r     *curve.RistrettoPoint
	aff   ref.Point // the affine Edwards point P+T of this representative
}

func wrap(p *curve.EdwardsPoint) *curve.RistrettoPoint { return edpts.WrapRistretto(p) }

func inner(r *curve.RistrettoPoint) *curve.EdwardsPoint { return edpts.InnerOfRistretto(r) }

// isElem: the internal representative is a well-formed curve point in the coset of want.
func isElem(r *curve.RistrettoPoint, want ref.Point) bool {
	q, ok := edpts.Affine(inner(r))
	return ok && ref.RistrettoEqual(q, want)
}

func encOf(r *curve.RistrettoPoint) []byte {
	b, err := r.MarshalBinary()
	if err != nil {
		return nil
	}
	return b
}

func sc(v *big.Int) *scalar.Scalar {
	s, err := scalar.NewFromCanonicalBytes(ref.LE32(ref.SMod(v)))
	if err != nil {
		panic(err)
	}
	return s
}

type oneByteReader struct{ r io.Reader }

func (o oneByteReader) Read(p []byte) (int, error) {
	if len(p) == 0 {
		return 0, nil
	}
	return o.r.Read(p[:1])
}

func run(c *mc.Ctx) {
	if edpts.Reduced {
		c.Cap("coordinate hooks of package curve do not compile against this tree: points are built/read through the public API only (no well-formedness test of internal representations, only the canonical coset representative)")
	}
	tor := ref.Torsion()
	lam := edpts.Lambdas(c.Seed, 2)

	// ------------------------------------------------------------ elements [s]B
	coreS := alph.Scalars(c.Seed, true)
	var els []*element
	seenS := map[string]bool{}
	for _, v := range coreS {
		r := ref.SMod(v)
		if seenS[r.Text(16)] {
			continue
		}
		seenS[r.Text(16)] = true
		els = append(els, &element{s: r})
	}
	var wg sync.WaitGroup
	for _, e := range els {
		wg.Add(1)
		go func(e *element) {
			defer wg.Done()
			e.p = refmul.BaseMul(e.s)
			e.enc = ref.RistrettoEncode(e.p)
		}(e)
	}
	wg.Wait()
	c.Rep.Extra["elements_all"] = len(els)

	decodeSpace(c, els, tor, lam)
	nel := c.Pick(24, len(els))
	if nel > len(els) {
		nel = len(els)
	}
	// spread the choice over the alphabet (small values, multiples of L +-1, powers of two, patterns, generic)
	// always s = 0 and s = 1 first (element 1 doubles as the generator in the multiscalar cases)
	cel := []*element{els[0], els[1]}
	if els[0].s.Sign() != 0 || els[1].s.Cmp(big.NewInt(1)) != 0 {
		c.Broken("scalar alphabet does not start with 0, 1")
		return
	}
	rest := els[2:]
	for i := 0; i < nel-2; i++ {
		cel = append(cel, rest[i*len(rest)/(nel-2)])
	}
	c.Rep.Extra["elements_coset_space"] = len(cel)
	reps := cosetSpace(c, cel, tor, lam)
	if reps == nil {
		return
	}
	opsSpace(c, cel, reps)
	uniformSpace(c)

	// audit themes (notes/THEMES.md): aliasing, reuse, identity reached many ways, entropy readers, output shapes
	themes(c, cel, tor, lam)
	themes2(c, cel, tor, lam)
}

func decodeSpace(c *mc.Ctx, els []*element, tor [8]ref.Point, lam []*big.Int) {
	R := alphed.NewSet()
	two255 := new(big.Int).Lsh(big.NewInt(1), 255)
	for _, e := range els {
		R.Add(e.enc)
	}
	for _, e := range els {
		v := ref.FromLE(e.enc)
		R.AddInt(new(big.Int).Add(v, two255))                                 // bit 255 set
		R.AddInt(ref.FNeg(v))                                                 // the negative (odd) alias p - s
		R.AddInt(new(big.Int).Add(v, big.NewInt(1)))                          // odd neighbour
		R.AddInt(new(big.Int).Add(v, big.NewInt(2)))                          // even neighbours: arbitrary class
		R.AddInt(new(big.Int).Sub(v, big.NewInt(2)))                          //
		R.AddInt(new(big.Int).Add(ref.FNeg(v), big.NewInt(1)))                // p - s + 1 (even)
		R.AddInt(new(big.Int).Add(ref.FNeg(v), two255))                       // negative with bit 255
		R.AddInt(new(big.Int).Add(new(big.Int).Add(v, ref.P), big.NewInt(0))) // s + p (fits only for small s)
	}
	for i := int64(0); i <= 64; i++ {
		R.AddInt(big.NewInt(i))
		R.AddInt(new(big.Int).Add(big.NewInt(i), two255))
	}
	for i := int64(64); i >= 1; i-- {
		R.AddInt(new(big.Int).Sub(ref.P, big.NewInt(i)))
		R.AddInt(new(big.Int).Add(new(big.Int).Sub(ref.P, big.NewInt(i)), two255))
	}
	for i := int64(0); i < 19; i++ {
		R.AddInt(new(big.Int).Add(ref.P, big.NewInt(i)))
		R.AddInt(new(big.Int).Add(new(big.Int).Add(ref.P, big.NewInt(i)), two255))
	}
	for _, h := range rfcBad {
		b, _ := hex.DecodeString(h)
		R.Add(b)
	}
	for _, j := range []uint{25, 26, 51, 52, 64, 102, 128, 153, 204, 254} {
		for e := int64(-2); e <= 2; e++ {
			R.AddInt(new(big.Int).Add(new(big.Int).Lsh(big.NewInt(1), j), big.NewInt(e)))
		}
	}
	// the Edwards encodings of torsion points and of B are not ristretto encodings of anything in particular
	for _, t := range tor {
		R.Add(t.Encode())
	}
	R.Add(ref.Base.Encode())
	ng := c.Pick(3000, 40000)
	for i := 0; i < ng; i++ {
		b := mc.Bytes(c.Seed, "ristretto-string", i, 32)
		switch i % 8 {
		case 0: // raw
		case 1: // canonical range, any sign
			b[31] &= 0x7f
		default: // canonical range and non-negative: square / sign-of-t / accept decided by the reference
			b[31] &= 0x7f
			b[0] &^= 1
		}
		R.Add(b)
	}
	S := R.Out
	defer selfAliased(c, S)
	c.Rep.Extra["alphabet_P_strings"] = len(S)

	type recv struct {
		name string
		mk   func() *curve.RistrettoPoint
	}
	benc := ref.RistrettoEncode(ref.Base)
	g := refmul.BaseMul(big.NewInt(0x1234567)).Add(tor[2])
	receivers := []recv{
		{"zero-value", func() *curve.RistrettoPoint { return new(curve.RistrettoPoint) }},
		{"identity", func() *curve.RistrettoPoint { return curve.NewRistrettoPoint() }},
		{"holding-B", func() *curve.RistrettoPoint {
			p := new(curve.RistrettoPoint)
			if err := p.UnmarshalBinary(benc); err != nil || !isElem(p, ref.Base) {
				return wrap(edpts.FromRef(ref.Base))
			}
			return p
		}},
		{"holding-Z!=1", func() *curve.RistrettoPoint { return wrap(edpts.FromRefScaled(g, lam[3])) }},
	}
	isIdentityState := func(p *curve.RistrettoPoint) bool { return isElem(p, ref.Identity()) }

	alphed.Par(c, "decode", len(S), func(w *mc.W, i int) {
		b, intact := alphed.Guarded(S[i]) // handed over with spare capacity between guard bytes
		why := reason(b)
		pt, ok := ref.RistrettoDecode(b)
		if ok != (why == "") {
			c.Broken(fmt.Sprintf("reference inconsistency on %x: RistrettoDecode ok=%v, classifier %q", b, ok, why))
			return
		}
		cls := "decode/accept"
		if !ok {
			cls = "decode/reject:" + why
		} else if !bytes.Equal(ref.RistrettoEncode(pt), b) {
			c.Broken(fmt.Sprintf("reference inconsistency on %x: reference re-encodes differently", b))
			return
		}
		w.Eval(cls, !ok)
		cas := map[string]string{"bytes": hx(b), "reference": cls}

		var cr curve.CompressedRistretto
		if r, err := cr.SetBytes(b); err != nil || r != &cr || !bytes.Equal(cr[:], b) {
			w.Fail("CompressedRistretto.SetBytes", fmt.Sprintf("SetBytes(%x): err=%v", b, err), cas)
			return
		}
		checkValue := func(name string, p *curve.RistrettoPoint) {
			if !isElem(p, pt) {
				x, y, z, t := edpts.Coords(inner(p))
				w.Fail(name+"/value", fmt.Sprintf("%s(%x): internal point (X,Y,Z,T)=(%x,%x,%x,%x) is not a representative of the RFC 9496 decoding (x=%x,y=%x)", name, b, x, y, z, t, pt.X, pt.Y), cas)
				return
			}
			if out := encOf(p); !bytes.Equal(out, b) {
				w.Fail("RistrettoPoint.MarshalBinary/roundtrip", fmt.Sprintf("accepted string %x re-encodes to %x", b, out), cas)
			}
			var c2 curve.CompressedRistretto
			c2.SetRistrettoPoint(p)
			if !bytes.Equal(c2[:], b) {
				w.Fail("CompressedRistretto.SetRistrettoPoint/roundtrip", fmt.Sprintf("accepted string %x compresses to %x", b, c2[:]), cas)
			}
		}
		for _, r := range receivers {
			p := r.mk()
			before := *inner(p)
			q, err := p.SetCompressed(&cr)
			switch {
			case ok && err != nil:
				w.Fail("RistrettoPoint.SetCompressed/reject-valid", fmt.Sprintf("SetCompressed(%x): %v, but RFC 9496 accepts", b, err), cas)
			case !ok && err == nil:
				w.Fail("RistrettoPoint.SetCompressed/accept-invalid:"+why, fmt.Sprintf("SetCompressed(%x) succeeded, but RFC 9496 rejects (%s)", b, why), cas)
			case ok:
				if q != p {
					w.Fail("RistrettoPoint.SetCompressed/return", "successful SetCompressed did not return its receiver", cas)
				}
				checkValue("RistrettoPoint.SetCompressed", p)
			}
			if err != nil && r.name != "zero-value" && !edpts.SameCoords(inner(p), &before) && !isIdentityState(p) {
				w.Fail("RistrettoPoint.SetCompressed/receiver", fmt.Sprintf("failed SetCompressed(%x) left the %s receiver neither unchanged nor the identity", b, r.name), cas)
			}

			p = r.mk()
			err = p.UnmarshalBinary(b)
			switch {
			case ok && err != nil:
				w.Fail("RistrettoPoint.UnmarshalBinary/reject-valid", fmt.Sprintf("UnmarshalBinary(%x) on %s receiver: %v, but RFC 9496 accepts", b, r.name, err), cas)
			case !ok && err == nil:
				w.Fail("RistrettoPoint.UnmarshalBinary/accept-invalid:"+why, fmt.Sprintf("UnmarshalBinary(%x) on %s receiver succeeded, but RFC 9496 rejects (%s)", b, r.name, why), cas)
			case ok:
				checkValue("RistrettoPoint.UnmarshalBinary", p)
			}
			if err != nil && !isIdentityState(p) {
				w.Fail("RistrettoPoint.UnmarshalBinary/receiver", fmt.Sprintf("after failed UnmarshalBinary(%x) the %s receiver is not the identity", b, r.name), cas)
			}
		}
		for k := 0; k < 2; k++ {
			var u curve.CompressedRistretto
			if k == 1 {
				copy(u[:], benc)
			}
			err := u.UnmarshalBinary(b)
			switch {
			case ok && err != nil:
				w.Fail("CompressedRistretto.UnmarshalBinary/reject-valid", fmt.Sprintf("UnmarshalBinary(%x): %v", b, err), cas)
			case !ok && err == nil:
				w.Fail("CompressedRistretto.UnmarshalBinary/accept-invalid:"+why, fmt.Sprintf("UnmarshalBinary(%x) succeeded, but RFC 9496 rejects (%s)", b, why), cas)
			case ok && !bytes.Equal(u[:], b):
				w.Fail("CompressedRistretto.UnmarshalBinary/value", fmt.Sprintf("UnmarshalBinary(%x) stored %x", b, u[:]), cas)
			}
			if err != nil && !bytes.Equal(u[:], zero32) {
				w.Fail("CompressedRistretto.UnmarshalBinary/receiver", fmt.Sprintf("after failed UnmarshalBinary(%x) the receiver is %x, not the identity encoding", b, u[:]), cas)
			}
		}
		if !intact() {
			w.Fail("caller-memory/decode", fmt.Sprintf("a decoder wrote to the caller's buffer around/in %x", S[i]), cas)
		}
		if i%401 == 0 {
			w.Sample(map[string]string{"op": "decode", "bytes": hx(b), "class": cls})
		}
	})
	c.Require("decode/accept", 500)
	c.Require("decode/reject:noncanonical", 100)
	c.Require("decode/reject:negative-s", 300)
	c.Require("decode/reject:nonsquare", 500)
	c.Require("decode/reject:negative-t", 300)
	c.Require("decode/reject:y-zero", 1)

	// lengths 0..70
	contents := []func(n int) []byte{
		func(n int) []byte { return make([]byte, n) },
		func(n int) []byte { return bytes.Repeat([]byte{0xff}, n) },
		func(n int) []byte { b := make([]byte, n); copy(b, benc); return b },
		func(n int) []byte { return append([]byte{}, bytes.Repeat(benc, 10)[:n]...) },
		func(n int) []byte {
			if n == 0 {
				return nil
			}
			return mc.Bytes(c.Seed, "c11-len", n, n)
		},
	}
	alphed.Par(c, "lengths", 301*len(contents), func(w *mc.W, i int) {
		n, k := i/len(contents), i%len(contents)
		b, intact := alphed.Guarded(contents[k](n))
		_, ok := ref.RistrettoDecode(b) // false for every length != 32
		cas := map[string]string{"len": fmt.Sprint(n), "bytes": hx(b)}
		w.Eval(fmt.Sprintf("lengths/len32=%v", n == 32), n != 32)
		for _, r := range receivers {
			p := r.mk()
			err := p.UnmarshalBinary(b)
			if n != 32 && err == nil {
				w.Fail("RistrettoPoint.UnmarshalBinary/length", fmt.Sprintf("(*RistrettoPoint).UnmarshalBinary accepted %d bytes (%x) without error on %s receiver", n, b, r.name), cas)
			} else if (err == nil) != ok {
				w.Fail("RistrettoPoint.UnmarshalBinary/lengths-content", fmt.Sprintf("UnmarshalBinary(%x): err=%v, RFC accepts=%v", b, err, ok), cas)
			}
			if !ok && !isIdentityState(p) {
				w.Fail("RistrettoPoint.UnmarshalBinary/receiver", fmt.Sprintf("after UnmarshalBinary of %d undecodable bytes the %s receiver is not the identity", n, r.name), cas)
			}
		}
		for k := 0; k < 2; k++ {
			var u curve.CompressedRistretto
			if k == 1 {
				copy(u[:], benc)
			}
			err := u.UnmarshalBinary(b)
			if n != 32 && err == nil {
				w.Fail("RistrettoPoint.UnmarshalBinary/length", fmt.Sprintf("(*CompressedRistretto).UnmarshalBinary accepted %d bytes (%x) without error", n, b), cas)
			} else if (err == nil) != ok {
				w.Fail("CompressedRistretto.UnmarshalBinary/lengths-content", fmt.Sprintf("UnmarshalBinary(%x): err=%v, RFC accepts=%v", b, err, ok), cas)
			}
			if !ok && !bytes.Equal(u[:], zero32) {
				w.Fail("CompressedRistretto.UnmarshalBinary/receiver", fmt.Sprintf("after UnmarshalBinary of %d undecodable bytes the receiver is %x", n, u[:]), cas)
			}
			var s curve.CompressedRistretto
			if k == 1 {
				copy(s[:], benc)
			}
			pre := s
			r, err := s.SetBytes(b)
			if (err == nil) != (n == 32) {
				w.Fail("CompressedRistretto.SetBytes/length", fmt.Sprintf("SetBytes with %d bytes: err=%v", n, err), cas)
			}
			if err == nil && (r != &s || !bytes.Equal(s[:], b)) {
				w.Fail("CompressedRistretto.SetBytes", "SetBytes did not copy its input", cas)
			}
			if err != nil && s != pre && !bytes.Equal(s[:], zero32) {
				w.Fail("CompressedRistretto.SetBytes/receiver", fmt.Sprintf("failed SetBytes(%d bytes) modified the receiver to %x", n, s[:]), cas)
			}
		}
		if !intact() {
			w.Fail("caller-memory/lengths", fmt.Sprintf("a decoder wrote to the caller's buffer (input of %d bytes)", n), cas)
		}
	})

	// two-step histories on one receiver over a core of inputs
	H := alphed.NewSet()
	H.Add(benc)
	H.Add(zero32)
	H.Add(els[len(els)-1].enc)
	for _, wantWhy := range []string{"noncanonical", "negative-s", "nonsquare", "negative-t", "y-zero"} {
		n := 0
		for _, b := range S {
			if reason(b) == wantWhy {
				H.Add(b)
				n++
				if n == 2 {
					break
				}
			}
		}
	}
	in := append([][]byte{}, H.Out...)
	in = append(in, nil, benc[:31], append(append([]byte{}, benc...), 0), append(append([]byte{}, benc...), benc...))
	type dec struct {
		p  ref.Point
		ok bool
	}
	ind := make([]dec, len(in))
	for i, b := range in {
		ind[i].p, ind[i].ok = ref.RistrettoDecode(b)
	}
	depth := c.Pick(3, 4)
	n := 1
	for k := 0; k < depth; k++ {
		n *= len(in)
	}
	c.Rep.Extra["history_alphabet"] = len(in)
	c.Rep.Extra["history_depth"] = depth
	alphed.Par(c, "histories", n, func(w *mc.W, i int) {
		var p curve.RistrettoPoint
		var cp curve.CompressedRistretto
		idx := make([]int, depth)
		j := i
		for k := depth - 1; k >= 0; k-- {
			idx[k] = j % len(in)
			j /= len(in)
		}
		desc := ""
		anyBad := false
		for step, ix := range idx {
			b := in[ix]
			desc += fmt.Sprintf("%x;", b)
			pt, ok := ind[ix].p, ind[ix].ok
			anyBad = anyBad || !ok
			cas := map[string]string{"history": desc}
			err := p.UnmarshalBinary(b)
			if len(b) != 32 && err == nil {
				w.Fail("RistrettoPoint.UnmarshalBinary/length", fmt.Sprintf("history %s: step %d accepted %d bytes without error", desc, step, len(b)), cas)
			} else if (err == nil) != ok {
				w.Fail("RistrettoPoint.UnmarshalBinary/history", fmt.Sprintf("history %s: step %d err=%v, RFC accepts=%v", desc, step, err, ok), cas)
			}
			if ok && err == nil && (!isElem(&p, pt) || !bytes.Equal(encOf(&p), b)) {
				w.Fail("RistrettoPoint.UnmarshalBinary/history-value", fmt.Sprintf("history %s: step %d decoded a wrong element", desc, step), cas)
			}
			if !ok && !isIdentityState(&p) {
				w.Fail("RistrettoPoint.UnmarshalBinary/receiver", fmt.Sprintf("history %s: after failing step %d the receiver is not the identity", desc, step), cas)
			}
			err = cp.UnmarshalBinary(b)
			if len(b) != 32 && err == nil {
				w.Fail("RistrettoPoint.UnmarshalBinary/length", fmt.Sprintf("history %s: (*CompressedRistretto) step %d accepted %d bytes without error", desc, step, len(b)), cas)
			} else if (err == nil) != ok {
				w.Fail("CompressedRistretto.UnmarshalBinary/history", fmt.Sprintf("history %s: step %d err=%v, RFC accepts=%v", desc, step, err, ok), cas)
			}
			if ok && err == nil && !bytes.Equal(cp[:], b) {
				w.Fail("CompressedRistretto.UnmarshalBinary/history-value", fmt.Sprintf("history %s: step %d stored %x", desc, step, cp[:]), cas)
			}
			if !ok && !bytes.Equal(cp[:], zero32) {
				w.Fail("CompressedRistretto.UnmarshalBinary/receiver", fmt.Sprintf("history %s: after failing step %d the receiver is %x", desc, step, cp[:]), cas)
			}
		}
		w.Eval("histories", anyBad)
	})

	// CompressedRistretto.Equal is a byte comparison
	Q := S
	if len(Q) > c.Pick(200, 500) {
		Q = Q[:c.Pick(200, 500)]
	}
	alphed.Par(c, "compressed-equal", len(Q)*len(Q), func(w *mc.W, i int) {
		a, b := Q[i/len(Q)], Q[i%len(Q)]
		var ca, cb curve.CompressedRistretto
		copy(ca[:], a)
		copy(cb[:], b)
		want := 0
		if bytes.Equal(a, b) {
			want = 1
		}
		w.Eval(fmt.Sprintf("compressed-equal/%d", want), want == 1)
		if got := ca.Equal(&cb); got != want {
			w.Fail("CompressedRistretto.Equal", fmt.Sprintf("Equal(%x,%x)=%d want %d", a, b, got, want), nil)
		}
	})
}

// cosetSpace builds every element in all four coset representatives x
// projective scalings, checks encoding/identity per representative and
// Equal/ConditionalSelect on all pairs.
func cosetSpace(c *mc.Ctx, els []*element, tor [8]ref.Point, lam []*big.Int) []*rrep {
	var reps []*rrep
	if !alphed.Guard(c, "representatives-build", func() {
		buildReps(&reps, els, tor, lam)
	}) {
		return nil
	}
	c.Rep.Extra["representatives"] = len(reps)
	return cosetChecks(c, els, reps)
}

func buildReps(out *[]*rrep, els []*element, tor [8]ref.Point, lam []*big.Int) {
	var reps []*rrep
	defer func() { *out = reps }()
	for k, e := range els {
		for _, cs := range []int{0, 2, 4, 6} {
			a := e.p.Add(tor[cs])
			z1 := edpts.FromRef(a)
			mk := func(kind string, isz1 bool, p *curve.EdwardsPoint) {
				reps = append(reps, &rrep{el: k, coset: cs, kind: kind, z1: isz1, r: wrap(p), aff: a})
			}
			mk("Z=1", true, z1)
			mk("rescale(2)", false, edpts.Rescale(z1, lam[1]))
			mk("coords(-1)", false, edpts.FromRefScaled(a, lam[2]))
			mk("rescale(generic0)", false, edpts.Rescale(z1, lam[3]))
			mk("coords(generic1)", false, edpts.FromRefScaled(a, lam[4]))
			// result of a library addition: (P - Q) + (Q + T)
			q := refmul.BaseMul(big.NewInt(int64(5 + k)))
			var s curve.EdwardsPoint
			s.Add(edpts.FromRef(e.p.Sub(q)), edpts.Rescale(edpts.FromRef(q.Add(tor[cs])), lam[4]))
			mk("lib.Add(P-Q,Q+T)", false, &s)
		}
	}
}

func cosetChecks(c *mc.Ctx, els []*element, reps []*rrep) []*rrep {

	alphed.Par(c, "representatives", len(reps), func(w *mc.W, i int) {
		r := reps[i]
		e := els[r.el]
		id := fmt.Sprintf("[%s]B + T%d as %s", e.s.Text(16), r.coset, r.kind)
		cas := map[string]string{"scalar": e.s.Text(16), "coset": fmt.Sprint(r.coset), "representation": r.kind}
		w.Eval(fmt.Sprintf("representatives/T%d", r.coset), r.coset != 0 || !r.z1)
		if q, ok := edpts.Affine(inner(r.r)); !ok || !(q.Equal(r.aff) || (edpts.Reduced && ref.RistrettoEqual(q, r.aff))) {
			w.Fail("representation/"+r.kind, fmt.Sprintf("%s: library-built representative is not the intended point", id), cas)
			return
		}
		// the reference itself must be coset-invariant
		if !bytes.Equal(ref.RistrettoEncode(r.aff), e.enc) {
			c.Broken(fmt.Sprintf("reference inconsistency: RistrettoEncode differs on coset T%d of [%x]B", r.coset, e.s))
			return
		}
		snapshot := *inner(r.r)
		if got := encOf(r.r); !bytes.Equal(got, e.enc) {
			w.Fail("RistrettoPoint.MarshalBinary", fmt.Sprintf("%s: encodes to %x want %x", id, got, e.enc), cas)
		}
		var cr curve.CompressedRistretto
		if ret := cr.SetRistrettoPoint(r.r); ret != &cr || !bytes.Equal(cr[:], e.enc) {
			w.Fail("CompressedRistretto.SetRistrettoPoint", fmt.Sprintf("%s: compresses to %x want %x", id, cr[:], e.enc), cas)
		}
		if mb, err := cr.MarshalBinary(); err != nil || !bytes.Equal(mb, cr[:]) {
			w.Fail("CompressedRistretto.MarshalBinary", "MarshalBinary does not return the bytes", cas)
		}
		var back curve.RistrettoPoint
		if _, err := back.SetCompressed(&cr); err != nil || !isElem(&back, e.p) || back.Equal(r.r) != 1 {
			w.Fail("RistrettoPoint.SetCompressed/after-encode", fmt.Sprintf("%s: decode(encode(P)) is not P (err=%v)", id, err), cas)
		}
		if got, want := r.r.IsIdentity(), e.s.Sign() == 0; got != want {
			w.Fail("RistrettoPoint.IsIdentity", fmt.Sprintf("%s: IsIdentity=%v want %v", id, got, want), cas)
		}
		var ng curve.RistrettoPoint
		ng.Neg(r.r)
		if !isElem(&ng, e.p.Neg()) {
			w.Fail("RistrettoPoint.Neg", fmt.Sprintf("%s: Neg is not -P", id), cas)
		}
		var cp curve.RistrettoPoint
		cp.Set(r.r)
		if !edpts.SameCoords(inner(&cp), inner(r.r)) {
			w.Fail("RistrettoPoint.Set", "Set does not copy", cas)
		}
		ex := curve.NewExpandedRistrettoPoint(r.r)
		pp := ex.Point()
		if pp.Equal(r.r) != 1 || !isElem(pp, e.p) || !bytes.Equal(encOf(pp), e.enc) {
			w.Fail("ExpandedRistrettoPoint.Point", fmt.Sprintf("%s: NewExpandedRistrettoPoint(p).Point() != p", id), cas)
		}
		var se curve.RistrettoPoint
		se.SetExpanded(ex)
		if !isElem(&se, e.p) {
			w.Fail("RistrettoPoint.SetExpanded", fmt.Sprintf("%s: SetExpanded(expanded(p)) != p", id), cas)
		}
		tbl := curve.NewRistrettoBasepointTable(r.r)
		if bp := tbl.Basepoint(); bp.Equal(r.r) != 1 || !isElem(bp, e.p) {
			w.Fail("RistrettoBasepointTable.Basepoint", fmt.Sprintf("%s: table basepoint != p", id), cas)
		}
		if !edpts.SameCoords(&snapshot, inner(r.r)) {
			w.Fail("argument-modified", fmt.Sprintf("%s: a read-only operation modified its argument", id), cas)
		}
		if i%97 == 0 {
			w.Sample(map[string]string{"op": "encode representative", "element": "[" + e.s.Text(16) + "]B", "coset": fmt.Sprint(r.coset), "representation": r.kind})
		}
	})
	for _, cs := range []int{0, 2, 4, 6} {
		c.Require(fmt.Sprintf("representatives/T%d", cs), int64(len(els)*6))
	}

	nr := len(reps)
	var sameClass [4][4]string
	for x := 0; x < 4; x++ {
		for y := 0; y < 4; y++ {
			sameClass[x][y] = fmt.Sprintf("equal/same:T%d-T%d", 2*x, 2*y)
		}
	}
	alphed.Par(c, "equal-pairs", nr*nr, func(w *mc.W, i int) {
		a, b := reps[i/nr], reps[i%nr]
		want := 0
		if ref.RistrettoEqual(a.aff, b.aff) {
			want = 1
		}
		if (want == 1) != (a.el == b.el) {
			c.Broken(fmt.Sprintf("reference inconsistency: RistrettoEqual on elements %d,%d cosets %d,%d", a.el, b.el, a.coset, b.coset))
			return
		}
		cls := "equal/distinct"
		if want == 1 {
			cls = sameClass[a.coset/2][b.coset/2]
		}
		w.Eval(cls, a != b && (want == 1 || !a.z1 || !b.z1))
		if got := a.r.Equal(b.r); got != want {
			w.Fail("RistrettoPoint.Equal", fmt.Sprintf("Equal([%x]B+T%d as %s, [%x]B+T%d as %s)=%d want %d", els[a.el].s, a.coset, a.kind, els[b.el].s, b.coset, b.kind, got, want),
				map[string]string{"a": fmt.Sprintf("[%x]B+T%d %s", els[a.el].s, a.coset, a.kind), "b": fmt.Sprintf("[%x]B+T%d %s", els[b.el].s, b.coset, b.kind)})
		}
		var s0, s1 curve.RistrettoPoint
		s0.ConditionalSelect(a.r, b.r, 0)
		s1.ConditionalSelect(a.r, b.r, 1)
		if !edpts.SameCoords(inner(&s0), inner(a.r)) || !edpts.SameCoords(inner(&s1), inner(b.r)) {
			w.Fail("RistrettoPoint.ConditionalSelect", "ConditionalSelect(a,b,0/1) did not return a/b", nil)
		}
		if i%49999 == 0 {
			w.Sample(map[string]string{"op": "Equal", "a": fmt.Sprintf("[%x]B+T%d as %s", els[a.el].s, a.coset, a.kind), "b": fmt.Sprintf("[%x]B+T%d as %s", els[b.el].s, b.coset, b.kind), "want": fmt.Sprint(want)})
		}
	})
	for _, x := range []int{0, 2, 4, 6} {
		for _, y := range []int{0, 2, 4, 6} {
			c.Require(fmt.Sprintf("equal/same:T%d-T%d", x, y), int64(len(els)*36))
		}
	}
	c.Require("equal/distinct", int64(len(els)*(len(els)-1)*24*24))
	return reps
}

// opsSpace: group operations on the representatives vs the reference group.
func opsSpace(c *mc.Ctx, els []*element, reps []*rrep) {
	const perEl = 24 // 4 cosets x 6 kinds
	rep := func(el, coset, kind int) *rrep { return reps[el*perEl+coset*6+kind] }
	ne := len(els)

	// Add / Sub on all element pairs x all 16 coset pairs x one (quick) / two (thorough) choices of scaling
	nv := c.Pick(1, 2)
	alphed.Par(c, "add-sub", ne*ne, func(w *mc.W, i int) {
		ia, ib := i/ne, i%ne
		ea, eb := els[ia], els[ib]
		sum, diff := ea.p.Add(eb.p), ea.p.Sub(eb.p)
		wantSum, wantDiff := ref.RistrettoEncode(sum), ref.RistrettoEncode(diff)
		nt := 0
		for ca := 0; ca < 4; ca++ {
			for cb := 0; cb < 4; cb++ {
				for v := 0; v < nv; v++ {
					ka, kb := (ca+cb+3*v+i)%6, (2*ca+cb+1+2*v+i/ne)%6
					a, b := rep(ia, ca, ka), rep(ib, cb, kb)
					if a.coset == 0 && b.coset == 0 && a.z1 && b.z1 {
						nt++ // both operands are the plain (T0, Z=1) representative
					}
					id := fmt.Sprintf("a=[%x]B+T%d as %s, b=[%x]B+T%d as %s", ea.s, a.coset, a.kind, eb.s, b.coset, b.kind)
					var s, d curve.RistrettoPoint
					deep := v == 0 && ca == cb // also read the internal representative back (two big-integer inversions)
					if ret := s.Add(a.r, b.r); ret != &s || !bytes.Equal(encOf(&s), wantSum) || (deep && !isElem(&s, sum)) {
						w.Fail("RistrettoPoint.Add", fmt.Sprintf("Add(%s) encodes to %x want %x", id, encOf(&s), wantSum), map[string]string{"case": id})
					}
					if ret := d.Sub(a.r, b.r); ret != &d || !bytes.Equal(encOf(&d), wantDiff) || (deep && !isElem(&d, diff)) {
						w.Fail("RistrettoPoint.Sub", fmt.Sprintf("Sub(%s) encodes to %x want %x", id, encOf(&d), wantDiff), map[string]string{"case": id})
					}
					// aliasing
					var al curve.RistrettoPoint
					al.Set(a.r)
					al.Add(&al, b.r)
					if !bytes.Equal(encOf(&al), wantSum) {
						w.Fail("RistrettoPoint.Add/alias", fmt.Sprintf("x.Add(x,b) for %s", id), nil)
					}
					// every other aliasing pattern of receiver and operands (the receiver may be an operand, as for
					// every other method of the library): results must not depend on it
					al.Set(b.r)
					if al.Add(a.r, &al); !bytes.Equal(encOf(&al), wantSum) {
						w.Fail("RistrettoPoint.Add/alias", fmt.Sprintf("x.Add(a,x) for %s", id), nil)
					}
					al.Set(a.r)
					if al.Sub(&al, b.r); !bytes.Equal(encOf(&al), wantDiff) {
						w.Fail("RistrettoPoint.Sub/alias", fmt.Sprintf("x.Sub(x,b) for %s: got %x want %x", id, encOf(&al), wantDiff), nil)
					}
					al.Set(b.r)
					if al.Sub(a.r, &al); !bytes.Equal(encOf(&al), wantDiff) {
						w.Fail("RistrettoPoint.Sub/alias", fmt.Sprintf("x.Sub(a,x) for %s: got %x want %x", id, encOf(&al), wantDiff), nil)
					}
					if ia == ib && ca == cb && v == 0 {
						al.Set(a.r)
						if al.Sub(&al, &al); al.IsIdentity() != true {
							w.Fail("RistrettoPoint.Sub/alias", fmt.Sprintf("x.Sub(x,x) is not the identity for %s", id), nil)
						}
						al.Set(a.r)
						al.Add(&al, &al)
						var dbl curve.RistrettoPoint
						dbl.Add(a.r, a.r)
						if al.Equal(&dbl) != 1 {
							w.Fail("RistrettoPoint.Add/alias", fmt.Sprintf("x.Add(x,x) for %s", id), nil)
						}
						al.Set(a.r)
						al.Neg(&al)
						var ng curve.RistrettoPoint
						ng.Neg(a.r)
						if al.Equal(&ng) != 1 {
							w.Fail("RistrettoPoint.Neg/alias", fmt.Sprintf("x.Neg(x) for %s", id), nil)
						}
					}
				}
			}
		}
		w.EvalN("add-sub", int64(2*(16*nv-nt)), true)
		if nt > 0 {
			w.EvalN("add-sub", int64(2*nt), false)
		}
		if i%131 == 0 {
			w.Sample(map[string]string{"op": "Add/Sub in 16 coset pairs", "a": "[" + ea.s.Text(16) + "]B", "b": "[" + eb.s.Text(16) + "]B"})
		}
	})

	// Sum over all lists of length 0..3 of a small element core (coset/scale varies with the position)
	small := c.Pick(7, 10)
	if small > ne {
		small = ne
	}
	pick := make([]int, small)
	for k := range pick {
		pick[k] = k * ne / small
	}
	total, offs := 0, []int{}
	for n, p := 0, 1; n <= 3; n++ {
		offs = append(offs, total)
		total += p
		p *= small
	}
	alphed.Par(c, "sum", total, func(w *mc.W, i int) {
		n := 0
		for n+1 < len(offs) && i >= offs[n+1] {
			n++
		}
		j := i - offs[n]
		acc := ref.Identity()
		var list []*curve.RistrettoPoint
		desc := ""
		for k := 0; k < n; k++ {
			el := pick[j%small]
			j /= small
			acc = acc.Add(els[el].p)
			r := rep(el, (k+i)%4, (2*k+i)%6)
			list = append(list, r.r)
			desc += fmt.Sprintf("[%x]B+T%d,", els[el].s, r.coset)
		}
		want := ref.RistrettoEncode(acc)
		var s curve.RistrettoPoint
		s.Set(rep(1, 1, 3).r) // receiver previously holds something else
		if ret := s.Sum(list); ret != &s || !bytes.Equal(encOf(&s), want) {
			w.Fail("RistrettoPoint.Sum", fmt.Sprintf("Sum(%s) encodes to %x want %x", desc, encOf(&s), want), map[string]string{"list": desc})
		}
		w.Eval("sum", n >= 2)
	})

	// scalar multiplication flavours: element x scalar (the scalars are the element scalars themselves)
	refBaseMul := make([]ref.Point, ne) // [s_k]B = element k
	for k, e := range els {
		refBaseMul[k] = e.p
	}
	// scalars: the element scalars themselves (quick: 12 of them spread over the alphabet; thorough: all)
	nk := c.Pick(8, 36)
	if nk > ne {
		nk = ne
	}
	kidx := make([]int, nk)
	for k := range kidx {
		kidx[k] = (k*ne + ne/2) / nk % ne
	}
	c.Rep.Extra["scalar_mul_scalars"] = nk
	alphed.Par(c, "scalar-mul", ne*nk, func(w *mc.W, i int) {
		ie, ia := i/nk, kidx[i%nk]
		e, a := els[ie], els[ia].s
		ib := (3*ia + 5*ie + 1) % ne
		b := els[ib].s
		aA := refmul.BaseMul(ref.SMul(a, e.s))
		aAbB := aA.Add(refBaseMul[ib])
		wantMul, wantDbl := ref.RistrettoEncode(aA), ref.RistrettoEncode(aAbB)
		sa, sb := sc(a), sc(b)
		id := fmt.Sprintf("A=[%x]B a=%x b=%x", e.s, a, b)
		cas := map[string]string{"A": "[" + e.s.Text(16) + "]B", "a": a.Text(16), "b": b.Text(16)}
		for cs := 0; cs < 4; cs++ {
			A := rep(ie, cs, (cs+i)%6)
			var m curve.RistrettoPoint
			if ret := m.Mul(A.r, sa); ret != &m || !bytes.Equal(encOf(&m), wantMul) {
				w.Fail("RistrettoPoint.Mul", fmt.Sprintf("%s coset T%d as %s: Mul encodes to %x want %x", id, A.coset, A.kind, encOf(&m), wantMul), cas)
			}
			var d curve.RistrettoPoint
			if ret := d.DoubleScalarMulBasepointVartime(sa, A.r, sb); ret != &d || !bytes.Equal(encOf(&d), wantDbl) {
				w.Fail("RistrettoPoint.DoubleScalarMulBasepointVartime", fmt.Sprintf("%s coset T%d as %s: encodes to %x want %x", id, A.coset, A.kind, encOf(&d), wantDbl), cas)
			}
			var xd curve.RistrettoPoint
			xd.ExpandedDoubleScalarMulBasepointVartime(sa, curve.NewExpandedRistrettoPoint(A.r), sb)
			if !bytes.Equal(encOf(&xd), wantDbl) {
				w.Fail("RistrettoPoint.ExpandedDoubleScalarMulBasepointVartime", fmt.Sprintf("%s coset T%d as %s: encodes to %x want %x", id, A.coset, A.kind, encOf(&xd), wantDbl), cas)
			}
			Bp := rep(1, (cs+1)%4, (cs+2)%6) // a representative of B = [1]B (element index 1 is s=1)
			if els[1].s.Cmp(big.NewInt(1)) != 0 {
				c.Broken("element 1 is not the base point")
				return
			}
			var ms, mv curve.RistrettoPoint
			ms.MultiscalarMul([]*scalar.Scalar{sa, sb}, []*curve.RistrettoPoint{A.r, Bp.r})
			mv.MultiscalarMulVartime([]*scalar.Scalar{sa, sb}, []*curve.RistrettoPoint{A.r, Bp.r})
			if !bytes.Equal(encOf(&ms), wantDbl) {
				w.Fail("RistrettoPoint.MultiscalarMul", fmt.Sprintf("%s coset T%d: encodes to %x want %x", id, A.coset, encOf(&ms), wantDbl), cas)
			}
			if !bytes.Equal(encOf(&mv), wantDbl) {
				w.Fail("RistrettoPoint.MultiscalarMulVartime", fmt.Sprintf("%s coset T%d: encodes to %x want %x", id, A.coset, encOf(&mv), wantDbl), cas)
			}
			if cs == i%4 {
				// custom table from this representative
				tbl := curve.NewRistrettoBasepointTable(A.r)
				var tm curve.RistrettoPoint
				if ret := tm.MulBasepoint(tbl, sa); ret != &tm || !bytes.Equal(encOf(&tm), wantMul) {
					w.Fail("RistrettoPoint.MulBasepoint/custom-table", fmt.Sprintf("%s coset T%d as %s: encodes to %x want %x", id, A.coset, A.kind, encOf(&tm), wantMul), cas)
				}
			}
		}
		w.EvalN("scalar-mul", 3, true)
		w.EvalN("scalar-mul", 1, (i%6) != 0) // the T0 representative is the plain Z=1 one when (0+i)%6 == 0
		if i%173 == 0 {
			w.Sample(map[string]string{"op": "Mul/DoubleScalarMul/Multiscalar in 4 cosets", "A": "[" + e.s.Text(16) + "]B", "a": a.Text(16), "b": b.Text(16)})
		}
	})

	// fixed-base multiplication and empty multiscalar
	alphed.Par(c, "basepoint-mul", ne, func(w *mc.W, i int) {
		e := els[i]
		var m curve.RistrettoPoint
		if ret := m.MulBasepoint(curve.RISTRETTO_BASEPOINT_TABLE, sc(e.s)); ret != &m || !bytes.Equal(encOf(&m), e.enc) || !isElem(&m, e.p) {
			w.Fail("RistrettoPoint.MulBasepoint", fmt.Sprintf("[%x]B encodes to %x want %x", e.s, encOf(&m), e.enc), map[string]string{"s": e.s.Text(16)})
		}
		var v curve.RistrettoPoint
		v.Mul(curve.RISTRETTO_BASEPOINT_POINT, sc(e.s))
		if !bytes.Equal(encOf(&v), e.enc) {
			w.Fail("RistrettoPoint.Mul/basepoint", fmt.Sprintf("Mul(B,%x) encodes to %x want %x", e.s, encOf(&v), e.enc), nil)
		}
		w.Eval("basepoint-mul", true)
	})
	alphed.Par(c, "constants", 1, func(w *mc.W, i int) {
		w.Eval("constants", true)
		if !bytes.Equal(curve.RISTRETTO_BASEPOINT_COMPRESSED[:], ref.RistrettoEncode(ref.Base)) {
			w.Fail("RISTRETTO_BASEPOINT_COMPRESSED", "constant is not the RFC generator encoding", nil)
		}
		if !isElem(curve.RISTRETTO_BASEPOINT_POINT, ref.Base) || !isElem(curve.RISTRETTO_BASEPOINT_TABLE.Basepoint(), ref.Base) {
			w.Fail("RISTRETTO_BASEPOINT_POINT", "constant is not the generator", nil)
		}
		id := curve.NewRistrettoPoint()
		if !id.IsIdentity() || !bytes.Equal(encOf(id), zero32) {
			w.Fail("RistrettoPoint.Identity", "identity does not encode to zero", nil)
		}
		if ci := curve.NewCompressedRistretto(); !bytes.Equal(ci[:], zero32) {
			w.Fail("CompressedRistretto.Identity", "compressed identity is not zero", nil)
		}
		var e0, e1 curve.RistrettoPoint
		e0.Set(curve.RISTRETTO_BASEPOINT_POINT)
		e1.Set(curve.RISTRETTO_BASEPOINT_POINT)
		e0.MultiscalarMul(nil, nil)
		e1.MultiscalarMulVartime(nil, nil)
		if !e0.IsIdentity() || !e1.IsIdentity() {
			w.Fail("RistrettoPoint.MultiscalarMul/empty", "empty multiscalar multiplication is not the identity", nil)
		}
	})
}

// uniformSpace: SetUniformBytes on Phi x Phi halves, lengths, SetRandom.
func uniformSpace(c *mc.Ctx) {
	// special r0: the four values with D = 0 in the Elligator map (r = i r0^2 in {-d, -1/d})
	var extra []*big.Int
	for _, q := range []*big.Int{ref.FMul(ref.SqrtM1, ref.D), ref.FDiv(ref.SqrtM1, ref.D)} {
		if r, ok := ref.FSqrt(q); ok {
			extra = append(extra, r, ref.FNeg(r))
		}
	}
	Phi := alphed.FieldStrings(c.Seed, c.Pick(16, 70), extra, c.Thorough)
	c.Rep.Extra["alphabet_Phi_strings"] = len(Phi)
	type half struct {
		m     ref.Point
		class string
	}
	hs := make([]half, len(Phi))
	var wg sync.WaitGroup
	for i := range Phi {
		wg.Add(1)
		go func(i int) {
			defer wg.Done()
			b := append([]byte{}, Phi[i]...)
			b[31] &= 0x7f
			r0 := ref.FMod(ref.FromLE(b))
			hs[i].m = ref.RistrettoMap(r0)
			r := ref.FMul(ref.SqrtM1, ref.FSq(r0))
			u := ref.FMul(ref.FAdd(r, big.NewInt(1)), ref.OneMinusDSq)
			v := ref.FMul(ref.FSub(ref.FNeg(big.NewInt(1)), ref.FMul(r, ref.D)), ref.FAdd(r, ref.D))
			sq, _ := ref.SqrtRatioI(u, v)
			switch {
			case v.Sign() == 0:
				hs[i].class = "D=0"
			case sq:
				hs[i].class = "square"
			default:
				hs[i].class = "nonsquare"
			}
		}(i)
	}
	wg.Wait()
	np := len(Phi)
	alphed.Par(c, "uniform", np*np, func(w *mc.W, i int) {
		i0, i1 := i/np, i%np
		in, intact := alphed.Guarded(append(append([]byte{}, Phi[i0]...), Phi[i1]...))
		want := ref.RistrettoEncode(hs[i0].m.Add(hs[i1].m))
		if ref.RistrettoEqual(hs[i0].m, hs[i1].m) {
			// both Elligator images are the same element (equal halves, bit-255 twins, negated values, v and v+p):
			// the sum is a doubling, which a non-unified addition gets wrong
			w.Eval("uniform/colliding-halves", i0 != i1)
		}
		if i%257 == 0 {
			// the cached halves are only an optimisation of the reference
			if !bytes.Equal(want, ref.RistrettoEncode(ref.RistrettoFromUniform(in))) {
				c.Broken("reference inconsistency: cached MAP halves differ from RistrettoFromUniform")
				return
			}
		}
		plain := func(k int) bool {
			return hs[k].class == "square" && ref.FromLE(Phi[k]).Cmp(ref.P) < 0 && ref.FromLE(Phi[k]).Sign() != 0
		}
		w.Eval("uniform/"+hs[i0].class+"+"+hs[i1].class, !(plain(i0) && plain(i1)))
		defer func() {
			if !intact() {
				w.Fail("caller-memory/uniform", fmt.Sprintf("SetUniformBytes/SetRandom wrote to the caller's buffer (%x)", in), nil)
			}
		}()
		var p curve.RistrettoPoint
		p.Set(curve.RISTRETTO_BASEPOINT_POINT)
		ret, err := p.SetUniformBytes(in)
		if err != nil || ret != &p {
			w.Fail("RistrettoPoint.SetUniformBytes/error", fmt.Sprintf("SetUniformBytes(%x): err=%v", in, err), map[string]string{"bytes": hx(in)})
			return
		}
		if got := encOf(&p); !bytes.Equal(got, want) {
			w.Fail("RistrettoPoint.SetUniformBytes", fmt.Sprintf("SetUniformBytes(%x) encodes to %x want %x (halves: %s, %s)", in, got, want, hs[i0].class, hs[i1].class), map[string]string{"bytes": hx(in)})
		}
		if q, ok := edpts.Affine(inner(&p)); !ok || !q.OnCurve() {
			w.Fail("RistrettoPoint.SetUniformBytes/malformed", fmt.Sprintf("SetUniformBytes(%x): internal point is malformed", in), nil)
		}
		if i%(np+1) == 0 || i%61 == 0 {
			// SetRandom(reader) = SetUniformBytes(first 64 bytes read), also from a reader that returns one byte at a time
			var a, b curve.RistrettoPoint
			_, ea := a.SetRandom(bytes.NewReader(append(append([]byte{}, in...), 0xaa, 0xbb)))
			_, eb := b.SetRandom(oneByteReader{bytes.NewReader(in)})
			if ea != nil || eb != nil || !bytes.Equal(encOf(&a), want) || !bytes.Equal(encOf(&b), want) {
				w.Fail("RistrettoPoint.SetRandom", fmt.Sprintf("SetRandom(reader over %x) is not SetUniformBytes of the first 64 bytes (err %v, %v)", in, ea, eb), nil)
			}
			var s curve.RistrettoPoint
			if _, err := s.SetRandom(bytes.NewReader(in[:63])); err == nil {
				w.Fail("RistrettoPoint.SetRandom/short", "a 63-byte entropy source did not produce an error", nil)
			}
			w.Eval("setrandom", true)
		}
		if i%997 == 0 {
			w.Sample(map[string]string{"op": "SetUniformBytes", "bytes": hx(in), "halves": hs[i0].class + "+" + hs[i1].class})
		}
	})
	for _, a := range []string{"square", "nonsquare"} {
		for _, b := range []string{"square", "nonsquare"} {
			c.Require("uniform/"+a+"+"+b, 100)
		}
	}
	c.Require("uniform/D=0+D=0", 4)
	c.Require("uniform/colliding-halves", int64(np+40))
	c.Require("uniform/D=0+square", 4)
	c.Require("uniform/nonsquare+D=0", 4)

	alphed.Par(c, "uniform-lengths", 301, func(w *mc.W, n int) {
		b, intact := alphed.Guarded(mc.Bytes(c.Seed, "c11-uniform-len", n, n))
		defer func() {
			if !intact() {
				w.Fail("caller-memory/uniform", fmt.Sprintf("SetUniformBytes wrote to the caller's buffer (%d bytes)", n), nil)
			}
		}()
		var p curve.RistrettoPoint
		_, err := p.SetUniformBytes(b)
		w.Eval(fmt.Sprintf("uniform-lengths/len64=%v", n == 64), n != 64)
		if (err == nil) != (n == 64) {
			w.Fail("RistrettoPoint.SetUniformBytes/length", fmt.Sprintf("SetUniformBytes with %d bytes: err=%v", n, err), map[string]int{"len": n})
		}
		if n == 64 && err == nil {
			if !bytes.Equal(encOf(&p), ref.RistrettoEncode(ref.RistrettoFromUniform(b))) {
				w.Fail("RistrettoPoint.SetUniformBytes", fmt.Sprintf("SetUniformBytes(%x) wrong", b), nil)
			}
		}
	})
}
