package main

// Round-4 themes (notes/THEMES.md):
//   T13 representation-level special values: coset representatives in which ONE projective coordinate is +-1 / Z = 1/3
//   T11 memory the library hands out (Basepoint(), Point(), MarshalBinary, constructors) vs the package-level values
//   T14 multiscalar size thresholds (Straus -> Pippenger at 190; Pippenger windows at 500 / 800) through the ristretto entry points
//   T12 nil entropy source == a supplied reader as far as the contract goes

import (
	"bytes"
	"fmt"
	"math/big"

	"github.com/oasisprotocol/curve25519-voi/curve"
	"github.com/oasisprotocol/curve25519-voi/curve/scalar"
	"github.com/oasisprotocol/curve25519-voi/internal/verif/alph/alphed"
	"github.com/oasisprotocol/curve25519-voi/internal/verif/alph/edpts"
	"github.com/oasisprotocol/curve25519-voi/internal/verif/mc"
	"github.com/oasisprotocol/curve25519-voi/internal/verif/ref"
	"github.com/oasisprotocol/curve25519-voi/internal/verif/ref/refmul"
)

// observeRistrettoGlobals compares the exported package-level ristretto values with the reference.
func observeRistrettoGlobals(w *mc.W, when string) {
	bad := func(what string) {
		w.Fail("package-level-value/"+what, fmt.Sprintf("%s: the exported value %s no longer equals its definition", when, what), map[string]string{"after": when})
	}
	benc := ref.RistrettoEncode(ref.Base)
	if !isElem(curve.RISTRETTO_BASEPOINT_POINT, ref.Base) || !bytes.Equal(encOf(curve.RISTRETTO_BASEPOINT_POINT), benc) {
		bad("RISTRETTO_BASEPOINT_POINT")
	}
	if !bytes.Equal(curve.RISTRETTO_BASEPOINT_COMPRESSED[:], benc) {
		bad("RISTRETTO_BASEPOINT_COMPRESSED")
	}
	if bp := curve.RISTRETTO_BASEPOINT_TABLE.Basepoint(); !isElem(bp, ref.Base) || !bytes.Equal(encOf(bp), benc) {
		bad("RISTRETTO_BASEPOINT_TABLE.Basepoint()")
	}
	k := big.NewInt(0x2b3c4d5e)
	var m, v curve.RistrettoPoint
	m.MulBasepoint(curve.RISTRETTO_BASEPOINT_TABLE, sc(k))
	v.Mul(curve.RISTRETTO_BASEPOINT_POINT, sc(k))
	want := ref.RistrettoEncode(refmul.BaseMul(k))
	if !bytes.Equal(encOf(&m), want) {
		bad("RISTRETTO_BASEPOINT_TABLE (MulBasepoint)")
	}
	if !bytes.Equal(encOf(&v), want) {
		bad("RISTRETTO_BASEPOINT_POINT (Mul)")
	}
	if !edpts.Is(curve.ED25519_BASEPOINT_POINT, ref.Base) || !edpts.Is(curve.ED25519_BASEPOINT_TABLE.Basepoint(), ref.Base) {
		bad("ED25519_BASEPOINT_POINT / TABLE")
	}
}

func clobber(p *curve.RistrettoPoint) {
	p.Add(p, p)
	p.Add(p, curve.NewRistrettoPoint().Add(p, p))
}

func themes2(c *mc.Ctx, els []*element, tor [8]ref.Point, lam []*big.Int) {
	// ---------------------------------------------------------------- T13
	ne := c.Pick(8, 16)
	if ne > len(els) {
		ne = len(els)
	}
	core := []*element{els[0], els[1]}
	for k := 0; len(core) < ne; k++ {
		core = append(core, els[2+k*(len(els)-2)/(ne-2)])
	}
	type srep struct {
		el   int
		name string
		r    *curve.RistrettoPoint
		aff  ref.Point
	}
	var sreps []srep
	if !alphed.Guard(c, "coordinate-special-build", func() {
		for k, e := range core {
			for _, cs := range []int{0, 2, 4, 6} {
				a := e.p.Add(tor[cs])
				x, y := ref.FMod(a.X), ref.FMod(a.Y)
				t := ref.FMul(x, y)
				add := func(name string, l *big.Int) {
					sreps = append(sreps, srep{k, fmt.Sprintf("[%x]B+T%d scaled by %s", e.s, cs, name), wrap(edpts.FromRefScaled(a, l)), a})
				}
				add("1", big.NewInt(1))
				add("1/3", ref.FInv(big.NewInt(3)))
				if x.Sign() != 0 {
					add("1/X", ref.FInv(x))
					add("-1/X", ref.FNeg(ref.FInv(x)))
				}
				if y.Sign() != 0 {
					add("1/Y", ref.FInv(y))
					add("-1/Y", ref.FNeg(ref.FInv(y)))
					sreps = append(sreps, srep{k, fmt.Sprintf("[%x]B+T%d rescaled (hook) by 1/Y", e.s, cs), wrap(edpts.Rescale(edpts.FromRef(a), ref.FInv(y))), a})
				}
				if t.Sign() != 0 {
					add("1/T", ref.FInv(t))
				}
			}
		}
	}) {
		return
	}
	ns := len(sreps)
	c.Rep.Extra["coordinate_special_representatives"] = ns
	alphed.Par(c, "coordinate-special", ns*ns, func(w *mc.W, i int) {
		a, b := sreps[i/ns], sreps[i%ns]
		want := 0
		if a.el == b.el {
			want = 1
		}
		w.Eval(fmt.Sprintf("coordinate-special/equal=%d", want), true)
		if got := a.r.Equal(b.r); got != want {
			w.Fail("RistrettoPoint.Equal/coordinate-special", fmt.Sprintf("Equal(%s, %s)=%d want %d", a.name, b.name, got, want), map[string]string{"a": a.name, "b": b.name})
		}
		if i/ns != i%ns {
			return
		}
		e := core[a.el]
		if q, ok := edpts.Affine(inner(a.r)); !ok || !(q.Equal(a.aff) || (edpts.Reduced && ref.RistrettoEqual(q, a.aff))) {
			w.Fail("representation/coordinate-special", a.name+": hook-built representative is not the intended point", nil)
			return
		}
		if got := encOf(a.r); !bytes.Equal(got, e.enc) {
			w.Fail("RistrettoPoint.MarshalBinary/coordinate-special", fmt.Sprintf("%s encodes to %x want %x", a.name, got, e.enc), map[string]string{"a": a.name})
		}
		var cr curve.CompressedRistretto
		if cr.SetRistrettoPoint(a.r); !bytes.Equal(cr[:], e.enc) {
			w.Fail("CompressedRistretto.SetRistrettoPoint/coordinate-special", fmt.Sprintf("%s compresses to %x want %x", a.name, cr[:], e.enc), nil)
		}
		if got := a.r.IsIdentity(); got != (e.s.Sign() == 0) {
			w.Fail("RistrettoPoint.IsIdentity/coordinate-special", fmt.Sprintf("%s: IsIdentity=%v", a.name, got), nil)
		}
		var s, d, n curve.RistrettoPoint
		s.Add(a.r, curve.RISTRETTO_BASEPOINT_POINT)
		d.Sub(a.r, a.r)
		n.Neg(a.r)
		if !bytes.Equal(encOf(&s), ref.RistrettoEncode(e.p.Add(ref.Base))) || !d.IsIdentity() || !bytes.Equal(encOf(&n), ref.RistrettoEncode(e.p.Neg())) {
			w.Fail("RistrettoPoint.Add/coordinate-special", fmt.Sprintf("%s: P+B, P-P or -P is wrong", a.name), nil)
		}
		k := core[(a.el+1)%len(core)].s
		var m curve.RistrettoPoint
		m.Mul(a.r, sc(k))
		if !bytes.Equal(encOf(&m), ref.RistrettoEncode(refmul.Mul(e.p, k))) {
			w.Fail("RistrettoPoint.Mul/coordinate-special", fmt.Sprintf("%s: [%x]P is wrong", a.name, k), nil)
		}
	})
	c.Require("coordinate-special/equal=1", int64(ne*16*16))

	// ---------------------------------------------------------------- T11
	g := core[len(core)-1]
	h := core[len(core)-2]
	k := core[2].s
	type handout struct {
		name string
		run  func(fail func(string))
	}
	is := func(p *curve.RistrettoPoint, e *element) bool { return isElem(p, e.p) && bytes.Equal(encOf(p), e.enc) }
	hs := []handout{
		{"RISTRETTO_BASEPOINT_TABLE.Basepoint()", func(fail func(string)) {
			b1 := curve.RISTRETTO_BASEPOINT_TABLE.Basepoint()
			b2 := curve.RISTRETTO_BASEPOINT_TABLE.Basepoint()
			if b1 == b2 || b1 == curve.RISTRETTO_BASEPOINT_POINT {
				fail("two calls return the same pointer (or the package-level generator)")
			}
			b1.Add(b1, b1) // acc := tbl.Basepoint(); acc.Add(acc, acc)
			clobber(b1)
			if !is(b2, els[1]) || !is(curve.RISTRETTO_BASEPOINT_TABLE.Basepoint(), els[1]) {
				fail("writing to the returned point changed an earlier / later result")
			}
		}},
		{"custom RistrettoBasepointTable", func(fail func(string)) {
			src := wrap(edpts.FromRefScaled(g.p.Add(tor[2]), lam[3]))
			tbl := curve.NewRistrettoBasepointTable(src)
			early := tbl.Basepoint()
			clobber(src)
			if !is(tbl.Basepoint(), g) || !is(early, g) {
				fail("the table's basepoint changed with the source point")
			}
			clobber(tbl.Basepoint())
			var m curve.RistrettoPoint
			m.MulBasepoint(tbl, sc(k))
			if !is(tbl.Basepoint(), g) || !is(early, g) || !bytes.Equal(encOf(&m), ref.RistrettoEncode(refmul.Mul(g.p, k))) {
				fail("writing to Basepoint() changed the table")
			}
		}},
		{"ExpandedRistrettoPoint.Point()", func(fail func(string)) {
			src := wrap(edpts.FromRefScaled(g.p.Add(tor[4]), lam[4]))
			ex := curve.NewExpandedRistrettoPoint(src)
			p1 := ex.Point()
			clobber(src)
			if !is(ex.Point(), g) || !is(p1, g) {
				fail("the expanded point changed with its source")
			}
			clobber(p1)
			var r curve.RistrettoPoint
			r.ExpandedDoubleScalarMulBasepointVartime(sc(k), ex, sc(big.NewInt(0)))
			if !is(ex.Point(), g) || !bytes.Equal(encOf(&r), ref.RistrettoEncode(refmul.Mul(g.p, k))) {
				fail("writing to Point() changed the expanded point")
			}
			p2 := ex.Point()
			ex.SetRistrettoPoint(wrap(edpts.FromRef(h.p)))
			if !is(p2, g) || !is(ex.Point(), h) {
				fail("re-setting the expanded point changed a value returned earlier")
			}
			var s curve.RistrettoPoint
			s.SetExpanded(ex)
			clobber(&s)
			if !is(ex.Point(), h) {
				fail("SetExpanded shares memory with the expanded point")
			}
		}},
		{"MarshalBinary", func(fail func(string)) {
			for _, mk := range []func() ([]byte, error){
				curve.RISTRETTO_BASEPOINT_POINT.MarshalBinary, curve.RISTRETTO_BASEPOINT_COMPRESSED.MarshalBinary,
				curve.RISTRETTO_BASEPOINT_TABLE.Basepoint().MarshalBinary,
			} {
				b, err := mk()
				if err != nil {
					fail("MarshalBinary error " + err.Error())
					continue
				}
				b = b[:cap(b)]
				for i := range b {
					b[i] = 0xff
				}
			}
		}},
		{"constructors and decoders", func(fail func(string)) {
			a, b := curve.NewRistrettoPoint(), curve.NewRistrettoPoint()
			a.Add(a, curve.RISTRETTO_BASEPOINT_POINT)
			if a == b || !b.IsIdentity() || !curve.NewRistrettoPoint().IsIdentity() {
				fail("NewRistrettoPoint results share memory")
			}
			ca, cb := curve.NewCompressedRistretto(), curve.NewCompressedRistretto()
			for i := range ca {
				ca[i] = 0xff
			}
			if ca == cb || !bytes.Equal(cb[:], zero32) || !bytes.Equal(curve.NewCompressedRistretto()[:], zero32) {
				fail("NewCompressedRistretto results share memory")
			}
			in := append([]byte{}, g.enc...)
			var p curve.RistrettoPoint
			var cp curve.CompressedRistretto
			_ = p.UnmarshalBinary(in)
			_, _ = cp.SetBytes(in)
			for i := range in {
				in[i] = 0xff
			}
			if !is(&p, g) || !bytes.Equal(cp[:], g.enc) {
				fail("a decoder keeps a reference to its input")
			}
			u := mc.Bytes(c.Seed, "c11-handout-uniform", 0, 64)
			want := ref.RistrettoEncode(ref.RistrettoFromUniform(u))
			var q curve.RistrettoPoint
			_, _ = q.SetUniformBytes(u)
			for i := range u {
				u[i] = 0
			}
			if !bytes.Equal(encOf(&q), want) {
				fail("SetUniformBytes keeps a reference to its input")
			}
		}},
		{"package-level values as operands", func(fail func(string)) {
			var a, b curve.RistrettoPoint
			a.Set(curve.RISTRETTO_BASEPOINT_POINT)
			clobber(&a)
			b.ConditionalSelect(curve.RISTRETTO_BASEPOINT_POINT, curve.NewRistrettoPoint(), 0)
			clobber(&b)
			var cr curve.CompressedRistretto
			cr.SetRistrettoPoint(curve.RISTRETTO_BASEPOINT_POINT)
			cr[0] ^= 0xff
			var d curve.RistrettoPoint
			_, _ = d.SetCompressed(curve.RISTRETTO_BASEPOINT_COMPRESSED)
			clobber(&d)
		}},
	}
	alphed.Par(c, "handed-out-memory", len(hs), func(w *mc.W, i int) {
		hd := hs[i]
		w.Eval("handed-out-memory", true)
		observeRistrettoGlobals(w, "before "+hd.name)
		hd.run(func(msg string) {
			w.Fail("handed-out-memory/"+hd.name, hd.name+": "+msg, map[string]string{"handout": hd.name})
		})
		observeRistrettoGlobals(w, "after overwriting the result of "+hd.name)
	})

	// ---------------------------------------------------------------- T14: size thresholds of the variable-time multiscalar paths
	// (size, variant) cases: the Straus/Pippenger threshold with three variants; the Pippenger window thresholds
	// (radix 64 -> 128 at 500, -> 256 at 800) with one variant in the quick tier, three in the thorough tier
	type tcase struct{ n, variant int }
	var tcases []tcase
	for _, n := range []int{1, 2, 189, 190, 191} {
		for v := 0; v < 3; v++ {
			tcases = append(tcases, tcase{n, v})
		}
	}
	for _, n := range []int{499, 500, 501, 799, 800, 801} {
		for v := 0; v < c.Pick(1, 3); v++ {
			tcases = append(tcases, tcase{n, v})
		}
	}
	// recoding extremes of every window width w = 6, 7, 8 (signed radix-2^w digits lie in [-2^(w-1), 2^(w-1))):
	// the window value 2^(w-1) recodes to the most negative digit, 2^(w-1)-1 to the most positive one, 2^w-1 to -1 with
	// a carry chain; alone, repeated over the whole scalar, and as byte patterns; reduced (< 2^252) and full 255-bit ones
	type xs struct {
		v   *big.Int
		raw bool // through scalar.NewFromBits (not reduced)
	}
	var extremes []xs
	for _, wd := range []uint{6, 7, 8} {
		half := new(big.Int).Lsh(big.NewInt(1), wd-1)
		for _, d := range []*big.Int{half, new(big.Int).Sub(half, big.NewInt(1)), new(big.Int).Sub(new(big.Int).Lsh(half, 1), big.NewInt(1)), new(big.Int).Add(half, big.NewInt(1))} {
			extremes = append(extremes, xs{new(big.Int).Set(d), false})                  // a single window (e.g. the scalars 32, 64, 128)
			extremes = append(extremes, xs{new(big.Int).Lsh(d, wd*uint(120/wd)), false}) // the same digit in a middle window
			rep := new(big.Int)
			for k := uint(0); (k+1)*wd <= 252; k++ {
				rep.Or(rep, new(big.Int).Lsh(d, k*wd))
			}
			extremes = append(extremes, xs{rep, false}) // every window
		}
	}
	for _, b := range []byte{0x80, 0x7f, 0xff, 0x81} {
		extremes = append(extremes, xs{new(big.Int).SetBytes(bytes.Repeat([]byte{b}, 31)), false})
		full := bytes.Repeat([]byte{b}, 32)
		full[0] &= 0x7f // big-endian top byte: keep the value below 2^255
		extremes = append(extremes, xs{new(big.Int).SetBytes(full), true})
	}
	extremes = append(extremes, xs{new(big.Int).Sub(new(big.Int).Lsh(big.NewInt(1), 255), big.NewInt(1)), true}, xs{new(big.Int).Lsh(big.NewInt(1), 254), true},
		xs{new(big.Int).Sub(ref.L, big.NewInt(1)), false}, xs{new(big.Int).Sub(new(big.Int).Lsh(big.NewInt(1), 252), big.NewInt(1)), false})
	rawSc := func(v *big.Int) *scalar.Scalar {
		s, err := scalar.NewFromBits(ref.LE32(v))
		if err != nil {
			panic(err)
		}
		return s
	}
	c.Rep.Extra["multiscalar_recoding_extremes"] = len(extremes)
	alphed.Par(c, "multiscalar-thresholds", len(tcases), func(w *mc.W, i int) {
		n, variant := tcases[i].n, tcases[i].variant
		w.Eval(fmt.Sprintf("multiscalar-thresholds/%d", n), n >= 189)
		acc := big.NewInt(0)
		scalars := make([]*scalar.Scalar, n)
		points := make([]*curve.RistrettoPoint, n)
		for j := 0; j < n; j++ {
			e := els[(j*7+variant)%len(els)]
			var sj *big.Int
			isRaw := false
			switch {
			case j == n-1 && variant == 1:
				sj = big.NewInt(0) // a zero scalar on the far side
			case n >= 189 && j >= 3 && j-3 < len(extremes):
				sj, isRaw = extremes[j-3].v, extremes[j-3].raw // the recoding extremes of every window width
			case j%5 == 0:
				sj = new(big.Int).Sub(ref.L, big.NewInt(int64(1+j)))
			default:
				sj = ref.SMod(ref.FromLE(mc.Bytes(c.Seed, "c11-msm", j, 32)))
			}
			if isRaw {
				scalars[j] = rawSc(sj)
			} else {
				scalars[j] = sc(sj)
			}
			a := e.p.Add(tor[[]int{0, 2, 4, 6}[(j+variant)%4]]) // every coset; the identity element appears as els[0]
			if j%3 == 0 {
				points[j] = wrap(edpts.FromRefScaled(a, lam[3+j%2]))
			} else {
				points[j] = wrap(edpts.FromRef(a))
			}
			acc = ref.SAdd(acc, ref.SMul(sj, e.s))
		}
		want := ref.RistrettoEncode(refmul.BaseMul(acc))
		cas := map[string]string{"terms": fmt.Sprint(n), "variant": fmt.Sprint(variant)}
		var v, ct, x curve.RistrettoPoint
		v.MultiscalarMulVartime(scalars, points)
		if !bytes.Equal(encOf(&v), want) {
			w.Fail("RistrettoPoint.MultiscalarMulVartime/threshold", fmt.Sprintf("%d terms (variant %d): encodes to %x want %x", n, variant, encOf(&v), want), cas)
		}
		if n <= 191 {
			ct.MultiscalarMul(scalars, points)
			if !bytes.Equal(encOf(&ct), want) {
				w.Fail("RistrettoPoint.MultiscalarMul/threshold", fmt.Sprintf("%d terms (variant %d): encodes to %x want %x", n, variant, encOf(&ct), want), cas)
			}
		}
		// expanded: static / dynamic mixes around the same total
		splits := []int{0, 1, n / 2, n - 1, n}
		if n > 191 && !c.Thorough {
			splits = []int{0, n / 2, n}
		}
		for _, ns := range splits {
			if ns < 0 || ns > n {
				continue
			}
			st := make([]*curve.ExpandedRistrettoPoint, ns)
			for j := 0; j < ns; j++ {
				st[j] = curve.NewExpandedRistrettoPoint(points[j])
			}
			x.ExpandedMultiscalarMulVartime(scalars[:ns], st, scalars[ns:], points[ns:])
			if !bytes.Equal(encOf(&x), want) {
				w.Fail("RistrettoPoint.ExpandedMultiscalarMulVartime/threshold", fmt.Sprintf("%d terms, %d static (variant %d): encodes to %x want %x", n, ns, variant, encOf(&x), want), cas)
			}
		}
	})

	// ---------------------------------------------------------------- T5: scalars that are NOT reduced (255-bit values through SetBits)
	two := func(k uint) *big.Int { return new(big.Int).Lsh(big.NewInt(1), k) }
	gen := ref.FromLE(mc.Bytes(c.Seed, "c11-unreduced", 0, 31))
	big255 := []*big.Int{
		new(big.Int).Sub(two(255), big.NewInt(1)), two(254), new(big.Int).Add(two(254), gen), new(big.Int).Sub(two(254), big.NewInt(1)),
		two(253), new(big.Int).Add(two(253), gen), ref.L, new(big.Int).Add(ref.L, big.NewInt(1)),
		new(big.Int).Sub(new(big.Int).Lsh(ref.L, 2), big.NewInt(1)), new(big.Int).Add(new(big.Int).Mul(ref.L, big.NewInt(7)), big.NewInt(5)),
		new(big.Int).Sub(two(255), big.NewInt(19)), new(big.Int).Add(two(254), new(big.Int).Lsh(gen, 3)), // a clamped X25519-style scalar
	}
	raw := func(v *big.Int) *scalar.Scalar {
		s, err := scalar.NewFromBits(ref.LE32(v))
		if err != nil {
			panic(err)
		}
		return s
	}
	nb := len(big255)
	alphed.Par(c, "unreduced-scalars", len(core)*nb, func(w *mc.W, i int) {
		e, a := core[i/nb], big255[i%nb]
		b := big255[(i+5)%nb]
		small := core[(i+1)%len(core)].s
		w.Eval("unreduced-scalars", a.Cmp(ref.L) >= 0)
		A := wrap(edpts.FromRefScaled(e.p.Add(tor[[]int{0, 2, 4, 6}[i%4]]), lam[3+i%2]))
		aA := refmul.Mul(e.p, ref.SMod(a))
		cas := map[string]string{"A": "[" + e.s.Text(16) + "]B", "a": a.Text(16), "b": b.Text(16)}
		expect := func(key string, got *curve.RistrettoPoint, want ref.Point) {
			if !bytes.Equal(encOf(got), ref.RistrettoEncode(want)) {
				w.Fail(key, fmt.Sprintf("%s with A=[%x]B a=%x b=%x: encodes to %x want %x", key, e.s, a, b, encOf(got), ref.RistrettoEncode(want)), cas)
			}
		}
		var r curve.RistrettoPoint
		r.Mul(A, raw(a))
		expect("RistrettoPoint.Mul/unreduced", &r, aA)
		r.MulBasepoint(curve.RISTRETTO_BASEPOINT_TABLE, raw(a))
		expect("RistrettoPoint.MulBasepoint/unreduced", &r, refmul.BaseMul(ref.SMod(a)))
		bB := refmul.BaseMul(ref.SMod(b))
		sB := refmul.BaseMul(small)
		sA := refmul.Mul(e.p, small)
		r.DoubleScalarMulBasepointVartime(raw(a), A, raw(b))
		expect("RistrettoPoint.DoubleScalarMulBasepointVartime/unreduced(a,b)", &r, aA.Add(bB))
		r.DoubleScalarMulBasepointVartime(raw(a), A, sc(small))
		expect("RistrettoPoint.DoubleScalarMulBasepointVartime/unreduced(a)", &r, aA.Add(sB))
		r.DoubleScalarMulBasepointVartime(sc(small), A, raw(b))
		expect("RistrettoPoint.DoubleScalarMulBasepointVartime/unreduced(b)", &r, sA.Add(bB))
		r.ExpandedDoubleScalarMulBasepointVartime(raw(a), curve.NewExpandedRistrettoPoint(A), raw(b))
		expect("RistrettoPoint.ExpandedDoubleScalarMulBasepointVartime/unreduced", &r, aA.Add(bB))
		r.MultiscalarMul([]*scalar.Scalar{raw(a), raw(b)}, []*curve.RistrettoPoint{A, curve.RISTRETTO_BASEPOINT_POINT})
		expect("RistrettoPoint.MultiscalarMul/unreduced", &r, aA.Add(bB))
		r.MultiscalarMulVartime([]*scalar.Scalar{raw(a), raw(b)}, []*curve.RistrettoPoint{A, curve.RISTRETTO_BASEPOINT_POINT})
		expect("RistrettoPoint.MultiscalarMulVartime/unreduced", &r, aA.Add(bB))
		r.ExpandedMultiscalarMulVartime([]*scalar.Scalar{raw(a)}, []*curve.ExpandedRistrettoPoint{curve.NewExpandedRistrettoPoint(A)}, []*scalar.Scalar{raw(b)}, []*curve.RistrettoPoint{curve.RISTRETTO_BASEPOINT_POINT})
		expect("RistrettoPoint.ExpandedMultiscalarMulVartime/unreduced", &r, aA.Add(bB))
	})

	// ---------------------------------------------------------------- T12: nil entropy source
	alphed.Par(c, "nil-rand", 2, func(w *mc.W, i int) {
		w.Eval("nil-rand", true)
		var a, b curve.RistrettoPoint
		ra, ea := a.SetRandom(nil)
		_, eb := b.SetRandom(nil)
		if ea != nil || eb != nil || ra != &a {
			w.Fail("RistrettoPoint.SetRandom/nil", fmt.Sprintf("SetRandom(nil): %v %v", ea, eb), nil)
			return
		}
		for _, p := range []*curve.RistrettoPoint{&a, &b} {
			enc := encOf(p)
			pt, ok := ref.RistrettoDecode(enc)
			if !ok || !isElem(p, pt) {
				w.Fail("RistrettoPoint.SetRandom/nil-invalid", fmt.Sprintf("SetRandom(nil) produced %x, which RFC 9496 does not decode", enc), nil)
			}
		}
		if a.Equal(&b) == 1 {
			w.Fail("RistrettoPoint.SetRandom/nil-constant", "two SetRandom(nil) calls produced the same element", nil)
		}
	})
}

// selfAliased: CompressedRistretto decoders handed (a window of) the
// receiver's OWN storage; see the twin in c10.  Defect of the pinned tree,
// fixed in /repo by 3d8d518.
func selfAliased(c *mc.Ctx, S [][]byte) {
	windows := [][2]int{{0, 32}, {0, 31}, {1, 32}, {16, 32}, {0, 0}}
	alphed.Par(c, "self-aliased-decode", len(S)*len(windows), func(w *mc.W, i int) {
		init, win := S[i/len(windows)], windows[i%len(windows)]
		lo, hi := win[0], win[1]
		_, ok := ref.RistrettoDecode(init[lo:hi])
		w.Eval(fmt.Sprintf("self-aliased-decode/accept=%v", ok), true)
		cas := map[string]string{"receiver": hx(init), "window": fmt.Sprintf("[%d:%d]", lo, hi)}
		run := func(alias, setBytes bool) (bool, []byte) {
			var p curve.CompressedRistretto
			copy(p[:], init)
			in := append([]byte{}, init[lo:hi]...)
			if alias {
				in = p[lo:hi]
			}
			var err error
			if setBytes {
				_, err = p.SetBytes(in)
			} else {
				err = p.UnmarshalBinary(in)
			}
			return err != nil, append([]byte{}, p[:]...)
		}
		wantAfter := zero32
		if ok {
			wantAfter = init
		}
		eA, pA := run(true, false)
		eC, pC := run(false, false)
		if eA != eC || !bytes.Equal(pA, pC) || eA != !ok || !bytes.Equal(pA, wantAfter) {
			w.Fail("CompressedRistretto.UnmarshalBinary/data-aliases-receiver", fmt.Sprintf("receiver holding %x, p.UnmarshalBinary(p[%d:%d]): error=%v receiver=%x; separate copy of the same bytes: error=%v receiver=%x; RFC accepts=%v", init, lo, hi, eA, pA, eC, pC, ok), cas)
		}
		sA, qA := run(true, true)
		sC, qC := run(false, true)
		if sA != sC || !bytes.Equal(qA, qC) || sA != (hi-lo != 32) || !bytes.Equal(qA, init) {
			w.Fail("CompressedRistretto.SetBytes/data-aliases-receiver", fmt.Sprintf("receiver holding %x, p.SetBytes(p[%d:%d]): error=%v receiver=%x; separate copy: error=%v receiver=%x", init, lo, hi, sA, qA, sC, qC), cas)
		}
	})
	c.Require("self-aliased-decode/accept=true", 300)
	c.Require("self-aliased-decode/accept=false", 300)
}
