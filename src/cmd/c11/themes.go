package main

// Sub-spaces added by the audit against notes/THEMES.md:
//   T1 aliasing of every remaining method with a receiver (Add/Sub/Neg patterns live in the add-sub loop)
//   T3 reuse / copy-by-value of expanded points and decoders ([A; B; A] histories compared with fresh objects)
//   T5 the identity element reached many ways
//   T7 entropy readers of SetRandom (short reads, failures, retry on the same object)
//   T8 CompressedRistretto.Equal on strings that differ in exactly one byte
// (T4 length sweeps, caller memory and colliding Elligator halves are folded into main.go.)

import (
	"bytes"
	"errors"
	"fmt"
	"io"
	"math/big"

	"github.com/oasisprotocol/curve25519-voi/curve"
	"github.com/oasisprotocol/curve25519-voi/curve/scalar"
	"github.com/oasisprotocol/curve25519-voi/internal/verif/alph/alphed"
	"github.com/oasisprotocol/curve25519-voi/internal/verif/alph/edpts"
	"github.com/oasisprotocol/curve25519-voi/internal/verif/mc"
	"github.com/oasisprotocol/curve25519-voi/internal/verif/ref"
	"github.com/oasisprotocol/curve25519-voi/internal/verif/ref/refmul"
)

// chunkReader returns at most n bytes per Read with a nil error.
type chunkReader struct {
	r io.Reader
	n int
}

func (c chunkReader) Read(p []byte) (int, error) {
	if len(p) > c.n {
		p = p[:c.n]
	}
	return c.r.Read(p)
}

// failReader delivers n bytes and then fails.
type failReader struct {
	data []byte
	n    int
	pos  int
}

var errEntropy = errors.New("entropy source failed")

func (f *failReader) Read(p []byte) (int, error) {
	if f.pos >= f.n {
		return 0, errEntropy
	}
	k := copy(p, f.data[f.pos:f.n])
	f.pos += k
	return k, nil
}

func themes(c *mc.Ctx, els []*element, tor [8]ref.Point, lam []*big.Int) {
	// a small element core: 0, 1 and a spread
	ne := c.Pick(6, 10)
	if ne > len(els) {
		ne = len(els)
	}
	core := []*element{els[0], els[1]}
	for k := 0; len(core) < ne; k++ {
		core = append(core, els[2+k*(len(els)-2)/(ne-2)])
	}
	cosets := []int{0, 2, 4, 6}
	mk := func(e *element, k int) *curve.RistrettoPoint {
		a := e.p.Add(tor[cosets[k%4]])
		switch (k / 4) % 3 {
		case 0:
			return wrap(edpts.FromRef(a))
		case 1:
			return wrap(edpts.FromRefScaled(a, lam[3]))
		default:
			return wrap(edpts.Rescale(edpts.FromRef(a), lam[4]))
		}
	}
	isEnc := func(r *curve.RistrettoPoint, want ref.Point) bool {
		return bytes.Equal(encOf(r), ref.RistrettoEncode(want)) && isElem(r, want)
	}

	// ---------------------------------------------------------------- T1
	alphed.Par(c, "alias-ops", ne*ne, func(w *mc.W, i int) {
		ip, iq := i/ne, i%ne
		P, Q := core[ip], core[iq]
		a, b := core[(ip+iq+1)%ne].s, core[(2*ip+iq+2)%ne].s
		id := fmt.Sprintf("P=[%x]B Q=[%x]B a=%x b=%x", P.s, Q.s, a, b)
		cas := map[string]string{"P": P.s.Text(16), "Q": Q.s.Text(16), "a": a.Text(16), "b": b.Text(16)}
		w.Eval("alias-ops", true)
		expect := func(key string, got *curve.RistrettoPoint, want ref.Point) {
			if !isEnc(got, want) {
				w.Fail(key, fmt.Sprintf("%s with %s: result encodes to %x want %x", key, id, encOf(got), ref.RistrettoEncode(want)), cas)
			}
		}
		q := mk(Q, i+1)
		qSnap := *inner(q)
		aP := refmul.Mul(P.p, a)
		aPbB := aP.Add(refmul.BaseMul(b))
		aPbQ := aP.Add(refmul.Mul(Q.p, b))

		x := mk(P, i)
		x.Mul(x, sc(a))
		expect("RistrettoPoint.Mul/alias", x, aP)
		x = mk(P, i)
		x.DoubleScalarMulBasepointVartime(sc(a), x, sc(b))
		expect("RistrettoPoint.DoubleScalarMulBasepointVartime/alias", x, aPbB)
		for _, vt := range []bool{false, true} {
			name := "RistrettoPoint.MultiscalarMul"
			if vt {
				name = "RistrettoPoint.MultiscalarMulVartime"
			}
			call := func(r *curve.RistrettoPoint, ss []*scalar.Scalar, pp []*curve.RistrettoPoint) {
				if vt {
					r.MultiscalarMulVartime(ss, pp)
				} else {
					r.MultiscalarMul(ss, pp)
				}
			}
			x = mk(P, i)
			call(x, []*scalar.Scalar{sc(a), sc(b)}, []*curve.RistrettoPoint{x, q})
			expect(name+"/alias(first)", x, aPbQ)
			x = mk(P, i)
			call(x, []*scalar.Scalar{sc(b), sc(a)}, []*curve.RistrettoPoint{q, x})
			expect(name+"/alias(last)", x, aPbQ)
			x = mk(P, i)
			call(x, []*scalar.Scalar{sc(a), sc(b)}, []*curve.RistrettoPoint{x, x})
			expect(name+"/alias(both)", x, refmul.Mul(P.p, ref.SAdd(a, b)))
		}
		x = mk(P, i)
		x.Sum([]*curve.RistrettoPoint{x, q})
		expect("RistrettoPoint.Sum/alias(first)", x, P.p.Add(Q.p))
		x = mk(P, i)
		x.Sum([]*curve.RistrettoPoint{q, x})
		expect("RistrettoPoint.Sum/alias(last)", x, P.p.Add(Q.p))
		x = mk(P, i)
		ex := curve.NewExpandedRistrettoPoint(x)
		x.ExpandedDoubleScalarMulBasepointVartime(sc(a), ex, sc(b))
		expect("RistrettoPoint.ExpandedDoubleScalarMulBasepointVartime/alias(source)", x, aPbB)
		if !isEnc(ex.Point(), P.p) {
			w.Fail("ExpandedRistrettoPoint/changed-with-source", fmt.Sprintf("%s: the expanded point changed when its source point was overwritten", id), cas)
		}
		x.SetExpanded(ex)
		expect("RistrettoPoint.SetExpanded/alias(source)", x, P.p)
		x = mk(P, i)
		x.ExpandedMultiscalarMulVartime([]*scalar.Scalar{sc(b)}, []*curve.ExpandedRistrettoPoint{curve.NewExpandedRistrettoPoint(q)}, []*scalar.Scalar{sc(a)}, []*curve.RistrettoPoint{x})
		expect("RistrettoPoint.ExpandedMultiscalarMulVartime/alias(dynamic)", x, aPbQ)
		for ch := 0; ch <= 1; ch++ {
			want := P.p
			if ch == 1 {
				want = Q.p
			}
			x = mk(P, i)
			x.ConditionalSelect(x, q, ch)
			expect(fmt.Sprintf("RistrettoPoint.ConditionalSelect/alias(x,x,q,%d)", ch), x, want)
			x = mk(Q, i+1)
			x.ConditionalSelect(mk(P, i), x, ch)
			expect(fmt.Sprintf("RistrettoPoint.ConditionalSelect/alias(x,p,x,%d)", ch), x, want)
		}
		// delta-scaled triple product: identity <=> aA + bB = C, with A or C the receiver (plain and expanded)
		C := wrap(edpts.FromRef(aPbB.Add(tor[cosets[i%4]])))
		x = mk(P, i)
		x.TripleScalarMulBasepointVartime(sc(a), x, sc(b), C)
		if !x.IsIdentity() {
			w.Fail("RistrettoPoint.TripleScalarMulBasepointVartime/alias(A)", fmt.Sprintf("%s: not the identity for C = aA+bB with A the receiver", id), cas)
		}
		x = wrap(edpts.FromRef(aPbB))
		x.TripleScalarMulBasepointVartime(sc(a), mk(P, i), sc(b), x)
		if !x.IsIdentity() {
			w.Fail("RistrettoPoint.TripleScalarMulBasepointVartime/alias(C)", fmt.Sprintf("%s: not the identity for C = aA+bB with C the receiver", id), cas)
		}
		x = wrap(edpts.FromRef(aPbB.Add(ref.Base)))
		x.ExpandedTripleScalarMulBasepointVartime(sc(a), curve.NewExpandedRistrettoPoint(mk(P, i)), sc(b), x)
		if x.IsIdentity() {
			w.Fail("RistrettoPoint.ExpandedTripleScalarMulBasepointVartime/alias(C)", fmt.Sprintf("%s: identity although C != aA+bB", id), cas)
		}
		x.Set(x)
		if !edpts.SameCoords(inner(q), &qSnap) {
			w.Fail("argument-modified", fmt.Sprintf("%s: an operation modified its non-receiver operand", id), cas)
		}
		if ip == iq {
			var cr curve.CompressedRistretto
			cr.SetRistrettoPoint(mk(P, i))
			if r, err := cr.SetBytes(cr[:]); err != nil || r != &cr || !bytes.Equal(cr[:], P.enc) {
				w.Fail("CompressedRistretto.SetBytes/alias(own bytes)", fmt.Sprintf("%s: p.SetBytes(p[:]) err=%v value %x", id, err, cr[:]), cas)
			}
			x = mk(P, i)
			mb := encOf(x)
			cb, _ := cr.MarshalBinary()
			for k := range mb {
				mb[k] ^= 0xff
				cb[k] ^= 0xff
			}
			if !bytes.Equal(encOf(x), P.enc) || !bytes.Equal(cr[:], P.enc) {
				w.Fail("MarshalBinary/returned-slice-aliases-object", fmt.Sprintf("%s: writing to a MarshalBinary result changed the object", id), cas)
			}
		}
	})

	// ---------------------------------------------------------------- T3: one expanded object / one decoder through [P; Q; P], value copies
	var badEnc []byte
	for v := int64(1); badEnc == nil; v++ {
		b := ref.LE32(big.NewInt(2 * v))
		if _, ok := ref.RistrettoDecode(b); !ok {
			badEnc = b
		}
	}
	alphed.Par(c, "reuse", ne*ne, func(w *mc.W, i int) {
		ip, iq := i/ne, i%ne
		P, Q := core[ip], core[iq]
		a, b := core[(ip+2*iq+1)%ne].s, core[(ip+iq+3)%ne].s
		id := fmt.Sprintf("P=[%x]B Q=[%x]B a=%x b=%x", P.s, Q.s, a, b)
		cas := map[string]string{"P": P.s.Text(16), "Q": Q.s.Text(16)}
		w.Eval("reuse", ip != iq)
		bB := refmul.BaseMul(b)
		wantP, wantQ := refmul.Mul(P.p, a).Add(bB), refmul.Mul(Q.p, a).Add(bB)
		use := func(step string, e *curve.ExpandedRistrettoPoint, holds, want ref.Point) {
			var r, m, t curve.RistrettoPoint
			r.ExpandedDoubleScalarMulBasepointVartime(sc(a), e, sc(b))
			if !isEnc(&r, want) {
				w.Fail("ExpandedRistrettoPoint/reuse:"+step, fmt.Sprintf("%s, step %s: aA+bB through the expanded point encodes to %x want %x", id, step, encOf(&r), ref.RistrettoEncode(want)), cas)
			}
			m.ExpandedMultiscalarMulVartime([]*scalar.Scalar{sc(a)}, []*curve.ExpandedRistrettoPoint{e}, []*scalar.Scalar{sc(b)}, []*curve.RistrettoPoint{curve.RISTRETTO_BASEPOINT_POINT})
			if !isEnc(&m, want) {
				w.Fail("ExpandedRistrettoPoint/reuse-multiscalar:"+step, fmt.Sprintf("%s, step %s: ExpandedMultiscalarMulVartime through the expanded point is wrong", id, step), cas)
			}
			t.ExpandedTripleScalarMulBasepointVartime(sc(a), e, sc(b), wrap(edpts.FromRef(want)))
			if !t.IsIdentity() {
				w.Fail("ExpandedRistrettoPoint/reuse-triple:"+step, fmt.Sprintf("%s, step %s: the triple product with C = aA+bB is not the identity", id, step), cas)
			}
			if !isEnc(e.Point(), holds) {
				w.Fail("ExpandedRistrettoPoint/reuse-point:"+step, fmt.Sprintf("%s, step %s: Point() is wrong", id, step), cas)
			}
		}
		var e curve.ExpandedRistrettoPoint
		e.SetRistrettoPoint(mk(P, i))
		use("P", &e, P.p, wantP)
		e.SetRistrettoPoint(mk(Q, i+1))
		use("P;Q", &e, Q.p, wantQ)
		e.SetRistrettoPoint(mk(P, i+2))
		use("P;Q;P", &e, P.p, wantP)
		// set without use, then re-set, then first use
		var f curve.ExpandedRistrettoPoint
		f.SetRistrettoPoint(mk(Q, i))
		f.SetRistrettoPoint(mk(P, i+1))
		use("Q(unused);P", &f, P.p, wantP)
		// a fresh object per value must agree with the reused one
		use("fresh P", curve.NewExpandedRistrettoPoint(mk(P, i+3)), P.p, wantP)

		// decoders: valid -> valid, valid -> invalid -> valid into ONE receiver
		var x curve.RistrettoPoint
		var cx curve.CompressedRistretto
		steps := [][]byte{P.enc, Q.enc, badEnc, P.enc, P.enc[:31], Q.enc}
		for k, in := range steps {
			pt, ok := ref.RistrettoDecode(in)
			keep := x
			keepCoords := *inner(&keep)
			e1 := x.UnmarshalBinary(in)
			e2 := cx.UnmarshalBinary(in)
			var fresh curve.RistrettoPoint
			e3 := fresh.UnmarshalBinary(in)
			if (e1 == nil) != ok || (e2 == nil) != ok || (e3 == nil) != ok {
				w.Fail("UnmarshalBinary/reuse-error", fmt.Sprintf("%s: step %d (%x): errors %v / %v / fresh %v, RFC accepts=%v", id, k, in, e1, e2, e3, ok), cas)
				continue
			}
			if ok && (!isEnc(&x, pt) || x.Equal(&fresh) != 1 || !bytes.Equal(cx[:], in)) {
				w.Fail("UnmarshalBinary/reuse-value", fmt.Sprintf("%s: step %d (%x): the reused receiver differs from a fresh one", id, k, in), cas)
			}
			if !ok && (!isElem(&x, ref.Identity()) || !bytes.Equal(cx[:], zero32)) {
				w.Fail("RistrettoPoint.UnmarshalBinary/receiver", fmt.Sprintf("%s: step %d (%x): the reused receiver is not the identity after the error", id, k, in), cas)
			}
			if k > 0 && !edpts.SameCoords(inner(&keep), &keepCoords) {
				w.Fail("copy-by-value/not-independent", fmt.Sprintf("%s: step %d: a value copy taken before the call changed", id, k), cas)
			}
		}
	})

	// ---------------------------------------------------------------- T5: the identity element reached many ways
	type way struct {
		name string
		mk   func() *curve.RistrettoPoint
	}
	B := func() *curve.RistrettoPoint { return mk(els[1], 0) }
	gen := core[len(core)-1]
	zero, one := sc(big.NewInt(0)), sc(big.NewInt(1))
	ways := []way{
		{"NewRistrettoPoint", func() *curve.RistrettoPoint { return curve.NewRistrettoPoint() }},
		{"Identity() on a used receiver", func() *curve.RistrettoPoint { p := B(); p.Identity(); return p }},
		{"P-P", func() *curve.RistrettoPoint { var p curve.RistrettoPoint; p.Sub(mk(gen, 1), mk(gen, 6)); return &p }},
		{"P+Neg(P)", func() *curve.RistrettoPoint {
			var n, p curve.RistrettoPoint
			n.Neg(mk(gen, 2))
			p.Add(mk(gen, 7), &n)
			return &p
		}},
		{"[L]P", func() *curve.RistrettoPoint {
			var p curve.RistrettoPoint
			p.Mul(mk(gen, 3), scalar.BASEPOINT_ORDER)
			return &p
		}},
		{"[0]P", func() *curve.RistrettoPoint { var p curve.RistrettoPoint; p.Mul(mk(gen, 5), zero); return &p }},
		{"MulBasepoint(0)", func() *curve.RistrettoPoint {
			var p curve.RistrettoPoint
			p.MulBasepoint(curve.RISTRETTO_BASEPOINT_TABLE, zero)
			return &p
		}},
		{"MulBasepoint(L)", func() *curve.RistrettoPoint {
			var p curve.RistrettoPoint
			p.MulBasepoint(curve.RISTRETTO_BASEPOINT_TABLE, scalar.BASEPOINT_ORDER)
			return &p
		}},
		{"Sum(nil)", func() *curve.RistrettoPoint { p := B(); p.Sum(nil); return p }},
		{"MultiscalarMul()", func() *curve.RistrettoPoint { p := B(); p.MultiscalarMul(nil, nil); return p }},
		{"MultiscalarMulVartime()", func() *curve.RistrettoPoint { p := B(); p.MultiscalarMulVartime(nil, nil); return p }},
		{"0*P+0*B", func() *curve.RistrettoPoint {
			var p curve.RistrettoPoint
			p.DoubleScalarMulBasepointVartime(zero, mk(gen, 4), zero)
			return &p
		}},
		{"1*(-B)+1*B", func() *curve.RistrettoPoint {
			var n, p curve.RistrettoPoint
			n.Neg(B())
			p.DoubleScalarMulBasepointVartime(one, &n, one)
			return &p
		}},
		{"decode 00..00", func() *curve.RistrettoPoint {
			var p curve.RistrettoPoint
			if err := p.UnmarshalBinary(zero32); err != nil {
				panic(err)
			}
			return &p
		}},
		{"SetExpanded(expanded(P-P))", func() *curve.RistrettoPoint {
			var p, r curve.RistrettoPoint
			p.Sub(mk(gen, 0), mk(gen, 9))
			r.SetExpanded(curve.NewExpandedRistrettoPoint(&p))
			return &r
		}},
	}
	for k := 0; k < 12; k++ { // the four coset representatives of the identity in three scalings (hook-built)
		k := k
		ways = append(ways, way{fmt.Sprintf("E[4] representative %d", k), func() *curve.RistrettoPoint { return mk(els[0], k) }})
	}
	nw := len(ways)
	alphed.Par(c, "identity-ways", nw*nw, func(w *mc.W, i int) {
		a, b := ways[i/nw], ways[i%nw]
		pa, pb := a.mk(), b.mk()
		w.Eval("identity-ways", true)
		if pa.Equal(pb) != 1 {
			w.Fail("RistrettoPoint.Equal/identity", fmt.Sprintf("Equal(%s, %s) != 1 although both are the identity element", a.name, b.name), map[string]string{"a": a.name, "b": b.name})
		}
		if i/nw != i%nw {
			return
		}
		if !isElem(pa, ref.Identity()) || !pa.IsIdentity() || !bytes.Equal(encOf(pa), zero32) {
			w.Fail("RistrettoPoint.IsIdentity/ways", fmt.Sprintf("%s: IsIdentity=%v, encodes to %x", a.name, pa.IsIdentity(), encOf(pa)), map[string]string{"a": a.name})
		}
		nb := B()
		if pa.Equal(nb) != 0 || nb.Equal(pa) != 0 {
			w.Fail("RistrettoPoint.Equal/identity", fmt.Sprintf("%s compares equal to B", a.name), nil)
		}
		var s curve.RistrettoPoint
		s.Add(pa, nb)
		if !isEnc(&s, ref.Base) {
			w.Fail("RistrettoPoint.Add/identity", fmt.Sprintf("%s + B is not B", a.name), nil)
		}
	})

	// ---------------------------------------------------------------- T7: entropy readers of SetRandom
	type rcase struct {
		name  string
		chunk int // > 0: at most chunk bytes per Read, nil error
		fail  int // >= 0: fails after this many bytes
	}
	var rc []rcase
	for _, n := range []int{1, 7, 16, 31, 63, 64, 100} {
		rc = append(rc, rcase{fmt.Sprintf("chunks of %d", n), n, -1})
	}
	for _, n := range []int{0, 1, 31, 32, 33, 63} {
		rc = append(rc, rcase{fmt.Sprintf("fails after %d bytes", n), 0, n})
	}
	alphed.Par(c, "setrandom-readers", len(rc)*4, func(w *mc.W, i int) {
		r, k := rc[i/4], i%4
		ent := mc.Bytes(c.Seed, "c11-entropy", k, 96)
		want := ref.RistrettoEncode(ref.RistrettoFromUniform(ent[:64]))
		w.Eval("setrandom-readers", true)
		p := mk(els[1], k) // a used receiver
		if r.fail < 0 {
			src := bytes.NewReader(ent)
			ret, err := p.SetRandom(chunkReader{src, r.chunk})
			if err != nil || ret != p || !bytes.Equal(encOf(p), want) {
				w.Fail("RistrettoPoint.SetRandom/short-reads", fmt.Sprintf("reader with %s: err=%v, result %x want %x", r.name, err, encOf(p), want), nil)
			}
			if src.Len() != len(ent)-64 {
				w.Fail("RistrettoPoint.SetRandom/consumed", fmt.Sprintf("reader with %s: %d bytes consumed, want exactly 64", r.name, len(ent)-src.Len()), nil)
			}
			return
		}
		before := *inner(p)
		if _, err := p.SetRandom(&failReader{data: ent, n: r.fail}); err == nil {
			w.Fail("RistrettoPoint.SetRandom/error-swallowed", fmt.Sprintf("reader that %s: no error", r.name), nil)
		}
		if !edpts.SameCoords(inner(p), &before) && !isElem(p, ref.Identity()) {
			w.Fail("RistrettoPoint.SetRandom/receiver", fmt.Sprintf("reader that %s: the receiver is neither unchanged nor the identity", r.name), nil)
		}
		// retry on the same object
		if _, err := p.SetRandom(bytes.NewReader(ent)); err != nil || !bytes.Equal(encOf(p), want) {
			w.Fail("RistrettoPoint.SetRandom/retry", fmt.Sprintf("retry after a reader that %s: err=%v result %x want %x", r.name, err, encOf(p), want), nil)
		}
	})

	// ---------------------------------------------------------------- T8
	bases := [][]byte{els[1].enc, zero32, bytes.Repeat([]byte{0xff}, 32), core[len(core)-1].enc}
	alphed.Par(c, "equal-one-byte", len(bases)*32*3, func(w *mc.W, i int) {
		base, pos, d := bases[i/96], (i/3)%32, []byte{0x01, 0x80, 0xff}[i%3]
		other := append([]byte{}, base...)
		other[pos] ^= d
		var a, b curve.CompressedRistretto
		copy(a[:], base)
		copy(b[:], other)
		w.Eval("equal-one-byte", true)
		if a.Equal(&b) != 0 || b.Equal(&a) != 0 || a.Equal(&a) != 1 {
			w.Fail("CompressedRistretto.Equal/one-byte", fmt.Sprintf("Equal(%x, %x) (byte %d differs) is not 0", base, other, pos), nil)
		}
	})
}
