package main

// encode-after-history (Ristretto): a RistrettoPoint OBJECT gets a first value in one of the ways that leave a
// "simple" representation behind (zero value, constructor, decode, failed decode, Identity()), is then overwritten by
// every method that writes to a receiver, from sources in a non-trivial coset representation (the reference point plus a
// 4-torsion point, projectively rescaled), and is then encoded / compared / used as an operand.  The Edwards version of
// this space is in C10; here the writers are the Ristretto wrappers and the oracle is the RFC 9496 encoding.

import (
	"bytes"
	"fmt"
	"math/big"

	"github.com/oasisprotocol/curve25519-voi/curve"
	"github.com/oasisprotocol/curve25519-voi/curve/scalar"
	"github.com/oasisprotocol/curve25519-voi/internal/verif/alph/edpts"
	"github.com/oasisprotocol/curve25519-voi/internal/verif/mc"
	"github.com/oasisprotocol/curve25519-voi/internal/verif/ptalph"
	"github.com/oasisprotocol/curve25519-voi/internal/verif/ref"
	"github.com/oasisprotocol/curve25519-voi/internal/verif/ref/refmul"
)

func encodeAfterHistoryR(c *mc.Ctx) {
	tor := ref.Torsion()
	g1 := new(big.Int).Mod(ref.FromLE(mc.Bytes(c.Seed, "c11-rh", 0, 32)), ref.L)
	g2 := new(big.Int).Mod(ref.FromLE(mc.Bytes(c.Seed, "c11-rh", 1, 32)), ref.L)
	// even multiples of B (ristretto255 elements are represented by points of 2E)
	q0 := refmul.BaseMul(new(big.Int).Lsh(g1, 1))
	r0 := refmul.BaseMul(new(big.Int).Lsh(g2, 1))
	type pair struct{ q, r ref.Point }
	pairs := []pair{{q0, r0}, {r0.Add(q0), q0}}
	// source objects: the reference point, optionally moved inside its coset by a 4-torsion point, in representation rep
	mk := func(p ref.Point, rep int) *curve.RistrettoPoint {
		if rep >= 3 && !edpts.Reduced {
			p = p.Add(tor[2*(rep-2)%8]) // tor[2], tor[4]: points of E[4], the same ristretto255 element
		}
		return wrap(ptalph.Rep(c.Seed, p, rep%5))
	}
	k5 := big.NewInt(5)
	sc5, sc3, one := scalar.NewFromUint64(5), scalar.NewFromUint64(3), scalar.NewFromUint64(1)
	var badEnc curve.CompressedRistretto
	for y := byte(1); ; y++ {
		badEnc[0] = y
		if _, ok := ref.RistrettoDecode(badEnc[:]); !ok {
			break
		}
	}
	type prev struct {
		name string
		mk   func(pr pair) *curve.RistrettoPoint
	}
	decode := func(p ref.Point) *curve.RistrettoPoint {
		var r curve.RistrettoPoint
		if err := r.UnmarshalBinary(ref.RistrettoEncode(p)); err != nil {
			panic("c11: library rejects a reference encoding")
		}
		return &r
	}
	prevs := []prev{
		{"zero-value", func(pair) *curve.RistrettoPoint { return new(curve.RistrettoPoint) }},
		{"NewRistrettoPoint", func(pair) *curve.RistrettoPoint { return curve.NewRistrettoPoint() }},
		{"decoded-generator", func(pair) *curve.RistrettoPoint { return decode(ref.Base) }},
		{"decoded-other", func(pr pair) *curve.RistrettoPoint { return decode(pr.r) }},
		{"failed-UnmarshalBinary", func(pr pair) *curve.RistrettoPoint { p := mk(pr.r, 4); _ = p.UnmarshalBinary(badEnc[:]); return p }},
		{"failed-SetCompressed", func(pr pair) *curve.RistrettoPoint { p := mk(pr.r, 4); _, _ = p.SetCompressed(&badEnc); return p }},
		{"Identity()-on-projective", func(pr pair) *curve.RistrettoPoint { p := mk(pr.r, 4); p.Identity(); return p }},
		{"SetUniformBytes", func(pair) *curve.RistrettoPoint {
			p := new(curve.RistrettoPoint)
			_, _ = p.SetUniformBytes(mc.Bytes(c.Seed, "c11-rh-uniform", 0, 64))
			return p
		}},
		{"projective", func(pr pair) *curve.RistrettoPoint { return mk(pr.r, 3) }},
	}
	type writer struct {
		name string
		f    func(p, q, r *curve.RistrettoPoint)
		want func(q, r ref.Point) ref.Point
	}
	writers := []writer{
		{"Set(q)", func(p, q, r *curve.RistrettoPoint) { p.Set(q) }, func(q, r ref.Point) ref.Point { return q }},
		{"*p = *q", func(p, q, r *curve.RistrettoPoint) { *p = *q }, func(q, r ref.Point) ref.Point { return q }},
		{"Neg(q)", func(p, q, r *curve.RistrettoPoint) { p.Neg(q) }, func(q, r ref.Point) ref.Point { return q.Neg() }},
		{"Add(q,r)", func(p, q, r *curve.RistrettoPoint) { p.Add(q, r) }, func(q, r ref.Point) ref.Point { return q.Add(r) }},
		{"Add(q,q)", func(p, q, r *curve.RistrettoPoint) { p.Add(q, q) }, func(q, r ref.Point) ref.Point { return q.Double() }},
		{"Sub(q,r)", func(p, q, r *curve.RistrettoPoint) { p.Sub(q, r) }, func(q, r ref.Point) ref.Point { return q.Sub(r) }},
		{"ConditionalSelect(q,r,0)", func(p, q, r *curve.RistrettoPoint) { p.ConditionalSelect(q, r, 0) }, func(q, r ref.Point) ref.Point { return q }},
		{"ConditionalSelect(q,r,1)", func(p, q, r *curve.RistrettoPoint) { p.ConditionalSelect(q, r, 1) }, func(q, r ref.Point) ref.Point { return r }},
		{"ConditionalSelect(p,q,1)", func(p, q, r *curve.RistrettoPoint) { p.ConditionalSelect(p, q, 1) }, func(q, r ref.Point) ref.Point { return q }},
		{"Mul(q,5)", func(p, q, r *curve.RistrettoPoint) { p.Mul(q, sc5) }, func(q, r ref.Point) ref.Point { return q.Mul(k5) }},
		{"Mul(q,1)", func(p, q, r *curve.RistrettoPoint) { p.Mul(q, one) }, func(q, r ref.Point) ref.Point { return q }},
		{"Sum(q,r)", func(p, q, r *curve.RistrettoPoint) { p.Sum([]*curve.RistrettoPoint{q, r}) }, func(q, r ref.Point) ref.Point { return q.Add(r) }},
		{"Sum(q)", func(p, q, r *curve.RistrettoPoint) { p.Sum([]*curve.RistrettoPoint{q}) }, func(q, r ref.Point) ref.Point { return q }},
		{"MultiscalarMul(1*q)", func(p, q, r *curve.RistrettoPoint) { p.MultiscalarMul([]*scalar.Scalar{one}, []*curve.RistrettoPoint{q}) }, func(q, r ref.Point) ref.Point { return q }},
		{"MultiscalarMulVartime(1*q+1*r)", func(p, q, r *curve.RistrettoPoint) {
			p.MultiscalarMulVartime([]*scalar.Scalar{one, one}, []*curve.RistrettoPoint{q, r})
		}, func(q, r ref.Point) ref.Point { return q.Add(r) }},
		{"DoubleScalarMulBasepointVartime(1,q,3)", func(p, q, r *curve.RistrettoPoint) { p.DoubleScalarMulBasepointVartime(one, q, sc3) },
			func(q, r ref.Point) ref.Point { return q.Add(ref.Base.Mul(big.NewInt(3))) }},
		{"SetExpanded(expanded q)", func(p, q, r *curve.RistrettoPoint) { p.SetExpanded(curve.NewExpandedRistrettoPoint(q)) }, func(q, r ref.Point) ref.Point { return q }},
		{"MulBasepoint(table of q,1)", func(p, q, r *curve.RistrettoPoint) { p.MulBasepoint(curve.NewRistrettoBasepointTable(q), one) }, func(q, r ref.Point) ref.Point { return q }},
		{"UnmarshalBinary(enc q)", func(p, q, r *curve.RistrettoPoint) { _ = p.UnmarshalBinary(ptalph.REnc(q)) }, func(q, r ref.Point) ref.Point { return q }},
	}
	want := make([][]ref.Point, len(writers))
	for wi := range writers {
		for _, pr := range pairs {
			want[wi] = append(want[wi], writers[wi].want(pr.q, pr.r))
		}
	}
	const nrep = 5
	n := len(prevs) * len(writers) * nrep * len(pairs)
	c.Par("encode-after-history", n, func(w *mc.W, i int) {
		pv := &prevs[i%len(prevs)]
		wi := (i / len(prevs)) % len(writers)
		wr := &writers[wi]
		rep := (i / len(prevs) / len(writers)) % nrep
		pi := i / len(prevs) / len(writers) / nrep
		pr := pairs[pi]
		exp := want[wi][pi]
		q, r := mk(pr.q, rep), mk(pr.r, 4)
		p := pv.mk(pr)
		wr.f(p, q, r)
		w.Eval("writer/"+wr.name, rep != 0)
		cas := map[string]string{"previous": pv.name, "writer": wr.name, "rep_of_q": fmt.Sprint(rep), "q": fmt.Sprintf("%x", ref.RistrettoEncode(pr.q)), "r": fmt.Sprintf("%x", ref.RistrettoEncode(pr.r))}
		fail := func(what string, got, wantB []byte) {
			w.Fail("RistrettoPoint/encode-after-history/"+what, fmt.Sprintf("receiver first %s, then %s (q in representation %d): %s gives %x, want %x", pv.name, wr.name, rep, what, got, wantB), cas)
		}
		we := ref.RistrettoEncode(exp)
		if got := ptalph.REnc(p); !bytes.Equal(got, we) {
			fail("MarshalBinary", got, we)
			return
		}
		var cr curve.CompressedRistretto
		cr.SetRistrettoPoint(p)
		if !bytes.Equal(cr[:], we) {
			fail("CompressedRistretto.SetRistrettoPoint", cr[:], we)
		}
		if p.Equal(decode(exp)) != 1 {
			fail("Equal(fresh decode of the expected element)", []byte{0}, []byte{1})
		}
		if got, wn := ptalph.REnc(new(curve.RistrettoPoint).Neg(p)), ref.RistrettoEncode(exp.Neg()); !bytes.Equal(got, wn) {
			fail("encoding of Neg(p) into a fresh object", got, wn)
		}
		if got, wn := ptalph.REnc(new(curve.RistrettoPoint).Add(p, curve.RISTRETTO_BASEPOINT_POINT)), ref.RistrettoEncode(exp.Add(ref.Base)); !bytes.Equal(got, wn) {
			fail("encoding of p + B", got, wn)
		}
		cp := *p
		if got := ptalph.REnc(&cp); !bytes.Equal(got, we) {
			fail("encoding of a by-value copy", got, we)
		}
		p.Neg(q)
		if got, wn := ptalph.REnc(p), ref.RistrettoEncode(pr.q.Neg()); !bytes.Equal(got, wn) {
			fail("encoding after a second write Neg(q)", got, wn)
		}
		if !bytes.Equal(ptalph.REnc(q), ref.RistrettoEncode(pr.q)) || !bytes.Equal(ptalph.REnc(r), ref.RistrettoEncode(pr.r)) {
			fail("source operand changed", ptalph.REnc(q), ref.RistrettoEncode(pr.q))
		}
	})
	for _, wr := range writers {
		c.Require("writer/"+wr.name, 16)
	}
}
