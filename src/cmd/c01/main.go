// C01: Ed25519 verification decides exactly the configured specification
// predicate, for every VerifyOptions flag combination, pure/ctx/ph, and both
// VerifyWithOptions and VerifyExpandedWithOptions.
//
// The harness knows the discrete logarithms, so it CONSTRUCTS signatures for
// crafted (A, R) pairs: A = [a]B + T_i, R = [r]B + T_j in every encoding,
// S = r + k*a mod L with k hashed over the actual byte strings.  The expected
// verdict is never computed by imitation: it is the literal predicate of the
// property statement (package refed), evaluated once per (A, R, S, M, variant)
// and then specialised to each of the 24 admissible flag sets; Go's
// crypto/ed25519 is a second oracle for the StdLib preset on every case.
package main

import (
	"bytes"
	"crypto"
	stded "crypto/ed25519"
	"fmt"
	"math/big"
	"sort"
	"sync"
	"sync/atomic"

	"github.com/oasisprotocol/curve25519-voi/internal/verif/alph"
	"github.com/oasisprotocol/curve25519-voi/internal/verif/mc"
	"github.com/oasisprotocol/curve25519-voi/internal/verif/ref"
	"github.com/oasisprotocol/curve25519-voi/internal/verif/ref/refed"
	ed "github.com/oasisprotocol/curve25519-voi/primitives/ed25519"
	"github.com/oasisprotocol/curve25519-voi/primitives/ed25519/extra/cache"
)

func main() { mc.Main("C01", run) }

// ent is one 32-byte string of the A or R alphabet: P = [sc]B + T_tors when known.
type ent struct {
	enc   []byte
	sc    *big.Int // nil: discrete logarithm unknown (or string does not decode)
	tors  int      // -1 unknown
	label string
}

type variant struct {
	name string
	v    refed.Variant
	hash crypto.Hash
}

// group is one (A, R, variant, message) with its honest S.
type group struct {
	a, r   *ent
	va     *variant
	m      []byte // the octets that enter the hash (digest for ph)
	s      *big.Int
	expect string   // construction note (for samples only)
	ss     [][]byte // explicit S list (sboundary sub-space)
}

var (
	two256 = new(big.Int).Lsh(big.NewInt(1), 256)
	big1   = big.NewInt(1)
)

func pow2(n uint) *big.Int { return new(big.Int).Lsh(big.NewInt(1), n) }

type encSet struct {
	seen map[string]bool
	out  []*ent
}

func (s *encSet) add(e *ent) {
	if s.seen == nil {
		s.seen = map[string]bool{}
	}
	if s.seen[string(e.enc)] {
		return
	}
	s.seen[string(e.enc)] = true
	s.out = append(s.out, e)
}

func torsIndex(t [8]ref.Point, p ref.Point) int {
	for i := range t {
		if t[i].Equal(p) {
			return i
		}
	}
	return -1
}

// sharedEncodings: the part of the A and R alphabets that does not depend on a key:
// torsion points (canonical), every y >= p string, the x=0/sign=1 strings,
// unknown-dlog points, non-decodable strings.
func sharedEncodings(seed int64, t [8]ref.Point, s *encSet, tag string) {
	for i := 0; i < 8; i++ {
		s.add(&ent{t[i].Encode(), big.NewInt(0), i, fmt.Sprintf("T%d", i)})
	}
	// y + p for y = 0..18 (all strings with y >= p), both sign bits when the string decodes
	for y := int64(0); y < 19; y++ {
		for sign := 0; sign < 2; sign++ {
			b := ref.LE32(new(big.Int).Add(ref.P, big.NewInt(y)))
			b[31] |= byte(sign) << 7
			p, ok, _ := ref.Decode(b)
			if !ok {
				if sign == 0 {
					s.add(&ent{b, nil, -1, fmt.Sprintf("y=p+%d(undecodable)", y)})
				}
				continue
			}
			e := &ent{b, nil, torsIndex(t, p), fmt.Sprintf("y=p+%d,sign=%d", y, sign)}
			if e.tors >= 0 {
				e.sc = big.NewInt(0)
			}
			s.add(e)
		}
	}
	// canonical y, x = 0, sign = 1
	for _, i := range []int{0, 4} {
		b := t[i].Encode()
		b[31] |= 0x80
		s.add(&ent{b, big.NewInt(0), i, fmt.Sprintf("T%d,x=0,sign=1", i)})
	}
	// unknown discrete log, canonical: smallest non-torsion on-curve y, and a seed-derived point
	for y := int64(2); ; y++ {
		b := ref.LE32(big.NewInt(y))
		if p, ok, _ := ref.Decode(b); ok && torsIndex(t, p) < 0 {
			s.add(&ent{b, nil, -1, fmt.Sprintf("y=%d(unknown dlog)", y)})
			break
		}
	}
	for i := 0; ; i++ {
		b := mc.Bytes(seed, "c01-unknown-"+tag, i, 32)
		if _, ok, canon := ref.Decode(b); ok && canon {
			s.add(&ent{b, nil, -1, "generic point (unknown dlog)"})
			break
		}
	}
	// non-decodable: smallest off-curve y, a generic off-curve string, all-ones
	for y := int64(2); ; y++ {
		b := ref.LE32(big.NewInt(y))
		if _, ok, _ := ref.Decode(b); !ok {
			s.add(&ent{b, nil, -1, fmt.Sprintf("y=%d(undecodable)", y)})
			break
		}
	}
	for i := 0; ; i++ {
		b := mc.Bytes(seed, "c01-undecodable-"+tag, i, 32)
		if _, ok, _ := ref.Decode(b); !ok {
			s.add(&ent{b, nil, -1, "generic undecodable"})
			break
		}
	}
}

func buildA(seed int64, t [8]ref.Point, a *big.Int) []*ent {
	s := &encSet{}
	a0 := refed.BaseMul(a)
	for i := 0; i < 8; i++ {
		s.add(&ent{a0.Add(t[i]).Encode(), a, i, fmt.Sprintf("aB+T%d", i)})
	}
	sharedEncodings(seed, t, s, "A")
	// near misses: strings one bit away from the honest key, with S still computed for a (a sloppy decoder would accept)
	for _, bit := range []int{255, 0, 254} {
		b := a0.Encode()
		b[bit/8] ^= 1 << uint(bit%8)
		s.add(&ent{b, a, -1, fmt.Sprintf("aB with bit %d flipped (S for a)", bit)})
	}
	// a one-bit neighbour of the honest key that does not decode
	for bit := 0; bit < 256; bit++ {
		b := a0.Encode()
		b[bit/8] ^= 1 << uint(bit%8)
		if _, ok, _ := ref.Decode(b); !ok {
			s.add(&ent{b, nil, -1, fmt.Sprintf("aB bit %d flipped (undecodable)", bit)})
			break
		}
	}
	return s.out
}

func buildR(seed int64, t [8]ref.Point, r *big.Int) []*ent {
	s := &encSet{}
	r0 := refed.BaseMul(r)
	for j := 0; j < 8; j++ {
		s.add(&ent{r0.Add(t[j]).Encode(), r, j, fmt.Sprintf("rB+T%d", j)})
	}
	// special nonces: with a small-order A (a = 0) the honest S equals r, which puts
	// ACCEPTING signatures on the S < L decision boundary.
	lm := func(d *big.Int) *big.Int { return new(big.Int).Sub(ref.L, d) }
	for _, sp := range []*big.Int{big.NewInt(1), pow2(252), new(big.Int).Add(pow2(252), pow2(64)), new(big.Int).Add(pow2(252), pow2(124)),
		lm(pow2(64)), lm(pow2(128)), lm(big1)} {
		if sp.Cmp(ref.L) < 0 {
			s.add(&ent{refed.BaseMul(sp).Encode(), sp, 0, fmt.Sprintf("[%x]B", sp)})
		}
	}
	sharedEncodings(seed, t, s, "R")
	// near misses: R-bytes one bit away from ENC([r]B) with S = r + k*a computed for the nonce r and k hashed over
	// these bytes, so [S]B - [k]A = [r]B exactly: only an exact 32-byte comparison / exact decoding rejects them.
	for _, bit := range []int{255, 0, 254, 248} {
		b := r0.Encode()
		b[bit/8] ^= 1 << uint(bit%8)
		s.add(&ent{b, r, -1, fmt.Sprintf("rB with bit %d flipped (S for r)", bit)})
	}
	return s.out
}

// The context strings are SHARED between the ctx and the ph variants (same 1-byte, mid-length and 255-byte
// strings), so that anything the library might key by the context alone (a cached dom2 prefix, ...) is hit by
// both flag values in every run.
var (
	ctx1   = []byte{0x00}
	ctxMid = bytes.Repeat([]byte{0x5a}, 100)
	ctx255 = bytes.Repeat([]byte{0xc7}, 255)
)

func buildVariants() []*variant {
	return []*variant{
		{"pure", refed.Variant{}, crypto.Hash(0)},
		{"ctx1", refed.Variant{Context: ctx1}, crypto.Hash(0)},
		{"ph+ctx255", refed.Variant{Ph: true, Context: ctx255}, crypto.SHA512},
		{"ctx100", refed.Variant{Context: ctxMid}, crypto.Hash(0)},
		{"ph", refed.Variant{Ph: true}, crypto.SHA512},
		{"ctx255", refed.Variant{Context: ctx255}, crypto.Hash(0)},
		{"ph+ctx1", refed.Variant{Ph: true, Context: ctx1}, crypto.SHA512},
		{"ph+ctx100", refed.Variant{Ph: true, Context: ctxMid}, crypto.SHA512},
	}
}

// pickVar selects n of the variants, rotating with salt.
func pickVar(vi, salt, n, total int) bool { return ((vi-salt)%total+total)%total < n }

// honestS = r + k*a mod L with unknown logarithms taken as 0.
func honestS(a, r *ent, va *variant, m []byte) *big.Int {
	k := refed.Challenge(va.v, r.enc, a.enc, m)
	s := new(big.Int)
	if a.sc != nil {
		s.Mul(k, a.sc)
	}
	if r.sc != nil {
		s.Add(s, r.sc)
	}
	return s.Mod(s, ref.L)
}

// makeGroups builds the messages for one (A, R, variant): one message in general; for
// pairs with known torsion components two messages, the first counter for which the
// cofactorless equation holds (k*T_i + T_j = O) and the first for which it does not.
func makeGroups(seed int64, a, r *ent, va *variant, salt int, out []group) []group {
	mlen := alph.Lengths[salt%len(alph.Lengths)]
	msg := func(c int) []byte {
		m := mc.Bytes(seed, "c01-msg", salt*64+c, mlen)
		if va.v.Ph {
			return refed.Prehash(m)
		}
		return m
	}
	if a.sc == nil || r.sc == nil || a.tors <= 0 {
		m := msg(0)
		return append(out, group{a: a, r: r, va: va, m: m, s: honestS(a, r, va, m), expect: "single"})
	}
	haveHold, haveFail := false, false
	for c := 0; c < 64 && !(haveHold && haveFail); c++ {
		m := msg(c)
		k := refed.Challenge(va.v, r.enc, a.enc, m)
		k8 := int(new(big.Int).Mod(k, big.NewInt(8)).Int64())
		holds := (k8*a.tors+r.tors)%8 == 0
		if holds && !haveHold {
			haveHold = true
			out = append(out, group{a: a, r: r, va: va, m: m, s: honestS(a, r, va, m), expect: "kT_i+T_j=O"})
		}
		if !holds && !haveFail {
			haveFail = true
			out = append(out, group{a: a, r: r, va: va, m: m, s: honestS(a, r, va, m), expect: "kT_i+T_j!=O"})
		}
	}
	return out
}

func dedupeS(vals []*big.Int) [][]byte {
	seen := map[string]bool{}
	var out [][]byte
	for _, v := range vals {
		if v.Sign() < 0 || v.Cmp(two256) >= 0 {
			continue
		}
		b := ref.LE32(v)
		if !seen[string(b)] {
			seen[string(b)] = true
			out = append(out, b)
		}
	}
	return out
}

func shortS(s *big.Int) [][]byte {
	return dedupeS([]*big.Int{s, new(big.Int).Add(s, ref.L), new(big.Int).Mod(new(big.Int).Add(s, big1), ref.L), big.NewInt(0)})
}

func fullS(s *big.Int) [][]byte {
	L := ref.L
	v := []*big.Int{s}
	for k := int64(1); ; k++ {
		x := new(big.Int).Add(s, new(big.Int).Mul(big.NewInt(k), L))
		if x.Cmp(two256) >= 0 {
			break
		}
		v = append(v, x)
	}
	ad := func(a, b *big.Int) *big.Int { return new(big.Int).Add(a, b) }
	sb := func(a, b *big.Int) *big.Int { return new(big.Int).Sub(a, b) }
	v = append(v, big.NewInt(0), big.NewInt(1), sb(L, big1), L, ad(L, big1), pow2(252), sb(pow2(253), big1), pow2(253), pow2(255), sb(two256, big1))
	for _, top := range []byte{0x0f, 0x10, 0x1f, 0x20, 0x80} {
		b := ref.LE32(s)
		b[31] = top
		v = append(v, ref.FromLE(b))
	}
	for _, j := range []uint{64, 128, 192} {
		v = append(v, ad(L, pow2(j)), sb(L, pow2(j)))
	}
	v = append(v, new(big.Int).Mod(ad(s, big1), L), new(big.Int).Mod(sb(s, big1), L), new(big.Int).Mod(sb(L, s), L), ad(s, pow2(255)), ad(s, pow2(253)))
	return dedupeS(v)
}

// ---------------------------------------------------------------------------

type libOpts struct {
	mask int
	fl   refed.Flags
	vo   *ed.VerifyOptions
}

func buildLibOpts() []libOpts {
	var out []libOpts
	for m := 0; m < 32; m++ {
		fl := refed.FlagsFromMask(m)
		vo := &ed.VerifyOptions{AllowSmallOrderA: fl.AllowSmallOrderA, AllowSmallOrderR: fl.AllowSmallOrderR,
			AllowNonCanonicalA: fl.AllowNonCanonicalA, AllowNonCanonicalR: fl.AllowNonCanonicalR, CofactorlessVerify: fl.Cofactorless}
		// the four documented presets are exercised through the library's own preset objects
		switch fl {
		case refed.PresetDefault:
			vo = ed.VerifyOptionsDefault
		case refed.PresetStdLib:
			vo = ed.VerifyOptionsStdLib
		case refed.PresetFIPS:
			vo = ed.VerifyOptionsFIPS_186_5
		case refed.PresetZIP215:
			vo = ed.VerifyOptionsZIP_215
		}
		out = append(out, libOpts{m, fl, vo})
	}
	return out
}

// constStream is an endless deterministic entropy source for batch verification.
type constStream struct {
	b byte
	n int
}

// failStream delivers `after` bytes and then fails (entropy source of a Sign call that must abort).
type failStream struct{ after, n int }

func (f *failStream) Read(p []byte) (int, error) {
	k := 0
	for k < len(p) && f.n < f.after {
		p[k] = byte(f.n*29 + 5)
		k++
		f.n++
	}
	if k < len(p) {
		return k, fmt.Errorf("entropy source failed after %d bytes", f.after)
	}
	return k, nil
}

func (c *constStream) Read(p []byte) (int, error) {
	for i := range p {
		c.n++
		p[i] = c.b ^ byte(c.n*131>>3)
	}
	return len(p), nil
}

// ---------------------------------------------------------------------------
// Argument immutability (T12): the library never writes to an *Options, a *VerifyOptions or an exported preset.

var presetPtrs = [4]*ed.VerifyOptions{ed.VerifyOptionsDefault, ed.VerifyOptionsStdLib, ed.VerifyOptionsFIPS_186_5, ed.VerifyOptionsZIP_215}
var presetNames = [4]string{"VerifyOptionsDefault", "VerifyOptionsStdLib", "VerifyOptionsFIPS_186_5", "VerifyOptionsZIP_215"}
var presetSpec = [4]refed.Flags{refed.PresetDefault, refed.PresetStdLib, refed.PresetFIPS, refed.PresetZIP215}

func voOf(fl refed.Flags) ed.VerifyOptions {
	return ed.VerifyOptions{AllowSmallOrderA: fl.AllowSmallOrderA, AllowSmallOrderR: fl.AllowSmallOrderR, AllowNonCanonicalA: fl.AllowNonCanonicalA,
		AllowNonCanonicalR: fl.AllowNonCanonicalR, CofactorlessVerify: fl.Cofactorless}
}

// presetsIntact compares the exported presets (pointer and contents) with the specification flag sets; a changed preset
// is reported and put back, so that one write does not turn every later case into a failure.
func presetsIntact(w *mc.W, after string) {
	cur := [4]*ed.VerifyOptions{ed.VerifyOptionsDefault, ed.VerifyOptionsStdLib, ed.VerifyOptionsFIPS_186_5, ed.VerifyOptionsZIP_215}
	for i := range cur {
		if cur[i] != presetPtrs[i] {
			w.Fail("VerifyOptions-preset/mutated", fmt.Sprintf("exported variable %s points to another object after %s", presetNames[i], after), nil)
			continue
		}
		if want := voOf(presetSpec[i]); *cur[i] != want {
			w.Fail("VerifyOptions-preset/mutated", fmt.Sprintf("exported preset %s is %+v after %s, it was %+v", presetNames[i], *cur[i], after, want), map[string]string{"preset": presetNames[i], "after": after})
			*cur[i] = want
		}
	}
}

type optGuard struct {
	o  *ed.Options
	so ed.Options
	sv ed.VerifyOptions
}

func guardOpts(o *ed.Options) optGuard {
	g := optGuard{o: o, so: *o}
	if o.Verify != nil {
		g.sv = *o.Verify
	}
	return g
}

// check reports any write to the caller's Options / VerifyOptions (and to the presets) and undoes it.
func (g optGuard) check(w *mc.W, after string) {
	if *g.o != g.so {
		w.Fail("Options/mutated", fmt.Sprintf("%s wrote to the caller's Options: before %+v, after %+v", after, g.so, *g.o), map[string]string{"after": after})
		*g.o = g.so
	}
	if g.so.Verify != nil && *g.so.Verify != g.sv {
		w.Fail("VerifyOptions/mutated", fmt.Sprintf("%s wrote to the caller's VerifyOptions: before %+v, after %+v", after, g.sv, *g.so.Verify), map[string]string{"after": after})
		*g.so.Verify = g.sv
	}
	presetsIntact(w, after)
}

// call runs f and reports (result, panicked).
func call(f func() bool) (ok bool, panicked bool) {
	defer func() {
		if r := recover(); r != nil {
			ok, panicked = false, true
		}
	}()
	return f(), false
}

type checker struct {
	c         *mc.Ctx
	opts      []libOpts
	separates [5]int64 // reference-side: cases whose verdict changes when flag i alone is toggled
	kindMu    sync.Mutex
	kinds     map[string]int64
}

var flagNames = []string{"SA", "SR", "NA", "NR", "CL"}

func (k *checker) describe(pk, m, sig []byte, va *variant, fl refed.Flags) (string, map[string]string) {
	cas := map[string]string{"public_key": mc.Hex(pk), "message": mc.Hex(m), "signature": mc.Hex(sig), "variant": va.name,
		"context": mc.Hex(va.v.Context), "options": fl.Name()}
	return fmt.Sprintf("A=%x sig=%x variant=%s ctx=%x msg=%x options={%s}", pk, sig, va.name, va.v.Context, m, fl.Name()), cas
}

// evalCase compares the library with the predicate for one (A, m, sig, variant) under all 32 flag sets
// and both entry points.  epk is the expanded key (nil when the library refused to build one).
func (k *checker) evalCase(w *mc.W, kind string, pk, m, sig []byte, va *variant, f *refed.Facts, epk *ed.ExpandedPublicKey) {
	k.evalCaseOpts(w, kind, pk, m, sig, va, f, epk, k.opts)
}

// liteOpts: the four presets, the strictest set and the strict cofactorless set (for the sweeps).
func (k *checker) liteOpts() []libOpts {
	var out []libOpts
	for _, o := range k.opts {
		switch o.fl {
		case refed.PresetDefault, refed.PresetStdLib, refed.PresetFIPS, refed.PresetZIP215, refed.Flags{}, refed.Flags{Cofactorless: true}:
			out = append(out, o)
		}
	}
	return out
}

func (k *checker) evalCaseOpts(w *mc.W, kind string, pk, m, sig []byte, va *variant, f *refed.Facts, epk *ed.ExpandedPublicKey, opts []libOpts) {
	nontrivial := f.LenOK && f.SInRange
	var verdict [32]bool
	for _, o := range k.opts {
		verdict[o.mask], _ = f.Verdict(o.fl)
	}
	// The flag sets are run back to back on the same key / signature / expanded-key object; the direction of the sweep
	// alternates with the case (a function of its bytes), so that neither "strict first" nor "permissive first" is the
	// only history ever seen by state keyed on the key or signature bytes.
	if len(sig) > 32 && len(pk) > 0 && (sig[0]^sig[32]^pk[0])&1 == 1 {
		rev := make([]libOpts, len(opts))
		for i, o := range opts {
			rev[len(opts)-1-i] = o
		}
		opts = rev
	}
	for _, o := range opts {
		exp, why := f.Verdict(o.fl)
		lo := &ed.Options{Hash: va.hash, Context: string(va.v.Context), Verify: o.vo}
		og := guardOpts(lo)
		got, pan := call(func() bool { return ed.VerifyWithOptions(pk, m, sig, lo) })
		og.check(w, "VerifyWithOptions")
		gotE, panE := false, false
		if epk != nil {
			gotE, panE = call(func() bool { return ed.VerifyExpandedWithOptions(epk, m, sig, lo) })
			og.check(w, "VerifyExpandedWithOptions")
		}
		if !o.fl.Admissible() {
			// AllowNonCanonicalR + CofactorlessVerify is documented as incompatible: it must never yield an acceptance.
			w.EvalN("incompatible-pair/never-accepts", 2, false)
			if got || gotE {
				d, cas := k.describe(pk, m, sig, va, o.fl)
				w.Fail("incompatible-options/accepts", "documented-incompatible option pair produced an acceptance: "+d, cas)
			}
			continue
		}
		n := int64(1)
		if epk != nil {
			n = 2
		}
		w.EvalN("opt/"+o.fl.Name()+"/"+whyName(why), n, nontrivial)
		k.cmp(w, "VerifyWithOptions", got, pan, exp, why, pk, m, sig, va, o.fl)
		if epk != nil {
			k.cmp(w, "VerifyExpandedWithOptions", gotE, panE, exp, why, pk, m, sig, va, o.fl)
		} else if exp {
			d, cas := k.describe(pk, m, sig, va, o.fl)
			w.Fail("NewExpandedPublicKey/refuses-acceptable-key", "NewExpandedPublicKey returned an error for a key under which the predicate accepts: "+d, cas)
		}
		// Documented defaults (T12): Options.Verify == nil must behave exactly like VerifyOptionsDefault in EVERY twin of the
		// entry point - plain, expanded, batch (plain and expanded entries), and the option-less wrappers - in pure, ctx
		// and ph mode.  (The explicit-default answers are got / gotE above.)
		if o.fl == refed.PresetDefault {
			nilOpts := func() *ed.Options { return &ed.Options{Hash: va.hash, Context: string(va.v.Context)} }
			no := nilOpts()
			ng := guardOpts(no)
			g, p := call(func() bool { return ed.VerifyWithOptions(pk, m, sig, no) })
			ng.check(w, "VerifyWithOptions(Verify=nil)")
			k.cmp(w, "VerifyWithOptions(Verify=nil)", g, p, exp, why, pk, m, sig, va, o.fl)
			if epk != nil {
				g, p = call(func() bool { return ed.VerifyExpandedWithOptions(epk, m, sig, no) })
				ng.check(w, "VerifyExpandedWithOptions(Verify=nil)")
				k.cmp(w, "VerifyExpandedWithOptions(Verify=nil)", g, p, exp, why, pk, m, sig, va, o.fl)
			}
			if va.v.Pure() {
				g, p = call(func() bool { return ed.Verify(pk, m, sig) })
				k.cmp(w, "Verify", g, p, exp, why, pk, m, sig, va, o.fl)
				if epk != nil {
					g, p = call(func() bool { return ed.VerifyExpanded(epk, m, sig) })
					k.cmp(w, "VerifyExpanded", g, p, exp, why, pk, m, sig, va, o.fl)
				}
			}
			// batch twins: always where the default matters (Default and the all-false struct disagree), otherwise for a
			// deterministic eighth of the cases
			if len(sig) == 64 && (verdict[refed.PresetDefault.Mask()] != verdict[0] || (sig[1]^sig[33])&7 == 0) {
				bv := ed.NewBatchVerifier()
				n := 0
				add := func(entry string, f func(o *ed.Options), o *ed.Options) {
					bg := guardOpts(o)
					_, pan := call(func() bool { f(o); return true })
					bg.check(w, entry)
					if pan {
						d, cas := k.describe(pk, m, sig, va, refed.PresetDefault)
						w.Fail(entry+"/panic", "undocumented panic: "+d, cas)
					}
					n++
				}
				add("BatchVerifier.AddWithOptions(Verify=nil)", func(o *ed.Options) { bv.AddWithOptions(pk, m, sig, o) }, nilOpts())
				add("BatchVerifier.AddWithOptions", func(o *ed.Options) { bv.AddWithOptions(pk, m, sig, o) }, lo)
				if epk != nil {
					add("BatchVerifier.AddExpandedWithOptions(Verify=nil)", func(o *ed.Options) { bv.AddExpandedWithOptions(epk, m, sig, o) }, nilOpts())
					add("BatchVerifier.AddExpandedWithOptions", func(o *ed.Options) { bv.AddExpandedWithOptions(epk, m, sig, o) }, lo)
				}
				if va.v.Pure() {
					add("BatchVerifier.Add", func(*ed.Options) { bv.Add(pk, m, sig) }, nilOpts())
					if epk != nil {
						add("BatchVerifier.AddExpanded", func(*ed.Options) { bv.AddExpanded(epk, m, sig) }, nilOpts())
					}
				}
				var all bool
				var each []bool
				_, pan := call(func() bool { all, each = bv.Verify(&constStream{b: sig[2]}); return true })
				presetsIntact(w, "BatchVerifier.Verify")
				w.EvalN("default-twins/batch/"+whyName(why), int64(n), nontrivial)
				bad := pan || all != exp || len(each) != n
				for _, e := range each {
					bad = bad || e != exp
				}
				if bad {
					d, cas := k.describe(pk, m, sig, va, o.fl)
					w.Fail("BatchVerifier.Verify/default-twins", fmt.Sprintf("batch [Verify=nil, VerifyOptionsDefault] x [plain, expanded] (+Add/AddExpanded for pure) gives all=%v each=%v panic=%v, predicate says %v (%s): %s", all, each, pan, exp, why, d), cas)
				}
			}
		}
	}
	// which flags does this case separate?
	for bit := 0; bit < 5; bit++ {
		for m := 0; m < 32; m++ {
			if m&(1<<uint(bit)) != 0 || !refed.FlagsFromMask(m).Admissible() || !refed.FlagsFromMask(m|1<<uint(bit)).Admissible() {
				continue
			}
			if verdict[m] != verdict[m|1<<uint(bit)] {
				atomic.AddInt64(&k.separates[bit], 1)
				break
			}
		}
	}
	k.kindMu.Lock()
	k.kinds[kind]++
	k.kindMu.Unlock()
	// second oracle for the StdLib preset: Go's crypto/ed25519 on every case
	std := stded.VerifyWithOptions(stded.PublicKey(pk), m, sig, &stded.Options{Hash: va.hash, Context: string(va.v.Context)}) == nil
	if std != verdict[refed.PresetStdLib.Mask()] {
		d, _ := k.describe(pk, m, sig, va, refed.PresetStdLib)
		k.c.Broken(fmt.Sprintf("oracles disagree: reference StdLib predicate=%v crypto/ed25519=%v on %s", verdict[refed.PresetStdLib.Mask()], std, d))
	}
	lo := &ed.Options{Hash: va.hash, Context: string(va.v.Context), Verify: ed.VerifyOptionsStdLib}
	got, pan := call(func() bool { return ed.VerifyWithOptions(pk, m, sig, lo) })
	if got != std || pan {
		d, cas := k.describe(pk, m, sig, va, refed.PresetStdLib)
		w.Fail("VerifyWithOptions/StdLib-vs-crypto/ed25519", fmt.Sprintf("StdLib preset returned %v (panic=%v), Go crypto/ed25519 says %v: %s", got, pan, std, d), cas)
	}
	if std {
		w.EvalN("stdlib/accept", 1, nontrivial)
	} else {
		w.EvalN("stdlib/reject", 1, nontrivial)
	}
}

func whyName(why string) string {
	if why == "" {
		return "accept"
	}
	return "reject:" + why
}

func (k *checker) cmp(w *mc.W, entry string, got, panicked, exp bool, why string, pk, m, sig []byte, va *variant, fl refed.Flags) {
	if panicked {
		d, cas := k.describe(pk, m, sig, va, fl)
		w.Fail(entry+"/panic", "undocumented panic: "+d, cas)
		return
	}
	if got == exp {
		return
	}
	d, cas := k.describe(pk, m, sig, va, fl)
	if got {
		w.Fail(entry+"/accepts/"+why, fmt.Sprintf("%s ACCEPTS a signature the predicate rejects (%s): %s", entry, why, d), cas)
	} else {
		w.Fail(entry+"/rejects-valid", fmt.Sprintf("%s REJECTS a signature the predicate accepts: %s", entry, d), cas)
	}
}

// expand builds the expanded key and checks that construction fails exactly for strings that do not decode.
func (k *checker) expand(w *mc.W, pk []byte) *ed.ExpandedPublicKey {
	epk, err := ed.NewExpandedPublicKey(pk)
	dec := refed.DecodeFacts(pk).Decodes
	if err != nil {
		epk = nil
	}
	if (err == nil) != dec {
		w.Fail("NewExpandedPublicKey/decodability", fmt.Sprintf("NewExpandedPublicKey(%x) err=%v but reference decodes=%v", pk, err, dec), map[string]string{"public_key": mc.Hex(pk)})
	}
	return epk
}

func run(c *mc.Ctx) {
	t := ref.Torsion()
	vars := buildVariants()
	k := &checker{c: c, opts: buildLibOpts(), kinds: map[string]int64{}}

	// The library's preset objects must be the flag sets the specifications define.
	presetOK := func(vo *ed.VerifyOptions, fl refed.Flags) bool {
		return vo != nil && vo.AllowSmallOrderA == fl.AllowSmallOrderA && vo.AllowSmallOrderR == fl.AllowSmallOrderR &&
			vo.AllowNonCanonicalA == fl.AllowNonCanonicalA && vo.AllowNonCanonicalR == fl.AllowNonCanonicalR && vo.CofactorlessVerify == fl.Cofactorless
	}
	c.Seq("presets", 4, func(w *mc.W, i int) {
		names := []string{"Default", "StdLib", "FIPS_186_5", "ZIP_215"}
		vos := []*ed.VerifyOptions{ed.VerifyOptionsDefault, ed.VerifyOptionsStdLib, ed.VerifyOptionsFIPS_186_5, ed.VerifyOptionsZIP_215}
		fls := []refed.Flags{refed.PresetDefault, refed.PresetStdLib, refed.PresetFIPS, refed.PresetZIP215}
		w.Eval("preset-definition", false)
		if !presetOK(vos[i], fls[i]) {
			w.Fail("preset/"+names[i], fmt.Sprintf("VerifyOptions%s = %+v, specification flags %s", names[i], vos[i], fls[i].Name()), nil)
		}
	})

	// ---- alphabets -------------------------------------------------------
	nKeys := c.Pick(1, 2)
	type keyAlph struct {
		A, R []*ent
	}
	var keys []keyAlph
	for ki := 0; ki < nKeys; ki++ {
		key := refed.NewKey(mc.Bytes(c.Seed, "c01-seed", ki, 32))
		a := new(big.Int).Mod(key.A, ref.L)
		r := new(big.Int).Mod(ref.FromLE(mc.Bytes(c.Seed, "c01-nonce", ki, 64)), ref.L)
		keys = append(keys, keyAlph{buildA(c.Seed, t, a), buildR(c.Seed, t, r)})
	}
	c.Rep.Extra["alphabet_A"] = len(keys[0].A)
	c.Rep.Extra["alphabet_R"] = len(keys[0].R)
	c.Rep.Extra["keys"] = nKeys
	c.Rep.Extra["variants"] = len(vars)

	// ---- sub-space "pairs": every (A, R) pair, short S list ----------------
	var pairs []group
	for ki, ka := range keys {
		for ia, a := range ka.A {
			for ir, r := range ka.R {
				for vi, va := range vars {
					// quick: one variant per pair (rotating), two when both logarithms are known (accepting cases)
					// (thorough: see below for the first key, the quick rule for the second)
					known := a.sc != nil && r.sc != nil
					if !c.Thorough || ki > 0 {
						if vi != (ia+ir)%len(vars) && !(known && vi == (ia+ir+3)%len(vars)) {
							continue
						}
					} else if !known && !pickVar(vi, ia+ir, 5, len(vars)) {
						continue // thorough, key 0: all 8 variants when both logarithms are known, 5 rotating otherwise
					}
					salt := ((ki*len(ka.A)+ia)*len(ka.R)+ir)*len(vars) + vi
					pairs = append(pairs, makeGroups(c.Seed, a, r, va, salt, nil)...)
				}
			}
		}
	}
	c.Rep.Extra["groups_pairs"] = len(pairs)
	runGroup := func(w *mc.W, kind string, g *group, ss [][]byte) {
		p := refed.Prepare(g.a.enc, g.r.enc, g.m, g.va.v)
		epk := k.expand(w, g.a.enc)
		for _, sb := range ss {
			sig := append(append([]byte{}, g.r.enc...), sb...)
			k.evalCase(w, kind, g.a.enc, g.m, sig, g.va, p.WithS(sb), epk)
		}
		// the expanded key has now been used for every S and flag set of the group: it must still behave like a fresh
		// object holding the same key, and like a copy of itself taken by value
		if epk != nil && len(ss) > 0 && g.s.Bit(0) == 0 { // (every second group)
			sig := append(append([]byte{}, g.r.enc...), ss[0]...)
			f := p.WithS(ss[0])
			fresh, _ := ed.NewExpandedPublicKey(g.a.enc)
			cp := *epk
			for _, fl := range []refed.Flags{refed.PresetZIP215, refed.PresetDefault} {
				exp, why := f.Verdict(fl)
				lo := &ed.Options{Hash: g.va.hash, Context: string(g.va.v.Context), Verify: k.opts[fl.Mask()].vo}
				for name, e := range map[string]*ed.ExpandedPublicKey{"used": epk, "fresh": fresh, "value-copy": &cp} {
					if e == nil {
						continue
					}
					w.EvalN("expanded-key-reuse/"+whyName(why), 1, f.LenOK && f.SInRange)
					got, pan := call(func() bool { return ed.VerifyExpandedWithOptions(e, g.m, sig, lo) })
					k.cmp(w, "VerifyExpandedWithOptions("+name+" key object)", got, pan, exp, why, g.a.enc, g.m, sig, g.va, fl)
				}
			}
		}
	}
	c.Par("pairs", len(pairs), func(w *mc.W, i int) {
		g := &pairs[i]
		runGroup(w, "pairs", g, shortS(g.s))
		if i%397 == 0 {
			w.Sample(map[string]string{"sub": "pairs", "A": g.a.label, "R": g.r.label, "variant": g.va.name, "A_hex": mc.Hex(g.a.enc), "R_hex": mc.Hex(g.r.enc),
				"S_honest": mc.Hex(ref.LE32(g.s)), "msg_len": fmt.Sprint(len(g.m)), "construction": g.expect})
		}
	})

	// ---- sub-space "svalues": selected pairs, every variant, the full S alphabet ----
	pickEnt := func(es []*ent, labels ...string) []*ent {
		var out []*ent
		for _, l := range labels {
			for _, e := range es {
				if e.label == l {
					out = append(out, e)
				}
			}
		}
		return out
	}
	var sv []group
	for ki, ka := range keys {
		as := pickEnt(ka.A, "aB+T0", "aB+T1", "aB+T4", "T1", "T4", "y=p+1,sign=0", "T0,x=0,sign=1")
		rs := pickEnt(ka.R, "rB+T0", "rB+T1", "rB+T2", "T4", "T2", "y=p+0,sign=1", "T4,x=0,sign=1")
		if c.Thorough {
			as = append(as, pickEnt(ka.A, "aB+T2", "aB+T7", "y=p+0,sign=0")...)
			rs = append(rs, pickEnt(ka.R, "rB+T4", "rB+T7", "y=p+1,sign=1")...)
		}
		// every special-nonce R with a small-order A (honest S = r sits on the S < L boundary)
		for _, r := range ka.R {
			if r.sc != nil && r.tors == 0 && r.label[0] == '[' {
				rs = append(rs, r)
			}
		}
		for ia, a := range as {
			for ir, r := range rs {
				for vi, va := range vars {
					if (!c.Thorough && vi != (ia+2*ir)%len(vars)) || !pickVar(vi, ia+2*ir, 5, len(vars)) {
						continue
					}
					sv = makeGroups(c.Seed, a, r, va, 1000003+((ki*32+ia)*32+ir)*len(vars)+vi, sv)
				}
			}
		}
	}
	c.Rep.Extra["groups_svalues"] = len(sv)
	c.Par("svalues", len(sv), func(w *mc.W, i int) {
		g := &sv[i]
		runGroup(w, "svalues", g, fullS(g.s))
		if i%97 == 0 {
			w.Sample(map[string]string{"sub": "svalues", "A": g.a.label, "R": g.r.label, "variant": g.va.name, "S_values": fmt.Sprint(len(fullS(g.s)))})
		}
	})

	// ---- sub-space "sboundary": the S < L decision tree on signatures that are VALID modulo L ----
	// For a small-order A = T_i the honest S equals the nonce r, so for every value t of the word-wise comparison
	// tree against L (each 64-bit word one below / equal to / one above the word of L) the signature
	// (R = [t mod L]B, S = t) satisfies the equation and must be accepted exactly when t < L.
	var sb []group
	{
		var lw [4]*big.Int
		m64 := new(big.Int).Sub(pow2(64), big1)
		for i := range lw {
			lw[i] = new(big.Int).And(new(big.Int).Rsh(ref.L, uint(64*i)), m64)
		}
		seen := map[string]bool{}
		var tree []*big.Int
		for code := 0; code < 81; code++ {
			t, ok, cc := new(big.Int), true, code
			for i := 0; i < 4; i++ {
				w := new(big.Int).Add(lw[i], big.NewInt(int64(cc%3-1)))
				cc /= 3
				if w.Sign() < 0 {
					ok = false
				}
				t.Add(t, new(big.Int).Lsh(w, uint(64*i)))
			}
			if ok && !seen[t.String()] {
				seen[t.String()] = true
				tree = append(tree, t)
			}
		}
		c.Rep.Extra["s_decision_tree_values"] = len(tree)
		as := pickEnt(keys[0].A, "T1", "T0", "aB+T0")
		for ti, t := range tree {
			r := new(big.Int).Mod(t, ref.L)
			re := &ent{refed.BaseMul(r).Encode(), r, 0, fmt.Sprintf("[%x mod L]B", t)}
			for ia, a := range as {
				if a.label == "aB+T0" && !c.Thorough && ti%6 != 0 {
					continue
				}
				for vi, va := range vars {
					if (!c.Thorough && vi != (ti+ia)%len(vars)) || !pickVar(vi, ti+ia, 5, len(vars)) {
						continue
					}
					gs := makeGroups(c.Seed, a, re, va, 4000003+(ti*4+ia)*len(vars)+vi, nil)
					for _, g := range gs {
						// S = honest s + (t - t mod L): equal to t for small-order A, the same multiple of L above the honest s otherwise
						g.ss = dedupeS([]*big.Int{new(big.Int).Add(g.s, new(big.Int).Sub(t, r)), g.s})
						sb = append(sb, g)
					}
				}
			}
		}
	}
	c.Rep.Extra["groups_sboundary"] = len(sb)
	c.Par("sboundary", len(sb), func(w *mc.W, i int) {
		g := &sb[i]
		runGroup(w, "sboundary", g, g.ss)
		if i%53 == 0 {
			w.Sample(map[string]string{"sub": "sboundary", "A": g.a.label, "R": g.r.label, "variant": g.va.name, "S": mc.Hex(g.ss[0])})
		}
	})

	// ---- sub-space "flips": every single-bit change of signature / key, message and context changes ----
	var flg []group
	for ki, ka := range keys {
		if ki > 0 {
			break
		}
		as := pickEnt(ka.A, "aB+T0", "aB+T1")
		rs := pickEnt(ka.R, "rB+T0", "rB+T3")
		for ia, a := range as {
			for ir, r := range rs {
				if ia != ir {
					continue
				}
				for vi, va := range vars {
					if (!c.Thorough && vi != (2*ia+ki)%len(vars)) || !pickVar(vi, 2*ia+ki, 5, len(vars)) {
						continue
					}
					gs := makeGroups(c.Seed, a, r, va, 2000003+((ki*4+ia)*4+ir)*len(vars)+vi, nil)
					flg = append(flg, gs[0]) // for mixed pairs: the message for which even the cofactorless equation holds
				}
			}
		}
	}
	c.Rep.Extra["groups_flips"] = len(flg)
	const nSigFlip, nKeyFlip, nMsgMut = 512, 256, 8
	perGroup := nSigFlip + nKeyFlip + nMsgMut
	c.Par("flips", len(flg)*perGroup, func(w *mc.W, i int) {
		g := &flg[i/perGroup]
		j := i % perGroup
		if !c.Thorough && i/perGroup > 0 && j < nSigFlip+nKeyFlip && j%4 != 1 {
			return // quick: every bit for the first group, every fourth bit for the others
		}
		pk := append([]byte{}, g.a.enc...)
		m := append([]byte{}, g.m...)
		sig := append(append([]byte{}, g.r.enc...), ref.LE32(g.s)...)
		va := g.va
		kind := ""
		switch {
		case j < nSigFlip:
			sig[j/8] ^= 1 << uint(j%8)
			kind = "flip-signature-bit"
		case j < nSigFlip+nKeyFlip:
			b := j - nSigFlip
			pk[b/8] ^= 1 << uint(b%8)
			kind = "flip-key-bit"
		default:
			mm := j - nSigFlip - nKeyFlip
			kind = "message/context-change"
			switch mm {
			case 0: // unchanged (the honest case itself)
				kind = "unmodified"
			case 1:
				if len(m) == 0 {
					return
				}
				m[0] ^= 1
			case 2:
				if len(m) == 0 {
					return
				}
				m[len(m)-1] ^= 0x80
			case 3:
				if va.v.Ph { // a digest must stay 64 bytes
					return
				}
				m = append(m, 0)
			case 4:
				if va.v.Ph || len(m) == 0 {
					return
				}
				m = m[:len(m)-1]
			case 5: // context: change one byte / add a context
				v2 := *va
				if len(va.v.Context) == 0 {
					v2.v.Context = []byte{0}
				} else {
					v2.v.Context = append([]byte{}, va.v.Context...)
					v2.v.Context[len(v2.v.Context)-1] ^= 1
				}
				v2.name += "(context changed)"
				va = &v2
			case 6: // context: shortened by one byte (or extended for the empty one)
				v2 := *va
				if len(va.v.Context) == 0 {
					v2.v.Context = []byte("x")
				} else {
					v2.v.Context = va.v.Context[:len(va.v.Context)-1]
				}
				v2.name += "(context length changed)"
				va = &v2
			case 7: // other variant: ph <-> not ph (only when the message is digest-sized)
				if len(m) != 64 {
					return
				}
				v2 := *va
				v2.v.Ph = !va.v.Ph
				if v2.v.Ph {
					v2.hash = crypto.SHA512
				} else {
					v2.hash = crypto.Hash(0)
				}
				v2.name += "(ph toggled)"
				va = &v2
			}
		}
		f := refed.Analyse(pk, m, sig, va.v)
		k.evalCase(w, kind, pk, m, sig, va, f, k.expand(w, pk))
		if j == 300 {
			w.Sample(map[string]string{"sub": "flips", "A": g.a.label, "R": g.r.label, "variant": g.va.name, "flipped_bit": "300"})
		}
	})

	// ---- sub-space "collisions": inputs that FORCE collisions on anything state could be keyed by ----
	// Each index owns a context string nobody else uses, so the order of first use is fixed inside the index and the case
	// replays alone: the same context under ctx then ph (odd indices: ph then ctx), the same 64-byte message under
	// pure / ctx / ph / ph+ctx, one expanded-key object across all of them, every signature also offered under the
	// neighbouring variant (must be rejected), the same R-bytes under two different keys, and the first step once more
	// after everything else has run.
	lite := k.liteOpts()
	honA := pickEnt(keys[0].A, "aB+T0")[0]
	honR := pickEnt(keys[0].R, "rB+T0")[0]
	key2 := refed.NewKey(mc.Bytes(c.Seed, "c01-seed", 1, 32))
	honA2 := &ent{key2.Pub, new(big.Int).Mod(key2.A, ref.L), 0, "a'B"}
	mkSig := func(a, r *ent, va *variant, m []byte) []byte {
		return append(append([]byte{}, r.enc...), ref.LE32(honestS(a, r, va, m))...)
	}
	nColl := c.Pick(24, 120)
	collLens := []int{4, 32, 95, 100, 158, 255}
	c.Par("collisions", nColl, func(w *mc.W, i int) {
		ctx := mc.Bytes(c.Seed, "c01-collision-context", i, collLens[i%len(collLens)])
		m := mc.Bytes(c.Seed, "c01-collision-message", i, 64)
		vs := []*variant{
			{"ctx(own context)", refed.Variant{Context: ctx}, crypto.Hash(0)},
			{"ph(own context)", refed.Variant{Ph: true, Context: ctx}, crypto.SHA512},
			{"pure", refed.Variant{}, crypto.Hash(0)},
			{"ph", refed.Variant{Ph: true}, crypto.SHA512},
		}
		if i%2 == 1 {
			vs[0], vs[1] = vs[1], vs[0]
			vs[2], vs[3] = vs[3], vs[2]
		}
		epk := k.expand(w, honA.enc)
		epk2 := k.expand(w, honA2.enc)
		run := func(kind string, a *ent, e *ed.ExpandedPublicKey, sig []byte, va *variant) {
			k.evalCaseOpts(w, kind, a.enc, m, sig, va, refed.Analyse(a.enc, m, sig, va.v), e, lite)
		}
		sigs := make([][]byte, len(vs))
		for j, va := range vs {
			sigs[j] = mkSig(honA, honR, va, m)
			run("collision/same-message-next-variant", honA, epk, sigs[j], va)
			if j > 0 {
				run("collision/signature-of-previous-variant", honA, epk, sigs[j-1], va)
			}
		}
		run("collision/signature-of-previous-variant", honA, epk, sigs[len(vs)-1], vs[0])
		// the same R-bytes under another key
		sig2 := mkSig(honA2, honR, vs[0], m)
		run("collision/same-R-other-key", honA2, epk2, sig2, vs[0])
		run("collision/same-R-other-key", honA, epk, sig2, vs[0])
		run("collision/same-R-other-key", honA2, epk2, sigs[0], vs[0])
		// and every variant again, now that all of them have been used with this context / message / key
		for j, va := range vs {
			run("collision/revisit", honA, epk, sigs[j], va)
		}
		// one BatchVerifier and the one shared expanded key: [valid; a signature of the neighbouring variant (invalid);
		// valid again] forces the serial fallback on the shared key; then Reset and a batch of one valid entry per
		// variant; then Reset and the first batch again; finally the key once more on its own.
		type bent struct {
			sig []byte
			va  *variant
		}
		batch := func(what string, bv *ed.BatchVerifier, es []bent) {
			var want []bool
			allWant := true
			for _, e := range es {
				exp, _ := refed.Analyse(honA.enc, m, e.sig, e.va.v).Verdict(refed.PresetDefault)
				want = append(want, exp)
				allWant = allWant && exp
				bv.AddExpandedWithOptions(epk, m, e.sig, &ed.Options{Hash: e.va.hash, Context: string(e.va.v.Context)})
			}
			all, each := bv.Verify(&constStream{b: byte(i)})
			w.EvalN("collision/batch-shared-expanded-key", int64(len(es)), true)
			if all != allWant || fmt.Sprint(each) != fmt.Sprint(want) {
				w.Fail("BatchVerifier.Verify/shared-expanded-key", fmt.Sprintf("%s: all=%v each=%v, predicate says all=%v each=%v (key %x, message %x, context %x)", what, all, each, allWant, want, honA.enc, m, ctx),
					map[string]string{"public_key": mc.Hex(honA.enc), "message": mc.Hex(m), "context": mc.Hex(ctx)})
			}
		}
		if epk != nil {
			bv := ed.NewBatchVerifier()
			first := []bent{{sigs[0], vs[0]}, {sigs[1], vs[0]}, {sigs[0], vs[0]}, {sigs[2], vs[2]}}
			batch("batch [valid, invalid, valid, valid]", bv, first)
			bv.Reset()
			batch("after Reset: one valid entry per variant", bv, []bent{{sigs[0], vs[0]}, {sigs[1], vs[1]}, {sigs[2], vs[2]}, {sigs[3], vs[3]}})
			bv.Reset()
			batch("after second Reset: the first batch again", bv, first)
			run("collision/revisit", honA, epk, sigs[0], vs[0])
		}
		if i == 0 {
			w.Sample(map[string]string{"sub": "collisions", "context": mc.Hex(ctx), "message": mc.Hex(m), "order": vs[0].name + " -> " + vs[1].name})
		}
	})

	// ---- sub-space "options-history": [query under P; Sign / batch with P; the same query under P again] (T12) ----
	// One index per VerifyOptions object P (the four exported presets and two caller-owned structs), so no two indices
	// share an object and the history replays alone.  The queries are the cases on which the flags matter (small-order R,
	// small-order A, non-canonical A / R, an honest signature); between the rounds the same P is handed to
	// PrivateKey.Sign (SelfVerify on/off, AddedRandomness on/off) and to a BatchVerifier.  Every answer must be the
	// predicate's, every Sign result the RFC 8032 signature, and P / the Options / the presets must never be written to.
	{
		seed0 := mc.Bytes(c.Seed, "c01-seed", 0, 32)
		rk0 := refed.NewKey(seed0)
		priv0 := ed.PrivateKey(append(append([]byte{}, seed0...), rk0.Pub...))
		own1, own2 := voOf(refed.PresetStdLib), voOf(refed.PresetZIP215)
		type pobj struct {
			name string
			vo   *ed.VerifyOptions
			fl   refed.Flags
		}
		ps := []pobj{{"VerifyOptionsDefault", ed.VerifyOptionsDefault, refed.PresetDefault}, {"VerifyOptionsStdLib", ed.VerifyOptionsStdLib, refed.PresetStdLib},
			{"VerifyOptionsFIPS_186_5", ed.VerifyOptionsFIPS_186_5, refed.PresetFIPS}, {"VerifyOptionsZIP_215", ed.VerifyOptionsZIP_215, refed.PresetZIP215},
			{"caller-owned {SA,SR,NA,CL}", &own1, refed.PresetStdLib}, {"caller-owned {SA,SR,NA,NR}", &own2, refed.PresetZIP215}}
		A, R := keys[0].A, keys[0].R
		type qry struct{ a, r *ent }
		qs := []qry{{honA, pickEnt(R, "T0")[0]}, {honA, pickEnt(R, "T4")[0]}, {pickEnt(A, "T1")[0], honR}, {pickEnt(A, "y=p+1,sign=0")[0], honR},
			{honA, pickEnt(R, "y=p+1,sign=0")[0]}, {honA, honR}, {pickEnt(A, "aB+T1")[0], pickEnt(R, "T2")[0]}}
		hv := []*variant{vars[0], vars[3], vars[4], vars[7]} // pure, ctx100, ph, ph+ctx100
		c.Par("options-history", len(ps), func(w *mc.W, i int) {
			P := ps[i]
			for vi, va := range hv {
				m := mc.Bytes(c.Seed, "c01-history-message", i*8+vi, 64)
				type qc struct {
					pk, sig []byte
					f       *refed.Facts
					epk     *ed.ExpandedPublicKey
				}
				var cases []qc
				for _, q := range qs {
					sig := mkSig(q.a, q.r, va, m)
					cases = append(cases, qc{q.a.enc, sig, refed.Analyse(q.a.enc, m, sig, va.v), k.expand(w, q.a.enc)})
				}
				round := func(when string) {
					for _, q := range cases {
						exp, why := q.f.Verdict(P.fl)
						lo := &ed.Options{Hash: va.hash, Context: string(va.v.Context), Verify: P.vo}
						og := guardOpts(lo)
						w.EvalN("options-history/"+whyName(why), 2, true)
						got, pan := call(func() bool { return ed.VerifyWithOptions(q.pk, m, q.sig, lo) })
						og.check(w, "VerifyWithOptions")
						k.cmp(w, "VerifyWithOptions("+when+")", got, pan, exp, why, q.pk, m, q.sig, va, P.fl)
						if q.epk != nil {
							got, pan = call(func() bool { return ed.VerifyExpandedWithOptions(q.epk, m, q.sig, lo) })
							og.check(w, "VerifyExpandedWithOptions")
							k.cmp(w, "VerifyExpandedWithOptions("+when+")", got, pan, exp, why, q.pk, m, q.sig, va, P.fl)
						}
					}
				}
				round("first query under " + P.name)
				want := rk0.Sign(va.v, m)
				for mode := 0; mode < 4; mode++ {
					so := &ed.Options{Hash: va.hash, Context: string(va.v.Context), SelfVerify: mode&1 == 0, AddedRandomness: mode&2 != 0, Verify: P.vo}
					og := guardOpts(so)
					var sig []byte
					var err error
					_, pan := call(func() bool { sig, err = priv0.Sign(&constStream{b: byte(i)}, m, so); return true })
					og.check(w, fmt.Sprintf("PrivateKey.Sign(SelfVerify=%v, AddedRandomness=%v, Verify=%s)", so.SelfVerify, so.AddedRandomness, P.name))
					w.Eval("options-history/sign", true)
					if pan || err != nil || len(sig) != 64 || (mode&2 == 0 && !bytes.Equal(sig, want)) {
						w.Fail("PrivateKey.Sign/with-preset", fmt.Sprintf("Sign(SelfVerify=%v, AddedRandomness=%v, Verify=%s, variant %s) gives sig=%x err=%v panic=%v, RFC 8032 signature %x", so.SelfVerify, so.AddedRandomness, P.name, va.name, sig, err, pan, want), nil)
					}
					round(fmt.Sprintf("after Sign(SelfVerify=%v, AddedRandomness=%v) with %s", so.SelfVerify, so.AddedRandomness, P.name))
				}
				// a Sign call that ABORTS (its entropy source fails after 0 / 7 / 31 bytes) must leave nothing behind that the next
				// verification could pick up (pooled hash state, scratch): same queries, same answers, straight afterwards
				for _, after := range []int{0, 7, 31} {
					so := &ed.Options{Hash: va.hash, Context: string(va.v.Context), SelfVerify: after == 7, AddedRandomness: true, Verify: P.vo}
					var sig []byte
					var err error
					_, pan := call(func() bool { sig, err = priv0.Sign(&failStream{after: after}, m, so); return true })
					w.Eval("options-history/failed-sign", true)
					if pan || err == nil || sig != nil {
						w.Fail("PrivateKey.Sign/reader-failure", fmt.Sprintf("Sign(AddedRandomness, variant %s) with an entropy source failing after %d bytes gives sig=%x err=%v panic=%v", va.name, after, sig, err, pan), nil)
					}
					round(fmt.Sprintf("after a Sign aborted by its entropy source (%d bytes delivered) with %s", after, P.name))
				}
				bv := ed.NewBatchVerifier()
				var want2 []bool
				for _, q := range cases {
					lo := &ed.Options{Hash: va.hash, Context: string(va.v.Context), Verify: P.vo}
					og := guardOpts(lo)
					bv.AddWithOptions(q.pk, m, q.sig, lo)
					og.check(w, "BatchVerifier.AddWithOptions")
					exp, _ := q.f.Verdict(P.fl)
					want2 = append(want2, exp)
				}
				_, each := bv.Verify(&constStream{b: byte(i + 1)})
				presetsIntact(w, "BatchVerifier.Verify")
				w.EvalN("options-history/batch", int64(len(cases)), true)
				if fmt.Sprint(each) != fmt.Sprint(want2) {
					w.Fail("BatchVerifier.Verify/with-preset", fmt.Sprintf("batch of the %d queries under %s (variant %s): each=%v, predicate says %v", len(cases), P.name, va.name, each, want2), nil)
				}
				round("after a batch with " + P.name)
			}
		})
	}

	// ---- sub-space "cache-twin": cache.Verifier (small LRU) as one more twin of the verification entry points ----
	// Each index owns a Verifier whose LRU holds 1..3 keys and walks a fixed sequence over 6 keys (honest, second honest,
	// small-order, mixed-order, non-canonical, undecodable): every key twice in a row (miss with eviction, then a hit);
	// R alternates between honest, small-order and non-canonical strings; options rotate through Verify == nil, the
	// explicit default and the other presets.  Every answer (VerifyWithOptions, Verify, and AddWithOptions into a batch)
	// must be the predicate's.
	{
		A, R := keys[0].A, keys[0].R
		cks := []*ent{honA, honA2, pickEnt(A, "T1")[0], pickEnt(A, "aB+T1")[0], pickEnt(A, "y=p+1,sign=0")[0]}
		cks = append(cks, pickEnt(A, "generic undecodable")...)
		crs := []*ent{honR, pickEnt(R, "T0")[0], pickEnt(R, "T4")[0], pickEnt(R, "y=p+1,sign=0")[0], pickEnt(R, "rB+T1")[0]}
		c.Par("cache-twin", c.Pick(12, 60), func(w *mc.W, i int) {
			v := cache.NewVerifier(cache.NewLRUCache(1 + i%3))
			va := vars[i%len(vars)]
			for step := 0; step < 24; step++ {
				// every key is used twice in a row (a miss that may evict, then a hit on the entry just inserted), walking
				// through more keys than the cache holds, with stride 1 or 2
				a := cks[((step/2)*(1+i%2)+i)%len(cks)]
				r := crs[(step+i/3)%len(crs)]
				m := mc.Bytes(c.Seed, "c01-cache-message", i*32+step, 64)
				sig := mkSig(a, r, va, m)
				f := refed.Analyse(a.enc, m, sig, va.v)
				pi := (step + i) % 5 // 0: Verify == nil, 1..4 presets
				fl, vo := refed.PresetDefault, (*ed.VerifyOptions)(nil)
				if pi > 0 {
					fl, vo = presetSpec[pi-1], presetPtrs[pi-1]
				}
				exp, why := f.Verdict(fl)
				lo := &ed.Options{Hash: va.hash, Context: string(va.v.Context), Verify: vo}
				og := guardOpts(lo)
				w.EvalN("cache-twin/"+whyName(why), 2, f.LenOK && f.SInRange)
				got, pan := call(func() bool { return v.VerifyWithOptions(a.enc, m, sig, lo) })
				og.check(w, "cache.Verifier.VerifyWithOptions")
				k.cmp(w, "cache.Verifier.VerifyWithOptions", got, pan, exp, why, a.enc, m, sig, va, fl)
				if va.v.Pure() && pi == 0 {
					got, pan = call(func() bool { return v.Verify(a.enc, m, sig) })
					k.cmp(w, "cache.Verifier.Verify", got, pan, exp, why, a.enc, m, sig, va, fl)
				}
				bv := ed.NewBatchVerifier()
				var each []bool
				_, pan = call(func() bool {
					v.AddWithOptions(bv, a.enc, m, sig, lo)
					v.AddWithOptions(bv, a.enc, m, sig, lo)
					_, each = bv.Verify(&constStream{b: byte(step)})
					return true
				})
				og.check(w, "cache.Verifier.AddWithOptions")
				if pan || len(each) != 2 || each[0] != exp || each[1] != exp {
					d, cas := k.describe(a.enc, m, sig, va, fl)
					w.Fail("cache.Verifier.AddWithOptions/batch", fmt.Sprintf("step %d: batch filled through the cache gives %v (panic=%v), predicate says %v (%s): %s", step, each, pan, exp, why, d), cas)
				}
			}
		})
	}

	// ---- sub-space "caller-memory": arguments are sub-slices of ONE caller buffer with spare capacity ----
	// public key, message and signature live in one arena between guard bytes; every slice handed to the library has
	// capacity up to the end of the arena.  Results must equal the reference verdict (= what tight copies give), the
	// arena must be bit-identical after every call, and an ExpandedPublicKey must not keep a reference to caller
	// memory (the key buffer is overwritten afterwards).  Shapes: separate regions; message aliasing the R half of the
	// signature; message aliasing the public key; (ph) message aliasing the whole signature.
	type memCase struct {
		a      *ent
		va     *variant
		m, sig []byte
		alias  int // 0 separate, 1 m = sig[:32], 2 m = pk, 3 m = sig[:64]
	}
	var mem []memCase
	{
		n := c.Pick(64, 320)
		stride := len(pairs) / n
		if stride < 1 {
			stride = 1
		}
		for i := 0; i < n && i*stride < len(pairs); i++ {
			g := &pairs[i*stride]
			mem = append(mem, memCase{g.a, g.va, g.m, append(append([]byte{}, g.r.enc...), ref.LE32(g.s)...), 0})
		}
		for _, a := range []*ent{honA, pickEnt(keys[0].A, "aB+T1")[0], pickEnt(keys[0].A, "T1")[0]} {
			for _, va := range vars {
				if !va.v.Ph {
					mem = append(mem, memCase{a, va, honR.enc, mkSig(a, honR, va, honR.enc), 1})
					mem = append(mem, memCase{a, va, a.enc, mkSig(a, honR, va, a.enc), 2})
				} else {
					sg := mkSig(a, honR, va, make([]byte, 64))
					mem = append(mem, memCase{a, va, sg, sg, 3})
				}
			}
		}
	}
	c.Par("caller-memory", len(mem), func(w *mc.W, i int) {
		mcs := mem[i]
		const g = 24
		arena := make([]byte, g+32+g+len(mcs.m)+g+64+g+16)
		for j := range arena {
			arena[j] = 0xa5 ^ byte(j*7)
		}
		oPk, oM, oSig := g, g+32+g, g+32+g+len(mcs.m)+g
		pk := arena[oPk : oPk+32]
		copy(pk, mcs.a.enc)
		sig := arena[oSig : oSig+64]
		copy(sig, mcs.sig)
		var m []byte
		switch mcs.alias {
		case 0:
			m = arena[oM : oM+len(mcs.m)]
			copy(m, mcs.m)
		case 1:
			m = sig[:32]
		case 2:
			m = pk
		case 3:
			m = sig[:64]
		}
		snap := append([]byte{}, arena...)
		intact := func(after string) {
			if !bytes.Equal(arena, snap) {
				w.Fail("caller-memory/modified", fmt.Sprintf("caller buffer modified by %s (alias shape %d): before %x after %x", after, mcs.alias, snap, arena), nil)
				copy(arena, snap)
			}
		}
		f := refed.Analyse(mcs.a.enc, mcs.m, mcs.sig, mcs.va.v)
		epk, err := ed.NewExpandedPublicKey(pk)
		intact("NewExpandedPublicKey")
		if (err == nil) != f.A.Decodes {
			w.Fail("NewExpandedPublicKey/decodability", fmt.Sprintf("NewExpandedPublicKey(%x) err=%v but reference decodes=%v", pk, err, f.A.Decodes), nil)
		}
		if err != nil {
			epk = nil
		}
		for _, o := range lite {
			exp, why := f.Verdict(o.fl)
			lo := &ed.Options{Hash: mcs.va.hash, Context: string(mcs.va.v.Context), Verify: o.vo}
			w.EvalN("caller-memory/"+whyName(why), 2, f.LenOK && f.SInRange)
			og := guardOpts(lo)
			got, pan := call(func() bool { return ed.VerifyWithOptions(pk, m, sig, lo) })
			og.check(w, "VerifyWithOptions")
			intact("VerifyWithOptions")
			k.cmp(w, "VerifyWithOptions(caller buffer)", got, pan, exp, why, mcs.a.enc, mcs.m, mcs.sig, mcs.va, o.fl)
			if epk != nil {
				got, pan = call(func() bool { return ed.VerifyExpandedWithOptions(epk, m, sig, lo) })
				intact("VerifyExpandedWithOptions")
				k.cmp(w, "VerifyExpandedWithOptions(caller buffer)", got, pan, exp, why, mcs.a.enc, mcs.m, mcs.sig, mcs.va, o.fl)
			}
			if o.fl == refed.PresetDefault || o.fl == refed.PresetStdLib {
				// the same arguments through a batch (two entries: plain and expanded)
				bv := ed.NewBatchVerifier()
				bv.AddWithOptions(pk, m, sig, lo)
				intact("BatchVerifier.AddWithOptions")
				n := 1
				if epk != nil {
					bv.AddExpandedWithOptions(epk, m, sig, lo)
					intact("BatchVerifier.AddExpandedWithOptions")
					n = 2
				}
				all, each := bv.Verify(&constStream{b: byte(i)})
				intact("BatchVerifier.Verify")
				og.check(w, "BatchVerifier.Add*WithOptions/Verify")
				w.EvalN("caller-memory/batch/"+whyName(why), int64(n), f.LenOK && f.SInRange)
				bad := all != exp || len(each) != n
				for _, e := range each {
					bad = bad || e != exp
				}
				if bad {
					d, cas := k.describe(mcs.a.enc, mcs.m, mcs.sig, mcs.va, o.fl)
					w.Fail("BatchVerifier.Verify(caller buffer)", fmt.Sprintf("batch of %d copies gives all=%v each=%v, predicate says %v (%s): %s", n, all, each, exp, why, d), cas)
				}
			}
		}
		// an expanded key must be independent of the buffer it was built from
		if epk != nil {
			for j := range pk {
				pk[j] = 0
			}
			if cy := epk.CompressedY(); !bytes.Equal(cy[:], mcs.a.enc) {
				w.Fail("ExpandedPublicKey/aliases-caller-memory", fmt.Sprintf("CompressedY()=%x after the caller overwrote its key buffer, want %x", cy[:], mcs.a.enc), nil)
			}
			if mcs.alias != 2 {
				exp, why := f.Verdict(refed.PresetZIP215)
				lo := &ed.Options{Hash: mcs.va.hash, Context: string(mcs.va.v.Context), Verify: ed.VerifyOptionsZIP_215}
				got, pan := call(func() bool { return ed.VerifyExpandedWithOptions(epk, m, sig, lo) })
				k.cmp(w, "VerifyExpandedWithOptions(after caller overwrote key buffer)", got, pan, exp, why, mcs.a.enc, mcs.m, mcs.sig, mcs.va, refed.PresetZIP215)
			}
		}
	})

	// ---- sub-space "length-sweep": EVERY message length 0..300 x context lengths {0,1,32,95,100,158,254,255}, every context
	// length 0..255 for ph and for ctx with two message lengths: honest signatures, so a fast path that loses or
	// misplaces a byte at one exact size shows up as a rejected valid signature.  Messages and contexts are prefixes of
	// two fixed strings, i.e. the same context prefix is used by ctx and ph, the same message by every context.
	type sweepCase struct {
		va *variant
		n  int
		a  *ent
	}
	var sweep []sweepCase
	{
		ctxBase := mc.Bytes(c.Seed, "c01-sweep-context", 0, 255)
		vCtx := func(cl int) *variant {
			if cl == 0 {
				return &variant{"pure", refed.Variant{}, crypto.Hash(0)}
			}
			return &variant{fmt.Sprintf("ctx%d", cl), refed.Variant{Context: ctxBase[:cl]}, crypto.Hash(0)}
		}
		vPh := func(cl int) *variant {
			return &variant{fmt.Sprintf("ph+ctx%d", cl), refed.Variant{Ph: true, Context: ctxBase[:cl]}, crypto.SHA512}
		}
		as := []*ent{honA}
		if c.Thorough {
			as = append(as, honA2)
		}
		for _, a := range as {
			for _, cl := range []int{0, 1, 32, 95, 100, 158, 254, 255} {
				va := vCtx(cl)
				for n := 0; n <= 300; n++ {
					sweep = append(sweep, sweepCase{va, n, a})
				}
			}
			for cl := 0; cl <= 255; cl++ {
				sweep = append(sweep, sweepCase{vPh(cl), 64, a})
				if cl > 0 {
					va := vCtx(cl)
					sweep = append(sweep, sweepCase{va, 0, a}, sweepCase{va, 64, a})
				}
			}
		}
	}
	c.Rep.Extra["length_sweep_cases"] = len(sweep)
	sweepMsg := mc.Bytes(c.Seed, "c01-sweep-message", 0, 300)
	c.Par("length-sweep", len(sweep), func(w *mc.W, i int) {
		sc := sweep[i]
		m := sweepMsg[:sc.n]
		if sc.va.v.Ph {
			m = refed.Prehash(sweepMsg[:sc.n+i%7]) // a 64-byte digest
		}
		sig := mkSig(sc.a, honR, sc.va, m)
		k.evalCaseOpts(w, "length-sweep", sc.a.enc, m, sig, sc.va, refed.Analyse(sc.a.enc, m, sig, sc.va.v), k.expand(w, sc.a.enc), lite)
		if i%1501 == 0 {
			w.Sample(map[string]string{"sub": "length-sweep", "variant": sc.va.name, "message_len": fmt.Sprint(len(m)), "context_len": fmt.Sprint(len(sc.va.v.Context))})
		}
	})

	// ---- sub-space "lengths": signature lengths, documented panics ----
	var lg []group
	for _, ka := range keys[:1] {
		for vi, va := range vars {
			gs := makeGroups(c.Seed, pickEnt(ka.A, "aB+T0")[0], pickEnt(ka.R, "rB+T0")[0], va, 3000003+vi, nil)
			lg = append(lg, gs[0])
		}
	}
	var sigLens []int // every signature length 0..130
	for n := 0; n <= 130; n++ {
		sigLens = append(sigLens, n)
	}
	c.Par("lengths", len(lg)*len(sigLens), func(w *mc.W, i int) {
		g := &lg[i/len(sigLens)]
		n := sigLens[i%len(sigLens)]
		honest := append(append([]byte{}, g.r.enc...), ref.LE32(g.s)...)
		sig := append(append(append([]byte{}, honest...), honest...), honest...)[:n]
		f := refed.Analyse(g.a.enc, g.m, sig, g.va.v)
		k.evalCase(w, fmt.Sprintf("signature-length-%d", n), g.a.enc, g.m, sig, g.va, f, k.expand(w, g.a.enc))
	})
	// Documented panics / never-accept for malformed parameters (library documentation of VerifyWithOptions).
	c.Par("malformed-parameters", len(lg), func(w *mc.W, i int) {
		g := &lg[i]
		sig := append(append([]byte{}, g.r.enc...), ref.LE32(g.s)...)
		epk := k.expand(w, g.a.enc)
		mustNotAccept := func(what string, documentedPanic bool, f func() bool) {
			w.Eval("malformed/"+what, false)
			got, pan := call(f)
			if got {
				w.Fail("malformed/"+what+"/accepts", "acceptance with malformed parameter: "+what, nil)
			}
			if documentedPanic && !pan {
				w.Fail("malformed/"+what+"/no-panic", "the documentation promises a panic for: "+what, nil)
			}
		}
		base := func() *ed.Options { return &ed.Options{Hash: g.va.hash, Context: string(g.va.v.Context)} }
		for n := 0; n <= 70; n++ { // every key length but 32
			if n == 32 {
				continue
			}
			pk := append(append(append([]byte{}, g.a.enc...), g.a.enc...), g.a.enc...)[:n]
			mustNotAccept(fmt.Sprintf("public-key-length-%d", n), true, func() bool { return ed.VerifyWithOptions(pk, g.m, sig, base()) })
			w.Eval("malformed/expand-key-length", false)
			if _, err := ed.NewExpandedPublicKey(pk); err == nil {
				w.Fail("NewExpandedPublicKey/length", fmt.Sprintf("accepted a %d-byte key", n), nil)
			}
		}
		o := base()
		o.Context = string(bytes.Repeat([]byte{1}, 256))
		mustNotAccept("context-length-256", true, func() bool { return ed.VerifyWithOptions(g.a.enc, g.m, sig, o) })
		mustNotAccept("context-length-256/expanded", true, func() bool { return ed.VerifyExpandedWithOptions(epk, g.m, sig, o) })
		o2 := base()
		o2.Hash = crypto.SHA256
		mustNotAccept("hash-sha256", false, func() bool { return ed.VerifyWithOptions(g.a.enc, g.m, sig, o2) })
		mustNotAccept("hash-sha256/expanded", false, func() bool { return ed.VerifyExpandedWithOptions(epk, g.m, sig, o2) })
		if g.va.v.Ph {
			for _, n := range []int{0, 63, 65} {
				m := append(append([]byte{}, g.m...), 0)[:n]
				mustNotAccept(fmt.Sprintf("ph-digest-length-%d", n), true, func() bool { return ed.VerifyWithOptions(g.a.enc, m, sig, base()) })
				mustNotAccept(fmt.Sprintf("ph-digest-length-%d/expanded", n), true, func() bool { return ed.VerifyExpandedWithOptions(epk, m, sig, base()) })
			}
		}
	})

	// ---- vacuity guards (reference-side counts only) ----
	minAcc := int64(c.Pick(40, 400))
	var names []string
	perOpt := map[string]map[string]int64{}
	for _, o := range k.opts {
		if !o.fl.Admissible() {
			continue
		}
		n := o.fl.Name()
		names = append(names, n)
		c.Require("opt/"+n+"/accept", minAcc)
		c.Require("opt/"+n+"/reject:S>=L", minAcc)
		if o.fl.Cofactorless {
			c.Require("opt/"+n+"/reject:equation-cofactorless", minAcc)
		} else {
			c.Require("opt/"+n+"/reject:equation-cofactored", minAcc)
		}
		acc, rej := c.Rep.Classes["opt/"+n+"/accept"], int64(0)
		for cl, v := range c.Rep.Classes {
			if len(cl) > len("opt/"+n+"/reject") && cl[:len("opt/"+n+"/reject")] == "opt/"+n+"/reject" {
				rej += v
			}
		}
		perOpt[n] = map[string]int64{"accept": acc, "reject": rej}
	}
	sort.Strings(names)
	c.Rep.Extra["admissible_option_sets"] = names
	c.Rep.Extra["accept_reject_per_option_set"] = perOpt
	sep := map[string]int64{}
	for i, n := range flagNames {
		sep[n] = k.separates[i]
		if !c.Replaying() && k.separates[i] < 20 {
			c.Broken(fmt.Sprintf("vacuity guard: only %d cases separate flag %s", k.separates[i], n))
		}
	}
	c.Rep.Extra["cases_separating_flag"] = sep
	c.Rep.Extra["cases_by_kind"] = k.kinds
	// every rejection reason must occur under the flag set that makes it reachable
	for _, cl := range []string{"opt/none/reject:A-small-order", "opt/none/reject:R-small-order", "opt/none/reject:A-noncanonical", "opt/SA/reject:A-noncanonical",
		"opt/SA+SR/reject:R-noncanonical", "opt/none/reject:R-noncanonical", "opt/none/reject:A-undecodable", "opt/none/reject:R-undecodable", "opt/none/reject:sig-length",
		"opt/SA+SR+NA+NR/reject:R-undecodable", "opt/SA+SR+NA+CL/reject:R-noncanonical", "opt/CL/reject:R-small-order"} {
		c.Require(cl, 10)
	}
	c.Require("stdlib/accept", 20)
	c.Require("stdlib/reject", 20)
}
