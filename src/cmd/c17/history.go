package main

import (
	"bytes"
	"fmt"
	"math/big"

	"github.com/oasisprotocol/curve25519-voi/curve/scalar"
	"github.com/oasisprotocol/curve25519-voi/internal/verif/mc"
	"github.com/oasisprotocol/curve25519-voi/internal/verif/ref"
)

// valueOf reads the scalar's value through its byte encoding (the recodings must represent THAT value; whether the
// arithmetic that produced it is right is C05's business).
func valueOf(s *scalar.Scalar) *big.Int {
	var b [32]byte
	if err := s.ToBytes(b[:]); err != nil {
		panic(err)
	}
	return ref.FromLE(b[:])
}

// mutateThenRecode: recodings of a scalar OBJECT after its value has been changed by every method that writes to it.
// History: build s = a; recode it in every way (this is where a lazily built limb/digit cache would be filled); change s
// to b through mutator m; recode again -- every recoding must now represent the value the object's bytes hold; a copy
// made by value before the mutation must still recode to a.  Added after a seeded change that gave Scalar a cached limb
// view which ConditionalSelect forgot to invalidate.
func mutateThenRecode(c *mc.Ctx) {
	L := ref.L
	vals := []*big.Int{
		big.NewInt(0), big.NewInt(1),
		new(big.Int).Sub(L, big.NewInt(1)),
		new(big.Int).SetBytes(bytes.Repeat([]byte{0x77}, 32)),
		new(big.Int).Rsh(new(big.Int).SetBytes(bytes.Repeat([]byte{0x88}, 32)), 1),
		new(big.Int).Sub(new(big.Int).Lsh(big.NewInt(1), 255), big.NewInt(1)),
		new(big.Int).Rsh(new(big.Int).SetBytes(mc.Bytes(c.Seed, "c17hist", 0, 32)), 1),
		new(big.Int).Mod(new(big.Int).SetBytes(mc.Bytes(c.Seed, "c17hist", 1, 32)), L),
	}
	type mut struct {
		name string
		f    func(s, b *scalar.Scalar, bBytes []byte)
	}
	one := scalar.NewFromUint64(1)
	zero := scalar.New()
	muts := []mut{
		{"Set", func(s, b *scalar.Scalar, _ []byte) { s.Set(b) }},
		{"SetBits", func(s, _ *scalar.Scalar, bb []byte) { s.SetBits(bb) }},
		{"SetBytesModOrder", func(s, _ *scalar.Scalar, bb []byte) { s.SetBytesModOrder(bb) }},
		{"SetBytesModOrderWide", func(s, _ *scalar.Scalar, bb []byte) { s.SetBytesModOrderWide(append(append([]byte{}, bb...), make([]byte, 32)...)) }},
		{"SetCanonicalBytes", func(s, _ *scalar.Scalar, bb []byte) { s.SetCanonicalBytes(bb) }},
		{"UnmarshalBinary", func(s, _ *scalar.Scalar, bb []byte) { s.UnmarshalBinary(bb) }},
		{"SetUint64", func(s, _ *scalar.Scalar, bb []byte) { s.SetUint64(uint64(bb[0]) | uint64(bb[9])<<40 | 1<<63) }},
		{"SetRandom", func(s, _ *scalar.Scalar, bb []byte) { s.SetRandom(bytes.NewReader(append(append([]byte{}, bb...), bb...))) }},
		{"Zero", func(s, _ *scalar.Scalar, _ []byte) { s.Zero() }},
		{"One", func(s, _ *scalar.Scalar, _ []byte) { s.One() }},
		{"Add(s,b)", func(s, b *scalar.Scalar, _ []byte) { s.Add(s, b) }},
		{"Add(b,zero)", func(s, b *scalar.Scalar, _ []byte) { s.Add(b, zero) }},
		{"Sub(s,b)", func(s, b *scalar.Scalar, _ []byte) { s.Sub(s, b) }},
		{"Sub(b,s)", func(s, b *scalar.Scalar, _ []byte) { s.Sub(b, s) }},
		{"Mul(s,b)", func(s, b *scalar.Scalar, _ []byte) { s.Mul(s, b) }},
		{"Mul(b,one)", func(s, b *scalar.Scalar, _ []byte) { s.Mul(b, one) }},
		{"Neg(s)", func(s, _ *scalar.Scalar, _ []byte) { s.Neg(s) }},
		{"Neg(b)", func(s, b *scalar.Scalar, _ []byte) { s.Neg(b) }},
		{"Reduce(s)", func(s, _ *scalar.Scalar, _ []byte) { s.Reduce(s) }},
		{"Reduce(b)", func(s, b *scalar.Scalar, _ []byte) { s.Reduce(b) }},
		{"Invert(b)", func(s, b *scalar.Scalar, _ []byte) {
			if b.Equal(zero) != 1 && scalar.New().Reduce(b).Equal(zero) != 1 {
				s.Invert(b)
			}
		}},
		{"ConditionalSelect(s,b,1)", func(s, b *scalar.Scalar, _ []byte) { s.ConditionalSelect(s, b, 1) }},
		{"ConditionalSelect(b,s,0)", func(s, b *scalar.Scalar, _ []byte) { s.ConditionalSelect(b, s, 0) }},
		{"ConditionalSelect(s,b,0)", func(s, b *scalar.Scalar, _ []byte) { s.ConditionalSelect(s, b, 0) }},
		{"Product", func(s, b *scalar.Scalar, _ []byte) { s.Product([]*scalar.Scalar{b, one}) }},
		{"Sum", func(s, b *scalar.Scalar, _ []byte) { s.Sum([]*scalar.Scalar{b, zero}) }},
		{"Sum(s,b)", func(s, b *scalar.Scalar, _ []byte) { s.Sum([]*scalar.Scalar{s, b}) }},
		{"BatchInvert", func(s, b *scalar.Scalar, _ []byte) {
			if scalar.New().Reduce(b).Equal(zero) != 1 {
				t := scalar.New().Set(b)
				s.BatchInvert([]*scalar.Scalar{t})
			}
		}},
		{"assign(*s = *b)", func(s, b *scalar.Scalar, _ []byte) { *s = *b }},
	}
	n := len(muts) * len(vals) * len(vals)
	c.Par("mutate-then-recode", n, func(w *mc.W, i int) {
		m := &muts[i%len(muts)]
		a := vals[(i/len(muts))%len(vals)]
		b := vals[i/len(muts)/len(vals)]
		s := sc(a)
		checkOn(w, s, a) // first recoding of the object (fills whatever the object caches)
		copyBefore := *s
		bs := sc(b)
		bb := ref.LE32(b)
		m.f(s, bs, bb)
		now := valueOf(s)
		w.Eval("mutator/"+m.name, now.Cmp(a) != 0)
		checkOn(w, s, now)
		if valueOf(bs).Cmp(b) != 0 {
			w.Fail("Scalar."+m.name+"/operand-modified", fmt.Sprintf("%s changed its operand %x", m.name, b), map[string]string{"mutator": m.name, "a": a.Text(16), "b": b.Text(16)})
		}
		checkOn(w, bs, b)
		// the by-value copy taken before the mutation still holds a
		if valueOf(&copyBefore).Cmp(a) != 0 {
			w.Fail("Scalar."+m.name+"/copy-modified", fmt.Sprintf("a by-value copy of the scalar changed when the original was set through %s", m.name), map[string]string{"mutator": m.name, "a": a.Text(16), "b": b.Text(16)})
		}
		checkOn(w, &copyBefore, a)
		// and a copy taken AFTER the mutation recodes like the original
		after := *s
		checkOn(w, &after, now)
	})
	for _, m := range muts {
		c.Require("mutator/"+m.name, 8)
	}
}

// decodeThenRecode: recodings of a scalar OBJECT after every byte-taking way of giving it a value, on the complete
// top-byte domain (all 256 values of byte 31, i.e. every combination of bit 255, the clamping bits and the range of
// the top radix-16 / radix-2^w digit) x four bodies x three previous receiver values.  Whatever the call did - succeeded,
// reduced, or rejected its input - the object must afterwards hold a value below 2^255 (the only values the API
// documents: SetBits keeps the low 255 bits, the reducing decoders return a residue, the canonical decoders reject),
// and every recoding must represent exactly that value with digits in range.  Added after seeded changes that left the
// raw 256-bit input in the receiver of a rejecting decoder, and that skipped the reduction for top bytes 0x80..0x8f.
func decodeThenRecode(c *mc.Ctx) {
	type dec struct {
		name string
		f    func(s *scalar.Scalar, bb []byte)
	}
	decs := []dec{
		{"SetBits", func(s *scalar.Scalar, bb []byte) { s.SetBits(bb) }},
		{"SetBytesModOrder", func(s *scalar.Scalar, bb []byte) { s.SetBytesModOrder(bb) }},
		{"SetBytesModOrderWide(lo)", func(s *scalar.Scalar, bb []byte) { s.SetBytesModOrderWide(append(append([]byte{}, bb...), make([]byte, 32)...)) }},
		{"SetBytesModOrderWide(hi)", func(s *scalar.Scalar, bb []byte) { s.SetBytesModOrderWide(append(make([]byte, 32), bb...)) }},
		{"SetCanonicalBytes", func(s *scalar.Scalar, bb []byte) { s.SetCanonicalBytes(bb) }},
		{"UnmarshalBinary", func(s *scalar.Scalar, bb []byte) { s.UnmarshalBinary(bb) }},
		{"SetRandom", func(s *scalar.Scalar, bb []byte) { s.SetRandom(bytes.NewReader(append(append([]byte{}, bb...), bb...))) }},
		{"NewFromBits", func(s *scalar.Scalar, bb []byte) {
			if t, err := scalar.NewFromBits(bb); err == nil {
				*s = *t
			}
		}},
		{"NewFromBytesModOrder", func(s *scalar.Scalar, bb []byte) {
			if t, err := scalar.NewFromBytesModOrder(bb); err == nil {
				*s = *t
			}
		}},
		{"NewFromCanonicalBytes", func(s *scalar.Scalar, bb []byte) {
			if t, err := scalar.NewFromCanonicalBytes(bb); err == nil {
				*s = *t
			}
		}},
	}
	lBody := ref.LE32(ref.L)
	bodies := [][]byte{make([]byte, 32), bytes.Repeat([]byte{0xff}, 32), mc.Bytes(c.Seed, "c17dec", 0, 32), lBody}
	clamped := new(big.Int).SetBytes(mc.Bytes(c.Seed, "c17dec", 1, 32))
	clamped.SetBit(clamped, 255, 0)
	clamped.SetBit(clamped, 254, 1)
	prev := []*big.Int{big.NewInt(0), clamped, new(big.Int).Sub(new(big.Int).Lsh(big.NewInt(1), 255), big.NewInt(1))}
	two255 := new(big.Int).Lsh(big.NewInt(1), 255)
	n := len(decs) * 256 * len(bodies) * len(prev)
	c.Par("decode-then-recode", n, func(w *mc.W, i int) {
		d := &decs[i%len(decs)]
		top := (i / len(decs)) % 256
		body := bodies[(i/len(decs)/256)%len(bodies)]
		a := prev[i/len(decs)/256/len(bodies)]
		bb := append([]byte{}, body...)
		bb[31] = byte(top)
		in := append([]byte{}, bb...)
		s := sc(a)
		d.f(s, bb)
		now := valueOf(s)
		w.Eval("decoder/"+d.name, top >= 0x80 || now.Cmp(a) != 0)
		cas := map[string]string{"decoder": d.name, "input": fmt.Sprintf("%x", in), "previous": a.Text(16)}
		if !bytes.Equal(bb, in) {
			w.Fail("Scalar."+d.name+"/input-modified", fmt.Sprintf("%s wrote to its input %x", d.name, in), cas)
		}
		if now.Cmp(two255) >= 0 {
			w.Fail("Scalar."+d.name+"/value-out-of-range", fmt.Sprintf("after %s(%x) on a scalar holding %x the object holds %x (bit 255 set): the recoders' digit bounds assume a value below 2^255", d.name, in, a, now), cas)
			return
		}
		checkOn(w, s, now)
	})
	for _, d := range decs {
		c.Require("decoder/"+d.name, 256)
	}
}
