package main

import (
	"bytes"
	"fmt"
	"math/big"

	"github.com/oasisprotocol/curve25519-voi/curve/scalar"
	"github.com/oasisprotocol/curve25519-voi/internal/verif/mc"
	"github.com/oasisprotocol/curve25519-voi/internal/verif/ref"
)

// valueOf reads the scalar's value through its byte encoding (the recodings must represent THAT value; whether the
// arithmetic that produced it is right is C05's business).
func valueOf(s *scalar.Scalar) *big.Int {
	var b [32]byte
	if err := s.ToBytes(b[:]); err != nil {
		panic(err)
	}
	return ref.FromLE(b[:])
}

// mutateThenRecode: recodings of a scalar OBJECT after its value has been changed by every method that writes to it.
// History: build s = a; recode it in every way (this is where a lazily built limb/digit cache would be filled); change s
// to b through mutator m; recode again -- every recoding must now represent the value the object's bytes hold; a copy
// made by value before the mutation must still recode to a.  Added after a seeded change that gave Scalar a cached limb
// view which ConditionalSelect forgot to invalidate.
func mutateThenRecode(c *mc.Ctx) {
	L := ref.L
	vals := []*big.Int{
		big.NewInt(0), big.NewInt(1),
		new(big.Int).Sub(L, big.NewInt(1)),
		new(big.Int).SetBytes(bytes.Repeat([]byte{0x77}, 32)),
		new(big.Int).Rsh(new(big.Int).SetBytes(bytes.Repeat([]byte{0x88}, 32)), 1),
		new(big.Int).Sub(new(big.Int).Lsh(big.NewInt(1), 255), big.NewInt(1)),
		new(big.Int).Rsh(new(big.Int).SetBytes(mc.Bytes(c.Seed, "c17hist", 0, 32)), 1),
		new(big.Int).Mod(new(big.Int).SetBytes(mc.Bytes(c.Seed, "c17hist", 1, 32)), L),
	}
	type mut struct {
		name string
		f    func(s, b *scalar.Scalar, bBytes []byte)
	}
	one := scalar.NewFromUint64(1)
	zero := scalar.New()
	muts := []mut{
		{"Set", func(s, b *scalar.Scalar, _ []byte) { s.Set(b) }},
		{"SetBits", func(s, _ *scalar.Scalar, bb []byte) { s.SetBits(bb) }},
		{"SetBytesModOrder", func(s, _ *scalar.Scalar, bb []byte) { s.SetBytesModOrder(bb) }},
		{"SetBytesModOrderWide", func(s, _ *scalar.Scalar, bb []byte) { s.SetBytesModOrderWide(append(append([]byte{}, bb...), make([]byte, 32)...)) }},
		{"SetCanonicalBytes", func(s, _ *scalar.Scalar, bb []byte) { s.SetCanonicalBytes(bb) }},
		{"UnmarshalBinary", func(s, _ *scalar.Scalar, bb []byte) { s.UnmarshalBinary(bb) }},
		{"SetUint64", func(s, _ *scalar.Scalar, bb []byte) { s.SetUint64(uint64(bb[0]) | uint64(bb[9])<<40 | 1<<63) }},
		{"SetRandom", func(s, _ *scalar.Scalar, bb []byte) { s.SetRandom(bytes.NewReader(append(append([]byte{}, bb...), bb...))) }},
		{"Zero", func(s, _ *scalar.Scalar, _ []byte) { s.Zero() }},
		{"One", func(s, _ *scalar.Scalar, _ []byte) { s.One() }},
		{"Add(s,b)", func(s, b *scalar.Scalar, _ []byte) { s.Add(s, b) }},
		{"Add(b,zero)", func(s, b *scalar.Scalar, _ []byte) { s.Add(b, zero) }},
		{"Sub(s,b)", func(s, b *scalar.Scalar, _ []byte) { s.Sub(s, b) }},
		{"Sub(b,s)", func(s, b *scalar.Scalar, _ []byte) { s.Sub(b, s) }},
		{"Mul(s,b)", func(s, b *scalar.Scalar, _ []byte) { s.Mul(s, b) }},
		{"Mul(b,one)", func(s, b *scalar.Scalar, _ []byte) { s.Mul(b, one) }},
		{"Neg(s)", func(s, _ *scalar.Scalar, _ []byte) { s.Neg(s) }},
		{"Neg(b)", func(s, b *scalar.Scalar, _ []byte) { s.Neg(b) }},
		{"Reduce(s)", func(s, _ *scalar.Scalar, _ []byte) { s.Reduce(s) }},
		{"Reduce(b)", func(s, b *scalar.Scalar, _ []byte) { s.Reduce(b) }},
		{"Invert(b)", func(s, b *scalar.Scalar, _ []byte) {
			if b.Equal(zero) != 1 && scalar.New().Reduce(b).Equal(zero) != 1 {
				s.Invert(b)
			}
		}},
		{"ConditionalSelect(s,b,1)", func(s, b *scalar.Scalar, _ []byte) { s.ConditionalSelect(s, b, 1) }},
		{"ConditionalSelect(b,s,0)", func(s, b *scalar.Scalar, _ []byte) { s.ConditionalSelect(b, s, 0) }},
		{"ConditionalSelect(s,b,0)", func(s, b *scalar.Scalar, _ []byte) { s.ConditionalSelect(s, b, 0) }},
		{"Product", func(s, b *scalar.Scalar, _ []byte) { s.Product([]*scalar.Scalar{b, one}) }},
		{"Sum", func(s, b *scalar.Scalar, _ []byte) { s.Sum([]*scalar.Scalar{b, zero}) }},
		{"Sum(s,b)", func(s, b *scalar.Scalar, _ []byte) { s.Sum([]*scalar.Scalar{s, b}) }},
		{"BatchInvert", func(s, b *scalar.Scalar, _ []byte) {
			if scalar.New().Reduce(b).Equal(zero) != 1 {
				t := scalar.New().Set(b)
				s.BatchInvert([]*scalar.Scalar{t})
			}
		}},
		{"assign(*s = *b)", func(s, b *scalar.Scalar, _ []byte) { *s = *b }},
	}
	n := len(muts) * len(vals) * len(vals)
	c.Par("mutate-then-recode", n, func(w *mc.W, i int) {
		m := &muts[i%len(muts)]
		a := vals[(i/len(muts))%len(vals)]
		b := vals[i/len(muts)/len(vals)]
		s := sc(a)
		checkOn(w, s, a) // first recoding of the object (fills whatever the object caches)
		copyBefore := *s
		bs := sc(b)
		bb := ref.LE32(b)
		m.f(s, bs, bb)
		now := valueOf(s)
		w.Eval("mutator/"+m.name, now.Cmp(a) != 0)
		checkOn(w, s, now)
		if valueOf(bs).Cmp(b) != 0 {
			w.Fail("Scalar."+m.name+"/operand-modified", fmt.Sprintf("%s changed its operand %x", m.name, b), map[string]string{"mutator": m.name, "a": a.Text(16), "b": b.Text(16)})
		}
		checkOn(w, bs, b)
		// the by-value copy taken before the mutation still holds a
		if valueOf(&copyBefore).Cmp(a) != 0 {
			w.Fail("Scalar."+m.name+"/copy-modified", fmt.Sprintf("a by-value copy of the scalar changed when the original was set through %s", m.name), map[string]string{"mutator": m.name, "a": a.Text(16), "b": b.Text(16)})
		}
		checkOn(w, &copyBefore, a)
		// and a copy taken AFTER the mutation recodes like the original
		after := *s
		checkOn(w, &after, now)
	})
	for _, m := range muts {
		c.Require("mutator/"+m.name, 8)
	}
}
