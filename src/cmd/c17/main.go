// C17: digit recodings reconstruct the value and stay within their bounds.
package main

import (
	"fmt"
	"math/big"

	"github.com/oasisprotocol/curve25519-voi/curve/scalar"
	"github.com/oasisprotocol/curve25519-voi/internal/verif/alph"
	"github.com/oasisprotocol/curve25519-voi/internal/verif/mc"
	"github.com/oasisprotocol/curve25519-voi/internal/verif/ref"
)

func main() { mc.Main("C17", run) }

var mask255 = new(big.Int).Sub(new(big.Int).Lsh(big.NewInt(1), 255), big.NewInt(1))

func sc(v *big.Int) *scalar.Scalar {
	s, err := scalar.NewFromBits(ref.LE32(v))
	if err != nil {
		panic(err)
	}
	return s
}

// checkAll runs every recoding of v against exact reconstruction + bounds.
// Returns true when some recoding produced a negative digit.
func checkAll(w *mc.W, v *big.Int) bool { return checkOn(w, sc(v), v) }

// checkOn runs every recoding of the scalar object s, whose value is v, against exact reconstruction + bounds.
func checkOn(w *mc.W, s *scalar.Scalar, v *big.Int) bool {
	cas := map[string]string{"scalar": v.Text(16)}
	neg := false
	// Bits
	bits := s.Bits()
	acc := new(big.Int)
	for i := 255; i >= 0; i-- {
		acc.Lsh(acc, 1)
		if bits[i] > 1 {
			w.Fail("Scalar.Bits/range", fmt.Sprintf("bit %d = %d", i, bits[i]), cas)
		}
		acc.Add(acc, big.NewInt(int64(bits[i])))
	}
	if acc.Cmp(v) != 0 {
		w.Fail("Scalar.Bits/value", fmt.Sprintf("Bits(%x) reconstructs %x", v, acc), cas)
	}
	// radix 16
	r16 := s.ToRadix16()
	acc.SetInt64(0)
	for i := 63; i >= 0; i-- {
		acc.Lsh(acc, 4)
		acc.Add(acc, big.NewInt(int64(r16[i])))
		lo, hi := int8(-8), int8(7)
		if i == 63 {
			hi = 8
		}
		if r16[i] < lo || r16[i] > hi {
			w.Fail("Scalar.ToRadix16/range", fmt.Sprintf("ToRadix16(%x) digit %d = %d", v, i, r16[i]), cas)
		}
		if r16[i] < 0 {
			neg = true
		}
	}
	if acc.Cmp(v) != 0 {
		w.Fail("Scalar.ToRadix16/value", fmt.Sprintf("ToRadix16(%x) reconstructs %x", v, acc), cas)
	}
	// NAF
	for wd := uint(2); wd <= 8; wd++ {
		naf := s.NonAdjacentForm(wd)
		acc.SetInt64(0)
		last := -1000
		lim := int(1) << (wd - 1)
		for i := 255; i >= 0; i-- {
			acc.Lsh(acc, 1)
			acc.Add(acc, big.NewInt(int64(naf[i])))
		}
		for i := 0; i < 256; i++ {
			d := int(naf[i])
			if d == 0 {
				continue
			}
			if d < 0 {
				neg = true
			}
			if d&1 == 0 || d >= lim || d <= -lim {
				w.Fail(fmt.Sprintf("NonAdjacentForm(%d)/range", wd), fmt.Sprintf("NAF_%d(%x) digit %d = %d", wd, v, i, d), cas)
			}
			if i-last < int(wd) {
				w.Fail(fmt.Sprintf("NonAdjacentForm(%d)/spacing", wd), fmt.Sprintf("NAF_%d(%x) non-zero digits at %d and %d", wd, v, last, i), cas)
			}
			last = i
		}
		if acc.Cmp(v) != 0 {
			w.Fail(fmt.Sprintf("NonAdjacentForm(%d)/value", wd), fmt.Sprintf("NAF_%d(%x) reconstructs %x", wd, v, acc), cas)
		}
	}
	// radix 2^w
	for wd := uint(6); wd <= 8; wd++ {
		d := s.ToRadix2w(wd)
		hint := int(scalar.ToRadix2wSizeHint(wd))
		digitsCount := int((254 + wd - 1) / wd)
		acc.SetInt64(0)
		for i := 42; i >= 0; i-- {
			acc.Lsh(acc, wd)
			acc.Add(acc, big.NewInt(int64(d[i])))
		}
		if acc.Cmp(v) != 0 {
			w.Fail(fmt.Sprintf("ToRadix2w(%d)/value", wd), fmt.Sprintf("ToRadix2w_%d(%x) reconstructs %x", wd, v, acc), cas)
		}
		half := 1 << (wd - 1)
		for i := 0; i < 43; i++ {
			x := int(d[i])
			if x < 0 {
				neg = true
			}
			switch {
			case i >= hint:
				if x != 0 {
					w.Fail(fmt.Sprintf("ToRadix2w(%d)/hint", wd), fmt.Sprintf("ToRadix2w_%d(%x) digit %d = %d beyond size hint %d", wd, v, i, x, hint), cas)
				}
			case wd == 8 && i == digitsCount:
				// the documented extra carry digit: 0 or 1
				if x != 0 && x != 1 {
					w.Fail("ToRadix2w(8)/carry", fmt.Sprintf("carry digit = %d", x), cas)
				}
			case wd < 8 && i == digitsCount-1:
				// terminal digit with the carry folded in: documented as d + carry*2^w, which for 255-bit
				// inputs stays an int8; it must be >= -2^(w-1).
				if x < -half {
					w.Fail(fmt.Sprintf("ToRadix2w(%d)/range", wd), fmt.Sprintf("terminal digit %d", x), cas)
				}
			case i < digitsCount:
				if x < -half || x >= half {
					w.Fail(fmt.Sprintf("ToRadix2w(%d)/range", wd), fmt.Sprintf("ToRadix2w_%d(%x) digit %d = %d", wd, v, i, x), cas)
				}
			default:
				if x != 0 {
					w.Fail(fmt.Sprintf("ToRadix2w(%d)/range", wd), fmt.Sprintf("digit %d = %d past digit count", i, x), cas)
				}
			}
		}
	}
	return neg
}

func ones(n uint) *big.Int { return new(big.Int).Sub(new(big.Int).Lsh(big.NewInt(1), n), big.NewInt(1)) }

func run(c *mc.Ctx) {
	// (1) value alphabet
	full := alph.Scalars(c.Seed, false)
	c.Par("alphabet", len(full), func(w *mc.W, i int) {
		n := checkAll(w, full[i])
		w.Eval("alphabet", n)
		if i%211 == 0 {
			w.Sample(map[string]string{"scalar": full[i].Text(16)})
		}
	})

	// (2) radix-16 transducer: nibble v at position i over background nibble bg, for all (i, v, bg)
	c.Par("radix16-local", 64*16*16, func(w *mc.W, i int) {
		pos, v, bg := i/256, (i/16)%16, i%16
		b := make([]byte, 32)
		for k := range b {
			b[k] = byte(bg<<4 | bg)
		}
		if pos%2 == 0 {
			b[pos/2] = b[pos/2]&0xf0 | byte(v)
		} else {
			b[pos/2] = b[pos/2]&0x0f | byte(v<<4)
		}
		x := new(big.Int).And(ref.FromLE(b), mask255)
		n := checkAll(w, x)
		w.Eval("radix16-local", n)
	})

	// (3) window transducers (NAF w=2..8 and radix-2^w): window value val of width wd at start, carry-in
	// forced 0 (zeros below) or 1 (all ones of width wd just below... any run of ones below generates a carry),
	// upper part zeros / ones / alternating.
	type cfg struct{ wd, start, val, low, up int }
	var cfgs []cfg
	startStep := 1
	if !c.Thorough {
		startStep = 1
	}
	for wd := 2; wd <= 8; wd++ {
		for start := 0; start < 255; start += startStep {
			nv := 1 << wd
			for val := 0; val < nv; val++ {
				if !c.Thorough && wd >= 7 && val%3 != 0 && val != nv-1 && val != nv/2 && val != nv/2-1 && val != nv/2+1 {
					continue
				}
				for low := 0; low < 3; low++ {
					for up := 0; up < 3; up++ {
						if !c.Thorough && up == 2 && low == 2 {
							continue
						}
						cfgs = append(cfgs, cfg{wd, start, val, low, up})
					}
				}
			}
		}
	}
	c.Par("window-local", len(cfgs), func(w *mc.W, i int) {
		g := cfgs[i]
		x := new(big.Int).Lsh(big.NewInt(int64(g.val)), uint(g.start))
		switch g.low {
		case 1: // all ones below the window -> carry-in 1 for every recoding
			x.Or(x, ones(uint(g.start)))
		case 2: // a single window of ones just below
			lo := g.start - g.wd
			if lo < 0 {
				lo = 0
			}
			x.Or(x, new(big.Int).Lsh(ones(uint(g.start-lo)), uint(lo)))
		}
		top := uint(g.start + g.wd)
		if top < 255 {
			switch g.up {
			case 1:
				x.Or(x, new(big.Int).Lsh(ones(255-top), top))
			case 2:
				alt := new(big.Int).And(new(big.Int).SetBytes([]byte{0xaa, 0xaa, 0xaa, 0xaa, 0xaa, 0xaa, 0xaa, 0xaa, 0xaa, 0xaa, 0xaa, 0xaa, 0xaa, 0xaa, 0xaa, 0xaa, 0xaa, 0xaa, 0xaa, 0xaa, 0xaa, 0xaa, 0xaa, 0xaa, 0xaa, 0xaa, 0xaa, 0xaa, 0xaa, 0xaa, 0xaa, 0xaa}), mask255)
				alt.Rsh(alt, top)
				alt.Lsh(alt, top)
				x.Or(x, alt)
			}
		}
		x.And(x, mask255)
		n := checkAll(w, x)
		w.Eval(fmt.Sprintf("window-local/w=%d", g.wd), n)
		if i%100003 == 0 {
			w.Sample(map[string]interface{}{"width": g.wd, "start": g.start, "window": g.val, "low": g.low, "up": g.up, "scalar": x.Text(16)})
		}
	})

	// (4) documented panics for widths outside the documented set (complete small domain 0..16)
	mutateThenRecode(c)
	decodeThenRecode(c)
	c.Par("widths", 17, func(w *mc.W, i int) {
		wd := uint(i)
		s := sc(big.NewInt(12345))
		panics := func(f func()) (p bool) {
			defer func() {
				if recover() != nil {
					p = true
				}
			}()
			f()
			return
		}
		if got, want := panics(func() { s.NonAdjacentForm(wd) }), wd < 2 || wd > 8; got != want {
			w.Fail("NonAdjacentForm/width", fmt.Sprintf("NonAdjacentForm(%d) panics=%v", wd, got), nil)
		}
		if got, want := panics(func() { s.ToRadix2w(wd) }), wd < 6 || wd > 8; got != want {
			w.Fail("ToRadix2w/width", fmt.Sprintf("ToRadix2w(%d) panics=%v", wd, got), nil)
		}
		if got, want := panics(func() { scalar.ToRadix2wSizeHint(wd) }), wd < 6 || wd > 8; got != want {
			w.Fail("ToRadix2wSizeHint/width", fmt.Sprintf("ToRadix2wSizeHint(%d) panics=%v", wd, got), nil)
		}
		w.Eval("widths", true)
	})
	c.Require("radix16-local", 16384)
}
