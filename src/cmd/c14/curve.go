package main

import (
	"bytes"
	"crypto"
	"fmt"
	"math/big"

	"golang.org/x/crypto/sha3"

	"github.com/oasisprotocol/curve25519-voi/curve"
	"github.com/oasisprotocol/curve25519-voi/internal/elligator"
	"github.com/oasisprotocol/curve25519-voi/internal/field"
	"github.com/oasisprotocol/curve25519-voi/internal/verif/alph"
	"github.com/oasisprotocol/curve25519-voi/internal/verif/mc"
	"github.com/oasisprotocol/curve25519-voi/internal/verif/ref"
	"github.com/oasisprotocol/curve25519-voi/internal/verif/ref/refh2c"
	"github.com/oasisprotocol/curve25519-voi/primitives/h2c"
)

var (
	bigOne  = big.NewInt(1)
	montA   = big.NewInt(486662)
	pow255  = new(big.Int).Lsh(bigOne, 255)
	pow384  = new(big.Int).Lsh(bigOne, 384)
	uOrder8 = func() []*big.Int { // the two Montgomery u-coordinates of order 8 (RFC 7748 low-order list)
		a, _ := new(big.Int).SetString("325606250916557431795983626356110631294008115727848805560023387167927233504", 10)
		b, _ := new(big.Int).SetString("39382357235489614581723060781553021112529911719440698176882885853963445705823", 10)
		return []*big.Int{a, b}
	}()
)

type bigSet struct {
	seen map[string]bool
	out  []*big.Int
	lim  *big.Int
}

func newBigSet(lim *big.Int) *bigSet { return &bigSet{seen: map[string]bool{}, lim: lim} }
func (s *bigSet) add(v *big.Int) {
	if v == nil || v.Sign() < 0 || v.Cmp(s.lim) >= 0 {
		return
	}
	k := v.Text(62)
	if s.seen[k] {
		return
	}
	s.seen[k] = true
	s.out = append(s.out, new(big.Int).Set(v))
}

// preimages returns the field elements r (both signs) that Elligator 2 sends
// to the Montgomery abscissa x, computed from the RFC's formulas:
// x = x1 = -A/(1+2r^2)  <=>  r^2 = -(x+A)/(2x);  x = x2 = -x1-A  <=>  r^2 = -x/(2(x+A)).
func preimages(x *big.Int) []*big.Int {
	var out []*big.Int
	two := big.NewInt(2)
	cands := []*big.Int{}
	if ref.FMod(x).Sign() != 0 {
		cands = append(cands, ref.FDiv(ref.FNeg(ref.FAdd(x, montA)), ref.FMul(two, x)))
	}
	if ref.FAdd(x, montA).Sign() != 0 {
		cands = append(cands, ref.FDiv(ref.FNeg(x), ref.FMul(two, ref.FAdd(x, montA))))
	}
	for _, r2 := range cands {
		if r, ok := ref.FSqrt(r2); ok {
			out = append(out, r, ref.FNeg(r))
		}
	}
	return out
}

// fieldAlphabet is Phi for the Elligator map: values in [0, 2^255) (the 19
// values >= p are non-canonical strings of 0..18), simplest first.
func fieldAlphabet(c *mc.Ctx) []*big.Int {
	s := newBigSet(pow255)
	small := int64(c.Pick(300, 3000))
	for i := int64(0); i < small; i++ {
		s.add(big.NewInt(i))
		s.add(new(big.Int).Sub(ref.P, big.NewInt(i+1)))
	}
	for i := int64(0); i < 19; i++ { // p .. 2^255-1
		s.add(new(big.Int).Add(ref.P, big.NewInt(i)))
	}
	// inputs the reference sends to special Montgomery points: x = 0 (t = 0), -1 (s = -1), 1, -A, the
	// base point u = 9, the low-order u values, +-2, A; each through both branches where a root exists
	targets := []*big.Int{big.NewInt(0), ref.FNeg(bigOne), bigOne, ref.FNeg(montA), montA, big.NewInt(9), big.NewInt(2), ref.FNeg(big.NewInt(2)), uOrder8[0], uOrder8[1]}
	for _, x := range targets {
		for _, r := range preimages(x) {
			s.add(r)
		}
	}
	// constants that appear in the map
	i := ref.SqrtM1
	for _, v := range []*big.Int{i, ref.FNeg(i), montA, ref.FNeg(montA), ref.FAdd(montA, big.NewInt(2)), ref.FSub(montA, big.NewInt(2)), ref.D, ref.FMul(big.NewInt(2), ref.D),
		refh2c.SqrtNeg486664, ref.FNeg(refh2c.SqrtNeg486664), ref.FInv(big.NewInt(2)), ref.FDiv(ref.FNeg(bigOne), big.NewInt(2))} {
		s.add(v)
		if r, ok := ref.FSqrt(v); ok {
			s.add(r)
			s.add(ref.FNeg(r))
		}
	}
	for j := uint(1); j < 255; j++ {
		for e := int64(-1); e <= 1; e++ {
			s.add(new(big.Int).Add(new(big.Int).Lsh(bigOne, j), big.NewInt(e)))
		}
	}
	for n := 0; n < 16; n++ {
		v := new(big.Int).SetBytes(fill(32, byte(n<<4|n)))
		s.add(new(big.Int).Mod(v, pow255))
	}
	// generic values g, with -g (same image) and 1/(2g) (opposite image)
	ng := c.Pick(6000, 30000)
	for k := 0; k < ng; k++ {
		g := ref.FMod(ref.FromLE(mc.Bytes(c.Seed, "phi", k, 32)))
		s.add(g)
		if k%4 == 0 {
			s.add(ref.FNeg(g))
			s.add(ref.FInv(ref.FMul(big.NewInt(2), g)))
		}
	}
	return s.out
}

func feFromInt(v *big.Int, setBit255 bool) (field.Element, []byte) {
	b := ref.LE32(v)
	if setBit255 {
		b[31] |= 0x80
	}
	var fe field.Element
	if _, err := fe.SetBytes(b); err != nil {
		panic(err)
	}
	return fe, b
}

func feBytes(fe *field.Element) []byte {
	var b [32]byte
	_ = fe.ToBytes(b[:])
	return b[:]
}

func encodeLib(p *curve.EdwardsPoint) []byte {
	var cp curve.CompressedEdwardsY
	cp.SetEdwardsPoint(p)
	return append([]byte{}, cp[:]...)
}

// subgroupCheck decodes the library's encoding with the reference decoder and
// evaluates [L]P = O in the reference group.
func subgroupCheck(enc []byte) (onCurve, inSubgroup bool) {
	p, ok, _ := ref.Decode(enc)
	if !ok {
		return false, false
	}
	return true, refh2c.InPrimeOrderSubgroup(p)
}

func runEll2(c *mc.Ctx) {
	phi := fieldAlphabet(c)
	c.Rep.Extra["field_alphabet"] = len(phi)
	// (u,v) and the Edwards point for every member; the 64 simplest members also with bit 255 of the string set
	n := len(phi) + 64
	par(c, "ell2", n, func(w *mc.W, i int) {
		hi := i >= len(phi)
		v := phi[i%len(phi)]
		if hi {
			v = phi[i-len(phi)]
		}
		fe, in := feFromInt(v, hi)
		r := ref.FMod(v)
		s, t, branch, exc := refh2c.MapToCurveElligator2(r)
		q, excR := refh2c.RationalMap(s, t)
		class := "ell2/gx1-square"
		if branch == refh2c.BranchNonSquare {
			class = "ell2/gx1-nonsquare"
		}
		switch {
		case exc:
			class = "ell2/exceptional-1+Zu^2=0"
		case excR && ref.FMod(t).Sign() == 0:
			class = "ell2/exceptional-t=0"
		case excR:
			class = "ell2/exceptional-s=-1"
		case q.IsSmallOrder():
			class = "ell2/small-order-image"
		}
		w.Eval(class, true)
		if !refh2c.OnCurve25519(s, t) || !q.OnCurve() {
			panic(harnessErr("reference Elligator output is not on the curve"))
		}
		cas := map[string]string{"r_bytes": fmt.Sprintf("%x", in), "r": bigHex(r), "class": class}
		lu, lv := elligator.VerifMontgomeryFlavor(&fe)
		if !bytes.Equal(feBytes(&lu), ref.LE32(s)) || !bytes.Equal(feBytes(&lv), ref.LE32(t)) {
			w.Fail("elligator.montgomeryFlavor", fmt.Sprintf("r=%x: (u,v)=(%x,%x) want RFC 9380 6.7.1 (s,t)=(%x,%x) [%s]", r, ref.FromLE(feBytes(&lu)), ref.FromLE(feBytes(&lv)), s, t, class), cas)
		}
		got := encodeLib(elligator.EdwardsFlavor(&fe))
		if want := q.Encode(); !bytes.Equal(got, want) {
			w.Fail("elligator.EdwardsFlavor", fmt.Sprintf("r=%x: point %x want %x [%s]", r, got, want, class), cas)
		}
		if i%997 == 0 {
			w.Sample(map[string]string{"op": "Elligator2", "r": bigHex(r), "class": class, "point": fmt.Sprintf("%x", got)})
		}
	})
}

// uniformAlphabet: 48-byte big-endian strings (as integers < 2^384) for hash_to_field.
func uniformAlphabet(c *mc.Ctx, core bool) []*big.Int {
	s := newBigSet(pow384)
	kmax := new(big.Int).Div(new(big.Int).Sub(pow384, bigOne), ref.P)
	ks := []*big.Int{big.NewInt(0), bigOne, big.NewInt(2), new(big.Int).Lsh(bigOne, 64), kmax}
	// residues: 0 (the exceptional input), +-1, 2, and preimages of the low-order points
	res := []*big.Int{big.NewInt(0), bigOne, new(big.Int).Sub(ref.P, bigOne), big.NewInt(2)}
	for _, x := range []*big.Int{bigOne, ref.FNeg(montA), uOrder8[0]} {
		pr := preimages(x)
		if len(pr) > 0 {
			res = append(res, pr[0])
		}
	}
	for _, k := range ks {
		for _, r := range res {
			s.add(new(big.Int).Add(new(big.Int).Mul(k, ref.P), r))
		}
	}
	s.add(new(big.Int).Sub(pow384, bigOne))
	for _, j := range []uint{255, 256, 320, 383} {
		for e := int64(-1); e <= 1; e++ {
			s.add(new(big.Int).Add(new(big.Int).Lsh(bigOne, j), big.NewInt(e)))
		}
	}
	if !core {
		for j := uint(1); j < 384; j += 7 {
			s.add(new(big.Int).Lsh(bigOne, j))
			s.add(new(big.Int).Sub(new(big.Int).Lsh(bigOne, j), bigOne))
		}
		for n := 1; n < 16; n++ {
			s.add(new(big.Int).SetBytes(fill(48, byte(n<<4|n))))
		}
	}
	ng := c.Pick(400, 4000)
	if core {
		ng = c.Pick(8, 24)
	}
	for k := 0; k < ng; k++ {
		s.add(new(big.Int).SetBytes(mc.Bytes(c.Seed, "uniform", k, 48)))
	}
	return s.out
}

func be48(v *big.Int) []byte {
	b := v.Bytes()
	out := make([]byte, 48)
	copy(out[48-len(b):], b)
	return out
}

func runUniform(c *mc.Ctx) {
	W := uniformAlphabet(c, false)
	c.Rep.Extra["uniform_alphabet_nu"] = len(W)
	par(c, "uniform-nu", len(W), func(w *mc.W, i int) {
		u := be48(W[i])
		r := ref.FMod(W[i])
		want := refh2c.EncodeToCurveFromUniform(u)
		class := "uniform-nu/generic"
		switch {
		case want.IsIdentity():
			class = "uniform-nu/identity"
		case W[i].Cmp(ref.P) >= 0:
			class = "uniform-nu/reduced(>=p)"
		}
		w.Eval(class, true)
		cas := map[string]string{"uniform_bytes": fmt.Sprintf("%x", u), "u": bigHex(r)}
		if got := h2c.VerifUniformToField(u); !bytes.Equal(got[:], ref.LE32(r)) {
			w.Fail("h2c.uniformToField25519", fmt.Sprintf("uniform=%x: field element %x want OS2IP mod p = %x", u, ref.FromLE(got[:]), r), cas)
		}
		var in [h2c.VerifEncodeToCurveSize]byte
		copy(in[:], u)
		got := encodeLib(h2c.VerifEncodeToCurve(&in))
		if !bytes.Equal(got, want.Encode()) {
			w.Fail("h2c.encodeToCurve", fmt.Sprintf("uniform=%x: point %x want %x", u, got, want.Encode()), cas)
		}
		if on, sub := subgroupCheck(got); !on || !sub {
			w.Fail("h2c.encodeToCurve/subgroup", fmt.Sprintf("uniform=%x: returned point %x on-curve=%v [L]P=O:%v", u, got, on, sub), cas)
		}
	})

	// RO: all pairs over the core alphabet, plus for every core member w the structured partners
	// w (Q0 = Q1), -w (same image) and 1/(2w) (Q1 = -Q0, sum is the identity).
	C := uniformAlphabet(c, true)
	c.Rep.Extra["uniform_alphabet_ro_core"] = len(C)
	type pair struct{ a, b *big.Int }
	var pairs []pair
	for _, a := range C {
		for _, b := range C {
			pairs = append(pairs, pair{a, b})
		}
	}
	for _, a := range C {
		r := ref.FMod(a)
		pairs = append(pairs, pair{a, ref.FNeg(r)})
		if r.Sign() != 0 {
			pairs = append(pairs, pair{a, ref.FInv(ref.FMul(big.NewInt(2), r))})
			pairs = append(pairs, pair{ref.FInv(ref.FMul(big.NewInt(2), r)), new(big.Int).Add(r, ref.P)})
		}
	}
	par(c, "uniform-ro", len(pairs), func(w *mc.W, i int) {
		u := append(be48(pairs[i].a), be48(pairs[i].b)...)
		want := refh2c.HashToCurveFromUniform(u)
		fe := refh2c.FieldElementsFromUniform(u, 2)
		q0, q1 := refh2c.MapToCurveEdwards25519(fe[0]), refh2c.MapToCurveEdwards25519(fe[1])
		class := "uniform-ro/generic"
		switch {
		case q0.Equal(q1):
			class = "uniform-ro/Q0=Q1"
		case q0.Equal(q1.Neg()):
			class = "uniform-ro/Q0=-Q1"
		case want.IsIdentity():
			class = "uniform-ro/identity"
		}
		w.Eval(class, true)
		cas := map[string]string{"uniform_bytes": fmt.Sprintf("%x", u), "u0": bigHex(fe[0]), "u1": bigHex(fe[1]), "class": class}
		var in [h2c.VerifHashToCurveSize]byte
		copy(in[:], u)
		got := encodeLib(h2c.VerifHashToCurve(&in))
		if !bytes.Equal(got, want.Encode()) {
			w.Fail("h2c.hashToCurve", fmt.Sprintf("uniform=%x [%s]: point %x want %x", u, class, got, want.Encode()), cas)
		}
		if on, sub := subgroupCheck(got); !on || !sub {
			w.Fail("h2c.hashToCurve/subgroup", fmt.Sprintf("uniform=%x: returned point %x on-curve=%v [L]P=O:%v", u, got, on, sub), cas)
		}
	})
}

// ---------------------------------------------------------------------------

type suiteFn struct {
	name string
	kind string // "edwards-ro", "edwards-nu", "ristretto"
	// call returns the encoding of the returned element
	call func(dst, msg []byte) ([]byte, error)
	// want is the RFC 9380 definition
	want    func(dst, msg []byte) (ref.Point, error)
	refused bool // the library documents a refusal (digest < 32 bytes)
}

func edw(p *curve.EdwardsPoint, err error) ([]byte, error) {
	if err != nil {
		return nil, err
	}
	return encodeLib(p), nil
}

func ris(p *curve.RistrettoPoint, err error) ([]byte, error) {
	if err != nil {
		return nil, err
	}
	var cp curve.CompressedRistretto
	cp.SetRistrettoPoint(p)
	return append([]byte{}, cp[:]...), nil
}

func suiteFns() []suiteFn {
	xmd512 := refh2c.XMD(refh2c.SHA512)
	fns := []suiteFn{
		{name: "Edwards25519_XMD_SHA512_ELL2_RO", kind: "edwards-ro",
			call: func(d, m []byte) ([]byte, error) { return edw(h2c.Edwards25519_XMD_SHA512_ELL2_RO(d, m)) },
			want: func(d, m []byte) (ref.Point, error) { return refh2c.HashToCurve(xmd512, m, d) }},
		{name: "Edwards25519_XMD_SHA512_ELL2_NU", kind: "edwards-nu",
			call: func(d, m []byte) ([]byte, error) { return edw(h2c.Edwards25519_XMD_SHA512_ELL2_NU(d, m)) },
			want: func(d, m []byte) (ref.Point, error) { return refh2c.EncodeToCurve(xmd512, m, d) }},
	}
	for _, hd := range []hashDef{
		{crypto.SHA256, refh2c.SHA256}, {crypto.SHA384, refh2c.SHA384}, {crypto.SHA512, refh2c.SHA512}, {crypto.SHA512_256, refh2c.SHA512_256},
		{crypto.SHA3_256, refh2c.SHA3_256}, {crypto.SHA224, refh2c.SHA224},
	} {
		hd := hd
		ex := refh2c.XMD(hd.spec)
		refused := hd.spec.B < minDigest
		fns = append(fns,
			suiteFn{name: "Edwards25519_XMD_ELL2_RO(" + hd.spec.Name + ")", kind: "edwards-ro", refused: refused,
				call: func(d, m []byte) ([]byte, error) { return edw(h2c.Edwards25519_XMD_ELL2_RO(hd.ch, d, m)) },
				want: func(d, m []byte) (ref.Point, error) { return refh2c.HashToCurve(ex, m, d) }},
			suiteFn{name: "Edwards25519_XMD_ELL2_NU(" + hd.spec.Name + ")", kind: "edwards-nu", refused: refused,
				call: func(d, m []byte) ([]byte, error) { return edw(h2c.Edwards25519_XMD_ELL2_NU(hd.ch, d, m)) },
				want: func(d, m []byte) (ref.Point, error) { return refh2c.EncodeToCurve(ex, m, d) }},
			suiteFn{name: "Ristretto255_XMD_R255MAP_RO(" + hd.spec.Name + ")", kind: "ristretto", refused: refused,
				call: func(d, m []byte) ([]byte, error) { return ris(h2c.Ristretto255_XMD_R255MAP_RO(hd.ch, d, m)) },
				want: func(d, m []byte) (ref.Point, error) { return refh2c.HashToRistretto255(ex, m, d) }},
		)
	}
	for _, x := range xofDefs {
		x := x
		ex := refh2c.XOFExpander(x.spec, refh2c.K)
		fns = append(fns,
			suiteFn{name: "Edwards25519_XOF_ELL2_RO(" + x.spec.Name + ")", kind: "edwards-ro",
				call: func(d, m []byte) ([]byte, error) { return edw(h2c.Edwards25519_XOF_ELL2_RO(x.mk(), d, m)) },
				want: func(d, m []byte) (ref.Point, error) { return refh2c.HashToCurve(ex, m, d) }},
			suiteFn{name: "Edwards25519_XOF_ELL2_NU(" + x.spec.Name + ")", kind: "edwards-nu",
				call: func(d, m []byte) ([]byte, error) { return edw(h2c.Edwards25519_XOF_ELL2_NU(x.mk(), d, m)) },
				want: func(d, m []byte) (ref.Point, error) { return refh2c.EncodeToCurve(ex, m, d) }},
			suiteFn{name: "Ristretto255_XOF_R255MAP_RO(" + x.spec.Name + ")", kind: "ristretto",
				call: func(d, m []byte) ([]byte, error) { return ris(h2c.Ristretto255_XOF_R255MAP_RO(x.mk(), d, m)) },
				want: func(d, m []byte) (ref.Point, error) { return refh2c.HashToRistretto255(ex, m, d) }},
		)
	}
	return fns
}

var _ sha3.ShakeHash

func runSuites(c *mc.Ctx, dsts []named) {
	ml := append([]int{}, alph.Lengths...)
	if c.Thorough {
		ml = append(ml, rangeInts(1, 140)...)
	}
	msgs := byteStrings(c.Seed, "msg", dedupInts(ml))
	fns := suiteFns()
	c.Rep.Extra["suite_functions"] = len(fns)
	c.Rep.Extra["suite_messages"] = len(msgs)
	for _, f := range fns {
		f := f
		p := mc.Product{Radix: []int{len(dsts), len(msgs)}}
		par(c, "suite/"+f.name, p.Size(), func(w *mc.W, i int) {
			var d [2]int
			p.Decode(i, d[:])
			suiteCase(w, f, dsts[d[0]], msgs[d[1]], true, i%61 == 0)
		})
	}
}

// suiteCase runs one exported suite function on (dst, msg) against the RFC 9380 definition.
func suiteCase(w *mc.W, f suiteFn, dst, msg named, subgroup, sample bool) {
	cas := map[string]string{"function": f.name, "dst": fmt.Sprintf("%x", dst.b), "dst_desc": dst.desc, "msg": fmt.Sprintf("%x", msg.b), "msg_desc": msg.desc}
	got, err := f.call(dst.b, msg.b)
	if f.refused {
		w.Eval("suite/refused", true)
		if err == nil {
			w.Fail("h2c.suite/missing-error", fmt.Sprintf("%s dst=%s msg=%s: a digest below 32 bytes must be refused, got %x", f.name, dst.desc, msg.desc, got), cas)
		}
		return
	}
	want, rerr := f.want(dst.b, msg.b)
	if rerr != nil {
		panic(harnessErr("reference suite aborted: " + rerr.Error()))
	}
	w.Eval("suite/"+f.kind, true)
	if err != nil {
		w.Fail("h2c.suite/spurious-error", fmt.Sprintf("%s dst=%s msg=%s: error %v", f.name, dst.desc, msg.desc, err), cas)
		return
	}
	if f.kind == "ristretto" {
		if wantEnc := ref.RistrettoEncode(want); !bytes.Equal(got, wantEnc) {
			w.Fail("h2c.suite/ristretto255", fmt.Sprintf("%s dst=%s msg=%s: element %x want %x", f.name, dst.desc, msg.desc, got, wantEnc), cas)
		}
	} else {
		if !bytes.Equal(got, want.Encode()) {
			w.Fail("h2c.suite/"+f.kind, fmt.Sprintf("%s dst=%s msg=%s: point %x want %x", f.name, dst.desc, msg.desc, got, want.Encode()), cas)
		}
		if subgroup {
			if on, sub := subgroupCheck(got); !on || !sub {
				w.Fail("h2c.suite/subgroup", fmt.Sprintf("%s dst=%s msg=%s: returned point %x on-curve=%v [L]P=O:%v", f.name, dst.desc, msg.desc, got, on, sub), cas)
			}
		}
	}
	if sample {
		w.Sample(map[string]string{"op": f.name, "dst": dst.desc, "msg": msg.desc, "result": fmt.Sprintf("%x", got)})
	}
}
