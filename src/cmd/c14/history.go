package main

import (
	"bytes"
	"fmt"

	"github.com/oasisprotocol/curve25519-voi/internal/verif/mc"
)

// Call histories.
//
// Every entry point of the package is a pure function of (hash or XOF, DST, message, length).
// Anything the implementation remembers between calls (a memo of the shortened over-long DST, of
// DST_prime, of b_0, a pooled hash object or buffer) is keyed by some of these and can be wrong
// when a later call agrees with an earlier one in the key but not in the rest.  This sub-space
// forces such collisions: short histories [a; b; a] in ONE goroutine in which consecutive calls
// share exactly the same DST bytes (for DST lengths on both sides of 255/256, in particular the
// over-long ones) but differ in the hash / XOF / suite function (all ordered pairs), or share
// hash and message but differ in the DST, or share everything but the output length, or
// everything but the message.  Every step is compared with the reference.  Each history is one
// case, so `-only history:<i>` replays it in a fresh process (the history brings its own past).

type step struct {
	op       int
	dst, msg int
	n        int
}

func runHistory(c *mc.Ctx) {
	ops := allOps()
	var expandOps, suiteOps []int
	for i, o := range ops {
		if o.expand {
			expandOps = append(expandOps, i)
		} else {
			suiteOps = append(suiteOps, i)
		}
	}
	dstLens := []int{16, 255, 256, 257, 1000}
	dsts := make([][]byte, len(dstLens))
	for i, n := range dstLens {
		dsts[i] = mc.Bytes(c.Seed, "dst", n, n) // the same bytes the other sub-spaces use
	}
	// a second DST of each length with different bytes (indices 5..9): a memo keyed by the length, or by a slice that
	// aliases a buffer the caller reuses, cannot tell it from the first
	for _, n := range dstLens {
		dsts = append(dsts, mc.Bytes(c.Seed, "dst-alt", n, n))
	}
	msgs := [][]byte{mc.Bytes(c.Seed, "msg", 33, 33), {}, mc.Bytes(c.Seed, "msg", 129, 129)}
	long := []int{2, 3, 4} // indices of the over-long DSTs
	if !c.Thorough {
		long = []int{2, 4}
	}
	allD := []int{0, 1, 2, 3, 4}

	var hist [][3]step
	aba := func(a, b step) { hist = append(hist, [3]step{a, b, a}) }
	// (1) same DST and message, different function: all ordered pairs
	for _, x := range expandOps {
		for _, y := range expandOps {
			if x == y {
				continue
			}
			for _, d := range allD {
				for m := 0; m < 2; m++ {
					aba(step{x, d, m, 48}, step{y, d, m, 48})
				}
			}
		}
	}
	for _, x := range suiteOps {
		for _, y := range suiteOps {
			if x != y {
				for _, d := range long {
					aba(step{x, d, 0, 0}, step{y, d, 0, 0})
				}
			}
		}
	}
	for _, x := range expandOps {
		for _, y := range suiteOps {
			for _, d := range long {
				aba(step{x, d, 0, 96}, step{y, d, 0, 0})
				aba(step{y, d, 0, 0}, step{x, d, 0, 96})
			}
		}
	}
	// (2) same function and message, different DST; (3) only the length differs; (4) only the message differs
	for _, x := range expandOps {
		for _, d1 := range allD {
			for _, d2 := range allD {
				if d1 != d2 {
					aba(step{x, d1, 0, 48}, step{x, d2, 0, 48})
				}
			}
		}
		for _, d := range []int{0, 2} {
			for _, n1 := range []int{32, 48, 96} {
				for _, n2 := range []int{32, 48, 96} {
					if n1 != n2 {
						aba(step{x, d, 0, n1}, step{x, d, 0, n2})
					}
				}
			}
			aba(step{x, d, 0, 48}, step{x, d, 2, 48})
			aba(step{x, d, 2, 48}, step{x, d, 0, 48})
		}
	}
	for _, x := range suiteOps {
		aba(step{x, 2, 0, 0}, step{x, 4, 0, 0})
		aba(step{x, 4, 0, 0}, step{x, 0, 0, 0})
		aba(step{x, 2, 0, 0}, step{x, 2, 2, 0})
	}
	// (5) same function, message and DST LENGTH, different DST bytes
	for xi := range ops {
		for _, d := range allD {
			n := 48
			if !ops[xi].expand {
				n = 0
			}
			aba(step{xi, d, 0, n}, step{xi, d + 5, 0, n})
		}
	}
	c.Rep.Extra["histories"] = len(hist)

	// reference results, memoised (single goroutine)
	memo := map[string][]byte{}
	want := func(s step) []byte {
		k := fmt.Sprintf("%d|%d|%d|%d", s.op, s.dst, s.msg, s.n)
		if v, ok := memo[k]; ok {
			return v
		}
		v := ops[s.op].want(dsts[s.dst], msgs[s.msg], s.n)
		memo[k] = v
		return v
	}
	// every history runs twice: with fresh copies of the inputs for every call (only the library's own state links the
	// steps), and with the DST and the message of every step handed over in the SAME two caller-owned buffers, which the
	// next step overwrites (a library that keeps a slice it was given then compares the buffer with itself)
	seq(c, "history", 2*len(hist), func(w *mc.W, i int) {
		h := hist[i/2]
		reuse := i%2 == 1
		dstBuf, msgBuf := make([]byte, 0, 1100), make([]byte, 0, 256)
		put := func(buf *[]byte, src []byte) []byte {
			full := (*buf)[:cap(*buf)]
			for j := range full {
				full[j] = 0xee
			}
			*buf = append((*buf)[:0], src...)
			return *buf
		}
		desc := ""
		if reuse {
			desc = "(inputs in reused caller buffers) "
		}
		for k, s := range h {
			desc += fmt.Sprintf("%d: %s(dst[%d], msg[%d], len=%d); ", k+1, ops[s.op].name, len(dsts[s.dst]), len(msgs[s.msg]), s.n)
		}
		for k, s := range h {
			o := ops[s.op]
			class := "history/same-dst-other-function"
			switch {
			case h[0].op == h[1].op && h[0].dst != h[1].dst && len(dsts[h[0].dst]) == len(dsts[h[1].dst]):
				class = "history/same-function-other-dst-of-the-same-length"
			case h[0].op == h[1].op && h[0].dst != h[1].dst:
				class = "history/same-function-other-dst"
			case h[0].op == h[1].op && h[0].n != h[1].n:
				class = "history/same-function-other-length"
			case h[0].op == h[1].op:
				class = "history/same-function-other-message"
			}
			if len(dsts[h[0].dst]) > 255 && h[0].dst == h[1].dst {
				class += "/oversize-dst"
			}
			w.Eval(class, true)
			var out []byte
			if o.expand {
				out = fill(s.n, 0xa5)
			}
			dArg, mArg := append([]byte{}, dsts[s.dst]...), append([]byte{}, msgs[s.msg]...)
			if reuse {
				dArg, mArg = put(&dstBuf, dsts[s.dst]), put(&msgBuf, msgs[s.msg])
			}
			got, err := o.call(out, dArg, mArg)
			if wv := want(s); err != nil || !bytes.Equal(got, wv) {
				w.Fail("h2c/call-history", fmt.Sprintf("history [%s] step %d: got (%s, %v), RFC 9380 gives %s - the result of a call depends on the calls made before it", desc, k+1, short(got), err, short(wv)),
					map[string]string{"history": desc, "failing_step": fmt.Sprint(k + 1), "dst": fmt.Sprintf("%x", dsts[s.dst]), "msg": fmt.Sprintf("%x", msgs[s.msg])})
			}
		}
		if i%997 == 0 {
			w.Sample(map[string]string{"op": "call history", "history": desc})
		}
	})
}
