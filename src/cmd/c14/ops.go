package main

import (
	"fmt"

	"github.com/oasisprotocol/curve25519-voi/internal/verif/mc"
	"github.com/oasisprotocol/curve25519-voi/internal/verif/ref"
	"github.com/oasisprotocol/curve25519-voi/internal/verif/ref/refh2c"
	"github.com/oasisprotocol/curve25519-voi/primitives/h2c"
)

// op is one entry point of the package seen as a function (DST, message, length) -> bytes,
// together with its RFC 9380 definition.  Used by the caller-memory and call-history sub-spaces.
type op struct {
	name   string
	expand bool // the length argument is meaningful (expand_message); suites ignore it
	// call runs the library; for expand ops `out` is the caller's output buffer (len = length)
	call func(out, dst, msg []byte) ([]byte, error)
	want func(dst, msg []byte, n int) []byte
}

// allOps: ExpandMessageXMD for every accepted hash, ExpandMessageXOF for both XOFs, and every
// exported suite instantiation that is not refused.
func allOps() []op {
	var ops []op
	for _, hd := range hashDefs {
		hd := hd
		if hd.spec.B < minDigest {
			continue
		}
		ops = append(ops, op{name: "ExpandMessageXMD(" + hd.spec.Name + ")", expand: true,
			call: func(out, dst, msg []byte) ([]byte, error) {
				err := h2c.ExpandMessageXMD(out, hd.ch, dst, msg)
				return out, err
			},
			want: func(dst, msg []byte, n int) []byte {
				b, err := refh2c.ExpandMessageXMD(hd.spec, msg, dst, n)
				if err != nil {
					panic(harnessErr("reference expand_message_xmd aborted: " + err.Error()))
				}
				return b
			}})
	}
	for _, x := range xofDefs {
		x := x
		ops = append(ops, op{name: "ExpandMessageXOF(" + x.spec.Name + ")", expand: true,
			call: func(out, dst, msg []byte) ([]byte, error) {
				err := h2c.ExpandMessageXOF(out, x.mk(), dst, msg)
				return out, err
			},
			want: func(dst, msg []byte, n int) []byte {
				b, err := refh2c.ExpandMessageXOF(x.spec, refh2c.K, msg, dst, n)
				if err != nil {
					panic(harnessErr("reference expand_message_xof aborted: " + err.Error()))
				}
				return b
			}})
	}
	for _, f := range suiteFns() {
		f := f
		if f.refused {
			continue
		}
		ops = append(ops, op{name: f.name,
			call: func(out, dst, msg []byte) ([]byte, error) { return f.call(dst, msg) },
			want: func(dst, msg []byte, n int) []byte {
				p, err := f.want(dst, msg)
				if err != nil {
					panic(harnessErr("reference suite aborted: " + err.Error()))
				}
				if f.kind == "ristretto" {
					return ref.RistrettoEncode(p)
				}
				return p.Encode()
			}})
	}
	return ops
}

// seq is c.Seq with the same guard as par (single goroutine: for sub-spaces that examine
// process-global state, where the order of calls is part of the case).
func seq(c *mc.Ctx, sub string, n int, f func(w *mc.W, i int)) {
	c.Seq(sub, n, func(w *mc.W, i int) {
		defer func() {
			if r := recover(); r != nil {
				if he, ok := r.(harnessErr); ok {
					c.Broken(fmt.Sprintf("%s:%d: %s", sub, i, string(he)))
					return
				}
				w.Fail("panic", fmt.Sprintf("unexpected panic in case: %v", r), nil)
			}
		}()
		f(w, i)
	})
}
