package main

import (
	"bytes"
	"crypto"
	"fmt"

	"golang.org/x/crypto/sha3"

	"github.com/oasisprotocol/curve25519-voi/curve"
	"github.com/oasisprotocol/curve25519-voi/internal/verif/mc"
	"github.com/oasisprotocol/curve25519-voi/internal/verif/ref"
	"github.com/oasisprotocol/curve25519-voi/internal/verif/ref/refh2c"
	"github.com/oasisprotocol/curve25519-voi/primitives/h2c"
)

// ---------------------------------------------------------------------------
// overlap: arguments that share memory.
//
// expand_message is a function of the VALUES (msg, DST, len_in_bytes).  A caller may expand a seed in
// place (ExpandMessageXMD(buf, h, dst, buf)) or cut out, msg and DST from one buffer so that they
// overlap.  The oracle demands the reference bytes for every layout in which, by the RFC's own data
// flow, every input byte has been absorbed before the first output byte exists:
//
//	expand_message_xof: msg, l_i_b_str and DST_prime are all absorbed before squeezing -> every overlap;
//	expand_message_xmd: msg is consumed by b_0 only -> out may overlap msg arbitrarily;
//	                    DST_prime enters every b_i  -> out may overlap the DST only if ell == 1, or if the
//	                    DST is over-long (it is then replaced by its digest before anything else happens);
//	inputs overlapping each other (msg and DST sharing bytes) are read-only -> always.
//
// EXCLUDED (not demanded, counted in class overlap/excluded): expand_message_xmd with ell >= 2 and `out`
// overlapping a DST of <= 255 bytes.  There the output of block i is written over DST bytes that block
// i+1 still has to read; the unchanged library returns different bytes than for disjoint buffers in
// exactly the sub-case DST intersects out[0 : (ell-1)*b] (measured, see notes/C14.md), the doc comment
// promises nothing about overlapping buffers, and an output buffer overlapping an input that is still
// to be read is a caller error rather than a property of the RFC function.

type ovLayout struct {
	name             string
	offM, offD, offO func(lm, ld, n int) int // offsets inside the arena body (0-based, before the front guard is added)
}

func runOverlap(c *mc.Ctx) {
	ops := allOps()
	far := 4000 // start of the "somewhere else" area
	fixed := func(v int) func(int, int, int) int { return func(int, int, int) int { return v } }
	layouts := []ovLayout{
		// out against msg (DST elsewhere)
		{"out=msg-prefix", fixed(0), fixed(far), fixed(0)},
		{"out[0]=msg[last]", fixed(0), fixed(far), func(lm, ld, n int) int { return lm - 1 }},
		{"out[last]=msg[0]", func(lm, ld, n int) int { return n - 1 }, fixed(far), fixed(0)},
		{"out-inside-msg+1", fixed(0), fixed(far), fixed(1)},
		// out against DST (msg elsewhere)
		{"out=dst-prefix", fixed(far), fixed(0), fixed(0)},
		{"out[0]=dst[last]", fixed(far), fixed(0), func(lm, ld, n int) int { return ld - 1 }},
		{"out[last]=dst[0]", fixed(far), func(lm, ld, n int) int { return n - 1 }, fixed(0)},
		// msg||DST adjacent, out across the boundary / over both
		{"msg|dst,out-spans-boundary", fixed(0), func(lm, ld, n int) int { return lm }, func(lm, ld, n int) int {
			if lm < 2 {
				return 0
			}
			return lm - 2
		}},
		{"msg|dst,out=msg-prefix-running-into-dst", fixed(0), func(lm, ld, n int) int { return lm }, fixed(0)},
		// inputs overlapping each other, out elsewhere
		{"msg[last]=dst[0]", fixed(0), func(lm, ld, n int) int { return lm - 1 }, fixed(far)},
		{"dst[last]=msg[0]", func(lm, ld, n int) int { return ld - 1 }, fixed(0), fixed(far)},
		{"dst=msg-prefix", fixed(0), fixed(0), fixed(far)},
	}
	msgLens := []int{1, 33, 150}
	dstLens := []int{1, 16, 40, 255, 256, 300}
	outLens := []int{1, 16, 32, 33, 48, 64, 97, 200}
	if c.Thorough {
		msgLens = []int{1, 2, 32, 33, 64, 129, 150, 300}
		dstLens = []int{1, 2, 16, 40, 128, 254, 255, 256, 257, 300, 1000}
		outLens = []int{1, 16, 31, 32, 33, 48, 63, 64, 65, 96, 97, 129, 200, 255}
	}
	var expandOps []int
	for i, o := range ops {
		if o.expand {
			expandOps = append(expandOps, i)
		}
	}
	p := mc.Product{Radix: []int{len(expandOps), len(layouts), len(msgLens), len(dstLens), len(outLens)}}
	c.Rep.Extra["overlap_cases"] = p.Size()
	par(c, "overlap", p.Size(), func(w *mc.W, i int) {
		var d [5]int
		p.Decode(i, d[:])
		o, lay := ops[expandOps[d[0]]], layouts[d[1]]
		lm, ld, n := msgLens[d[2]], dstLens[d[3]], outLens[d[4]]
		offM, offD, offO := lay.offM(lm, ld, n), lay.offD(lm, ld, n), lay.offO(lm, ld, n)
		const front = 16
		size := front + far + 2000
		buf := make([]byte, size)
		for k := range buf {
			buf[k] = byte(0x3b ^ (k * 37) ^ (k >> 8)) // arena content = the values of msg and DST wherever they lie
		}
		msg := buf[front+offM : front+offM+lm]
		dst := buf[front+offD : front+offD+ld]
		out := buf[front+offO : front+offO+n]
		inter := func(a, la, b, lb int) bool { return a < b+lb && b < a+la }
		outMsg, outDst, msgDst := inter(offO, n, offM, lm), inter(offO, n, offD, ld), inter(offM, lm, offD, ld)
		isXMD := len(o.name) > 16 && o.name[:16] == "ExpandMessageXMD"
		class := "overlap/disjoint"
		switch {
		case outMsg && outDst:
			class = "overlap/out-msg-dst"
		case outMsg:
			class = "overlap/out-msg"
		case outDst:
			class = "overlap/out-dst"
		case msgDst:
			class = "overlap/msg-dst"
		}
		mv, dv := append([]byte{}, msg...), append([]byte{}, dst...) // the argument VALUES
		want := o.want(dv, mv, n)
		if isXMD && outDst && ld <= 255 {
			b := xmdDigestSize(o.name)
			if (n+b-1)/b >= 2 {
				w.Eval("overlap/excluded(xmd,ell>=2,out-overlaps-short-dst)", false)
				return
			}
			class += "/xmd-ell=1"
		} else if isXMD && outDst {
			class += "/xmd-oversize-dst"
		}
		w.Eval(class, true)
		snap := append([]byte{}, buf...)
		copy(snap[front+offO:], want)
		got, err := o.call(out, dst, msg)
		cas := map[string]string{"function": o.name, "layout": lay.name, "msg": fmt.Sprintf("%x", mv), "dst": fmt.Sprintf("%x", dv), "len_in_bytes": fmt.Sprint(n),
			"offsets": fmt.Sprintf("msg@%d dst@%d out@%d", offM, offD, offO)}
		if err != nil || !bytes.Equal(got, want) {
			w.Fail("h2c."+o.name+"/overlapping-arguments", fmt.Sprintf("msg[%d] dst[%d] len=%d, layout %s [%s]: got (%s, %v); with disjoint buffers (and per RFC 9380) the same values give %s", lm, ld, n, lay.name, class, short(got), err, short(want)), cas)
		} else if !bytes.Equal(buf, snap) {
			w.Fail("h2c."+o.name+"/caller-memory", fmt.Sprintf("msg[%d] dst[%d] len=%d, layout %s: bytes outside `out` were modified", lm, ld, n, lay.name), cas)
		}
	})

	// suite functions: the two inputs overlapping each other
	var suiteOps []int
	for i, o := range ops {
		if !o.expand {
			suiteOps = append(suiteOps, i)
		}
	}
	inLay := []ovLayout{layouts[9], layouts[10], layouts[11]}
	q := mc.Product{Radix: []int{len(suiteOps), len(inLay), 2, 2}}
	par(c, "overlap-suite", q.Size(), func(w *mc.W, i int) {
		var d [4]int
		q.Decode(i, d[:])
		o, lay := ops[suiteOps[d[0]]], inLay[d[1]]
		lm, ld := []int{33, 150}[d[2]], []int{16, 300}[d[3]]
		if lay.name == "dst=msg-prefix" && ld > lm {
			ld = lm
		}
		buf := make([]byte, 1000)
		for k := range buf {
			buf[k] = byte(0x3b ^ (k * 37))
		}
		offM, offD := lay.offM(lm, ld, 0), lay.offD(lm, ld, 0)
		msg, dst := buf[16+offM:16+offM+lm], buf[16+offD:16+offD+ld]
		want := o.want(append([]byte{}, dst...), append([]byte{}, msg...), 0)
		snap := append([]byte{}, buf...)
		w.Eval("overlap/suite/msg-dst", true)
		got, err := o.call(nil, dst, msg)
		if err != nil || !bytes.Equal(got, want) {
			w.Fail("h2c."+o.name+"/overlapping-arguments", fmt.Sprintf("msg[%d] dst[%d], layout %s: got (%x, %v) want %x", lm, ld, lay.name, got, err, want), nil)
		}
		if !bytes.Equal(buf, snap) {
			w.Fail("h2c."+o.name+"/caller-memory", fmt.Sprintf("msg[%d] dst[%d], layout %s: the inputs were modified", lm, ld, lay.name), nil)
		}
	})
}

func xmdDigestSize(opName string) int {
	for _, hd := range hashDefs {
		if opName == "ExpandMessageXMD("+hd.spec.Name+")" {
			return hd.spec.B
		}
	}
	panic(harnessErr("unknown XMD op " + opName))
}

// ---------------------------------------------------------------------------
// xof-template: the caller-supplied sha3.ShakeHash is a TEMPLATE.
//
// The library documents that it instantiates a new XOF through Clone(); the state of the object the
// caller passes must therefore be irrelevant, and the object itself must be left as it was.  Every XOF
// entry point is run with a fresh template, with templates that absorbed data (less than and more
// than one rate block) and with templates that were already read from; the output must be the
// reference output, and the template's own subsequent output must equal that of an identically
// prepared twin that the library never saw.
//
// EXCLUDED: a SHAKE256 template that is squeezing at a position p with (p mod 136) < 32.  With the
// x/crypto version pinned by go.mod (v0.0.0-20220321153916), sha3.(*state).clone computes
// storage[rate-cap(buf):rate] with cap(buf) = 168 - p', which is a negative index for rate 136 and
// p' < 32: Clone() panics inside x/crypto, before any repository code runs (unchanged tree; SHAKE128,
// rate 168, is never affected).

type tmplState struct {
	name          string
	absorb, squee int // bytes absorbed, then bytes squeezed (0 = still absorbing)
}

var tmplStates = []tmplState{
	{"fresh", 0, 0},
	{"absorbed-31", 31, 0},
	{"absorbed-200", 200, 0},
	{"squeezed-9", 5, 9},     // SHAKE128 only (SHAKE256: upstream panic)
	{"squeezed-40", 5, 40},   // position 40 in the block: fine for both
	{"squeezed-135", 5, 135}, // SHAKE256: last byte of the first block (135 >= 32: fine)
	{"squeezed-168", 0, 168}, // SHAKE128: exactly one block; SHAKE256: position 32 of the second block
	{"squeezed-200", 5, 200}, // SHAKE128: position 32; SHAKE256: position 64
}

func tmplExcluded(x xofDef, st tmplState) bool {
	return x.spec.Rate == 136 && st.squee > 0 && st.squee%136 < 32
}

func mkTemplate(x xofDef, st tmplState) sha3.ShakeHash {
	s := x.mk()
	if st.absorb > 0 {
		s.Write(bytes.Repeat([]byte("template state "), 20)[:st.absorb])
	}
	if st.squee > 0 {
		s.Read(make([]byte, st.squee))
	}
	return s
}

func runXOFTemplate(c *mc.Ctx) {
	type entry struct {
		name string
		call func(t sha3.ShakeHash, dst, msg []byte, n int) ([]byte, error)
		want func(x xofDef, dst, msg []byte, n int) []byte
	}
	exp := func(x xofDef) refh2c.Expander { return refh2c.XOFExpander(x.spec, refh2c.K) }
	entries := []entry{
		{"ExpandMessageXOF", func(t sha3.ShakeHash, d, m []byte, n int) ([]byte, error) {
			out := fill(n, 0xa5)
			return out, h2c.ExpandMessageXOF(out, t, d, m)
		}, func(x xofDef, d, m []byte, n int) []byte {
			b, _ := refh2c.ExpandMessageXOF(x.spec, refh2c.K, m, d, n)
			return b
		}},
		{"Edwards25519_XOF_ELL2_RO", func(t sha3.ShakeHash, d, m []byte, n int) ([]byte, error) {
			return edw(h2c.Edwards25519_XOF_ELL2_RO(t, d, m))
		},
			func(x xofDef, d, m []byte, n int) []byte { p, _ := refh2c.HashToCurve(exp(x), m, d); return p.Encode() }},
		{"Edwards25519_XOF_ELL2_NU", func(t sha3.ShakeHash, d, m []byte, n int) ([]byte, error) {
			return edw(h2c.Edwards25519_XOF_ELL2_NU(t, d, m))
		},
			func(x xofDef, d, m []byte, n int) []byte {
				p, _ := refh2c.EncodeToCurve(exp(x), m, d)
				return p.Encode()
			}},
		{"Ristretto255_XOF_R255MAP_RO", func(t sha3.ShakeHash, d, m []byte, n int) ([]byte, error) {
			return ris(h2c.Ristretto255_XOF_R255MAP_RO(t, d, m))
		},
			func(x xofDef, d, m []byte, n int) []byte {
				p, _ := refh2c.HashToRistretto255(exp(x), m, d)
				return ref.RistrettoEncode(p)
			}},
	}
	dstLens := []int{16, 256} // 256: the over-long-DST shortening instantiates a second XOF from the same template
	msgLens := []int{0, 33, 200}
	outLens := []int{32, 200}
	p := mc.Product{Radix: []int{len(xofDefs), len(entries), len(tmplStates), len(dstLens), len(msgLens), len(outLens)}}
	par(c, "xof-template", p.Size(), func(w *mc.W, i int) {
		var d [6]int
		p.Decode(i, d[:])
		x, e, st := xofDefs[d[0]], entries[d[1]], tmplStates[d[2]]
		ld, lm, n := dstLens[d[3]], msgLens[d[4]], outLens[d[5]]
		if d[1] != 0 && d[5] != 0 {
			return // suites have no length argument
		}
		if tmplExcluded(x, st) {
			w.Eval("xof-template/excluded(upstream Clone panic: SHAKE256 squeezing at block position < 32)", false)
			return
		}
		dst := mc.Bytes(c.Seed, "dst", ld, ld)
		msg := []byte{}
		if lm > 0 {
			msg = mc.Bytes(c.Seed, "msg", lm, lm)
		}
		cls := "xof-template/" + st.name
		if st.squee > 0 {
			cls = "xof-template/squeezing"
		} else if st.absorb > 0 {
			cls = "xof-template/absorbing"
		}
		w.Eval(cls, st.absorb+st.squee > 0)
		want := e.want(x, dst, msg, n)
		tmpl, twin := mkTemplate(x, st), mkTemplate(x, st)
		got, err := e.call(tmpl, dst, msg, n)
		cas := map[string]string{"function": e.name, "xof": x.spec.Name, "template": st.name, "dst": fmt.Sprintf("%x", dst), "msg": fmt.Sprintf("%x", msg), "len_in_bytes": fmt.Sprint(n)}
		if err != nil || !bytes.Equal(got, want) {
			w.Fail("h2c."+e.name+"/xof-template-state", fmt.Sprintf("%s(%s) with a %s template, dst[%d] msg[%d] len=%d: got (%s, %v), RFC 9380 gives %s - the state of the caller's XOF object leaks into the result", e.name, x.spec.Name, st.name, ld, lm, n, short(got), err, short(want)), cas)
		}
		// the template is left as it was: its continuation equals the twin's
		a, b := make([]byte, 64), make([]byte, 64)
		tmpl.Read(a)
		twin.Read(b)
		if !bytes.Equal(a, b) {
			w.Fail("h2c."+e.name+"/xof-template-modified", fmt.Sprintf("%s(%s) with a %s template: the caller's XOF object was changed by the call (its next output is %x, an untouched twin gives %x)", e.name, x.spec.Name, st.name, a, b), cas)
		}
	})
}

// ---------------------------------------------------------------------------
// returned-point: memory the package hands out (T11).
//
// Every function returns a freshly computed point.  Overwriting a returned point must change neither a
// point returned by another call, nor later results, nor the exported package-level points of `curve`
// (a result that is the identity or the generator must not be a pointer to shared state).

func runReturnedPoints(c *mc.Ctx) {
	type fn struct {
		name string
		edw  func() *curve.EdwardsPoint
		ris  func() *curve.RistrettoPoint
	}
	dst, msg := mc.Bytes(c.Seed, "dst", 16, 16), mc.Bytes(c.Seed, "msg", 33, 33)
	var zero48 [h2c.VerifEncodeToCurveSize]byte
	var zero96 [h2c.VerifHashToCurveSize]byte
	fns := []fn{
		{name: "Edwards25519_XMD_SHA512_ELL2_RO", edw: func() *curve.EdwardsPoint { p, _ := h2c.Edwards25519_XMD_SHA512_ELL2_RO(dst, msg); return p }},
		{name: "Edwards25519_XMD_SHA512_ELL2_NU", edw: func() *curve.EdwardsPoint { p, _ := h2c.Edwards25519_XMD_SHA512_ELL2_NU(dst, msg); return p }},
		{name: "Edwards25519_XMD_ELL2_RO(SHA-256)", edw: func() *curve.EdwardsPoint { p, _ := h2c.Edwards25519_XMD_ELL2_RO(crypto.SHA256, dst, msg); return p }},
		{name: "Edwards25519_XMD_ELL2_NU(SHA-256)", edw: func() *curve.EdwardsPoint { p, _ := h2c.Edwards25519_XMD_ELL2_NU(crypto.SHA256, dst, msg); return p }},
		{name: "Edwards25519_XOF_ELL2_RO(SHAKE128)", edw: func() *curve.EdwardsPoint {
			p, _ := h2c.Edwards25519_XOF_ELL2_RO(sha3.NewShake128(), dst, msg)
			return p
		}},
		{name: "Edwards25519_XOF_ELL2_NU(SHAKE256)", edw: func() *curve.EdwardsPoint {
			p, _ := h2c.Edwards25519_XOF_ELL2_NU(sha3.NewShake256(), dst, msg)
			return p
		}},
		{name: "Ristretto255_XMD_R255MAP_RO(SHA-512)", ris: func() *curve.RistrettoPoint {
			p, _ := h2c.Ristretto255_XMD_R255MAP_RO(crypto.SHA512, dst, msg)
			return p
		}},
		{name: "Ristretto255_XOF_R255MAP_RO(SHAKE128)", ris: func() *curve.RistrettoPoint {
			p, _ := h2c.Ristretto255_XOF_R255MAP_RO(sha3.NewShake128(), dst, msg)
			return p
		}},
		// the exceptional input u = 0: the result is the identity
		{name: "encodeToCurve(u=0)", edw: func() *curve.EdwardsPoint { return h2c.VerifEncodeToCurve(&zero48) }},
		{name: "hashToCurve(u0=u1=0)", edw: func() *curve.EdwardsPoint { return h2c.VerifHashToCurve(&zero96) }},
	}
	globals := func() []byte {
		var out []byte
		out = append(out, encodeLib(curve.ED25519_BASEPOINT_POINT)...)
		var cr curve.CompressedRistretto
		cr.SetRistrettoPoint(curve.RISTRETTO_BASEPOINT_POINT)
		out = append(out, cr[:]...)
		out = append(out, encodeLib(curve.NewEdwardsPoint())...)
		out = append(out, curve.ED25519_BASEPOINT_COMPRESSED[:]...)
		return out
	}
	// one goroutine: the observation is about shared state
	seq(c, "returned-point", len(fns), func(w *mc.W, i int) {
		f := fns[i]
		w.Eval("returned-point", true)
		g0 := globals()
		enc := func() []byte {
			if f.edw != nil {
				return encodeLib(f.edw())
			}
			b, _ := ris(f.ris(), nil)
			return b
		}
		e0 := enc()
		var e2 []byte
		if f.edw != nil {
			p1, p2 := f.edw(), f.edw()
			p1.Add(p1, curve.ED25519_BASEPOINT_POINT) // overwrite what was returned
			p1.Add(p1, p1)
			e2 = encodeLib(p2)
		} else {
			p1, p2 := f.ris(), f.ris()
			p1.Add(p1, curve.RISTRETTO_BASEPOINT_POINT)
			p1.Add(p1, p1)
			e2, _ = ris(p2, nil)
		}
		e3 := enc()
		if !bytes.Equal(e2, e0) {
			w.Fail("h2c."+f.name+"/returned-point-aliased", fmt.Sprintf("%s: overwriting one returned point changed a point returned by another call (%x -> %x)", f.name, e0, e2), nil)
		}
		if !bytes.Equal(e3, e0) {
			w.Fail("h2c."+f.name+"/returned-point-aliased", fmt.Sprintf("%s: overwriting a returned point changed the result of a later call (%x -> %x)", f.name, e0, e3), nil)
		}
		if g1 := globals(); !bytes.Equal(g0, g1) {
			w.Fail("h2c."+f.name+"/returned-point-aliased", fmt.Sprintf("%s: overwriting a returned point changed an exported package-level value of curve (%x -> %x)", f.name, g0, g1), nil)
		}
	})
}
