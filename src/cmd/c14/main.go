// C14: hash-to-curve is RFC 9380 for every input.
//
// Sub-spaces (all are full Cartesian products of de-duplicated alphabets):
//
//	xmd-small/<hash>, xmd-large/<hash>   ExpandMessageXMD  hash x DST x message x output length
//	xof-small/<xof>,  xof-large/<xof>    ExpandMessageXOF  xof x instance state x DST x message x output length
//	ell2                                 Elligator 2 (montgomeryFlavor through the hook, EdwardsFlavor) on the field alphabet
//	uniform-nu, uniform-ro               hash_to_field + map + cofactor clearing on crafted uniform bytes (hook)
//	suite/<function>                     the exported suite functions on the (DST, message) grid
//	xmd-sweep/<hash>, xof-sweep/<xof>,   EVERY message length 0..400 (thorough 0..1100) x 13 DST lengths x output lengths {48, 64, 96};
//	memory                               every byte-slice argument as a sub-slice of a guarded arena (all orderings in one buffer,
//	                                     gap 0/1, spare capacity): result = reference, caller memory unchanged except `out`
//	overlap, overlap-suite               out / msg / DST sharing memory inside one caller buffer (every layout the RFC data flow permits)
//	xof-template                         every XOF entry point with fresh / absorbing / squeezing caller-supplied ShakeHash objects
//	returned-point                       overwriting a returned point changes nothing else (no shared state handed out)
//	history                              single-goroutine call histories [a; b; a] colliding on DST bytes / message / length across
//	                                     all ordered pairs of hashes, XOFs and suite functions: every step = reference
//	suite-sweep/<function>               five suite functions on every message length 0..300 (600) with the ECVRF DST and the RFC's J.5 DST
//
// Oracle: package refh2c (RFC 9380 written literally with math/big).
package main

import (
	"bytes"
	"fmt"
	"math/big"
	"runtime"
	"sort"
	"time"

	"github.com/oasisprotocol/curve25519-voi/internal/verif/alph"
	"github.com/oasisprotocol/curve25519-voi/internal/verif/mc"
	"github.com/oasisprotocol/curve25519-voi/internal/verif/ref"
)

func main() { mc.Main("C14", run) }

// named is a byte string with a stable description for reports.
type named struct {
	b    []byte
	desc string
}

func fill(n int, v byte) []byte { return bytes.Repeat([]byte{v}, n) }

// byteStrings builds the alphabet of byte strings for the given lengths:
// index 0 is the nil slice, index 1 the empty non-nil slice (both length 0,
// distinct Go values), then one seed-derived string per positive length.
func byteStrings(seed int64, name string, lengths []int) []named {
	ls := append([]int{}, lengths...)
	sort.Ints(ls)
	out := []named{{nil, "nil"}, {[]byte{}, "empty"}}
	last := 0
	for _, n := range ls {
		if n <= 0 || n == last {
			continue
		}
		last = n
		out = append(out, named{mc.Bytes(seed, name, n, n), fmt.Sprintf("%s[%d]", name, n)})
	}
	return out
}

func rangeInts(lo, hi int) []int {
	var out []int
	for i := lo; i <= hi; i++ {
		out = append(out, i)
	}
	return out
}

func dedupInts(in []int) []int {
	s := append([]int{}, in...)
	sort.Ints(s)
	var out []int
	for i, v := range s {
		if i == 0 || v != s[i-1] {
			out = append(out, v)
		}
	}
	return out
}

func short(b []byte) string {
	if len(b) <= 40 {
		return fmt.Sprintf("%x", b)
	}
	return fmt.Sprintf("%x..(%d bytes)", b[:32], len(b))
}

func bigHex(v *big.Int) string { return v.Text(16) }

// dstLengths: both sides of the 255/256 oversize threshold, empty, short, long.
func dstLengths(c *mc.Ctx) []int {
	l := []int{1, 16, 254, 255, 256, 257, 1000}
	if c.Thorough {
		l = append(l, 2, 15, 17, 32, 43, 64, 127, 128, 129, 253, 258, 300, 511, 512, 4096)
	}
	return dedupInts(l)
}

func run(c *mc.Ctx) {
	dsts := byteStrings(c.Seed, "dst", dstLengths(c))
	c.Rep.Extra["dst_alphabet"] = len(dsts)
	_ = alph.Lengths
	_ = ref.P

	timing := map[string]float64{}
	timed := func(name string, f func()) {
		t := time.Now()
		f()
		timing[name] = float64(time.Since(t).Milliseconds()) / 1000
	}
	// The call-history sub-space runs first, in a fresh process and on one goroutine, so its verdict is a
	// function of the library alone.  If it finds that results depend on earlier calls (state kept between
	// calls), the verdicts of the concurrent sub-spaces below would depend on goroutine scheduling (which call
	// of which worker came last), i.e. they would not be reproducible: they are not run, the run is reported as
	// capped, and the (replayable) history violations stand on their own.
	timed("history", func() { runHistory(c) })
	if c.Rep.NViolations > 0 && !c.Replaying() {
		c.Cap("call-history violations found: the package keeps state between calls, the concurrent sub-spaces were not run (their verdicts would depend on scheduling)")
		c.Rep.Extra["wall_s_by_group"] = timing
		return
	}
	timed("xmd", func() { runXMD(c, dsts) })
	timed("xof", func() { runXOF(c, dsts) })
	timed("ell2", func() { runEll2(c) })
	timed("uniform", func() { runUniform(c) })
	// the DST/message framing is enumerated in xmd/xof; the suites get the core DST alphabet in both tiers
	timed("suite", func() { runSuites(c, byteStrings(c.Seed, "dst", []int{1, 16, 254, 255, 256, 257, 1000})) })
	timed("sweep", func() { runSweeps(c) })
	timed("memory", func() { runMemory(c) })
	timed("overlap", func() { runOverlap(c) })
	timed("xof-template", func() { runXOFTemplate(c) })
	timed("returned-point", func() { runReturnedPoints(c) })
	c.Rep.Extra["wall_s_by_group"] = timing // informational only; no verdict depends on it

	// Which exceptional inputs exist at all is a fact about the curve constants, established on the reference side:
	// 1 + Z*u^2 = 0 needs -1/2 to be a square, the rational map's s = -1 needs g(-1) = A - 2 to be a square.
	// Both are non-squares for curve25519, so the only exceptional input of the whole pipeline is u = 0 (t = 0);
	// were either a square, fieldAlphabet would contain the roots (they are in its target lists).
	c.Rep.Extra["exceptional_inputs"] = map[string]bool{
		"exists u with 1+Z*u^2=0 (step 2 of 6.7.1)":   ref.FIsSquare(ref.FDiv(ref.FNeg(big.NewInt(1)), big.NewInt(2))),
		"exists u mapped to s=-1 (rational map pole)": ref.FIsSquare(big.NewInt(486660)),
		"u=0 maps to t=0 (rational map pole)":         true,
	}

	// Vacuity guards (reference-side classes only).
	for _, cl := range []string{
		"xmd/ok/one-block", "xmd/ok/partial-last-block", "xmd/ok/whole-blocks", "xmd/ok/partial-last-block/oversize-dst", "xmd/ok/ell=255",
		"xmd/abort/ell>255", "xmd/abort/len>65535", "xmd/refused/len=0", "xmd/refused/digest<32",
		"xof/ok", "xof/ok/oversize-dst", "xof/ok/len=65535", "xof/abort/len>65535", "xof/refused/len=0",
		"ell2/gx1-square", "ell2/gx1-nonsquare", "ell2/exceptional-t=0", "ell2/small-order-image",
		"uniform-nu/reduced(>=p)", "uniform-nu/identity", "uniform-ro/Q0=Q1", "uniform-ro/Q0=-Q1", "uniform-ro/generic",
		"suite/edwards-ro", "suite/edwards-nu", "suite/ristretto", "suite/refused",
		"memory/expand", "memory/suite",
		"overlap/out-msg", "overlap/out-dst", "overlap/out-dst/xmd-ell=1", "overlap/out-dst/xmd-oversize-dst", "overlap/out-msg-dst", "overlap/msg-dst", "overlap/suite/msg-dst",
		"overlap/excluded(xmd,ell>=2,out-overlaps-short-dst)", "xof-template/fresh", "xof-template/absorbing", "xof-template/squeezing", "returned-point",
		"history/same-dst-other-function", "history/same-dst-other-function/oversize-dst", "history/same-function-other-dst", "history/same-function-other-length", "history/same-function-other-message",
	} {
		c.Require(cl, 1)
	}
}

// harnessErr marks a failure of the harness or of the reference model (never of the library):
// it is reported as a broken check (exit 2), not as a violation.
type harnessErr string

// par is c.Par with the callback guarded: a harnessErr becomes a broken check, any other panic
// (i.e. one raised by the library under test) becomes a violation with key "panic" - also when a
// single case is replayed, where the engine itself does not recover.
func par(c *mc.Ctx, sub string, n int, f func(w *mc.W, i int)) {
	c.Par(sub, n, func(w *mc.W, i int) {
		defer func() {
			if r := recover(); r != nil {
				if he, ok := r.(harnessErr); ok {
					c.Broken(fmt.Sprintf("%s:%d: %s", sub, i, string(he)))
					return
				}
				buf := make([]byte, 4096)
				m := runtime.Stack(buf, false)
				w.Fail("panic", fmt.Sprintf("unexpected panic in case: %v\n%s", r, buf[:m]), nil)
			}
		}()
		f(w, i)
	})
}
