package main

import (
	"fmt"
	"strings"

	"github.com/oasisprotocol/curve25519-voi/internal/verif/mc"
)

// Complete length sweeps.
//
// The length alphabets of the other sub-spaces are placed at the seams that are
// visible in the code (hash block size, digest size, 255/256).  A seam at an
// arbitrary single total length - e.g. a fixed-size scratch buffer for msg_prime
// whose "does it fit" test is off by one - lies at a (message length, DST length)
// pair that no such alphabet contains.  These sub-spaces therefore enumerate
// EVERY message length of a contiguous range, crossed with a DST-length alphabet
// that contains the short, ECVRF (40), RFC-vector (43), mid, block-sized and
// 254..257 tags, so that every total length of msg_prime in the range occurs for
// several tags.  Cases are microsecond-scale.

func sweepMax(c *mc.Ctx) int { return c.Pick(400, 1100) }

var sweepDSTLengths = []int{0, 1, 16, 40, 43, 100, 127, 128, 200, 254, 255, 256, 257}

func sweepDSTs(c *mc.Ctx) []named {
	var out []named
	for _, n := range sweepDSTLengths {
		b := []byte{}
		if n > 0 {
			b = mc.Bytes(c.Seed, "dst", n, n)
		}
		out = append(out, named{b, fmt.Sprintf("dst[%d]", n)})
	}
	return out
}

// sweepMsgs returns one message per length 0..max (independent buffers, cap == len).
func sweepMsgs(c *mc.Ctx, max int) []named {
	src := mc.Bytes(c.Seed, "sweep-msg", 0, max)
	out := make([]named, max+1)
	for n := 0; n <= max; n++ {
		b := make([]byte, n)
		copy(b, src[:n])
		out[n] = named{b, fmt.Sprintf("msg[%d]", n)}
	}
	return out
}

func runSweeps(c *mc.Ctx) {
	max := sweepMax(c)
	dsts := sweepDSTs(c)
	msgs := sweepMsgs(c, max)
	c.Rep.Extra["sweep"] = map[string]interface{}{"message_lengths": fmt.Sprintf("0..%d (every length)", max), "dst_lengths": sweepDSTLengths}

	// expand_message_xmd: every accepted hash, output lengths of the suites (48: NU, 64: ristretto255, 96: RO)
	outs := []int{48, 64, 96}
	for _, hd := range hashDefs {
		hd := hd
		if hd.spec.B < minDigest {
			continue
		}
		p := mc.Product{Radix: []int{len(dsts), len(msgs), len(outs)}}
		par(c, "xmd-sweep/"+hd.spec.Name, p.Size(), func(w *mc.W, i int) {
			var d [3]int
			p.Decode(i, d[:])
			xmdCase(w, hd, dsts[d[0]], msgs[d[1]], outs[d[2]])
		})
	}
	for _, x := range xofDefs {
		x := x
		p := mc.Product{Radix: []int{len(dsts), len(msgs), len(outs)}}
		par(c, "xof-sweep/"+x.spec.Name, p.Size(), func(w *mc.W, i int) {
			var d [3]int
			p.Decode(i, d[:])
			xofCase(w, x, 0, dsts[d[0]], msgs[d[1]], outs[d[2]])
		})
	}

	// the suite functions over every message length, with the DST ECVRF uses (40 bytes) and the RFC's J.5 tag (52 bytes)
	suiteDSTs := []named{
		{append([]byte("ECVRF_edwards25519_XMD:SHA-512_ELL2_NU_"), 0x04), "dst=ECVRF"}, // RFC 9381 5.5: "ECVRF_" || h2c_suite_ID_string || suite_string
		{[]byte("QUUX-V01-CS02-with-edwards25519_XMD:SHA-512_ELL2_NU_"), "dst=QUUX-NU"},
	}
	smax := c.Pick(300, 600)
	wanted := []string{"Edwards25519_XMD_SHA512_ELL2_NU", "Edwards25519_XMD_SHA512_ELL2_RO", "Edwards25519_XMD_ELL2_NU(SHA-256)",
		"Ristretto255_XMD_R255MAP_RO(SHA-512)", "Edwards25519_XOF_ELL2_NU(SHAKE128)"}
	for _, f := range suiteFns() {
		f := f
		keep := false
		for _, n := range wanted {
			keep = keep || n == f.name
		}
		if !keep {
			continue
		}
		p := mc.Product{Radix: []int{len(suiteDSTs), smax + 1}}
		par(c, "suite-sweep/"+strings.ReplaceAll(f.name, ":", "_"), p.Size(), func(w *mc.W, i int) {
			var d [2]int
			p.Decode(i, d[:])
			// the expensive [L]P = O predicate on every 8th length (equality with the reference point is checked on all)
			suiteCase(w, f, suiteDSTs[d[0]], msgs[d[1]], d[1]%8 == 0, false)
		})
	}
}
