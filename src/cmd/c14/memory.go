package main

import (
	"bytes"
	"fmt"

	"github.com/oasisprotocol/curve25519-voi/internal/verif/mc"
)

// Caller-memory oracle (the C15 construction, for the h2c entry points).
//
// The property quantifies over every DST and message *value*; a Go caller passes them as slices,
// which are routinely sub-slices of one larger buffer (wire[:k] is the tag, wire[k:] the message).
// Every entry point must be a function of the argument values only and must write nothing but
// `out`: neither into DST or message nor into the spare capacity behind them.  All other
// sub-spaces pass slices with cap == len, where an `append(DST, ...)` inside the library is
// invisible.
//
// Every byte-slice argument (DST, message, and for the expanders the output buffer) is placed in
// an arena  guard | part | gap | part | ... | guard  and handed over as buf[off:off+n] (capacity up
// to the end of the arena): every ordering of the arguments in ONE buffer with gap 0 (the next
// argument is the spare capacity of the previous one: DST||msg, msg||DST, ...) and gap 1
// (DST||tag||msg), each argument alone in front of a guard region with the others tight, and all
// arguments in arenas of their own.  `out` never overlaps an input.  After the call the result
// must equal the reference, the output region must hold exactly the reference output, and every
// other byte of every arena must be unchanged.

type mpart struct {
	name  string
	data  []byte
	isOut bool
}

type mregion struct {
	name   string
	off, n int
	isOut  bool
}

type marena struct {
	buf, snap []byte
	regions   []mregion
	desc      string
}

func guardByte(i int) byte { return byte(0xa7 ^ (i * 29)) }

func newMArena(parts []mpart, gap, tail int) (*marena, [][]byte) {
	a := &marena{}
	total := 16 + tail
	for _, p := range parts {
		total += len(p.data) + gap
		a.desc += p.name + "|"
	}
	a.desc += fmt.Sprintf("gap=%d", gap)
	a.buf = make([]byte, total)
	for i := range a.buf {
		a.buf[i] = guardByte(i)
	}
	off := 16
	out := make([][]byte, len(parts))
	for i, p := range parts {
		copy(a.buf[off:], p.data)
		out[i] = a.buf[off : off+len(p.data)]
		a.regions = append(a.regions, mregion{p.name, off, len(p.data), p.isOut})
		off += len(p.data) + gap
	}
	a.snap = append([]byte{}, a.buf...)
	return a, out
}

// expectOut records what the output region must contain after the call.
func (a *marena) expectOut(want []byte) {
	for _, r := range a.regions {
		if r.isOut {
			copy(a.snap[r.off:r.off+r.n], want)
		}
	}
}

// diff reports the first byte that differs from the expectation; inOut says it lies in the output region.
func (a *marena) diff() (changed, inOut bool, what string) {
	if bytes.Equal(a.buf, a.snap) {
		return false, false, ""
	}
	for i := range a.buf {
		if a.buf[i] == a.snap[i] {
			continue
		}
		where := "guard region in front of the arguments"
		for _, r := range a.regions {
			if i >= r.off && i < r.off+r.n {
				where = fmt.Sprintf("argument %s at byte %d", r.name, i-r.off)
				inOut = r.isOut
				break
			}
			if i >= r.off+r.n {
				where = fmt.Sprintf("guard region, %d byte(s) behind the end of argument %s", i-r.off-r.n+1, r.name)
			}
		}
		n := 0
		for j := range a.buf {
			if a.buf[j] != a.snap[j] {
				n++
			}
		}
		return true, inOut, fmt.Sprintf("%d byte(s) differ, first at arena offset %d (%s): expected %02x, found %02x", n, i, where, a.snap[i], a.buf[i])
	}
	return false, false, ""
}

func tightCopy(b []byte) []byte {
	t := make([]byte, len(b))
	copy(t, b)
	return t[:len(b):len(b)]
}

func mperms(n int) [][]int {
	if n == 1 {
		return [][]int{{0}}
	}
	var out [][]int
	for _, p := range mperms(n - 1) {
		for pos := 0; pos <= len(p); pos++ {
			q := append(append(append([]int{}, p[:pos]...), n-1), p[pos:]...)
			out = append(out, q)
		}
	}
	return out
}

// mlayouts enumerates the arenas for the arguments and calls f with the placed slices (in the order of parts).
func mlayouts(parts []mpart, tail int, f func(desc string, placed [][]byte, arenas []*marena)) {
	for _, order := range mperms(len(parts)) {
		for gap := 0; gap <= 1; gap++ {
			ps := make([]mpart, len(parts))
			for i, o := range order {
				ps[i] = parts[o]
			}
			a, sl := newMArena(ps, gap, tail)
			placed := make([][]byte, len(parts))
			for i, o := range order {
				placed[o] = sl[i]
			}
			f("one-buffer:"+a.desc, placed, []*marena{a})
		}
	}
	for i := range parts {
		placed := make([][]byte, len(parts))
		var as []*marena
		for j := range parts {
			if j == i {
				continue
			}
			if parts[j].isOut { // the output buffer always sits between guards
				a, sl := newMArena([]mpart{parts[j]}, 0, 16)
				placed[j] = sl[0][:len(sl[0]):len(sl[0])]
				as = append(as, a)
			} else {
				placed[j] = tightCopy(parts[j].data)
			}
		}
		a, sl := newMArena([]mpart{parts[i]}, 0, tail)
		placed[i] = sl[0]
		f("spare-capacity:"+parts[i].name, placed, append(as, a))
	}
	placed := make([][]byte, len(parts))
	var as []*marena
	for i := range parts {
		a, sl := newMArena([]mpart{parts[i]}, 0, tail)
		placed[i] = sl[0]
		as = append(as, a)
	}
	f("spare-capacity:all", placed, as)
}

func runMemory(c *mc.Ctx) {
	ops := allOps()
	dstLens := []int{0, 1, 16, 40, 254, 255, 256, 257, 1000}
	msgLens := []int{0, 1, 33, 64, 129}
	outLens := []int{32, 48, 97}
	if c.Thorough {
		dstLens = []int{0, 1, 2, 16, 40, 43, 100, 127, 128, 200, 253, 254, 255, 256, 257, 300, 1000}
		msgLens = []int{0, 1, 2, 31, 32, 33, 63, 64, 65, 127, 128, 129, 255, 256, 300}
		outLens = []int{1, 32, 48, 64, 96, 97, 200}
	}
	mk := func(name string, n int) []byte {
		if n == 0 {
			return []byte{}
		}
		return mc.Bytes(c.Seed, name, n, n)
	}
	total := 0
	// One enumeration per function, one function at a time: anything the package might remember between
	// calls is then exercised by a single function here (call histories across functions are the business
	// of the single-goroutine `history` sub-space, where they are reproducible).
	for oi, o := range ops {
		oi, o := oi, o
		var cases []mcase
		for _, d := range dstLens {
			for _, m := range msgLens {
				if o.expand {
					for _, n := range outLens {
						cases = append(cases, mcase{oi, d, m, n})
					}
				} else {
					cases = append(cases, mcase{oi, d, m, 0})
				}
			}
		}
		total += len(cases)
		memoryOp(c, o, cases, mk)
	}
	c.Rep.Extra["memory_cases"] = total
}

type mcase struct {
	op, dst, msg, n int
}

func memoryOp(c *mc.Ctx, o op, cases []mcase, mk func(string, int) []byte) {
	par(c, "memory/"+o.name, len(cases), func(w *mc.W, i int) {
		mcs := cases[i]
		dst, msg := mk("dst", mcs.dst), mk("msg", mcs.msg)
		want := o.want(dst, msg, mcs.n)
		parts := []mpart{{name: "DST", data: dst}, {name: "msg", data: msg}}
		if o.expand {
			parts = append(parts, mpart{name: "out", data: fill(mcs.n, 0xa5), isOut: true})
		}
		cas := func(layout string) map[string]string {
			return map[string]string{"function": o.name, "dst": fmt.Sprintf("%x", dst), "msg": fmt.Sprintf("%x", msg), "len_in_bytes": fmt.Sprint(mcs.n), "layout": layout}
		}
		class := "memory/suite"
		if o.expand {
			class = "memory/expand"
		}
		mlayouts(parts, len(dst)+96, func(desc string, pl [][]byte, as []*marena) {
			w.Eval(class, true)
			var out []byte
			if o.expand {
				out = pl[2]
			}
			got, err := o.call(out, pl[0], pl[1])
			if err != nil || !bytes.Equal(got, want) {
				w.Fail("h2c."+o.name+"/layout-dependent-result", fmt.Sprintf("dst[%d] msg[%d] len=%d, layout %s: got (%s, %v), the reference (and the same call on tight copies) gives %s", len(dst), len(msg), mcs.n, desc, short(got), err, short(want)), cas(desc))
			}
			for _, a := range as {
				a.expectOut(want)
				if ch, inOut, what := a.diff(); ch && !inOut {
					w.Fail("h2c."+o.name+"/caller-memory", fmt.Sprintf("dst[%d] msg[%d] len=%d, layout %s: the call modified the caller's memory: %s", len(dst), len(msg), mcs.n, desc, what), cas(desc))
				} else if ch && err == nil && bytes.Equal(got, want) {
					w.Fail("h2c."+o.name+"/layout-dependent-result", fmt.Sprintf("dst[%d] msg[%d] len=%d, layout %s: output buffer: %s", len(dst), len(msg), mcs.n, desc, what), cas(desc))
				}
			}
		})
		if i%211 == 0 {
			w.Sample(map[string]string{"op": "caller-memory layouts", "function": o.name, "dst": fmt.Sprint(len(dst)), "msg": fmt.Sprint(len(msg)), "len_in_bytes": fmt.Sprint(mcs.n)})
		}
	})
}
