package main

import (
	"bytes"
	"crypto"
	_ "crypto/md5"
	_ "crypto/sha1"
	_ "crypto/sha256"
	_ "crypto/sha512"
	"fmt"

	_ "golang.org/x/crypto/blake2b"
	"golang.org/x/crypto/sha3"

	"github.com/oasisprotocol/curve25519-voi/internal/verif/alph"
	"github.com/oasisprotocol/curve25519-voi/internal/verif/mc"
	"github.com/oasisprotocol/curve25519-voi/internal/verif/ref/refh2c"
	"github.com/oasisprotocol/curve25519-voi/primitives/h2c"
)

type hashDef struct {
	ch   crypto.Hash
	spec refh2c.Hash
}

// Digest sizes below (28, 20, 16 bytes), at (32) and above (48, 64) the 2k/8 = 32-byte bound;
// block sizes 64, 72, 104, 128, 136, 144.
var hashDefs = []hashDef{
	{crypto.SHA224, refh2c.SHA224},
	{crypto.SHA256, refh2c.SHA256},
	{crypto.SHA384, refh2c.SHA384},
	{crypto.SHA512, refh2c.SHA512},
	{crypto.SHA512_256, refh2c.SHA512_256},
	{crypto.SHA3_256, refh2c.SHA3_256},
	{crypto.SHA3_384, refh2c.SHA3_384},
	{crypto.SHA3_512, refh2c.SHA3_512},
	{crypto.BLAKE2b_256, refh2c.BLAKE2b256},
	{crypto.BLAKE2b_512, refh2c.BLAKE2b512},
	{crypto.SHA512_224, refh2c.SHA512_224},
	{crypto.SHA3_224, refh2c.SHA3_224},
	{crypto.SHA1, refh2c.SHA1},
	{crypto.MD5, refh2c.MD5},
}

// minDigest is the refusal the library documents in ExpandMessageXMD
// ("b_in_bytes insufficiently large": b < 2k/8 with k = 128), which is RFC 9380's
// requirement on H for expand_message_xmd (section 5.3.1: b >= 2k).
const minDigest = 2 * refh2c.K / 8

// msgLengths: the shared SHA-512 padding seams plus every length around the
// block size s of the hash in use (the first compression after Z_pad holds
// msg || l_i_b_str || 0 || DST_prime, so the padding seam moves with DST and message length).
func msgLengths(c *mc.Ctx, s int, full bool) []int {
	l := append([]int{}, alph.Lengths...)
	if full {
		if c.Thorough {
			l = append(l, rangeInts(1, s+8)...)
			l = append(l, rangeInts(2*s-2, 2*s+2)...)
		} else {
			l = append(l, rangeInts(s-24, s+2)...)
			l = append(l, 2*s-1, 2*s, 2*s+1)
		}
	}
	return dedupInts(l)
}

func xmdOutLengths(c *mc.Ctx, b int) (small, large []int) {
	small = append([]int{0}, rangeInts(1, 3*b+1)...)
	large = []int{255*b - 1, 255 * b, 255*b + 1, 65535, 65536}
	if c.Thorough {
		for _, k := range []int{4, 5, 8, 16, 32, 64, 128, 200, 254} {
			large = append(large, k*b-1, k*b, k*b+1)
		}
		large = append(large, 65534, 65537, 70000, 131072)
	}
	return dedupInts(small), dedupInts(large)
}

// callXMD hands the library a buffer pre-filled with 0xa5 (or, for length 0, alternately nil and empty).
func callXMD(ch crypto.Hash, dst, msg []byte, n int, nilOut bool) (out []byte, err error) {
	if !(n == 0 && nilOut) {
		out = fill(n, 0xa5)
	}
	err = h2c.ExpandMessageXMD(out, ch, dst, msg)
	return out, err
}

func xmdCase(w *mc.W, hd hashDef, dst, msg named, n int) {
	want, rerr := refh2c.ExpandMessageXMD(hd.spec, msg.b, dst.b, n)
	b := hd.spec.B
	ell := (n + b - 1) / b
	over := ""
	if len(dst.b) > 255 {
		over = "/oversize-dst"
	}
	var class string
	expectErr := true
	switch {
	case b < minDigest:
		class = "xmd/refused/digest<32"
	case n == 0:
		class = "xmd/refused/len=0"
	case rerr != nil && n > 65535:
		class = "xmd/abort/len>65535"
	case rerr != nil:
		class = "xmd/abort/ell>255"
	default:
		expectErr = false
		switch {
		case ell == 255:
			class = "xmd/ok/ell=255"
		case ell == 1:
			class = "xmd/ok/one-block"
		case n%b != 0:
			class = "xmd/ok/partial-last-block"
		default:
			class = "xmd/ok/whole-blocks"
		}
		class += over
	}
	// non-trivial: every abort/refusal, every output that is not exactly one digest, every over-long DST
	w.Eval(class, expectErr || n != b || over != "")
	cas := func() interface{} {
		return map[string]string{"hash": hd.spec.Name, "dst": fmt.Sprintf("%x", dst.b), "dst_desc": dst.desc, "msg": fmt.Sprintf("%x", msg.b), "msg_desc": msg.desc, "len_in_bytes": fmt.Sprint(n)}
	}
	got, err := callXMD(hd.ch, dst.b, msg.b, n, w.Idx()%2 == 0)
	switch {
	case expectErr && err == nil:
		w.Fail("ExpandMessageXMD/missing-error", fmt.Sprintf("%s len_in_bytes=%d dst=%s msg=%s: expected an error (%s), got output %s", hd.spec.Name, n, dst.desc, msg.desc, class, short(got)), cas())
	case !expectErr && err != nil:
		w.Fail("ExpandMessageXMD/spurious-error", fmt.Sprintf("%s len_in_bytes=%d dst=%s msg=%s: RFC 9380 defines an output, got error %v", hd.spec.Name, n, dst.desc, msg.desc, err), cas())
	case !expectErr && !bytes.Equal(got, want):
		w.Fail("ExpandMessageXMD/output", fmt.Sprintf("%s len_in_bytes=%d (ell=%d) dst=%s msg=%s: got %s want %s", hd.spec.Name, n, ell, dst.desc, msg.desc, short(got), short(want)), cas())
	}
	if w.Idx()%5003 == 0 {
		w.Sample(map[string]string{"op": "ExpandMessageXMD", "hash": hd.spec.Name, "dst": dst.desc, "msg": msg.desc, "len_in_bytes": fmt.Sprint(n), "class": class})
	}
}

func runXMD(c *mc.Ctx, dsts []named) {
	sizes := map[string]interface{}{}
	for _, hd := range hashDefs {
		hd := hd
		small, large := xmdOutLengths(c, hd.spec.B)
		msgsFull := byteStrings(c.Seed, "msg", msgLengths(c, hd.spec.S, true))
		msgsCore := byteStrings(c.Seed, "msg", msgLengths(c, hd.spec.S, false))
		if hd.spec.B < minDigest {
			// every case is the same refusal: keep the grid but on the core messages
			msgsFull = msgsCore
		}
		sizes[hd.spec.Name] = map[string]int{"msgs_full": len(msgsFull), "msgs_core": len(msgsCore), "out_small": len(small), "out_large": len(large)}
		p := mc.Product{Radix: []int{len(dsts), len(msgsFull), len(small)}}
		par(c, "xmd-small/"+hd.spec.Name, p.Size(), func(w *mc.W, i int) {
			var d [3]int
			p.Decode(i, d[:])
			xmdCase(w, hd, dsts[d[0]], msgsFull[d[1]], small[d[2]])
		})
		q := mc.Product{Radix: []int{len(dsts), len(msgsCore), len(large)}}
		par(c, "xmd-large/"+hd.spec.Name, q.Size(), func(w *mc.W, i int) {
			var d [3]int
			q.Decode(i, d[:])
			xmdCase(w, hd, dsts[d[0]], msgsCore[d[1]], large[d[2]])
		})
	}
	c.Rep.Extra["xmd_alphabets"] = sizes
}

// ---------------------------------------------------------------------------

type xofDef struct {
	mk   func() sha3.ShakeHash
	spec refh2c.XOF
}

var xofDefs = []xofDef{
	{sha3.NewShake128, refh2c.SHAKE128},
	{sha3.NewShake256, refh2c.SHAKE256},
}

// xofInstance returns the XOF object handed to the library in one of two
// states: fresh, or after absorbing unrelated data.  The library documents
// that it works on a fresh (Clone + Reset) instance, so the state must not matter.
//
// A third state, "after squeezing", is deliberately not part of the alphabet:
// x/crypto@v0.0.0-20220321153916 (the version pinned by go.mod) panics in
// sha3.(*state).clone for a squeezing SHAKE256 object (slice bounds [-23:]),
// i.e. before the library's own code runs; this is an upstream defect outside
// the repository and outside the property's quantifier (see notes/C14.md).
func xofInstance(x xofDef, state int) sha3.ShakeHash {
	s := x.mk()
	if state == 1 {
		s.Write([]byte("unrelated data absorbed earlier"))
	}
	return s
}

var xofStates = []string{"fresh", "absorbing"}

func xofOutLengths(c *mc.Ctx, rate int) (small, large []int) {
	small = append([]int{0}, rangeInts(1, 2*rate+2)...)
	large = []int{65534, 65535, 65536}
	if c.Thorough {
		large = append(large, 3*rate-1, 3*rate, 3*rate+1, 4096, 32768, 65537, 70000, 131072)
	}
	return dedupInts(small), dedupInts(large)
}

func xofCase(w *mc.W, x xofDef, state int, dst, msg named, n int) {
	// k = 128: the library fixes the target security level of all its suites (constant `kay`),
	// so an over-long DST is replaced by ceil(2k/8) = 32 XOF bytes for both SHAKE128 and SHAKE256.
	want, rerr := refh2c.ExpandMessageXOF(x.spec, refh2c.K, msg.b, dst.b, n)
	over := ""
	if len(dst.b) > 255 {
		over = "/oversize-dst"
	}
	var class string
	expectErr := true
	switch {
	case n == 0:
		class = "xof/refused/len=0"
	case rerr != nil:
		class = "xof/abort/len>65535"
	case n == 65535:
		expectErr = false
		class = "xof/ok/len=65535"
	default:
		expectErr = false
		class = "xof/ok" + over
	}
	w.Eval(class, expectErr || over != "" || state != 0 || n > x.spec.Rate || len(msg.b)+len(dst.b)+3 >= x.spec.Rate)
	cas := func() interface{} {
		return map[string]string{"xof": x.spec.Name, "instance": xofStates[state], "dst": fmt.Sprintf("%x", dst.b), "dst_desc": dst.desc, "msg": fmt.Sprintf("%x", msg.b), "msg_desc": msg.desc, "len_in_bytes": fmt.Sprint(n)}
	}
	var got []byte
	if !(n == 0 && w.Idx()%2 == 0) {
		got = fill(n, 0xa5)
	}
	err := h2c.ExpandMessageXOF(got, xofInstance(x, state), dst.b, msg.b)
	switch {
	case expectErr && err == nil:
		w.Fail("ExpandMessageXOF/missing-error", fmt.Sprintf("%s len_in_bytes=%d dst=%s msg=%s: expected an error (%s), got output %s", x.spec.Name, n, dst.desc, msg.desc, class, short(got)), cas())
	case !expectErr && err != nil:
		w.Fail("ExpandMessageXOF/spurious-error", fmt.Sprintf("%s len_in_bytes=%d dst=%s msg=%s: RFC 9380 defines an output, got error %v", x.spec.Name, n, dst.desc, msg.desc, err), cas())
	case !expectErr && !bytes.Equal(got, want):
		w.Fail("ExpandMessageXOF/output", fmt.Sprintf("%s (%s instance) len_in_bytes=%d dst=%s msg=%s: got %s want %s", x.spec.Name, xofStates[state], n, dst.desc, msg.desc, short(got), short(want)), cas())
	}
	if w.Idx()%5003 == 0 {
		w.Sample(map[string]string{"op": "ExpandMessageXOF", "xof": x.spec.Name, "instance": xofStates[state], "dst": dst.desc, "msg": msg.desc, "len_in_bytes": fmt.Sprint(n), "class": class})
	}
}

func runXOF(c *mc.Ctx, dsts []named) {
	sizes := map[string]interface{}{}
	for _, x := range xofDefs {
		x := x
		small, large := xofOutLengths(c, x.spec.Rate)
		msgsFull := byteStrings(c.Seed, "msg", msgLengths(c, x.spec.Rate, true))
		msgsCore := byteStrings(c.Seed, "msg", msgLengths(c, x.spec.Rate, false))
		sizes[x.spec.Name] = map[string]int{"msgs_full": len(msgsFull), "msgs_core": len(msgsCore), "out_small": len(small), "out_large": len(large)}
		p := mc.Product{Radix: []int{len(xofStates), len(dsts), len(msgsFull), len(small)}}
		par(c, "xof-small/"+x.spec.Name, p.Size(), func(w *mc.W, i int) {
			var d [4]int
			p.Decode(i, d[:])
			xofCase(w, x, d[0], dsts[d[1]], msgsFull[d[2]], small[d[3]])
		})
		q := mc.Product{Radix: []int{len(xofStates), len(dsts), len(msgsCore), len(large)}}
		par(c, "xof-large/"+x.spec.Name, q.Size(), func(w *mc.W, i int) {
			var d [4]int
			q.Decode(i, d[:])
			xofCase(w, x, d[0], dsts[d[1]], msgsCore[d[2]], large[d[3]])
		})
	}
	c.Rep.Extra["xof_alphabets"] = sizes
}
