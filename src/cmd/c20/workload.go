package main

import (
	"bytes"
	"crypto"
	_ "crypto/sha256"
	_ "crypto/sha512"
	"fmt"
	"math/big"

	"github.com/oasisprotocol/curve25519-voi/curve"
	"github.com/oasisprotocol/curve25519-voi/curve/scalar"
	"github.com/oasisprotocol/curve25519-voi/internal/elligator"
	"github.com/oasisprotocol/curve25519-voi/internal/field"
	"github.com/oasisprotocol/curve25519-voi/internal/verif/mc"
	"github.com/oasisprotocol/curve25519-voi/internal/verif/ref"
	"github.com/oasisprotocol/curve25519-voi/primitives/ed25519"
	"github.com/oasisprotocol/curve25519-voi/primitives/ed25519/extra/ecvrf"
	"github.com/oasisprotocol/curve25519-voi/primitives/h2c"
	"github.com/oasisprotocol/curve25519-voi/primitives/sr25519"
	"github.com/oasisprotocol/curve25519-voi/primitives/x25519"
)

// The constants must not only be right at start-up, they must STAY right: a routine that works in place on a
// package-level value (a constant used as scratch or as a receiver, a table entry negated in place for a negative
// digit and not restored, a pointer to a package value handed out and then written through) breaks every later call.
//
// workload calls every routine that takes the constants and tables as operands - the constants themselves as
// operands of every field / scalar / point method (and as receivers of the methods that only read their receiver),
// every fixed-, double-, triple-base and multiscalar multiplication whose tables are constants with scalars whose
// recodings contain negative digits at every table index, every encoder / decoder / map that multiplies by a curve
// constant, and the protocols on top - and then writes through every pointer or slice the library handed out (T11).
// Results are not compared here (C03, C10, C11, ... do that); the complete re-verification of every constant and table
// against its definition runs afterwards (sub-spaces ".../after-use").

// zeroRepeat is an endless deterministic entropy source.
type seqReader struct{ n byte }

func (r *seqReader) Read(p []byte) (int, error) {
	for i := range p {
		r.n = r.n*167 + 13
		p[i] = r.n
	}
	return len(p), nil
}

func workScalars(c *mc.Ctx) []*scalar.Scalar {
	var bs [][]byte
	for _, v := range []*big.Int{big.NewInt(1), big.NewInt(2), big.NewInt(8), new(big.Int).Sub(ref.L, one), new(big.Int).Sub(ref.L, big.NewInt(8)),
		new(big.Int).Lsh(one, 252), new(big.Int).Sub(new(big.Int).Lsh(one, 255), one)} {
		bs = append(bs, ref.LE32(v))
	}
	// all-equal-nibble patterns drive every radix-16 digit to each value of [-8, 8) (0x88.. gives -8 with carry everywhere)
	for _, b := range []byte{0x88, 0x77, 0x99, 0xff, 0xf8, 0x8f, 0xaa, 0x55, 0xcc, 0x33} {
		bs = append(bs, bytes.Repeat([]byte{b}, 32))
	}
	// generic scalars: their width-5 / width-8 NAFs hit the odd-multiple tables at (almost) every index with both signs
	for i := 0; i < 40; i++ {
		bs = append(bs, mc.Bytes(c.Seed, "c20-workload", i, 32))
	}
	var out []*scalar.Scalar
	for _, b := range bs {
		b[31] &= 0x7f
		s, err := scalar.NewFromBits(b)
		if err != nil {
			panic(err)
		}
		out = append(out, s)
	}
	return out
}

func workload(c *mc.Ctx) *space {
	s := &space{name: "workload"}
	scs := workScalars(c)
	B := curve.ED25519_BASEPOINT_POINT
	step := func(name string, f func(w *mc.W)) { s.add("workload", true, f); _ = name }

	// --- 1. every field constant as an operand of every field method, and as the receiver of the read-only methods
	step("field", func(w *mc.W) {
		var ptrs []*field.Element
		for _, sc := range fieldSources() {
			if fe, ok := sc.get(); ok {
				ptrs = append(ptrs, fe)
			}
		}
		var buf [32]byte
		for i, k := range ptrs {
			o := ptrs[(i+1)%len(ptrs)]
			var r, r2 field.Element
			r.Invert(k)
			r.Square(k)
			r.Square2(k)
			r.Pow2k(k, 1)
			r.Pow2k(k, 5)
			r.Mul(k, k)
			r.Mul(k, o)
			r.Mul(o, k)
			r.Add(k, k)
			r.Add(k, o)
			r.Sub(k, k)
			r.Sub(k, o)
			r.Sub(o, k)
			r.Neg(k)
			r.Mul121666(k)
			r.SqrtRatioI(k, o)
			r.SqrtRatioI(o, k)
			r.SqrtRatioI(k, k)
			r.SqrtRatioI(k, &field.One)
			r.SqrtRatioI(&field.One, k)
			r.Set(k)
			r.InvSqrt()
			r.Set(k)
			r.ConditionalNegate(1)
			for ch := 0; ch <= 1; ch++ {
				r.ConditionalSelect(k, o, ch)
				r.ConditionalSelect(o, k, ch)
				r2.Set(o)
				r2.ConditionalAssign(k, ch)
			}
			// choice 0 leaves both sides alone by contract, also when the other side is a constant
			r.ConditionalSwap(k, 0)
			// read-only methods with the constant as receiver
			_ = k.Equal(k)
			_ = k.Equal(o)
			_ = o.Equal(k)
			_ = k.IsZero()
			_ = k.IsNegative()
			_ = k.ToBytes(buf[:])
			cp, cq := *k, *o
			field.BatchInvert([]*field.Element{&cp, &cq})
		}
	})

	// --- 2. the group order as a scalar operand
	step("scalar", func(w *mc.W) {
		L := scalar.BASEPOINT_ORDER
		if L == nil {
			return
		}
		for _, x := range scs[:8] {
			var r scalar.Scalar
			r.Add(L, x)
			r.Add(x, L)
			r.Sub(L, x)
			r.Sub(x, L)
			r.Mul(L, x)
			r.Mul(x, L)
			r.Neg(L)
			r.Reduce(L)
			r.ConditionalSelect(L, x, 1)
			r.ConditionalSelect(x, L, 0)
			r.Sum([]*scalar.Scalar{L, x, L})
			r.Product([]*scalar.Scalar{L, x})
			_ = L.Equal(x)
			_ = L.IsCanonical()
			_ = L.Bits()
			_ = L.ToRadix16()
			_ = L.NonAdjacentForm(5)
			_ = L.ToRadix2w(8)
			var b [32]byte
			_ = L.ToBytes(b[:])
			if mb, err := L.MarshalBinary(); err == nil {
				for i := range mb {
					mb[i] = 0xff // T11: the caller owns what MarshalBinary returned
				}
			}
			_ = scalar.ScMinimalVartime(b[:])
		}
	})

	// --- 3. every point constant as an operand of every point method
	step("points", func(w *mc.W) {
		pts := []*curve.EdwardsPoint{B}
		for _, t := range curve.EIGHT_TORSION {
			pts = append(pts, t)
		}
		if f, ok := curve.VerifC20Reg["pt:constB_SHL_128"].(func() *curve.EdwardsPoint); ok {
			pts = append(pts, f())
		}
		for i, p := range pts {
			if p == nil {
				continue
			}
			q := pts[(i+1)%len(pts)]
			if q == nil {
				q = B
			}
			var r curve.EdwardsPoint
			r.Add(p, q)
			r.Add(p, p)
			r.Sub(p, q)
			r.Sub(q, p)
			r.Neg(p)
			r.MulByCofactor(p)
			r.Sum([]*curve.EdwardsPoint{p, q, p})
			r.ConditionalSelect(p, q, 1)
			r.ConditionalSelect(q, p, 1)
			_ = p.Equal(q)
			_ = p.Equal(p)
			_ = p.IsIdentity()
			_ = p.IsSmallOrder()
			_ = p.IsTorsionFree()
			for _, x := range scs[:12] {
				r.Mul(p, x)
				r.DoubleScalarMulBasepointVartime(x, p, scs[9])
				r.TripleScalarMulBasepointVartime(x, p, scs[9], q)
			}
			r.MultiscalarMul(scs[:3], []*curve.EdwardsPoint{p, q, p})
			r.MultiscalarMulVartime(scs[:3], []*curve.EdwardsPoint{p, q, B})
			var cy curve.CompressedEdwardsY
			cy.SetEdwardsPoint(p)
			_, _ = r.SetCompressedY(&cy)
			if mb, err := p.MarshalBinary(); err == nil {
				for k := range mb {
					mb[k] = 0xff
				}
			}
			var m curve.MontgomeryPoint
			m.SetEdwards(p)
			_, _ = r.SetMontgomery(&m, 0)
			ex := curve.NewExpandedEdwardsPoint(p)
			r.ExpandedDoubleScalarMulBasepointVartime(scs[10], ex, scs[11])
			r.ExpandedTripleScalarMulBasepointVartime(scs[10], ex, scs[11], q)
			r.ExpandedMultiscalarMulVartime(scs[:1], []*curve.ExpandedEdwardsPoint{ex}, scs[1:2], []*curve.EdwardsPoint{q})
			// T11: what Point() hands out belongs to the caller
			if pp := ex.Point(); pp != nil {
				pp.Add(pp, B)
				pp.Identity()
			}
			if i < 2 {
				tbl := curve.NewEdwardsBasepointTable(p)
				r.MulBasepoint(tbl, scs[12])
				if bp := tbl.Basepoint(); bp != nil {
					bp.Identity()
				}
			}
		}
		// the compressed constants as decoder inputs
		var r curve.EdwardsPoint
		if curve.ED25519_BASEPOINT_COMPRESSED != nil {
			_, _ = r.SetCompressedY(curve.ED25519_BASEPOINT_COMPRESSED)
			_ = curve.ED25519_BASEPOINT_COMPRESSED.IsCanonicalVartime()
			if mb, err := curve.ED25519_BASEPOINT_COMPRESSED.MarshalBinary(); err == nil {
				mb[0] ^= 0xff
			}
		}
		var rr curve.RistrettoPoint
		if curve.RISTRETTO_BASEPOINT_COMPRESSED != nil {
			_, _ = rr.SetCompressed(curve.RISTRETTO_BASEPOINT_COMPRESSED)
			if mb, err := curve.RISTRETTO_BASEPOINT_COMPRESSED.MarshalBinary(); err == nil {
				mb[0] ^= 0xff
			}
		}
		if curve.X25519_BASEPOINT != nil {
			var m curve.MontgomeryPoint
			for _, x := range scs[:6] {
				m.Mul(curve.X25519_BASEPOINT, x)
			}
			_ = m.Equal(curve.X25519_BASEPOINT)
		}
	})

	// --- 4. the fixed-base / odd-multiple tables under scalars with negative digits at every index
	step("tables", func(w *mc.W) {
		var p curve.EdwardsPoint
		var r curve.RistrettoPoint
		G := curve.RISTRETTO_BASEPOINT_POINT
		exG := curve.NewExpandedRistrettoPoint(G)
		for i, x := range scs {
			y := scs[(i+7)%len(scs)]
			p.MulBasepoint(curve.ED25519_BASEPOINT_TABLE, x)
			p.DoubleScalarMulBasepointVartime(x, curve.EIGHT_TORSION[1+i%7], y)
			p.TripleScalarMulBasepointVartime(x, B, y, curve.EIGHT_TORSION[1+i%7])
			r.MulBasepoint(curve.RISTRETTO_BASEPOINT_TABLE, x)
			r.Mul(G, x)
			r.DoubleScalarMulBasepointVartime(x, G, y)
			r.TripleScalarMulBasepointVartime(x, G, y, G)
			r.ExpandedDoubleScalarMulBasepointVartime(x, exG, y)
			r.ExpandedTripleScalarMulBasepointVartime(x, exG, y, G)
			r.MultiscalarMul([]*scalar.Scalar{x, y}, []*curve.RistrettoPoint{G, &r})
			r.MultiscalarMulVartime([]*scalar.Scalar{x, y}, []*curve.RistrettoPoint{G, G})
		}
		// T11: the base point handed out by the tables belongs to the caller
		if bp := curve.ED25519_BASEPOINT_TABLE.Basepoint(); bp != nil {
			bp.Add(bp, bp)
			bp.Identity()
		}
		if bp := curve.RISTRETTO_BASEPOINT_TABLE.Basepoint(); bp != nil {
			bp.Add(bp, bp)
			bp.Identity()
		}
		if pp := exG.Point(); pp != nil {
			pp.Identity()
		}
		var a, b curve.RistrettoPoint
		a.Add(G, G)
		b.Sub(G, &a)
		b.Neg(G)
		b.Sum([]*curve.RistrettoPoint{G, &a, G})
		_ = G.Equal(&a)
		_ = a.Equal(G)
		if mb, err := G.MarshalBinary(); err == nil {
			mb[0] ^= 0xff
		}
	})

	// --- 5. encoders, decoders and maps that multiply by the curve constants
	step("maps", func(w *mc.W) {
		var r curve.RistrettoPoint
		var cr curve.CompressedRistretto
		for i := 0; i < 24; i++ {
			u := mc.Bytes(c.Seed, "c20-uniform", i, 64)
			if i == 0 {
				u = make([]byte, 64)
			}
			_, _ = r.SetUniformBytes(u) // one-way map: square and non-square branches
			cr.SetRistrettoPoint(&r)
			var back curve.RistrettoPoint
			_, _ = back.SetCompressed(&cr)
			_ = back.Equal(&r)
			var fe field.Element
			if _, err := fe.SetBytes(u[:32]); err == nil {
				p := elligator.EdwardsFlavor(&fe)
				var cy curve.CompressedEdwardsY
				cy.SetEdwardsPoint(p)
			}
		}
		for _, x := range scs[:16] {
			var p curve.EdwardsPoint
			p.MulBasepoint(curve.ED25519_BASEPOINT_TABLE, x)
			var cy curve.CompressedEdwardsY
			cy.SetEdwardsPoint(&p)
			_, _ = p.SetCompressedY(&cy)
			var m curve.MontgomeryPoint
			m.SetEdwards(&p)
			_, _ = p.SetMontgomery(&m, 1)
			var rp curve.RistrettoPoint
			rp.MulBasepoint(curve.RISTRETTO_BASEPOINT_TABLE, x)
			cr.SetRistrettoPoint(&rp)
			_, _ = rp.SetCompressed(&cr)
		}
	})

	// --- 6. the protocols on top
	step("ed25519", func(w *mc.W) {
		rng := &seqReader{}
		msg := []byte("C20 workload")
		var sigs [][]byte
		var pubs []ed25519.PublicKey
		for i := 0; i < 4; i++ {
			priv := ed25519.NewKeyFromSeed(mc.Bytes(c.Seed, "c20-seed", i, 32))
			pub := priv.Public().(ed25519.PublicKey)
			sig := ed25519.Sign(priv, msg)
			pubs, sigs = append(pubs, pub), append(sigs, sig)
			_ = ed25519.Verify(pub, msg, sig)
			for _, vo := range []*ed25519.VerifyOptions{nil, ed25519.VerifyOptionsDefault, ed25519.VerifyOptionsStdLib, ed25519.VerifyOptionsFIPS_186_5, ed25519.VerifyOptionsZIP_215} {
				_ = ed25519.VerifyWithOptions(pub, msg, sig, &ed25519.Options{Verify: vo})
			}
			bad := append([]byte{}, sig...)
			bad[3] ^= 1
			_ = ed25519.Verify(pub, msg, bad)
			if s2, err := priv.Sign(rng, msg, &ed25519.Options{AddedRandomness: true, SelfVerify: true}); err == nil {
				_ = ed25519.Verify(pub, msg, s2)
			}
			if ex, err := ed25519.NewExpandedPublicKey(pub); err == nil {
				_ = ed25519.VerifyExpanded(ex, msg, sig)
				cy := ex.CompressedY()
				cy[0] ^= 0xff
			}
			_ = x25519.EdPrivateKeyToX25519(priv)
			_, _ = x25519.EdPublicKeyToX25519(pub)
		}
		bv := ed25519.NewBatchVerifier()
		for i := range pubs {
			bv.Add(pubs[i], msg, sigs[i])
		}
		_, _ = bv.Verify(rng)
		_ = bv.VerifyBatchOnly(rng)
		// small-order keys and signatures built from the torsion constants' encodings
		for i := 0; i < 8; i++ {
			var cy curve.CompressedEdwardsY
			cy.SetEdwardsPoint(curve.EIGHT_TORSION[i])
			sig := append(append([]byte{}, cy[:]...), make([]byte, 32)...)
			for _, vo := range []*ed25519.VerifyOptions{ed25519.VerifyOptionsDefault, ed25519.VerifyOptionsZIP_215, ed25519.VerifyOptionsStdLib} {
				_ = ed25519.VerifyWithOptions(ed25519.PublicKey(cy[:]), msg, sig, &ed25519.Options{Verify: vo})
			}
		}
	})
	step("other-protocols", func(w *mc.W) {
		rng := &seqReader{}
		msg := []byte("C20 workload")
		priv := ed25519.NewKeyFromSeed(mc.Bytes(c.Seed, "c20-seed", 9, 32))
		pub := priv.Public().(ed25519.PublicKey)
		pi := ecvrf.Prove(priv, msg)
		_, _ = ecvrf.Verify(pub, pi, msg)
		pi = ecvrf.Prove_v10(priv, msg)
		_, _ = ecvrf.Verify_v10(pub, pi, msg)
		dst := []byte("QUUX-V01-CS02-with-C20")
		_, _ = h2c.Edwards25519_XMD_SHA512_ELL2_RO(dst, msg)
		_, _ = h2c.Edwards25519_XMD_SHA512_ELL2_NU(dst, msg)
		_, _ = h2c.Edwards25519_XMD_ELL2_RO(crypto.SHA256, dst, msg)
		_, _ = h2c.Ristretto255_XMD_R255MAP_RO(crypto.SHA512, dst, msg)
		// x25519 on the exported base point (the slice itself, and a copy of it)
		k := mc.Bytes(c.Seed, "c20-x", 0, 32)
		_, _ = x25519.X25519(k, x25519.Basepoint)
		_, _ = x25519.X25519(k, append([]byte{}, x25519.Basepoint...))
		var dstb, kk [32]byte
		copy(kk[:], k)
		x25519.ScalarBaseMult(&dstb, &kk)
		var base [32]byte
		copy(base[:], x25519.Basepoint)
		x25519.ScalarMult(&dstb, &kk, &base)
		// sr25519
		if msk, err := sr25519.NewMiniSecretKeyFromBytes(mc.Bytes(c.Seed, "c20-sr", 0, 32)); err == nil {
			for _, sk := range []*sr25519.SecretKey{msk.ExpandUniform(), msk.ExpandEd25519()} {
				kp := sk.KeyPair()
				ctx := sr25519.NewSigningContext([]byte("c20"))
				if sig, err := kp.Sign(rng, ctx.NewTranscriptBytes(msg)); err == nil {
					_ = kp.PublicKey().Verify(ctx.NewTranscriptBytes(msg), sig)
					bv := sr25519.NewBatchVerifier()
					bv.Add(kp.PublicKey(), ctx.NewTranscriptBytes(msg), sig)
					bv.Add(kp.PublicKey(), ctx.NewTranscriptBytes(msg), sig)
					_, _ = bv.Verify(rng)
				}
				if mb, err := kp.PublicKey().MarshalBinary(); err == nil {
					mb[0] ^= 0xff
				}
			}
		}
	})
	_ = fmt.Sprint
	return s
}
